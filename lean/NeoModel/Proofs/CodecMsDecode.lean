/-
Helper lemmas for C18 / scparser: `Context.Next` in suffix form (`decode1`), the exact set of
instructions `getNumOfThingsFromInstr` reads as a count (`countEncodings`), and inversion lemmas for
the PUSHDATA1 / SYSCALL instructions.
-/
import NeoModel.Proofs.CodecMsScript
namespace NeoModel.Codec

/-- one instruction decoded from the remaining bytes (suffix form of `nextInstr`). -/
inductive Dec where
  | eof | err | other
  | ins (op : UInt8) (param : Bytes) (len : Nat)

def decode1 : Bytes → Dec
  | [] => .eof
  | op :: rest =>
    if op.toNat ≤ 5 then
      if rest.length < 2 ^ op.toNat then .err else .ins op (rest.take (2 ^ op.toNat)) (1 + 2 ^ op.toNat)
    else if op == opPUSHDATA1 then
      match rest with
      | [] => .err
      | l :: rest' => if rest'.length < l.toNat then .err else .ins op (rest'.take l.toNat) (1 + 1 + l.toNat)
    else if op == opSYSCALL then
      if rest.length < 4 then .err else .ins op (rest.take 4) (1 + 4)
    else if 15 ≤ op.toNat ∧ op.toNat ≤ 32 then .ins op [] 1
    else if op == opRET then .ins op [] 1
    else .other

def Dec.shift (ip : Nat) : Dec → NextRes
  | .eof => .ins opRET [] ip ip
  | .err => .err
  | .other => .other
  | .ins op p len => .ins op p ip (ip + len)

theorem nextInstr_eq_decode1 (s : Bytes) (ip : Nat) : nextInstr s ip = (decode1 (s.drop ip)).shift ip := by
  by_cases hip : s.length ≤ ip
  · rw [List.drop_eq_nil_of_le hip]
    simp [nextInstr, hip, decode1, Dec.shift]
  · have hlt : ip < s.length := by omega
    have hd : s.drop ip = s[ip] :: s.drop (ip + 1) := List.drop_eq_getElem_cons hlt
    have hg : s.getD ip 0 = s[ip] := by simp [List.getD_eq_getElem?_getD, hlt]
    have hrl : (s.drop (ip + 1)).length = s.length - (ip + 1) := List.length_drop
    rw [hd]
    unfold nextInstr decode1
    have h5 : opPUSHINT256.toNat = 5 := rfl
    have h15 : opPUSHM1.toNat = 15 := rfl
    have h32 : opPUSH16.toNat = 32 := rfl
    simp only [hip, if_false, hg, h5, h15, h32]
    generalize s[ip] = op
    by_cases c1 : op.toNat ≤ 5
    · simp only [c1, if_true, hrl]
      by_cases c2 : s.length < ip + 1 + 2 ^ op.toNat
      · have : s.length - (ip + 1) < 2 ^ op.toNat := by omega
        simp [c2, this, Dec.shift]
      · have : ¬ (s.length - (ip + 1) < 2 ^ op.toNat) := by omega
        simp only [c2, this, if_false, Dec.shift]
        congr 1
        exact Nat.add_assoc _ _ _
    · simp only [c1, if_false]
      by_cases c2 : (op == opPUSHDATA1) = true
      · simp only [c2, if_true]
        by_cases c3 : s.length ≤ ip + 1
        · rw [List.drop_eq_nil_of_le c3]
          simp [c3, Dec.shift]
        · have hlt2 : ip + 1 < s.length := by omega
          have hd2 : s.drop (ip + 1) = s[ip + 1] :: s.drop (ip + 1 + 1) := List.drop_eq_getElem_cons hlt2
          have hg2 : s.getD (ip + 1) 0 = s[ip + 1] := by simp [List.getD_eq_getElem?_getD, hlt2]
          have hrl2 : (s.drop (ip + 1 + 1)).length = s.length - (ip + 1 + 1) := List.length_drop
          rw [hd2]
          simp only [c3, if_false, hg2, hrl2]
          generalize s[ip + 1] = l
          by_cases c4 : s.length < ip + 1 + 1 + l.toNat
          · have : s.length - (ip + 1 + 1) < l.toNat := by omega
            simp [c4, this, Dec.shift]
          · have : ¬ (s.length - (ip + 1 + 1) < l.toNat) := by omega
            simp only [c4, this, if_false, Dec.shift]
            congr 1
            omega
      · simp only [c2]
        by_cases c3 : (op == opSYSCALL) = true
        · simp only [c3, if_true, hrl]
          by_cases c4 : s.length < ip + 1 + 4
          · have : s.length - (ip + 1) < 4 := by omega
            simp [c4, this, Dec.shift]
          · have : ¬ (s.length - (ip + 1) < 4) := by omega
            simp only [c4, this, if_false, Dec.shift]
            congr 1
        · simp only [c3]
          by_cases c4 : 15 ≤ op.toNat ∧ op.toNat ≤ 32
          · simp [c4, Dec.shift]
          · simp only [c4, if_false]
            by_cases c5 : (op == opRET) = true
            · simp [c5, Dec.shift]
            · simp [c5, Dec.shift]

def countEnc (p v : Nat) : Bytes := UInt8.ofNat p :: leBytes (2 ^ p) v

/-- every instruction that `getNumOfThingsFromInstr` reads as the count `v`. -/
def countEncodings (v : Nat) : List Bytes :=
  (if v ≤ 16 then [[UInt8.ofNat (16 + v)]] else []) ++
  (if v ≤ 127 then [countEnc 0 v] else []) ++
  [countEnc 1 v, countEnc 2 v, countEnc 3 v, countEnc 4 v, countEnc 5 v]

theorem leVal_append (a b : Bytes) : leVal (a ++ b) = leVal a + 256 ^ a.length * leVal b := by
  induction a with
  | nil => simp [leVal]
  | cons x xs ih =>
    simp only [List.cons_append, leVal, ih, List.length_cons, Nat.pow_succ]
    rw [Nat.mul_add, Nat.add_assoc]
    congr 2
    rw [← Nat.mul_assoc, Nat.mul_comm 256]

theorem leVal_allzero (b : Bytes) (h : b.any (· != 0) = false) : leVal b = 0 := by
  rw [leVal_eq_zero_iff, stripT_eq_nil_iff]
  intro x hx
  have := List.any_eq_false.mp h x hx
  simpa using this

theorem pow256 (k : Nat) : (256 : Nat) ^ k = 2 ^ (8 * k) := by
  rw [show (256 : Nat) = 2 ^ 8 by rfl, ← Nat.pow_mul]

theorem u8ofNat_toNat (p : Nat) (h : p < 256) : (UInt8.ofNat p).toNat = p := by
  simp [UInt8.toNat_ofNat']; omega

/-- reading a PUSHINT* parameter as a count in 1..1024 forces the zero-extended little-endian form. -/
theorem getInt64_count_inv (p : Nat) (hp : p ≤ 5) (param : Bytes) (hl : param.length = 2 ^ p) (n : Int)
    (h : getInt64FromInstr (UInt8.ofNat p) param = some n) (h1 : 1 ≤ n) (h2 : n ≤ 1024) :
    param = leBytes (2 ^ p) n.toNat ∧ (p = 0 → n ≤ 127) := by
  have hop : (UInt8.ofNat p).toNat = p := u8ofNat_toNat p (by omega)
  have h15 : opPUSHM1.toNat = 15 := rfl
  have hne : param ≠ [] := by
    intro h0; rw [h0] at hl; simp at hl
    have := Nat.pow_pos (n := p) (show 0 < 2 by omega); omega
  unfold getInt64FromInstr at h
  have c0 : ¬ (15 ≤ p ∧ p ≤ opPUSH16.toNat) := by omega
  simp only [hop, h15, c0, if_false] at h
  by_cases c1 : p ≤ 3
  · simp only [c1, if_true, getInt64FromInstr.fromBytesFixed, Option.some.injEq] at h
    have hlt := leVal_lt param
    rw [pow256] at hlt
    by_cases hs : isNegB param = true
    · simp only [hs, if_true] at h
      have : ((leVal param : Nat) : Int) < (2 : Int) ^ (8 * param.length) := by exact_mod_cast hlt
      simp only [Int.ofNat_eq_natCast] at h
      omega
    · have hs' : isNegB param = false := by simpa using hs
      simp only [hs', Bool.false_eq_true, if_false, Int.ofNat_eq_natCast] at h
      have hv : leVal param = n.toNat := by omega
      constructor
      · rw [← hv, ← hl]; exact (leBytes_leVal param).symm
      · intro hp0
        have := (isNegB_false_iff param hne).mp hs'
        rw [hl, hp0] at this
        simp at this
        omega
  · simp only [c1, if_false, hp, if_true] at h
    by_cases c2 : (param.drop 8).any (· != 0) = true
    · simp [c2] at h
    · have c2' : (param.drop 8).any (· != 0) = false := by simpa using c2
      simp only [c2', Bool.false_eq_true, if_false] at h
      by_cases c3 : 128 ≤ (param.getD 7 0).toNat
      · simp only [c3, if_true] at h; cases h
      · simp only [c3, if_false, Option.some.injEq, Int.ofNat_eq_natCast] at h
        have hsplit : param = param.take 8 ++ param.drop 8 := (List.take_append_drop 8 param).symm
        have hv : leVal param = n.toNat := by
          rw [hsplit, leVal_append, leVal_allzero _ c2']
          omega
        constructor
        · rw [← hv, ← hl]; exact (leBytes_leVal param).symm
        · intro hp0; omega

theorem leBytes_small (n v : Nat) (hv : v < 65536) :
    leBytes (n + 2) v = UInt8.ofNat (v % 256) :: UInt8.ofNat (v / 256 % 256) :: List.replicate n 0 := by
  have h0 : v / 256 / 256 = 0 := by omega
  simp only [leBytes, h0]
  congr 2
  clear h0 hv
  induction n with
  | zero => rfl
  | succ k ih => simp [leBytes, List.replicate_succ, ih]

theorem getInt64_count (p v : Nat) (hp : p ≤ 5) (h1 : 1 ≤ v) (h2 : v ≤ 1024) (h0 : p = 0 → v ≤ 127) :
    getInt64FromInstr (UInt8.ofNat p) (leBytes (2 ^ p) v) = some (v : Int) := by
  have hop : (UInt8.ofNat p).toNat = p := u8ofNat_toNat p (by omega)
  have h15 : opPUSHM1.toNat = 15 := rfl
  have c0 : ¬ (15 ≤ p ∧ p ≤ opPUSH16.toNat) := by omega
  have hlen : (leBytes (2 ^ p) v).length = 2 ^ p := leBytes_length _ _
  have hne : leBytes (2 ^ p) v ≠ [] := by
    intro h; rw [h] at hlen; simp at hlen
    have := Nat.pow_pos (n := p) (show 0 < 2 by omega); omega
  unfold getInt64FromInstr
  simp only [hop, h15, c0, if_false]
  by_cases c1 : p ≤ 3
  · simp only [c1, if_true, getInt64FromInstr.fromBytesFixed]
    have hval : leVal (leBytes (2 ^ p) v) = v := by
      apply leVal_leBytes
      have : 256 ^ 1 ≤ 256 ^ (2 ^ p) := Nat.pow_le_pow_right (by omega) (Nat.pow_pos (by omega))
      rcases Nat.eq_zero_or_pos p with hp0 | hpp
      · subst hp0; have := h0 rfl; simp; omega
      · have : 256 ^ 2 ≤ 256 ^ (2 ^ p) := Nat.pow_le_pow_right (by omega) (by
          have := Nat.pow_le_pow_right (show 0 < 2 by omega) hpp; simpa using this)
        omega
    have hs : isNegB (leBytes (2 ^ p) v) = false := by
      rw [isNegB_false_iff _ hne, hval, hlen]
      rcases Nat.eq_zero_or_pos p with hp0 | hpp
      · subst hp0; have := h0 rfl; simp; omega
      · have h2p : 1 ≤ 2 ^ p - 1 := by
          have := Nat.pow_le_pow_right (show 0 < 2 by omega) hpp; omega
        have : 256 ^ 1 ≤ 256 ^ (2 ^ p - 1) := Nat.pow_le_pow_right (by omega) h2p
        omega
    simp [hs, hval]
  · have hp45 : p = 4 ∨ p = 5 := by omega
    simp only [c1, if_false, hp, if_true]
    rcases hp45 with rfl | rfl
    · rw [show (2 : Nat) ^ 4 = 14 + 2 by rfl, leBytes_small 14 v (by omega)]
      simp [List.replicate, leVal, List.getD]
      omega
    · rw [show (2 : Nat) ^ 5 = 30 + 2 by rfl, leBytes_small 30 v (by omega)]
      simp [List.replicate, leVal, List.getD]
      omega

theorem getNum_some (op : UInt8) (param : Bytes) (v : Nat) (h : getNumOfThings op param = some v) :
    ∃ n : Int, getInt64FromInstr op param = some n ∧ 1 ≤ n ∧ n ≤ 1024 ∧ v = n.toNat := by
  unfold getNumOfThings at h
  cases hg : getInt64FromInstr op param with
  | none => simp [hg] at h
  | some n =>
    simp only [hg] at h
    by_cases c : n < 1 ∨ 1024 < n
    · simp [c] at h
    · simp only [c, if_false, Option.some.injEq] at h
      exact ⟨n, rfl, by omega, by omega, h.symm⟩

theorem u8_ofNat_toNat_self (op : UInt8) : UInt8.ofNat op.toNat = op := by
  apply UInt8.toNat_inj.mp
  rw [u8ofNat_toNat _ op.toNat_lt]

theorem mem_countEncodings_push (v : Nat) (h : v ≤ 16) : [UInt8.ofNat (16 + v)] ∈ countEncodings v := by
  simp [countEncodings, h]

theorem mem_countEncodings_enc (p v : Nat) (hp : p ≤ 5) (h0 : p = 0 → v ≤ 127) : countEnc p v ∈ countEncodings v := by
  have : p = 0 ∨ p = 1 ∨ p = 2 ∨ p = 3 ∨ p = 4 ∨ p = 5 := by omega
  rcases this with rfl | rfl | rfl | rfl | rfl | rfl <;> simp [countEncodings]
  · right; left; exact h0 rfl

/-- (A) whatever decodes as a count instruction is one of the listed encodings. -/
theorem count_dec_inv (r : Bytes) (op : UInt8) (param : Bytes) (len v : Nat)
    (hd : decode1 r = .ins op param len) (hg : getNumOfThings op param = some v) :
    1 ≤ v ∧ v ≤ 1024 ∧ (op == opPUSHDATA1) = false ∧
      ∃ a ∈ countEncodings v, r = a ++ r.drop len ∧ a.length = len := by
  obtain ⟨n, hn, h1, h2, hv⟩ := getNum_some op param v hg
  have hv1 : 1 ≤ v := by omega
  have hv2 : v ≤ 1024 := by omega
  cases r with
  | nil => simp [decode1] at hd
  | cons o rest =>
    unfold decode1 at hd
    by_cases c1 : o.toNat ≤ 5
    · simp only [c1, if_true] at hd
      by_cases c2 : rest.length < 2 ^ o.toNat
      · simp [c2] at hd
      · simp only [c2, if_false] at hd
        injection hd with e1 e2 e3; subst e1 e2 e3
        have hl : (rest.take (2 ^ o.toNat)).length = 2 ^ o.toNat := by
          rw [List.length_take]; omega
        have hn' : getInt64FromInstr (UInt8.ofNat o.toNat) (rest.take (2 ^ o.toNat)) = some n := by
          rw [u8_ofNat_toNat_self]; exact hn
        obtain ⟨hp, h0⟩ := getInt64_count_inv o.toNat c1 _ hl n hn' h1 h2
        refine ⟨hv1, hv2, ?_, countEnc o.toNat v, mem_countEncodings_enc _ _ c1 (by intro h; have := h0 h; omega), ?_, ?_⟩
        · apply beq_false_of_ne; intro h; subst h; simp [opPUSHDATA1] at c1
        · unfold countEnc
          rw [u8_ofNat_toNat_self, hv, ← hp]
          simp [Nat.add_comm 1]
        · simp [countEnc, leBytes_length, Nat.add_comm]
    · simp only [c1, if_false] at hd
      have hno : ∀ (x : UInt8), (x.toNat = 12 ∨ x.toNat = 65 ∨ x.toNat = 64) → getInt64FromInstr x param = none := by
        intro x hx
        unfold getInt64FromInstr
        have h15 : opPUSHM1.toNat = 15 := rfl
        have h32 : opPUSH16.toNat = 32 := rfl
        have a1 : ¬ (15 ≤ x.toNat ∧ x.toNat ≤ 32) := by omega
        have a2 : ¬ (x.toNat ≤ 3) := by omega
        have a3 : ¬ (x.toNat ≤ 5) := by omega
        simp only [h15, h32, a1, a2, a3, if_false]
      by_cases c2 : (o == opPUSHDATA1) = true
      · simp only [c2, if_true] at hd
        have ho : o = opPUSHDATA1 := by simpa using c2
        cases rest with
        | nil => simp at hd
        | cons l rest' =>
          simp only at hd
          by_cases c3 : rest'.length < l.toNat
          · simp [c3] at hd
          · simp only [c3, if_false] at hd
            injection hd with e1 e2 e3; subst e1 e2 e3
            rw [hno o (by left; rw [ho]; rfl)] at hn
            cases hn
      · simp only [c2] at hd
        by_cases c3 : (o == opSYSCALL) = true
        · simp only [c3, if_true] at hd
          have ho : o = opSYSCALL := by simpa using c3
          by_cases c4 : rest.length < 4
          · simp [c4] at hd
          · simp only [c4, if_false] at hd
            injection hd with e1 e2 e3; subst e1 e2 e3
            rw [hno o (by right; left; rw [ho]; rfl)] at hn
            cases hn
        · simp only [c3] at hd
          by_cases c4 : 15 ≤ o.toNat ∧ o.toNat ≤ 32
          · simp only [c4, and_self, if_true] at hd
            injection hd with e1 e2 e3; subst e1 e2 e3
            unfold getInt64FromInstr at hn
            have h15 : opPUSHM1.toNat = 15 := rfl
            have h32 : opPUSH16.toNat = 32 := rfl
            simp only [h15, h32, c4, and_self, if_true, Option.some.injEq] at hn
            have hov : o.toNat = 16 + v := by omega
            have ho : o = UInt8.ofNat (16 + v) := by rw [← hov, u8_ofNat_toNat_self]
            refine ⟨hv1, hv2, by simpa using c2, [o], ?_, by simp, rfl⟩
            rw [ho]; exact mem_countEncodings_push v (by omega)
          · simp only [c4, if_false] at hd
            by_cases c5 : (o == opRET) = true
            · simp only [c5, if_true] at hd
              have ho : o = opRET := by simpa using c5
              injection hd with e1 e2 e3; subst e1 e2 e3
              rw [hno o (by right; right; rw [ho]; rfl)] at hn
              cases hn
            · simp [c5] at hd

theorem getNum_of_int64 (op : UInt8) (param : Bytes) (v : Nat) (h1 : 1 ≤ v) (h2 : v ≤ 1024)
    (h : getInt64FromInstr op param = some (v : Int)) : getNumOfThings op param = some v := by
  unfold getNumOfThings
  rw [h]
  have c : ¬ ((v : Int) < 1 ∨ 1024 < (v : Int)) := by omega
  simp only [c, if_false]
  simp

/-- (B) each listed encoding decodes as one instruction that reads as the count `v`. -/
theorem count_dec (v : Nat) (a : Bytes) (ha : a ∈ countEncodings v) (h1 : 1 ≤ v) (h2 : v ≤ 1024) :
    ∃ op param, (∀ post, decode1 (a ++ post) = .ins op param a.length) ∧
      getNumOfThings op param = some v ∧ (op == opPUSHDATA1) = false := by
  have key : ∀ p, p ≤ 5 → (p = 0 → v ≤ 127) → ∃ op param, (∀ post, decode1 (countEnc p v ++ post) = .ins op param (countEnc p v).length) ∧
      getNumOfThings op param = some v ∧ (op == opPUSHDATA1) = false := by
    intro p hp h0
    have hop : (UInt8.ofNat p).toNat = p := u8ofNat_toNat p (by omega)
    refine ⟨UInt8.ofNat p, leBytes (2 ^ p) v, ?_, getNum_of_int64 _ _ v h1 h2 (getInt64_count p v hp h1 h2 h0), ?_⟩
    · intro post
      simp only [countEnc, List.cons_append, decode1, hop, hp, if_true, List.length_append, leBytes_length, List.length_cons]
      have c : ¬ (2 ^ p + post.length < 2 ^ p) := by omega
      simp only [c, if_false]
      congr 1
      · rw [List.take_left' (leBytes_length _ _)]
      · omega
    · apply beq_false_of_ne; intro h
      have := congrArg UInt8.toNat h; rw [hop] at this; simp [opPUSHDATA1] at this; omega
  simp only [countEncodings, List.mem_append, List.mem_cons, List.not_mem_nil, or_false] at ha
  rcases ha with (ha | ha) | ha
  · by_cases c : v ≤ 16
    · simp only [c, if_true, List.mem_cons, List.not_mem_nil, or_false] at ha
      subst ha
      have hop : (UInt8.ofNat (16 + v)).toNat = 16 + v := u8ofNat_toNat _ (by omega)
      have hne : (UInt8.ofNat (16 + v) == opPUSHDATA1) = false := by
        apply beq_false_of_ne; intro h
        have := congrArg UInt8.toNat h; rw [hop] at this; simp [opPUSHDATA1] at this; omega
      have hne2 : (UInt8.ofNat (16 + v) == opSYSCALL) = false := by
        apply beq_false_of_ne; intro h
        have := congrArg UInt8.toNat h; rw [hop] at this; simp [opSYSCALL] at this; omega
      generalize UInt8.ofNat (16 + v) = o at hop hne hne2
      refine ⟨o, [], ?_, ?_, hne⟩
      · intro post
        have c1 : ¬ (16 + v ≤ 5) := by omega
        have c4 : 15 ≤ 16 + v ∧ 16 + v ≤ 32 := by omega
        simp only [List.cons_append, List.nil_append, decode1, hop, c1, hne, hne2, c4, and_self, if_true, if_false,
          Bool.false_eq_true, List.length_cons, List.length_nil]
      · apply getNum_of_int64 _ _ v h1 h2
        unfold getInt64FromInstr
        have h15 : opPUSHM1.toNat = 15 := rfl
        have h32 : opPUSH16.toNat = 32 := rfl
        have c4 : 15 ≤ 16 + v ∧ 16 + v ≤ 32 := by omega
        simp only [hop, h15, h32, c4, and_self, if_true]
        congr 1; omega
    · simp [c] at ha
  · by_cases c : v ≤ 127
    · simp only [c, if_true, List.mem_cons, List.not_mem_nil, or_false] at ha
      subst ha; exact key 0 (by omega) (fun _ => c)
    · simp [c] at ha
  · rcases ha with rfl | rfl | rfl | rfl | rfl
    · exact key 1 (by omega) (by omega)
    · exact key 2 (by omega) (by omega)
    · exact key 3 (by omega) (by omega)
    · exact key 4 (by omega) (by omega)
    · exact key 5 (by omega) (by omega)

/-- the PUSHDATA1 instruction carrying `k`. -/
def pd1 (k : Bytes) : Bytes := opPUSHDATA1 :: UInt8.ofNat k.length :: k

theorem pd1_dec (k post : Bytes) (hk : k.length ≤ 255) :
    decode1 (pd1 k ++ post) = .ins opPUSHDATA1 k (1 + 1 + k.length) := by
  have hn : (UInt8.ofNat k.length).toNat = k.length := u8ofNat_toNat _ (by omega)
  have c1 : ¬ (opPUSHDATA1.toNat ≤ 5) := by decide
  have c : ¬ (k.length + post.length < k.length) := by omega
  simp only [pd1, List.cons_append, decode1, c1, if_false, beq_self_eq_true, if_true, hn, List.length_append, c]
  rw [List.take_left' rfl]

theorem pd1_dec_inv (r param : Bytes) (len : Nat) (h : decode1 r = .ins opPUSHDATA1 param len) :
    r = pd1 param ++ r.drop len ∧ len = 1 + 1 + param.length ∧ param.length ≤ 255 := by
  cases r with
  | nil => simp [decode1] at h
  | cons o rest =>
    unfold decode1 at h
    by_cases c1 : o.toNat ≤ 5
    · simp only [c1, if_true] at h
      by_cases c2 : rest.length < 2 ^ o.toNat
      · simp [c2] at h
      · simp only [c2, if_false] at h
        injection h with e1 e2 e3; subst e1; simp [opPUSHDATA1] at c1
    · simp only [c1, if_false] at h
      by_cases c2 : (o == opPUSHDATA1) = true
      · simp only [c2, if_true] at h
        have ho : o = opPUSHDATA1 := by simpa using c2
        cases rest with
        | nil => simp at h
        | cons l rest' =>
          simp only at h
          by_cases c3 : rest'.length < l.toNat
          · simp [c3] at h
          · simp only [c3, if_false] at h
            injection h with e1 e2 e3
            have hl : param.length = l.toNat := by rw [← e2, List.length_take]; omega
            refine ⟨?_, by omega, by have := l.toNat_lt; omega⟩
            rw [← e3, ho]
            have h11 : 1 + 1 + l.toNat = l.toNat + 1 + 1 := by omega
            simp only [pd1, hl, u8_ofNat_toNat_self, List.cons_append, h11, List.drop_succ_cons]
            rw [← e2, List.take_append_drop]
      · simp only [c2] at h
        have ho : ¬ (o = opPUSHDATA1) := by simpa using c2
        by_cases c3 : (o == opSYSCALL) = true
        · simp only [c3, if_true] at h
          by_cases c4 : rest.length < 4
          · simp [c4] at h
          · simp only [c4, if_false] at h
            injection h with e1 e2 e3; exact absurd e1 ho
        · simp only [c3] at h
          by_cases c4 : 15 ≤ o.toNat ∧ o.toNat ≤ 32
          · simp only [c4, and_self, if_true] at h
            injection h with e1 e2 e3; exact absurd e1 ho
          · simp only [c4, if_false] at h
            by_cases c5 : (o == opRET) = true
            · simp only [c5, if_true] at h
              injection h with e1 e2 e3; exact absurd e1 ho
            · simp [c5] at h

theorem syscall_dec (id post : Bytes) (hid : id.length = 4) :
    decode1 (opSYSCALL :: id ++ post) = .ins opSYSCALL id (1 + 4) := by
  have c1 : ¬ (opSYSCALL.toNat ≤ 5) := by decide
  have c2 : (opSYSCALL == opPUSHDATA1) = false := by decide
  have c : ¬ (id.length + post.length < 4) := by omega
  simp only [List.cons_append, decode1, c1, if_false, c2, Bool.false_eq_true, beq_self_eq_true, if_true, List.length_append, c]
  rw [List.take_left' hid]

theorem syscall_dec_inv (r param : Bytes) (len : Nat) (h : decode1 r = .ins opSYSCALL param len) :
    r = opSYSCALL :: param ++ r.drop len ∧ len = 1 + 4 ∧ param.length = 4 := by
  cases r with
  | nil => simp [decode1] at h
  | cons o rest =>
    unfold decode1 at h
    by_cases c1 : o.toNat ≤ 5
    · simp only [c1, if_true] at h
      by_cases c2 : rest.length < 2 ^ o.toNat
      · simp [c2] at h
      · simp only [c2, if_false] at h
        injection h with e1 e2 e3; subst e1; simp [opSYSCALL] at c1
    · simp only [c1, if_false] at h
      by_cases c2 : (o == opPUSHDATA1) = true
      · simp only [c2, if_true] at h
        cases rest with
        | nil => simp at h
        | cons l rest' =>
          simp only at h
          by_cases c3 : rest'.length < l.toNat
          · simp [c3] at h
          · simp only [c3, if_false] at h
            injection h with e1 e2 e3; subst e1; simp [opSYSCALL, opPUSHDATA1] at c2
      · simp only [c2] at h
        by_cases c3 : (o == opSYSCALL) = true
        · simp only [c3, if_true] at h
          have ho : o = opSYSCALL := by simpa using c3
          by_cases c4 : rest.length < 4
          · simp [c4] at h
          · simp only [c4, if_false] at h
            injection h with e1 e2 e3
            have hl : param.length = 4 := by rw [← e2, List.length_take]; omega
            refine ⟨?_, by omega, hl⟩
            rw [← e3, ho]
            simp only [List.cons_append, show 1 + 4 = 4 + 1 from rfl, List.drop_succ_cons]
            rw [← e2, List.take_append_drop]
        · simp only [c3] at h
          have ho : ¬ (o = opSYSCALL) := by simpa using c3
          by_cases c4 : 15 ≤ o.toNat ∧ o.toNat ≤ 32
          · simp only [c4, and_self, if_true] at h
            injection h with e1 e2 e3; exact absurd e1 ho
          · simp only [c4, if_false] at h
            by_cases c5 : (o == opRET) = true
            · simp only [c5, if_true] at h
              injection h with e1 e2 e3; exact absurd e1 ho
            · simp [c5] at h

end NeoModel.Codec
