/-
Helper lemmas for C18 / key ordering: `pkCmp` is a total order whose equivalence is equality, the
sort returns the unique sorted permutation, hence it is invariant under permutations of its input.
-/
import NeoModel.Model.Codec.MsSort
namespace NeoModel.Codec

theorem pkLe_total (a b : PubKey) : pkLe a b = true ∨ pkLe b a = true := by
  rcases a with _ | ⟨x1, y1⟩ <;> rcases b with _ | ⟨x2, y2⟩ <;> simp [pkLe, pkCmp]
  by_cases h1 : x1 < x2
  · simp [h1]
  · by_cases h2 : x2 < x1
    · simp [h1, h2]
    · by_cases h3 : y1 < y2
      · simp [h1, h2, h3]
      · by_cases h4 : y2 < y1
        · right; simp [h1, h2, h4]
        · simp [h1, h2, h3, h4]

theorem pkLe_iff (a b : PubKey) : pkLe a b = true ↔
    match a, b with
    | none, _ => True
    | some _, none => False
    | some (x1, y1), some (x2, y2) => x1 < x2 ∨ (x1 = x2 ∧ y1 ≤ y2) := by
  rcases a with _ | ⟨x1, y1⟩ <;> rcases b with _ | ⟨x2, y2⟩ <;> simp [pkLe, pkCmp]
  by_cases h1 : x1 < x2
  · simp [h1]
  · by_cases h2 : x2 < x1
    · simp [h1, h2]; omega
    · have : x1 = x2 := by omega
      subst this
      by_cases h3 : y1 < y2
      · simp [h3]; omega
      · by_cases h4 : y2 < y1
        · simp [h3, h4]
        · simp [h3, h4]; omega

theorem pkLe_trans (a b c : PubKey) (h1 : pkLe a b = true) (h2 : pkLe b c = true) : pkLe a c = true := by
  rw [pkLe_iff] at *
  rcases a with _ | ⟨x1, y1⟩ <;> rcases b with _ | ⟨x2, y2⟩ <;> rcases c with _ | ⟨x3, y3⟩ <;> simp_all
  omega

theorem pkLe_antisymm (a b : PubKey) (h1 : pkLe a b = true) (h2 : pkLe b a = true) : a = b := by
  rw [pkLe_iff] at *
  rcases a with _ | ⟨x1, y1⟩ <;> rcases b with _ | ⟨x2, y2⟩ <;> simp_all
  omega

theorem insertKey_perm (k : PubKey) (l : List PubKey) : (insertKey k l).Perm (k :: l) := by
  induction l with
  | nil => simp [insertKey]
  | cons h t ih =>
    simp only [insertKey]
    split
    · exact List.Perm.refl _
    · exact (List.Perm.cons h ih).trans (List.Perm.swap k h t)

theorem sortKeys_perm (l : List PubKey) : (sortKeys l).Perm l := by
  induction l with
  | nil => exact List.Perm.refl _
  | cons k ks ih => exact (insertKey_perm k _).trans (List.Perm.cons k ih)

theorem insertKey_sorted (k : PubKey) (l : List PubKey) (h : l.Pairwise (fun a b => pkLe a b = true)) :
    (insertKey k l).Pairwise (fun a b => pkLe a b = true) := by
  induction l with
  | nil => simp [insertKey]
  | cons x t ih =>
    simp only [insertKey]
    rw [List.pairwise_cons] at h
    split
    · rename_i hk
      rw [List.pairwise_cons]
      refine ⟨?_, List.pairwise_cons.mpr h⟩
      intro b hb
      rcases List.mem_cons.mp hb with rfl | hb
      · exact hk
      · exact pkLe_trans _ _ _ hk (h.1 b hb)
    · rename_i hk
      rw [List.pairwise_cons]
      refine ⟨?_, ih h.2⟩
      intro b hb
      have := (insertKey_perm k t).mem_iff.mp hb
      rcases List.mem_cons.mp this with rfl | hb
      · rcases pkLe_total b x with h' | h'
        · exact absurd h' hk
        · exact h'
      · exact h.1 b hb

theorem sortKeys_sorted (l : List PubKey) : (sortKeys l).Pairwise (fun a b => pkLe a b = true) := by
  induction l with
  | nil => simp [sortKeys]
  | cons k ks ih => exact insertKey_sorted k _ ih

theorem sorted_perm_eq : ∀ (l1 l2 : List PubKey), l1.Pairwise (fun a b => pkLe a b = true) →
    l2.Pairwise (fun a b => pkLe a b = true) → l1.Perm l2 → l1 = l2 := by
  intro l1
  induction l1 with
  | nil => intro l2 _ _ hp; exact hp.nil_eq
  | cons a t1 ih =>
    intro l2 h1 h2 hp
    cases l2 with
    | nil => exact absurd hp.symm.nil_eq (by simp)
    | cons b t2 =>
      rw [List.pairwise_cons] at h1 h2
      have hab : a = b := by
        have ha : a ∈ b :: t2 := hp.mem_iff.mp (by simp)
        have hb : b ∈ a :: t1 := hp.mem_iff.mpr (by simp)
        rcases List.mem_cons.mp ha with rfl | ha
        · rfl
        · rcases List.mem_cons.mp hb with rfl | hb
          · rfl
          · exact pkLe_antisymm _ _ (h1.1 b hb) (h2.1 a ha)
      subst hab
      congr 1
      exact ih t2 h1.2 h2.2 (List.Perm.cons_inv hp)

theorem sortKeys_perm_invariant (l1 l2 : List PubKey) (h : l1.Perm l2) : sortKeys l1 = sortKeys l2 :=
  sorted_perm_eq _ _ (sortKeys_sorted l1) (sortKeys_sorted l2)
    ((sortKeys_perm l1).trans (h.trans (sortKeys_perm l2).symm))

end NeoModel.Codec
