/- C07 helper lemmas (see Props/C07.lean for the property theorems). -/
import NeoModel.Proofs.FeesGas
namespace NeoModel.Fees
open NeoModel.Generated.FeeConsts
open NeoModel.Wire (leBytes leVal)

/-! ### running concrete instruction encodings (no gas limit) -/

theorem runBytes_append (e : Env) (s : VM) (a b : Bytes) :
    runBytes e s (a ++ b) = (runBytes e s a).bind fun s' => runBytes e s' b := by
  simp [runBytes, List.foldlM_append]

theorem runBytes_cons (e : Env) (s : VM) (b : UInt8) (bs : Bytes) :
    runBytes e s (b :: bs) = (step e s b).bind fun s' => runBytes e s' bs := by
  simp [runBytes, List.foldlM_cons]

@[simp] theorem runBytes_nil (e : Env) (s : VM) : runBytes e s [] = some s := by simp [runBytes]

theorem exec_mode (e : Env) (s : VM) (m : Mode) (opc : Nat) (x : Bytes) :
    exec e { s with mode := m } opc x = exec e s opc x := by
  simp [exec]

/-- operand bytes are collected, then the instruction executes. -/
theorem run_data (e : Env) (opc : Nat) : ∀ (d acc : Bytes) (s : VM), d ≠ [] →
    runBytes e { s with mode := .data opc d.length acc } d = exec e s opc (acc ++ d) := by
  intro d
  induction d with
  | nil => intro _ _ h; exact absurd rfl h
  | cons b d ih =>
    intro acc s _
    rw [runBytes_cons]
    cases d with
    | nil =>
      simp [step, exec_mode]
    | cons b' d' =>
      have hlen : ¬ ((b :: b' :: d').length ≤ 1) := by simp
      simp only [step, hlen, if_false, Option.bind_some]
      have := ih (acc ++ [b]) s (by simp)
      simp only [List.length_cons] at this ⊢
      simp only [Nat.add_sub_cancel]
      rw [this]
      simp

end NeoModel.Fees

namespace NeoModel.Fees
open NeoModel.Generated.FeeConsts
open NeoModel.Wire (leBytes leVal)

/-- unlimited environment built from its parts. -/
abbrev envU (base : Nat) (gorgon : Bool) (vk : Bytes → Bool) (vf : Bytes → Bytes → Bool) : Env := ⟨base, none, gorgon, vk, vf⟩

theorem charge_none (base g vk vf) (s : VM) (p : Nat) :
    charge (envU base g vk vf) s p = some { s with gas := s.gas + p } := by simp [charge]

theorem exec_pushdata1 (base g vk vf) (s : VM) (x : Bytes) (hst : s.stack.length + 1 ≤ maxStackSize) :
    exec (envU base g vk vf) s opPUSHDATA1 x
      = some ⟨.bytes x :: s.stack, s.gas + coeff opPUSHDATA1 * base, .op⟩ := by
  have h1 : ¬ opPUSHDATA1 ≤ opPUSHINT256 := by decide
  simp [exec, charge_none, execBody, h1, stackCheck]
  omega

theorem toNat_ofNat_lt (n : Nat) (h : n < 256) : (UInt8.ofNat n).toNat = n := by
  simp [UInt8.toNat_ofNat']; omega

theorem leVal_single (b : UInt8) : leVal [b] = b.toNat := by simp [leVal]

/-- `emit.Bytes(b)` for `len(b) < 256` pushes `b` for the price of PUSHDATA1. -/
theorem run_emitBytes (base g vk vf) (s : VM) (b : Bytes) (hb : b.length < 256) (hm : s.mode = .op)
    (hst : s.stack.length + 1 ≤ maxStackSize) :
    runBytes (envU base g vk vf) s (emitBytes b)
      = some ⟨.bytes b :: s.stack, s.gas + coeff opPUSHDATA1 * base, .op⟩ := by
  have hb' : b.length < 0x100 := hb
  have hop : (UInt8.ofNat opPUSHDATA1).toNat = opPUSHDATA1 := by decide
  have h1 : ¬ opPUSHDATA1 ≤ opPUSHINT256 := by decide
  simp only [emitBytes, hb', if_true]
  rw [runBytes_cons]
  simp only [step, hm, hop, h1, if_false, if_true, Option.bind_some]
  rw [runBytes_cons]
  simp only [step, List.nil_append, Nat.le_refl, if_true, leVal_single, toNat_ofNat_lt _ hb]
  cases b with
  | nil =>
    simp only [List.length_nil, if_true]
    rw [exec_mode, exec_pushdata1 _ _ _ _ _ _ hst]
    simp
  | cons x xs =>
    have : ¬ ((x :: xs).length = 0) := by simp
    simp only [this, if_false, Option.bind_some]
    have := run_data (envU base g vk vf) opPUSHDATA1 (x :: xs) [] s (by simp)
    rw [this, List.nil_append, exec_pushdata1 _ _ _ _ _ _ hst]

/-- a sequence of `emit.Bytes` pushes. -/
theorem run_pushes (base g vk vf) : ∀ (bs : List Bytes) (s : VM), (∀ b ∈ bs, b.length < 256) → s.mode = .op →
    s.stack.length + bs.length ≤ maxStackSize →
    runBytes (envU base g vk vf) s (bs.flatMap emitBytes)
      = some ⟨bs.reverse.map .bytes ++ s.stack, s.gas + bs.length * (coeff opPUSHDATA1 * base), .op⟩ := by
  intro bs
  induction bs with
  | nil => intro s _ hm _; cases s; simp_all
  | cons b bs ih =>
    intro s hall hm hst
    simp only [List.flatMap_cons, runBytes_append]
    rw [run_emitBytes base g vk vf s b (hall b (by simp)) hm (by simp at hst; omega)]
    simp only [Option.bind_some]
    rw [ih _ (fun x hx => hall x (by simp [hx])) rfl (by simp at hst ⊢; omega)]
    simp only [List.reverse_cons, List.map_append, List.map_cons, List.map_nil, List.append_assoc,
      List.cons_append, List.nil_append, List.length_cons]
    congr 2
    rw [Nat.add_mul]; omega

end NeoModel.Fees

namespace NeoModel.Fees
open NeoModel.Generated.FeeConsts
open NeoModel.Wire (leBytes leVal)

theorem leVal_leBytes' (n v : Nat) (h : v < 256 ^ n) : leVal (leBytes n v) = v := by
  induction n generalizing v with
  | zero => simp at h; simp [leBytes, leVal, h]
  | succ n ih =>
    have h2 : v / 256 < 256 ^ n := by
      rw [Nat.div_lt_iff_lt_mul (by decide)]; rw [Nat.pow_succ] at h; exact h
    simp only [leBytes, leVal, ih _ h2]
    have : (UInt8.ofNat (v % 256)).toNat = v % 256 := by
      simp [UInt8.toNat_ofNat']
    rw [this]; omega

theorem leBytes_length' (n v : Nat) : (leBytes n v).length = n := by
  induction n generalizing v with
  | zero => rfl
  | succ n ih => simp [leBytes, ih]

theorem signedLE_leBytes (n v : Nat) (hn : 1 ≤ n) (h : v < 2 ^ (8 * n - 1)) : signedLE (leBytes n v) = (v : Int) := by
  have h256 : (256 : Nat) ^ n = 2 ^ (8 * n) := by
    rw [show (256 : Nat) = 2 ^ 8 by rfl, ← Nat.pow_mul]
  have hlt : v < 256 ^ n := by
    rw [h256]
    exact Nat.lt_of_lt_of_le h (Nat.pow_le_pow_right (by decide) (by omega))
  simp only [signedLE, leBytes_length', leVal_leBytes' n v hlt, h, if_true]

/-- the opcode `emit.Int(i)` starts with. -/
def intOp (i : Nat) : Nat := ((emitInt i).headD 0).toNat

theorem exec_pushint (base g vk vf) (s : VM) (opc : Nat) (x : Bytes) (hop : opc ≤ opPUSHINT256)
    (hst : s.stack.length + 1 ≤ maxStackSize) :
    exec (envU base g vk vf) s opc x = some ⟨.int (signedLE x) :: s.stack, s.gas + coeff opc * base, .op⟩ := by
  simp [exec, charge_none, execBody, hop, stackCheck]
  omega

theorem run_pushint (base g vk vf) (s : VM) (p : Nat) (hp : p ≤ 3) (i : Nat) (hi : i < 2 ^ (8 * 2 ^ p - 1)) (hm : s.mode = .op)
    (hst : s.stack.length + 1 ≤ maxStackSize) :
    runBytes (envU base g vk vf) s (UInt8.ofNat (opPUSHINT8 + p) :: leBytes (2 ^ p) i)
      = some ⟨.int (i : Int) :: s.stack, s.gas + coeff (opPUSHINT8 + p) * base, .op⟩ := by
  have hop : (UInt8.ofNat (opPUSHINT8 + p)).toNat = opPUSHINT8 + p := by
    apply toNat_ofNat_lt; simp [opPUSHINT8]; omega
  have hle : opPUSHINT8 + p ≤ opPUSHINT256 := by simp [opPUSHINT8, opPUSHINT256]; omega
  have h0 : opPUSHINT8 + p = p := by simp [opPUSHINT8]
  rw [runBytes_cons]
  simp only [step, hm, hop, hle, if_true, Option.bind_some]
  have hne : leBytes (2 ^ p) i ≠ [] := by
    intro h; have := congrArg List.length h; rw [leBytes_length'] at this; simp at this
  have := run_data (envU base g vk vf) (opPUSHINT8 + p) (leBytes (2 ^ p) i) [] s hne
  rw [leBytes_length'] at this
  rw [h0] at this ⊢
  rw [this, List.nil_append, exec_pushint _ _ _ _ _ _ _ (by rw [← h0]; exact hle) hst]
  rw [signedLE_leBytes _ _ (Nat.one_le_two_pow) hi]

theorem run_emitInt (base g vk vf) (s : VM) (i : Nat) (hi : i < 2 ^ 63) (hm : s.mode = .op)
    (hst : s.stack.length + 1 ≤ maxStackSize) :
    runBytes (envU base g vk vf) s (emitInt i)
      = some ⟨.int (i : Int) :: s.stack, s.gas + coeff (intOp i) * base, .op⟩ := by
  unfold intOp emitInt
  by_cases h16 : i < 16
  · -- PUSH0 + i
    have hop : (UInt8.ofNat (opPUSH0 + i)).toNat = opPUSH0 + i := by
      apply toNat_ofNat_lt; simp [opPUSH0]; omega
    have e1 : ¬ opPUSH0 + i ≤ opPUSHINT256 := by simp [opPUSH0, opPUSHINT256]; omega
    have e2 : ¬ opPUSH0 + i = opPUSHDATA1 := by simp [opPUSH0, opPUSHDATA1]; omega
    have e3 : ¬ opPUSH0 + i = opPUSHDATA2 := by simp [opPUSH0, opPUSHDATA2]; omega
    have e4 : ¬ opPUSH0 + i = opPUSHDATA4 := by simp [opPUSH0, opPUSHDATA4]; omega
    have e5 : opPUSHM1 ≤ opPUSH0 + i ∧ opPUSH0 + i ≤ opPUSH16 := by simp [opPUSH0, opPUSHM1, opPUSH16]; omega
    have e6 : ¬ (opPUSH0 + i = opPUSHDATA1 ∨ opPUSH0 + i = opPUSHDATA2 ∨ opPUSH0 + i = opPUSHDATA4) := by
      simp [e2, e3, e4]
    simp only [h16, if_true, List.headD_cons, hop]
    rw [runBytes_cons]
    simp only [step, hm, hop, e1, e2, e3, e4, e5, if_true, if_false, and_self]
    simp [exec, charge_none, execBody, e1, e6, e5, stackCheck]
    omega
  · simp only [h16, if_false, List.headD_cons]
    have hp : padSizeOf (posByteLen i) ≤ 3 := by
      unfold padSizeOf; split <;> (try split) <;> (try split) <;> omega
    have hi' : i < 2 ^ (8 * 2 ^ padSizeOf (posByteLen i) - 1) := by
      unfold padSizeOf posByteLen
      repeat' split
      all_goals (simp at *; try omega)
    have hop : (UInt8.ofNat (opPUSHINT8 + padSizeOf (posByteLen i))).toNat = opPUSHINT8 + padSizeOf (posByteLen i) := by
      apply toNat_ofNat_lt; simp [opPUSHINT8]; omega
    rw [hop]
    exact run_pushint base g vk vf s _ hp i hi' hm hst

end NeoModel.Fees

namespace NeoModel.Fees
open NeoModel.Generated.FeeConsts
open NeoModel.Wire (leBytes leVal)

theorem takeBytes_map (bs : List Bytes) (rest : List Item) :
    takeBytes bs.length (bs.map .bytes ++ rest) = some (bs, rest) := by
  induction bs with
  | nil => simp [takeBytes]
  | cons b bs ih => simp [takeBytes, ih]

theorem popSig_map (bs : List Bytes) (rest : List Item) (h1 : 1 ≤ bs.length) :
    popSigElements (.int (bs.length : Int) :: (bs.map .bytes ++ rest)) = some (bs, rest) := by
  have : ¬ ((bs.length : Int) < 1 ∨ (bs.length : Int) > ((bs.map Item.bytes ++ rest).length : Int)) := by
    simp; omega
  simp only [popSigElements, this, if_false, Int.toNat_natCast]
  exact takeBytes_map bs rest

theorem popSig_rev (bs : List Bytes) (rest : List Item) (h1 : 1 ≤ bs.length) :
    popSigElements (.int (bs.length : Int) :: (bs.reverse.map .bytes ++ rest)) = some (bs.reverse, rest) := by
  have := popSig_map bs.reverse rest (by simp; omega)
  simpa using this

theorem popSig_rev_nil (bs : List Bytes) (h1 : 1 ≤ bs.length) :
    popSigElements (.int (bs.length : Int) :: bs.reverse.map .bytes) = some (bs.reverse, []) := by
  have := popSig_rev bs [] h1
  simpa using this

theorem run_emitSyscall (e : Env) (s : VM) (id : Bytes) (hid : id.length = 4) (hm : s.mode = .op) :
    runBytes e s (emitSyscall id) = exec e s opSYSCALL id := by
  have hop : (UInt8.ofNat opSYSCALL).toNat = opSYSCALL := by decide
  have e1 : ¬ opSYSCALL ≤ opPUSHINT256 := by decide
  have e2 : ¬ opSYSCALL = opPUSHDATA1 := by decide
  have e3 : ¬ opSYSCALL = opPUSHDATA2 := by decide
  have e4 : ¬ opSYSCALL = opPUSHDATA4 := by decide
  have e5 : ¬ (opPUSHM1 ≤ opSYSCALL ∧ opSYSCALL ≤ opPUSH16) := by decide
  unfold emitSyscall
  rw [runBytes_cons]
  simp only [step, hm, hop, e1, e2, e3, e4, e5, if_true, if_false, Option.bind_some]
  have hne : id ≠ [] := by intro h; rw [h] at hid; simp at hid
  have := run_data e opSYSCALL id [] s hne
  rw [hid] at this
  rw [this, List.nil_append]

theorem exec_syscall (base g vk vf) (s : VM) (id : Bytes) :
    exec (envU base g vk vf) s opSYSCALL id
      = (syscall (envU base g vk vf) ⟨s.stack, s.gas + coeff opSYSCALL * base, .op⟩ id).bind stackCheck := by
  have e1 : ¬ opSYSCALL ≤ opPUSHINT256 := by decide
  have e2 : ¬ (opSYSCALL = opPUSHDATA1 ∨ opSYSCALL = opPUSHDATA2 ∨ opSYSCALL = opPUSHDATA4) := by decide
  have e5 : ¬ (opPUSHM1 ≤ opSYSCALL ∧ opSYSCALL ≤ opPUSH16) := by decide
  simp [exec, charge_none, execBody, e1, e2, e5]

/-- picoGAS of a standard m-of-n witness: what `fee.Calculate` adds up (before rounding). -/
def multisigPico (base m n : Nat) : Nat :=
  calculateMultisig base m + calculateMultisig base n + base * ecdsaVerifyPrice * n

theorem run_multisig_witness (base : Nat) (g : Bool) (vk : Bytes → Bool) (vf : Bytes → Bytes → Bool)
    (keys sigs : List Bytes) (r : Bool)
    (hm1 : 1 ≤ sigs.length) (hmn : sigs.length ≤ keys.length) (hn : keys.length < 2 ^ 63)
    (hk : ∀ k ∈ keys, k.length < 256) (hs : ∀ sg ∈ sigs, sg.length < 256)
    (hg : g = true → ∀ sg ∈ sigs, sg.length = signatureLen)
    (hstack : sigs.length + keys.length + 2 ≤ maxStackSize)
    (hr : multisigResult vk vf keys.reverse sigs.reverse = some r) :
    runWitness (envU base g vk vf) (invScript sigs)
        (emitInt sigs.length ++ (keys.flatMap emitBytes ++ (emitInt keys.length ++ emitSyscall checkMultisigId)))
      = some ⟨[.bool r], multisigPico base sigs.length keys.length, .op⟩ := by
  have hsys0 : coeff opSYSCALL = 0 := by decide
  have hcm0 : checkMultisigPrice = 0 := by decide
  have hne : ¬ (checkMultisigId = checkSigId) := by decide
  have hidlen : checkMultisigId.length = 4 := by decide
  unfold runWitness runScript invScript
  rw [run_pushes base g vk vf sigs VM.init hs rfl (by simp [VM.init]; omega)]
  simp only [VM.init, if_true, List.append_nil, Nat.zero_add]
  rw [runBytes_append, run_emitInt base g vk vf _ sigs.length (by omega) rfl (by simp; omega)]
  simp only [Option.bind_some]
  rw [runBytes_append, run_pushes base g vk vf keys _ hk rfl (by simp; omega)]
  simp only [Option.bind_some]
  rw [runBytes_append, run_emitInt base g vk vf _ keys.length hn rfl (by simp; omega)]
  simp only [Option.bind_some]
  rw [run_emitSyscall _ _ _ hidlen rfl, exec_syscall]
  simp only [syscall, hne, if_false, if_true, charge_none, Option.bind_some]
  rw [popSig_rev keys _ (by omega)]
  simp only [Option.bind_some]
  rw [popSig_rev_nil sigs hm1]
  simp only [Option.bind_some, multisigFinish, List.length_reverse]
  have h1 : ¬ keys.length < sigs.length := by omega
  have h2 : (g && sigs.reverse.any fun sg => sg.length != signatureLen) = false := by
    cases g with
    | false => rfl
    | true =>
      simp only [Bool.true_and, List.any_reverse]
      rw [List.any_eq_false]
      intro x hx
      simp [hg rfl x hx]
  simp only [h1, h2, if_false, hr, Option.map_some]
  have h3 : ¬ ([Item.bool r].length > maxStackSize) := by simp [maxStackSize]
  simp only [Bool.false_eq_true, if_false, Option.bind_some, stackCheck, h3, if_true]
  congr 2
  simp only [multisigPico, calculateMultisig, hsys0, hcm0, intOp]
  simp only [Nat.zero_mul, Nat.add_zero]
  rw [Nat.mul_comm sigs.length, Nat.mul_comm keys.length]
  omega

end NeoModel.Fees

namespace NeoModel.Fees
open NeoModel.Generated.FeeConsts
open NeoModel.Wire (leBytes leVal)

theorem sigScript_eq (key : Bytes) (h : key.length < 256) : sigScript key = emitBytes key ++ emitSyscall checkSigId := by
  have h' : key.length < 0x100 := h
  simp [sigScript, emitBytes, h']

/-- picoGAS of a standard signature witness: what `fee.Calculate` adds up (before rounding). -/
def sigPico (base : Nat) : Nat := (coeff opPUSHDATA1 + coeff opPUSHDATA1) * base + base * ecdsaVerifyPrice

theorem run_sig_witness (base : Nat) (g : Bool) (vk : Bytes → Bool) (vf : Bytes → Bytes → Bool) (key sig : Bytes)
    (hk : key.length < 256) (hs : sig.length < 256) (hvk : vk key = true)
    (hg : g = true → sig.length = signatureLen) :
    runWitness (envU base g vk vf) (emitBytes sig) (sigScript key)
      = some ⟨[.bool (vf key sig)], sigPico base, .op⟩ := by
  have hsys0 : coeff opSYSCALL = 0 := by decide
  have hcs : checkSigPrice = ecdsaVerifyPrice := by decide
  have hidlen : checkSigId.length = 4 := by decide
  unfold runWitness runScript
  rw [run_emitBytes base g vk vf VM.init sig hs rfl (by simp [VM.init, maxStackSize])]
  simp only [if_true, VM.init]
  rw [sigScript_eq key hk, runBytes_append, run_emitBytes base g vk vf _ key hk rfl (by simp [maxStackSize])]
  simp only [Option.bind_some]
  rw [run_emitSyscall _ _ _ hidlen rfl, exec_syscall]
  simp only [syscall, if_true, charge_none, Option.bind_some, checkSigBody, hvk]
  have h2 : (g && sig.length != signatureLen) = false := by
    cases g with
    | false => rfl
    | true => simp [hg rfl]
  have h3 : ¬ ([Item.bool (vf key sig)].length > maxStackSize) := by simp [maxStackSize]
  simp only [Bool.not_true, Bool.false_eq_true, if_false, h2, Option.bind_some, stackCheck, h3, if_true]
  congr 2
  simp only [sigPico, hsys0, hcs, Nat.zero_mul, Nat.add_zero, Nat.zero_add]
  rw [Nat.add_mul, Nat.mul_comm ecdsaVerifyPrice]

end NeoModel.Fees
