/-
C12 proofs, part 8f: the Map shape invariant at the level of machine states: every instruction
(`exec`), exception unwinding and `step` preserve it. It covers everything an instruction can take
an item from: the VM's stack object, every frame's evaluation stack and slots, the pending
exception, the children of every heap cell.
-/
import NeoModel.Proofs.VmAcctKindsOps3
import NeoModel.Proofs.VmAcctStep
namespace NeoModel.VmAcct

def Frame.items (f : Frame) : List Item :=
  slotItems f.own ++ slotItems f.locals ++ slotItems f.args ++ slotItems f.static

def GoodF (km : Nat → Bool) (n : Nat) (fs : List Frame) : Prop := ∀ f ∈ fs, GoodL km n f.items

structure GoodS (km : Nat → Bool) (s : St) : Prop where
  h : GoodH km s.c.heap
  base : GoodL km s.c.heap.length s.base
  frames : GoodF km s.c.heap.length s.frames
  exc : ∀ x, s.uncaught = some x → Good km s.c.heap.length x

/-- **the Map shape invariant of a machine state** -/
def MapInv (s : St) : Prop := ∃ km, GoodS km s

variable {km : Nat → Bool} {n : Nat}

theorem goodL_items {f : Frame} : GoodL km n f.items ↔
    GoodL km n (slotItems f.own) ∧ GoodL km n (slotItems f.locals) ∧ GoodL km n (slotItems f.args) ∧ GoodL km n (slotItems f.static) := by
  constructor
  · intro g
    refine ⟨g.sub ?_, g.sub ?_, g.sub ?_, g.sub ?_⟩ <;> (intro x hx; simp only [Frame.items, List.mem_append]; simp [hx])
  · rintro ⟨a, b, c, d⟩
    exact ((a.append b).append c).append d

theorem GoodF.cons {f : Frame} {fs : List Frame} (gf : GoodL km n f.items) (g : GoodF km n fs) : GoodF km n (f :: fs) := by
  intro x hx
  rcases List.mem_cons.1 hx with rfl | hx
  · exact gf
  · exact g x hx
theorem GoodF.head {f : Frame} {fs : List Frame} (g : GoodF km n (f :: fs)) : GoodL km n f.items := g f (List.mem_cons_self ..)
theorem GoodF.tail {f : Frame} {fs : List Frame} (g : GoodF km n (f :: fs)) : GoodF km n fs := fun x hx => g x (List.mem_cons_of_mem _ hx)
theorem GoodF.nil : GoodF km n [] := by intro x hx; cases hx
theorem GoodF.mono {km' : Nat → Bool} {n' : Nat} {fs : List Frame} (g : GoodF km n fs) (hk : ∀ j, j < n → km' j = km j) (hn : n ≤ n') :
    GoodF km' n' fs := fun f hf => (g f hf).mono hk hn

theorem goodL_slot_nil (o : Option (List Item)) (h : o = none) : GoodL km n (slotItems o) := by
  rw [h]; exact GoodL.nil _ _

theorem goodF_cur : ∀ (fs : List Frame) (base : List Item), GoodL km n base → GoodF km n fs → GoodL km n (curOf fs base) := by
  intro fs
  induction fs with
  | nil => intro base gb _; exact gb
  | cons f t ih =>
    intro base gb gf
    simp only [curOf]
    cases ho : f.own with
    | some o => have := (goodL_items.1 gf.head).1; rw [ho] at this; exact this
    | none => exact ih base gb gf.tail

theorem goodF_setCur : ∀ (fs : List Frame) (base st : List Item), GoodL km n base → GoodF km n fs → GoodL km n st →
    GoodF km n (setCurOf fs base st).1 ∧ GoodL km n (setCurOf fs base st).2 := by
  intro fs
  induction fs with
  | nil => intro base st gb _ gs; exact ⟨GoodF.nil, gs⟩
  | cons f t ih =>
    intro base st gb gf gs
    simp only [setCurOf]
    cases ho : f.own with
    | some o =>
      refine ⟨GoodF.cons ?_ gf.tail, gb⟩
      obtain ⟨_, b, c, d⟩ := goodL_items.1 gf.head
      exact goodL_items.2 ⟨gs, b, c, d⟩
    | none =>
      obtain ⟨g1, g2⟩ := ih base st gb gf.tail gs
      exact ⟨GoodF.cons gf.head g1, g2⟩

theorem goodF_setStatic : ∀ (fs : List Frame) (v : List Item), GoodF km n fs → GoodL km n v → GoodF km n (setStatic fs v) := by
  intro fs
  induction fs with
  | nil => intro v _ _; exact GoodF.nil
  | cons f t ih =>
    intro v gf gv
    simp only [setStatic]
    split
    · refine GoodF.cons ?_ gf.tail
      obtain ⟨a, b, c, _⟩ := goodL_items.1 gf.head
      exact goodL_items.2 ⟨a, b, c, gv⟩
    · exact GoodF.cons gf.head (ih v gf.tail gv)

theorem goodF_getStatic : ∀ (fs : List Frame) (xs : List Item), GoodF km n fs → getStatic fs = some xs → GoodL km n xs := by
  intro fs
  induction fs with
  | nil => intro xs _ h; simp [getStatic] at h
  | cons f t ih =>
    intro xs gf h
    simp only [getStatic] at h
    split at h
    · have := (goodL_items.1 gf.head).2.2.2; rw [h] at this; exact this
    · exact ih xs gf.tail h

theorem GoodS.w {s : St} (g : GoodS km s) : GoodW km s.w := ⟨g.h, goodF_cur _ _ g.base g.frames⟩

theorem GoodS.cur {s : St} (g : GoodS km s) : GoodL km s.c.heap.length s.cur := goodF_cur _ _ g.base g.frames

/-- putting a working pair back (the heap may have grown, the kinds may have been extended) -/
theorem GoodS.setW {s : St} (g : GoodS km s) {km' : Nat → Bool} {w' : W} (hk : ∀ j, j < s.c.heap.length → km' j = km j)
    (gw : GoodW km' w') (hn : s.c.heap.length ≤ w'.c.heap.length) : GoodS km' (s.setW w') := by
  obtain ⟨g1, g2⟩ := goodF_setCur s.frames s.base w'.st (g.base.mono hk hn) (g.frames.mono hk hn) gw.st
  exact ⟨gw.h, g2, g1, fun x hx => (g.exc x hx).mono hk hn⟩

theorem GoodS.setCur {s : St} (g : GoodS km s) {st : List Item} (gs : GoodL km s.c.heap.length st) : GoodS km (s.setCur st) := by
  obtain ⟨g1, g2⟩ := goodF_setCur s.frames s.base st g.base g.frames gs
  exact ⟨g.h, g2, g1, g.exc⟩

/-- a change of the counter part only -/
theorem GoodS.ctr {s : St} (g : GoodS km s) (c' : Ctr) (hl : c'.heap.length = s.c.heap.length) (hc : ∀ j, chOf c'.heap j = chOf s.c.heap j) :
    GoodS km { s with c := c' } :=
  ⟨(goodH_congr hl hc).2 g.h, by simpa [hl] using g.base, by simpa [hl] using g.frames, by simpa [hl] using g.exc⟩

theorem GoodS.slotGet {s : St} (g : GoodS km s) {k : SlotKind} {xs : List Item} (h : slotGet s k = some xs) :
    GoodL km s.c.heap.length xs := by
  cases k with
  | loc =>
    simp only [VmAcct.slotGet] at h
    split at h
    · rename_i f fs hf
      have := (goodL_items.1 (g.frames f (by rw [hf]; exact List.mem_cons_self ..))).2.1
      rw [h] at this; exact this
    · cases h
  | arg =>
    simp only [VmAcct.slotGet] at h
    split at h
    · rename_i f fs hf
      have := (goodL_items.1 (g.frames f (by rw [hf]; exact List.mem_cons_self ..))).2.2.1
      rw [h] at this; exact this
    · cases h
  | sfld => exact goodF_getStatic _ _ g.frames h

theorem GoodS.slotSet {s : St} (g : GoodS km s) (k : SlotKind) {v : List Item} (gv : GoodL km s.c.heap.length v) :
    GoodS km (slotSet s k v) := by
  cases k with
  | loc =>
    cases hf : s.frames with
    | nil => simp only [VmAcct.slotSet, hf]; exact g
    | cons f fs =>
      simp only [VmAcct.slotSet, hf]
      have gf := g.frames; rw [hf] at gf
      refine ⟨g.h, g.base, GoodF.cons ?_ gf.tail, g.exc⟩
      obtain ⟨a, _, c, d⟩ := goodL_items.1 gf.head
      exact goodL_items.2 ⟨a, gv, c, d⟩
  | arg =>
    cases hf : s.frames with
    | nil => simp only [VmAcct.slotSet, hf]; exact g
    | cons f fs =>
      simp only [VmAcct.slotSet, hf]
      have gf := g.frames; rw [hf] at gf
      refine ⟨g.h, g.base, GoodF.cons ?_ gf.tail, g.exc⟩
      obtain ⟨a, b, _, d⟩ := goodL_items.1 gf.head
      exact goodL_items.2 ⟨a, b, gv, d⟩
  | sfld =>
    simp only [VmAcct.slotSet]
    exact ⟨g.h, g.base, goodF_setStatic _ _ g.frames gv, g.exc⟩

@[simp] theorem length_unloadSlots (f : Frame) (c : Ctr) : (unloadSlots f c).heap.length = c.heap.length := by
  unfold unloadSlots; split <;> simp
@[simp] theorem chOf_unloadSlots (f : Frame) (c : Ctr) (j : Nat) : chOf (unloadSlots f c).heap j = chOf c.heap j := by
  unfold unloadSlots; split <;> simp

@[simp] theorem goodH_unloadSlots (km : Nat → Bool) (f : Frame) (c : Ctr) : GoodH km (unloadSlots f c).heap ↔ GoodH km c.heap :=
  goodH_congr (by simp) (by simp)

@[simp] theorem slotSet_c (s : St) (k : SlotKind) (v : List Item) : (slotSet s k v).c = s.c := by
  cases k <;> cases hf : s.frames <;> simp [slotSet, hf]

/-- result of `exec`: the invariant for a possibly extended kind assignment, the raised exception
included -/
def GoodRes (km : Nat → Bool) (n : Nat) (r : Res) : Prop :=
  ∃ km', (∀ j, j < n → km' j = km j) ∧ GoodS km' r.s ∧ n ≤ r.s.c.heap.length ∧
    ∀ x, r.raised = some x → Good km' r.s.c.heap.length x

theorem goodRes_same {s' : St} (g : GoodS km s') (hn : n ≤ s'.c.heap.length) : GoodRes km n { s := s' } :=
  ⟨km, fun _ _ => rfl, g, hn, by intro x hx; cases hx⟩

theorem GoodS.pushFrame {s : St} (g : GoodS km s) (f : Frame) (gf : GoodL km s.c.heap.length f.items) :
    GoodS km { s with frames := f :: s.frames } := ⟨g.h, g.base, GoodF.cons gf g.frames, g.exc⟩

theorem exec_good {s : St} (op : Op) (g : GoodS km s) : ∀ r, exec op s = some r → GoodRes km s.c.heap.length r := by
  intro r h
  cases op with
  | nop => simp only [exec, ok, Option.some.injEq] at h; subst h; exact goodRes_same g (Nat.le_refl _)
  | s sop =>
    simp only [exec] at h
    cases he : execS sop s.w with
    | none => simp [he] at h
    | some out =>
      obtain ⟨km', hk, gw, hn⟩ := execS_good sop g.w out he
      cases out with
      | ok w' =>
        simp only [he, ok, Option.some.injEq] at h
        subst h
        exact ⟨km', hk, g.setW hk gw hn, hn, by intro x hx; cases hx⟩
      | throw w' =>
        simp only [he, Option.some.injEq] at h
        subst h
        exact ⟨km', hk, g.setW hk gw hn, hn, by intro x hx; simp only [Option.some.injEq] at hx; rw [← hx]; trivial⟩
  | initsslot k =>
    simp only [exec] at h
    split at h
    · cases h
    · split at h
      · cases h
      · split at h
        · simp only [ok, Option.some.injEq] at h
          subst h
          exact goodRes_same ((g.slotSet .sfld (GoodL.replicate_prim _ _ k)).ctr _ rfl (fun _ => rfl)) (Nat.le_refl _)
        · cases h
  | initslot l a =>
    simp only [exec] at h
    cases hf : s.frames with
    | nil => simp [hf] at h
    | cons f fs =>
      simp only [hf] at h
      split at h
      · cases h
      · have key : ∀ s1 : St, GoodS km s1 → s1.c.heap.length = s.c.heap.length →
            (if a = 0 then ok s1 else if a ≤ s1.cur.length then ok ((slotSet s1 .arg (s1.cur.take a)).setCur (s1.cur.drop a)) else none) = some r →
            GoodRes km s.c.heap.length r := by
          intro s1 g1 l1 h
          by_cases ha : a = 0
          · simp only [ha, if_true, ok, Option.some.injEq] at h
            subst h
            exact goodRes_same g1 (by rw [l1]; exact Nat.le_refl _)
          · simp only [ha, if_false] at h
            split at h
            · simp only [ok, Option.some.injEq] at h
              subst h
              have g2 := g1.slotSet .arg (g1.cur.take a)
              have g3 := g2.setCur (st := s1.cur.drop a) (by rw [slotSet_c]; exact g1.cur.drop a)
              refine goodRes_same g3 ?_
              rw [c_setCur, slotSet_c, l1]; exact Nat.le_refl _
            · cases h
        by_cases hl : l > 0
        · simp only [hl, if_true] at h
          refine key _ ?_ ?_ h
          · exact (g.slotSet .loc (GoodL.replicate_prim _ _ l)).ctr _ (by simp) (by simp)
          · simp
        · simp only [hl, if_false] at h
          exact key s g rfl h
  | ld k i =>
    simp only [exec] at h
    cases hg : slotGet s k with
    | none => simp [hg] at h
    | some xs =>
      simp only [hg] at h
      split at h
      · cases h
      · rename_i x hx
        simp only [ok, Option.some.injEq] at h
        subst h
        exact goodRes_same (g.setW (fun _ _ => rfl) (g.w.push ((g.slotGet hg).get hx)) (by simp [St.w])) (by simp [St.setW, St.w])
  | st k i =>
    simp only [exec] at h
    cases hg : slotGet s k with
    | none => simp [hg] at h
    | some xs =>
      simp only [hg] at h
      split at h
      · rename_i old item w' hold hpop
        simp only [ok, Option.some.injEq] at h
        subst h
        obtain ⟨gw, gi, hc, _⟩ := g.w.popNoRef hpop
        have gw' : GoodW km { w' with c := w'.c.rem old } := gw.ctr _ (by simp) (by simp)
        have hl : w'.c.heap.length = s.c.heap.length := by rw [hc]; rfl
        have g1 := g.setW (fun _ _ => rfl) gw' (by simp [hl])
        have gx : GoodL km s.c.heap.length (xs.set i item) := (g.slotGet hg).set i gi
        refine goodRes_same (g1.slotSet k (by simpa [St.setW, hl] using gx)) ?_
        have e2 : ∀ (s0 : St) k v, (slotSet s0 k v).c = s0.c := by
          intro s0 k v; cases k <;> cases hf : s0.frames <;> simp [slotSet, hf]
        rw [e2]; simp [St.setW, hl]
      · cases h
  | call pops =>
    simp only [exec] at h
    cases hp : W.popN pops s.w with
    | none => simp [hp] at h
    | some w =>
      simp only [hp] at h
      split at h
      · cases h
      · simp only [ok, Option.some.injEq] at h
        subst h
        obtain ⟨gw, l1⟩ := g.w.popN pops hp
        have g1 := g.setW (fun _ _ => rfl) gw (by rw [l1]; exact Nat.le_refl _)
        exact goodRes_same (g1.pushFrame _ (by intro x hx; simp [Frame.items, slotItems] at hx))
          (by show s.c.heap.length ≤ w.c.heap.length; rw [l1]; exact Nat.le_refl _)
  | load mode nargs =>
    simp only [exec] at h
    split at h
    · cases h
    · cases hp : W.popN nargs s.w with
      | none => simp [hp] at h
      | some w =>
        simp only [hp] at h
        split at h
        · cases h
        · simp only [ok, Option.some.injEq] at h
          subst h
          obtain ⟨gw, l1⟩ := g.w.popN nargs hp
          have hl : w.c.heap.length = s.c.heap.length := l1
          have g1 := g.setW (fun _ _ => rfl) gw (by rw [l1]; exact Nat.le_refl _)
          have gargs : GoodL km s.c.heap.length (s.cur.take nargs) := g.cur.take nargs
          -- whatever the new frame's `own` is, it holds no items
          have push : ∀ (f : Frame), f.items = [] →
              GoodS km (({ (s.setW w) with frames := f :: (s.setW w).frames } : St).setW
                { c := ({ (s.setW w) with frames := f :: (s.setW w).frames } : St).c.addAll (s.cur.take nargs).reverse,
                  st := s.cur.take nargs ++ ({ (s.setW w) with frames := f :: (s.setW w).frames } : St).cur }) := by
            intro f hf
            have g2 := g1.pushFrame f (by rw [hf]; exact GoodL.nil _ _)
            refine g2.setW (fun _ _ => rfl) ⟨by simpa using g2.h, ?_⟩ (by simp)
            simp only [length_addAll]
            exact (by simpa [St.setW, hl] using gargs : GoodL km ({ (s.setW w) with frames := f :: (s.setW w).frames } : St).c.heap.length _).append g2.cur
          refine goodRes_same (push _ ?_) (by simp [St.setW, hl])
          have own0 : ∀ (b : Prop) [Decidable b], slotItems (if b then some ([] : List Item) else none) = [] := by
            intro b _; split <;> rfl
          show slotItems _ ++ slotItems none ++ slotItems none ++ slotItems none = []
          rw [own0]; rfl
  | throw_ =>
    simp only [exec] at h
    cases hp : s.w.pop with
    | none => simp [hp] at h
    | some p =>
      obtain ⟨x, w⟩ := p
      simp only [hp, Option.some.injEq] at h
      subst h
      obtain ⟨gw, gx, l1, _⟩ := g.w.pop hp
      have l1' : w.c.heap.length = s.c.heap.length := l1
      exact ⟨km, fun _ _ => rfl, g.setW (fun _ _ => rfl) gw (by rw [l1']; exact Nat.le_refl _),
        by show s.c.heap.length ≤ w.c.heap.length; rw [l1']; exact Nat.le_refl _,
        by intro y hy; simp only [Option.some.injEq] at hy; subst hy; show Good km w.c.heap.length x; rw [l1']; exact gx⟩
  | endfinally =>
    simp only [exec] at h
    split at h
    · rename_i x hx
      simp only [Option.some.injEq] at h
      subst h
      exact ⟨km, fun _ _ => rfl, g, Nat.le_refl _, by intro y hy; simp only [Option.some.injEq] at hy; subst hy; exact g.exc _ hx⟩
    · simp only [ok, Option.some.injEq] at h; subst h; exact goodRes_same g (Nat.le_refl _)
  | ret =>
    simp only [exec] at h
    cases hf : s.frames with
    | nil => simp [hf] at h
    | cons f rest =>
      simp only [hf] at h
      have gf := g.frames; rw [hf] at gf
      have gcur : GoodL km s.c.heap.length (curOf (f :: rest) s.base) := by have := g.cur; rwa [St.cur, hf] at this
      split at h
      · simp only [ok, Option.some.injEq] at h
        subst h
        exact goodRes_same ⟨by simpa using g.h, by simpa using gcur, by simpa using (GoodF.nil (km := km)), by simpa using g.exc⟩ (by simp)
      · have grest : GoodS km ({ s with frames := rest } : St) := ⟨g.h, g.base, gf.tail, g.exc⟩
        -- the optional push of Null by DynamicOnUnload
        have dyn : ∀ (s1 : St) (b : Bool) (m : Nat), GoodS km s1 → s1.c.heap.length = s.c.heap.length → ∀ r,
            (if b then (if m = 0 then ok (s1.setW (s1.w.push .prim)) else if m > 1 then none else ok s1) else ok s1) = some r →
            GoodRes km s.c.heap.length r := by
          intro s1 b m g1 hl r h
          have pushed : GoodRes km s.c.heap.length { s := s1.setW (s1.w.push .prim) } :=
            goodRes_same (g1.setW (fun _ _ => rfl) (g1.w.push (good_prim _ _)) (by simp [St.w])) (by simp [St.setW, St.w, hl])
          have same : GoodRes km s.c.heap.length { s := s1 } := goodRes_same g1 (by rw [hl]; exact Nat.le_refl _)
          split at h
          · split at h
            · simp only [ok, Option.some.injEq] at h; subst h; exact pushed
            · split at h
              · cases h
              · simp only [ok, Option.some.injEq] at h; subst h; exact same
          · simp only [ok, Option.some.injEq] at h; subst h; exact same
        cases ho : f.own with
        | some st =>
          simp only [ho] at h
          split at h
          · cases h
          · have gst : GoodL km s.c.heap.length st := by have := (goodL_items.1 gf.head).1; rwa [ho] at this
            have g1 := grest.setCur (st := st ++ ({ s with frames := rest } : St).cur) (gst.append grest.cur)
            have g2 := g1.ctr (unloadSlots f (({ s with frames := rest } : St).setCur (st ++ ({ s with frames := rest } : St).cur)).c)
              (by simp) (by simp)
            exact dyn _ _ st.length g2 (by simp) r h
        | none =>
          simp only [ho] at h
          have g2 := grest.ctr (unloadSlots f s.c) (by simp) (by simp)
          exact dyn _ _ _ g2 (by simp) r h

theorem unwindFrames_good : ∀ (k : Nat) (fs fs' : List Frame) (c c' : Ctr), unwindFrames k fs c = some (fs', c') →
    GoodF km n fs → GoodF km n fs' ∧ c'.heap.length = c.heap.length ∧ ∀ j, chOf c'.heap j = chOf c.heap j := by
  intro k
  induction k with
  | zero =>
    intro fs fs' c c' h gf
    simp only [unwindFrames, Option.some.injEq, Prod.mk.injEq] at h
    obtain ⟨rfl, rfl⟩ := h
    exact ⟨gf, rfl, fun _ => rfl⟩
  | succ k ih =>
    intro fs fs' c c' h gf
    cases fs with
    | nil => simp [unwindFrames] at h
    | cons f t =>
      simp only [unwindFrames] at h
      obtain ⟨g1, l1, c1⟩ := ih t fs' _ c' h gf.tail
      exact ⟨g1, by rw [l1]; simp, fun j => by rw [c1]; simp⟩

theorem unwind_good {s s' : St} (x : Item) (k : Nat) (c : Bool) (g : GoodS km s) (gx : Good km s.c.heap.length x)
    (h : unwind s x k c = some s') : GoodS km s' ∧ s'.c.heap.length = s.c.heap.length := by
  simp only [unwind] at h
  cases hu : unwindFrames k s.frames s.c with
  | none => simp [hu] at h
  | some p =>
    obtain ⟨fs, c1⟩ := p
    simp only [hu] at h
    obtain ⟨gf, l1, ch1⟩ := unwindFrames_good k _ _ _ _ hu g.frames
    split at h
    · cases h
    · have g1 : GoodS km ({ s with frames := fs, c := c1 } : St) :=
        ⟨(goodH_congr l1 ch1).2 g.h, by simpa [l1] using g.base, by simpa [l1] using gf, by simpa [l1] using g.exc⟩
      split at h
      · simp only [Option.some.injEq] at h
        subst h
        have g2 := g1.setW (fun _ _ => rfl) (g1.w.push (by simpa [St.w, l1] using gx)) (by simp [St.w])
        exact ⟨⟨g2.h, g2.base, g2.frames, by intro y hy; cases hy⟩, by simp [St.setW, St.w, l1]⟩
      · simp only [Option.some.injEq] at h
        subst h
        exact ⟨⟨g1.h, g1.base, g1.frames, by intro y hy; simp only [Option.some.injEq] at hy; subst hy; simpa [l1] using gx⟩, l1⟩

/-- **one machine step preserves the Map shape invariant** -/
theorem step_mapInv {s s' : St} (op : Op) (unw : Option (Nat × Bool)) (ext : Bool) (g : MapInv s)
    (h : step s op unw ext = some s') : MapInv s' := by
  obtain ⟨km, g⟩ := g
  simp only [step] at h
  split at h
  · cases h
  · cases he : exec op s with
    | none => simp [he] at h
    | some r =>
      simp only [he] at h
      obtain ⟨km', _, gr, _, hraised⟩ := exec_good op g r he
      cases hr : r.raised with
      | none =>
        simp only [hr] at h
        split at h
        · cases h
        · simp only [Option.some.injEq] at h
          subst h
          exact ⟨km', gr⟩
      | some x =>
        cases hu : unw with
        | none => simp [hr, hu] at h
        | some p =>
          obtain ⟨k, c⟩ := p
          simp only [hr, hu] at h
          cases hw : unwind r.s x k c with
          | none => simp [hw] at h
          | some s2 =>
            simp only [hw] at h
            split at h
            · cases h
            · simp only [Option.some.injEq] at h
              subst h
              exact ⟨km', (unwind_good x k c gr (hraised x hr) hw).1⟩

theorem init_mapInv : MapInv St.init := by
  refine ⟨fun _ => false, ⟨?_, ?_⟩, ?_, ?_, ?_⟩
  · intro j x hx; simp [St.init, chOf] at hx
  · intro id h; cases h
  · intro x hx; simp [St.init] at hx
  · intro f hf x hx
    simp only [St.init, List.mem_singleton] at hf
    subst hf
    simp [Frame.items, slotItems] at hx
  · intro x hx; simp [St.init] at hx

/-- the side conditions of the accounting proofs hold in every state that satisfies the Map shape
invariant, for every instruction that does not fault -/
theorem okFor_of_mapInv {s : St} (sop : SOp) (g : MapInv s) (out : Outcome) (h : execS sop s.w = some out) : sop.okFor s.w := by
  obtain ⟨km, g⟩ := g
  exact okFor_of_good sop g.w out h

end NeoModel.VmAcct
