/-
Helper lemmas for C08: the priority order `item.Compare` is a total preorder given by the key
(high-priority attribute, fee per byte, network fee); `sort.Search` finds the boundary of a
monotone predicate; the insertion index of `Add` splits a sorted list correctly.
-/
import NeoModel.Model.Mempool
namespace NeoModel.Mempool

/-- the priority key of the property statement: high-priority attribute, fee per byte, network fee. -/
def key (t : Tx) : Nat × Nat × Nat := (if t.high then 1 else 0, t.feePerByte, t.netFee)

/-- lexicographic `≤` on keys -/
def keyLe (a b : Nat × Nat × Nat) : Prop :=
  a.1 < b.1 ∨ (a.1 = b.1 ∧ (a.2.1 < b.2.1 ∨ (a.2.1 = b.2.1 ∧ a.2.2 ≤ b.2.2)))

theorem compare_nonneg_iff (a b : Tx) : 0 ≤ compare a b ↔ keyLe (key b) (key a) := by
  unfold compare key keyLe
  cases ha : a.high <;> cases hb : b.high <;> simp <;> split <;> omega

theorem compare_pos_iff (a b : Tx) : 0 < compare a b ↔ ¬ keyLe (key a) (key b) := by
  unfold compare key keyLe
  cases ha : a.high <;> cases hb : b.high <;> simp <;> split <;> omega

theorem compare_zero_iff (a b : Tx) : compare a b = 0 ↔ key a = key b := by
  unfold compare key
  cases ha : a.high <;> cases hb : b.high <;> simp <;> split <;> omega

theorem keyLe_refl (a : Nat × Nat × Nat) : keyLe a a := by unfold keyLe; omega
theorem keyLe_trans {a b c : Nat × Nat × Nat} (h1 : keyLe a b) (h2 : keyLe b c) : keyLe a c := by
  unfold keyLe at *; omega
theorem keyLe_total (a b : Nat × Nat × Nat) : keyLe a b ∨ keyLe b a := by unfold keyLe; omega

/-- `a` is listed no later than `b`: `a.Compare(b) ≥ 0`. -/
def ge (a b : Tx) : Prop := 0 ≤ compare a b

theorem ge_trans {a b c : Tx} (h1 : ge a b) (h2 : ge b c) : ge a c := by
  unfold ge at *; rw [compare_nonneg_iff] at *; exact keyLe_trans h2 h1

theorem ge_of_not_pos {a b : Tx} (h : ¬ 0 < compare a b) : ge b a := by
  unfold ge; rw [compare_nonneg_iff]; rw [compare_pos_iff] at h
  exact Classical.not_not.mp h

theorem compare_pos_of_not_ge {a b : Tx} (h : ¬ ge b a) : 0 < compare a b := by
  unfold ge at h; rw [compare_nonneg_iff] at h; rw [compare_pos_iff]; exact h

end NeoModel.Mempool

namespace NeoModel.Mempool

theorem pos_of_pos_ge {t a e : Tx} (h1 : 0 < compare t a) (h2 : ge a e) : 0 < compare t e := by
  unfold ge at h2; rw [compare_nonneg_iff] at h2; rw [compare_pos_iff] at *
  intro h; exact h1 (keyLe_trans h h2)

theorem ge_of_ge_zero {e l t : Tx} (h1 : ge e l) (h2 : compare t l = 0) : ge e t := by
  unfold ge at *; rw [compare_nonneg_iff] at *; rw [compare_zero_iff] at h2; rw [h2]; exact h1

theorem ge_refl (a : Tx) : ge a a := by unfold ge; rw [compare_nonneg_iff]; exact keyLe_refl _

/-- `sort.Search` returns the boundary of a monotone predicate. -/
theorem searchLoop_spec (f : Nat → Bool) (n : Nat)
    (mono : ∀ i j, i ≤ j → j < n → f i = true → f j = true) :
    ∀ fuel lo hi, lo ≤ hi → hi ≤ n → hi - lo < fuel →
      (∀ i, i < lo → f i = false) → (∀ i, hi ≤ i → i < n → f i = true) →
      searchLoop f fuel lo hi ≤ n ∧ (∀ i, i < searchLoop f fuel lo hi → f i = false) ∧
        (∀ i, searchLoop f fuel lo hi ≤ i → i < n → f i = true) := by
  intro fuel
  induction fuel with
  | zero => intro lo hi _ _ h; omega
  | succ fuel ih =>
    intro lo hi hle hn hf hlo hhi
    unfold searchLoop
    by_cases hlt : lo < hi
    · simp only [hlt, if_true]
      have hm1 : lo ≤ (lo + hi) / 2 := by omega
      have hm2 : (lo + hi) / 2 < hi := by omega
      cases hfm : f ((lo + hi) / 2)
      · simp only [Bool.not_false, if_true]
        apply ih _ _ (by omega) hn (by omega) _ hhi
        intro i hi'
        cases hfi : f i
        · rfl
        · have := mono i ((lo + hi) / 2) (by omega) (by omega) hfi
          rw [hfm] at this; exact absurd this (by simp)
      · simp only [Bool.not_true, Bool.false_eq_true, if_false]
        apply ih _ _ hm1 (by omega) (by omega) hlo
        intro i h1 h2
        exact mono _ i h1 h2 hfm
    · simp only [hlt, if_false]
      have : lo = hi := by omega
      subst this
      exact ⟨hn, hlo, hhi⟩

theorem sortSearch_spec (f : Nat → Bool) (n : Nat)
    (mono : ∀ i j, i ≤ j → j < n → f i = true → f j = true) :
    sortSearch n f ≤ n ∧ (∀ i, i < sortSearch n f → f i = false) ∧
      (∀ i, sortSearch n f ≤ i → i < n → f i = true) := by
  unfold sortSearch
  apply searchLoop_spec f n mono (n+1) 0 n (by omega) (by omega) (by omega)
  · intro i h; omega
  · intro i h1 h2; omega

/-- the pool's list order: most prioritized first. -/
def Sorted (l : List Tx) : Prop := l.Pairwise ge

theorem insertIdx_spec (l : List Tx) (t : Tx) (hs : Sorted l) :
    insertIdx l t ≤ l.length ∧ (∀ e ∈ l.take (insertIdx l t), ge e t) ∧
      (∀ e ∈ l.drop (insertIdx l t), 0 < compare t e) := by
  unfold insertIdx
  cases hl : l.getLast? with
  | none =>
    have : l = [] := by simpa using hl
    subst this; simp
  | some last =>
    simp only
    have hlast : last ∈ l := List.mem_of_getLast? hl
    split
    · rename_i h0
      refine ⟨Nat.le_refl _, ?_, by simp⟩
      intro e he
      rw [List.take_length] at he
      apply ge_of_ge_zero _ h0
      -- e ≥ last
      obtain ⟨i, hi, rfl⟩ := List.getElem_of_mem he
      have hne : l ≠ [] := by intro h; subst h; simp at hl
      have hle : last = l[l.length - 1]'(by have := List.length_pos_iff.mpr hne; omega) := by
        rw [List.getLast?_eq_getElem?] at hl
        have : l.length - 1 < l.length := by have := List.length_pos_iff.mpr hne; omega
        rw [List.getElem?_eq_getElem this] at hl
        exact (Option.some.inj hl).symm
      by_cases hi2 : i = l.length - 1
      · subst hi2; rw [hle]; exact ge_refl _
      · rw [hle]
        exact (List.pairwise_iff_getElem.mp hs) i (l.length - 1) hi (by omega) (by omega)
    · generalize hf : above l t = f
      have mono : ∀ i j, i ≤ j → j < l.length → f i = true → f j = true := by
        intro i j hij hj hfi
        have hi : i < l.length := by omega
        subst hf
        simp only [above, List.getElem?_eq_getElem hi, List.getElem?_eq_getElem hj, decide_eq_true_eq] at *
        by_cases h : i = j
        · subst h; exact hfi
        · exact pos_of_pos_ge hfi ((List.pairwise_iff_getElem.mp hs) i j hi hj (by omega))
      obtain ⟨h1, h2, h3⟩ := sortSearch_spec f l.length mono
      refine ⟨h1, ?_, ?_⟩
      · intro e he
        obtain ⟨i, hi, rfl⟩ := List.getElem_of_mem he
        simp only [List.length_take] at hi
        rw [List.getElem_take]
        have hi' : i < sortSearch l.length f := by omega
        have := h2 i hi'
        have hil : i < l.length := by omega
        subst hf
        simp only [above, List.getElem?_eq_getElem hil, decide_eq_false_iff_not] at this
        exact ge_of_not_pos this
      · intro e he
        obtain ⟨i, hi, rfl⟩ := List.getElem_of_mem he
        simp only [List.length_drop] at hi
        rw [List.getElem_drop]
        have hil : sortSearch l.length f + i < l.length := by omega
        have := h3 (sortSearch l.length f + i) (by omega) hil
        subst hf
        simpa only [above, List.getElem?_eq_getElem hil, decide_eq_true_eq] using this

end NeoModel.Mempool
