/-
C17 — lawfulness of the execution-result codecs (normalising map, item codec, notification, invocation, AppExecResult).
-/
import NeoModel.Model.Wire.Exec
import NeoModel.Proofs.WireTx
import NeoModel.Proofs.WireItem
namespace NeoModel.Wire
open Codec
open NeoModel.Generated

/-! ### a normalising change of representation -/

/-- like `map`, but the decoder may forget non-canonical detail: `g` picks the canonical representative.
(A Struct read where an Array is stored, a flag bit with an empty list …) -/
theorem mapN_lawful {α β : Type} {c : Codec α} {f : α → β} {g : β → α} (h : c.Lawful)
    (hn : ∀ a, c.wf a → c.wf (g (f a)) ∧ f (g (f a)) = f a) : (map c f g).Lawful where
  roundtrip v r hw := by
    simp only [map] at hw ⊢
    rw [h.roundtrip _ r hw.1]; simp [hw.2]
  dec_wf b v r hd := by
    simp only [map, Option.map_eq_some_iff] at hd ⊢
    obtain ⟨⟨a, r'⟩, ha, he⟩ := hd
    simp at he
    rw [← he.1]; exact hn a (h.dec_wf _ _ _ ha)
  dec_suffix b v r hd := by
    simp only [map, Option.map_eq_some_iff] at hd
    obtain ⟨⟨a, r'⟩, ha, he⟩ := hd
    simp at he
    rw [← he.2]; exact h.dec_suffix _ _ _ ha
  size_eq v hw := h.size_eq _ hw.1
  alloc_ok b v r hd := by
    simp only [map, Option.map_eq_some_iff] at hd ⊢
    obtain ⟨⟨a, r'⟩, ha, he⟩ := hd
    simp at he
    rw [← he.2]; exact h.alloc_ok _ _ _ ha
  alloc_fail b hd := by
    simp only [map, Option.map_eq_none_iff] at hd ⊢
    exact h.alloc_fail b hd

/-! ### stack items as a codec -/

theorem itemC_lawful (prot : Bool) : (itemC prot).Lawful where
  roundtrip v r hw := by
    have h2 : Item.count v ≤ WireLimits.stackMaxDeserialized := hw.2
    have h := Item.rt_all (Item.count v) v (Nat.le_refl _) hw.1 (WireLimits.stackMaxDeserialized + 1)
      WireLimits.stackMaxDeserialized r h2 (by omega) (by decide)
    simp only [itemC, Item.decode, h, Option.map_some]
  dec_wf b v r hd := by
    simp only [itemC, Item.decode, Option.map_eq_some_iff] at hd
    obtain ⟨⟨v', r', l'⟩, hdec, he⟩ := hd
    simp at he
    obtain ⟨e1, e2⟩ := he
    subst e1 e2
    have hg := Item.decItem_good prot (WireLimits.stackMaxDeserialized + 1) WireLimits.stackMaxDeserialized b v' r' l' hdec
    exact ⟨Item.decItem_wf _ _ _ _ _ _ hdec, by omega⟩
  dec_suffix b v r hd := by
    simp only [itemC, Item.decode, Option.map_eq_some_iff] at hd
    obtain ⟨⟨v', r', l'⟩, hdec, he⟩ := hd
    simp at he
    rw [← he.2]; exact Item.decItem_suff prot _ _ _ _ _ _ hdec
  size_eq _ _ := rfl
  alloc_ok _ _ _ _ := by simp [itemC]
  alloc_fail _ _ := by simp [itemC]

theorem itemC_strict (prot : Bool) : (itemC prot).Strict := by
  intro b v r hd
  simp only [itemC, Item.decode, Option.map_eq_some_iff] at hd
  obtain ⟨⟨v', r', l'⟩, hdec, he⟩ := hd
  simp at he
  rw [← he.2]; exact (Item.decItem_good prot _ _ _ _ _ _ hdec).2

/-! ### notification event -/

theorem stateC_lawful : stateC.Lawful :=
  mapN_lawful (refine_lawful (itemC_lawful false)) (by
    intro a hw
    obtain ⟨⟨hwf, hc⟩, hs⟩ := hw
    cases a <;> simp [isArrOrStruct] at hs
    · exact ⟨⟨⟨hwf, hc⟩, rfl⟩, rfl⟩
    · refine ⟨⟨⟨?_, ?_⟩, rfl⟩, rfl⟩
      · simpa [itemList, Item.wfB] using hwf
      · simpa [itemList, Item.count] using hc)

theorem notificationC_lawful : notificationC.Lawful :=
  map_lawful (seq_lawful (fixed_lawful 20) (seq_lawful (varBytes_lawful _) stateC_lawful)) (fun _ _ => rfl)

theorem notificationC_strict : notificationC.Strict :=
  map_strict (seq_strict_left (fixed_strict 20 (by decide)) (seq_lawful (varBytes_lawful _) stateC_lawful))

/-! ### contract invocation, application execution result -/

theorem invArgs_facts (t : Bool) :
    (if t then const ([] : Bytes) else varBytes WireLimits.maxArraySize).Lawful
    ∧ (if t then const ([] : Bytes) else varBytes WireLimits.maxArraySize).allocK ≤ 1
    ∧ (if t then const ([] : Bytes) else varBytes WireLimits.maxArraySize).allocC ≤ WireLimits.maxArraySize := by
  cases t
  · exact ⟨varBytes_lawful _, Nat.le_refl _, Nat.le_refl _⟩
  · exact ⟨const_lawful _, by simp [const], by simp [const]⟩

theorem invocationC_lawful : invocationC.Lawful :=
  map_lawful (bind_lawful (seq_lawful (fixed_lawful 20) (seq_lawful (varBytes_lawful _)
    (seq_lawful (uintLE_lawful 4) boolC_lawful))) (fun p => (invArgs_facts p.2.2.2).1)
    (fun p => (invArgs_facts p.2.2.2).2.1) (fun p => (invArgs_facts p.2.2.2).2.2)) (fun _ _ => rfl)

theorem invocationC_strict : invocationC.Strict :=
  map_strict (bind_strict_left (seq_strict_left (fixed_strict 20 (by decide)) (seq_lawful (varBytes_lawful _)
    (seq_lawful (uintLE_lawful 4) boolC_lawful))) (fun p => (invArgs_facts p.2.2.2).1))

theorem aerHeadC_lawful : aerHeadC.Lawful :=
  seq_lawful (fixed_lawful 32) (seq_lawful byte_lawful (seq_lawful (uintLE_lawful 1) (seq_lawful (uintLE_lawful 8)
    (seq_lawful (array_lawful (itemC_lawful true) (itemC_strict true))
      (seq_lawful (array_lawful notificationC_lawful notificationC_strict) (varBytes_lawful _))))))

theorem aerInvC_facts (raw : Nat) : (aerInvC raw).Lawful ∧ (aerInvC raw).allocK ≤ aerInvK ∧ (aerInvC raw).allocC ≤ aerInvCap := by
  unfold aerInvC
  split
  · exact ⟨array_lawful invocationC_lawful invocationC_strict, Nat.le_refl _, Nat.le_refl _⟩
  · exact ⟨const_lawful _, by simp [const], by simp [const]⟩

theorem aerC_lawful : aerC.Lawful :=
  mapN_lawful (bind_lawful aerHeadC_lawful (fun h => (aerInvC_facts h.2.2.1).1) (fun h => (aerInvC_facts h.2.2.1).2.1)
    (fun h => (aerInvC_facts h.2.2.1).2.2)) (by
    intro a hw
    obtain ⟨⟨c, t, raw, g, st, ev, fe⟩, invs⟩ := a
    obtain ⟨⟨hc, ht, hraw, hrest⟩, hinv⟩ := hw
    simp only at hraw hinv
    have hraw256 : raw < 256 := by simpa [uintLE] using hraw
    refine ⟨⟨⟨hc, ht, ?_, hrest⟩, ?_⟩, ?_⟩
    · simp only [uintLE]; split <;> omega
    · simp only [aerInvC] at hinv ⊢
      by_cases he : invs.isEmpty = true
      · have : invs = [] := by simpa using he
        subst this
        have h128 : ¬ (raw % 128 % 128 + 0 ≥ 128) := by omega
        simp only [List.isEmpty_nil, if_true, h128, if_false]
        rfl
      · simp only [he]
        have hge : raw ≥ 128 := by
          by_cases h128 : raw ≥ 128
          · exact h128
          · simp only [h128, if_false, const] at hinv
            rw [hinv] at he; simp at he
        simp only [hge, if_true] at hinv
        have : raw % 128 % 128 + (if false = true then 0 else 128) ≥ 128 := by simp
        simp only [Bool.false_eq_true, if_false] at this ⊢
        simp only [this, if_true]
        exact hinv
    · simp only
      congr 1
      split <;> omega)

end NeoModel.Wire

