/-
C11 helper lemmas: the size invariant (Proofs/MptRcSize.lean) along runs of the node model.
-/
import NeoModel.Proofs.MptRcSize
import NeoModel.Proofs.MptRcChain
namespace NeoModel.MptRc
open NeoModel.Mpt

def EvOK : ChainEv → Prop
  | .addBlock ops _ _ => ∀ o ∈ ops, SubOK o
  | _ => True

theorem heights_compileEv {H : Bytes → Bytes} {c : Chain} {s : St} {top : Option Nat} {pn : Nat}
    (hs : Sim H c s top pn) (ev : ChainEv) : Heights top (compileEv c ev) := by
  cases ev with
  | addBlock ops ld nm =>
    have hh : ∀ h, top = some h → h < c.next := by
      intro h ht
      rw [hs.top_eq] at ht
      by_cases h0 : c.next = 0
      · simp [h0] at ht
      · simp only [h0, if_false, Option.some.injEq] at ht; omega
    simp only [compileEv, Heights]
    refine ⟨hh, ?_⟩
    split <;> simp [Heights]
  | persist f => simp [compileEv, Heights]
  | runGC =>
    simp only [compileEv]
    split
    · simp [Heights]
    · split <;> simp [Heights]
  | restart => simp [compileEv, Heights]

theorem evOK_compileEv (c : Chain) (ev : ChainEv) (h : EvOK ev) : ∀ o ∈ compileEv c ev, OpOK o := by
  intro o ho
  cases ev with
  | addBlock ops ld nm =>
    simp only [compileEv, List.mem_cons] at ho
    rcases ho with rfl | ho
    · exact h
    · split at ho
      · simp only [List.mem_singleton] at ho; subst ho; trivial
      · simp at ho
  | persist f => simp [compileEv] at ho
  | runGC =>
    simp only [compileEv] at ho
    split at ho
    · simp at ho
    · split at ho
      · simp at ho
      · simp only [List.mem_singleton] at ho; subst ho; trivial
  | restart => simp only [compileEv, List.mem_singleton] at ho; subst ho; trivial

/-- the size invariant along a node run. -/
theorem sim_run_size (H : Bytes → Bytes) (evs : List ChainEv) : ∀ (c : Chain) (s : St) (top : Option Nat) (pn : Nat),
    Sim H c s top pn → SizeInv s → (∀ ev ∈ evs, EvOK ev) →
    ∃ c' s' top' pn', runChain H c evs = some c' ∧ Sim H c' s' top' pn' ∧ SizeInv s' := by
  induction evs with
  | nil => intro c s top pn hs hz _; exact ⟨c, s, top, pn, rfl, hs, hz⟩
  | cons e r ih =>
    intro c s top pn hs hz hok
    obtain ⟨c1, s1, top1, pn1, hc1, hr1, hs1⟩ := sim_step H c s top pn hs e
    have hz1 : SizeInv s1 := run_sizeInv H .gc rfl (compileEv c e) top s hs.inv hz (heights_compileEv hs e)
      (evOK_compileEv c e (hok e List.mem_cons_self)) s1 hr1
    obtain ⟨c', s', top', pn', hc', hs', hz'⟩ := ih c1 s1 top1 pn1 hs1 hz1 (fun ev hev => hok ev (List.mem_cons_of_mem _ hev))
    exact ⟨c', s', top', pn', by simp only [runChain, hc1, hc'], hs', hz'⟩

end NeoModel.MptRc
