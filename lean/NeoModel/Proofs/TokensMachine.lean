/-
The transaction machine preserves the invariant: every operation, every outcome.
-/
import NeoModel.Proofs.TokensBlock
namespace NeoModel.Tokens

/-- machine invariant: the current ledger and the ledger a FAULT would restore both satisfy `Inv`;
the Notary and NEO contracts are different accounts. -/
structure MInv (nt : Nat) (s : St) : Prop where
  notary : s.env.notary = nt
  neoC : s.env.neoC ≠ nt
  cur : Inv nt s.cur
  snap : Inv nt s.snap

theorem MInv.throw {nt : Nat} {s : St} (h : MInv nt s) : MInv nt s.throw :=
  ⟨h.notary, h.neoC, h.snap, h.snap⟩

theorem MInv.done {nt : Nat} {s : St} (h : MInv nt s) (l : Ledger) (r : Res) (hl : Inv nt l) : MInv nt (s.done l r) := by
  unfold St.done
  split
  · exact ⟨h.notary, h.neoC, hl, h.snap⟩
  · exact ⟨h.notary, h.neoC, hl, h.snap⟩

theorem MInv.fin {nt : Nat} {s : St} (h : MInv nt s) (l : Ledger) (d1 d2 : Option (Nat × Int)) (hl : Inv nt l) :
    MInv nt (match mintDists s.env l d1 d2 with
      | none => s.throw
      | some l'' => s.done l'' .t) := by
  cases hm : mintDists s.env l d1 d2 with
  | none => exact h.throw
  | some l'' => exact h.done l'' .t (hl.mintDists h.notary hm)

theorem InvG.neoOnPayment {nt : Nat} {dn dg k : Int} {e : Env} {l l' : Ledger} {amt : Int} {p : Nat} {w : Bool}
    (hi : InvG nt dn dg k l) (hne : e.neoC ≠ nt) (h : neoOnPayment e l amt p w = some l') : InvG nt dn dg k l' := by
  unfold Tokens.neoOnPayment at h
  split at h
  · simp at h
  · split at h
    · simp at h
    · have := (hi.registerInternal p).burnGas h
      simpa [hne] using this

theorem afterPosted_inv {nt : Nat} (s : St) (t : Tok) (l : Ledger) (src dst : Nat) (amt : Int) (recv : Recv) (data : Data)
    (d1 d2 : Option (Nat × Int)) (h : MInv nt s)
    (hl : InvG nt 0 0 (if t = .gas ∧ dst = nt then amt else 0) l) (ha : 0 ≤ amt) :
    MInv nt (afterPosted s t l src dst amt recv data d1 d2) := by
  unfold afterPosted
  simp only []
  by_cases hd : dst = s.env.notary
  · rw [if_pos hd]
    have hdn : dst = nt := by rw [hd, h.notary]
    cases t with
    | neo => exact h.throw
    | gas =>
      cases data with
      | other => exact h.throw
      | pub p w => exact h.throw
      | notary dto till =>
        simp only []
        cases hn : notaryOnPayment s.env l src amt dto till with
        | none => exact h.throw
        | some l' =>
          simp only []
          have hl' := hl.notaryOnPayment ha hn
          simp [hdn] at hl'
          exact h.fin l' d1 d2 hl'
  · rw [if_neg hd]
    have hdn : dst ≠ nt := by rw [← h.notary]; exact hd
    have hl0 : Inv nt l := by simpa [hdn] using hl
    by_cases hc : dst = s.env.neoC
    · rw [if_pos hc]
      cases t with
      | neo => exact h.throw
      | gas =>
        cases data with
        | other => exact h.throw
        | notary dto till => exact h.throw
        | pub p w =>
          simp only []
          cases hn : neoOnPayment s.env l amt p w with
          | none => exact h.throw
          | some l' => exact h.fin l' d1 d2 (hl0.neoOnPayment h.neoC hn)
    · rw [if_neg hc]
      cases recv with
      | none => exact h.fin l d1 d2 hl0
      | accept => exact h.fin l d1 d2 hl0
      | throws => exact h.throw
      | cb => exact ⟨h.notary, h.neoC, hl0, h.snap⟩

theorem exec_inv {nt : Nat} (s : St) (op : Op) (h : MInv nt s) : MInv nt (exec s op) := by
  cases op with
  | block idx =>
    simp only [exec]
    have hc : Inv nt (neoOnPersist { s.env with index := idx } { s.cur with events := [] }) :=
      (h.cur.congr (l' := { s.cur with events := [] }) ⟨rfl, rfl, rfl, rfl, rfl, rfl, rfl⟩).congr (sameCore_neoOnPersist _ _)
    exact ⟨h.notary, h.neoC, hc, hc⟩
  | onPersist primary notaries txs =>
    simp only [exec]
    split
    · exact h
    · rename_i hA1
      split
      · exact h
      · rename_i hA2
        have hp : primary ≠ nt := by
          intro hp; apply hA1; left; rw [h.notary]; exact hp
        have hn : ¬ notaries.contains nt = true := by
          intro hn; apply hA1; right; rw [h.notary]; exact hn
        have hok : txsOK nt txs := by
          intro t ht hs
          by_cases hx : t.nkeys.isSome = true ∧ t.payer.isSome = true
          · exact hx
          · exfalso; apply hA2
            simp only [List.any_eq_true]
            refine ⟨t, ht, ?_⟩
            rw [h.notary]
            simp only [hs, true_and, decide_eq_true_eq]
            cases hk : t.nkeys <;> cases hq : t.payer <;> simp_all
        cases h1 : gasOnPersist s.env s.cur primary txs with
        | none => exact ⟨h.notary, h.neoC, h.cur, h.snap⟩
        | some l1 =>
          simp only []
          cases h2 : notaryOnPersist s.env l1 notaries txs with
          | none => exact ⟨h.notary, h.neoC, h.cur, h.snap⟩
          | some l2 =>
            have := InvG.onPersist h.cur h.notary hp hn hok h1 h2
            exact ⟨h.notary, h.neoC, this, this⟩
  | postPersist committee =>
    simp only [exec]
    split
    · exact h
    · rename_i hA
      cases hpp : neoPostPersist s.env s.cur committee with
      | none => exact ⟨h.notary, h.neoC, h.cur, h.snap⟩
      | some l =>
        have : Inv nt l := h.cur.neoPostPersist (by rw [← h.notary]; exact hA) hpp
        exact ⟨h.notary, h.neoC, this, this⟩
  | txBegin sender =>
    simp only [exec]
    exact ⟨h.notary, h.neoC, h.cur, h.cur⟩
  | txEnd abort =>
    simp only [exec]
    split
    · exact ⟨h.notary, h.neoC, h.snap, h.snap⟩
    · exact ⟨h.notary, h.neoC, h.cur, h.cur⟩
  | endCb =>
    simp only [exec]
    split
    · exact h
    · cases hcb : s.cbs with
      | nil => exact h
      | cons f rest =>
        simp only []
        have h' : MInv nt { s with cbs := rest } := ⟨h.notary, h.neoC, h.cur, h.snap⟩
        exact h'.fin s.cur f.d1 f.d2 h.cur
  | transfer t src dst amt wit recv data =>
    simp only [exec]
    split
    · exact h
    · cases hp : transferPre t s.env s.cur src dst amt (wit && src != s.env.notary) with
      | thr => exact h.throw
      | ret l b =>
        simp only []
        have hl : Inv nt l := h.cur.congr (transferPre_ret t s.env s.cur src dst amt _ l b h.cur hp).1
        have := h.done l (resOf b) hl
        split
        · exact ⟨this.notary, this.neoC, this.cur, this.snap⟩
        · exact this
      | posted l d1 d2 =>
        simp only []
        obtain ⟨hl, ha⟩ := transferPre_posted t s.env s.cur src dst amt _ l d1 d2 h.cur hp
        -- the transfer was witnessed, so the source is not the Notary contract
        have hsrc : src ≠ nt := by
          intro hs
          have : (wit && src != s.env.notary) = false := by rw [h.notary, hs]; simp
          rw [this] at hp
          unfold transferPre at hp
          simp only [] at hp
          split at hp
          · cases hp
          · simp at hp
        have hl' : InvG nt 0 0 (if t = .gas ∧ dst = nt then amt else 0) l := by
          have e1 : (0 : Int) + (if t = Tok.gas ∧ dst = nt then amt else 0) - (if t = Tok.gas ∧ src = nt then amt else 0) =
              (if t = .gas ∧ dst = nt then amt else 0) := by simp [hsrc]
          rw [e1] at hl; exact hl
        exact afterPosted_inv s t l src dst amt recv data d1 d2 h hl' ha
  | vote acc pub wit =>
    simp only [exec]
    split
    · exact h
    · have hv := (votePre_inv s.env s.cur acc pub wit h.cur).1
      cases hvp : votePre s.env s.cur acc pub wit with
      | mk l r =>
        obtain ⟨b, g⟩ := r
        rw [hvp] at hv
        cases b with
        | false => exact h.done l .f hv
        | true =>
          simp only []
          cases g with
          | none => exact h.done l .t hv
          | some g =>
            simp only []
            cases hm : mintGasCb s.env l acc g with
            | none => exact h.throw
            | some l' => exact h.done l' .t (hv.mintGasCb h.notary hm)
  | register pub =>
    simp only [exec]
    split
    · exact h
    · exact h.done _ .t (h.cur.registerInternal pub)
  | unregister pub wit =>
    simp only [exec]
    split
    · exact h
    · exact h.done _ _ (h.cur.unregister pub wit)
  | lock acc till wit =>
    simp only [exec]
    split
    · exact h
    · exact h.done _ _ (h.cur.lockDeposit acc till wit)
  | withdraw src dst wit recv =>
    simp only [exec]
    split
    · exact h
    · cases hw : withdrawPre s.env s.cur src wit with
      | none => exact h.done s.cur .f h.cur
      | some r =>
        obtain ⟨l, amt⟩ := r
        simp only []
        obtain ⟨hl, ha⟩ := h.cur.withdrawPre hw
        cases hp : transferPre .gas s.env l s.env.notary (dst.getD src) amt true with
        | thr => exact h.throw
        | ret l' b => exact h.throw
        | posted l' d1 d2 =>
          simp only []
          obtain ⟨hl', _⟩ := transferPre_posted .gas s.env l s.env.notary (dst.getD src) amt true l' d1 d2 hl hp
          have hl'' : InvG nt 0 0 (if Tok.gas = Tok.gas ∧ dst.getD src = nt then amt else 0) l' := by
            have e1 : (0 : Int) + amt + (if Tok.gas = Tok.gas ∧ dst.getD src = nt then amt else 0) -
                (if Tok.gas = Tok.gas ∧ s.env.notary = nt then amt else 0) =
                (if Tok.gas = Tok.gas ∧ dst.getD src = nt then amt else 0) := by simp [h.notary]; omega
            rw [e1] at hl'; exact hl'
          exact afterPosted_inv s .gas l' s.env.notary (dst.getD src) amt recv .other d1 d2 h hl'' ha
  | setGpb gas wit =>
    simp only [exec]
    split
    · exact h
    · cases hs : setGasPerBlock s.env s.cur gas wit with
      | none => exact h.throw
      | some l => exact h.done l .null (h.cur.congr (sameCore_setGasPerBlock _ _ _ _ _ hs))
  | setRegPrice price wit =>
    simp only [exec]
    split
    · exact h
    · cases hs : setRegisterPrice s.cur price wit with
      | none => exact h.throw
      | some l => exact h.done l .null (h.cur.congr (sameCore_setRegisterPrice _ _ _ _ hs))

theorem step_inv {nt : Nat} (s : St) (op : Op) (h : MInv nt s) : MInv nt (step s op) := by
  unfold step
  split
  · split
    · exact ⟨h.notary, h.neoC, h.cur, h.snap⟩
    · exact ⟨h.notary, h.neoC, h.cur, h.snap⟩
    · exact h
  · exact exec_inv s op h

theorem run_inv {nt : Nat} (s : St) (ops : List Op) (h : MInv nt s) : MInv nt (run s ops) := by
  induction ops generalizing s with
  | nil => exact h
  | cons op rest ih => exact ih (step s op) (step_inv s op h)

end NeoModel.Tokens
