/-
The transaction machine preserves the invariant: every operation, every outcome.
-/
import NeoModel.Proofs.TokensBlock
namespace NeoModel.Tokens

/-- machine invariant: the current ledger and the ledger a FAULT would restore both satisfy `Inv`;
the Notary and NEO contracts are different accounts. -/
structure MInv (nt : Nat) (s : St) : Prop where
  notary : s.env.notary = nt
  neoC : s.env.neoC ≠ nt
  cur : Inv nt s.cur
  snap : Inv nt s.snap

theorem MInv.throw {nt : Nat} {s : St} (h : MInv nt s) : MInv nt s.throw :=
  ⟨h.notary, h.neoC, h.snap, h.snap⟩

theorem MInv.done {nt : Nat} {s : St} (h : MInv nt s) (l : Ledger) (r : Res) (hl : Inv nt l) : MInv nt (s.done l r) := by
  unfold St.done
  split
  · exact ⟨h.notary, h.neoC, hl, h.snap⟩
  · exact ⟨h.notary, h.neoC, hl, h.snap⟩

theorem MInv.fin {nt : Nat} {s : St} (h : MInv nt s) (l : Ledger) (d1 d2 : Option (Nat × Int)) (hl : Inv nt l) :
    MInv nt (match mintDists s.env l d1 d2 with
      | none => s.throw
      | some l'' => s.done l'' .t) := by
  cases hm : mintDists s.env l d1 d2 with
  | none => exact h.throw
  | some l'' => exact h.done l'' .t (hl.mintDists h.notary hm)

theorem InvG.neoOnPayment {nt : Nat} {dn dg k : Int} {e : Env} {l l' : Ledger} {amt : Int} {p : Nat} {w : Bool}
    (hi : InvG nt dn dg k l) (hne : e.neoC ≠ nt) (h : neoOnPayment e l amt p w = some l') : InvG nt dn dg k l' := by
  unfold Tokens.neoOnPayment at h
  split at h
  · simp at h
  · split at h
    · simp at h
    · have := (hi.registerInternal p).burnGas h
      simpa [hne] using this

theorem afterPosted_inv {nt : Nat} (s : St) (t : Tok) (l : Ledger) (src dst : Nat) (amt : Int) (recv : Recv) (data : Data)
    (d1 d2 : Option (Nat × Int)) (h : MInv nt s)
    (hl : InvG nt 0 0 (if t = .gas ∧ dst = nt then amt else 0) l) (ha : 0 ≤ amt) :
    MInv nt (afterPosted s t l src dst amt recv data d1 d2) := by
  unfold afterPosted
  simp only []
  by_cases hd : dst = s.env.notary
  · rw [if_pos hd]
    have hdn : dst = nt := by rw [hd, h.notary]
    cases t with
    | neo => exact h.throw
    | gas =>
      cases data with
      | other => exact h.throw
      | pub p => exact h.throw
      | notary dto till =>
        simp only []
        cases hn : notaryOnPayment s.env l src amt dto till with
        | none => exact h.throw
        | some l' =>
          simp only []
          have hl' := hl.notaryOnPayment ha hn
          simp [hdn] at hl'
          exact h.fin l' d1 d2 hl'
  · rw [if_neg hd]
    have hdn : dst ≠ nt := by rw [← h.notary]; exact hd
    have hl0 : Inv nt l := by simpa [hdn] using hl
    by_cases hc : dst = s.env.neoC
    · rw [if_pos hc]
      cases t with
      | neo => exact h.throw
      | gas =>
        cases data with
        | other => exact h.throw
        | notary dto till => exact h.throw
        | pub p =>
          simp only []
          cases hn : neoOnPayment s.env l amt p (witOf s.env (acctOf s.env p) (some s.env.gasC) s.env.neoC) with
          | none => exact h.throw
          | some l' => exact h.fin l' d1 d2 (hl0.neoOnPayment h.neoC hn)
    · rw [if_neg hc]
      split
      · exact h.throw
      · cases recv with
        | none => exact h.fin l d1 d2 hl0
        | accept => exact h.fin l d1 d2 hl0
        | throws => exact h.throw
        | cb => exact ⟨h.notary, h.neoC, hl0, h.snap⟩

theorem InvG.neoPostPersistAll {nt : Nat} {dn dg k : Int} {e : Env} {l l' : Ledger}
    (hi : InvG nt dn dg k l) (hc : ¬ (l.committee.map (fun c => (c.1, acctOf e c.1, c.2))).any (fun c => c.2.1 = nt) = true)
    (h : neoPostPersistAll e l = some l') : InvG nt dn dg k l' := by
  unfold Tokens.neoPostPersistAll at h
  cases hp : Tokens.neoPostPersist e l (l.committee.map (fun c => (c.1, acctOf e c.1, c.2))) with
  | none => simp [hp] at h
  | some l1 =>
    simp only [hp] at h
    have h1 := hi.neoPostPersist hc hp
    split at h
    · split at h
      · exact h1.congr (sameCore_updateNewEpoch _ _ _ h)
      · injection h with h; subst h; exact h1
    · injection h with h; subst h; exact h1

theorem sameCore_unblockAccount (l : Ledger) (acc : Nat) : sameCore l (unblockAccount l acc).1 := by
  unfold unblockAccount
  split
  · exact ⟨rfl, rfl, rfl, rfl, rfl, rfl, rfl⟩
  · exact sameCore.rfl' _

theorem InvG.blockAccount {nt : Nat} {e : Env} {l l' : Ledger} {acc : Nat} {b : Bool}
    (hi : Inv nt l) (hnt : e.notary = nt) (h : blockAccount e l acc = some (l', b)) : Inv nt l' := by
  unfold Tokens.blockAccount at h
  split at h
  · injection h with h; injection h with h1 _; subst h1; exact hi
  · have hv := (votePre_inv e l acc none true hi).1
    simp only [] at h
    split at h
    · rename_i l1 _ hvp
      rw [hvp] at hv
      injection h with h; injection h with h1 _; subst h1
      exact hv.congr ⟨rfl, rfl, rfl, rfl, rfl, rfl, rfl⟩
    · rename_i l1 hvp
      rw [hvp] at hv
      injection h with h; injection h with h1 _; subst h1
      exact hv.congr ⟨rfl, rfl, rfl, rfl, rfl, rfl, rfl⟩
    · rename_i l1 g hvp
      rw [hvp] at hv
      cases hm : Tokens.mintGasCb e l1 acc g with
      | none => simp [hm] at h
      | some l2 =>
        simp only [hm] at h
        injection h with h; injection h with h1 _; subst h1
        exact (hv.mintGasCb hnt hm).congr ⟨rfl, rfl, rfl, rfl, rfl, rfl, rfl⟩

theorem exec_inv {nt : Nat} (s : St) (op : Op) (h : MInv nt s) : MInv nt (exec s op) := by
  cases op with
  | block idx =>
    simp only [exec]
    have hc : Inv nt (neoOnPersist { s.env with index := idx } { s.cur with events := [] }) :=
      (h.cur.congr (l' := { s.cur with events := [] }) ⟨rfl, rfl, rfl, rfl, rfl, rfl, rfl⟩).congr (sameCore_neoOnPersist _ _)
    exact ⟨h.notary, h.neoC, hc, hc⟩
  | onPersist pidx notaries txs =>
    simp only [exec]
    split
    · exact ⟨h.notary, h.neoC, h.cur, h.snap⟩
    · split
      · exact h
      · rename_i hA1
        split
        · exact h
        · rename_i hA2
          have hp : acctOf s.env ((s.cur.nextVals[pidx]?).getD 0) ≠ nt := by
            intro hp; apply hA1; left; rw [h.notary]; exact hp
          have hn : ¬ notaries.contains nt = true := by
            intro hn; apply hA1; right; rw [h.notary]; exact hn
          have hok : txsOK nt txs := by
            intro t ht hs
            by_cases hx : t.nkeys.isSome = true ∧ t.payer.isSome = true
            · exact hx
            · exfalso; apply hA2
              simp only [List.any_eq_true]
              refine ⟨t, ht, ?_⟩
              rw [h.notary]
              simp only [hs, true_and, decide_eq_true_eq]
              cases hk : t.nkeys <;> cases hq : t.payer <;> simp_all
          cases h1 : gasOnPersist s.env s.cur (acctOf s.env ((s.cur.nextVals[pidx]?).getD 0)) txs with
          | none => exact ⟨h.notary, h.neoC, h.cur, h.snap⟩
          | some l1 =>
            simp only []
            cases h2 : notaryOnPersist s.env l1 notaries txs with
            | none => exact ⟨h.notary, h.neoC, h.cur, h.snap⟩
            | some l2 =>
              have := InvG.onPersist h.cur h.notary hp hn hok h1 h2
              exact ⟨h.notary, h.neoC, this, this⟩
  | postPersist =>
    simp only [exec]
    split
    · exact h
    · rename_i hA
      cases hpp : neoPostPersistAll s.env s.cur with
      | none => exact ⟨h.notary, h.neoC, h.cur, h.snap⟩
      | some l =>
        have : Inv nt l := h.cur.neoPostPersistAll (by
          rw [← h.notary]
          simpa [List.any_map, Function.comp_def] using hA) hpp
        exact ⟨h.notary, h.neoC, this, this⟩
  | txBegin sender signers =>
    simp only [exec]
    exact ⟨h.notary, h.neoC, h.cur, h.cur⟩
  | txEnd abort =>
    simp only [exec]
    split
    · exact ⟨h.notary, h.neoC, h.snap, h.snap⟩
    · exact ⟨h.notary, h.neoC, h.cur, h.cur⟩
  | endCb =>
    simp only [exec]
    split
    · exact h
    · cases hcb : s.cbs with
      | nil => exact h
      | cons f rest =>
        simp only []
        have h' : MInv nt { s with cbs := rest } := ⟨h.notary, h.neoC, h.cur, h.snap⟩
        exact h'.fin s.cur f.d1 f.d2 h.cur
  | transfer t src dst amt caller dk data =>
    simp only [exec]
    split
    · exact h
    · cases hp : transferPre t s.env s.cur src dst amt (witOf s.env src caller (tokC s.env t) && src != s.env.notary) with
      | thr => exact h.throw
      | ret l b =>
        simp only []
        have hl : Inv nt l := h.cur.congr (transferPre_ret t s.env s.cur src dst amt _ l b h.cur hp).1
        have := h.done l (resOf b) hl
        split
        · exact ⟨this.notary, this.neoC, this.cur, this.snap⟩
        · exact this
      | posted l d1 d2 =>
        simp only []
        obtain ⟨hl, ha⟩ := transferPre_posted t s.env s.cur src dst amt _ l d1 d2 h.cur hp
        -- the transfer was witnessed, so the source is not the Notary contract
        have hsrc : src ≠ nt := by
          intro hs
          have : (witOf s.env src caller (tokC s.env t) && src != s.env.notary) = false := by rw [h.notary, hs]; simp
          rw [this] at hp
          unfold transferPre at hp
          simp only [] at hp
          split at hp
          · cases hp
          · simp at hp
        have hl' : InvG nt 0 0 (if t = .gas ∧ dst = nt then amt else 0) l := by
          have e1 : (0 : Int) + (if t = Tok.gas ∧ dst = nt then amt else 0) - (if t = Tok.gas ∧ src = nt then amt else 0) =
              (if t = .gas ∧ dst = nt then amt else 0) := by simp [hsrc]
          rw [e1] at hl; exact hl
        exact afterPosted_inv s t l src dst amt (recvOf s.env dst dk) data d1 d2 h hl' ha
  | vote acc pub caller cb =>
    simp only [exec]
    split
    · exact h
    · have hv := (votePre_inv s.env s.cur acc pub (witOf s.env acc caller s.env.neoC) h.cur).1
      cases hvp : votePre s.env s.cur acc pub (witOf s.env acc caller s.env.neoC) with
      | mk l r =>
        obtain ⟨b, g⟩ := r
        rw [hvp] at hv
        have noCb : ∀ s' : St, MInv nt s' → MInv nt (if cb = true then { s' with skip := 1 } else s') := by
          intro s' h'; split
          · exact ⟨h'.notary, h'.neoC, h'.cur, h'.snap⟩
          · exact h'
        cases b with
        | false => exact noCb _ (h.done l .f hv)
        | true =>
          simp only []
          cases g with
          | none => exact noCb _ (h.done l .t hv)
          | some g =>
            simp only []
            cases hm : mintGasCb s.env l acc g with
            | none => exact h.throw
            | some l' =>
              simp only []
              split
              · exact ⟨h.notary, h.neoC, hv.mintGasCb h.notary hm, h.snap⟩
              · exact noCb _ (h.done l' .t (hv.mintGasCb h.notary hm))
  | register pub caller =>
    simp only [exec]
    split
    · exact h
    · exact h.done _ .t (h.cur.registerInternal pub)
  | unregister pub caller =>
    simp only [exec]
    split
    · exact h
    · exact h.done _ _ (h.cur.unregister pub _)
  | lock acc till caller =>
    simp only [exec]
    split
    · exact h
    · exact h.done _ _ (h.cur.lockDeposit acc till _)
  | withdraw src dst caller =>
    simp only [exec]
    split
    · exact h
    · cases hw : withdrawPre s.env s.cur src (witOf s.env src caller s.env.notary) with
      | none => exact h.done s.cur .f h.cur
      | some r =>
        obtain ⟨l, amt⟩ := r
        simp only []
        obtain ⟨hl, ha⟩ := h.cur.withdrawPre hw
        cases hp : transferPre .gas s.env l s.env.notary (dst.getD src) amt true with
        | thr => exact h.throw
        | ret l' b => exact h.throw
        | posted l' d1 d2 =>
          simp only []
          obtain ⟨hl', _⟩ := transferPre_posted .gas s.env l s.env.notary (dst.getD src) amt true l' d1 d2 hl hp
          have hl'' : InvG nt 0 0 (if Tok.gas = Tok.gas ∧ dst.getD src = nt then amt else 0) l' := by
            have e1 : (0 : Int) + amt + (if Tok.gas = Tok.gas ∧ dst.getD src = nt then amt else 0) -
                (if Tok.gas = Tok.gas ∧ s.env.notary = nt then amt else 0) =
                (if Tok.gas = Tok.gas ∧ dst.getD src = nt then amt else 0) := by simp [h.notary]; omega
            rw [e1] at hl'; exact hl'
          exact afterPosted_inv s .gas l' s.env.notary (dst.getD src) amt (recvOf s.env (dst.getD src) .null) .other d1 d2 h hl'' ha
  | setGpb gas caller =>
    simp only [exec]
    split
    · exact h
    · cases hs : setGasPerBlock s.env s.cur gas (witCommittee s.env s.cur caller s.env.neoC) with
      | none => exact h.throw
      | some l => exact h.done l .null (h.cur.congr (sameCore_setGasPerBlock _ _ _ _ _ hs))
  | setRegPrice price caller =>
    simp only [exec]
    split
    · exact h
    · cases hs : setRegisterPrice s.cur price (witCommittee s.env s.cur caller s.env.neoC) with
      | none => exact h.throw
      | some l => exact h.done l .null (h.cur.congr (sameCore_setRegisterPrice _ _ _ _ hs))
  | blockAcc acc caller =>
    simp only [exec]
    split
    · exact h
    · split
      · exact h.throw
      · split
        · exact h.throw
        · cases hb : blockAccount s.env s.cur acc with
          | none => exact h.throw
          | some r =>
            obtain ⟨l, b⟩ := r
            exact h.done l _ (h.cur.blockAccount h.notary hb)
  | unblockAcc acc caller =>
    simp only [exec]
    split
    · exact h
    · split
      · exact h.throw
      · exact h.done _ _ (h.cur.congr (sameCore_unblockAccount _ _))
  | designate nodes caller =>
    simp only [exec]
    split
    · exact h
    · cases hs : designateNotary s.env s.cur nodes (witCommittee s.env s.cur caller s.env.desigC) with
      | none => exact h.throw
      | some l => exact h.done l .null (h.cur.congr (sameCore_designateNotary _ _ _ _ _ hs).1)

/-- block-level operations are never skipped and have no calling contract. -/
theorem step_eq_exec (s : St) (op : Op) (h : op.isCall = false) : step s op = exec s op := by
  unfold step
  rw [if_neg (by simp [h])]
  have : callerBlocked s op = false := by
    unfold callerBlocked
    cases op <;> simp [Op.isCall] at h <;> simp [Op.caller]
  simp [this]

theorem step_inv {nt : Nat} (s : St) (op : Op) (h : MInv nt s) : MInv nt (step s op) := by
  unfold step
  split
  · (repeat' split) <;> first | exact h | exact ⟨h.notary, h.neoC, h.cur, h.snap⟩
  · split
    · exact h.throw
    · exact exec_inv s op h

theorem run_inv {nt : Nat} (s : St) (ops : List Op) (h : MInv nt s) : MInv nt (run s ops) := by
  induction ops generalizing s with
  | nil => exact h
  | cons op rest ih => exact ih (step s op) (step_inv s op h)

end NeoModel.Tokens
