/-
Balance changes equal the net amount of the Transfer notifications: per primitive, then for the machine.
-/
import NeoModel.Proofs.TokensMachine
namespace NeoModel.Tokens

/-- balance of account `a` in token `t` (0 when there is no storage item). -/
def balOf (l : Ledger) : Tok → Nat → Int
  | .neo, a => at0 (·.bal) l.neo a
  | .gas, a => at0 id l.gas a

/-- signed amount of one Transfer notification for account `a` of token `t`. -/
def evVal (t : Tok) (a : Nat) (e : Event) : Int :=
  if e.tok = t then (if e.dst = some a then e.amt else 0) - (if e.src = some a then e.amt else 0) else 0

/-- net amount of a list of Transfer notifications for account `a` of token `t`. -/
def evNet (t : Tok) (a : Nat) : List Event → Int
  | [] => 0
  | e :: es => evVal t a e + evNet t a es

theorem evNet_append (t : Tok) (a : Nat) (xs ys : List Event) : evNet t a (xs ++ ys) = evNet t a xs + evNet t a ys := by
  induction xs with
  | nil => simp [evNet]
  | cons x r ih => simp [evNet, ih]; omega

/-- `l'` is `l` after some balance changes, each accounted for by the notifications appended. -/
def Step (l l' : Ledger) : Prop :=
  ∃ evs, l'.events = l.events ++ evs ∧ ∀ t a, balOf l' t a = balOf l t a + evNet t a evs

theorem Step.refl (l : Ledger) : Step l l := ⟨[], by simp, fun t a => by simp [evNet]⟩

theorem Step.trans {a b c : Ledger} (h1 : Step a b) (h2 : Step b c) : Step a c := by
  obtain ⟨e1, he1, hb1⟩ := h1
  obtain ⟨e2, he2, hb2⟩ := h2
  refine ⟨e1 ++ e2, by rw [he2, he1, List.append_assoc], fun t x => ?_⟩
  rw [hb2, hb1, evNet_append]; omega

theorem Step.of_eq {l l' : Ledger} (h1 : l'.neo = l.neo) (h2 : l'.gas = l.gas) (h3 : l'.events = l.events) : Step l l' :=
  ⟨[], by simp [h3], fun t a => by cases t <;> simp [balOf, evNet, h1, h2]⟩

theorem Step.of_sameCore {l l' : Ledger} (h : sameCore l l') (h3 : l'.events = l.events) : Step l l' :=
  Step.of_eq h.1 h.2.2.1 h3

/-- balances moved as one notification says, then the notification is appended. -/
theorem Step.event {l l1 : Ledger} (ev : Event) (h3 : l1.events = l.events)
    (hb : ∀ t a, balOf l1 t a = balOf l t a + evVal t a ev) : Step l (addEvent l1 ev) :=
  ⟨[ev], by simp [addEvent, h3], fun t a => by
    have : balOf (addEvent l1 ev) t a = balOf l1 t a := by cases t <;> rfl
    rw [this, hb]; simp [evNet]⟩

theorem evVal_xfer (t t' : Tok) (x src dst : Nat) (amt : Int) :
    evVal t' x ⟨t, some src, some dst, amt⟩ =
      (if t' = t ∧ x = dst then amt else 0) + (if t' = t ∧ x = src then -amt else 0) := by
  unfold evVal
  by_cases ht : t = t'
  · subst ht
    by_cases h1 : dst = x <;> by_cases h2 : src = x <;> simp [h1, h2, eq_comm] <;> omega
  · have ht' : ¬ t' = t := fun h => ht h.symm
    simp [ht, ht']

theorem evVal_mint (t : Tok) (x h : Nat) (amt : Int) :
    evVal t x ⟨.gas, none, some h, amt⟩ = if t = .gas ∧ x = h then amt else 0 := by
  unfold evVal
  cases t <;> by_cases h1 : h = x <;> simp [h1, eq_comm]

theorem evVal_burn (t : Tok) (x h : Nat) (amt : Int) :
    evVal t x ⟨.gas, some h, none, amt⟩ = if t = .gas ∧ x = h then -amt else 0 := by
  unfold evVal
  cases t <;> by_cases h1 : h = x <;> simp [h1, eq_comm] <;> (try (split <;> omega))

/-! ### primitives -/

theorem upd_bal {nt : Nat} {dn dg k : Int} (t : Tok) (e : Env) (l l' : Ledger) (a : Nat) (amt : Int) (req d : Option Int)
    (hi : InvG nt dn dg k l) (h : upd t e l a amt req = (l', true, d)) :
    l'.events = l.events ∧ ∀ t' x, balOf l' t' x = balOf l t' x + (if t' = t ∧ x = a then amt else 0) := by
  cases t with
  | neo =>
    have u := updNeo_true e l a amt req l' d hi.votes h
    refine ⟨u.events, fun t' x => ?_⟩
    cases t' with
    | neo => simp only [balOf]; rw [u.bal x]; simp
    | gas => simp [balOf, u.gas]
  | gas =>
    obtain ⟨e1, _, _, _, _, _, ev, _, u⟩ := updGas_true l a amt req l' d hi.gas.pos h
    refine ⟨ev, fun t' x => ?_⟩
    cases t' with
    | neo => simp [balOf, e1]
    | gas =>
      simp only [balOf]
      by_cases hx : x = a
      · subst hx; rw [u.ath hi.gas.nodup]; simp
      · rw [u.atne x hx]; simp [hx]

theorem transferPre_posted_step {nt : Nat} {dn dg k : Int} (t : Tok) (e : Env) (l : Ledger) (src dst : Nat) (amt : Int)
    (wit : Bool) (l' : Ledger) (d1 d2 : Option (Nat × Int)) (hi : InvG nt dn dg k l)
    (h : transferPre t e l src dst amt wit = .posted l' d1 d2) : Step l l' := by
  unfold transferPre at h
  simp only [] at h
  split at h
  · simp at h
  · split at h
    · simp at h
    · cases hu : upd t e l src (if src = dst ∨ amt = 0 then 0 else -amt) (some amt) with
      | mk l1 r =>
        obtain ⟨ok1, dd1⟩ := r
        cases ok1 with
        | false => simp only [hu] at h; simp at h
        | true =>
          simp only [hu] at h
          obtain ⟨ev1, hb1⟩ := upd_bal t e l l1 src _ _ dd1 hi hu
          have hi1 := hi.upd hu
          split at h
          · rename_i hemp
            injection h with h1 _ _
            subst h1
            refine Step.event _ ev1 (fun t' x => ?_)
            rw [hb1, if_pos hemp, evVal_xfer]
            rcases hemp with hh | hh
            · subst hh; repeat' split
              all_goals omega
            · subst hh; repeat' split
              all_goals omega
          · rename_i hemp
            cases hu2 : upd t e l1 dst amt none with
            | mk l2 r2 =>
              obtain ⟨ok2, dd2⟩ := r2
              cases ok2 with
              | false => simp only [hu2] at h; simp at h
              | true =>
                simp only [hu2] at h
                injection h with h1 _ _
                subst h1
                obtain ⟨ev2, hb2⟩ := upd_bal t e l1 l2 dst _ _ dd2 hi1 hu2
                refine Step.event _ (by rw [ev2, ev1]) (fun t' x => ?_)
                rw [hb2, hb1, if_neg hemp, evVal_xfer]
                omega

theorem transferPre_ret_step {nt : Nat} {dn dg k : Int} (t : Tok) (e : Env) (l : Ledger) (src dst : Nat) (amt : Int)
    (wit : Bool) (l' : Ledger) (b : Bool) (hi : InvG nt dn dg k l)
    (h : transferPre t e l src dst amt wit = .ret l' b) : Step l l' := by
  obtain ⟨hc, _, he⟩ := transferPre_ret t e l src dst amt wit l' b hi h
  exact Step.of_sameCore hc he

theorem gasAddTokens_bal (l l' : Ledger) (h : Nat) (amt : Int) (hp : ∀ p ∈ l.gas, 0 < p.2) (hn : (keys l.gas).Nodup)
    (hr : gasAddTokens l h amt = some l') :
    l'.events = l.events ∧ ∀ t x, balOf l' t x = balOf l t x + (if t = .gas ∧ x = h then amt else 0) := by
  obtain ⟨e1, _, _, _, _, _, ev, u⟩ := gasAddTokens_some l l' h amt hp hr
  refine ⟨ev, fun t x => ?_⟩
  cases t with
  | neo => simp [balOf, e1]
  | gas =>
    simp only [balOf]
    by_cases hx : x = h
    · subst hx; rw [u.ath hn]; simp
    · rw [u.atne x hx]; simp [hx]

theorem mintGas_step {nt : Nat} {dn dg k : Int} (l l' : Ledger) (h : Nat) (amt : Int) (hi : InvG nt dn dg k l)
    (hr : mintGas l h amt = some l') : Step l l' := by
  unfold mintGas at hr
  split at hr
  · injection hr with hr; subst hr; exact Step.refl _
  · cases hg : gasAddTokens l h amt with
    | none => simp [hg] at hr
    | some l1 =>
      simp [hg] at hr; subst hr
      obtain ⟨ev, hb⟩ := gasAddTokens_bal l l1 h amt hi.gas.pos hi.gas.nodup hg
      refine Step.event _ ev (fun t x => ?_)
      rw [hb, evVal_mint]

theorem burnGas_step {nt : Nat} {dn dg k : Int} (l l' : Ledger) (h : Nat) (amt : Int) (hi : InvG nt dn dg k l)
    (hr : burnGas l h amt = some l') : Step l l' := by
  unfold burnGas at hr
  split at hr
  · injection hr with hr; subst hr; exact Step.refl _
  · cases hg : gasAddTokens l h (-amt) with
    | none => simp [hg] at hr
    | some l1 =>
      simp [hg] at hr; subst hr
      obtain ⟨ev, hb⟩ := gasAddTokens_bal l l1 h (-amt) hi.gas.pos hi.gas.nodup hg
      refine Step.event _ ev (fun t x => ?_)
      rw [hb, evVal_burn]

theorem mintGasCb_step {nt : Nat} {dn dg k : Int} (e : Env) (l l' : Ledger) (h : Nat) (amt : Int) (hi : InvG nt dn dg k l)
    (hr : mintGasCb e l h amt = some l') : Step l l' := by
  unfold mintGasCb at hr
  split at hr
  · simp at hr
  · exact mintGas_step l l' h amt hi hr

theorem mintDists_step {nt : Nat} {dn dg k : Int} (e : Env) (l l' : Ledger) (d1 d2 : Option (Nat × Int))
    (hi : InvG nt dn dg k l) (hnt : e.notary = nt) (hr : mintDists e l d1 d2 = some l') : Step l l' := by
  cases d1 with
  | none =>
    cases d2 with
    | none => simp [mintDists] at hr; subst hr; exact Step.refl _
    | some p => obtain ⟨h, g⟩ := p; simp [mintDists] at hr; exact mintGasCb_step e l l' h g hi hr
  | some p1 =>
    obtain ⟨h1, g1⟩ := p1
    cases hm : mintGasCb e l h1 g1 with
    | none => simp [mintDists, hm] at hr
    | some l1 =>
      have hi1 := hi.mintGasCb hnt hm
      have s1 := mintGasCb_step e l l1 h1 g1 hi hm
      cases d2 with
      | none => simp [mintDists, hm] at hr; subst hr; exact s1
      | some p => obtain ⟨h, g⟩ := p; simp [mintDists, hm] at hr; exact s1.trans (mintGasCb_step e l1 l' h g hi1 hr)

theorem registerInternal_step (l : Ledger) (pub : Nat) : Step l (registerInternal l pub) := by
  unfold registerInternal
  split
  · exact Step.of_eq rfl rfl rfl
  · split <;> exact Step.of_eq rfl rfl rfl

theorem unregister_step (l : Ledger) (pub : Nat) (wit : Bool) : Step l (unregister l pub wit).1 := by
  unfold unregister
  split
  · exact Step.refl _
  · cases hg : get l.cands pub with
    | none => exact Step.refl _
    | some c =>
      simp only []
      cases hd : dropIfZero { l with votesChanged := true } pub { c with reg := false } with
      | none => exact Step.of_eq rfl rfl rfl
      | some l' =>
        simp only []
        unfold dropIfZero at hd
        split at hd
        · simp at hd
        · injection hd with hd; subst hd; exact Step.of_eq rfl rfl rfl


theorem notaryOnPayment_step (e : Env) (l l' : Ledger) (src : Nat) (amt : Int) (dto : Option Nat) (till : Nat)
    (h : notaryOnPayment e l src amt dto till = some l') : Step l l' := by
  unfold notaryOnPayment at h
  simp only [] at h
  cases hg : get l.deps (dto.getD src) with
  | none =>
    simp only [hg] at h
    split at h
    · simp at h
    · split at h
      · simp at h
      · split at h
        · simp at h
        · injection h with h; subst h; exact Step.of_eq rfl rfl rfl
  | some d =>
    simp only [hg] at h
    split at h
    · simp at h
    · split at h
      · simp at h
      · injection h with h; subst h; exact Step.of_eq rfl rfl rfl

theorem lockDeposit_step (e : Env) (l : Ledger) (a till : Nat) (wit : Bool) : Step l (lockDeposit e l a till wit).1 := by
  unfold lockDeposit
  split
  · exact Step.refl _
  · split
    · exact Step.refl _
    · split
      · exact Step.refl _
      · split
        · exact Step.refl _
        · exact Step.of_eq rfl rfl rfl

theorem withdrawPre_step (e : Env) (l l' : Ledger) (src : Nat) (wit : Bool) (amt : Int)
    (h : withdrawPre e l src wit = some (l', amt)) : Step l l' := by
  unfold withdrawPre at h
  split at h
  · simp at h
  · split at h
    · simp at h
    · split at h
      · simp at h
      · injection h with h; injection h with h1 _; subst h1; exact Step.of_eq rfl rfl rfl

theorem neoOnPayment_step {nt : Nat} {dn dg k : Int} (e : Env) (l l' : Ledger) (amt : Int) (p : Nat) (w : Bool)
    (hi : InvG nt dn dg k l) (h : neoOnPayment e l amt p w = some l') : Step l l' := by
  unfold neoOnPayment at h
  split at h
  · simp at h
  · split at h
    · simp at h
    · exact (registerInternal_step l p).trans (burnGas_step _ l' e.neoC amt (hi.registerInternal p) h)

theorem burnFees_step {nt : Nat} {dn dg k : Int} (l l' : Ledger) (txs : List TxFee) (hi : InvG nt dn dg k l)
    (h : burnFees l txs = some l') : Step l l' := by
  induction txs generalizing l k with
  | nil => simp [burnFees] at h; subst h; exact Step.refl _
  | cons t ts ih =>
    simp only [burnFees] at h
    cases hb : burnGas l t.sender (t.sys + t.net) with
    | none => simp [hb] at h
    | some l1 =>
      simp only [hb] at h
      exact (burnGas_step l l1 _ _ hi hb).trans (ih l1 (hi.burnGas hb) h)

theorem gasOnPersist_step {nt : Nat} {dn dg k : Int} (e : Env) (l l' : Ledger) (primary : Nat) (txs : List TxFee)
    (hi : InvG nt dn dg k l) (h : gasOnPersist e l primary txs = some l') : Step l l' := by
  unfold gasOnPersist at h
  split at h
  · injection h with h; subst h; exact Step.refl _
  · cases hb : burnFees l txs with
    | none => simp [hb] at h
    | some lb =>
      simp only [hb] at h
      exact (burnFees_step l lb txs hi hb).trans (mintGas_step lb l' primary _ (hi.burnFees hb) h)

theorem notaryCharge_step (e : Env) (l l' : Ledger) (txs : List TxFee) (n : Int)
    (h : notaryCharge e l txs = some (l', n)) : l'.neo = l.neo ∧ l'.gas = l.gas ∧ l'.events = l.events := by
  induction txs generalizing l n with
  | nil => simp [notaryCharge] at h; obtain ⟨h, _⟩ := h; subst h; exact ⟨rfl, rfl, rfl⟩
  | cons t ts ih =>
    simp only [notaryCharge] at h
    cases hk : t.nkeys with
    | none => simp only [hk] at h; exact ih l n h
    | some kk =>
      simp only [hk] at h
      -- the ledger after the deposit of this transaction was charged
      generalize hl1 : (if t.sender = e.notary then
          match t.payer with
          | none => none
          | some p =>
            match get l.deps p with
            | none => none
            | some d =>
              let a := d.amount - (t.sys + t.net)
              if a < 0 then none
              else if a = 0 then some { l with deps := del l.deps p }
              else some { l with deps := put l.deps p { d with amount := a } }
        else some l) = o at h
      cases o with
      | none => simp at h
      | some l1 =>
        simp only [] at h
        have e1 : l1.neo = l.neo ∧ l1.gas = l.gas ∧ l1.events = l.events := by
          split at hl1
          · split at hl1
            · simp at hl1
            · split at hl1
              · simp at hl1
              · simp only [] at hl1
                split at hl1
                · simp at hl1
                · split at hl1
                  · injection hl1 with hl1; subst hl1; exact ⟨rfl, rfl, rfl⟩
                  · injection hl1 with hl1; subst hl1; exact ⟨rfl, rfl, rfl⟩
          · injection hl1 with hl1; subst hl1; exact ⟨rfl, rfl, rfl⟩
        cases hr : notaryCharge e l1 ts with
        | none => simp [hr] at h
        | some r =>
          obtain ⟨l2, n2⟩ := r
          simp only [hr] at h
          injection h with h; injection h with h1 _; subst h1
          obtain ⟨a1, a2, a3⟩ := ih l1 n2 hr
          exact ⟨a1.trans e1.1, a2.trans e1.2.1, a3.trans e1.2.2⟩

theorem mintAll_step {nt : Nat} {dn dg k : Int} (l l' : Ledger) (hs : List Nat) (g : Int) (hi : InvG nt dn dg k l)
    (hn : ¬ hs.contains nt = true) (h : mintAll l hs g = some l') : Step l l' := by
  induction hs generalizing l with
  | nil => simp [mintAll] at h; subst h; exact Step.refl _
  | cons x xs ih =>
    simp only [mintAll] at h
    cases hm : mintGas l x g with
    | none => simp [hm] at h
    | some l1 =>
      simp only [hm] at h
      have hx : x ≠ nt := by intro hx; apply hn; simp [hx]
      have h1 := hi.mintGas hm
      simp [hx] at h1
      exact (mintGas_step l l1 x g hi hm).trans (ih l1 h1 (by intro hc; apply hn; simp at hc ⊢; exact Or.inr hc) h)

theorem voterRewards_events (e : Env) (vr : Int) (l : Ledger) (cs : List (Nat × Int)) (i : Nat) :
    (voterRewards e vr l cs i).events = l.events := by
  induction cs generalizing l i with
  | nil => rfl
  | cons c rest ih =>
    obtain ⟨pub, cached⟩ := c
    simp only [voterRewards]
    rw [ih]
    split <;> split <;> rfl

theorem neoOnPersist_events (e : Env) (l : Ledger) : (neoOnPersist e l).events = l.events := by
  unfold neoOnPersist; split <;> rfl


/-! ### the machine -/

/-- since the start of the block, every account's balance change is the net amount of the notifications
collected (notifications of faulted transactions are dropped with their state changes). -/
def Delta (base l : Ledger) : Prop := ∀ t a, balOf l t a - balOf base t a = evNet t a l.events

theorem Delta.step {base l l' : Ledger} (h : Delta base l) (s : Step l l') : Delta base l' := by
  obtain ⟨evs, he, hb⟩ := s
  intro t a
  rw [hb, he, evNet_append]
  have := h t a
  omega

structure DInv (s : St) : Prop where
  cur : Delta s.base s.cur
  snap : Delta s.base s.snap

theorem DInv.throw {s : St} (h : DInv s) : DInv s.throw := ⟨h.snap, h.snap⟩

theorem DInv.done {s : St} (h : DInv s) (l : Ledger) (r : Res) (hs : Step s.cur l) : DInv (s.done l r) := by
  unfold St.done
  split
  · exact ⟨h.cur.step hs, h.snap⟩
  · exact ⟨h.cur.step hs, h.snap⟩

theorem DInv.fin {nt : Nat} {s : St} (hm : MInv nt s) (h : DInv s) (l : Ledger) (d1 d2 : Option (Nat × Int))
    (hl : Inv nt l) (hs : Step s.cur l) :
    DInv (match mintDists s.env l d1 d2 with
      | none => s.throw
      | some l'' => s.done l'' .t) := by
  cases hmd : mintDists s.env l d1 d2 with
  | none => exact h.throw
  | some l'' => exact h.done l'' .t (hs.trans (mintDists_step s.env l l'' d1 d2 hl hm.notary hmd))

theorem afterPosted_delta {nt : Nat} (s : St) (t : Tok) (l : Ledger) (src dst : Nat) (amt : Int) (recv : Recv) (data : Data)
    (d1 d2 : Option (Nat × Int)) (h : MInv nt s) (hd' : DInv s)
    (hl : InvG nt 0 0 (if t = .gas ∧ dst = nt then amt else 0) l) (ha : 0 ≤ amt) (hs : Step s.cur l) :
    DInv (afterPosted s t l src dst amt recv data d1 d2) := by
  unfold afterPosted
  simp only []
  by_cases hd : dst = s.env.notary
  · rw [if_pos hd]
    have hdn : dst = nt := by rw [hd, h.notary]
    cases t with
    | neo => exact hd'.throw
    | gas =>
      cases data with
      | other => exact hd'.throw
      | pub p => exact hd'.throw
      | notary dto till =>
        simp only []
        cases hn : notaryOnPayment s.env l src amt dto till with
        | none => exact hd'.throw
        | some l' =>
          simp only []
          have hl' := hl.notaryOnPayment ha hn
          simp [hdn] at hl'
          exact DInv.fin h hd' l' d1 d2 hl' (hs.trans (notaryOnPayment_step _ _ _ _ _ _ _ hn))
  · rw [if_neg hd]
    have hdn : dst ≠ nt := by rw [← h.notary]; exact hd
    have hl0 : Inv nt l := by simpa [hdn] using hl
    by_cases hc : dst = s.env.neoC
    · rw [if_pos hc]
      cases t with
      | neo => exact hd'.throw
      | gas =>
        cases data with
        | other => exact hd'.throw
        | notary dto till => exact hd'.throw
        | pub p =>
          simp only []
          cases hn : neoOnPayment s.env l amt p (witOf s.env (acctOf s.env p) (some s.env.gasC) s.env.neoC) with
          | none => exact hd'.throw
          | some l' =>
            exact DInv.fin h hd' l' d1 d2 (hl0.neoOnPayment h.neoC hn) (hs.trans (neoOnPayment_step _ _ _ _ _ _ hl0 hn))
    · rw [if_neg hc]
      split
      · exact hd'.throw
      · cases recv with
        | none => exact DInv.fin h hd' l d1 d2 hl0 hs
        | accept => exact DInv.fin h hd' l d1 d2 hl0 hs
        | throws => exact hd'.throw
        | cb => exact ⟨hd'.cur.step hs, hd'.snap⟩

theorem Delta.start (l : Ledger) (he : l.events = []) : Delta l l := by
  intro t a; rw [he]; simp [evNet]

theorem gasOnPersist_inv {nt : Nat} (e : Env) (l l1 : Ledger) (primary : Nat) (txs : List TxFee) (hi : Inv nt l)
    (hp : primary ≠ nt) (h1 : gasOnPersist e l primary txs = some l1) : InvG nt 0 0 (0 - owed nt txs) l1 := by
  unfold gasOnPersist at h1
  split at h1
  · rename_i hemp
    injection h1 with h1; subst h1
    have : txs = [] := by simpa using hemp
    subst this; simpa [owed] using hi
  · cases hb : burnFees l txs with
    | none => simp [hb] at h1
    | some lb =>
      simp only [hb] at h1
      have := (hi.burnFees hb).mintGas h1
      simpa [hp] using this

theorem notaryOnPersist_step {nt : Nat} (e : Env) (l1 l2 : Ledger) (notaries : List Nat) (txs : List TxFee)
    (hg : InvG nt 0 0 (0 - owed nt txs) l1) (hnt : e.notary = nt) (hok : txsOK nt txs)
    (hn : ¬ notaries.contains nt = true) (h2 : notaryOnPersist e l1 notaries txs = some l2) : Step l1 l2 := by
  unfold notaryOnPersist at h2
  cases hc : notaryCharge e l1 txs with
  | none => simp [hc] at h2
  | some r =>
    obtain ⟨lc, n⟩ := r
    simp only [hc] at h2
    obtain ⟨c1, c2, c3⟩ := notaryCharge_step e l1 lc txs n hc
    have sc : Step l1 lc := Step.of_eq c1 c2 c3
    have hi2 : Inv nt lc := by
      have := hg.notaryCharge hnt hok hc
      have e0 : (0 : Int) - owed nt txs + owed nt txs = 0 := by omega
      rw [e0] at this; exact this
    split at h2
    · injection h2 with h2; subst h2; exact sc
    · split at h2
      · injection h2 with h2; subst h2; exact sc
      · exact sc.trans (mintAll_step lc l2 notaries _ hi2 hn h2)

theorem neoPostPersist_step {nt : Nat} {dn dg k : Int} (e : Env) (l l' : Ledger) (committee : List (Nat × Nat × Int))
    (hi : InvG nt dn dg k l) (h : neoPostPersist e l committee = some l') : Step l l' := by
  unfold neoPostPersist at h
  cases hg : gasPerBlockAt l.gpb.reverse (e.index + 1) with
  | none => simp [hg] at h
  | some gas =>
    simp only [hg] at h
    split at h
    · simp at h
    · cases hm : committee[e.index % e.csize]? with
      | none => simp [hm] at h
      | some m =>
        obtain ⟨p, acc, v⟩ := m
        simp only [hm] at h
        cases hmint : mintGas l acc (gas * 10 / 100) with
        | none => simp [hmint] at h
        | some l1 =>
          simp only [hmint] at h
          have s1 := mintGas_step l l1 acc _ hi hmint
          split at h
          · injection h with h; subst h
            exact s1.trans (Step.of_sameCore (sameCore_voterRewards _ _ _ _ _) (voterRewards_events _ _ _ _ _))
          · injection h with h; subst h; exact s1

theorem neoPostPersistAll_step {nt : Nat} {dn dg k : Int} (e : Env) (l l' : Ledger)
    (hi : InvG nt dn dg k l) (h : neoPostPersistAll e l = some l') : Step l l' := by
  unfold neoPostPersistAll at h
  cases hp : neoPostPersist e l (l.committee.map (fun c => (c.1, acctOf e c.1, c.2))) with
  | none => simp [hp] at h
  | some l1 =>
    simp only [hp] at h
    have s1 := neoPostPersist_step e l l1 _ hi hp
    split at h
    · split at h
      · exact s1.trans (Step.of_sameCore (sameCore_updateNewEpoch _ _ _ h) (updateNewEpoch_events _ _ _ h))
      · injection h with h; subst h; exact s1
    · injection h with h; subst h; exact s1

theorem blockAccount_step {nt : Nat} (e : Env) (l l' : Ledger) (acc : Nat) (b : Bool)
    (hi : Inv nt l) (h : blockAccount e l acc = some (l', b)) : Step l l' := by
  unfold blockAccount at h
  split at h
  · injection h with h; injection h with h1 _; subst h1; exact Step.refl _
  · obtain ⟨hv, hev, hgas, hbal⟩ := votePre_inv e l acc none true hi
    simp only [] at h
    have mk : ∀ l1 : Ledger, Inv nt l1 → l1.events = l.events → l1.gas = l.gas →
        (∀ a, at0 (·.bal) l1.neo a = at0 (·.bal) l.neo a) → Step l l1 := by
      intro l1 _ hev' hgas' hbal'
      exact ⟨[], by simp [hev'], fun t a => by
        cases t with
        | neo => simp [balOf, evNet, hbal' a]
        | gas => simp [balOf, evNet, hgas']⟩
    have cont : ∀ l1 : Ledger, Step l1 { l1 with blocked := acc :: l1.blocked, votesChanged := true } := fun l1 =>
      Step.of_sameCore ⟨rfl, rfl, rfl, rfl, rfl, rfl, rfl⟩ rfl
    split at h
    · rename_i l1 _ hvp
      rw [hvp] at hv hev hgas hbal
      injection h with h; injection h with h1 _; subst h1
      exact (mk l1 hv hev hgas hbal).trans (cont l1)
    · rename_i l1 hvp
      rw [hvp] at hv hev hgas hbal
      injection h with h; injection h with h1 _; subst h1
      exact (mk l1 hv hev hgas hbal).trans (cont l1)
    · rename_i l1 g hvp
      rw [hvp] at hv hev hgas hbal
      cases hm : mintGasCb e l1 acc g with
      | none => simp [hm] at h
      | some l2 =>
        simp only [hm] at h
        injection h with h; injection h with h1 _; subst h1
        have hv' : Inv nt l1 := hv
        exact ((mk l1 hv hev hgas hbal).trans (mintGasCb_step e l1 l2 acc g hv' hm)).trans (cont l2)

theorem exec_delta {nt : Nat} (s : St) (op : Op) (h : MInv nt s) (hd : DInv s) : DInv (exec s op) := by
  cases op with
  | block idx =>
    simp only [exec]
    have he : (neoOnPersist { s.env with index := idx } { s.cur with events := [] }).events = [] := by
      rw [neoOnPersist_events]
    exact ⟨Delta.start _ he, Delta.start _ he⟩
  | onPersist pidx notaries txs =>
    simp only [exec]
    split
    · exact ⟨hd.cur, hd.snap⟩
    · split
      · exact hd
      · rename_i hA1
        split
        · exact hd
        · rename_i hA2
          have hp : acctOf s.env ((s.cur.nextVals[pidx]?).getD 0) ≠ nt := by
            intro hp; apply hA1; left; rw [h.notary]; exact hp
          have hn : ¬ notaries.contains nt = true := by
            intro hn; apply hA1; right; rw [h.notary]; exact hn
          have hok : txsOK nt txs := by
            intro t ht hs
            by_cases hx : t.nkeys.isSome = true ∧ t.payer.isSome = true
            · exact hx
            · exfalso; apply hA2
              simp only [List.any_eq_true]
              refine ⟨t, ht, ?_⟩
              rw [h.notary]
              simp only [hs, true_and, decide_eq_true_eq]
              cases hk : t.nkeys <;> cases hq : t.payer <;> simp_all
          cases h1 : gasOnPersist s.env s.cur (acctOf s.env ((s.cur.nextVals[pidx]?).getD 0)) txs with
          | none => exact ⟨hd.cur, hd.snap⟩
          | some l1 =>
            simp only []
            have s1 := gasOnPersist_step s.env s.cur l1 _ txs h.cur h1
            have hg := gasOnPersist_inv s.env s.cur l1 _ txs h.cur hp h1
            cases h2 : notaryOnPersist s.env l1 notaries txs with
            | none => exact ⟨hd.cur, hd.snap⟩
            | some l2 =>
              have s2 := notaryOnPersist_step s.env l1 l2 notaries txs hg h.notary hok hn h2
              exact ⟨hd.cur.step (s1.trans s2), hd.cur.step (s1.trans s2)⟩
  | postPersist =>
    simp only [exec]
    split
    · exact hd
    · cases hpp : neoPostPersistAll s.env s.cur with
      | none => exact ⟨hd.cur, hd.snap⟩
      | some l =>
        have st := neoPostPersistAll_step s.env s.cur l h.cur hpp
        exact ⟨hd.cur.step st, hd.cur.step st⟩
  | txBegin sender signers =>
    simp only [exec]
    exact ⟨hd.cur, hd.cur⟩
  | txEnd abort =>
    simp only [exec]
    split
    · exact ⟨hd.snap, hd.snap⟩
    · exact ⟨hd.cur, hd.cur⟩
  | endCb =>
    simp only [exec]
    split
    · exact hd
    · cases hcb : s.cbs with
      | nil => exact hd
      | cons f rest =>
        simp only []
        have h' : MInv nt { s with cbs := rest } := ⟨h.notary, h.neoC, h.cur, h.snap⟩
        have hd'' : DInv { s with cbs := rest } := ⟨hd.cur, hd.snap⟩
        exact DInv.fin h' hd'' s.cur f.d1 f.d2 h.cur (Step.refl _)
  | transfer t src dst amt caller dk data =>
    simp only [exec]
    split
    · exact hd
    · cases hp : transferPre t s.env s.cur src dst amt (witOf s.env src caller (tokC s.env t) && src != s.env.notary) with
      | thr => exact hd.throw
      | ret l b =>
        simp only []
        have st := transferPre_ret_step t s.env s.cur src dst amt _ l b h.cur hp
        have := hd.done l (resOf b) st
        split
        · exact ⟨this.cur, this.snap⟩
        · exact this
      | posted l d1 d2 =>
        simp only []
        obtain ⟨hl, ha⟩ := transferPre_posted t s.env s.cur src dst amt _ l d1 d2 h.cur hp
        have st := transferPre_posted_step t s.env s.cur src dst amt _ l d1 d2 h.cur hp
        have hsrc : src ≠ nt := by
          intro hs
          have : (witOf s.env src caller (tokC s.env t) && src != s.env.notary) = false := by rw [h.notary, hs]; simp
          rw [this] at hp
          unfold transferPre at hp
          simp only [] at hp
          split at hp
          · cases hp
          · simp at hp
        have hl' : InvG nt 0 0 (if t = .gas ∧ dst = nt then amt else 0) l := by
          have e1 : (0 : Int) + (if t = Tok.gas ∧ dst = nt then amt else 0) - (if t = Tok.gas ∧ src = nt then amt else 0) =
              (if t = .gas ∧ dst = nt then amt else 0) := by simp [hsrc]
          rw [e1] at hl; exact hl
        exact afterPosted_delta s t l src dst amt (recvOf s.env dst dk) data d1 d2 h hd hl' ha st
  | vote acc pub caller cb =>
    simp only [exec]
    split
    · exact hd
    · obtain ⟨hv, hev, hgas, hbal⟩ := votePre_inv s.env s.cur acc pub (witOf s.env acc caller s.env.neoC) h.cur
      cases hvp : votePre s.env s.cur acc pub (witOf s.env acc caller s.env.neoC) with
      | mk l r =>
        obtain ⟨b, g⟩ := r
        rw [hvp] at hv hev hgas hbal
        have hev' : l.events = s.cur.events := hev
        have hgas' : l.gas = s.cur.gas := hgas
        have hbal' : ∀ a, at0 (·.bal) l.neo a = at0 (·.bal) s.cur.neo a := hbal
        have hv' : Inv nt l := hv
        have st : Step s.cur l := ⟨[], by simp [hev'], fun t a => by
          cases t with
          | neo => simp [balOf, evNet, hbal' a]
          | gas => simp [balOf, evNet, hgas']⟩
        have noCb : ∀ s' : St, DInv s' → DInv (if cb = true then { s' with skip := 1 } else s') := by
          intro s' h'; split
          · exact ⟨h'.cur, h'.snap⟩
          · exact h'
        cases b with
        | false => exact noCb _ (hd.done l .f st)
        | true =>
          simp only []
          cases g with
          | none => exact noCb _ (hd.done l .t st)
          | some g =>
            simp only []
            cases hm : mintGasCb s.env l acc g with
            | none => exact hd.throw
            | some l' =>
              simp only []
              split
              · exact ⟨hd.cur.step (st.trans (mintGasCb_step s.env l l' acc g hv' hm)), hd.snap⟩
              · exact noCb _ (hd.done l' .t (st.trans (mintGasCb_step s.env l l' acc g hv' hm)))
  | register pub caller =>
    simp only [exec]
    split
    · exact hd
    · exact hd.done _ .t (registerInternal_step _ _)
  | unregister pub caller =>
    simp only [exec]
    split
    · exact hd
    · exact hd.done _ _ (unregister_step _ _ _)
  | lock acc till caller =>
    simp only [exec]
    split
    · exact hd
    · exact hd.done _ _ (lockDeposit_step _ _ _ _ _)
  | withdraw src dst caller =>
    simp only [exec]
    split
    · exact hd
    · cases hw : withdrawPre s.env s.cur src (witOf s.env src caller s.env.notary) with
      | none => exact hd.done s.cur .f (Step.refl _)
      | some r =>
        obtain ⟨l, amt⟩ := r
        simp only []
        obtain ⟨hl, ha⟩ := h.cur.withdrawPre hw
        have s1 := withdrawPre_step s.env s.cur l src _ amt hw
        cases hp : transferPre .gas s.env l s.env.notary (dst.getD src) amt true with
        | thr => exact hd.throw
        | ret l' b => exact hd.throw
        | posted l' d1 d2 =>
          simp only []
          obtain ⟨hl', _⟩ := transferPre_posted .gas s.env l s.env.notary (dst.getD src) amt true l' d1 d2 hl hp
          have s2 := transferPre_posted_step .gas s.env l s.env.notary (dst.getD src) amt true l' d1 d2 hl hp
          have hl'' : InvG nt 0 0 (if Tok.gas = Tok.gas ∧ dst.getD src = nt then amt else 0) l' := by
            have e1 : (0 : Int) + amt + (if Tok.gas = Tok.gas ∧ dst.getD src = nt then amt else 0) -
                (if Tok.gas = Tok.gas ∧ s.env.notary = nt then amt else 0) =
                (if Tok.gas = Tok.gas ∧ dst.getD src = nt then amt else 0) := by simp [h.notary]; omega
            rw [e1] at hl'; exact hl'
          exact afterPosted_delta s .gas l' s.env.notary (dst.getD src) amt (recvOf s.env (dst.getD src) .null) .other d1 d2 h hd hl'' ha (s1.trans s2)
  | setGpb gas caller =>
    simp only [exec]
    split
    · exact hd
    · cases hs : setGasPerBlock s.env s.cur gas (witCommittee s.env s.cur caller s.env.neoC) with
      | none => exact hd.throw
      | some l =>
        have : l.events = s.cur.events := by
          unfold setGasPerBlock at hs
          split at hs
          · simp at hs
          · split at hs
            · simp at hs
            · injection hs with hs; subst hs; rfl
        exact hd.done l .null (Step.of_sameCore (sameCore_setGasPerBlock _ _ _ _ _ hs) this)
  | setRegPrice price caller =>
    simp only [exec]
    split
    · exact hd
    · cases hs : setRegisterPrice s.cur price (witCommittee s.env s.cur caller s.env.neoC) with
      | none => exact hd.throw
      | some l =>
        have : l.events = s.cur.events := by
          unfold setRegisterPrice at hs
          split at hs
          · simp at hs
          · split at hs
            · simp at hs
            · injection hs with hs; subst hs; rfl
        exact hd.done l .null (Step.of_sameCore (sameCore_setRegisterPrice _ _ _ _ hs) this)
  | blockAcc acc caller =>
    simp only [exec]
    split
    · exact hd
    · split
      · exact hd.throw
      · split
        · exact hd.throw
        · cases hb : blockAccount s.env s.cur acc with
          | none => exact hd.throw
          | some r =>
            obtain ⟨l, b⟩ := r
            exact hd.done l _ (blockAccount_step s.env s.cur l acc b h.cur hb)
  | unblockAcc acc caller =>
    simp only [exec]
    split
    · exact hd
    · split
      · exact hd.throw
      · refine hd.done _ _ (Step.of_sameCore (sameCore_unblockAccount _ _) ?_)
        unfold unblockAccount; split <;> rfl
  | designate nodes caller =>
    simp only [exec]
    split
    · exact hd
    · cases hs : designateNotary s.env s.cur nodes (witCommittee s.env s.cur caller s.env.desigC) with
      | none => exact hd.throw
      | some l =>
        have := sameCore_designateNotary _ _ _ _ _ hs
        exact hd.done l .null (Step.of_sameCore this.1 this.2)

theorem step_delta {nt : Nat} (s : St) (op : Op) (h : MInv nt s) (hd : DInv s) : DInv (step s op) := by
  unfold step
  split
  · (repeat' split) <;> first | exact hd | exact ⟨hd.cur, hd.snap⟩
  · split
    · exact hd.throw
    · exact exec_delta s op h hd

theorem run_delta {nt : Nat} (s : St) (ops : List Op) (h : MInv nt s) (hd : DInv s) : DInv (run s ops) := by
  induction ops generalizing s with
  | nil => exact hd
  | cons op rest ih => exact ih (step s op) (step_inv s op h) (step_delta s op h hd)

end NeoModel.Tokens
