/-
GAS rewards: the loop of CalculateNEOHolderReward equals the sum of the per-block generation amounts over the
interval, a claim split at an intermediate height loses at most rounding, and the exact change of the GAS supply
in OnPersist and PostPersist.
-/
import NeoModel.Proofs.TokensFrame
namespace NeoModel.Tokens

/-! ### sums over height intervals -/

/-- Σ_{i<n} f (a + i). -/
def rangeSum (f : Nat → Int) (a : Nat) : Nat → Int
  | 0 => 0
  | n + 1 => rangeSum f a n + f (a + n)

/-- Σ_{a ≤ h < b} f h. -/
def sumIv (f : Nat → Int) (a b : Nat) : Int := rangeSum f a (b - a)

theorem rangeSum_congr (f g : Nat → Int) (a n : Nat) (h : ∀ i, i < n → f (a + i) = g (a + i)) :
    rangeSum f a n = rangeSum g a n := by
  induction n with
  | zero => rfl
  | succ n ih =>
    simp only [rangeSum]
    rw [ih (fun i hi => h i (by omega)), h n (by omega)]

theorem rangeSum_const (f : Nat → Int) (a n : Nat) (c : Int) (h : ∀ i, i < n → f (a + i) = c) :
    rangeSum f a n = (n : Int) * c := by
  induction n with
  | zero => simp [rangeSum]
  | succ n ih =>
    simp only [rangeSum]
    rw [ih (fun i hi => h i (by omega)), h n (by omega)]
    have : ((n + 1 : Nat) : Int) = (n : Int) + 1 := by omega
    rw [this, Int.add_mul]; omega

theorem rangeSum_add (f : Nat → Int) (a m n : Nat) : rangeSum f a (m + n) = rangeSum f a m + rangeSum f (a + m) n := by
  induction n with
  | zero => simp [rangeSum]
  | succ n ih =>
    have : m + (n + 1) = (m + n) + 1 := by omega
    rw [this]
    simp only [rangeSum]
    rw [ih, Nat.add_assoc]; omega

/-- an interval splits at any intermediate height. -/
theorem sumIv_split (f : Nat → Int) (a b c : Nat) (h1 : a ≤ b) (h2 : b ≤ c) : sumIv f a c = sumIv f a b + sumIv f b c := by
  unfold sumIv
  have : c - a = (b - a) + (c - b) := by omega
  rw [this, rangeSum_add]
  have : a + (b - a) = b := by omega
  rw [this]

theorem sumIv_const (f : Nat → Int) (a b : Nat) (c : Int) (h : ∀ x, a ≤ x → x < b → f x = c) :
    sumIv f a b = ((b - a : Nat) : Int) * c := by
  unfold sumIv
  exact rangeSum_const f a (b - a) c (fun i hi => h (a + i) (by omega) (by omega))

theorem sumIv_congr (f g : Nat → Int) (a b : Nat) (h : ∀ x, a ≤ x → x < b → f x = g x) : sumIv f a b = sumIv g a b := by
  unfold sumIv
  exact rangeSum_congr f g a (b - a) (fun i hi => h (a + i) (by omega) (by omega))

theorem sumIv_empty (f : Nat → Int) (a b : Nat) (h : b ≤ a) : sumIv f a b = 0 := by
  unfold sumIv
  have : b - a = 0 := by omega
  rw [this]; rfl

/-! ### CalculateNEOHolderReward -/

/-- GAS generated in block `h` according to the records (newest first), 0 before the oldest record. -/
def gpbAt (recs : List (Nat × Int)) (h : Nat) : Int := (gasPerBlockAt recs h).getD 0

/-- the loop of CalculateNEOHolderReward (native_neo.go:853-866) computes Σ_{start ≤ h < end} GetGASPerBlock(h),
for every record list (also one with several records of the same index, as two setGasPerBlock calls in one block
leave in the cache). -/
theorem holderSum_spec (recs : List (Nat × Int)) (start end_ : Nat) :
    holderSum recs start end_ = sumIv (gpbAt recs) start end_ := by
  induction recs generalizing end_ with
  | nil =>
    simp only [holderSum]
    rw [sumIv_const (gpbAt []) start end_ 0 (fun _ _ _ => rfl)]; simp
  | cons r rest ih =>
    obtain ⟨idx, g⟩ := r
    simp only [holderSum]
    split
    · rename_i h1
      rw [ih end_]
      apply sumIv_congr
      intro x _ hx
      simp only [gpbAt, gasPerBlockAt]
      rw [if_neg (by omega)]
    · rename_i h1
      split
      · rename_i h2
        rw [sumIv_const (gpbAt ((idx, g) :: rest)) start end_ g]
        intro x hx _
        simp only [gpbAt, gasPerBlockAt]
        rw [if_pos (by omega)]; rfl
      · rename_i h2
        rw [sumIv_split (gpbAt ((idx, g) :: rest)) start idx end_ (by omega) (by omega), ih idx]
        rw [sumIv_const (gpbAt ((idx, g) :: rest)) idx end_ g (fun x hx _ => by
          simp only [gpbAt, gasPerBlockAt]; rw [if_pos (by omega)]; rfl)]
        rw [sumIv_congr (gpbAt ((idx, g) :: rest)) (gpbAt rest) start idx (fun x _ hx => by
          simp only [gpbAt, gasPerBlockAt]; rw [if_neg (by omega)])]
        omega

/-- the holder sum over an interval is the sum over its two parts. -/
theorem holderSum_split (recs : List (Nat × Int)) (a b c : Nat) (h1 : a ≤ b) (h2 : b ≤ c) :
    holderSum recs a c = holderSum recs a b + holderSum recs b c := by
  rw [holderSum_spec, holderSum_spec, holderSum_spec, sumIv_split _ a b c h1 h2]

/-- records that take effect at or after `end` (set by later setGasPerBlock calls) do not change the sum. -/
theorem holderSum_later (extra recs : List (Nat × Int)) (start end_ : Nat) (h : ∀ r ∈ extra, end_ ≤ r.1) :
    holderSum (extra ++ recs) start end_ = holderSum recs start end_ := by
  induction extra with
  | nil => rfl
  | cons r rest ih =>
    obtain ⟨idx, g⟩ := r
    have h0 := h (idx, g) (by simp)
    simp only [List.cons_append, holderSum]
    rw [if_pos (by simpa using h0)]
    exact ih (fun r hr => h r (by simp [hr]))

/-! ### floor division -/

theorem ediv_bounds_holder (x y : Int) :
    x / 10000000000 + y / 10000000000 ≤ (x + y) / 10000000000 ∧ (x + y) / 10000000000 ≤ x / 10000000000 + y / 10000000000 + 1 := by
  omega

theorem ediv_bounds_voter (x y : Int) :
    x / 100000000 + y / 100000000 ≤ (x + y) / 100000000 ∧ (x + y) / 100000000 ≤ x / 100000000 + y / 100000000 + 1 := by
  omega

/-! ### claims -/

/-- the account as distributeGas leaves it after a claim in block `b` (native_neo.go:650-654). -/
def claimed (l : Ledger) (acc : NeoAcc) (b : Nat) : NeoAcc :=
  match acc.vote with
  | some c => { acc with height := b, lgpv := latestGpv l c }
  | none => { acc with height := b }

theorem holderReward_split (l l' : Ledger) (bal : Int) (a b c : Nat) (extra : List (Nat × Int)) (r1 r2 r3 : Int)
    (hab : a ≤ b) (hbc : b ≤ c) (hpos : 0 < bal)
    (hg : l'.gpb = l.gpb ++ extra) (hex : ∀ r ∈ extra, b ≤ r.1)
    (hx : holderReward l bal a b = some r1) (hy : holderReward l' bal b c = some r2) (hz : holderReward l' bal a c = some r3) :
    r1 + r2 ≤ r3 ∧ r3 ≤ r1 + r2 + 1 := by
  have hrev : l'.gpb.reverse = extra.reverse ++ l.gpb.reverse := by rw [hg, List.reverse_append]
  have hex' : ∀ r ∈ extra.reverse, b ≤ r.1 := fun r hr => hex r (List.mem_reverse.mp hr)
  have hS : holderSum l'.gpb.reverse a c = holderSum l.gpb.reverse a b + holderSum l'.gpb.reverse b c := by
    rw [holderSum_split _ a b c hab hbc, hrev, holderSum_later _ _ _ _ hex']
  unfold holderReward at hx hy hz
  have hb0 : ¬ bal = 0 := by omega
  have hbn : ¬ bal < 0 := by omega
  by_cases h1 : a ≥ b <;> by_cases h2 : b ≥ c <;> by_cases h3 : a ≥ c <;>
    simp [h1, h2, h3, hb0, hbn] at hx hy hz <;> try omega
  all_goals
    subst hx; subst hy; subst hz
    first
    | (have hh : a = b := by omega
       rw [hh] at hS ⊢
       have : holderSum l.gpb.reverse b b = 0 := by rw [holderSum_spec, sumIv_empty _ _ _ (by omega)]
       rw [this] at hS; rw [hS]; omega)
    | (have hh : b = c := by omega
       subst hh
       have : holderSum l'.gpb.reverse b b = 0 := by rw [holderSum_spec, sumIv_empty _ _ _ (by omega)]
       rw [this] at hS; rw [hS]; simp; omega)
    | (rw [hS]
       have := ediv_bounds_holder (bal * holderSum l.gpb.reverse a b * 10) (bal * holderSum l'.gpb.reverse b c * 10)
       have e : bal * (holderSum l.gpb.reverse a b + holderSum l'.gpb.reverse b c) * 10 =
         bal * holderSum l.gpb.reverse a b * 10 + bal * holderSum l'.gpb.reverse b c * 10 := by
         rw [Int.mul_add, Int.add_mul]
       rw [e]; omega)

/-- No double claim, no loss beyond rounding: an account (balance and vote unchanged) that claims at height `b`
and again at height `c` receives in total at most what a single claim at `c` would have given, and at least that
minus 2 datoshi (one for each of the two floored terms: holder reward and voter reward).  `l'` is any later ledger
whose GAS-per-block records extend those of `l` by records taking effect from `b` on. -/
theorem claim_split (l l' : Ledger) (acc : NeoAcc) (b c : Nat) (extra : List (Nat × Int)) (x y z : Int)
    (hab : acc.height ≤ b) (hbc : b ≤ c) (hpos : 0 < acc.bal)
    (hg : l'.gpb = l.gpb ++ extra) (hex : ∀ r ∈ extra, b ≤ r.1)
    (hx : calcBonus l acc b = some x) (hy : calcBonus l' (claimed l acc b) c = some y) (hz : calcBonus l' acc c = some z) :
    x + y ≤ z ∧ z ≤ x + y + 2 := by
  unfold calcBonus at hx hy hz
  cases hv : acc.vote with
  | none =>
    have hcl : claimed l acc b = { acc with height := b } := by simp [claimed, hv]
    rw [hcl] at hy
    simp only [hv] at hx hy hz
    cases h1 : holderReward l acc.bal acc.height b with
    | none => simp [h1] at hx
    | some r1 =>
      cases h2 : holderReward l' acc.bal b c with
      | none => simp [h2] at hy
      | some r2 =>
        cases h3 : holderReward l' acc.bal acc.height c with
        | none => simp [h3] at hz
        | some r3 =>
          simp [h1] at hx; simp [h2] at hy; simp [h3] at hz
          subst hx; subst hy; subst hz
          have := holderReward_split l l' acc.bal acc.height b c extra r1 r2 r3 hab hbc hpos hg hex h1 h2 h3
          omega
  | some cd =>
    have hcl : claimed l acc b = { acc with height := b, lgpv := latestGpv l cd } := by simp [claimed, hv]
    rw [hcl] at hy
    simp only [hv] at hx hy hz
    cases h1 : holderReward l acc.bal acc.height b with
    | none => simp [h1] at hx
    | some r1 =>
      cases h2 : holderReward l' acc.bal b c with
      | none => simp [h2] at hy
      | some r2 =>
        cases h3 : holderReward l' acc.bal acc.height c with
        | none => simp [h3] at hz
        | some r3 =>
          simp [h1] at hx; simp [h2] at hy; simp [h3] at hz
          subst hx; subst hy; subst hz
          have hr := holderReward_split l l' acc.bal acc.height b c extra r1 r2 r3 hab hbc hpos hg hex h1 h2 h3
          have hv := ediv_bounds_voter ((latestGpv l cd - acc.lgpv) * acc.bal) ((latestGpv l' cd - latestGpv l cd) * acc.bal)
          have e : (latestGpv l' cd - acc.lgpv) * acc.bal =
              (latestGpv l cd - acc.lgpv) * acc.bal + (latestGpv l' cd - latestGpv l cd) * acc.bal := by
            rw [← Int.add_mul]; congr 1; omega
          rw [e]; omega

/-! ### the GAS supply in OnPersist and PostPersist -/

/-- Σ (SystemFee + NetworkFee), Σ SystemFee, Σ NetworkFee of the block's transactions. -/
def feesTotal : List TxFee → Int
  | [] => 0
  | t :: ts => (t.sys + t.net) + feesTotal ts
def sysTotal : List TxFee → Int
  | [] => 0
  | t :: ts => t.sys + sysTotal ts
def netTotal : List TxFee → Int
  | [] => 0
  | t :: ts => t.net + netTotal ts
/-- Σ (NKeys + 1) over the transactions with the NotaryAssisted attribute. -/
def feeUnits : List TxFee → Int
  | [] => 0
  | t :: ts => (match t.nkeys with | some k => (k : Int) + 1 | none => 0) + feeUnits ts

theorem feesTotal_eq (txs : List TxFee) : feesTotal txs = sysTotal txs + netTotal txs := by
  induction txs with
  | nil => rfl
  | cons t ts ih => simp only [feesTotal, sysTotal, netTotal, ih]; omega

/-- the primary is minted the network fees minus the notary service fees. -/
theorem primaryFee_eq (e : Env) (txs : List TxFee) : primaryFee e txs = netTotal txs - feeUnits txs * e.attrFee := by
  induction txs with
  | nil => simp [primaryFee, netTotal, feeUnits]
  | cons t ts ih =>
    simp only [primaryFee, netTotal, feeUnits, ih]
    cases t.nkeys with
    | none => simp only [Int.zero_add]; omega
    | some k =>
      simp only []
      have e1 : ((k : Int) + 1 + feeUnits ts) * e.attrFee = ((k : Int) + 1) * e.attrFee + feeUnits ts * e.attrFee := by
        rw [Int.add_mul]
      rw [e1]; omega

theorem gasAddTokens_supply (l l' : Ledger) (h : Nat) (amt : Int) (hr : gasAddTokens l h amt = some l') :
    l'.gasSupply = l.gasSupply + amt := (gasAddTokens_frame l l' h amt hr).2.1

theorem mintGas_supply (l l' : Ledger) (h : Nat) (amt : Int) (hr : mintGas l h amt = some l') :
    l'.gasSupply = l.gasSupply + amt := by
  unfold mintGas at hr
  split at hr
  · rename_i h0; injection hr with hr; subst hr; subst h0; simp
  · cases hg : gasAddTokens l h amt with
    | none => simp [hg] at hr
    | some l1 => simp [hg] at hr; subst hr; exact gasAddTokens_supply l l1 h amt hg

theorem burnGas_supply (l l' : Ledger) (h : Nat) (amt : Int) (hr : burnGas l h amt = some l') :
    l'.gasSupply = l.gasSupply - amt := by
  unfold burnGas at hr
  split at hr
  · rename_i h0; injection hr with hr; subst hr; subst h0; simp
  · cases hg : gasAddTokens l h (-amt) with
    | none => simp [hg] at hr
    | some l1 =>
      simp [hg] at hr; subst hr
      have := gasAddTokens_supply l l1 h (-amt) hg
      show l1.gasSupply = _
      omega

theorem burnFees_supply (l l' : Ledger) (txs : List TxFee) (h : burnFees l txs = some l') :
    l'.gasSupply = l.gasSupply - feesTotal txs := by
  induction txs generalizing l with
  | nil => simp [burnFees] at h; subst h; simp [feesTotal]
  | cons t ts ih =>
    simp only [burnFees] at h
    cases hb : burnGas l t.sender (t.sys + t.net) with
    | none => simp [hb] at h
    | some l1 =>
      simp only [hb] at h
      rw [ih l1 h, burnGas_supply _ _ _ _ hb]; simp only [feesTotal]; omega

/-- GAS.OnPersist (native_gas.go:109-132): every transaction's fees are burnt, the primary gets the network fees
minus the notary service part. -/
theorem gasOnPersist_supply (e : Env) (l l' : Ledger) (primary : Nat) (txs : List TxFee)
    (h : gasOnPersist e l primary txs = some l') :
    l'.gasSupply = l.gasSupply - sysTotal txs - feeUnits txs * e.attrFee := by
  unfold gasOnPersist at h
  split at h
  · rename_i hemp
    injection h with h; subst h
    have : txs = [] := by simpa using hemp
    subst this; simp [sysTotal, feeUnits]
  · cases hb : burnFees l txs with
    | none => simp [hb] at h
    | some l1 =>
      simp only [hb] at h
      rw [mintGas_supply _ _ _ _ h, burnFees_supply _ _ _ hb, primaryFee_eq, feesTotal_eq]; omega

theorem notaryCharge_supply (e : Env) (l l' : Ledger) (txs : List TxFee) (n : Int)
    (h : notaryCharge e l txs = some (l', n)) : l'.gasSupply = l.gasSupply ∧ n = feeUnits txs := by
  induction txs generalizing l n with
  | nil => simp [notaryCharge] at h; obtain ⟨h1, h2⟩ := h; subst h1; subst h2; exact ⟨rfl, rfl⟩
  | cons t ts ih =>
    simp only [notaryCharge] at h
    cases hk : t.nkeys with
    | none =>
      simp only [hk] at h
      obtain ⟨i1, i2⟩ := ih l n h
      exact ⟨i1, by simp only [feeUnits, hk]; omega⟩
    | some kk =>
      simp only [hk] at h
      split at h
      · simp at h
      · rename_i l1 heq
        have e1 : l1.gasSupply = l.gasSupply := by
          split at heq
          · split at heq
            · simp at heq
            · split at heq
              · simp at heq
              · split at heq
                · simp at heq
                · split at heq
                  · injection heq with heq; subst heq; rfl
                  · injection heq with heq; subst heq; rfl
          · injection heq with heq; subst heq; rfl
        cases hr : notaryCharge e l1 ts with
        | none => simp [hr] at h
        | some r =>
          obtain ⟨l2, n2⟩ := r
          simp only [hr] at h
          injection h with h; injection h with h1 h2; subst h1
          obtain ⟨i1, i2⟩ := ih l1 n2 hr
          exact ⟨by rw [i1, e1], by simp only [feeUnits, hk]; omega⟩

theorem mintAll_supply (l l' : Ledger) (hs : List Nat) (g : Int) (h : mintAll l hs g = some l') :
    l'.gasSupply = l.gasSupply + (hs.length : Int) * g := by
  induction hs generalizing l with
  | nil => simp [mintAll] at h; subst h; simp
  | cons x xs ih =>
    simp only [mintAll] at h
    cases hm : mintGas l x g with
    | none => simp [hm] at h
    | some l1 =>
      simp only [hm] at h
      rw [ih l1 h, mintGas_supply _ _ _ _ hm]
      have : (((x :: xs).length : Nat) : Int) = (xs.length : Int) + 1 := by simp
      rw [this, Int.add_mul]; omega

/-- GAS minted to the designated notary nodes by Notary.OnPersist (notary.go:201-212): each of the `n` nodes gets
`units * feePerKey / n` (truncated), nothing when no transaction carries the attribute or no node is designated. -/
def notaryMint (e : Env) (notaries : List Nat) (txs : List TxFee) : Int :=
  if feeUnits txs = 0 ∨ notaries = [] then 0
  else (notaries.length : Int) * Int.tdiv (feeUnits txs * e.attrFee) (notaries.length : Int)

theorem notaryOnPersist_supply (e : Env) (l l' : Ledger) (notaries : List Nat) (txs : List TxFee)
    (h : notaryOnPersist e l notaries txs = some l') : l'.gasSupply = l.gasSupply + notaryMint e notaries txs := by
  unfold notaryOnPersist at h
  cases hc : notaryCharge e l txs with
  | none => simp [hc] at h
  | some r =>
    obtain ⟨l1, n⟩ := r
    simp only [hc] at h
    obtain ⟨e1, e2⟩ := notaryCharge_supply e l l1 txs n hc
    subst e2
    unfold notaryMint
    split at h
    · rename_i h0; injection h with h; subst h; rw [if_pos (Or.inl h0)]; omega
    · rename_i h0
      split at h
      · rename_i h1
        injection h with h; subst h
        have : notaries = [] := by simpa using h1
        rw [if_pos (Or.inr this)]; omega
      · rename_i h1
        have hne : ¬ notaries = [] := by simpa using h1
        rw [if_neg (by intro hh; rcases hh with hh | hh; exact h0 hh; exact hne hh)]
        rw [mintAll_supply _ _ _ _ h, e1]

/-- OnPersist of GAS and Notary together: the supply drops by the system fees and by the part of the notary
service fees that is not paid out (all of it without designated nodes, else the truncation remainder). -/
theorem onPersist_supply (e : Env) (l l1 l2 : Ledger) (primary : Nat) (notaries : List Nat) (txs : List TxFee)
    (h1 : gasOnPersist e l primary txs = some l1) (h2 : notaryOnPersist e l1 notaries txs = some l2) :
    l2.gasSupply = l.gasSupply - sysTotal txs - (feeUnits txs * e.attrFee - notaryMint e notaries txs) := by
  rw [notaryOnPersist_supply _ _ _ _ _ h2, gasOnPersist_supply _ _ _ _ _ h1]; omega

theorem feeUnits_nonneg (txs : List TxFee) : 0 ≤ feeUnits txs := by
  induction txs with
  | nil => simp [feeUnits]
  | cons t ts ih => simp only [feeUnits]; cases t.nkeys <;> simp <;> omega

/-- the notary nodes never receive more than the service fees collected, and the remainder is less than one
datoshi per node. -/
theorem notaryMint_bounds (e : Env) (notaries : List Nat) (txs : List TxFee) (hf : 0 ≤ e.attrFee) :
    0 ≤ notaryMint e notaries txs ∧ notaryMint e notaries txs ≤ feeUnits txs * e.attrFee ∧
    (feeUnits txs ≠ 0 → notaries ≠ [] → feeUnits txs * e.attrFee - notaryMint e notaries txs < notaries.length) := by
  have hu := feeUnits_nonneg txs
  have hp : 0 ≤ feeUnits txs * e.attrFee := Int.mul_nonneg hu hf
  unfold notaryMint
  split
  · rename_i h0
    refine ⟨by omega, hp, fun a b => ?_⟩
    rcases h0 with h0 | h0
    · exact absurd h0 a
    · exact absurd h0 b
  · rename_i h0
    have hn : 0 < (notaries.length : Int) := by
      have : notaries ≠ [] := fun hh => h0 (Or.inr hh)
      have : 0 < notaries.length := List.length_pos_iff.mpr this
      omega
    generalize (notaries.length : Int) = n at hn ⊢
    generalize feeUnits txs * e.attrFee = x at hp ⊢
    rw [Int.tdiv_eq_ediv_of_nonneg hp]
    have h1 := Int.emod_add_mul_ediv x n
    have h2 := Int.emod_nonneg x (by omega : n ≠ 0)
    have h3 := Int.emod_lt_of_pos x hn
    have h4 : 0 ≤ x / n := Int.ediv_nonneg hp (by omega)
    have h5 : 0 ≤ n * (x / n) := Int.mul_nonneg (by omega) h4
    refine ⟨h5, by omega, fun _ _ => by omega⟩

/-- NEO.PostPersist (native_neo.go:504-510) mints exactly 10 % of the block's GAS generation to one committee
member; the voters' 80 % are only accrued, the holders' 10 % are minted when they claim. -/
theorem neoPostPersist_supply (e : Env) (l l' : Ledger) (committee : List (Nat × Nat × Int))
    (h : neoPostPersist e l committee = some l') :
    ∃ gas, gasPerBlockAt l.gpb.reverse (e.index + 1) = some gas ∧ l'.gasSupply = l.gasSupply + gas * 10 / 100 := by
  unfold neoPostPersist at h
  cases hg : gasPerBlockAt l.gpb.reverse (e.index + 1) with
  | none => simp [hg] at h
  | some gas =>
    simp only [hg] at h
    refine ⟨gas, rfl, ?_⟩
    split at h
    · simp at h
    · cases hm : committee[e.index % e.csize]? with
      | none => simp [hm] at h
      | some m =>
        obtain ⟨p, acc, v⟩ := m
        simp only [hm] at h
        cases hmint : mintGas l acc (gas * 10 / 100) with
        | none => simp [hmint] at h
        | some l1 =>
          simp only [hmint] at h
          have s1 := mintGas_supply _ _ _ _ hmint
          split at h
          · injection h with h; subst h
            rw [(sameCore_voterRewards _ _ _ _ _).2.2.2.1, s1]
          · injection h with h; subst h; exact s1

theorem neoPostPersistAll_supply (e : Env) (l l' : Ledger) (h : neoPostPersistAll e l = some l') :
    ∃ gas, gasPerBlockAt l.gpb.reverse (e.index + 1) = some gas ∧ l'.gasSupply = l.gasSupply + gas * 10 / 100 := by
  unfold neoPostPersistAll at h
  cases hp : neoPostPersist e l (l.committee.map (fun c => (c.1, acctOf e c.1, c.2))) with
  | none => simp [hp] at h
  | some l1 =>
    simp only [hp] at h
    obtain ⟨gas, hg, hs⟩ := neoPostPersist_supply e l l1 _ hp
    refine ⟨gas, hg, ?_⟩
    split at h
    · split at h
      · rw [(sameCore_updateNewEpoch _ _ _ h).2.2.2.1, hs]
      · injection h with h; subst h; exact hs
    · injection h with h; subst h; exact hs

end NeoModel.Tokens
