/-
C12 proofs, part 14: the assumption "every SYSCALL handler charges at least 1" removed.

The regenerated system-call table (Generated/Interops.lean: the linked node's table) has exactly seven
interops with table price 0 (`zero_priced_interops`; they charge inside the handler or are reserved to
the system triggers); the SYSCALL handler (interop/context.go:533) charges `price · BaseExecFee` for all
the others, which is ≥ 1. So a zero-charge SYSCALL exists, and `Eff.okFor`'s `1 ≤ charge` is not a fact
of the code. What bounds a run then: a zero-charge SYSCALL leaves the gas alone and raises the depth
by at most one, so the termination measure grows by at most 1; with `z` such instructions among the
first `n`, `n ≤ (L+1)·(MaxInvocationStackSize+1) + 1 + 2·z` (`acct_total_z`) — no assumption on
charges. (That a script cannot execute unboundedly many zero-charge SYSCALLs without paying for a jump
is a fact about instruction pointers, outside the (gas, depth) abstraction.)
-/
import NeoModel.Proofs.VmAcctGasSim
import NeoModel.Generated.Interops
namespace NeoModel.VmAcct
open NeoModel.VmGas

/-- exactly these system calls have table price 0 in the current source -/
theorem zero_priced_interops :
    (Generated.Interops.table.filter (fun e => e.price == 0)).map (·.name) =
      ["System.Contract.CallNative", "System.Contract.CreateMultisigAccount", "System.Contract.CreateStandardAccount",
       "System.Contract.NativeOnPersist", "System.Contract.NativePostPersist", "System.Crypto.CheckMultisig",
       "System.Runtime.GetRandom"] := by decide

/-- every other system call is charged at least one unit per unit of BaseExecFee -/
theorem priced_interops (e : Generated.Interops.Entry) (he : e ∈ Generated.Interops.table) (hz : e.price ≠ 0) (baseExecFee : Nat)
    (hb : 1 ≤ baseExecFee) : 1 ≤ e.price * baseExecFee := by
  have : 1 ≤ e.price := Nat.pos_of_ne_zero hz
  exact Nat.mul_le_mul this hb

/-- the opcode byte fits the instruction (no assumption on what a handler charges) -/
structure CompatZ (b : Nat) (op : Op) (burn : Nat) : Prop where
  valid : isValidOp b = true
  ret : op.isRet = true ↔ b = opRET
  burn : burn ≠ 0 → b = opSYSCALL

set_option maxRecDepth 50000 in
theorem coeff_syscall : coeff opSYSCALL = 0 := by decide

/-- a zero-charge SYSCALL -/
def isZeroSys (b burn : Nat) : Bool := b == opSYSCALL && burn == 0

/-- runs with the number of zero-charge SYSCALLs counted -/
inductive GRunZ (L base : Nat) : GSt → Nat → Nat → Prop where
  | init : GRunZ L base { limit := some L, base := base } 0 0
  | step {g g' : GSt} {n z : Nat} (b : Nat) (op : Op) (burn : Nat) (unw : Option (Nat × Bool)) (ext : Bool) :
      GRunZ L base g n z → CompatZ b op burn → gasStep g b op burn unw ext = some g' →
      GRunZ L base g' (n + 1) (z + (if isZeroSys b burn then 1 else 0))

theorem gRunZ_inv {L base : Nat} {g : GSt} {n z : Nat} (h : GRunZ L base g n z) :
    Run g.s ∧ g.limit = some L ∧ g.base = base ∧ g.gas ≤ L := by
  induction h with
  | init => exact ⟨Run.init, rfl, rfl, Nat.zero_le _⟩
  | step b op burn unw ext _ _ hs ih =>
    obtain ⟨hr, hl, hb, _⟩ := ih
    obtain ⟨_, _, s', hst, h3, rfl⟩ := gasStep_some hs
    refine ⟨Run.step op unw ext hr hst, hl, hb, ?_⟩
    simp only [hl, overLimit, decide_eq_false_iff_not] at h3
    exact Nat.le_of_not_lt h3

theorem projZ_ok {L base : Nat} {g : GSt} {n z : Nat} (h : GRunZ L base g n z) : Ok { limit := L, base := base } g.proj := by
  obtain ⟨hr, _, _, hg⟩ := gRunZ_inv h
  obtain ⟨d1, d2⟩ := run_depth hr
  refine ⟨fun _ => hg, fun hrun => ?_⟩
  have hh : g.s.halted = false := by
    cases hx : g.s.halted with
    | false => rfl
    | true => simp [GSt.proj, hx] at hrun
  have hm : VmGas.maxDepth = maxInvocationStackSize := by decide
  rcases d2 with d2 | d2
  · rw [hh] at d2; cases d2
  · exact ⟨d2, by rw [hm]; exact d1⟩

/-- **total without the charge assumption**: with a price base ≥ 1, after `n` successful instructions
of which `z` were zero-charge SYSCALLs, `n ≤ (L+1)·(MaxInvocationStackSize+1) + 1 + 2·z` -/
theorem acct_total_z {L base : Nat} (hb : 1 ≤ base) {g : GSt} {n z : Nat} (h : GRunZ L base g n z) :
    n ≤ (L + 1) * (VmGas.maxDepth + 1) + 1 + 2 * z ∧
    (g.s.halted = false → n + mu { limit := L, base := base } g.proj ≤ (L + 1) * (VmGas.maxDepth + 1) + 1 + 2 * z) := by
  induction h with
  | init =>
    refine ⟨Nat.zero_le _, fun _ => ?_⟩
    have : mu { limit := L, base := base } ({ limit := some L, base := base } : GSt).proj = (L + 1) * (VmGas.maxDepth + 1) + 1 := by
      simp [mu, GSt.proj, St.init, St.depth]
    omega
  | @step g g' n z b op burn unw ext hrun hc hs ih =>
    obtain ⟨hr, hl, hbase, _⟩ := gRunZ_inv hrun
    obtain ⟨_, _, s', hst, _, hg'⟩ := gasStep_some hs
    have hnh := step_not_halted hst
    have hrunning : g.proj.status = .running := by simp [GSt.proj, hnh]
    have ih2 := ih.2 hnh
    have hpos : 1 ≤ mu { limit := L, base := base } g.proj := by
      have := (projZ_ok hrun).depth hrunning
      simp only [mu]; omega
    by_cases hz : isZeroSys b burn = true
    · -- a zero-charge SYSCALL: gas unchanged, depth + ≤ 1
      simp only [hz, if_true]
      simp only [isZeroSys, Bool.and_eq_true, beq_iff_eq] at hz
      obtain ⟨hbs, hb0⟩ := hz
      obtain ⟨_, _, e3⟩ := acct_eff_ok hr hst
      have hcoeff : coeff opSYSCALL = 0 := coeff_syscall
      have hgas : g'.gas = g.gas := by rw [hg', hbs, hb0, hcoeff]; simp
      have hdep : g'.s.depth ≤ g.s.depth + 1 := by rw [hg']; exact e3
      constructor
      · omega
      · intro _
        have : mu { limit := L, base := base } g'.proj ≤ mu { limit := L, base := base } g.proj + 1 := by
          simp only [mu, GSt.proj, hgas]; omega
        omega
    · -- a paid instruction: the measure of the abstract machine decreases
      have hc' : Compat b op burn := ⟨hc.valid, hc.ret, fun hs0 => by
        simp only [isZeroSys, Bool.and_eq_true, beq_iff_eq, not_and] at hz
        have := hz hs0; omega, hc.burn⟩
      obtain ⟨hsim, _, _⟩ := acct_sim hr hl hc' hs
      have hok := acct_eff_okFor hr hc' hs
      rw [hbase] at hsim
      obtain ⟨_, hdec⟩ := gstep_ok { limit := L, base := base } hb g.proj b _ hok (projZ_ok hrun) hrunning
      rw [hsim] at hdec
      simp only [hz, Bool.false_eq_true, if_false, Nat.add_zero]
      constructor
      · omega
      · intro hh
        have := hdec (by simp [GSt.proj, hh])
        omega

end NeoModel.VmAcct
