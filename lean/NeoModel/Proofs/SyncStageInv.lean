/-
C20 (b): the stage machine of statesync.Module (Model/SyncStage.lean): invariant over every message history,
the final state, the progress measure.
-/
import NeoModel.Model.SyncStage
import NeoModel.Proofs.BilletProgress
import NeoModel.Proofs.StateSyncMerkle
namespace NeoModel.StateSync

/-- Hypotheses on the source: shape of its trie at the sync point (as in `billet_module_exact`), fuel above its
depth, a non-empty window of blocks below the sync point. -/
structure SHyp (c : SCfg) (rk : Hash → Nat) : Prop where
  wf : WF c.db c.root
  sh : Shaped c.db
  hrk : Ranked c.db rk
  hfuel : ∀ h m, c.db h = some m → rk h < c.fuel
  hb0 : c.b0 < c.p

/-- Honest hash: a delivered Leaf/Branch/Extension node whose hash is the hash of a trie node is that node. -/
def SMsgOk (c : SCfg) : SMsg → Prop
  | .nodes items => ∀ it ∈ items, BItemOk c.db it
  | _ => True

/-- The invariant of the stage machine. -/
def SInv (c : SCfg) (s : SS) : Prop :=
  BInv c.db c.root s.bs ∧ Clean s.bs.ms ∧
  match s.stage with
  | .headers => s.hh ≤ c.p ∧ s.blocks = [] ∧ s.storedBh = 0 ∧ s.jumped = false
  | .mpt => c.p < s.hh ∧ s.blocks = [] ∧ s.storedBh = 0 ∧ s.jumped = false ∧ s.bs.ms.pool ≠ []
  | .blocks => c.p < s.hh ∧ s.bs.ms.pool = [] ∧ c.b0 ≤ s.bh ∧ s.bh < c.p ∧ s.jumped = false ∧
      s.blocks = List.range' (c.b0 + 1) (s.bh - c.b0) ∧ s.storedBh = (if s.bh = c.b0 then 0 else s.bh)
  | .inactive => c.p < s.hh ∧ s.bs.ms.pool = [] ∧ s.bh = c.p ∧ s.jumped = true ∧
      s.blocks = List.range' (c.b0 + 1) (c.p - c.b0)

theorem sinv_init (c : SCfg) : SInv c (SS.init c) :=
  ⟨binv_init c.db c.root, clean_init c.root, Nat.zero_le _, rfl, rfl, rfl⟩

/-- A restart of the billet part: the traversal succeeds and re-establishes the invariant with the same
pending set and the same restored positions. -/
theorem rebuildB_inv (c : SCfg) (rk : Hash → Nat) (hy : SHyp c rk) (bs : BS) (hb : BInv c.db c.root bs)
    (hcl : Clean bs.ms) :
    ∃ bs', rebuildB c.db c.fuel c.root bs = some (bs', .ok ()) ∧ BInv c.db c.root bs' ∧ Clean bs'.ms ∧
      (∀ x, x ∈ bs'.ms.pool ↔ x ∈ bs.ms.pool) ∧ bs'.ms.done = bs.ms.done := by
  obtain ⟨b, h1, hrep⟩ := rebuildB_refines c.db c.root hy.wf rk hy.hrk hy.sh c.fuel hy.hfuel
    (hy.wf.closed c.root [] Pos.root) bs hb.inv hcl
  obtain ⟨he, hn⟩ := rebuild_pool c.db c.root hy.wf rk hy.hrk c.fuel bs.ms hb.inv hcl hy.hfuel
  refine ⟨_, h1, ⟨inv_of_pool_eq c.db c.root bs.ms _ hb.inv he hn, hrep⟩, ?_, he, rfl⟩
  intro x hx
  exact hcl x ((he x).1 hx)

theorem addHeaders_go_ge (last : Nat) (l : List Hdr) (r : Nat) (h : addHeaders.go last l = some r) : last ≤ r := by
  induction l generalizing last with
  | nil => simp [addHeaders.go] at h; omega
  | cons a t ih =>
    simp only [addHeaders.go] at h
    split at h
    · rename_i hc
      have := ih _ h
      omega
    · cases h

theorem addHeaders_ge (hh : Nat) (hs : List Hdr) (r : Nat) (h : addHeaders hh hs = some r) : hh ≤ r :=
  addHeaders_go_ge hh _ r h

theorem isEmpty_iff_of_mem_iff {α : Type} (a b : List α) (h : ∀ x, x ∈ a ↔ x ∈ b) : a.isEmpty = b.isEmpty := by
  cases a with
  | nil =>
    cases b with
    | nil => rfl
    | cons y _ => exact absurd ((h y).2 (by simp)) (by simp)
  | cons x _ =>
    cases b with
    | nil => exact absurd ((h x).1 (by simp)) (by simp)
    | cons _ _ => rfl

/-- defineSyncStage on a state that satisfies the invariant (with whatever header height). -/
theorem defineStage_inv (c : SCfg) (rk : Hash → Nat) (hy : SHyp c rk) (s : SS) (hb : BInv c.db c.root s.bs)
    (hcl : Clean s.bs.ms)
    (hst : (s.bs.ms.pool ≠ [] ∨ c.p ≥ s.hh) → s.blocks = [] ∧ s.storedBh = 0)
    (hj : s.jumped = false)
    (hwin : s.bs.ms.pool = [] → ∃ bh, c.b0 ≤ bh ∧ bh < c.p ∧ s.blocks = List.range' (c.b0 + 1) (bh - c.b0) ∧
      s.storedBh = (if bh = c.b0 then 0 else bh)) :
    ∃ s', defineStage c s = some s' ∧ SInv c s' ∧ s'.bs.ms.done = s.bs.ms.done ∧ s'.hh = s.hh ∧
      (s'.stage = .headers ↔ s.hh ≤ c.p) ∧
      (c.p < s.hh → (s'.stage = .mpt ↔ s.bs.ms.pool ≠ [])) ∧
      (s'.stage = .blocks → s'.bh = max c.b0 s.storedBh) ∧ s'.stage ≠ .inactive := by
  unfold defineStage
  by_cases hh : s.hh > c.p
  · simp only [hh, if_true]
    obtain ⟨bs', h1, hb', hcl', hpool, hdone⟩ := rebuildB_inv c rk hy s.bs hb hcl
    rw [h1]
    simp only
    have hemp := isEmpty_iff_of_mem_iff _ _ hpool
    by_cases hp : s.bs.ms.pool = []
    · have : bs'.ms.pool.isEmpty = true := by rw [hemp, hp]; rfl
      simp only [this, if_true]
      obtain ⟨bh, h2, h3, h4, h5⟩ := hwin hp
      have hmax : latestSaved c { s with bs := bs' } = bh := by
        simp only [latestSaved, h5]
        split <;> omega
      have hpool' : bs'.ms.pool = [] := List.isEmpty_iff.1 this
      simp only [afterMpt, hmax]
      have hlt : ¬ bh ≥ c.p := by omega
      simp only [hlt, if_false]
      refine ⟨_, rfl, ⟨hb', hcl', ?_⟩, hdone, rfl, by simp; omega, fun _ => by simp [hp], ?_, by simp⟩
      · exact ⟨hh, hpool', h2, h3, hj, h4, h5⟩
      · intro _; simp only [h5]; split <;> omega
    · have : bs'.ms.pool.isEmpty = false := by
        rw [hemp]
        cases hq : s.bs.ms.pool with
        | nil => exact absurd hq hp
        | cons _ _ => rfl
      simp only [this, Bool.false_eq_true, if_false]
      obtain ⟨h2, h3⟩ := hst (.inl hp)
      have hne' : bs'.ms.pool ≠ [] := by
        intro e; rw [e] at this; simp at this
      refine ⟨_, rfl, ⟨hb', hcl', hh, h2, h3, hj, hne'⟩, hdone, rfl, by simp; omega, fun _ => by simp [hp], by simp, by simp⟩
  · simp only [hh, if_false]
    obtain ⟨h2, h3⟩ := hst (.inr (by omega))
    refine ⟨_, rfl, ⟨hb, hcl, by simp only; omega, h2, h3, hj⟩, rfl, rfl, by simp; omega, fun h => h.elim, by simp, by simp⟩

end NeoModel.StateSync

namespace NeoModel.StateSync

/-- AddMPTNodes never loses restored positions, and a batch that starts with a requested node gains one. -/
theorem deliverB_done (c : SCfg) (rk : Hash → Nat) (hy : SHyp c rk) :
    ∀ (items : List BItem) (s : BS), BInv c.db c.root s → (∀ it ∈ items, BItemOk c.db it) →
      s.ms.done.length ≤ (deliverB c.db c.fuel s items).1.ms.done.length ∧
      (∀ h n r q, items = .node h n :: r → (h, q) ∈ s.ms.pool →
        s.ms.done.length < (deliverB c.db c.fuel s items).1.ms.done.length) := by
  intro items
  induction items with
  | nil => intro s _ _; exact ⟨Nat.le_refl _, fun h n r q e => by cases e⟩
  | cons it r ih =>
    intro s hb hok
    have hok' : ∀ it ∈ r, BItemOk c.db it := fun it h => hok it (by simp [h])
    cases it with
    | garbage => exact ⟨Nat.le_refl _, fun h n r q e => by cases e⟩
    | empty => exact ⟨Nat.le_refl _, fun h n r q e => by cases e⟩
    | nonCanonical => exact ⟨Nat.le_refl _, fun h n r q e => by cases e⟩
    | hashNode h => exact ⟨Nat.le_refl _, fun h n r q e => by cases e⟩
    | node h n =>
      have hk : ∀ m, c.db h = some m → n = m := hok (.node h n) (by simp)
      obtain ⟨b, h1, hb1⟩ := restoreNodeB_refines c.db c.root hy.wf rk hy.hrk hy.sh c.fuel s h n hb hk
      have hrest := (ih _ hb1 hok').1
      simp only [deliverB, h1]
      have hle := done_le_restoreNode c.db c.fuel s.ms h n
      refine ⟨Nat.le_trans hle hrest, ?_⟩
      intro h' n' r' q e hq
      simp only [List.cons.injEq, BItem.node.injEq] at e
      obtain ⟨⟨e1, e2⟩, e3⟩ := e
      subst e1 e2 e3
      obtain ⟨m, hm⟩ := hy.wf.closed _ _ (hb.inv.poolPos _ hq)
      have hfp := hy.hfuel _ m hm
      obtain ⟨f, hf⟩ : ∃ f, c.fuel = f + 1 := ⟨c.fuel - 1, by omega⟩
      have hlt := done_lt_restoreNode c.db f s.ms h n q hq
      rw [← hf] at hlt
      exact Nat.lt_of_lt_of_le hlt hrest

/-- The progress measure: what is still missing, stage by stage. `L` bounds the number of positions of the trie. -/
def mu (c : SCfg) (L : Nat) (s : SS) : Nat :=
  match s.stage with
  | .headers => (c.p + 1 - s.hh) + (L - s.bs.ms.done.length + 1) + (c.p - c.b0)
  | .mpt => (L - s.bs.ms.done.length + 1) + (c.p - c.b0)
  | .blocks => c.p - s.bh
  | .inactive => 0

/-- A message that serves the module in its current state — what an honest peer answers to the module's
current request: headers that extend the header chain; a batch of MPT data starting with a requested node;
the next block of the window with its own transactions. -/
def Useful (c : SCfg) (s : SS) : SMsg → Prop
  | .init => False
  | .headers hs => s.stage = .headers ∧ ∃ hh', addHeaders s.hh hs = some hh' ∧ s.hh < hh'
  | .nodes items => s.stage = .mpt ∧ ∃ h n r q, items = .node h n :: r ∧ (h, q) ∈ s.bs.ms.pool
  | .block idx g body => s.stage = .blocks ∧ idx = s.bh + 1 ∧ g = true ∧ body = List.range (c.ntx idx)

/-- The three claims about a step from `s` to `s'` (the last one under the condition `u`). -/
def StepOkAt (c : SCfg) (L : Nat) (s s' : SS) (u : Prop) : Prop :=
  SInv c s' ∧ mu c L s' ≤ mu c L s ∧ (u → mu c L s' < mu c L s)

/-- What one step has to achieve. -/
def StepOk (c : SCfg) (L : Nat) (s : SS) (m : SMsg) : Prop :=
  SInv c (s.step c m).1 ∧ mu c L (s.step c m).1 ≤ mu c L s ∧ (Useful c s m → mu c L (s.step c m).1 < mu c L s)

/-- after defineSyncStage: the stage is determined by header height and pool, the measure follows -/
theorem define_mu (c : SCfg) (L : Nat) (s s' : SS) (hdone : s'.bs.ms.done = s.bs.ms.done) (hhh : s'.hh = s.hh)
    (g1 : s'.stage = .headers ↔ s.hh ≤ c.p) (g2 : c.p < s.hh → (s'.stage = .mpt ↔ s.bs.ms.pool ≠ []))
    (g3 : s'.stage = .blocks → s'.bh = max c.b0 s.storedBh) (g4 : s'.stage ≠ .inactive) :
    mu c L s' = if s.hh ≤ c.p then (c.p + 1 - s.hh) + (L - s.bs.ms.done.length + 1) + (c.p - c.b0)
      else if s.bs.ms.pool ≠ [] then (L - s.bs.ms.done.length + 1) + (c.p - c.b0)
      else c.p - max c.b0 s.storedBh := by
  by_cases h1 : s.hh ≤ c.p
  · simp only [h1, if_true, mu, g1.2 h1, hdone, hhh]
  · simp only [h1, if_false]
    have hlt : c.p < s.hh := by omega
    by_cases h2 : s.bs.ms.pool ≠ []
    · simp only [h2, if_true, mu, (g2 hlt).2 h2, hdone, ne_eq, not_false_eq_true]
    · have hbl : s'.stage = .blocks := by
        cases hs : s'.stage with
        | headers => exact absurd (g1.1 hs) h1
        | mpt => exact absurd ((g2 hlt).1 hs) h2
        | blocks => rfl
        | inactive => exact absurd hs g4
      simp only [h2, if_false, mu, hbl, g3 hbl]

theorem step_init (c : SCfg) (rk : Hash → Nat) (hy : SHyp c rk) (L : Nat) (s : SS) (hi : SInv c s) :
    StepOk c L s .init := by
  obtain ⟨stage, hh, bh, storedBh, bs, blocks, jumped⟩ := s
  obtain ⟨hb, hcl, hst⟩ := hi
  have hb0 := hy.hb0
  simp only at hb hcl hst
  unfold StepOk
  cases stage with
  | inactive =>
    obtain ⟨h1, h2, h3, h4, h5⟩ := hst
    subst h4
    simp only [SS.step, if_true]
    exact ⟨⟨hb, hcl, h1, h2, h3, rfl, h5⟩, Nat.le_refl _, fun hu => by simp [Useful] at hu⟩
  | headers =>
    obtain ⟨h1, h2, h3, h4⟩ := hst
    subst h2 h3 h4
    obtain ⟨s', e1, hi', hdone, hhh, g1, g2, g3, g4⟩ := defineStage_inv c rk hy
      { stage := .headers, hh := hh, bh := bh, storedBh := 0, bs := bs, blocks := [], jumped := false } hb hcl
      (fun _ => ⟨rfl, rfl⟩) rfl (fun _ => ⟨c.b0, Nat.le_refl _, hb0, by simp, by simp⟩)
    simp only [SS.step, Bool.false_eq_true, if_false, e1]
    have hmu := define_mu c L _ s' hdone hhh g1 g2 g3 g4
    simp only at hmu h1
    refine ⟨hi', ?_, fun hu => by simp [Useful] at hu⟩
    rw [hmu]; simp only [h1, if_true, mu]; exact Nat.le_refl _
  | mpt =>
    obtain ⟨h1, h2, h3, h4, hpne⟩ := hst
    subst h2 h3 h4
    obtain ⟨s', e1, hi', hdone, hhh, g1, g2, g3, g4⟩ := defineStage_inv c rk hy
      { stage := .mpt, hh := hh, bh := bh, storedBh := 0, bs := bs, blocks := [], jumped := false } hb hcl
      (fun _ => ⟨rfl, rfl⟩) rfl (fun _ => ⟨c.b0, Nat.le_refl _, hb0, by simp, by simp⟩)
    simp only [SS.step, Bool.false_eq_true, if_false, e1]
    have hmu := define_mu c L _ s' hdone hhh g1 g2 g3 g4
    simp only at hmu h1
    have hn : ¬ hh ≤ c.p := by omega
    refine ⟨hi', ?_, fun hu => by simp [Useful] at hu⟩
    rw [hmu]; simp only [hn, if_false, mu, hpne, ne_eq, not_false_eq_true, if_true]
    exact Nat.le_refl _
  | blocks =>
    obtain ⟨h1, h2, h3, h4, h5, h6, h7⟩ := hst
    subst h5
    obtain ⟨s', e1, hi', hdone, hhh, g1, g2, g3, g4⟩ := defineStage_inv c rk hy
      { stage := .blocks, hh := hh, bh := bh, storedBh := storedBh, bs := bs, blocks := blocks, jumped := false } hb hcl
      (fun h => by rcases h with h | h
                   · exact absurd h2 h
                   · simp only at h; omega) rfl
      (fun _ => ⟨bh, h3, h4, h6, h7⟩)
    simp only [SS.step, Bool.false_eq_true, if_false, e1]
    have hmu := define_mu c L _ s' hdone hhh g1 g2 g3 g4
    simp only at hmu
    have hn : ¬ hh ≤ c.p := by omega
    refine ⟨hi', ?_, fun hu => by simp [Useful] at hu⟩
    rw [hmu]; simp only [hn, if_false, h2, ne_eq, not_true_eq_false, mu, h7]
    split <;> omega

theorem step_headers (c : SCfg) (rk : Hash → Nat) (hy : SHyp c rk) (L : Nat) (s : SS) (hi : SInv c s)
    (hs : List Hdr) : StepOk c L s (.headers hs) := by
  obtain ⟨stage, hh, bh, storedBh, bs, blocks, jumped⟩ := s
  have hi0 := hi
  obtain ⟨hb, hcl, hst⟩ := hi
  have hb0 := hy.hb0
  simp only at hb hcl hst
  unfold StepOk
  cases stage with
  | headers =>
    obtain ⟨h1, h2, h3, h4⟩ := hst
    subst h2 h3 h4
    simp only [SS.step, ne_eq, not_true_eq_false, if_false]
    cases hadd : addHeaders hh hs with
    | none => exact ⟨hi0, Nat.le_refl _, fun hu => by simp [Useful, hadd] at hu⟩
    | some hh' =>
      have hge := addHeaders_ge hh hs hh' hadd
      simp only
      by_cases hgt : hh' > c.p
      · simp only [hgt, if_true]
        obtain ⟨s', e1, hi', hdone, hhh, g1, g2, g3, g4⟩ := defineStage_inv c rk hy
          { stage := .headers, hh := hh', bh := bh, storedBh := 0, bs := bs, blocks := [], jumped := false } hb hcl
          (fun _ => ⟨rfl, rfl⟩) rfl (fun _ => ⟨c.b0, Nat.le_refl _, hb0, by simp, by simp⟩)
        rw [e1]
        have hmu := define_mu c L _ s' hdone hhh g1 g2 g3 g4
        simp only at hmu
        have hn : ¬ hh' ≤ c.p := by omega
        have : mu c L s' < mu c L { stage := .headers, hh := hh, bh := bh, storedBh := 0, bs := bs, blocks := [], jumped := false } := by
          rw [hmu]; simp only [hn, if_false, mu]
          split
          · omega
          · have : max c.b0 0 = c.b0 := by omega
            rw [this]; omega
        exact ⟨hi', Nat.le_of_lt this, fun _ => this⟩
      · simp only [hgt, if_false]
        refine ⟨⟨hb, hcl, (by show hh' ≤ c.p; omega), rfl, rfl, rfl⟩, ?_, ?_⟩
        · simp only [mu]; omega
        · intro hu
          simp only [Useful, hadd, Option.some.injEq, exists_eq_left', true_and] at hu
          simp only [mu]; omega
  | mpt => simp only [SS.step]; exact ⟨hi0, Nat.le_refl _, fun hu => by simp [Useful] at hu⟩
  | blocks => simp only [SS.step]; exact ⟨hi0, Nat.le_refl _, fun hu => by simp [Useful] at hu⟩
  | inactive => simp only [SS.step]; exact ⟨hi0, Nat.le_refl _, fun hu => by simp [Useful] at hu⟩

theorem step_nodes (c : SCfg) (rk : Hash → Nat) (hy : SHyp c rk) (L : Nat) (s : SS) (hi : SInv c s)
    (items : List BItem) (hok : ∀ it ∈ items, BItemOk c.db it)
    (hbd0 : (deliverB c.db c.fuel s.bs items).1.ms.done.length ≤ L) : StepOk c L s (.nodes items) := by
  obtain ⟨stage, hh, bh, storedBh, bs, blocks, jumped⟩ := s
  simp only at hbd0
  have hi0 := hi
  obtain ⟨hb, hcl, hst⟩ := hi
  have hb0 := hy.hb0
  simp only at hb hcl hst
  unfold StepOk
  cases stage with
  | mpt =>
    obtain ⟨h1, h2, h3, h4, hpne⟩ := hst
    subst h2 h3 h4
    simp only [SS.step, ne_eq, not_true_eq_false, if_false]
    obtain ⟨g1, g2, _, _⟩ := deliverB_inv c.db c.root hy.wf rk hy.hrk hy.sh c.fuel hy.hfuel items bs hb hcl hok
    obtain ⟨d1, d2⟩ := deliverB_done c rk hy items bs hb hok
    have hbd : (deliverB c.db c.fuel bs items).1.ms.done.length ≤ L := hbd0
    generalize deliverB c.db c.fuel bs items = r at g1 g2 d1 d2 hbd
    obtain ⟨bs', res⟩ := r
    simp only at g1 g2 d1 d2 hbd ⊢
    by_cases hp : bs'.ms.pool.isEmpty = true
    · -- the pool is empty: the stage moves on, whatever the result of the batch
      simp only [hp, if_true, latestSaved]
      have hm : max c.b0 0 = c.b0 := by omega
      rw [hm]
      have : mu c L { stage := Stage.blocks, hh := hh, bh := c.b0, storedBh := 0, bs := bs', blocks := [], jumped := false } <
          mu c L { stage := .mpt, hh := hh, bh := bh, storedBh := 0, bs := bs, blocks := [], jumped := false } := by
        simp only [mu]; omega
      exact ⟨⟨g1, g2, h1, List.isEmpty_iff.1 hp, Nat.le_refl _, hb0, rfl, by simp, by simp⟩, Nat.le_of_lt this,
        fun _ => this⟩
    · simp only [hp, Bool.false_eq_true, if_false]
      have hne' : bs'.ms.pool ≠ [] := by
        intro e; rw [e] at hp; simp at hp
      refine ⟨⟨g1, g2, h1, rfl, rfl, rfl, hne'⟩, ?_, ?_⟩
      · simp only [mu]; omega
      · intro hu
        simp only [Useful, true_and] at hu
        obtain ⟨h, n, r, q, e, hq⟩ := hu
        have := d2 h n r q e hq
        simp only [mu]; omega
  | headers => simp only [SS.step]; exact ⟨hi0, Nat.le_refl _, fun hu => by simp [Useful] at hu⟩
  | blocks => simp only [SS.step]; exact ⟨hi0, Nat.le_refl _, fun hu => by simp [Useful] at hu⟩
  | inactive => simp only [SS.step]; exact ⟨hi0, Nat.le_refl _, fun hu => by simp [Useful] at hu⟩

theorem step_block (c : SCfg) (L : Nat) (s : SS) (hi : SInv c s) (idx : Nat) (g : Bool) (body : List Nat) :
    StepOk c L s (.block idx g body) := by
  obtain ⟨stage, hh, bh, storedBh, bs, blocks, jumped⟩ := s
  have hi0 := hi
  obtain ⟨hb, hcl, hst⟩ := hi
  simp only at hb hcl hst
  unfold StepOk
  cases stage with
  | blocks =>
    obtain ⟨h1, h2, h3, h4, h5, h6, h7⟩ := hst
    subst h5 h6
    simp only [SS.step, ne_eq, not_true_eq_false, if_false]
    have hne : ¬ bh = c.p := by omega
    simp only [hne, if_false]
    by_cases hidx : idx = bh + 1
    · subst hidx
      simp only [not_true_eq_false, if_false]
      by_cases hacc : g = true ∧ acceptsBody (List.range (c.ntx (bh + 1))) body = true
      · simp only [hacc, and_self, not_true_eq_false, if_false]
        have hblocks : List.range' (c.b0 + 1) (bh - c.b0) ++ [bh + 1] = List.range' (c.b0 + 1) (bh + 1 - c.b0) := by
          have e1 : bh + 1 = (c.b0 + 1) + (bh - c.b0) := by omega
          have e2 : bh + 1 - c.b0 = (bh - c.b0) + 1 := by omega
          rw [e2, List.range'_concat]; simp only [Nat.one_mul]; rw [← e1]
        by_cases hp : bh + 1 = c.p
        · simp only [hp, if_true]
          refine ⟨⟨hb, hcl, h1, h2, rfl, rfl, ?_⟩, by simp [mu], fun _ => by simp only [mu]; omega⟩
          rw [← hp, hblocks]
        · simp only [hp, if_false]
          refine ⟨⟨hb, hcl, h1, h2, (by show c.b0 ≤ bh + 1; omega), (by show bh + 1 < c.p; omega), rfl, hblocks, ?_⟩, by simp only [mu]; omega,
            fun _ => by simp only [mu]; omega⟩
          have : ¬ bh + 1 = c.b0 := by omega
          simp only [this, if_false]
      · have : ¬ (g = true ∧ acceptsBody (List.range (c.ntx (bh + 1))) body = true) := hacc
        simp only [this, not_false_eq_true, if_true]
        refine ⟨hi0, Nat.le_refl _, fun hu => ?_⟩
        simp only [Useful, true_and] at hu
        exfalso; apply hacc
        refine ⟨hu.1, ?_⟩
        rw [hu.2]
        exact (acceptsBody_iff' _ _ List.nodup_range).2 rfl
    · simp only [hidx, not_false_eq_true, if_true]
      exact ⟨hi0, Nat.le_refl _, fun hu => by simp only [Useful] at hu; exact absurd hu.2.1 hidx⟩
  | headers => simp only [SS.step]; exact ⟨hi0, Nat.le_refl _, fun hu => by simp [Useful] at hu⟩
  | mpt => simp only [SS.step]; exact ⟨hi0, Nat.le_refl _, fun hu => by simp [Useful] at hu⟩
  | inactive => simp only [SS.step]; exact ⟨hi0, Nat.le_refl _, fun hu => by simp [Useful] at hu⟩

theorem step_ok (c : SCfg) (rk : Hash → Nat) (hy : SHyp c rk) (Lp : List (Hash × Path))
    (hL : ∀ h p, Pos c.db c.root h p → (h, p) ∈ Lp) (s : SS) (hi : SInv c s) (m : SMsg) (hm : SMsgOk c m) :
    StepOk c Lp.length s m := by
  cases m with
  | init => exact step_init c rk hy _ s hi
  | headers hs => exact step_headers c rk hy _ s hi hs
  | nodes items =>
    obtain ⟨g1, _⟩ := deliverB_inv c.db c.root hy.wf rk hy.hrk hy.sh c.fuel hy.hfuel items s.bs hi.1 hi.2.1 hm
    exact step_nodes c rk hy _ s hi items hm (done_bounded c.db c.root _ g1.inv Lp hL)
  | block idx g body => exact step_block c _ s hi idx g body

/-- The invariant is kept by every call (no enumeration of the positions needed). -/
theorem sinv_step (c : SCfg) (rk : Hash → Nat) (hy : SHyp c rk) (s : SS) (hi : SInv c s) (m : SMsg)
    (hm : SMsgOk c m) : SInv c (s.step c m).1 := by
  cases m with
  | init => exact (step_init c rk hy 0 s hi).1
  | headers hs => exact (step_headers c rk hy 0 s hi hs).1
  | nodes items => exact (step_nodes c rk hy _ s hi items hm (Nat.le_refl _)).1
  | block idx g body => exact (step_block c 0 s hi idx g body).1

theorem sinv_run (c : SCfg) (rk : Hash → Nat) (hy : SHyp c rk) (ms : List SMsg) :
    ∀ (s : SS), SInv c s → (∀ m ∈ ms, SMsgOk c m) → SInv c (s.run c ms) := by
  induction ms with
  | nil => intro s hi _; exact hi
  | cons m r ih =>
    intro s hi hok
    exact ih _ (sinv_step c rk hy s hi m (hok m (by simp))) (fun m' hm' => hok m' (by simp [hm']))

open Classical in
/-- The number of messages of a history that served the module in the state they met. -/
noncomputable def served (c : SCfg) : SS → List SMsg → Nat
  | _, [] => 0
  | s, m :: r => (if Useful c s m then 1 else 0) + served c (s.step c m).1 r

theorem run_spec (c : SCfg) (rk : Hash → Nat) (hy : SHyp c rk) (Lp : List (Hash × Path))
    (hL : ∀ h p, Pos c.db c.root h p → (h, p) ∈ Lp) (ms : List SMsg) :
    ∀ (s : SS), SInv c s → (∀ m ∈ ms, SMsgOk c m) →
      SInv c (s.run c ms) ∧ mu c Lp.length (s.run c ms) + served c s ms ≤ mu c Lp.length s := by
  induction ms with
  | nil => intro s hi _; exact ⟨hi, by simp [SS.run, served]⟩
  | cons m r ih =>
    intro s hi hok
    obtain ⟨h1, h2, h3⟩ := step_ok c rk hy Lp hL s hi m (hok m (by simp))
    obtain ⟨g1, g2⟩ := ih (s.step c m).1 h1 (fun m' hm' => hok m' (by simp [hm']))
    refine ⟨g1, ?_⟩
    have hrun : s.run c (m :: r) = (s.step c m).1.run c r := rfl
    rw [hrun]
    simp only [served]
    split
    · rename_i hu
      have := h3 hu
      omega
    · omega

theorem mu_zero (c : SCfg) (L : Nat) (s : SS) (hi : SInv c s) (h : mu c L s = 0) : s.stage = .inactive := by
  obtain ⟨_, _, hst⟩ := hi
  cases hs : s.stage with
  | inactive => rfl
  | headers => rw [hs] at hst; simp only [mu, hs] at h; omega
  | mpt => simp only [mu, hs] at h; omega
  | blocks => rw [hs] at hst; simp only [mu, hs] at h; omega

/-- A call of AddHeaders / AddBlock that is not answered with `ok` changes nothing. -/
theorem rejected_unchanged (c : SCfg) (rk : Hash → Nat) (hy : SHyp c rk) (s : SS) (hi : SInv c s) (m : SMsg)
    (hm : (∃ hs, m = .headers hs) ∨ ∃ idx g body, m = .block idx g body)
    (hr : (s.step c m).2 ≠ .ok) : (s.step c m).1 = s := by
  obtain ⟨stage, hh, bh, storedBh, bs, blocks, jumped⟩ := s
  obtain ⟨hb, hcl, hst⟩ := hi
  have hb0 := hy.hb0
  simp only at hb hcl hst
  rcases hm with ⟨hs, rfl⟩ | ⟨idx, g, body, rfl⟩
  · cases stage with
    | headers =>
      obtain ⟨h1, h2, h3, h4⟩ := hst
      subst h2 h3 h4
      simp only [SS.step, ne_eq, not_true_eq_false, if_false] at hr ⊢
      cases hadd : addHeaders hh hs with
      | none => rfl
      | some hh' =>
        exfalso
        simp only [hadd] at hr
        by_cases hgt : hh' > c.p
        · simp only [hgt, if_true] at hr
          obtain ⟨s', e1, _⟩ := defineStage_inv c rk hy
            { stage := .headers, hh := hh', bh := bh, storedBh := 0, bs := bs, blocks := [], jumped := false } hb hcl
            (fun _ => ⟨rfl, rfl⟩) rfl (fun _ => ⟨c.b0, Nat.le_refl _, hb0, by simp, by simp⟩)
          rw [e1] at hr
          exact hr rfl
        · simp only [hgt, if_false] at hr
          exact hr trivial
    | mpt => rfl
    | blocks => rfl
    | inactive => rfl
  · cases stage with
    | blocks =>
      simp only [SS.step, ne_eq, not_true_eq_false, if_false] at hr ⊢
      split
      · rfl
      · rename_i h1
        simp only [h1, if_false] at hr
        split
        · rfl
        · rename_i h2
          simp only [h2, if_false] at hr
          split
          · rfl
          · rename_i h3
            exfalso
            simp only [h3, if_false] at hr
            split at hr <;> exact hr rfl
    | headers => rfl
    | mpt => rfl
    | inactive => rfl

/-- With an empty pool the restored data is exactly the trie: the billet has collapsed into the root HashNode,
every position is restored once, counters and temporary storage are the trie's. -/
theorem exact_of_empty_pool (db : Hash → Option SNode) (root : Hash) (bs : BS) (hb : BInv db root bs)
    (he : bs.ms.pool = []) :
    bs.billet = .hash root true ∧
    (∀ h p, Pos db root h p ↔ (h, p) ∈ bs.ms.done) ∧ bs.ms.done.Nodup ∧
    (∀ h, bs.ms.refs h = (bs.ms.done.filter (fun x => x.1 == h)).length ∧ (∀ p, Pos db root h p → 0 < bs.ms.refs h)) ∧
    (∀ p v, (p, v) ∈ bs.ms.temp ↔ ∃ h n, Pos db root h p ∧ db h = some n ∧ n.val = some v) := by
  have hi := hb.inv
  have hall : ∀ h p, Pos db root h p ↔ (h, p) ∈ bs.ms.done :=
    fun h p => ⟨complete db root bs.ms hi he h p, fun hd => hi.donePos _ hd⟩
  refine ⟨?_, hall, hi.doneNodup, ?_, ?_⟩
  · exact rep_full db bs.ms.done bs.billet root [] hb.rep
      (fun y hy => (hall y.1 y.2).1 (hy.pos db root Pos.root))
  · intro h
    refine ⟨hi.refsEq h, fun p hp => ?_⟩
    rw [hi.refsEq]
    apply List.length_pos_of_mem (a := (h, p))
    simp only [List.mem_filter, beq_self_eq_true, and_true]
    exact (hall h p).1 hp
  · intro p v
    rw [hi.tempEq]
    constructor
    · rintro ⟨h, n, hd, hn, hv⟩; exact ⟨h, n, (hall h p).2 hd, hn, hv⟩
    · rintro ⟨h, n, hp, hn, hv⟩; exact ⟨h, n, (hall h p).1 hp, hn, hv⟩

end NeoModel.StateSync
