/-
C04: which failures are catchable. In the implementation model (and in the specification) the ONLY
construct that raises a NeoVM exception is the THROW instruction (`Tree.throw`); everything a system
call or a native method can do wrong (missing call flags, dead contract, failed checks: `natStep = none`),
ABORT, an exception crossing a native frame, is an immediate FAULT. `Generated/ExcFacts.lean` holds what
the source says about that (which opcodes call v.throw, who can reach handleException, what the only
recover() does); here: the model-side counterpart, for every tree.
-/
import NeoModel.Model.Exec
import NeoModel.Proofs.ExecFrame
namespace NeoModel.Exec

/-- no THROW instruction anywhere in the tree (callbacks and native continuations included). -/
def throwFree : Tree → Bool
  | .skip | .put .. | .del .. | .notify .. | .abort => true
  | .throw => false
  | .seq a b => throwFree a && throwFree b
  | .ifp _ b => throwFree b
  | .loc b => throwFree b
  | .call _ _ b => throwFree b
  | .native _ _ _ cb k => throwFree cb && throwFree k
  | .try_ b _ c _ f => throwFree b && throwFree c && throwFree f

/-- the run raised no exception: it ended normally with the register empty, or FAULTed. -/
def NoExc (r : Res ISt) : Prop :=
  match r with
  | .norm s' => s'.exc = false
  | .thrown _ => False
  | .fault _ => True

theorem unload_exc (s : ISt) (w : Bool) (b : Nat) : (s.unload w b).exc = s.exc := by
  unfold ISt.unload
  split
  · split
    · unfold ISt.drop; split <;> rfl
    · unfold ISt.merge; split <;> rfl
  · rfl

theorem push_exc (s : ISt) : s.push.exc = s.exc := rfl

theorem noexc_end (h hasF : Bool) (rf : ISt → Res ISt) (s : ISt) (he : s.exc = false)
    (hf : ∀ s, s.exc = false → NoExc (rf s)) : NoExc (imEnd h hasF rf s) := by
  unfold imEnd
  split
  · have := hf s he
    cases hr : rf s with
    | norm s3 =>
      rw [hr] at this
      simp only [NoExc] at this
      simp [this, NoExc]
    | thrown s3 => rw [hr] at this; exact this
    | fault s3 => trivial
  · exact he

/-- Without a THROW instruction no exception is ever raised: from a state with the register empty,
    an execution ends normally with the register empty or FAULTs; it is never `thrown`, so no catch or
    finally block is ever entered by an exception. For every tree, context and state. -/
theorem im_no_throw (t : Tree) : ∀ (x : Ctx) (s : ISt), throwFree t = true → s.exc = false → NoExc (im t x s) := by
  induction t with
  | skip => intro x s _ he; simpa [im, NoExc] using he
  | seq a b iha ihb =>
    intro x s ht he
    simp only [throwFree, Bool.and_eq_true] at ht
    simp only [im]
    have ha := iha x s ht.1 he
    cases hr : im a x s with
    | norm s1 => rw [hr] at ha; exact ihb x s1 ht.2 ha
    | thrown s1 => rw [hr] at ha; exact ha
    | fault s1 => trivial
  | put k v => intro x s _ he; simp only [im]; split <;> simp [NoExc, he]
  | del k => intro x s _ he; simp only [im]; split <;> simp [NoExc, he]
  | notify e =>
    intro x s _ he; simp only [im]
    split
    · split <;> simp [NoExc, he]
    · trivial
  | ifp k body ih =>
    intro x s ht he
    simp only [throwFree] at ht
    simp only [im]
    split
    · split
      · exact ih x s ht he
      · exact he
    · trivial
  | loc body ih => intro x s ht he; simp only [throwFree] at ht; simp only [im]; exact ih x s ht he
  | throw => intro x s ht; simp [throwFree] at ht
  | abort => intro x s _ _; simp [im, NoExc]
  | call c' fl body ih =>
    intro x s ht he
    simp only [throwFree] at ht
    simp only [im]
    split
    · generalize (x.inTry && (x.f.and fl).mut) = wrapped
      have he0 : (if wrapped = true then s.push else s).exc = false := by split <;> simp [ISt.push, he]
      have hb := ih ⟨c', x.f.and fl, false, x.h⟩ (if wrapped = true then s.push else s) ht he0
      cases hr : im body ⟨c', x.f.and fl, false, x.h⟩ (if wrapped = true then s.push else s) with
      | norm s1 =>
        rw [hr] at hb
        simp only [NoExc] at hb ⊢
        rw [unload_exc]; exact hb
      | thrown s1 => rw [hr] at hb; exact hb.elim
      | fault s1 => trivial
    · trivial
  | try_ body hasC cat hasF fin ihb ihc ihf =>
    intro x s ht he
    simp only [throwFree, Bool.and_eq_true] at ht
    simp only [im]
    split
    · trivial
    · have hb := ihb { x with inTry := true, h := true } s ht.1.1 he
      cases hr : im body { x with inTry := true, h := true } s with
      | norm s1 => rw [hr] at hb; exact noexc_end _ _ _ _ hb (fun s hs => ihf x s ht.2 hs)
      | thrown s1 => rw [hr] at hb; exact hb.elim
      | fault s1 => trivial
  | native inner o fl cb k ih ihk =>
    intro x s ht he
    simp only [throwFree, Bool.and_eq_true] at ht
    simp only [im]
    split
    · generalize (if inner = true then x.f else x.f.and fl) = f'
      generalize (!inner && x.inTry && f'.mut) = wrapped
      have he0 : (if wrapped = true then s.push else s).exc = false := by split <;> simp [ISt.push, he]
      generalize (if wrapped = true then s.push else s) = s0 at *
      cases natStep o x.c f' s0.view.get with
      | none => trivial
      | some out =>
        simp only
        have tail : ∀ (s2 : ISt), s2.exc = false →
            NoExc (match im k ⟨x.c, f', false, x.h⟩ s2 with
              | .norm s3 => .norm (s3.unload wrapped s.ev.length)
              | .thrown s3 => .fault s3
              | .fault s3 => .fault s3) := by
          intro s2 e2
          have hk := ihk ⟨x.c, f', false, x.h⟩ s2 ht.2 e2
          cases hrk : im k ⟨x.c, f', false, x.h⟩ s2 with
          | norm s3 => rw [hrk] at hk; simp only [NoExc] at hk ⊢; rw [unload_exc]; exact hk
          | thrown s3 => trivial
          | fault s3 => trivial
        simp only [imPhase]
        by_cases hlim : maxNotifications < (s0.ev ++ out.evs).length
        · simp only [hlim, if_true]; trivial
        simp only [hlim, if_false]
        cases out.cb with
        | none => simp only; exact tail _ he0
        | some to =>
          simp only
          by_cases hab : out.cbAbort = true
          · simp only [hab, if_true]; trivial
          simp only [hab, if_false, Bool.false_eq_true]
          have hb := ih ⟨to, f', false, x.h⟩ { s0 with top := out.ws ++ s0.top, ev := s0.ev ++ out.evs } ht.1 he0
          cases hr : im cb ⟨to, f', false, x.h⟩ { s0 with top := out.ws ++ s0.top, ev := s0.ev ++ out.evs } with
          | norm s2 =>
            rw [hr] at hb
            simp only [NoExc] at hb
            simp only [hb, if_false, Bool.false_eq_true]
            exact tail s2 hb
          | thrown s2 => trivial
          | fault s2 => trivial
    · trivial

end NeoModel.Exec

namespace NeoModel.Exec

/-- consequently a catch block guarding code without THROW is dead: whatever the guarded code does —
    system calls without the required flags, natives that fail their checks, ABORT — the catch block is
    never entered (the execution FAULTs instead). -/
theorem im_catch_dead (body cat cat' fin : Tree) (hasF : Bool) (x : Ctx) (s : ISt)
    (ht : throwFree body = true) (he : s.exc = false) :
    im (.try_ body true cat hasF fin) x s = im (.try_ body true cat' hasF fin) x s := by
  have hb := im_no_throw body { x with inTry := true, h := true } s ht he
  simp only [im]
  cases hr : im body { x with inTry := true, h := true } s with
  | norm s1 => rfl
  | thrown s1 => rw [hr] at hb; exact hb.elim
  | fault s1 => rfl

/-- a FAULT is not an exception: it passes through every handler frame unchanged. -/
theorem im_fault_passes (body cat fin : Tree) (hasC hasF : Bool) (x : Ctx) (s s1 : ISt)
    (hh : (hasC || hasF) = true) (hf : im body { x with inTry := true, h := true } s = .fault s1) :
    im (.try_ body hasC cat hasF fin) x s = .fault s1 := by
  simp only [im, hf]
  cases hasC <;> cases hasF <;> simp_all

-- non-vacuity: a native call without the required flags (Policy.setFeePerByte under ReadOnly), a
-- storage write under ReadOnly, a call of a dead contract, each guarded by try/catch: FAULT, the
-- catch block (a notification) does not run
example : throwFree (.native false (.setFee 5) (Flags.ofNat 5) .skip .skip) = true := by decide
example : (implRun [] (.call 0 Flags.all (.try_ (.native false (.setFee 5) (Flags.ofNat 5) .skip .skip) true (.notify 1) false .skip))).halt = false := by decide
example : (implRun [] (.call 0 Flags.all (.try_ (.call 1 (Flags.ofNat 5) (.put 1 1)) true (.notify 1) false .skip))).halt = false := by decide
example : (implRun [] (.call 0 Flags.all (.try_ (.call 7 Flags.all .skip) true (.notify 1) false .skip))).halt = false := by decide
-- ... whereas THROW at the same place is caught
example : (implRun [] (.call 0 Flags.all (.try_ (.call 1 (Flags.ofNat 5) .throw) true (.notify 1) false .skip))).eff = (true, [], [(0, 1)]) := by decide

end NeoModel.Exec
