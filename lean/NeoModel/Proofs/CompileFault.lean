/-
CompileFault — the panic → FAULT direction for the MiniGo core.  The run-time panics of the core are an integer
division or remainder by zero (`/`, `%`, `/=`, `%=`) and the explicit `panic(e)`, in the function itself or in a
callee.  If the Go semantics
panics, the compiled code FAULTs: by induction on the fuel, for expressions (value and jump context), statements,
loop iterations and calls together (`allFault`), using the forward simulation of CompileFull (`allOK`) for
everything that is evaluated before the panic.
-/
import NeoModel.Proofs.CompileLabels
namespace NeoModel.CompileProofs
open NeoModel.MiniVm NeoModel.MiniVm.Asm NeoModel.MiniGo NeoModel.Compile

/-- the assembly machine FAULTs from `s`. -/
def Faults (C : Code) (s : State) : Prop := ∃ n, Asm.run C n s = .fault

theorem Faults.of_step {C : Code} {s : State} (h : Asm.step C s = .fault) : Faults C s := ⟨1, by simp [Asm.run, h]⟩

theorem Faults.of_reach {C : Code} {a b : State} (hr : Reach C a b) (hf : Faults C b) : Faults C a := by
  obtain ⟨n, hn⟩ := hr
  obtain ⟨m, hm⟩ := hf
  exact ⟨n + m, by rw [run_add C n m a b hn]; exact hm⟩

theorem step_data_fault {C : Code} {s : State} {op : Op Nat}
    (hf : C[s.pc]? = some (.ins op)) (hctl : isData op = true)
    (hd : stepData op s.stack s.locals s.args = none) : Asm.step C s = .fault := by
  cases op <;> simp [isData] at hctl <;> simp [Asm.step, hf, stepOp, hd]

theorem chk_ne_panic (n : Int) : chk n ≠ .panic := by
  unfold chk; split <;> simp

/-- the only strict operators that panic: `/` and `%` by zero. -/
theorem evalBin_panic {op : BinOp} {x y : Val} (h : evalBin op x y = .panic) :
    (op = .div ∨ op = .mod) ∧ ∃ i, x = .int i ∧ y = .int 0 := by
  cases op <;> cases x <;> cases y <;> simp only [evalBin] at h <;>
    first
    | (cases h; done)
    | exact absurd h (chk_ne_panic _)
    | (split at h
       · rename_i hz
         exact ⟨by simp, _, rfl, by simpa using hz⟩
       · exact absurd h (chk_ne_panic _))

/-- an expression without calls, `/` and `%` does not panic. -/
theorem noPanic_eval : ∀ (e : Expr), NoPanic e → ∀ (fuel : Nat) (P : Prog) (env : Env), evalE fuel P env e ≠ .panic := by
  intro e
  induction e with
  | lit n => intro _ fuel P env; cases fuel <;> simp [evalE, chk_ne_panic]
  | tt => intro _ fuel P env; cases fuel <;> simp [evalE]
  | ff => intro _ fuel P env; cases fuel <;> simp [evalE]
  | var x => intro _ fuel P env; cases fuel <;> simp [evalE]; split <;> simp
  | paren e ih => intro h fuel P env; cases fuel with
    | zero => simp [evalE]
    | succ n => simp only [evalE]; exact ih h n P env
  | neg e ih =>
    intro h fuel P env
    cases fuel with
    | zero => simp [evalE]
    | succ n =>
      have := ih h n P env
      simp only [evalE]
      intro hc
      split at hc
      · exact chk_ne_panic _ hc
      · cases hc
      · exact this hc
  | not e ih =>
    intro h fuel P env
    cases fuel with
    | zero => simp [evalE]
    | succ n =>
      have := ih h n P env
      simp only [evalE]
      intro hc
      split at hc
      · cases hc
      · cases hc
      · exact this hc
  | bin op a b iha ihb =>
    intro h fuel P env
    simp only [NoPanic] at h
    cases fuel with
    | zero => simp [evalE]
    | succ n =>
      have ha := iha h.2.2.1 n P env
      have hb := ihb h.2.2.2 n P env
      intro hc
      cases op <;> simp only [evalE] at hc <;>
        first
        | exact absurd rfl h.1
        | exact absurd rfl h.2.1
        | (repeat' split at hc
           all_goals first
             | (cases hc; done)
             | exact ha hc
             | exact hb hc
             | (have := (evalBin_panic hc).1; rcases this with h' | h' <;> cases h'))
  | call0 f => intro h; exact h.elim
  | call1 f a => intro h; exact h.elim
  | call2 f a b => intro h; exact h.elim
  | call3 f a b c => intro h; exact h.elim

theorem div_zero_faults (op : BinOp) (hop : op = .div ∨ op = .mod) (i : Int) (stk loc ar : List Val) :
    stepData (tokenOp op) (.int 0 :: .int i :: stk) loc ar = none := by
  rcases hop with rfl | rfl <;> simp [tokenOp, stepData, binInt, Val.toInt?]

theorem evalE_bin_strict_panic {fuel : Nat} {P : Prog} {env : Env} {op : BinOp} {a b : Expr}
    (hop : Strict op) (h : evalE (fuel + 1) P env (.bin op a b) = .panic) :
    evalE fuel P env a = .panic ∨ (∃ x, evalE fuel P env a = .ok x ∧ evalE fuel P env b = .panic) ∨
    (∃ x y, evalE fuel P env a = .ok x ∧ evalE fuel P env b = .ok y ∧ evalBin op x y = .panic) := by
  obtain ⟨h1, h2⟩ := hop
  cases op <;> first | exact absurd rfl h1 | exact absurd rfl h2 | skip
  all_goals
    simp only [evalE] at h
    cases hx : evalE fuel P env a <;> rw [hx] at h <;> simp only at h <;> try (cases h; done)
    · cases hy : evalE fuel P env b <;> rw [hy] at h <;> simp only at h <;> try (cases h; done)
      · exact Or.inr (Or.inr ⟨_, _, rfl, rfl, h⟩)
      · exact Or.inr (Or.inl ⟨_, rfl, rfl⟩)
    · exact Or.inl rfl

theorem evalE_logic_panic {fuel : Nat} {P : Prog} {env : Env} {op : BinOp} {a b : Expr}
    (hop : op = .land ∨ op = .lor) (h : evalE (fuel + 1) P env (.bin op a b) = .panic) :
    evalE fuel P env a = .panic ∨
    (evalE fuel P env a = .ok (.bool (!(op == .lor))) ∧ evalE fuel P env b = .panic) := by
  rcases hop with rfl | rfl
  all_goals
    simp only [evalE] at h
    cases hx : evalE fuel P env a with
    | ok x =>
      rw [hx] at h
      cases x with
      | bool bx =>
        cases bx
        all_goals simp only at h
        all_goals first
          | (cases h; done)
          | (right
             refine ⟨rfl, ?_⟩
             cases hy : evalE fuel P env b with
             | ok y =>
               rw [hy] at h
               cases y <;> simp at h
             | panic => rfl
             | overflow => rw [hy] at h; simp at h
             | stuck => rw [hy] at h; simp at h
             | timeout => rw [hy] at h; simp at h)
      | int n => simp at h
      | null => simp at h
    | panic => exact Or.inl rfl
    | overflow => rw [hx] at h; simp at h
    | stuck => rw [hx] at h; simp at h
    | timeout => rw [hx] at h; simp at h

/-- a call that panics: the machine FAULTs from the CALL instruction. -/
def CallFault (P : Prog) (C : Code) (fuel : Nat) : Prop :=
  ∀ (f : String) (vs : List Val) (σ : State) (rest : List Val),
    callF fuel P f vs = .panic → σ.stack = vs ++ rest →
    C[σ.pc]? = some (.ins (.call (fnLabel P f))) → σ.frames.length + fuel < 1024 → Faults C σ

/-- expressions that panic (division by zero, directly or in a callee): the machine FAULTs. -/
def ExprFault (P : Prog) (C : Code) (cx : Ctx) (sc : Scopes) (env : Env) (fuel : Nat) : Prop :=
  ∀ (e : Expr) (m : Mode) (nl : Nat) (s : State),
    evalE fuel P env e = .panic →
    Placed C s.pc (compE cx sc e m nl).1 →
    VarsRel cx sc env s.locals s.args → s.frames.length + fuel < 1024 →
    (∀ c t, m = .jump c t → ∃ tp, findLabel C t = some tp) → Faults C s

theorem exprFault_zero (P : Prog) (C : Code) (cx : Ctx) (sc : Scopes) (env : Env) : ExprFault P C cx sc env 0 := by
  intro e m nl s hev
  simp [evalE] at hev

theorem call_fault {P : Prog} {C : Code} {cx : Ctx} {fuel : Nat} {m : Mode} {s : State} {c : Code} {f : String}
    {vs : List Val} (htab : cx.funcs = funcTable P) (ihc : CallFault P C fuel)
    (hp : Placed C s.pc (withMode m (c ++ [.ins (.call (cx.func f).1)])))
    (hr : Reach C s { s with pc := s.pc + c.length, stack := vs ++ s.stack })
    (hcall : callF fuel P f vs = .panic) (hdep : s.frames.length + fuel < 1024) : Faults C s := by
  refine Faults.of_reach hr ?_
  have hf : C[s.pc + c.length]? = some (.ins (.call (cx.func f).1)) := (withMode_placed hp).right.head
  rw [ctx_func htab] at hf
  exact ihc f vs { s with pc := s.pc + c.length, stack := vs ++ s.stack } s.stack hcall rfl hf hdep

theorem exprFault_succ (P : Prog) (C : Code) (cx : Ctx) (sc : Scopes) (env : Env) (fuel : Nat)
    (hn : (labelsOf C).Nodup) (htab : cx.funcs = funcTable P)
    (ih : ExprFault P C cx sc env fuel) (hok : ExprFOK P C cx sc env fuel) (ihc : CallFault P C fuel) :
    ExprFault P C cx sc env (fuel + 1) := by
  intro e m nl s hev hp hrel hdep hlbl
  have hdep' : s.frames.length + fuel < 1024 := by omega
  have nj : ∀ (c : Bool) (t : Nat), Mode.val = .jump c t → ∃ tp, findLabel C t = some tp := by
    intro c t h; cases h
  cases e with
  | lit n => simp only [evalE] at hev; exact absurd hev (chk_ne_panic _)
  | tt => simp [evalE] at hev
  | ff => simp [evalE] at hev
  | var x =>
    simp only [evalE] at hev
    cases hg : env.get x <;> simp [hg] at hev
  | paren e =>
    simp only [evalE] at hev
    simp only [compE] at hp
    exact ih e .val nl s hev (withMode_placed hp) hrel hdep' nj
  | neg e =>
    simp only [evalE] at hev
    simp only [compE] at hp
    cases hx : evalE fuel P env e with
    | ok x =>
      rw [hx] at hev
      cases x <;> simp only at hev <;> first | exact absurd hev (chk_ne_panic _) | cases hev
    | panic => exact ih e .val nl s hx (withMode_placed hp).left hrel hdep' nj
    | overflow => rw [hx] at hev; simp at hev
    | stuck => rw [hx] at hev; simp at hev
    | timeout => rw [hx] at hev; simp at hev
  | not e =>
    simp only [evalE] at hev
    simp only [compE] at hp
    cases hx : evalE fuel P env e with
    | ok x =>
      rw [hx] at hev
      cases x <;> simp at hev
    | panic => exact ih e .val nl s hx (withMode_placed hp).left hrel hdep' nj
    | overflow => rw [hx] at hev; simp at hev
    | stuck => rw [hx] at hev; simp at hev
    | timeout => rw [hx] at hev; simp at hev
  | bin op a b =>
    by_cases hlog : op = .land ∨ op = .lor
    · have hev' := evalE_logic_panic hlog hev
      generalize hcs : (op == BinOp.lor) = cs at hev'
      cases m with
      | jump cond t =>
        rw [compE_logic_jump cx sc op a b cond t nl hlog] at hp
        rw [hcs] at hp
        generalize hca : compE cx sc a (.jump cs (if cond == cs then t else nl)) (nl + 1) = ra_ at hp
        obtain ⟨ca, nl1⟩ := ra_
        generalize hcb : compE cx sc b (.jump cond t) nl1 = rb_ at hp
        obtain ⟨cb, nl2⟩ := rb_
        simp only at hp
        have hpa : Placed C s.pc ca := hp.left.left
        have hpb : Placed C (s.pc + ca.length) cb := hp.left.right
        have hpe : Placed C (s.pc + (ca ++ cb).length) [.lbl nl] := hp.right
        have hle : findLabel C nl = some (s.pc + (ca ++ cb).length) := hpe.label hn
        obtain ⟨tp, hl⟩ := hlbl cond t rfl
        have hla : ∃ tpa, findLabel C (if (cond == cs) = true then t else nl) = some tpa := by
          by_cases hcc : (cond == cs) = true <;> simp [hcc, hl, hle]
        obtain ⟨tpa, hla1⟩ := hla
        rcases hev' with hxa | ⟨hxa, hyb⟩
        · exact ih a _ (nl + 1) s hxa (by rw [hca]; exact hpa) hrel hdep'
            (by intro c' t' h; cases h; exact ⟨tpa, hla1⟩)
        · have ra := hok a _ (nl + 1) s _ hxa (by rw [hca]; exact hpa) hrel hdep'
          rw [hca] at ra
          simp only [Post] at ra
          have ra := ra tpa hla1
          have hnb : ((!cs) == cs) = false := by cases cs <;> rfl
          simp only [Val.toBool, hnb] at ra
          refine Faults.of_reach ra ?_
          exact ih b _ nl1 { s with pc := s.pc + ca.length } hyb (by rw [hcb]; exact hpb) hrel hdep'
            (by intro c' t' h; cases h; exact ⟨tp, hl⟩)
      | val =>
        rw [compE_logic_val cx sc op a b nl hlog] at hp
        rw [hcs] at hp
        generalize hca : compE cx sc a (.jump cs (nl + 1)) (nl + 2) = ra_ at hp
        obtain ⟨ca, nl1⟩ := ra_
        generalize hcb : compE cx sc b .val nl1 = rb_ at hp
        obtain ⟨cb, nl2⟩ := rb_
        simp only at hp
        have hpa : Placed C s.pc ca := hp.left.left
        have hpb : Placed C (s.pc + ca.length) cb := hp.left.right
        have hp0 : Placed C (s.pc + (ca ++ cb).length) [.ins (.jmp nl), .lbl (nl + 1), .ins (if cs then Op.pushT else Op.pushF), .lbl nl] := hp.right
        have hp1 := hp0.tail
        have hpush : findLabel C (nl + 1) = some (s.pc + (ca ++ cb).length + 1) := hp1.label hn
        rcases hev' with hxa | ⟨hxa, hyb⟩
        · exact ih a _ (nl + 2) s hxa (by rw [hca]; exact hpa) hrel hdep'
            (by intro c' t' h; cases h; exact ⟨_, hpush⟩)
        · have ra := hok a _ (nl + 2) s _ hxa (by rw [hca]; exact hpa) hrel hdep'
          rw [hca] at ra
          simp only [Post] at ra
          have ra := ra _ hpush
          have hnb : ((!cs) == cs) = false := by cases cs <;> rfl
          simp only [Val.toBool, hnb] at ra
          refine Faults.of_reach ra ?_
          exact ih b _ nl1 { s with pc := s.pc + ca.length } hyb (by rw [hcb]; exact hpb) hrel hdep' nj
    · have hst : Strict op := ⟨fun h => hlog (Or.inl h), fun h => hlog (Or.inr h)⟩
      have hc : (op == .land || op == .lor) = false := by
        cases op <;> simp_all
      rcases hca : compE cx sc a .val nl with ⟨ca, nl1⟩
      rcases hcb : compE cx sc b .val nl1 with ⟨cb, nl2⟩
      -- in every mode the code starts with the two operands, followed by at least one instruction
      have hcode : ∃ rest : Code, (compE cx sc (.bin op a b) m nl).1 = ca ++ cb ++ rest ∧
          ((op = .div ∨ op = .mod) → ∃ r', rest = .ins (tokenOp op) :: r') := by
        cases m with
        | val => exact ⟨[.ins (tokenOp op)], by simp [compE, hc, hca, hcb], fun _ => ⟨[], rfl⟩⟩
        | jump cond t =>
          cases hj : jumpFor op with
          | none => exact ⟨[.ins (tokenOp op), jumpOn cond t], by simp [compE, hc, hca, hcb, hj], fun _ => ⟨_, rfl⟩⟩
          | some c =>
            refine ⟨[.ins (.jmpCmp (if cond then c else negCmp c) t)], by simp [compE, hc, hca, hcb, hj], ?_⟩
            intro hd; rcases hd with rfl | rfl <;> simp [jumpFor] at hj
      obtain ⟨rest, hcode, hdiv⟩ := hcode
      rw [hcode] at hp
      have hpa : Placed C s.pc ca := hp.left.left
      have hpb : Placed C (s.pc + ca.length) cb := hp.left.right
      rcases evalE_bin_strict_panic hst hev with hxa | ⟨x, hxa, hyb⟩ | ⟨x, y, hxa, hyb, hb⟩
      · exact ih a .val nl s hxa (by rw [hca]; exact hpa) hrel hdep' nj
      · have ra := hok a .val nl s x hxa (by rw [hca]; exact hpa) hrel hdep'
        rw [hca] at ra
        simp only [Post] at ra
        refine Faults.of_reach ra ?_
        exact ih b .val nl1 { s with pc := s.pc + ca.length, stack := x :: s.stack } hyb (by rw [hcb]; exact hpb) hrel hdep' nj
      · have ra := hok a .val nl s x hxa (by rw [hca]; exact hpa) hrel hdep'
        rw [hca] at ra
        simp only [Post] at ra
        have rb := hok b .val nl1 { s with pc := s.pc + ca.length, stack := x :: s.stack } y hyb
          (by rw [hcb]; exact hpb) hrel hdep'
        rw [hcb] at rb
        simp only [Post] at rb
        refine Faults.of_reach (ra.trans rb) ?_
        obtain ⟨hop, i, rfl, rfl⟩ := evalBin_panic hb
        obtain ⟨r', rfl⟩ := hdiv hop
        have hf : C[s.pc + ca.length + cb.length]? = some (.ins (tokenOp op)) :=
          (hp.right.cast (by simp [Nat.add_assoc])).head
        have hd : isData (tokenOp op) = true := by cases op <;> rfl
        exact Faults.of_step (step_data_fault (s := { s with pc := s.pc + ca.length + cb.length, stack := .int 0 :: .int i :: s.stack })
          hf hd (div_zero_faults op hop i _ _ _))
  | call0 f =>
    simp only [evalE] at hev
    simp only [compE] at hp
    exact call_fault (c := []) (vs := []) htab ihc (by simpa using hp) (by simpa using Reach.refl C s) hev hdep'
  | call1 f a =>
    simp only [evalE] at hev
    simp only [compE] at hp
    have hpa : Placed C s.pc (compE cx sc a .val nl).1 := (withMode_placed hp).left
    cases hx : evalE fuel P env a with
    | ok x =>
      rw [hx] at hev
      simp only at hev
      have ra := hok a .val nl s x hx hpa hrel hdep'
      simp only [Post] at ra
      exact call_fault (vs := [x]) htab ihc hp (by simpa using ra) hev hdep'
    | panic => exact ih a .val nl s hx hpa hrel hdep' nj
    | overflow => rw [hx] at hev; simp at hev
    | stuck => rw [hx] at hev; simp at hev
    | timeout => rw [hx] at hev; simp at hev
  | call2 f a b =>
    simp only [evalE] at hev
    simp only [compE, emitReverse] at hp
    rcases hca : compE cx sc a .val nl with ⟨ca, nl1⟩
    rcases hcb : compE cx sc b .val nl1 with ⟨cb, nl2⟩
    simp only [hca, hcb] at hp
    have hp0 := withMode_placed hp
    have hpa : Placed C s.pc ca := hp0.left.left.left
    have hpb : Placed C (s.pc + ca.length) cb := hp0.left.left.right
    cases hx : evalE fuel P env a with
    | ok x =>
      rw [hx] at hev
      simp only at hev
      have ra := hok a .val nl s x hx (by rw [hca]; exact hpa) hrel hdep'
      rw [hca] at ra
      simp only [Post] at ra
      cases hy : evalE fuel P env b with
      | ok y =>
        rw [hy] at hev
        simp only at hev
        have rb := hok b .val nl1 { s with pc := s.pc + ca.length, stack := x :: s.stack } y hy
          (by rw [hcb]; exact hpb) hrel hdep'
        rw [hcb] at rb
        simp only [Post] at rb
        have hsw := run_data (C := C) (σ := { s with pc := s.pc + ca.length + cb.length, stack := y :: x :: s.stack })
          (op := .swap) (stk := x :: y :: s.stack) (loc := s.locals) (ar := s.args)
          ((hp0.left.right.cast (by simp [Nat.add_assoc])).head) rfl (by simp [stepData])
        have hr : Reach C s { s with pc := s.pc + (ca ++ cb ++ [Item.ins Op.swap]).length, stack := [x, y] ++ s.stack } := by
          refine ra.trans (rb.trans (hsw.trans ?_))
          simp [Nat.add_assoc]
          exact Reach.refl _ _
        exact call_fault (c := ca ++ cb ++ [Item.ins Op.swap]) (vs := [x, y]) htab ihc hp hr hev hdep'
      | panic =>
        refine Faults.of_reach ra ?_
        exact ih b .val nl1 { s with pc := s.pc + ca.length, stack := x :: s.stack } hy (by rw [hcb]; exact hpb) hrel hdep' nj
      | overflow => rw [hy] at hev; simp at hev
      | stuck => rw [hy] at hev; simp at hev
      | timeout => rw [hy] at hev; simp at hev
    | panic => exact ih a .val nl s hx (by rw [hca]; exact hpa) hrel hdep' nj
    | overflow => rw [hx] at hev; simp at hev
    | stuck => rw [hx] at hev; simp at hev
    | timeout => rw [hx] at hev; simp at hev
  | call3 f a b c =>
    simp only [evalE] at hev
    simp only [compE, emitReverse] at hp
    rcases hca : compE cx sc a .val nl with ⟨ca, nl1⟩
    rcases hcb : compE cx sc b .val nl1 with ⟨cb, nl2⟩
    rcases hcc : compE cx sc c .val nl2 with ⟨cc, nl3⟩
    simp only [hca, hcb, hcc] at hp
    have hp0 := withMode_placed hp
    have hpa : Placed C s.pc ca := hp0.left.left.left.left
    have hpb : Placed C (s.pc + ca.length) cb := hp0.left.left.left.right
    have hpc : Placed C (s.pc + ca.length + cb.length) cc := hp0.left.left.right.cast (by simp [Nat.add_assoc])
    cases hx : evalE fuel P env a with
    | ok x =>
      rw [hx] at hev
      simp only at hev
      have ra := hok a .val nl s x hx (by rw [hca]; exact hpa) hrel hdep'
      rw [hca] at ra
      simp only [Post] at ra
      cases hy : evalE fuel P env b with
      | ok y =>
        rw [hy] at hev
        simp only at hev
        have rb := hok b .val nl1 { s with pc := s.pc + ca.length, stack := x :: s.stack } y hy
          (by rw [hcb]; exact hpb) hrel hdep'
        rw [hcb] at rb
        simp only [Post] at rb
        cases hz : evalE fuel P env c with
        | ok z =>
          rw [hz] at hev
          simp only at hev
          have rc := hok c .val nl2 { s with pc := s.pc + ca.length + cb.length, stack := y :: x :: s.stack } z hz
            (by rw [hcc]; exact hpc) hrel hdep'
          rw [hcc] at rc
          simp only [Post] at rc
          have hsw := run_data (C := C) (σ := { s with pc := s.pc + ca.length + cb.length + cc.length, stack := z :: y :: x :: s.stack })
            (op := .reverse3) (stk := x :: y :: z :: s.stack) (loc := s.locals) (ar := s.args)
            ((hp0.left.right.cast (by simp [Nat.add_assoc])).head) rfl (by simp [stepData])
          have hr : Reach C s { s with pc := s.pc + (ca ++ cb ++ cc ++ [Item.ins Op.reverse3]).length, stack := [x, y, z] ++ s.stack } := by
            refine ra.trans (rb.trans (rc.trans (hsw.trans ?_)))
            simp [Nat.add_assoc]
            exact Reach.refl _ _
          exact call_fault (c := ca ++ cb ++ cc ++ [Item.ins Op.reverse3]) (vs := [x, y, z]) htab ihc hp hr hev hdep'
        | panic =>
          refine Faults.of_reach (ra.trans rb) ?_
          exact ih c .val nl2 { s with pc := s.pc + ca.length + cb.length, stack := y :: x :: s.stack } hz (by rw [hcc]; exact hpc) hrel hdep' nj
        | overflow => rw [hz] at hev; simp at hev
        | stuck => rw [hz] at hev; simp at hev
        | timeout => rw [hz] at hev; simp at hev
      | panic =>
        refine Faults.of_reach ra ?_
        exact ih b .val nl1 { s with pc := s.pc + ca.length, stack := x :: s.stack } hy (by rw [hcb]; exact hpb) hrel hdep' nj
      | overflow => rw [hy] at hev; simp at hev
      | stuck => rw [hy] at hev; simp at hev
      | timeout => rw [hy] at hev; simp at hev
    | panic => exact ih a .val nl s hx (by rw [hca]; exact hpa) hrel hdep' nj
    | overflow => rw [hx] at hev; simp at hev
    | stuck => rw [hx] at hev; simp at hev
    | timeout => rw [hx] at hev; simp at hev

end NeoModel.CompileProofs

namespace NeoModel.CompileProofs
open NeoModel.MiniVm NeoModel.MiniVm.Asm NeoModel.MiniGo NeoModel.Compile

def CallSFault (P : Prog) (C : Code) (fuel : Nat) : Prop :=
  ∀ (f : String) (vs : List Val) (σ : State) (rest : List Val),
    callS fuel P f vs = .panic → σ.stack = vs ++ rest →
    C[σ.pc]? = some (.ins (.call (fnLabel P f))) → σ.frames.length + fuel < 1024 → Faults C σ

/-- statements that panic: the machine FAULTs. -/
def StmtFault (P : Prog) (C : Code) (cx : Ctx) (fuel : Nat) : Prop :=
  ∀ (s : Stmt) (lp : LoopCtx) (ls : Sigs) (st : St) (env : Env) (σ : State),
    Allowed ls s → Inv lp ls st σ → (Deep lp st.scopes.length ∨ (∃ b, s = .block b) ∧ Deepish lp st.scopes.length) →
    exec fuel P env s = .panic →
    Placed C σ.pc (compS cx lp s st).1 →
    VarsRel cx st.scopes env σ.locals σ.args → Wf st →
    (compS cx lp s st).2.cnt ≤ σ.locals.length → σ.frames.length + fuel < 1024 → Faults C σ

/-- the iterations of a loop that panic; the machine is at the loop head mark. -/
def IterFault (P : Prog) (C : Code) (cx : Ctx) (fuel : Nat) : Prop :=
  ∀ (init : Stmt) (cond : Option Expr) (post body : Stmt) (lp : LoopCtx) (ls : Sigs) (st : St) (env : Env) (σ : State) (pc0 : Nat),
    Allowed ((st.nextLabel, true) :: ls) body → NoDecl post → sigOf lp = ls → totalSz lp ≤ σ.stack.length → totalSz lp ≤ 3 →
    Deepish lp st.scopes.length → (forSt1 cx lp init st).nextLabel = none →
    iter fuel P env st.nextLabel cond post body = .panic →
    Placed C pc0 (compS cx lp (.loop init cond post body) st).1 →
    σ.pc = pc0 + (compS cx lp init (forSt0 st)).1.length →
    VarsRel cx (forSt1 cx lp init st).scopes env σ.locals σ.args → Wf st →
    (compS cx lp (.loop init cond post body) st).2.cnt ≤ σ.locals.length → σ.frames.length + fuel < 1024 → Faults C σ

/-- a `for` statement that panics. -/
def LoopFault (P : Prog) (C : Code) (cx : Ctx) (fuel : Nat) : Prop :=
  ∀ (init : Stmt) (cond : Option Expr) (post body : Stmt) (lp : LoopCtx) (ls : Sigs) (st : St) (env : Env) (σ : State),
    Allowed ls init → NoDecl post → Allowed ((st.nextLabel, true) :: ls) body →
    sigOf lp = ls → totalSz lp ≤ σ.stack.length → totalSz lp ≤ 3 → Deepish lp st.scopes.length →
    execLoop fuel P env st.nextLabel init cond post body = .panic →
    Placed C σ.pc (compS cx lp (.loop init cond post body) st).1 →
    VarsRel cx st.scopes env σ.locals σ.args → Wf st →
    (compS cx lp (.loop init cond post body) st).2.cnt ≤ σ.locals.length → σ.frames.length + fuel < 1024 → Faults C σ

/-- a `switch` statement that panics (in its tag, a case expression or a clause body). -/
def SwitchFault (P : Prog) (C : Code) (cx : Ctx) (fuel : Nat) : Prop :=
  ∀ (tag : Option Expr) (ti : Bool) (cl : Stmt) (lp : LoopCtx) (ls : Sigs) (st : St) (env : Env) (σ : State),
    swCount ls < 3 → AllowedCl ((st.nextLabel, false) :: ls) cl →
    sigOf lp = ls → totalSz lp ≤ σ.stack.length → Deepish lp st.scopes.length →
    execSwitch fuel P env st.nextLabel tag ti cl = .panic →
    Placed C σ.pc (compS cx lp (.switchS tag ti cl) st).1 →
    VarsRel cx st.scopes env σ.locals σ.args → Wf st →
    (compS cx lp (.switchS tag ti cl) st).2.cnt ≤ σ.locals.length → σ.frames.length + fuel < 1024 → Faults C σ

def CasesFault (P : Prog) (C : Code) (cx : Ctx) (fuel : Nat) : Prop :=
  ∀ (cl : Stmt) (lp : LoopCtx) (ls : Sigs) (st : St) (env : Env) (σ : State) (ti : Bool) (tv : Val),
    AllowedCl ls cl → SwCtx C lp ls st σ ti tv (σ.pc + (compS cx lp cl st).1.length) →
    execCases fuel P env tv ti cl = .panic →
    Placed C σ.pc (compS cx lp cl st).1 →
    VarsRel cx st.scopes env σ.locals σ.args → Wf st →
    (compS cx lp cl st).2.cnt ≤ σ.locals.length → σ.frames.length + fuel < 1024 → Faults C σ

def BodyFault (P : Prog) (C : Code) (cx : Ctx) (fuel : Nat) : Prop :=
  ∀ (cl body rest : Stmt) (ft : Bool) (lp : LoopCtx) (ls : Sigs) (st : St) (env : Env) (σ : State) (pc0 : Nat) (ti : Bool) (tv : Val),
    ((∃ e1 e2, cl = .caseS e1 e2 body ft rest) ∨ (cl = .defaultS body ∧ ft = false ∧ rest = .skip)) →
    AllowedCl ls cl → SwCtx C lp ls st σ ti tv (pc0 + (compS cx lp cl st).1.length) →
    execBody fuel P env body ft rest = .panic →
    Placed C pc0 (compS cx lp cl st).1 → σ.pc = pc0 + testsLen cx lp st cl →
    VarsRel cx st.scopes env σ.locals σ.args → Wf st →
    (compS cx lp cl st).2.cnt ≤ σ.locals.length → σ.frames.length + fuel < 1024 → Faults C σ

theorem callS_fault {P : Prog} {C : Code} {cx : Ctx} {fuel : Nat} {σ : State} {c : Code} {f : String} {vs : List Val}
    (htab : cx.funcs = funcTable P) (ihCS : CallSFault P C fuel)
    (hp : Placed C σ.pc (c ++ [.ins (.call (cx.func f).1)] ++ dropN (cx.func f).2))
    (hr : Reach C σ { σ with pc := σ.pc + c.length, stack := vs ++ σ.stack })
    (hcall : callS fuel P f vs = .panic) (hdep : σ.frames.length + fuel < 1024) : Faults C σ := by
  have hf : C[σ.pc + c.length]? = some (.ins (.call (cx.func f).1)) := hp.left.right.head
  rw [ctx_func htab] at hf
  exact Faults.of_reach hr (ihCS f vs { σ with pc := σ.pc + c.length, stack := vs ++ σ.stack } σ.stack hcall rfl hf hdep)

/-- a call for two values whose Go evaluation panics. -/
def Call2Fault (P : Prog) (C : Code) (fuel : Nat) : Prop :=
  ∀ (f : String) (vs : List Val) (σ : State) (rest : List Val),
    callF2 fuel P f vs = .panic → σ.stack = vs ++ rest →
    C[σ.pc]? = some (.ins (.call (fnLabel P f))) → σ.frames.length + fuel < 1024 → Faults C σ

theorem call2_fault {P : Prog} {C : Code} {cx : Ctx} {fuel : Nat} {σ : State} {c tail : Code} {f : String} {vs : List Val}
    (htab : cx.funcs = funcTable P) (ihC2 : Call2Fault P C fuel)
    (hp : Placed C σ.pc (c ++ [.ins (.call (cx.func f).1)] ++ tail))
    (hr : Reach C σ { σ with pc := σ.pc + c.length, stack := vs ++ σ.stack })
    (hcall : callF2 fuel P f vs = .panic) (hdep : σ.frames.length + fuel < 1024) : Faults C σ := by
  have hf : C[σ.pc + c.length]? = some (.ins (.call (cx.func f).1)) := hp.left.right.head
  rw [ctx_func htab] at hf
  exact Faults.of_reach hr (ihC2 f vs { σ with pc := σ.pc + c.length, stack := vs ++ σ.stack } σ.stack hcall rfl hf hdep)

theorem stmtFault_zero (P : Prog) (C : Code) (cx : Ctx) : StmtFault P C cx 0 := by
  intro s lp ls st env σ _ _ _ hex
  simp [exec] at hex

theorem nj (C : Code) : ∀ (c : Bool) (t : Nat), Mode.val = .jump c t → ∃ tp, findLabel C t = some tp := by
  intro c t h; cases h

set_option maxHeartbeats 1000000 in
theorem stmtFault_succ (P : Prog) (C : Code) (cx : Ctx) (fuel : Nat)
    (hn : (labelsOf C).Nodup) (htab : cx.funcs = funcTable P)
    (ihE : ∀ sc env, ExprFault P C cx sc env fuel) (okE : ∀ sc env, ExprFOK P C cx sc env fuel)
    (ih : StmtFault P C cx fuel) (ok : StmtFOK P C cx fuel)
    (ihL : LoopFault P C cx fuel) (ihSw : SwitchFault P C cx fuel) (ihCS : CallSFault P C fuel) (ihC2 : Call2Fault P C fuel) :
    StmtFault P C cx (fuel + 1) := by
  intro s lp ls st env σ hal hinv hd hex hp hrel hwf hcnt hdep
  have hdep' : σ.frames.length + fuel < 1024 := by omega
  have hdI : Deepish lp st.scopes.length := hd.elim Deep.ish (·.2)
  have hdS : Deep lp (st.scopes.length + 1) := hdI.succ
  cases s with
  | skip => simp [exec] at hex
  | seq a b =>
    simp only [Allowed] at hal
    have hd1 : Deep lp st.scopes.length := by
      rcases hd with h | ⟨⟨b', hb⟩, _⟩
      · exact h
      · cases hb
    simp only [exec] at hex
    simp only [compS] at hp hcnt
    have hmb := compS_mono cx b lp (compS cx lp a st).2 (compS_wf cx a lp st hwf).nonempty
    cases ha : exec fuel P env a with
    | ok oa =>
      rw [ha] at hex
      have hpa := ok a lp ls st env σ oa hal.1 hinv (Or.inl hd1) ha hp.left hrel hwf (Nat.le_trans hmb.1 hcnt) hdep'
      cases oa with
      | norm env1 =>
        simp only at hex
        obtain ⟨σ1, hr1, hpc1, hs1, hrel1⟩ := hpa
        have hpb : Placed C σ1.pc (compS cx lp b (compS cx lp a st).2).1 := by rw [hpc1]; exact hp.right
        exact Faults.of_reach hr1 (ih b lp ls _ env1 σ1 hal.2
          (hinv.to (compS_noLabel cx a lp st (allowed_labelsOK a ls hal.1) (Or.inl hinv.noLabel)) (by rw [hs1.stack]))
          (Or.inl (by rw [(compS_mono cx a lp st hwf.nonempty).2]; exact hd1)) hex hpb hrel1 (compS_wf cx a lp st hwf)
          (by rw [hs1.len]; exact hcnt) (by rw [hs1.frames]; exact hdep'))
      | ret v => simp at hex
      | brk l e => simp at hex
      | cont l e => simp at hex
    | panic =>
      exact ih a lp ls st env σ hal.1 hinv (Or.inl hd1) ha hp.left hrel hwf (Nat.le_trans hmb.1 hcnt) hdep'
    | overflow => rw [ha] at hex; simp at hex
    | stuck => rw [ha] at hex; simp at hex
    | timeout => rw [ha] at hex; simp at hex
  | define x e =>
    simp only [exec] at hex
    simp only [compS] at hp
    cases hv : evalE fuel P env e with
    | panic => exact (ihE st.scopes env) e .val st.nl σ hv hp.left hrel hdep' (nj C)
    | ok v => rw [hv] at hex; simp at hex
    | overflow => rw [hv] at hex; simp at hex
    | stuck => rw [hv] at hex; simp at hex
    | timeout => rw [hv] at hex; simp at hex
  | assign x e =>
    simp only [exec] at hex
    simp only [compS] at hp
    cases hv : evalE fuel P env e with
    | panic => exact (ihE st.scopes env) e .val st.nl σ hv hp.left hrel hdep' (nj C)
    | ok v =>
      rw [hv] at hex
      simp only at hex
      cases hset : env.set x v <;> rw [hset] at hex <;> simp at hex
    | overflow => rw [hv] at hex; simp at hex
    | stuck => rw [hv] at hex; simp at hex
    | timeout => rw [hv] at hex; simp at hex
  | discard e =>
    simp only [exec] at hex
    simp only [compS] at hp
    cases hv : evalE fuel P env e with
    | panic => exact (ihE st.scopes env) e .val st.nl σ hv hp.left hrel hdep' (nj C)
    | ok v => rw [hv] at hex; simp at hex
    | overflow => rw [hv] at hex; simp at hex
    | stuck => rw [hv] at hex; simp at hex
    | timeout => rw [hv] at hex; simp at hex
  | panicS e =>
    simp only [exec] at hex
    simp only [compS] at hp
    cases hv : evalE fuel P env e with
    | panic => exact (ihE st.scopes env) e .val st.nl σ hv hp.left hrel hdep' (nj C)
    | ok v =>
      have hr1 := (okE st.scopes env) e .val st.nl σ v hv hp.left hrel hdep'
      simp only [Post] at hr1
      refine Faults.of_reach hr1 (Faults.of_step ?_)
      exact step_data_fault
        (s := { σ with pc := σ.pc + (compE cx st.scopes e .val st.nl).1.length, stack := v :: σ.stack })
        hp.right.head rfl rfl
    | overflow => rw [hv] at hex; simp at hex
    | stuck => rw [hv] at hex; simp at hex
    | timeout => rw [hv] at hex; simp at hex
  | ret e =>
    cases e with
    | none => simp [exec] at hex
    | some e =>
      simp only [exec] at hex
      simp only [compS] at hp
      cases hv : evalE fuel P env e with
      | panic =>
        have hr0 := run_dropItems (C := C) (σ := σ) hinv.few hinv.stk hp.left.left
        exact Faults.of_reach hr0 ((ihE st.scopes env) e .val st.nl
          { σ with pc := σ.pc + (dropItems (totalSz lp)).length, stack := σ.stack.drop (totalSz lp) } hv hp.left.right hrel hdep' (nj C))
      | ok v => rw [hv] at hex; simp at hex
      | overflow => rw [hv] at hex; simp at hex
      | stuck => rw [hv] at hex; simp at hex
      | timeout => rw [hv] at hex; simp at hex
  | ret2 e1 e2 =>
    simp only [Allowed] at hal
    simp only [exec] at hex
    simp only [compS] at hp
    rcases hc2 : compE cx st.scopes e2 .val st.nl with ⟨c2, nl1⟩
    rcases hc1 : compE cx st.scopes e1 .val nl1 with ⟨c1, nl2⟩
    simp only [hc2, hc1] at hp
    have hr0 := run_dropItems (C := C) (σ := σ) hinv.few hinv.stk hp.left.left.left
    have hp2 : Placed C (σ.pc + (dropItems (totalSz lp)).length) (compE cx st.scopes e2 .val st.nl).1 := by
      rw [hc2]; exact hp.left.left.right
    have hp1 : Placed C (σ.pc + (dropItems (totalSz lp)).length + c2.length) (compE cx st.scopes e1 .val nl1).1 := by
      rw [hc1]; exact hp.left.right.cast (by simp [Nat.add_assoc])
    -- the VM evaluates e2 first
    have f2 : evalE fuel P env e2 = .panic → Faults C σ := fun hw =>
      Faults.of_reach hr0 ((ihE st.scopes env) e2 .val st.nl
        { σ with pc := σ.pc + (dropItems (totalSz lp)).length, stack := σ.stack.drop (totalSz lp) } hw hp2 hrel hdep' (nj C))
    cases hv : evalE fuel P env e1 with
    | panic =>
      -- Go stops at e1; the VM has evaluated e2 before: e1 cannot panic, or e2 is a boolean literal
      rcases hal with hnp | hlit
      · exact absurd hv (noPanic_eval e1 hnp fuel P env)
      · have hw : ∃ w, evalE fuel P env e2 = .ok w := by
          cases fuel with
          | zero => simp [evalE] at hv
          | succ n => cases e2 <;> simp only [IsBoolLit] at hlit <;> simp [evalE]
        obtain ⟨w, hw⟩ := hw
        have hr2 := (okE st.scopes env) e2 .val st.nl
          { σ with pc := σ.pc + (dropItems (totalSz lp)).length, stack := σ.stack.drop (totalSz lp) } w hw hp2 hrel hdep'
        rw [hc2] at hr2
        simp only [Post] at hr2
        exact Faults.of_reach (hr0.trans hr2) ((ihE st.scopes env) e1 .val nl1
          { σ with pc := σ.pc + (dropItems (totalSz lp)).length + c2.length, stack := w :: σ.stack.drop (totalSz lp) } hv hp1 hrel hdep' (nj C))
    | ok v =>
      rw [hv] at hex
      simp only at hex
      cases hw : evalE fuel P env e2 with
      | panic => exact f2 hw
      | ok w => rw [hw] at hex; simp at hex
      | overflow => rw [hw] at hex; simp at hex
      | stuck => rw [hw] at hex; simp at hex
      | timeout => rw [hw] at hex; simp at hex
    | overflow => rw [hv] at hex; simp at hex
    | stuck => rw [hv] at hex; simp at hex
    | timeout => rw [hv] at hex; simp at hex
  | define2 x y e =>
    cases e with
    | call0 f =>
      simp only [exec] at hex
      simp only [compS, compE, withMode] at hp
      cases hc : callF2 fuel P f [] with
      | panic => exact call2_fault (c := []) (vs := []) htab ihC2 (by simpa [List.append_assoc] using hp) (by simpa using Reach.refl C σ) hc hdep'
      | ok u => rw [hc] at hex; simp [declare2] at hex
      | overflow => rw [hc] at hex; simp [declare2] at hex
      | stuck => rw [hc] at hex; simp [declare2] at hex
      | timeout => rw [hc] at hex; simp [declare2] at hex
    | call1 f a =>
      simp only [exec] at hex
      simp only [compS, compE, withMode] at hp
      cases hx : evalE fuel P env a with
      | ok xa =>
        rw [hx] at hex
        simp only at hex
        have ra := (okE st.scopes env) a .val st.nl σ xa hx hp.left.left.left.left hrel hdep'
        simp only [Post] at ra
        cases hc : callF2 fuel P f [xa] with
        | panic => exact call2_fault (vs := [xa]) htab ihC2 (by simpa [List.append_assoc] using hp) (by simpa using ra) hc hdep'
        | ok u => rw [hc] at hex; simp [declare2] at hex
        | overflow => rw [hc] at hex; simp [declare2] at hex
        | stuck => rw [hc] at hex; simp [declare2] at hex
        | timeout => rw [hc] at hex; simp [declare2] at hex
      | panic => exact (ihE st.scopes env) a .val st.nl σ hx hp.left.left.left.left hrel hdep' (nj C)
      | overflow => rw [hx] at hex; simp at hex
      | stuck => rw [hx] at hex; simp at hex
      | timeout => rw [hx] at hex; simp at hex
    | call2 f a b =>
      simp only [exec] at hex
      simp only [compS, compE, withMode, emitReverse] at hp
      rcases hca : compE cx st.scopes a .val st.nl with ⟨ca, nl1⟩
      rcases hcb : compE cx st.scopes b .val nl1 with ⟨cb, nl2⟩
      simp only [hca, hcb] at hp
      have hpa : Placed C σ.pc ca := hp.left.left.left.left.left.left
      have hpb : Placed C (σ.pc + ca.length) cb := hp.left.left.left.left.left.right
      cases hx : evalE fuel P env a with
      | ok xa =>
        rw [hx] at hex
        simp only at hex
        have ra := (okE st.scopes env) a .val st.nl σ xa hx (by rw [hca]; exact hpa) hrel hdep'
        rw [hca] at ra
        simp only [Post] at ra
        cases hy : evalE fuel P env b with
        | ok yb =>
          rw [hy] at hex
          simp only at hex
          have rb := (okE st.scopes env) b .val nl1 { σ with pc := σ.pc + ca.length, stack := xa :: σ.stack } yb hy
            (by rw [hcb]; exact hpb) hrel hdep'
          rw [hcb] at rb
          simp only [Post] at rb
          cases hc : callF2 fuel P f [xa, yb] with
          | panic =>
            have hsw := run_data (C := C) (σ := { σ with pc := σ.pc + ca.length + cb.length, stack := yb :: xa :: σ.stack })
              (op := .swap) (stk := xa :: yb :: σ.stack) (loc := σ.locals) (ar := σ.args)
              ((hp.left.left.left.left.right.cast (by simp [Nat.add_assoc])).head) rfl (by simp [stepData])
            have hr : Reach C σ { σ with pc := σ.pc + (ca ++ cb ++ [Item.ins Op.swap]).length, stack := [xa, yb] ++ σ.stack } := by
              refine ra.trans (rb.trans (hsw.trans ?_))
              simp [Nat.add_assoc]
              exact Reach.refl _ _
            exact call2_fault (c := ca ++ cb ++ [Item.ins Op.swap]) (vs := [xa, yb]) htab ihC2
              (by simpa [List.append_assoc] using hp) hr hc hdep'
          | ok u => rw [hc] at hex; simp [declare2] at hex
          | overflow => rw [hc] at hex; simp [declare2] at hex
          | stuck => rw [hc] at hex; simp [declare2] at hex
          | timeout => rw [hc] at hex; simp [declare2] at hex
        | panic =>
          exact Faults.of_reach ra ((ihE st.scopes env) b .val nl1 { σ with pc := σ.pc + ca.length, stack := xa :: σ.stack } hy
            (by rw [hcb]; exact hpb) hrel hdep' (nj C))
        | overflow => rw [hy] at hex; simp at hex
        | stuck => rw [hy] at hex; simp at hex
        | timeout => rw [hy] at hex; simp at hex
      | panic => exact (ihE st.scopes env) a .val st.nl σ hx (by rw [hca]; exact hpa) hrel hdep' (nj C)
      | overflow => rw [hx] at hex; simp at hex
      | stuck => rw [hx] at hex; simp at hex
      | timeout => rw [hx] at hex; simp at hex
    | _ => simp [Allowed, IsCall2] at hal
  | brk => simp [exec] at hex
  | cont => simp [exec] at hex
  | inc x =>
    simp only [exec] at hex
    cases hg : env.get x with
    | none => rw [hg] at hex; simp at hex
    | some old =>
      rw [hg] at hex
      cases old with
      | bool b => simp at hex
      | null => simp at hex
      | int n =>
        simp only at hex
        cases hc : chk (n + 1) with
        | ok r =>
          rw [hc] at hex
          simp only at hex
          cases hset : env.set x r <;> rw [hset] at hex <;> simp at hex
        | panic => exact absurd hc (chk_ne_panic _)
        | overflow => rw [hc] at hex; simp at hex
        | stuck => rw [hc] at hex; simp at hex
        | timeout => rw [hc] at hex; simp at hex
  | dec x =>
    simp only [exec] at hex
    cases hg : env.get x with
    | none => rw [hg] at hex; simp at hex
    | some old =>
      rw [hg] at hex
      cases old with
      | bool b => simp at hex
      | null => simp at hex
      | int n =>
        simp only at hex
        cases hc : chk (n - 1) with
        | ok r =>
          rw [hc] at hex
          simp only at hex
          cases hset : env.set x r <;> rw [hset] at hex <;> simp at hex
        | panic => exact absurd hc (chk_ne_panic _)
        | overflow => rw [hc] at hex; simp at hex
        | stuck => rw [hc] at hex; simp at hex
        | timeout => rw [hc] at hex; simp at hex
  | varDecl x isBool init =>
    cases init with
    | some e =>
      simp only [Allowed] at hal
      rw [compS_varDecl_define cx lp x isBool e st] at hp
      simp only [exec] at hex
      simp only [compS] at hp
      cases hv : evalE fuel P env e with
      | panic => exact (ihE st.scopes env) e .val st.nl σ hv hp.left hrel hdep' (nj C)
      | ok v => rw [hv] at hex; simp at hex
      | overflow => rw [hv] at hex; simp at hex
      | stuck => rw [hv] at hex; simp at hex
      | timeout => rw [hv] at hex; simp at hex
    | none => simp [exec] at hex
  | opAssign x op e =>
    simp only [Allowed] at hal
    simp only [exec] at hex
    simp only [compS] at hp
    cases hg : env.get x with
    | none => rw [hg] at hex; simp at hex
    | some old =>
      rw [hg] at hex
      simp only at hex
      obtain ⟨lop, hop, hkind, hstep⟩ := load_correct hrel hg
      rw [hop] at hp
      have hdl : isData lop = true := by rcases hkind with h | ⟨j, h⟩ <;> subst h <;> rfl
      have hr1 := run_data (C := C) (σ := σ) hp.left.left.left.head hdl (hstep σ.stack)
      cases hv : evalE fuel P env e with
      | ok v =>
        rw [hv] at hex
        simp only at hex
        have hr2 := (okE st.scopes env) e .val st.nl { σ with pc := σ.pc + 1, stack := old :: σ.stack } v hv
          (by simpa using hp.left.left.right) hrel hdep'
        simp only [Post] at hr2
        cases hb : evalBin op old v with
        | ok r =>
          rw [hb] at hex
          simp only at hex
          cases hset : env.set x r <;> rw [hset] at hex <;> simp at hex
        | panic =>
          obtain ⟨hdm, i, rfl, rfl⟩ := evalBin_panic hb
          have hdt : isData (tokenOp op) = true := by cases op <;> rfl
          refine Faults.of_reach (hr1.trans hr2) (Faults.of_step ?_)
          exact step_data_fault
            (s := { σ with pc := σ.pc + 1 + (compE cx st.scopes e .val st.nl).1.length, stack := .int 0 :: .int i :: σ.stack })
            ((hp.left.right.cast (by simp; omega)).head) hdt (div_zero_faults op hdm i _ _ _)
        | overflow => rw [hb] at hex; simp at hex
        | stuck => rw [hb] at hex; simp at hex
        | timeout => rw [hb] at hex; simp at hex
      | panic =>
        refine Faults.of_reach hr1 ?_
        exact (ihE st.scopes env) e .val st.nl { σ with pc := σ.pc + 1, stack := old :: σ.stack } hv
          (by simpa using hp.left.left.right) hrel hdep' (nj C)
      | overflow => rw [hv] at hex; simp at hex
      | stuck => rw [hv] at hex; simp at hex
      | timeout => rw [hv] at hex; simp at hex
  | block body =>
    simp only [Allowed] at hal
    simp only [exec] at hex
    rw [compS_block] at hp hcnt
    have hrel' : VarsRel cx st.push.scopes env.push σ.locals σ.args := varsRel_push hrel
    cases hb : exec fuel P env.push body with
    | panic => exact ih body lp ls st.push env.push σ hal (hinv.to hinv.noLabel rfl) (Or.inl hdS) hb hp hrel' (wf_push hwf) (by simpa using hcnt) hdep'
    | ok ob => rw [hb] at hex; cases ob <;> simp at hex
    | overflow => rw [hb] at hex; simp at hex
    | stuck => rw [hb] at hex; simp at hex
    | timeout => rw [hb] at hex; simp at hex
  | exprStmt e =>
    cases e with
    | call0 f =>
      simp only [exec] at hex
      simp only [compS, compE, withMode] at hp
      cases hc : callS fuel P f [] with
      | panic => exact callS_fault (c := []) (vs := []) htab ihCS (by simpa using hp) (by simpa using Reach.refl C σ) hc hdep'
      | ok u => rw [hc] at hex; simp at hex
      | overflow => rw [hc] at hex; simp at hex
      | stuck => rw [hc] at hex; simp at hex
      | timeout => rw [hc] at hex; simp at hex
    | call1 f a =>
      simp only [exec] at hex
      simp only [compS, compE, withMode] at hp
      cases hx : evalE fuel P env a with
      | ok x =>
        rw [hx] at hex
        simp only at hex
        have ra := (okE st.scopes env) a .val st.nl σ x hx hp.left.left hrel hdep'
        simp only [Post] at ra
        cases hc : callS fuel P f [x] with
        | panic => exact callS_fault (vs := [x]) htab ihCS hp (by simpa using ra) hc hdep'
        | ok u => rw [hc] at hex; simp at hex
        | overflow => rw [hc] at hex; simp at hex
        | stuck => rw [hc] at hex; simp at hex
        | timeout => rw [hc] at hex; simp at hex
      | panic => exact (ihE st.scopes env) a .val st.nl σ hx hp.left.left hrel hdep' (nj C)
      | overflow => rw [hx] at hex; simp at hex
      | stuck => rw [hx] at hex; simp at hex
      | timeout => rw [hx] at hex; simp at hex
    | call2 f a b =>
      simp only [exec] at hex
      simp only [compS, compE, withMode, emitReverse] at hp
      rcases hca : compE cx st.scopes a .val st.nl with ⟨ca, nl1⟩
      rcases hcb : compE cx st.scopes b .val nl1 with ⟨cb, nl2⟩
      simp only [hca, hcb] at hp
      have hpa : Placed C σ.pc ca := hp.left.left.left.left
      have hpb : Placed C (σ.pc + ca.length) cb := hp.left.left.left.right
      cases hx : evalE fuel P env a with
      | ok x =>
        rw [hx] at hex
        simp only at hex
        have ra := (okE st.scopes env) a .val st.nl σ x hx (by rw [hca]; exact hpa) hrel hdep'
        rw [hca] at ra
        simp only [Post] at ra
        cases hy : evalE fuel P env b with
        | ok y =>
          rw [hy] at hex
          simp only at hex
          have rb := (okE st.scopes env) b .val nl1 { σ with pc := σ.pc + ca.length, stack := x :: σ.stack } y hy
            (by rw [hcb]; exact hpb) hrel hdep'
          rw [hcb] at rb
          simp only [Post] at rb
          cases hc : callS fuel P f [x, y] with
          | panic =>
            have hsw := run_data (C := C) (σ := { σ with pc := σ.pc + ca.length + cb.length, stack := y :: x :: σ.stack })
              (op := .swap) (stk := x :: y :: σ.stack) (loc := σ.locals) (ar := σ.args)
              ((hp.left.left.right.cast (by simp [Nat.add_assoc])).head) rfl (by simp [stepData])
            have hr : Reach C σ { σ with pc := σ.pc + (ca ++ cb ++ [Item.ins Op.swap]).length, stack := [x, y] ++ σ.stack } := by
              refine ra.trans (rb.trans (hsw.trans ?_))
              simp [Nat.add_assoc]
              exact Reach.refl _ _
            exact callS_fault (c := ca ++ cb ++ [Item.ins Op.swap]) (vs := [x, y]) htab ihCS hp hr hc hdep'
          | ok u => rw [hc] at hex; simp at hex
          | overflow => rw [hc] at hex; simp at hex
          | stuck => rw [hc] at hex; simp at hex
          | timeout => rw [hc] at hex; simp at hex
        | panic =>
          refine Faults.of_reach ra ?_
          exact (ihE st.scopes env) b .val nl1 { σ with pc := σ.pc + ca.length, stack := x :: σ.stack } hy
            (by rw [hcb]; exact hpb) hrel hdep' (nj C)
        | overflow => rw [hy] at hex; simp at hex
        | stuck => rw [hy] at hex; simp at hex
        | timeout => rw [hy] at hex; simp at hex
      | panic => exact (ihE st.scopes env) a .val st.nl σ hx (by rw [hca]; exact hpa) hrel hdep' (nj C)
      | overflow => rw [hx] at hex; simp at hex
      | stuck => rw [hx] at hex; simp at hex
      | timeout => rw [hx] at hex; simp at hex
    | call3 f a b c =>
      simp only [exec] at hex
      simp only [compS, compE, withMode, emitReverse] at hp
      rcases hca : compE cx st.scopes a .val st.nl with ⟨ca, nl1⟩
      rcases hcb : compE cx st.scopes b .val nl1 with ⟨cb, nl2⟩
      rcases hcc : compE cx st.scopes c .val nl2 with ⟨cc, nl3⟩
      simp only [hca, hcb, hcc] at hp
      have hpa : Placed C σ.pc ca := hp.left.left.left.left.left
      have hpb : Placed C (σ.pc + ca.length) cb := hp.left.left.left.left.right
      have hpc : Placed C (σ.pc + ca.length + cb.length) cc := hp.left.left.left.right.cast (by simp [Nat.add_assoc])
      cases hx : evalE fuel P env a with
      | ok x =>
        rw [hx] at hex
        simp only at hex
        have ra := (okE st.scopes env) a .val st.nl σ x hx (by rw [hca]; exact hpa) hrel hdep'
        rw [hca] at ra
        simp only [Post] at ra
        cases hy : evalE fuel P env b with
        | ok y =>
          rw [hy] at hex
          simp only at hex
          have rb := (okE st.scopes env) b .val nl1 { σ with pc := σ.pc + ca.length, stack := x :: σ.stack } y hy
            (by rw [hcb]; exact hpb) hrel hdep'
          rw [hcb] at rb
          simp only [Post] at rb
          cases hz : evalE fuel P env c with
          | ok z =>
            rw [hz] at hex
            simp only at hex
            have rc := (okE st.scopes env) c .val nl2 { σ with pc := σ.pc + ca.length + cb.length, stack := y :: x :: σ.stack } z hz
              (by rw [hcc]; exact hpc) hrel hdep'
            rw [hcc] at rc
            simp only [Post] at rc
            cases hc : callS fuel P f [x, y, z] with
            | panic =>
              have hsw := run_data (C := C) (σ := { σ with pc := σ.pc + ca.length + cb.length + cc.length, stack := z :: y :: x :: σ.stack })
                (op := .reverse3) (stk := x :: y :: z :: σ.stack) (loc := σ.locals) (ar := σ.args)
                ((hp.left.left.right.cast (by simp [Nat.add_assoc])).head) rfl (by simp [stepData])
              have hr : Reach C σ { σ with pc := σ.pc + (ca ++ cb ++ cc ++ [Item.ins Op.reverse3]).length, stack := [x, y, z] ++ σ.stack } := by
                refine ra.trans (rb.trans (rc.trans (hsw.trans ?_)))
                simp [Nat.add_assoc]
                exact Reach.refl _ _
              exact callS_fault (c := ca ++ cb ++ cc ++ [Item.ins Op.reverse3]) (vs := [x, y, z]) htab ihCS hp hr hc hdep'
            | ok u => rw [hc] at hex; simp at hex
            | overflow => rw [hc] at hex; simp at hex
            | stuck => rw [hc] at hex; simp at hex
            | timeout => rw [hc] at hex; simp at hex
          | panic =>
            refine Faults.of_reach (ra.trans rb) ?_
            exact (ihE st.scopes env) c .val nl2 { σ with pc := σ.pc + ca.length + cb.length, stack := y :: x :: σ.stack } hz
              (by rw [hcc]; exact hpc) hrel hdep' (nj C)
          | overflow => rw [hz] at hex; simp at hex
          | stuck => rw [hz] at hex; simp at hex
          | timeout => rw [hz] at hex; simp at hex
        | panic =>
          refine Faults.of_reach ra ?_
          exact (ihE st.scopes env) b .val nl1 { σ with pc := σ.pc + ca.length, stack := x :: σ.stack } hy
            (by rw [hcb]; exact hpb) hrel hdep' (nj C)
        | overflow => rw [hy] at hex; simp at hex
        | stuck => rw [hy] at hex; simp at hex
        | timeout => rw [hy] at hex; simp at hex
      | panic => exact (ihE st.scopes env) a .val st.nl σ hx (by rw [hca]; exact hpa) hrel hdep' (nj C)
      | overflow => rw [hx] at hex; simp at hex
      | stuck => rw [hx] at hex; simp at hex
      | timeout => rw [hx] at hex; simp at hex
    | lit n => simp [Allowed, IsCall] at hal
    | tt => simp [Allowed, IsCall] at hal
    | ff => simp [Allowed, IsCall] at hal
    | var x => simp [Allowed, IsCall] at hal
    | paren e => simp [Allowed, IsCall] at hal
    | neg e => simp [Allowed, IsCall] at hal
    | not e => simp [Allowed, IsCall] at hal
    | bin op a b => simp [Allowed, IsCall] at hal
  | ite c thn k els =>
    simp only [Allowed] at hal
    simp only [exec] at hex
    have hrelP : VarsRel cx (ifSt0 st).scopes env.push σ.locals σ.args := varsRel_push hrel
    have hwfC : Wf { ifSt0 st with nl := (ifCond cx c st).2 } := wf_nl (wf_push (wf_nl hwf _)) _
    have hwf1 : Wf (ifSt1 cx lp c thn st) := by
      have := compS_wf cx (.block thn) lp _ hwfC
      rwa [compS_block] at this
    have hnl1 : (ifSt1 cx lp c thn st).nextLabel = none :=
      compS_noLabel cx thn lp (ifStT cx c st) (allowed_labelsOK thn ls hal.1) (Or.inl hinv.noLabel)
    have hd1S : Deep lp (ifSt1 cx lp c thn st).scopes.length := by rw [ifSt1_scopes]; exact hdS
    cases k with
    | none =>
      rw [compS_ite_none] at hp hcnt
      simp only at hp hcnt
      have hpc : Placed C σ.pc (ifCond cx c st).1 := hp.left.left.left
      have hpl : Placed C (σ.pc + (ifCond cx c st).1.length) [Item.lbl st.nl] := hp.left.left.right
      have hpt : Placed C (σ.pc + (ifCond cx c st).1.length + 1) (compS cx lp thn (ifStT cx c st)).1 :=
        hp.left.right.cast (by simp [Nat.add_assoc])
      have hpe : Placed C (σ.pc + (ifCond cx c st).1.length + 1 + (compS cx lp thn (ifStT cx c st)).1.length)
          [Item.lbl (st.nl + 1), Item.lbl (st.nl + 2)] := hp.right.cast (by simp [Nat.add_assoc]; omega)
      have hlElse := hpe.label hn
      cases hcv : evalE fuel P env.push c with
      | ok cv =>
        rw [hcv] at hex
        have hpost := (okE (ifSt0 st).scopes env.push) c (.jump false (st.nl + 1)) (ifSt0 st).nl σ cv hcv hpc hrelP hdep'
        simp only [Post] at hpost
        have hjmp := hpost _ hlElse
        cases cv with
        | bool b =>
          cases b with
          | true =>
            simp only at hex
            simp only [Val.toBool, Bool.true_eq_false, beq_iff_eq, if_false] at hjmp
            have h1 := skip_lbl (σ := { σ with pc := σ.pc + (ifCond cx c st).1.length }) hpl
            cases hb : exec fuel P env.push (.block thn) with
            | panic =>
              refine Faults.of_reach (hjmp.trans h1) ?_
              exact ih (.block thn) lp ls { ifSt0 st with nl := (ifCond cx c st).2 } env.push
                { σ with pc := σ.pc + (ifCond cx c st).1.length + 1 } hal.1 (hinv.to hinv.noLabel rfl) (Or.inl hdS) hb
                (by rw [compS_block]; exact hpt) hrelP hwfC
                (by rw [compS_block]; show (compS cx lp thn (ifStT cx c st)).2.pop.cnt ≤ _; simpa [ifSt1] using hcnt) hdep'
            | ok ob => rw [hb] at hex; cases ob <;> simp at hex
            | overflow => rw [hb] at hex; simp at hex
            | stuck => rw [hb] at hex; simp at hex
            | timeout => rw [hb] at hex; simp at hex
          | false => simp at hex
        | int n => simp at hex
        | null => simp at hex
      | panic =>
        exact (ihE (ifSt0 st).scopes env.push) c (.jump false (st.nl + 1)) (ifSt0 st).nl σ hcv hpc hrelP hdep'
          (by intro c' t' h; cases h; exact ⟨_, hlElse⟩)
      | overflow => rw [hcv] at hex; simp at hex
      | stuck => rw [hcv] at hex; simp at hex
      | timeout => rw [hcv] at hex; simp at hex
    | block =>
      rw [compS_ite_block] at hp hcnt
      simp only at hp hcnt
      have hcntE : (ifSt1 cx lp c thn st).cnt ≤ ((compS cx lp els (ifSt1 cx lp c thn st).push).2.pop.pop).cnt := by
        have := (compS_mono cx els lp ((ifSt1 cx lp c thn st).push) (by simp [ifSt1_scopes])).1
        simpa using this
      have hpc : Placed C σ.pc (ifCond cx c st).1 := hp.left.left.left.left.left
      have hpl : Placed C (σ.pc + (ifCond cx c st).1.length) [Item.lbl st.nl] := hp.left.left.left.left.right
      have hpt : Placed C (σ.pc + (ifCond cx c st).1.length + 1) (compS cx lp thn (ifStT cx c st)).1 :=
        hp.left.left.left.right.cast (by simp [Nat.add_assoc])
      have hpj : Placed C (σ.pc + (ifCond cx c st).1.length + 1 + (compS cx lp thn (ifStT cx c st)).1.length)
          [Item.ins (.jmp (st.nl + 2)), Item.lbl (st.nl + 1)] := hp.left.left.right.cast (by simp [Nat.add_assoc]; omega)
      have hpe : Placed C (σ.pc + (ifCond cx c st).1.length + 1 + (compS cx lp thn (ifStT cx c st)).1.length + 1 + 1)
          (compS cx lp els ((ifSt1 cx lp c thn st).push)).1 := hp.left.right.cast (by simp [Nat.add_assoc]; omega)
      have hlElse := hpj.tail.label hn
      cases hcv : evalE fuel P env.push c with
      | ok cv =>
        rw [hcv] at hex
        have hpost := (okE (ifSt0 st).scopes env.push) c (.jump false (st.nl + 1)) (ifSt0 st).nl σ cv hcv hpc hrelP hdep'
        simp only [Post] at hpost
        have hjmp := hpost _ hlElse
        cases cv with
        | bool b =>
          cases b with
          | true =>
            simp only at hex
            simp only [Val.toBool, Bool.true_eq_false, beq_iff_eq, if_false] at hjmp
            have h1 := skip_lbl (σ := { σ with pc := σ.pc + (ifCond cx c st).1.length }) hpl
            cases hb : exec fuel P env.push (.block thn) with
            | panic =>
              refine Faults.of_reach (hjmp.trans h1) ?_
              exact ih (.block thn) lp ls { ifSt0 st with nl := (ifCond cx c st).2 } env.push
                { σ with pc := σ.pc + (ifCond cx c st).1.length + 1 } hal.1 (hinv.to hinv.noLabel rfl) (Or.inl hdS) hb
                (by rw [compS_block]; exact hpt) hrelP hwfC
                (by rw [compS_block]; show (compS cx lp thn (ifStT cx c st)).2.pop.cnt ≤ _
                    exact Nat.le_trans hcntE (by simpa using hcnt)) hdep'
            | ok ob => rw [hb] at hex; cases ob <;> simp at hex
            | overflow => rw [hb] at hex; simp at hex
            | stuck => rw [hb] at hex; simp at hex
            | timeout => rw [hb] at hex; simp at hex
          | false =>
            simp only at hex
            simp only [Val.toBool, beq_self_eq_true, if_true] at hjmp
            have h1 := skip_lbl (σ := { σ with pc := σ.pc + (ifCond cx c st).1.length + 1 + (compS cx lp thn (ifStT cx c st)).1.length + 1 }) hpj.tail
            have hrelE : VarsRel cx (ifSt1 cx lp c thn st).scopes env.push σ.locals σ.args := by
              rw [ifSt1_scopes]; exact varsRel_push hrel
            cases hb : exec fuel P env.push (.block els) with
            | panic =>
              refine Faults.of_reach (hjmp.trans h1) ?_
              exact ih (.block els) lp ls (ifSt1 cx lp c thn st) env.push
                { σ with pc := σ.pc + (ifCond cx c st).1.length + 1 + (compS cx lp thn (ifStT cx c st)).1.length + 1 + 1 } hal.2 (hinv.to hnl1 rfl) (Or.inl hd1S) hb
                (by rw [compS_block]; exact hpe) hrelE hwf1
                (by rw [compS_block]; show (compS cx lp els (ifSt1 cx lp c thn st).push).2.pop.cnt ≤ _; simpa using hcnt) hdep'
            | ok ob => rw [hb] at hex; cases ob <;> simp at hex
            | overflow => rw [hb] at hex; simp at hex
            | stuck => rw [hb] at hex; simp at hex
            | timeout => rw [hb] at hex; simp at hex
        | int n => simp at hex
        | null => simp at hex
      | panic =>
        exact (ihE (ifSt0 st).scopes env.push) c (.jump false (st.nl + 1)) (ifSt0 st).nl σ hcv hpc hrelP hdep'
          (by intro c' t' h; cases h; exact ⟨_, hlElse⟩)
      | overflow => rw [hcv] at hex; simp at hex
      | stuck => rw [hcv] at hex; simp at hex
      | timeout => rw [hcv] at hex; simp at hex
    | elif =>
      rw [compS_ite_elif] at hp hcnt
      simp only at hp hcnt
      have hcntE : (ifSt1 cx lp c thn st).cnt ≤ ((compS cx lp els (ifSt1 cx lp c thn st)).2.pop).cnt := by
        have := (compS_mono cx els lp (ifSt1 cx lp c thn st) (by simp [ifSt1_scopes])).1
        simpa using this
      have hpc : Placed C σ.pc (ifCond cx c st).1 := hp.left.left.left.left.left
      have hpl : Placed C (σ.pc + (ifCond cx c st).1.length) [Item.lbl st.nl] := hp.left.left.left.left.right
      have hpt : Placed C (σ.pc + (ifCond cx c st).1.length + 1) (compS cx lp thn (ifStT cx c st)).1 :=
        hp.left.left.left.right.cast (by simp [Nat.add_assoc])
      have hpj : Placed C (σ.pc + (ifCond cx c st).1.length + 1 + (compS cx lp thn (ifStT cx c st)).1.length)
          [Item.ins (.jmp (st.nl + 2)), Item.lbl (st.nl + 1)] := hp.left.left.right.cast (by simp [Nat.add_assoc]; omega)
      have hpe : Placed C (σ.pc + (ifCond cx c st).1.length + 1 + (compS cx lp thn (ifStT cx c st)).1.length + 1 + 1)
          (compS cx lp els (ifSt1 cx lp c thn st)).1 := hp.left.right.cast (by simp [Nat.add_assoc]; omega)
      have hlElse := hpj.tail.label hn
      cases hcv : evalE fuel P env.push c with
      | ok cv =>
        rw [hcv] at hex
        have hpost := (okE (ifSt0 st).scopes env.push) c (.jump false (st.nl + 1)) (ifSt0 st).nl σ cv hcv hpc hrelP hdep'
        simp only [Post] at hpost
        have hjmp := hpost _ hlElse
        cases cv with
        | bool b =>
          cases b with
          | true =>
            simp only at hex
            simp only [Val.toBool, Bool.true_eq_false, beq_iff_eq, if_false] at hjmp
            have h1 := skip_lbl (σ := { σ with pc := σ.pc + (ifCond cx c st).1.length }) hpl
            cases hb : exec fuel P env.push (.block thn) with
            | panic =>
              refine Faults.of_reach (hjmp.trans h1) ?_
              exact ih (.block thn) lp ls { ifSt0 st with nl := (ifCond cx c st).2 } env.push
                { σ with pc := σ.pc + (ifCond cx c st).1.length + 1 } hal.1 (hinv.to hinv.noLabel rfl) (Or.inl hdS) hb
                (by rw [compS_block]; exact hpt) hrelP hwfC
                (by rw [compS_block]; show (compS cx lp thn (ifStT cx c st)).2.pop.cnt ≤ _
                    exact Nat.le_trans hcntE (by simpa using hcnt)) hdep'
            | ok ob => rw [hb] at hex; cases ob <;> simp at hex
            | overflow => rw [hb] at hex; simp at hex
            | stuck => rw [hb] at hex; simp at hex
            | timeout => rw [hb] at hex; simp at hex
          | false =>
            simp only at hex
            simp only [Val.toBool, beq_self_eq_true, if_true] at hjmp
            have h1 := skip_lbl (σ := { σ with pc := σ.pc + (ifCond cx c st).1.length + 1 + (compS cx lp thn (ifStT cx c st)).1.length + 1 }) hpj.tail
            have hrelE : VarsRel cx (ifSt1 cx lp c thn st).scopes env.push σ.locals σ.args := by
              rw [ifSt1_scopes]; exact varsRel_push hrel
            cases hb : exec fuel P env.push els with
            | panic =>
              refine Faults.of_reach (hjmp.trans h1) ?_
              exact ih els lp ls (ifSt1 cx lp c thn st) env.push
                { σ with pc := σ.pc + (ifCond cx c st).1.length + 1 + (compS cx lp thn (ifStT cx c st)).1.length + 1 + 1 } hal.2 (hinv.to hnl1 rfl) (Or.inl hd1S) hb
                hpe hrelE hwf1 (by simpa using hcnt) hdep'
            | ok ob => rw [hb] at hex; cases ob <;> simp at hex
            | overflow => rw [hb] at hex; simp at hex
            | stuck => rw [hb] at hex; simp at hex
            | timeout => rw [hb] at hex; simp at hex
        | int n => simp at hex
        | null => simp at hex
      | panic =>
        exact (ihE (ifSt0 st).scopes env.push) c (.jump false (st.nl + 1)) (ifSt0 st).nl σ hcv hpc hrelP hdep'
          (by intro c' t' h; cases h; exact ⟨_, hlElse⟩)
      | overflow => rw [hcv] at hex; simp at hex
      | stuck => rw [hcv] at hex; simp at hex
      | timeout => rw [hcv] at hex; simp at hex
  | loop init cond post body =>
    simp only [Allowed] at hal
    simp only [exec] at hex
    have hnl := hinv.noLabel
    exact ihL init cond post body lp ls st env σ hal.1 hal.2.1 (by rw [hnl]; exact hal.2.2) hinv.sig hinv.stk hinv.few hdI
      (by rw [hnl]; exact hex) hp hrel hwf hcnt hdep'
  | labeled l s =>
    cases s with
    | loop init cond post body =>
      have hal' : Allowed ls init ∧ NoDecl post ∧ Allowed ((some l, true) :: ls) body := by simpa only [Allowed] using hal
      simp only [exec] at hex
      rw [compS_labeled] at hp hcnt
      exact ihL init cond post body lp ls { st with nextLabel := some l } env σ hal'.1 hal'.2.1 hal'.2.2 hinv.sig hinv.stk hinv.few hdI
        hex hp hrel (wf_mono hwf rfl (Nat.le_refl _)) hcnt hdep'
    | switchS tag ti cl =>
      have hal' : swCount ls < 3 ∧ AllowedCl ((some l, false) :: ls) cl := by simpa only [Allowed] using hal
      simp only [exec] at hex
      rw [compS_labeled] at hp hcnt
      exact ihSw tag ti cl lp ls { st with nextLabel := some l } env σ hal'.1 hal'.2 hinv.sig hinv.stk hdI
        hex hp hrel (wf_mono hwf rfl (Nat.le_refl _)) hcnt hdep'
    | skip => simp [Allowed] at hal
    | seq a b => simp [Allowed] at hal
    | define x e => simp [Allowed] at hal
    | assign x e => simp [Allowed] at hal
    | opAssign x op e => simp [Allowed] at hal
    | inc x => simp [Allowed] at hal
    | dec x => simp [Allowed] at hal
    | varDecl x b i => simp [Allowed] at hal
    | exprStmt e => simp [Allowed] at hal
    | discard e => simp [Allowed] at hal
    | panicS e => simp [Allowed] at hal
    | ite c t k e => simp [Allowed] at hal
    | ret e => simp [Allowed] at hal
    | ret2 e1 e2 => simp [Allowed] at hal
    | define2 x y e => simp [Allowed] at hal
    | brk => simp [Allowed] at hal
    | cont => simp [Allowed] at hal
    | block b => simp [Allowed] at hal
    | labeled l' s' => simp [Allowed] at hal
    | brkL l' => simp [Allowed] at hal
    | contL l' => simp [Allowed] at hal
    | caseS e1 e2 b ft r => simp [Allowed] at hal
    | defaultS b => simp [Allowed] at hal
  | brkL l => simp [exec] at hex
  | contL l => simp [exec] at hex
  | switchS tag ti cl =>
    simp only [Allowed] at hal
    simp only [exec] at hex
    have hnl := hinv.noLabel
    exact ihSw tag ti cl lp ls st env σ hal.1 (by rw [hnl]; exact hal.2) hinv.sig hinv.stk hdI
      (by rw [hnl]; exact hex) hp hrel hwf hcnt hdep'
  | caseS e1 e2 body ft rest => simp [exec] at hex
  | defaultS body => simp [exec] at hex

end NeoModel.CompileProofs

namespace NeoModel.CompileProofs
open NeoModel.MiniVm NeoModel.MiniVm.Asm NeoModel.MiniGo NeoModel.Compile

theorem iterFault_zero (P : Prog) (C : Code) (cx : Ctx) : IterFault P C cx 0 := by
  intro init cond post body lp ls st env σ pc0 _ _ _ _ _ _ _ hit
  simp [iter] at hit

set_option maxHeartbeats 1000000 in
theorem iterFault_succ (P : Prog) (C : Code) (cx : Ctx) (fuel : Nat)
    (hn : (labelsOf C).Nodup)
    (ihE : ∀ sc env, ExprFault P C cx sc env fuel) (okE : ∀ sc env, ExprFOK P C cx sc env fuel)
    (ih : StmtFault P C cx fuel) (ok : StmtFOK P C cx fuel) (ihI : IterFault P C cx fuel) :
    IterFault P C cx (fuel + 1) := by
  intro init cond post body lp ls st env σ pc0 halb hnd hls hstk hfew hdeep hnl1 hit hp hpc hrel hwf hcnt hdep
  have hdep' : σ.frames.length + fuel < 1024 := by omega
  have hp' := hp
  have hcnt' := hcnt
  rw [compS_loop] at hp' hcnt'
  simp only at hp' hcnt'
  generalize hci : (compS cx lp init (forSt0 st)).1 = ci at hp' hpc
  generalize hcc : (forCond cx lp init cond st).1 = cc at hp'
  generalize hcb : (compS cx (forEnt st :: lp) body (forStB cx lp init cond st)).1 = cb at hp'
  generalize hcp : (compS cx lp post (forSt3 cx lp init cond body st)).1 = cp at hp'
  have hP0 : Placed C (pc0 + ci.length) [Item.lbl st.nl] := hp'.left.left.left.left.left.right
  have hPc : Placed C (pc0 + ci.length + 1) cc := hp'.left.left.left.left.right.cast (by simp [Nat.add_assoc] <;> omega)
  have hPb : Placed C (pc0 + ci.length + 1 + cc.length) cb := hp'.left.left.left.right.cast (by simp [Nat.add_assoc] <;> omega)
  have hPp : Placed C (pc0 + ci.length + 1 + cc.length + cb.length) [Item.lbl (st.nl + 2)] :=
    hp'.left.left.right.cast (by simp [Nat.add_assoc] <;> omega)
  have hPq : Placed C (pc0 + ci.length + 1 + cc.length + cb.length + 1) cp := hp'.left.right.cast (by simp [Nat.add_assoc] <;> omega)
  have hPj : Placed C (pc0 + ci.length + 1 + cc.length + cb.length + 1 + cp.length) [Item.ins (.jmp st.nl), Item.lbl (st.nl + 1)] :=
    hp'.right.cast (by simp [Nat.add_assoc] <;> omega)
  have hLstart : findLabel C st.nl = some (pc0 + ci.length) := hP0.label hn
  have hLpost : findLabel C (st.nl + 2) = some (pc0 + ci.length + 1 + cc.length + cb.length) := hPp.label hn
  have hLend : findLabel C (st.nl + 1) = some (pc0 + ci.length + 1 + cc.length + cb.length + 1 + cp.length + 1) := hPj.tail.label hn
  have hwf1 : Wf (forSt1 cx lp init st) :=
    compS_wf cx init lp _ (wf_push (wf_mono (st' := { st with nl := st.nl + 3, nextLabel := none }) hwf rfl (Nat.le_refl _)))
  have hne1 : (forSt1 cx lp init st).scopes ≠ [] := hwf1.nonempty
  have hc1 : (forSt1 cx lp init st).cnt ≤ (forSt3 cx lp init cond body st).cnt := by
    have := (compS_mono cx body (forEnt st :: lp) (forStB cx lp init cond st) (by simp)).1
    simpa [forSt3] using this
  have hc3 : (forSt3 cx lp init cond body st).cnt ≤ σ.locals.length := by
    have := (compS_mono cx post lp (forSt3 cx lp init cond body st) (by rw [forSt3_scopes]; exact hne1)).1
    simp only [pop_cnt] at hcnt'
    omega
  have hwf3 : Wf (forSt3 cx lp init cond body st) := by
    have := compS_wf cx (.block body) (forEnt st :: lp) { forSt1 cx lp init st with nl := (forCond cx lp init cond st).2 } (wf_nl hwf1 _)
    rwa [compS_block] at this
  -- the body and what follows it, from the state where the body starts
  have hl1 : (forSt1 cx lp init st).scopes.length = st.scopes.length + 1 := by
    have := (compS_mono cx init lp (forSt0 st) (by simp)).2
    simpa [forSt1] using this
  have hsigB : sigOf (forEnt st :: lp) = (st.nextLabel, true) :: ls := by simp [sigOf, forEnt, ← hls]
  have hszB : totalSz (forEnt st :: lp) = totalSz lp := by simp [totalSz, forEnt, LEntry.sz]
  have hdeepB : Deepish (forEnt st :: lp) (forSt1 cx lp init st).scopes.length := by
    intro e he
    rcases List.mem_cons.mp he with rfl | he
    · rw [hl1]; exact Nat.le_refl _
    · rw [hl1]; exact Nat.le_succ_of_le (hdeep e he)
  have hgo : ∀ τ : State, τ.pc = pc0 + ci.length + 1 + cc.length → Same σ τ → VarsRel cx (forSt1 cx lp init st).scopes env τ.locals τ.args →
      (match exec fuel P env (.block body) with
        | .ok (.norm e1) => (match exec fuel P e1 post with
          | .ok (.norm e2) => iter fuel P e2 st.nextLabel cond post body
          | .ok _ => .stuck
          | r => r)
        | .ok (.cont l e1) => if mine l st.nextLabel then (match exec fuel P e1 post with
            | .ok (.norm e2) => iter fuel P e2 st.nextLabel cond post body
            | .ok _ => .stuck
            | r => r) else .ok (.cont l e1)
        | .ok (.brk l e1) => if mine l st.nextLabel then .ok (.norm e1) else .ok (.brk l e1)
        | r => r) = .panic → Faults C τ := by
    intro τ hτ hsτ hrelτ hgoeq
    have hdτ : τ.frames.length + fuel < 1024 := by rw [hsτ.frames]; exact hdep'
    have hplB : Placed C τ.pc (compS cx (forEnt st :: lp) (.block body)
        { forSt1 cx lp init st with nl := (forCond cx lp init cond st).2 }).1 := by
      rw [compS_block, hτ]; show Placed C _ (compS cx (forEnt st :: lp) body (forStB cx lp init cond st)).1
      rw [hcb]; exact hPb
    have hcntB : (compS cx (forEnt st :: lp) (.block body)
        { forSt1 cx lp init st with nl := (forCond cx lp init cond st).2 }).2.cnt ≤ τ.locals.length := by
      rw [compS_block, hsτ.len]; exact hc3
    cases hb : exec fuel P env (.block body) with
    | ok ob =>
      rw [hb] at hgoeq
      have hinvB : Inv (forEnt st :: lp) ((st.nextLabel, true) :: ls) { forSt1 cx lp init st with nl := (forCond cx lp init cond st).2 } τ :=
        ⟨hsigB, hnl1, by rw [hszB, hsτ.stack]; exact hstk, by rw [hszB]; exact hfew⟩
      have hpostB := ok (.block body) (forEnt st :: lp) ((st.nextLabel, true) :: ls)
        { forSt1 cx lp init st with nl := (forCond cx lp init cond st).2 } env τ ob
        (by simpa [Allowed] using halb) hinvB (Or.inr ⟨⟨body, rfl⟩, hdeepB⟩) hb hplB hrelτ (wf_nl hwf1 _) hcntB hdτ
      rw [compS_block] at hpostB
      have hbl : (compS cx (forEnt st :: lp) body ({ forSt1 cx lp init st with nl := (forCond cx lp init cond st).2 } : St).push).1 = cb := hcb
      have hafter : ∀ (e1 : Env) (σ2 : State), Reach C τ σ2 → σ2.pc = pc0 + ci.length + 1 + cc.length + cb.length → Same τ σ2 →
          VarsRel cx (forSt1 cx lp init st).scopes e1 σ2.locals σ2.args →
          (match exec fuel P e1 post with
            | .ok (.norm e2) => iter fuel P e2 st.nextLabel cond post body
            | .ok _ => .stuck
            | r => r) = .panic → Faults C τ := by
        intro e1 σ2 hr2 hpc2 hs2 hrel2 heq
        have hl := skip_lbl (σ := σ2) (hpc2 ▸ hPp)
        have hrel2' : VarsRel cx (forSt3 cx lp init cond body st).scopes e1 σ2.locals σ2.args := by
          rw [forSt3_scopes]; exact hrel2
        have hplP : Placed C ({ σ2 with pc := σ2.pc + 1 } : State).pc (compS cx lp post (forSt3 cx lp init cond body st)).1 := by
          rw [hcp]; exact hPq.cast (by simp [hpc2])
        have hcntP : (compS cx lp post (forSt3 cx lp init cond body st)).2.cnt ≤ ({ σ2 with pc := σ2.pc + 1 } : State).locals.length := by
          have := (noDecl_state (cx := cx) (lp := lp) hnd (forSt3 cx lp init cond body st)).2
          rw [this]; show _ ≤ σ2.locals.length; rw [hs2.len, hsτ.len]; exact hc3
        have hdP : ({ σ2 with pc := σ2.pc + 1 } : State).frames.length + fuel < 1024 := by
          show σ2.frames.length + fuel < 1024; rw [hs2.frames]; exact hdτ
        have hnl3 : (forSt3 cx lp init cond body st).nextLabel = none :=
          compS_noLabel cx body (forEnt st :: lp) (forStB cx lp init cond st) (allowed_labelsOK body _ halb) (Or.inl hnl1)
        have hinvP : Inv lp ls (forSt3 cx lp init cond body st) { σ2 with pc := σ2.pc + 1 } :=
          ⟨hls, hnl3, by show totalSz lp ≤ σ2.stack.length; rw [hs2.stack, hsτ.stack]; exact hstk, hfew⟩
        have hdP' : Deep lp (forSt3 cx lp init cond body st).scopes.length := by rw [forSt3_scopes, hl1]; exact Deepish.succ hdeep
        cases hpo : exec fuel P e1 post with
        | ok op =>
          rw [hpo] at heq
          have hpostP := ok post lp ls (forSt3 cx lp init cond body st) e1 { σ2 with pc := σ2.pc + 1 } op
            (noDecl_allowed hnd ls) hinvP (Or.inl hdP') hpo hplP hrel2' hwf3 hcntP hdP
          cases op with
          | norm e2 =>
            simp only at heq
            obtain ⟨σ3, hr3, hpc3, hs3, hrel3⟩ := hpostP
            rw [(noDecl_state hnd _).1, forSt3_scopes] at hrel3
            have hpc3' : σ3.pc = pc0 + ci.length + 1 + cc.length + cb.length + 1 + cp.length := by
              rw [hpc3, hcp]; simp [hpc2]
            have hj := step_jmp (s := σ3) (hpc3' ▸ hPj.head) hLstart
            have hs23 : Same σ2 σ3 := ⟨hs3.stack, hs3.frames, hs3.inited, hs3.len⟩
            have hsσ4 : Same σ { σ3 with pc := pc0 + ci.length } :=
              ⟨by show σ3.stack = σ.stack; rw [hs23.stack, hs2.stack, hsτ.stack],
               by show σ3.frames = σ.frames; rw [hs23.frames, hs2.frames, hsτ.frames],
               by show σ3.inited = σ.inited; rw [hs23.inited, hs2.inited, hsτ.inited],
               by show σ3.locals.length = σ.locals.length; rw [hs23.len, hs2.len, hsτ.len]⟩
            have hrest := ihI init cond post body lp ls st e2 { σ3 with pc := pc0 + ci.length } pc0 halb hnd hls
              (by show totalSz lp ≤ σ3.stack.length; rw [hsσ4.stack]; exact hstk) hfew hdeep hnl1 heq hp
              (by simp [hci]) hrel3 hwf (by show _ ≤ σ3.locals.length; rw [hsσ4.len]; exact hcnt)
              (by show σ3.frames.length + fuel < 1024; rw [hsσ4.frames]; exact hdep')
            exact Faults.of_reach (hr2.trans (hl.trans (hr3.trans (Reach.step hj)))) hrest
          | ret v => simp at heq
          | brk l e => simp at heq
          | cont l e => simp at heq
        | panic =>
          refine Faults.of_reach (hr2.trans hl) ?_
          exact ih post lp ls (forSt3 cx lp init cond body st) e1 { σ2 with pc := σ2.pc + 1 }
            (noDecl_allowed hnd ls) hinvP (Or.inl hdP') hpo hplP hrel2' hwf3 hcntP hdP
        | overflow => rw [hpo] at heq; simp at heq
        | stuck => rw [hpo] at heq; simp at heq
        | timeout => rw [hpo] at heq; simp at heq
      cases ob with
      | norm e1 =>
        simp only at hgoeq
        obtain ⟨σ2, hr2, hpc2, hs2, hrel2⟩ := hpostB
        rw [hbl] at hpc2
        change VarsRel cx (forSt3 cx lp init cond body st).scopes e1 _ _ at hrel2
        rw [forSt3_scopes] at hrel2
        exact hafter e1 σ2 hr2 (by rw [hpc2, hτ]) hs2 hrel2 hgoeq
      | cont l e1 =>
        simp only at hgoeq
        obtain ⟨dr, en, hfc, hfor, hh⟩ := hpostB
        rw [findCont_cons l (forEnt st) lp 0 rfl] at hfc
        have hname : (forEnt st).name = st.nextLabel := rfl
        rw [hname] at hfc
        by_cases hm : mine l st.nextLabel = true
        · rw [if_pos hm] at hgoeq hfc
          cases hfc
          obtain ⟨σ2, hr2, hpc2, hs2, hrel2⟩ := hh _ hLpost
          have hrel2' : VarsRel cx (forSt1 cx lp init st).scopes e1 σ2.locals σ2.args := by
            have : (forSt1 cx lp init st).scopes.length - (forEnt st).scLen = 0 := by rw [hl1]; simp [forEnt]
            simpa [this, dropEnv] using hrel2
          exact hafter e1 σ2 hr2 hpc2 ⟨by simpa using hs2.stack, hs2.frames, hs2.inited, hs2.len⟩ hrel2' hgoeq
        · rw [if_neg hm] at hgoeq
          cases hgoeq
      | brk l e1 =>
        simp only at hgoeq
        by_cases hm : mine l st.nextLabel = true
        · rw [if_pos hm] at hgoeq; cases hgoeq
        · rw [if_neg hm] at hgoeq; cases hgoeq
      | ret v => simp at hgoeq
    | panic =>
      exact ih (.block body) (forEnt st :: lp) ((st.nextLabel, true) :: ls)
        { forSt1 cx lp init st with nl := (forCond cx lp init cond st).2 } env τ
        (by simpa [Allowed] using halb)
        ⟨hsigB, hnl1, by rw [hszB, hsτ.stack]; exact hstk, by rw [hszB]; exact hfew⟩ (Or.inr ⟨⟨body, rfl⟩, hdeepB⟩)
        hb hplB hrelτ (wf_nl hwf1 _) hcntB hdτ
    | overflow => rw [hb] at hgoeq; simp at hgoeq
    | stuck => rw [hb] at hgoeq; simp at hgoeq
    | timeout => rw [hb] at hgoeq; simp at hgoeq
  -- the loop head mark, then the condition
  have h0 := skip_lbl (σ := σ) (hpc ▸ hP0)
  simp only [iter] at hit
  cases cond with
  | none =>
    simp only at hit
    have hccn : cc = [] := by rw [← hcc]; rfl
    subst hccn
    have hτ : ({ σ with pc := σ.pc + 1 } : State).pc = pc0 + ci.length + 1 + ([] : Code).length := by simp [hpc]
    exact Faults.of_reach h0 (hgo { σ with pc := σ.pc + 1 } hτ ⟨rfl, rfl, rfl, rfl⟩ hrel hit)
  | some c =>
    simp only at hit
    have hccs : cc = (compE cx (forSt1 cx lp init st).scopes c .val (forSt1 cx lp init st).nl).1 ++ [Item.ins (.jmpIfNot (st.nl + 1))] := by
      rw [← hcc]; rfl
    have hPc' : Placed C (pc0 + ci.length + 1) ((compE cx (forSt1 cx lp init st).scopes c .val (forSt1 cx lp init st).nl).1 ++ [Item.ins (.jmpIfNot (st.nl + 1))]) := by
      rw [← hccs]; exact hPc
    have hplC : Placed C ({ σ with pc := σ.pc + 1 } : State).pc (compE cx (forSt1 cx lp init st).scopes c .val (forSt1 cx lp init st).nl).1 := by
      show Placed C (σ.pc + 1) _; rw [hpc]; exact hPc'.left
    cases hcv : evalE fuel P env c with
    | ok cv =>
      rw [hcv] at hit
      have hre := (okE (forSt1 cx lp init st).scopes env) c .val (forSt1 cx lp init st).nl { σ with pc := σ.pc + 1 } cv hcv hplC hrel hdep'
      simp only [Post] at hre
      have hjf : C[σ.pc + 1 + (compE cx (forSt1 cx lp init st).scopes c .val (forSt1 cx lp init st).nl).1.length]? =
          some (Item.ins (.jmpIfNot (st.nl + 1))) := by
        rw [hpc]; exact hPc'.right.head
      generalize hlc : (compE cx (forSt1 cx lp init st).scopes c .val (forSt1 cx lp init st).nl).1.length = lc at hre hjf
      have hj := step_jmpIfNot (s := { σ with pc := σ.pc + 1 + lc, stack := cv :: σ.stack }) (v := cv) (r := σ.stack) hjf hLend rfl
      cases cv with
      | bool b =>
        cases b with
        | true =>
          simp only at hit
          simp only [Val.toBool, if_true] at hj
          have hτ : ({ σ with pc := σ.pc + 1 + lc + 1 } : State).pc
              = pc0 + ci.length + 1 + cc.length := by rw [hccs]; simp [hpc, hlc, Nat.add_assoc]
          refine Faults.of_reach (h0.trans (hre.trans (Reach.step hj))) ?_
          exact hgo _ hτ ⟨rfl, rfl, rfl, rfl⟩ hrel hit
        | false => simp at hit
      | int n => simp at hit
      | null => simp at hit
    | panic =>
      refine Faults.of_reach h0 ?_
      exact (ihE (forSt1 cx lp init st).scopes env) c .val (forSt1 cx lp init st).nl { σ with pc := σ.pc + 1 } hcv hplC hrel hdep' (nj C)
    | overflow => rw [hcv] at hit; simp at hit
    | stuck => rw [hcv] at hit; simp at hit
    | timeout => rw [hcv] at hit; simp at hit

theorem loopFault_zero (P : Prog) (C : Code) (cx : Ctx) : LoopFault P C cx 0 := by
  intro init cond post body lp ls st env σ _ _ _ _ _ _ _ hex
  simp [execLoop] at hex

theorem loopFault_succ (P : Prog) (C : Code) (cx : Ctx) (fuel : Nat)
    (ih : StmtFault P C cx fuel) (ok : StmtFOK P C cx fuel) (ihI : IterFault P C cx fuel) : LoopFault P C cx (fuel + 1) := by
  intro init cond post body lp ls st env σ hali hnd halb hls hstk hfew hdeep hex hp hrel hwf hcnt hdep
  have hdep' : σ.frames.length + fuel < 1024 := by omega
  simp only [execLoop] at hex
  have hp' := hp
  have hcnt' := hcnt
  rw [compS_loop] at hp' hcnt'
  simp only at hp' hcnt'
  have hwf0 : Wf (forSt0 st) := wf_push (wf_mono (st' := { st with nl := st.nl + 3, nextLabel := none }) hwf rfl (Nat.le_refl _))
  have hne1 : (forSt1 cx lp init st).scopes ≠ [] := by
    have := (compS_mono cx init lp (forSt0 st) (by simp)).2
    exact ne_nil_of_length this (by simp)
  have hc1 : (forSt1 cx lp init st).cnt ≤ (forSt3 cx lp init cond body st).cnt := by
    have := (compS_mono cx body (forEnt st :: lp) (forStB cx lp init cond st) (by simp)).1
    simpa [forSt3] using this
  have hc3 : (forSt3 cx lp init cond body st).cnt ≤ (compS cx lp post (forSt3 cx lp init cond body st)).2.cnt :=
    (compS_mono cx post lp _ (by rw [forSt3_scopes]; exact hne1)).1
  have hnl1 : (forSt1 cx lp init st).nextLabel = none :=
    compS_noLabel cx init lp (forSt0 st) (allowed_labelsOK init ls hali) (Or.inl rfl)
  have hpi : Placed C σ.pc (compS cx lp init (forSt0 st)).1 := hp'.left.left.left.left.left.left
  have hcnti : (compS cx lp init (forSt0 st)).2.cnt ≤ σ.locals.length := by
    have : (compS cx lp init (forSt0 st)).2.cnt = (forSt1 cx lp init st).cnt := rfl
    simp only [pop_cnt] at hcnt'
    omega
  cases hi : exec fuel P env.push init with
  | ok oi =>
    rw [hi] at hex
    have hposti := ok init lp ls (forSt0 st) env.push σ oi hali ⟨hls, rfl, hstk, hfew⟩ (Or.inl hdeep.succ) hi hpi
      (varsRel_push hrel) hwf0 hcnti hdep'
    cases oi with
    | norm env1 =>
      simp only at hex
      obtain ⟨σ1, hr1, hpc1, hs1, hrel1⟩ := hposti
      cases hit : iter fuel P env1 st.nextLabel cond post body with
      | panic =>
        refine Faults.of_reach hr1 ?_
        exact ihI init cond post body lp ls st env1 σ1 σ.pc halb hnd hls (by rw [hs1.stack]; exact hstk) hfew hdeep hnl1 hit hp hpc1 hrel1 hwf
          (by rw [hs1.len]; exact hcnt) (by rw [hs1.frames]; exact hdep')
      | ok oo => rw [hit] at hex; cases oo <;> simp at hex
      | overflow => rw [hit] at hex; simp at hex
      | stuck => rw [hit] at hex; simp at hex
      | timeout => rw [hit] at hex; simp at hex
    | ret v => simp at hex
    | brk l e => simp at hex
    | cont l e => simp at hex
  | panic =>
    exact ih init lp ls (forSt0 st) env.push σ hali ⟨hls, rfl, hstk, hfew⟩ (Or.inl hdeep.succ) hi hpi
      (varsRel_push hrel) hwf0 hcnti hdep'
  | overflow => rw [hi] at hex; simp at hex
  | stuck => rw [hi] at hex; simp at hex
  | timeout => rw [hi] at hex; simp at hex

end NeoModel.CompileProofs

namespace NeoModel.CompileProofs
open NeoModel.MiniVm NeoModel.MiniVm.Asm NeoModel.MiniGo NeoModel.Compile

/-! ### `switch` statements that panic -/

theorem eqOp_no_panic (ti : Bool) (x y : Val) : evalBin (eqOp ti) x y ≠ .panic := by
  intro h
  obtain ⟨hop, _⟩ := evalBin_panic h
  cases ti <;> simp [eqOp] at hop

theorem bodyFault_zero (P : Prog) (C : Code) (cx : Ctx) : BodyFault P C cx 0 := by
  intro cl body rest ft lp ls st env σ pc0 ti tv _ _ _ hex
  simp [execBody] at hex

set_option maxHeartbeats 1000000 in
theorem bodyFault_succ (P : Prog) (C : Code) (cx : Ctx) (fuel : Nat) (hn : (labelsOf C).Nodup)
    (ih : StmtFault P C cx fuel) (ok : StmtFOK P C cx fuel) (ihB : BodyFault P C cx fuel) : BodyFault P C cx (fuel + 1) := by
  intro cl body rest ft lp ls st env σ pc0 ti tv hshape hal hsw hex hp hpc hrel hwf hcnt hdep
  have hdep' : σ.frames.length + fuel < 1024 := by omega
  obtain ⟨ent, lp0, hlp, hisSw, heqn, hscl, hLend⟩ := hsw.ent
  have hEndL : csEndL lp = ent.endL := by rw [hlp]; rfl
  simp only [execBody] at hex
  rcases hshape with ⟨e1, e2, rfl⟩ | ⟨rfl, rfl, rfl⟩
  · have hal' : Allowed ls body ∧ AllowedCl ls rest := by simp only [AllowedCl] at hal; exact ⟨hal.1, hal.2.1⟩
    rw [compS_case] at hp hcnt hLend
    simp only [testsLen] at hpc
    simp only at hp hcnt hLend
    rw [hEndL] at hp hLend
    generalize hT : (csTests cx lp e1 e2 st).1 = T at hp hpc hLend
    generalize hcb : (compS cx lp body (csStB cx lp e1 e2 st)).1 = cb at hp hLend
    generalize hcr : (compS cx lp rest (csStR cx lp e1 e2 body st)).1 = cr at hp hLend
    generalize hfall : (if ft then [Item.ins (.jmp (st.sb + 1))] else ([] : Code)) = fall at hp hLend
    have hlen : (T ++ [Item.lbl st.sb] ++ cb ++ fall ++ [Item.ins (.jmp ent.endL), Item.lbl st.nl] ++ cr).length =
        T.length + 1 + cb.length + fall.length + 2 + cr.length := by simp; omega
    rw [hlen] at hLend
    have hPl : Placed C (pc0 + T.length) [Item.lbl st.sb] := hp.left.left.left.left.right
    have hPb : Placed C (pc0 + T.length + 1) cb := hp.left.left.left.right.cast (by simp [Nat.add_assoc])
    have hPf : Placed C (pc0 + T.length + 1 + cb.length) fall := hp.left.left.right.cast (by simp [Nat.add_assoc]; omega)
    have hPr : Placed C (pc0 + T.length + 1 + cb.length + fall.length + 2) cr := hp.right.cast (by simp [Nat.add_assoc]; omega)
    have hRsc : (csStR cx lp e1 e2 body st).scopes = st.scopes := csStR_scopes cx lp e1 e2 body st
    have hmr := compS_mono cx rest lp (csStR cx lp e1 e2 body st) (by rw [hRsc]; exact hwf.nonempty)
    have hcntB : (compS cx lp body (csStB cx lp e1 e2 st)).2.cnt ≤ σ.locals.length := by
      have : (csStR cx lp e1 e2 body st).cnt = (compS cx lp body (csStB cx lp e1 e2 st)).2.cnt := rfl
      omega
    have h0 := skip_lbl (σ := σ) (hpc ▸ hPl)
    have hinvB : Inv lp ls { st with nl := (csTests cx lp e1 e2 st).2 } { σ with pc := σ.pc + 1 } :=
      ⟨hsw.sig, hsw.noLabel, hsw.stk, hsw.few⟩
    have hplB : Placed C ({ σ with pc := σ.pc + 1 } : State).pc (compS cx lp (.block body) { st with nl := (csTests cx lp e1 e2 st).2 }).1 := by
      rw [compS_block]; show Placed C (σ.pc + 1) (compS cx lp body (csStB cx lp e1 e2 st)).1; rw [hcb, hpc]; exact hPb
    cases hb : exec fuel P env (.block body) with
    | panic =>
      exact Faults.of_reach h0 (ih (.block body) lp ls { st with nl := (csTests cx lp e1 e2 st).2 } env { σ with pc := σ.pc + 1 } hal'.1
        hinvB (Or.inr ⟨⟨body, rfl⟩, hsw.deep⟩) hb hplB hrel (wf_nl hwf _) (by rw [compS_block]; exact hcntB) hdep')
    | ok ob =>
      rw [hb] at hex
      have hpostB := ok (.block body) lp ls { st with nl := (csTests cx lp e1 e2 st).2 } env { σ with pc := σ.pc + 1 } ob hal'.1
        hinvB (Or.inr ⟨⟨body, rfl⟩, hsw.deep⟩) hb hplB hrel (wf_nl hwf _) (by rw [compS_block]; exact hcntB) hdep'
      rw [compS_block] at hpostB
      have hscB : ((compS cx lp body ({ st with nl := (csTests cx lp e1 e2 st).2 } : St).push).2.pop).scopes = st.scopes := hRsc
      simp only [hscB] at hpostB
      have hpostB' := post_prefix h0 ⟨rfl, rfl, rfl, rfl⟩ hpostB
      cases ob with
      | norm e1' =>
        simp only at hex
        obtain ⟨σ2, hr2, hpc2, hs2, hrel2⟩ := hpostB'
        have hpc2' : σ2.pc = pc0 + T.length + 1 + cb.length := by
          rw [hpc2]; show σ.pc + 1 + (compS cx lp body (csStB cx lp e1 e2 st)).1.length = _; rw [hcb, hpc]
        cases ft with
        | false => simp at hex
        | true =>
          simp only [if_true] at hex hfall
          subst hfall
          have hnlR : (csStR cx lp e1 e2 body st).nextLabel = none :=
            compS_noLabel cx body lp (csStB cx lp e1 e2 st) (allowed_labelsOK body ls hal'.1) (Or.inl hsw.noLabel)
          have hwfR : Wf (csStR cx lp e1 e2 body st) := by
            have := compS_wf cx (.block body) lp { st with nl := (csTests cx lp e1 e2 st).2 } (wf_nl hwf _)
            rw [compS_block] at this
            exact wf_mono this rfl (Nat.le_refl _)
          have hswR : ∀ τ : State, Same σ τ →
              SwCtx C lp ls (csStR cx lp e1 e2 body st) τ ti tv
                (pc0 + T.length + 1 + cb.length + 1 + 2 + (compS cx lp rest (csStR cx lp e1 e2 body st)).1.length) := by
            intro τ hτ
            obtain ⟨rs, hrs⟩ := hsw.tag
            refine ⟨hsw.sig, ⟨ent, lp0, hlp, hisSw, heqn, by rw [hRsc]; exact hscl, ?_⟩, ⟨rs, by rw [hτ.stack]; exact hrs⟩, hnlR,
              by rw [hτ.stack]; exact hsw.stk, hsw.few, by rw [hRsc]; exact hsw.deep⟩
            rw [hcr]; simpa [Nat.add_assoc] using hLend
          have hrelR : VarsRel cx (csStR cx lp e1 e2 body st).scopes e1' σ2.locals σ2.args := by rw [hRsc]; exact hrel2
          have hcntR : (compS cx lp rest (csStR cx lp e1 e2 body st)).2.cnt ≤ σ2.locals.length := by rw [hs2.len]; exact hcnt
          have hdepR : σ2.frames.length + fuel < 1024 := by rw [hs2.frames]; exact hdep'
          have hPr' : Placed C (pc0 + T.length + 1 + cb.length + 1 + 2) (compS cx lp rest (csStR cx lp e1 e2 body st)).1 := by
            rw [hcr]; simpa using hPr
          cases rest with
          | caseS e1r e2r br fr rr =>
            simp only at hex
            have hPr'' := hPr'
            rw [compS_case] at hPr''
            simp only at hPr''
            have hLn : findLabel C (st.sb + 1) =
                some (pc0 + T.length + 1 + cb.length + 1 + 2 + (csTests cx lp e1r e2r (csStR cx lp e1 e2 body st)).1.length) :=
              (hPr''.left.left.left.left.right).label hn
            have hj := step_jmp (s := σ2) (by rw [hpc2']; simpa using hPf.head) hLn
            have hrec := ihB (.caseS e1r e2r br fr rr) br rr fr lp ls (csStR cx lp e1 e2 body st) e1'
              { σ2 with pc := pc0 + T.length + 1 + cb.length + 1 + 2 + (csTests cx lp e1r e2r (csStR cx lp e1 e2 body st)).1.length }
              (pc0 + T.length + 1 + cb.length + 1 + 2) ti tv (Or.inl ⟨_, _, rfl⟩) hal'.2
              (hswR _ ⟨hs2.stack, hs2.frames, hs2.inited, hs2.len⟩) hex hPr' rfl hrelR hwfR hcntR hdepR
            exact Faults.of_reach (hr2.trans (Reach.step hj)) hrec
          | defaultS br =>
            simp only at hex
            have hPr'' := hPr'
            rw [compS_default] at hPr''
            simp only at hPr''
            have hLn : findLabel C (st.sb + 1) = some (pc0 + T.length + 1 + cb.length + 1 + 2) :=
              (hPr''.left.left).label hn
            have hj := step_jmp (s := σ2) (by rw [hpc2']; simpa using hPf.head) hLn
            have hrec := ihB (.defaultS br) br .skip false lp ls (csStR cx lp e1 e2 body st) e1'
              { σ2 with pc := pc0 + T.length + 1 + cb.length + 1 + 2 }
              (pc0 + T.length + 1 + cb.length + 1 + 2) ti tv (Or.inr ⟨rfl, rfl, rfl⟩) hal'.2
              (hswR _ ⟨hs2.stack, hs2.frames, hs2.inited, hs2.len⟩) hex hPr' (by simp [testsLen]) hrelR hwfR hcntR hdepR
            exact Faults.of_reach (hr2.trans (Reach.step hj)) hrec
          | _ => simp at hex
      | ret v => simp at hex
      | brk l e' => simp at hex
      | cont l e' => simp at hex
    | overflow => rw [hb] at hex; simp at hex
    | stuck => rw [hb] at hex; simp at hex
    | timeout => rw [hb] at hex; simp at hex
  · have hal' : Allowed ls body := by simpa only [AllowedCl] using hal
    rw [compS_default] at hp hcnt
    simp only [testsLen, Nat.add_zero] at hpc
    simp only at hp hcnt
    generalize hcb : (compS cx lp body (dfStB st)).1 = cb at hp
    have hPl : Placed C pc0 [Item.lbl st.sb] := hp.left.left
    have hPb : Placed C (pc0 + 1) cb := hp.left.right.cast (by simp)
    have h0 := skip_lbl (σ := σ) (hpc ▸ hPl)
    cases hb : exec fuel P env (.block body) with
    | panic =>
      exact Faults.of_reach h0 (ih (.block body) lp ls { st with nl := st.nl + 1 } env { σ with pc := σ.pc + 1 } hal'
        ⟨hsw.sig, hsw.noLabel, hsw.stk, hsw.few⟩ (Or.inr ⟨⟨body, rfl⟩, hsw.deep⟩) hb
        (by rw [compS_block]; show Placed C (σ.pc + 1) (compS cx lp body (dfStB st)).1; rw [hcb, hpc]; exact hPb)
        hrel (wf_nl hwf _) (by rw [compS_block]; exact hcnt) hdep')
    | ok ob => rw [hb] at hex; cases ob <;> simp at hex
    | overflow => rw [hb] at hex; simp at hex
    | stuck => rw [hb] at hex; simp at hex
    | timeout => rw [hb] at hex; simp at hex

end NeoModel.CompileProofs

namespace NeoModel.CompileProofs
open NeoModel.MiniVm NeoModel.MiniVm.Asm NeoModel.MiniGo NeoModel.Compile

/-- a case expression that panics: DUP, then the expression FAULTs. -/
theorem case_test_fault {P : Prog} {C : Code} {cx : Ctx} {sc : Scopes} {env : Env} {fuel : Nat} {e : Expr} {nl : Nat} {σ : State}
    {tv : Val} {rs : List Val} {tail : Code}
    (ihE : ExprFault P C cx sc env fuel)
    (hp : Placed C σ.pc ([Item.ins .dup] ++ (compE cx sc e .val nl).1 ++ tail))
    (hs : σ.stack = tv :: rs) (hev : evalE fuel P env e = .panic)
    (hrel : VarsRel cx sc env σ.locals σ.args) (hdep : σ.frames.length + fuel < 1024) : Faults C σ := by
  have h1 := run_data (C := C) (σ := σ) (op := .dup) (stk := tv :: tv :: rs) (loc := σ.locals) (ar := σ.args)
    hp.left.left.head rfl (by simp [stepData, hs])
  exact Faults.of_reach h1 (ihE e .val nl { σ with pc := σ.pc + 1, stack := tv :: tv :: rs } hev (by simpa using hp.left.right) hrel hdep (nj C))

theorem casesFault_zero (P : Prog) (C : Code) (cx : Ctx) : CasesFault P C cx 0 := by
  intro cl lp ls st env σ ti tv _ _ hex
  simp [execCases] at hex

set_option maxHeartbeats 1000000 in
theorem casesFault_succ (P : Prog) (C : Code) (cx : Ctx) (fuel : Nat) (hn : (labelsOf C).Nodup)
    (ihE : ∀ sc env, ExprFault P C cx sc env fuel) (okE : ∀ sc env, ExprFOK P C cx sc env fuel)
    (ihB : BodyFault P C cx fuel) (ihC : CasesFault P C cx fuel) : CasesFault P C cx (fuel + 1) := by
  intro cl lp ls st env σ ti tv hal hsw hex hp hrel hwf hcnt hdep
  have hdep' : σ.frames.length + fuel < 1024 := by omega
  obtain ⟨ent, lp0, hlp, hisSw, heqn, hscl, hLend⟩ := hsw.ent
  obtain ⟨rs, hrs⟩ := hsw.tag
  simp only [execCases] at hex
  cases cl with
  | skip => simp at hex
  | defaultS body =>
    simp only at hex
    exact ihB (.defaultS body) body .skip false lp ls st env σ σ.pc ti tv (Or.inr ⟨rfl, rfl, rfl⟩) hal hsw hex hp
      (by simp [testsLen]) hrel hwf hcnt hdep'
  | caseS e1 e2 body ft rest =>
    have hal' : Allowed ls body ∧ AllowedCl ls rest := by simp only [AllowedCl] at hal; exact ⟨hal.1, hal.2.1⟩
    simp only at hex
    have hp' := hp
    rw [compS_case] at hp'
    simp only at hp'
    have hTlen : (compS cx lp (.caseS e1 e2 body ft rest) st).1.length =
        (csTests cx lp e1 e2 st).1.length + 1 + (compS cx lp body (csStB cx lp e1 e2 st)).1.length +
          (if ft then 1 else 0) + 2 + (compS cx lp rest (csStR cx lp e1 e2 body st)).1.length := by
      rw [compS_case]; cases ft <;> simp [Nat.add_assoc] <;> omega
    have hPT : Placed C σ.pc (csTests cx lp e1 e2 st).1 := hp'.left.left.left.left.left
    have hPl : Placed C (σ.pc + (csTests cx lp e1 e2 st).1.length) [Item.lbl st.sb] := hp'.left.left.left.left.right
    have hLsb : findLabel C st.sb = some (σ.pc + (csTests cx lp e1 e2 st).1.length) := hPl.label hn
    have hPe : Placed C (σ.pc + ((csTests cx lp e1 e2 st).1.length + 1 + (compS cx lp body (csStB cx lp e1 e2 st)).1.length +
        (if ft then 1 else 0)) + 1) [Item.lbl st.nl] := by
      have := hp'.left.right.tail
      refine this.cast ?_
      cases ft <;> simp [Nat.add_assoc] <;> omega
    have hLnl : findLabel C st.nl = some (σ.pc + ((csTests cx lp e1 e2 st).1.length + 1 + (compS cx lp body (csStB cx lp e1 e2 st)).1.length +
        (if ft then 1 else 0)) + 1) := hPe.label hn
    have hPr : Placed C (σ.pc + ((csTests cx lp e1 e2 st).1.length + 1 + (compS cx lp body (csStB cx lp e1 e2 st)).1.length +
        (if ft then 1 else 0)) + 2) (compS cx lp rest (csStR cx lp e1 e2 body st)).1 := by
      refine hp'.right.cast ?_
      cases ft <;> simp [Nat.add_assoc] <;> omega
    have hRsc : (csStR cx lp e1 e2 body st).scopes = st.scopes := csStR_scopes cx lp e1 e2 body st
    have hceq : csEq lp = tokenOp (eqOp ti) := csEq_token hlp heqn
    have hbody : ∀ τ : State, τ.pc = σ.pc + (csTests cx lp e1 e2 st).1.length → Same σ τ → τ.locals = σ.locals → τ.args = σ.args →
        Reach C σ τ → execBody fuel P env body ft rest = .panic → Faults C σ := by
      intro τ hτ hsτ hloc har hrτ hexb
      have hswτ : SwCtx C lp ls st τ ti tv (σ.pc + (compS cx lp (.caseS e1 e2 body ft rest) st).1.length) :=
        ⟨hsw.sig, ⟨ent, lp0, hlp, hisSw, heqn, hscl, hLend⟩, ⟨rs, by rw [hsτ.stack]; exact hrs⟩, hsw.noLabel,
          by rw [hsτ.stack]; exact hsw.stk, hsw.few, hsw.deep⟩
      exact Faults.of_reach hrτ (ihB (.caseS e1 e2 body ft rest) body rest ft lp ls st env τ σ.pc ti tv (Or.inl ⟨_, _, rfl⟩) hal hswτ hexb hp
        (by simp [testsLen, hτ]) (by rw [hloc, har]; exact hrel) hwf (by rw [hsτ.len]; exact hcnt) (by rw [hsτ.frames]; exact hdep'))
    have hnext : ∀ τ : State, τ.pc = σ.pc + ((csTests cx lp e1 e2 st).1.length + 1 + (compS cx lp body (csStB cx lp e1 e2 st)).1.length +
          (if ft then 1 else 0)) + 1 → Same σ τ → τ.locals = σ.locals → τ.args = σ.args →
        Reach C σ τ → execCases fuel P env tv ti rest = .panic → Faults C σ := by
      intro τ hτ hsτ hloc har hrτ hexr
      have hl := skip_lbl (σ := τ) (hτ ▸ hPe)
      have hnlR : (csStR cx lp e1 e2 body st).nextLabel = none :=
        compS_noLabel cx body lp (csStB cx lp e1 e2 st) (allowed_labelsOK body ls hal'.1) (Or.inl hsw.noLabel)
      have hwfR : Wf (csStR cx lp e1 e2 body st) := by
        have := compS_wf cx (.block body) lp { st with nl := (csTests cx lp e1 e2 st).2 } (wf_nl hwf _)
        rw [compS_block] at this
        exact wf_mono this rfl (Nat.le_refl _)
      have hpcEq : τ.pc + 1 + (compS cx lp rest (csStR cx lp e1 e2 body st)).1.length =
          σ.pc + (compS cx lp (.caseS e1 e2 body ft rest) st).1.length := by rw [hτ, hTlen]; omega
      have hswR : SwCtx C lp ls (csStR cx lp e1 e2 body st) { τ with pc := τ.pc + 1 } ti tv
          (τ.pc + 1 + (compS cx lp rest (csStR cx lp e1 e2 body st)).1.length) :=
        ⟨hsw.sig, ⟨ent, lp0, hlp, hisSw, heqn, by rw [hRsc]; exact hscl, by rw [hpcEq]; exact hLend⟩,
          ⟨rs, by show τ.stack = _; rw [hsτ.stack]; exact hrs⟩, hnlR,
          by show _ ≤ τ.stack.length; rw [hsτ.stack]; exact hsw.stk, hsw.few, by rw [hRsc]; exact hsw.deep⟩
      have := ihC rest lp ls (csStR cx lp e1 e2 body st) env { τ with pc := τ.pc + 1 } ti tv hal'.2 hswR hexr
        (by show Placed C (τ.pc + 1) _; rw [hτ]; exact hPr.cast (by omega))
        (by rw [hRsc]; show VarsRel cx st.scopes env τ.locals τ.args; rw [hloc, har]; exact hrel) hwfR
        (by show _ ≤ τ.locals.length; rw [hsτ.len]; rw [compS_case] at hcnt; exact hcnt)
        (by show τ.frames.length + fuel < 1024; rw [hsτ.frames]; exact hdep')
      exact Faults.of_reach (hrτ.trans hl) this
    cases hv1 : evalE fuel P env e1 with
    | panic =>
      cases e2 with
      | none =>
        have hT : (csTests cx lp e1 none st).1 =
            [Item.ins .dup] ++ (compE cx st.scopes e1 .val (st.nl + 1)).1 ++ [.ins (tokenOp (eqOp ti)), .ins (.jmpIfNot st.nl)] := by
          simp [csTests, hceq]
        rw [hT] at hPT
        exact case_test_fault (ihE st.scopes env) hPT hrs hv1 hrel hdep'
      | some e2 =>
        have hT : (csTests cx lp e1 (some e2) st).1 =
            [Item.ins .dup] ++ (compE cx st.scopes e1 .val (st.nl + 1)).1 ++ ([.ins (tokenOp (eqOp ti)), .ins (.jmpIf st.sb)] ++
            ([Item.ins .dup] ++ (compE cx st.scopes e2 .val (compE cx st.scopes e1 .val (st.nl + 1)).2).1 ++ [.ins (tokenOp (eqOp ti)),
              .ins (.jmpIfNot st.nl)])) := by
          simp [csTests, hceq]
        rw [hT] at hPT
        exact case_test_fault (ihE st.scopes env) hPT hrs hv1 hrel hdep'
    | ok v1 =>
      rw [hv1] at hex
      simp only at hex
      cases hb1 : evalBin (eqOp ti) tv v1 with
      | panic => exact absurd hb1 (eqOp_no_panic ti tv v1)
      | ok r1 =>
        rw [hb1] at hex
        cases r1 with
        | bool b1 =>
          cases e2 with
          | none =>
            have hT : (csTests cx lp e1 none st).1 =
                ([Item.ins .dup] ++ (compE cx st.scopes e1 .val (st.nl + 1)).1 ++ [.ins (tokenOp (eqOp ti))]) ++ [.ins (.jmpIfNot st.nl)] := by
              simp [csTests, hceq]
            rw [hT] at hPT
            generalize hl1 : (compE cx st.scopes e1 .val (st.nl + 1)).1.length = l1 at hPT
            have hTl : (csTests cx lp e1 none st).1.length = 1 + l1 + 1 + 1 := by rw [hT]; simp [hl1]; omega
            have htest := case_test (okE st.scopes env) (σ := σ) hPT.left hrs hv1 hb1 hrel hdep'
            rw [hl1] at htest
            have hPj : Placed C (σ.pc + 1 + l1 + 1) [Item.ins (.jmpIfNot st.nl)] := hPT.right.cast (by simp [hl1]; omega)
            have hj := step_jmpIfNot (s := { σ with pc := σ.pc + 1 + l1 + 1, stack := .bool b1 :: tv :: rs }) (v := .bool b1) (r := tv :: rs)
              hPj.head hLnl rfl
            cases b1 with
            | true =>
              simp only at hex
              simp only [Val.toBool, if_true] at hj
              exact hbody { σ with pc := σ.pc + 1 + l1 + 1 + 1, stack := tv :: rs } (by simp [hTl]; omega) ⟨by simp [hrs], rfl, rfl, rfl⟩ rfl rfl
                (htest.trans (Reach.step hj)) hex
            | false =>
              simp only at hex
              simp only [Val.toBool, Bool.false_eq_true, if_false] at hj
              exact hnext { σ with pc := σ.pc + ((csTests cx lp e1 none st).1.length + 1 + (compS cx lp body (csStB cx lp e1 none st)).1.length +
                  (if ft then 1 else 0)) + 1, stack := tv :: rs } rfl ⟨by simp [hrs], rfl, rfl, rfl⟩ rfl rfl (htest.trans (Reach.step hj)) hex
          | some e2 =>
            have hT : (csTests cx lp e1 (some e2) st).1 =
                (([Item.ins .dup] ++ (compE cx st.scopes e1 .val (st.nl + 1)).1 ++ [.ins (tokenOp (eqOp ti))]) ++ [.ins (.jmpIf st.sb)]) ++
                (([Item.ins .dup] ++ (compE cx st.scopes e2 .val (compE cx st.scopes e1 .val (st.nl + 1)).2).1 ++ [.ins (tokenOp (eqOp ti))]) ++
                  [.ins (.jmpIfNot st.nl)]) := by
              simp [csTests, hceq]
            rw [hT] at hPT
            generalize hl1 : (compE cx st.scopes e1 .val (st.nl + 1)).1.length = l1 at hPT
            generalize hl2 : (compE cx st.scopes e2 .val (compE cx st.scopes e1 .val (st.nl + 1)).2).1.length = l2 at hPT
            have hTl : (csTests cx lp e1 (some e2) st).1.length = (1 + l1 + 1 + 1) + (1 + l2 + 1 + 1) := by
              rw [hT]; simp [hl1, hl2]; omega
            have htest := case_test (okE st.scopes env) (σ := σ) hPT.left.left hrs hv1 hb1 hrel hdep'
            rw [hl1] at htest
            have hPj : Placed C (σ.pc + 1 + l1 + 1) [Item.ins (.jmpIf st.sb)] := hPT.left.right.cast (by simp [hl1]; omega)
            have hj := step_jmpIf (s := { σ with pc := σ.pc + 1 + l1 + 1, stack := .bool b1 :: tv :: rs }) (v := .bool b1) (r := tv :: rs)
              hPj.head hLsb rfl
            cases b1 with
            | true =>
              simp only at hex
              simp only [Val.toBool, if_true] at hj
              exact hbody { σ with pc := σ.pc + (csTests cx lp e1 (some e2) st).1.length, stack := tv :: rs } rfl ⟨by simp [hrs], rfl, rfl, rfl⟩ rfl rfl
                (htest.trans (Reach.step hj)) hex
            | false =>
              simp only at hex
              simp only [Val.toBool, Bool.false_eq_true, if_false] at hj
              have hP2 : Placed C (σ.pc + 1 + l1 + 1 + 1)
                  (([Item.ins .dup] ++ (compE cx st.scopes e2 .val (compE cx st.scopes e1 .val (st.nl + 1)).2).1 ++ [.ins (tokenOp (eqOp ti))]) ++
                    [.ins (.jmpIfNot st.nl)]) := hPT.right.cast (by simp [hl1, Nat.add_assoc]; omega)
              cases hv2 : evalE fuel P env e2 with
              | panic =>
                refine Faults.of_reach (htest.trans (Reach.step hj)) ?_
                exact case_test_fault (ihE st.scopes env) (σ := { σ with pc := σ.pc + 1 + l1 + 1 + 1, stack := tv :: rs })
                  (by simpa using hP2) rfl hv2 hrel hdep'
              | ok v2 =>
                rw [hv2] at hex
                simp only at hex
                cases hb2 : evalBin (eqOp ti) tv v2 with
                | panic => exact absurd hb2 (eqOp_no_panic ti tv v2)
                | ok r2 =>
                  rw [hb2] at hex
                  cases r2 with
                  | bool b2 =>
                    have htest2 := case_test (okE st.scopes env)
                      (σ := { σ with pc := σ.pc + 1 + l1 + 1 + 1, stack := tv :: rs }) hP2.left rfl hv2 hb2 hrel hdep'
                    rw [hl2] at htest2
                    have hPj2 : Placed C (σ.pc + 1 + l1 + 1 + 1 + 1 + l2 + 1) [Item.ins (.jmpIfNot st.nl)] :=
                      hP2.right.cast (by simp [hl2]; omega)
                    have hj2 := step_jmpIfNot (s := { σ with pc := σ.pc + 1 + l1 + 1 + 1 + 1 + l2 + 1, stack := .bool b2 :: tv :: rs })
                      (v := .bool b2) (r := tv :: rs) hPj2.head hLnl rfl
                    have hpre := htest.trans ((Reach.step hj).trans (htest2.trans (Reach.step hj2)))
                    cases b2 with
                    | true =>
                      simp only at hex
                      simp only [Val.toBool, if_true] at hj2 hpre
                      exact hbody { σ with pc := σ.pc + 1 + l1 + 1 + 1 + 1 + l2 + 1 + 1, stack := tv :: rs } (by simp [hTl]; omega)
                        ⟨by simp [hrs], rfl, rfl, rfl⟩ rfl rfl hpre hex
                    | false =>
                      simp only at hex
                      simp only [Val.toBool, Bool.false_eq_true, if_false] at hj2 hpre
                      exact hnext { σ with pc := σ.pc + ((csTests cx lp e1 (some e2) st).1.length + 1 + (compS cx lp body (csStB cx lp e1 (some e2) st)).1.length +
                          (if ft then 1 else 0)) + 1, stack := tv :: rs } rfl ⟨by simp [hrs], rfl, rfl, rfl⟩ rfl rfl hpre hex
                  | int n => simp at hex
                  | null => simp at hex
                | overflow => rw [hb2] at hex; simp at hex
                | stuck => rw [hb2] at hex; simp at hex
                | timeout => rw [hb2] at hex; simp at hex
              | overflow => rw [hv2] at hex; simp at hex
              | stuck => rw [hv2] at hex; simp at hex
              | timeout => rw [hv2] at hex; simp at hex
        | int n => simp at hex
        | null => simp at hex
      | overflow => rw [hb1] at hex; simp at hex
      | stuck => rw [hb1] at hex; simp at hex
      | timeout => rw [hb1] at hex; simp at hex
    | overflow => rw [hv1] at hex; simp at hex
    | stuck => rw [hv1] at hex; simp at hex
    | timeout => rw [hv1] at hex; simp at hex
  | _ => simp [AllowedCl] at hal

theorem switchFault_zero (P : Prog) (C : Code) (cx : Ctx) : SwitchFault P C cx 0 := by
  intro tag ti cl lp ls st env σ _ _ _ _ _ hex
  simp [execSwitch] at hex

theorem switchFault_succ (P : Prog) (C : Code) (cx : Ctx) (fuel : Nat) (hn : (labelsOf C).Nodup)
    (ihE : ∀ sc env, ExprFault P C cx sc env fuel) (okE : ∀ sc env, ExprFOK P C cx sc env fuel)
    (ihC : CasesFault P C cx fuel) : SwitchFault P C cx (fuel + 1) := by
  intro tag ti cl lp ls st env σ hsw3 hal hls hstk hdeep hex hp hrel hwf hcnt hdep
  have hdep' : σ.frames.length + fuel < 1024 := by omega
  simp only [execSwitch] at hex
  rw [compS_switch] at hp hcnt
  simp only at hp hcnt
  generalize hT : (swTag cx tag st).1 = T at hp
  generalize hcc : (compS cx (swEnt cx tag ti st :: lp) cl (swSt1 cx tag cl st)).1 = cc at hp
  have hPT : Placed C σ.pc T := hp.left.left
  have hPc : Placed C (σ.pc + T.length) cc := hp.left.right
  have hPe : Placed C (σ.pc + T.length + cc.length) [Item.lbl (swTag cx tag st).2, Item.ins .drop] := hp.right.cast (by simp [Nat.add_assoc])
  have hLend : findLabel C (swTag cx tag st).2 = some (σ.pc + T.length + cc.length) := hPe.label hn
  have hfew : totalSz lp + 1 ≤ 3 := by rw [totalSz_sig, hls]; omega
  have hszE : totalSz (swEnt cx tag ti st :: lp) = totalSz lp + 1 := by simp [totalSz, swEnt, LEntry.sz]; omega
  have hrun : ∀ (tv : Val) (σ1 : State), Reach C σ σ1 → σ1.pc = σ.pc + T.length → σ1.stack = tv :: σ.stack → σ1.frames = σ.frames →
      σ1.locals = σ.locals → σ1.args = σ.args →
      (match execCases fuel P env.push tv ti cl with
        | .ok (.norm e') => .ok (.norm e'.pop)
        | .ok (.brk l e') => if mine l st.nextLabel then .ok (.norm e'.pop) else .ok (.brk l e'.pop)
        | .ok (.cont l e') => .ok (.cont l e'.pop)
        | r => r) = Res.panic → Faults C σ := by
    intro tv σ1 hr1 hpc1 hst1 hfr1 hloc1 har1 heq
    have hswc : SwCtx C (swEnt cx tag ti st :: lp) ((st.nextLabel, false) :: ls) (swSt1 cx tag cl st) σ1 ti tv
        (σ1.pc + (compS cx (swEnt cx tag ti st :: lp) cl (swSt1 cx tag cl st)).1.length) := by
      refine ⟨by simp [sigOf, swEnt, ← hls], ⟨swEnt cx tag ti st, lp, rfl, rfl, rfl, by simp [swEnt], ?_⟩, ⟨σ.stack, hst1⟩, rfl,
        by rw [hszE, hst1]; simp; exact hstk, by rw [hszE]; exact hfew, ?_⟩
      · rw [hcc, hpc1]; exact hLend
      · intro e he
        rcases List.mem_cons.mp he with rfl | he
        · simp [swEnt]
        · simp only [swSt1_scopes, List.length_cons]; exact Nat.le_succ_of_le (hdeep e he)
    cases hc : execCases fuel P env.push tv ti cl with
    | panic =>
      refine Faults.of_reach hr1 ?_
      exact ihC cl (swEnt cx tag ti st :: lp) ((st.nextLabel, false) :: ls) (swSt1 cx tag cl st) env.push σ1 ti tv hal hswc hc
        (by rw [hcc, hpc1]; exact hPc) (by rw [hloc1, har1]; exact varsRel_push hrel) (wf_mono (wf_push hwf) rfl (Nat.le_refl _))
        (by rw [hloc1]; simpa using hcnt) (by rw [hfr1]; exact hdep')
    | ok oc =>
      rw [hc] at heq
      cases oc with
      | norm e' => simp at heq
      | ret v => simp at heq
      | brk l e' => simp only at heq; split at heq <;> cases heq
      | cont l e' => simp at heq
    | overflow => rw [hc] at heq; simp at heq
    | stuck => rw [hc] at heq; simp at heq
    | timeout => rw [hc] at heq; simp at heq
  cases tag with
  | none =>
    simp only at hex
    have hTn : T = [Item.ins .pushT] := by rw [← hT]; rfl
    subst hTn
    have h1 := run_data (C := C) (σ := σ) (op := .pushT) (stk := .bool true :: σ.stack) (loc := σ.locals) (ar := σ.args)
      hPT.head rfl (by simp [stepData])
    exact hrun (.bool true) _ h1 (by simp) rfl rfl rfl rfl hex
  | some e =>
    simp only at hex
    have hTs : T = (compE cx st.push.scopes e .val st.nl).1 := by rw [← hT]; rfl
    cases hv : evalE fuel P env.push e with
    | panic =>
      exact (ihE st.push.scopes env.push) e .val st.nl σ hv (by rw [← hTs]; exact hPT) (varsRel_push hrel) hdep' (nj C)
    | ok tv =>
      rw [hv] at hex
      simp only at hex
      have h1 := (okE st.push.scopes env.push) e .val st.nl σ tv hv (by rw [← hTs]; exact hPT) (varsRel_push hrel) hdep'
      simp only [Post] at h1
      rw [← hTs] at h1
      exact hrun tv _ h1 rfl rfl rfl rfl rfl hex
    | overflow => rw [hv] at hex; simp at hex
    | stuck => rw [hv] at hex; simp at hex
    | timeout => rw [hv] at hex; simp at hex

end NeoModel.CompileProofs

namespace NeoModel.CompileProofs
open NeoModel.MiniVm NeoModel.MiniVm.Asm NeoModel.MiniGo NeoModel.Compile

/-- CALL of a function whose body panics: the callee's frame is pushed, its body FAULTs. -/
theorem call_run_fault {P : Prog} {C : Code} {fuel : Nat} (hpc : ProgCode C P)
    (ihS : ∀ cx : Ctx, cx.funcs = funcTable P → StmtFault P C cx fuel) (hall : ∀ d ∈ P, Allowed [] d.body)
    {f : String} {d : FuncDecl} {vs rest : List Val} {σ : State}
    (hfind : P.find f = some d) (hlen : d.params.length = vs.length)
    (hex : exec fuel P { frames := [[]], args := d.params.zip vs } (.block d.body) = .panic)
    (hs : σ.stack = vs ++ rest) (hf : C[σ.pc]? = some (.ins (.call (fnLabel P f))))
    (hdep : σ.frames.length + (fuel + 1) < 1024) : Faults C σ := by
  obtain ⟨i, hi, hlab, _⟩ := fnLabel_of_find hfind
  obtain ⟨pc0, nl, hp⟩ := hpc.funcs i d hi
  have hmem : d ∈ P := List.mem_of_getElem? hi
  have hcode : (compFunc (funcTable P) d i nl).1 =
      [Item.lbl i, initSlotItem (compS { funcs := funcTable P, args := d.params } [] (.block d.body) { nl := nl, cnt := 0, scopes := [[]] }).2.cnt d.params.length] ++
        (compS { funcs := funcTable P, args := d.params } [] (.block d.body) { nl := nl, cnt := 0, scopes := [[]] }).1 ++
        (if lastIsRet d.body then [] else [Item.ins .ret]) := rfl
  rw [hcode] at hp
  generalize hN : (compS { funcs := funcTable P, args := d.params } [] (.block d.body) { nl := nl, cnt := 0, scopes := [[]] }).2.cnt = N at hp
  have hlbl : findLabel C i = some pc0 := hp.left.left.label hpc.nodup
  rw [hlab] at hf
  have hcall := step_call (s := σ) hf hlbl (by omega)
  have h1 := skip_lbl (σ := State.mk pc0 σ.stack [] [] (MiniVm.Frame.mk (σ.pc + 1) σ.locals σ.args σ.inited :: σ.frames) false) hp.left.left
  obtain ⟨b, h2⟩ := initSlot_stepF (C := C)
    (σ := State.mk (pc0 + 1) σ.stack [] [] (MiniVm.Frame.mk (σ.pc + 1) σ.locals σ.args σ.inited :: σ.frames) false)
    (N := N) (vs := vs) (rest := rest) hlen hp.left.left.tail.head hs rfl rfl rfl
  have hrel : VarsRel { funcs := funcTable P, args := d.params } [[]] { frames := [[]], args := d.params.zip vs } (List.replicate N .null) vs :=
    ⟨by simp [FramesRel, FrameRel], zip_fst _ _ hlen, zip_snd _ _ hlen⟩
  have hwf : Wf { nl := nl, cnt := 0, scopes := [[]] } := ⟨by simp [slotsOf], by simp [slotsOf], by simp⟩
  have hbody := ihS { funcs := funcTable P, args := d.params } rfl (.block d.body) [] [] { nl := nl, cnt := 0, scopes := [[]] } _
    (State.mk (pc0 + 1 + 1) rest (List.replicate N .null) vs (MiniVm.Frame.mk (σ.pc + 1) σ.locals σ.args σ.inited :: σ.frames) b)
    (by simpa [Allowed] using hall d hmem) ⟨rfl, rfl, by simp [totalSz], by simp [totalSz]⟩
    (Or.inr ⟨⟨_, rfl⟩, fun e he => by cases he⟩) hex
    (hp.left.right.cast (by simp)) hrel hwf (by simp [hN]) (by simp; omega)
  exact Faults.of_reach ((Reach.step hcall).trans (h1.trans h2)) hbody

theorem callFault_succ {P : Prog} {C : Code} {fuel : Nat} (hpc : ProgCode C P)
    (ihS : ∀ cx : Ctx, cx.funcs = funcTable P → StmtFault P C cx fuel) (hall : ∀ d ∈ P, Allowed [] d.body) :
    CallFault P C (fuel + 1) := by
  intro f vs σ rest hc hs hf hdep
  simp only [callF] at hc
  cases hfind : P.find f with
  | none => rw [hfind] at hc; simp at hc
  | some d =>
    rw [hfind] at hc
    simp only at hc
    by_cases hlen : d.params.length = vs.length
    · have hne : (d.params.length != vs.length) = false := by simp [hlen]
      simp only [hne, Bool.false_eq_true, if_false] at hc
      cases hex : exec fuel P { frames := [[]], args := d.params.zip vs } (.block d.body) with
      | panic => exact call_run_fault hpc ihS hall hfind hlen hex hs hf hdep
      | ok out =>
        rw [hex] at hc
        cases out with
        | ret r =>
          match r, hc with
          | [v'], hc => simp only at hc; split at hc <;> cases hc
          | [], hc => simp at hc
          | _ :: _ :: _, hc => simp at hc
        | norm e => simp at hc
        | brk l e => simp at hc
        | cont l e => simp at hc
      | overflow => rw [hex] at hc; simp at hc
      | stuck => rw [hex] at hc; simp at hc
      | timeout => rw [hex] at hc; simp at hc
    · have hne : (d.params.length != vs.length) = true := by simpa using hlen
      simp [hne] at hc

theorem callSFault_succ {P : Prog} {C : Code} {fuel : Nat} (hpc : ProgCode C P)
    (ihS : ∀ cx : Ctx, cx.funcs = funcTable P → StmtFault P C cx fuel) (hall : ∀ d ∈ P, Allowed [] d.body) :
    CallSFault P C (fuel + 1) := by
  intro f vs σ rest hc hs hf hdep
  simp only [callS] at hc
  cases hfind : P.find f with
  | none => rw [hfind] at hc; simp at hc
  | some d =>
    rw [hfind] at hc
    simp only at hc
    by_cases hlen : d.params.length = vs.length
    · have hne : (d.params.length != vs.length) = false := by simp [hlen]
      simp only [hne, Bool.false_eq_true, if_false] at hc
      cases hex : exec fuel P { frames := [[]], args := d.params.zip vs } (.block d.body) with
      | panic => exact call_run_fault hpc ihS hall hfind hlen hex hs hf hdep
      | ok out =>
        rw [hex] at hc
        cases out with
        | ret r => simp only at hc; split at hc <;> cases hc
        | norm e => simp only at hc; split at hc <;> cases hc
        | brk l e => simp at hc
        | cont l e => simp at hc
      | overflow => rw [hex] at hc; simp at hc
      | stuck => rw [hex] at hc; simp at hc
      | timeout => rw [hex] at hc; simp at hc
    · have hne : (d.params.length != vs.length) = true := by simpa using hlen
      simp [hne] at hc

theorem call2Fault_succ {P : Prog} {C : Code} {fuel : Nat} (hpc : ProgCode C P)
    (ihS : ∀ cx : Ctx, cx.funcs = funcTable P → StmtFault P C cx fuel) (hall : ∀ d ∈ P, Allowed [] d.body) :
    Call2Fault P C (fuel + 1) := by
  intro f vs σ rest hc hs hf hdep
  simp only [callF2] at hc
  cases hfind : P.find f with
  | none => rw [hfind] at hc; simp at hc
  | some d =>
    rw [hfind] at hc
    simp only at hc
    by_cases hlen : d.params.length = vs.length
    · have hne : (d.params.length != vs.length) = false := by simp [hlen]
      simp only [hne, Bool.false_eq_true, if_false] at hc
      cases hex : exec fuel P { frames := [[]], args := d.params.zip vs } (.block d.body) with
      | panic => exact call_run_fault hpc ihS hall hfind hlen hex hs hf hdep
      | ok out =>
        rw [hex] at hc
        cases out with
        | ret r =>
          match r, hc with
          | [v', w'], hc => simp only at hc; split at hc <;> cases hc
          | [], hc => simp at hc
          | [_], hc => simp at hc
          | _ :: _ :: _ :: _, hc => simp at hc
        | norm e => simp at hc
        | brk l e => simp at hc
        | cont l e => simp at hc
      | overflow => rw [hex] at hc; simp at hc
      | stuck => rw [hex] at hc; simp at hc
      | timeout => rw [hex] at hc; simp at hc
    · have hne : (d.params.length != vs.length) = true := by simpa using hlen
      simp [hne] at hc

/-- everything about panics that is proved together by induction on the fuel. -/
structure AllFault (P : Prog) (C : Code) (fuel : Nat) : Prop where
  expr : ∀ (cx : Ctx) (sc : Scopes) (env : Env), cx.funcs = funcTable P → ExprFault P C cx sc env fuel
  stmt : ∀ cx : Ctx, cx.funcs = funcTable P → StmtFault P C cx fuel
  iter : ∀ cx : Ctx, cx.funcs = funcTable P → IterFault P C cx fuel
  loop : ∀ cx : Ctx, cx.funcs = funcTable P → LoopFault P C cx fuel
  body : ∀ cx : Ctx, cx.funcs = funcTable P → BodyFault P C cx fuel
  cases : ∀ cx : Ctx, cx.funcs = funcTable P → CasesFault P C cx fuel
  switch : ∀ cx : Ctx, cx.funcs = funcTable P → SwitchFault P C cx fuel
  call : CallFault P C fuel
  callS : CallSFault P C fuel
  call2 : Call2Fault P C fuel

theorem allFault {P : Prog} {C : Code} (hpc : ProgCode C P) (hall : ∀ d ∈ P, Allowed [] d.body) :
    ∀ fuel, AllFault P C fuel := by
  intro fuel
  induction fuel with
  | zero =>
    refine ⟨fun cx sc env _ => exprFault_zero P C cx sc env, fun cx _ => stmtFault_zero P C cx, fun cx _ => iterFault_zero P C cx,
      fun cx _ => loopFault_zero P C cx, fun cx _ => bodyFault_zero P C cx, fun cx _ => casesFault_zero P C cx,
      fun cx _ => switchFault_zero P C cx, ?_, ?_, ?_⟩
    · intro f vs σ rest hc; simp [callF] at hc
    · intro f vs σ rest hc; simp [callS] at hc
    · intro f vs σ rest hc; simp [callF2] at hc
  | succ n ih =>
    have ok := allOK hpc hall n
    refine ⟨?_, ?_, ?_, ?_, ?_, ?_, ?_, callFault_succ hpc ih.stmt hall, callSFault_succ hpc ih.stmt hall, call2Fault_succ hpc ih.stmt hall⟩
    · intro cx sc env htab
      exact exprFault_succ P C cx sc env n hpc.nodup htab (ih.expr cx sc env htab) (ok.expr cx sc env htab) ih.call
    · intro cx htab
      exact stmtFault_succ P C cx n hpc.nodup htab (fun sc env => ih.expr cx sc env htab) (fun sc env => ok.expr cx sc env htab)
        (ih.stmt cx htab) (ok.stmt cx htab) (ih.loop cx htab) (ih.switch cx htab) ih.callS ih.call2
    · intro cx htab
      exact iterFault_succ P C cx n hpc.nodup (fun sc env => ih.expr cx sc env htab) (fun sc env => ok.expr cx sc env htab)
        (ih.stmt cx htab) (ok.stmt cx htab) (ih.iter cx htab)
    · intro cx htab
      exact loopFault_succ P C cx n (ih.stmt cx htab) (ok.stmt cx htab) (ih.iter cx htab)
    · intro cx htab
      exact bodyFault_succ P C cx n hpc.nodup (ih.stmt cx htab) (ok.stmt cx htab) (ih.body cx htab)
    · intro cx htab
      exact casesFault_succ P C cx n hpc.nodup (fun sc env => ih.expr cx sc env htab) (fun sc env => ok.expr cx sc env htab)
        (ih.body cx htab) (ih.cases cx htab)
    · intro cx htab
      exact switchFault_succ P C cx n hpc.nodup (fun sc env => ih.expr cx sc env htab) (fun sc env => ok.expr cx sc env htab)
        (ih.cases cx htab)

end NeoModel.CompileProofs

namespace NeoModel.CompileProofs
open NeoModel.MiniVm NeoModel.MiniVm.Asm NeoModel.MiniGo NeoModel.Compile

/-- invocation of a function of the program from outside whose Go evaluation panics: the machine FAULTs. -/
theorem entry_fault {P : Prog} {C : Code} (hpc : ProgCode C P) (hall : ∀ d ∈ P, Allowed [] d.body)
    {f : String} {vs rest : List Val} {fuel : Nat}
    (hrun : callF fuel P f vs = .panic) (hdep : fuel < 1024) :
    ∃ pc0 n, findLabel C (fnLabel P f) = some pc0 ∧
      Asm.run C n { pc := pc0, stack := vs ++ rest, locals := [], args := [], frames := [] } = .fault := by
  cases fuel with
  | zero => simp [callF] at hrun
  | succ k =>
    simp only [callF] at hrun
    cases hfind : P.find f with
    | none => rw [hfind] at hrun; simp at hrun
    | some d =>
      rw [hfind] at hrun
      simp only at hrun
      by_cases hlen : d.params.length = vs.length
      · have hne : (d.params.length != vs.length) = false := by simp [hlen]
        simp only [hne, Bool.false_eq_true, if_false] at hrun
        cases hex : exec k P { frames := [[]], args := d.params.zip vs } (.block d.body) with
        | panic =>
          obtain ⟨i, hi, hlab, _⟩ := fnLabel_of_find hfind
          obtain ⟨pc0, nl, hp⟩ := hpc.funcs i d hi
          have hmem : d ∈ P := List.mem_of_getElem? hi
          have hcode : (compFunc (funcTable P) d i nl).1 =
              [Item.lbl i, initSlotItem (compS { funcs := funcTable P, args := d.params } [] (.block d.body) { nl := nl, cnt := 0, scopes := [[]] }).2.cnt d.params.length] ++
                (compS { funcs := funcTable P, args := d.params } [] (.block d.body) { nl := nl, cnt := 0, scopes := [[]] }).1 ++
                (if lastIsRet d.body then [] else [Item.ins .ret]) := rfl
          rw [hcode] at hp
          generalize hN : (compS { funcs := funcTable P, args := d.params } [] (.block d.body) { nl := nl, cnt := 0, scopes := [[]] }).2.cnt = N at hp
          have hlbl : findLabel C i = some pc0 := hp.left.left.label hpc.nodup
          refine ⟨pc0, ?_⟩
          have h1 := skip_lbl (σ := State.mk pc0 (vs ++ rest) [] [] [] false) hp.left.left
          obtain ⟨b, h2⟩ := initSlot_stepF (C := C) (σ := State.mk (pc0 + 1) (vs ++ rest) [] [] [] false)
            (N := N) (vs := vs) (rest := rest) hlen hp.left.left.tail.head rfl rfl rfl rfl
          have hrel : VarsRel { funcs := funcTable P, args := d.params } [[]] { frames := [[]], args := d.params.zip vs } (List.replicate N .null) vs :=
            ⟨by simp [FramesRel, FrameRel], zip_fst _ _ hlen, zip_snd _ _ hlen⟩
          have hwf : Wf { nl := nl, cnt := 0, scopes := [[]] } := ⟨by simp [slotsOf], by simp [slotsOf], by simp⟩
          have hbody := (allFault hpc hall k).stmt { funcs := funcTable P, args := d.params } rfl (.block d.body) [] []
            { nl := nl, cnt := 0, scopes := [[]] } _ (State.mk (pc0 + 1 + 1) rest (List.replicate N .null) vs [] b)
            (by simpa [Allowed] using hall d hmem) ⟨rfl, rfl, by simp [totalSz], by simp [totalSz]⟩
            (Or.inr ⟨⟨_, rfl⟩, fun e he => by cases he⟩) hex
            (hp.left.right.cast (by simp)) hrel hwf (by simp [hN]) (by simp; omega)
          obtain ⟨n, hn⟩ := Faults.of_reach (h1.trans h2) hbody
          exact ⟨n, by rw [hlab]; exact hlbl, hn⟩
        | ok out =>
          rw [hex] at hrun
          cases out with
          | ret r =>
            match r, hrun with
            | [], hrun => simp at hrun
            | _ :: _ :: _, hrun => simp at hrun
            | [v'], hrun => simp only at hrun; split at hrun <;> cases hrun
          | norm e => simp at hrun
          | brk l e => simp at hrun
          | cont l e => simp at hrun
        | overflow => rw [hex] at hrun; simp at hrun
        | stuck => rw [hex] at hrun; simp at hrun
        | timeout => rw [hex] at hrun; simp at hrun
      · have hne : (d.params.length != vs.length) = true := by simpa using hlen
        simp [hne] at hrun

end NeoModel.CompileProofs

