/-
C20 (a) helper lemmas: `len` and `lastQ` are write-only for the queue itself.
-/
import NeoModel.Proofs.QueueReach
namespace NeoModel.Queue

/-- Two states that differ at most in the bookkeeping fields `len` and `lastQ`. -/
def SameButCounters (s t : State) : Prop :=
  s.cap = t.cap ∧ s.ring = t.ring ∧ s.height = t.height ∧ s.lastHeight = t.lastHeight ∧ s.pc = t.pc ∧
  s.signal = t.signal ∧ s.discarded = t.discarded ∧ s.log = t.log

theorem cleanup_ring_indep (cap n i : Nat) (ring : Nat → Option Elem) (l1 l2 : Int) :
    (cleanup cap n i ring l1).1 = (cleanup cap n i ring l2).1 := by
  induction n generalizing i ring l1 l2 with
  | zero => rfl
  | succ n ih =>
    simp only [cleanup]
    split
    · split
      · exact ih _ _ _ _
      · exact ih _ _ _ _
    · exact ih _ _ _ _

theorem sameButCounters_apply (s t : State) (a : Act) (h : SameButCounters s t) :
    SameButCounters (apply s a) (apply t a) := by
  obtain ⟨cap, ring, lq1, len1, height, lastHeight, pc, signal, discarded, log⟩ := s
  obtain ⟨cap2, ring2, lq2, len2, height2, lastHeight2, pc2, signal2, discarded2, log2⟩ := t
  simp only [SameButCounters] at h
  obtain ⟨rfl, rfl, rfl, rfl, rfl, rfl, rfl, rfl⟩ := h
  cases a with
  | put e hr =>
    simp only [apply, put, insert]
    split
    · simp [SameButCounters]
    · split
      · simp [SameButCounters]
      · split
        · simp [SameButCounters]
        · split <;> simp [SameButCounters]
  | adv => simp [apply, chainAdvance, SameButCounters]
  | disc =>
    simp only [apply, discard]
    split <;> simp [SameButCounters]
  | notify =>
    simp only [apply, notify]
    split <;> simp [SameButCounters]
  | run =>
    simp only [apply, runStep]
    split
    · simp [start, SameButCounters]
    · simp only [wake]
      split
      · simp [SameButCounters]
      · split <;> simp [SameButCounters]
    · simp [readH, SameButCounters]
    · simp only [lockSection, SameButCounters, and_self, true_and, and_true]
      exact cleanup_ring_indep _ _ _ _ _ _
    · simp [addItem, SameButCounters]
    · simp [finish, SameButCounters]
    · simp [SameButCounters]

theorem sameButCounters_exec (s t : State) (as : List Act) (h : SameButCounters s t) :
    SameButCounters (exec s as) (exec t as) := by
  induction as generalizing s t with
  | nil => exact h
  | cons a r ih => exact ih _ _ (sameButCounters_apply s t a h)

end NeoModel.Queue
