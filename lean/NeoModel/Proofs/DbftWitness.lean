/-
C19 — the witness of the block a validator hands to its ledger (consensus.go:666-696 `getBlockWitness`):
when it consists of signatures of that block, and the run in which it does not (known finding
`relabelled-commit-witness`).
-/
import NeoModel.Model.DbftMach
namespace NeoModel.Dbft.Mach

/-- every Commit held for the current view signs block `b` -/
def CommitsSign (nd : Node) (b : Block) : Prop :=
  ∀ j x sb, slot nd.commit j = some (.commit x sb) → x.v = nd.view → sb = b

/-- `getBlockWitness` takes only signatures of the block if every Commit of the view signs it -/
theorem blockWitness_valid (e : Env) (nd : Node) (b : Block) (h : CommitsSign nd b) :
    ∀ s ∈ blockWitness e nd b, s.2 = true := by
  intro s hs
  unfold blockWitness at hs
  have hs := List.mem_of_mem_take hs
  rw [List.mem_filterMap] at hs
  obtain ⟨i, _, hi⟩ := hs
  split at hi
  · rename_i x sb heq
    split at hi
    · rename_i hv
      simp only [Option.some.injEq] at hi
      subst hi
      simp only [decide_eq_true_eq]
      exact h i x sb heq (by simpa using hv)
    · cases hi
  · cases hi

/-- dbft.go:620-642 on the machine: with the header at hand, a Commit of the current view is kept only if it
signs the header -/
theorem onCommit_checked (e : Env) (w : W) (x : Hd) (sb b : Block)
    (hh : w.nd.header = some b) (hv : w.nd.view = x.v) (hempty : slot w.nd.commit x.frm = none)
    (hlen : x.frm < w.nd.commit.length) (hne : sb ≠ b) :
    slot (onCommit e w (.commit x sb) sb).nd.commit x.frm = none := by
  unfold onCommit
  simp only [Pl.hd, hempty, Option.isSome_none, Bool.false_eq_true, if_false, hv, beq_self_eq_true, if_true]
  have hh' : ∀ w' : W, w'.nd.prep = w.nd.prep → w'.nd.pidx = w.nd.pidx → w'.nd.bi = w.nd.bi → w'.nd.view = w.nd.view →
      w'.nd.header = some b := by
    intro w' h1 h2 h3 h4
    unfold Node.header Node.curProp at hh ⊢
    rw [h1, h2, h3, h4]; exact hh
  have hext : ∀ w' : W, (extendTimer e w' 4).nd.prep = w'.nd.prep ∧ (extendTimer e w' 4).nd.pidx = w'.nd.pidx ∧
      (extendTimer e w' 4).nd.bi = w'.nd.bi ∧ (extendTimer e w' 4).nd.view = w'.nd.view ∧
      (extendTimer e w' 4).nd.commit = w'.nd.commit := by
    intro w'
    unfold extendTimer
    split <;> simp [W.upd, W.emit]
  obtain ⟨p1, p2, p3, p4, p5⟩ := hext (w.upd fun nd => { nd with commit := nd.commit.set x.frm (some (.commit x sb)) })
  have hhd := hh' (extendTimer e (w.upd fun nd => { nd with commit := nd.commit.set x.frm (some (.commit x sb)) }) 4)
    (by rw [p1]; rfl) (by rw [p2]; rfl) (by rw [p3]; rfl) (by rw [p4]; rfl)
  simp only [hhd, hne, if_false]
  show slot (((extendTimer e (w.upd fun nd => { nd with commit := nd.commit.set x.frm (some (.commit x sb)) }) 4).nd.commit).set
    x.frm none) x.frm = none
  rw [p5]
  simp [slot, W.upd, hlen]


/-- check.go:106-153 on the machine: a block is handed to the ledger with a witness of signatures of that
very block whenever every Commit held for the view signs the header -/
theorem checkCommit_block_valid (e : Env) (w : W) (b : Block) (hh : w.nd.header = some b)
    (hs : CommitsSign w.nd b) (b' : Block) (sigs : List (Nat × Bool))
    (hout : Out.block b' sigs ∈ (checkCommit e w).out) :
    Out.block b' sigs ∈ w.out ∨ (b' = b ∧ ∀ s ∈ sigs, s.2 = true) := by
  unfold checkCommit at hout
  simp only at hout
  by_cases h1 : (!w.nd.hasAllTx) = true
  · rw [if_pos h1] at hout; exact Or.inl hout
  · rw [if_neg h1] at hout
    split at hout
    · exact Or.inl hout
    · simp only [hh] at hout
      simp only [W.upd, W.emit] at hout
      split at hout <;> simp only [List.mem_cons, Out.block.injEq] at hout
      all_goals
        rcases hout with ⟨rfl, rfl⟩ | hout
        · exact Or.inr ⟨rfl, blockWitness_valid e w.nd b' hs⟩
        · exact Or.inl hout

/-! ### the run in which the witness is NOT valid (known finding `relabelled-commit-witness`) -/

/-- run one machine through a list of events (clock and fresh names given per event, no replay hints) -/
def runEvents (e : Env) (gts : Nat) : Node → List (Event × Nat) → Node × List Out
  | nd, [] => (nd, [])
  | nd, (ev, now) :: rest =>
    let r := step e nd ev now 0 [] gts
    match rest with
    | [] => (r.1, r.2.1)
    | _ => runEvents e gts r.1 rest

def wEnv : Env :=
  { n := 7, maxTx := 6, maxSize := 100000, maxSysFee := 1000000,
    prop := fun p => if p == 1 then { h := 1, v := 0, frm := 1, ts := 10 } else if p == 2 then { h := 1, v := 1, frm := 0, ts := 20 } else {} }

def wb1 : Block := ⟨1, 0, 1⟩
def wb2 : Block := ⟨1, 1, 2⟩

/-- what validator 5 sees in the scripted case `relabelled-commit` (harness/cmd/dbft/script.go), in order;
`lbl` is the view label under which validator 6's view-0 Commit comes out of validator 0's RecoveryMessage:
0 with recovery_message.go GetCommits as fixed in ec63204 (every Commit keeps its own view), 1 = the recovery
message's view with the old rule -/
def wEventsWith (lbl : Nat) : List (Event × Nat) :=
  [(.start, 0), (.recv (.prepReq ⟨1, 1, 0⟩ 1), 0), (.recv (.prepResp ⟨6, 1, 0⟩ 1), 0), (.tick, 1)] ++
  ((List.range 5).map fun j => (Event.recv (.recReq ⟨j, 1, 0⟩), 1)) ++ [(.tick, 5)] ++
  ((List.range 5).map fun j => (Event.recv (.cv ⟨j, 1, 0⟩ 0), 5)) ++
  ([1, 2, 3, 4].map fun j => (Event.recv (.prepResp ⟨j, 1, 1⟩ 2), 5)) ++
  [(.recv (.commit ⟨0, 1, 1⟩ wb2), 5), (.tick, 12),
   (.recv (.recMsg ⟨0, 1, 1⟩ { cvs := [(0, 0), (1, 0), (2, 0), (3, 0), (4, 0)], req := some 2, preps := [0, 1, 2, 3, 4],
                               commits := [(1, 0, wb2), (lbl, 6, wb1)] }), 12),
   (.recv (.prepReq ⟨0, 1, 1⟩ 2), 12), (.recv (.commit ⟨2, 1, 1⟩ wb2), 12), (.recv (.commit ⟨3, 1, 1⟩ wb2), 12)]

def wEvents : List (Event × Nat) := wEventsWith 0

set_option maxRecDepth 100000 in
/-- regression (fixed defect `relabelled-commit-witness`, ec63204): with every relayed Commit keeping its own
view, validator 6's view-0 signature is held as a Commit of another view and does not count: after the same
events validator 5 holds four Commits of view 1 (M = 5) and hands nothing to its ledger … -/
theorem relabelled_commit_not_counted :
    (runEvents wEnv 5 (initNode wEnv 5) wEvents).2 = [] ∧
    (runEvents wEnv 5 (initNode wEnv 5) wEvents).1.blockProcessed = false := by decide

set_option maxRecDepth 100000 in
/-- … whereas under the OLD rule (the Commit re-labelled with the recovery message's view 1) the same events
made it hand its ledger block (1, view 1, p2) with validator 6's signature of the view-0 block in the witness -/
theorem relabelled_commit_in_witness_old_rule :
    (runEvents wEnv 5 (initNode wEnv 5) (wEventsWith 1)).2 =
      [.block wb2 [(0, true), (2, true), (3, true), (5, true), (6, false)]] := by decide

end NeoModel.Dbft.Mach
