/-
C04: exactly WHEN the effects of a contract call that COMPLETED are dropped (the commit rule of
vm.go unloadContext + contract/call.go, as coded), on the implementation model alone, for every tree.
-/
import NeoModel.Model.Exec
import NeoModel.Proofs.ExecFrame
import NeoModel.Proofs.ExecExc
namespace NeoModel.Exec

/-- a normal return never leaves an exception pending that was not pending at the start. -/
def ExcMono (s : ISt) (r : Res ISt) : Prop :=
  match r with
  | .norm s' => s.exc = false → s'.exc = false
  | _ => True

theorem excmono_end (h hasF : Bool) (rf : ISt → Res ISt) (s0 s : ISt) (he : s0.exc = false → s.exc = false) :
    ExcMono s0 (imEnd h hasF rf s) := by
  unfold imEnd
  split
  · cases hr : rf s with
    | norm s3 =>
      simp only
      by_cases h3 : s3.exc = true
      · simp only [h3, if_true]; unfold raise; split <;> trivial
      · simp only [h3, if_false, Bool.false_eq_true, ExcMono]; intro _; first | trivial | (simp at h3; exact h3)
    | thrown s3 => trivial
    | fault s3 => trivial
  · exact he

theorem excmono_finExc (h : Bool) (rf : ISt → Res ISt) (s0 s : ISt) : ExcMono s0 (imFinExc h rf s) := by
  unfold imFinExc
  cases hr : rf s with
  | norm s3 =>
    simp only
    split
    · unfold raise; split <;> trivial
    · trivial
  | thrown s3 => trivial
  | fault s3 => trivial

theorem im_exc_mono (t : Tree) : ∀ (x : Ctx) (s : ISt), ExcMono s (im t x s) := by
  induction t with
  | skip => intro x s; simp [im, ExcMono]
  | seq a b iha ihb =>
    intro x s
    simp only [im]
    have ha := iha x s
    cases hr : im a x s with
    | norm s1 =>
      rw [hr] at ha
      have hb := ihb x s1
      simp only
      cases hr2 : im b x s1 with
      | norm s2 => rw [hr2] at hb; exact fun h => hb (ha h)
      | thrown s2 => trivial
      | fault s2 => trivial
    | thrown s1 => trivial
    | fault s1 => trivial
  | put k v => intro x s; simp only [im]; split <;> simp [ExcMono]
  | del k => intro x s; simp only [im]; split <;> simp [ExcMono]
  | notify e =>
    intro x s; simp only [im]
    split
    · split <;> simp [ExcMono]
    · trivial
  | ifp k body ih =>
    intro x s
    simp only [im]
    split
    · split
      · exact ih x s
      · exact id
    · trivial
  | loc body ih => intro x s; simp only [im]; exact ih x s
  | throw => intro x s; simp only [im]; unfold raise; split <;> trivial
  | abort => intro x s; simp [im, ExcMono]
  | call c' fl body ih =>
    intro x s
    simp only [im]
    split
    · generalize (x.inTry && (x.f.and fl).mut) = wrapped
      have he0 : (if wrapped = true then s.push else s).exc = s.exc := by split <;> simp [ISt.push]
      have hb := ih ⟨c', x.f.and fl, false, x.h⟩ (if wrapped = true then s.push else s)
      cases hr : im body ⟨c', x.f.and fl, false, x.h⟩ (if wrapped = true then s.push else s) with
      | norm s1 =>
        rw [hr] at hb
        simp only [ExcMono] at hb ⊢
        rw [unload_exc]; rw [he0] at hb; exact hb
      | thrown s1 => trivial
      | fault s1 => trivial
    · trivial
  | try_ body hasC cat hasF fin ihb ihc ihf =>
    intro x s
    simp only [im]
    split
    · trivial
    · have hb := ihb { x with inTry := true, h := true } s
      cases hr : im body { x with inTry := true, h := true } s with
      | norm s1 => rw [hr] at hb; exact excmono_end _ _ _ _ _ hb
      | thrown s1 =>
        simp only
        split
        · have hc := ihc { x with inTry := x.inTry || hasF, h := x.h || hasF } { s1 with exc := false }
          cases hrc : im cat { x with inTry := x.inTry || hasF, h := x.h || hasF } { s1 with exc := false } with
          | norm s2 =>
            rw [hrc] at hc
            exact excmono_end _ _ _ _ _ (fun _ => hc rfl)
          | thrown s2 =>
            simp only
            split
            · exact excmono_finExc _ _ _ _
            · trivial
          | fault s2 => trivial
        · exact excmono_finExc _ _ _ _
      | fault s1 => trivial
  | native inner o fl cb k ih ihk =>
    intro x s
    simp only [im]
    split
    · generalize (if inner = true then x.f else x.f.and fl) = f'
      generalize (!inner && x.inTry && f'.mut) = wrapped
      have he0 : (if wrapped = true then s.push else s).exc = s.exc := by split <;> simp [ISt.push]
      generalize (if wrapped = true then s.push else s) = s0 at *
      cases natStep o x.c f' s0.view.get with
      | none => trivial
      | some out =>
        simp only
        have tail : ∀ (s2 : ISt), (s.exc = false → s2.exc = false) →
            ExcMono s (match im k ⟨x.c, f', false, x.h⟩ s2 with
              | .norm s3 => .norm (s3.unload wrapped s.ev.length)
              | .thrown s3 => .fault s3
              | .fault s3 => .fault s3) := by
          intro s2 e2
          have hk := ihk ⟨x.c, f', false, x.h⟩ s2
          cases hrk : im k ⟨x.c, f', false, x.h⟩ s2 with
          | norm s3 => rw [hrk] at hk; simp only [ExcMono] at hk ⊢; rw [unload_exc]; exact fun h => hk (e2 h)
          | thrown s3 => trivial
          | fault s3 => trivial
        simp only [imPhase]
        by_cases hlim : maxNotifications < (s0.ev ++ out.evs).length
        · simp only [hlim, if_true]; trivial
        simp only [hlim, if_false]
        cases out.cb with
        | none => simp only; exact tail _ (fun h => by simpa [he0] using h)
        | some to =>
          simp only
          by_cases hab : out.cbAbort = true
          · simp only [hab, if_true]; trivial
          simp only [hab, if_false, Bool.false_eq_true]
          cases hr : im cb ⟨to, f', false, x.h⟩ { s0 with top := out.ws ++ s0.top, ev := s0.ev ++ out.evs } with
          | norm s2 =>
            simp only
            by_cases he : s2.exc = true
            · simp only [he, if_true]; trivial
            · simp only [he, if_false, Bool.false_eq_true]; exact tail s2 (fun _ => by simpa using he)
          | thrown s2 => trivial
          | fault s2 => trivial
    · trivial

/-- THE COMMIT RULE, exactly. A contract call that completed (its context was unloaded by RET):
    * if the caller had an active TRY, the callee's flags allow writing or notifying, AND an exception
      is pending when the callee returns, then every effect of the callee is dropped: the caller's own
      layer, all lower layers and the notification list are exactly as before the call;
    * in EVERY other case everything the callee did is kept: the caller sees exactly the ledger view
      and the notification list the callee's run ended with.
    For every tree, context and state of the implementation model. -/
theorem im_completed_call (c' : Nat) (fl : Flags) (body : Tree) (x : Ctx) (s s' : ISt)
    (h : im (.call c' fl body) x s = .norm s') :
    ∃ s1, im body ⟨c', x.f.and fl, false, x.h⟩ (if (x.inTry && (x.f.and fl).mut) = true then s.push else s) = .norm s1 ∧
      s'.exc = s1.exc ∧
      (if (x.inTry && (x.f.and fl).mut && s1.exc) = true then
        s'.top = s.top ∧ s'.below = s.below ∧ s'.ev = s.ev
      else
        s'.view = s1.view ∧ s'.ev = s1.ev ∧ s'.below = s.below) := by
  simp only [im] at h
  split at h
  · generalize hw : (x.inTry && (x.f.and fl).mut) = wrapped at *
    have hf := im_frame body ⟨c', x.f.and fl, false, x.h⟩ (if wrapped = true then s.push else s)
    cases hr : im body ⟨c', x.f.and fl, false, x.h⟩ (if wrapped = true then s.push else s) with
    | thrown s1 => rw [hr] at h; cases h
    | fault s1 => rw [hr] at h; cases h
    | norm s1 =>
      rw [hr] at h hf
      simp only [Res.norm.injEq] at h
      subst h
      refine ⟨s1, rfl, unload_exc _ _ _, ?_⟩
      obtain ⟨hb, hp⟩ := hf
      cases wrapped with
      | false =>
        simp only [Bool.false_eq_true, if_false] at hb hp
        simp only [Bool.false_and, Bool.false_eq_true, if_false, ISt.unload]
        exact ⟨trivial, trivial, hb⟩
      | true =>
        simp only [if_true, ISt.push] at hb hp
        cases he : s1.exc with
        | true =>
          simp only [Bool.true_and, if_true]
          have hu : s1.unload true s.ev.length = { s1 with top := s.top, below := s.below, ev := s.ev } := by
            simp [ISt.unload, he, ISt.drop, hb, take_prefix hp]
          rw [hu]
          exact ⟨rfl, rfl, rfl⟩
        | false =>
          simp only [Bool.and_false, Bool.false_eq_true, if_false]
          have hu : s1.unload true s.ev.length = { s1 with top := s1.top ++ s.top, below := s.below } := by
            simp [ISt.unload, he, ISt.merge, hb]
          rw [hu]
          refine ⟨?_, rfl, rfl⟩
          simp [ISt.view, hb, flatten, List.append_assoc]
  · cases h

/-- ... and an exception can only be pending at the callee's return if it was pending when the call
    was made (a call from a FINALLY block that runs for an exception): a completed call made while
    no exception is pending is ALWAYS kept in full. -/
theorem im_completed_call_kept (c' : Nat) (fl : Flags) (body : Tree) (x : Ctx) (s s' : ISt)
    (he : s.exc = false) (h : im (.call c' fl body) x s = .norm s') :
    ∃ s1, im body ⟨c', x.f.and fl, false, x.h⟩ (if (x.inTry && (x.f.and fl).mut) = true then s.push else s) = .norm s1 ∧
      s'.view = s1.view ∧ s'.ev = s1.ev ∧ s'.below = s.below ∧ s'.exc = false := by
  obtain ⟨s1, h1, h2, h3⟩ := im_completed_call c' fl body x s s' h
  have hm := im_exc_mono body ⟨c', x.f.and fl, false, x.h⟩ (if (x.inTry && (x.f.and fl).mut) = true then s.push else s)
  rw [h1] at hm
  have e1 : s1.exc = false := hm (by split <;> simp [ISt.push, he])
  simp only [e1, Bool.and_false, Bool.false_eq_true, if_false] at h3
  exact ⟨s1, h1, h3.1, h3.2.1, h3.2.2, by rw [h2, e1]⟩

end NeoModel.Exec
