/-
C12 proofs, part 5d: SETITEM and REMOVE (the old child is discounted before it is detached).
-/
import NeoModel.Proofs.VmAcctRemD
namespace NeoModel.VmAcct

variable {rest : Nat → Nat} {n : Nat}

theorem acyclic_of_sameShape {h h' : Heap} (ss : SameShape h h') (ha : Acyclic h') : Acyclic h := by
  obtain ⟨rank, hr⟩ := ha
  exact ⟨rank, fun j x hx d hd => hr j x (by rw [ss.2 j]; exact hx) d hd⟩

theorem acyclic_of_sameShape' {h h' : Heap} (ss : SameShape h h') (ha : Acyclic h) : Acyclic h' := by
  obtain ⟨rank, hr⟩ := ha
  exact ⟨rank, fun j x hx d hd => hr j x (by rw [← ss.2 j]; exact hx) d hd⟩

/-- replacing child `k` of a referenced compound by an item that was a counted reference "in hand":
Remove(old child), then store (vm.go:1472-1477) -/
theorem setchild_core {c : Ctr} {f : Nat → Nat} {m : Nat} (item old : Item) (id k : Nat)
    (inv : InvC c (fun j => f j + cnt j [item]) (m + 1)) (hk : (chOf c.heap id)[k]? = some old) (hr : rcOf c.heap id ≠ 0) :
    ∃ lk : List Item, InvC { (c.rem old) with heap := setCh (c.rem old).heap id ((chOf c.heap id).set k item) }
        (fun j => f j + cnt j lk) (m + lk.length) ∧ (Acyclic c.heap → lk = []) := by
  have hitem : WfItem c.heap item := by
    intro d hd
    exact inv.valid (d := d) (by simp [cnt_cons, hd])
  have hold : old ∈ chOf c.heap id := List.mem_of_getElem? hk
  have hvalid : ∀ x ∈ (chOf c.heap id).set k item, WfItem c.heap x := by
    intro x hx
    rcases List.mem_or_eq_of_mem_set hx with h1 | h1
    · exact chOf_valid inv id x h1
    · rw [h1]; exact hitem
  have hcs := fun j => cnt_set j (chOf c.heap id) k old item hk
  cases ho : old.cid with
  | none =>
    refine ⟨[], ?_, fun _ => rfl⟩
    rw [rem_prim c old ho]
    have i1 := inv_setCh_gen (g := fun j => f j + cnt j [old]) (k := m + 1) id ((chOf c.heap id).set k item) hr hvalid inv
      (by intro j; have := (hcs j).1; omega) (by have := (hcs 0).2; omega)
    refine ⟨i1.wf, fun j => ?_, ?_⟩
    · have := i1.rc j; simp only [cnt_cons, ho, cnt_nil] at this ⊢; simpa using this
    · have := i1.refs; simp only [List.length_nil] at this ⊢; push_cast at this ⊢; omega
  | some o =>
    obtain ⟨ss, hcase⟩ := rem_child inv id o old ho hr hold
    rcases hcase with ⟨hr1, iD⟩ | ⟨hz1, i1, hna⟩
    · refine ⟨[], ?_, fun _ => rfl⟩
      have hv1 : ∀ x ∈ (chOf c.heap id).set k item, WfItem (c.rem old).heap x :=
        fun x hx => wfItem_of_len (hvalid x hx) (by rw [ss.1]; exact Nat.le_refl _)
      refine ⟨HeapWf_setCh id _ iD.wf hv1, fun j => ?_, ?_⟩
      · have h1 := iD.rc j
        have h2 := held_setCh_ref (cnt j) (c.rem old).heap id ((chOf c.heap id).set k item) hr1
        have h3 := (hcs j).1
        rw [ss.2 id] at h2
        simp only [rcOf_setCh, heldCnt, cnt_nil] at *
        omega
      · have h1 := iD.refs
        have h2 := held_setCh_ref (List.length) (c.rem old).heap id ((chOf c.heap id).set k item) hr1
        have h3 := (hcs 0).2
        rw [ss.2 id] at h2
        simp only [heldLen, List.length_singleton, List.length_nil] at *
        push_cast at *
        omega
    · refine ⟨[item], ?_, fun ha => absurd ha hna⟩
      have hv1 : ∀ x ∈ (chOf c.heap id).set k item, WfItem (c.rem old).heap x :=
        fun x hx => wfItem_of_len (hvalid x hx) (by rw [ss.1]; exact Nat.le_refl _)
      exact inv_setCh_unref id _ hz1 hv1 i1

/-- removing child `k` of a referenced compound: Remove(child), then detach (vm.go:1539-1542) -/
theorem remchild_core {c : Ctr} {f : Nat → Nat} {m : Nat} (old : Item) (id k : Nat)
    (inv : InvC c f m) (hk : (chOf c.heap id)[k]? = some old) (hr : rcOf c.heap id ≠ 0) :
    InvC { (c.rem old) with heap := setCh (c.rem old).heap id ((chOf c.heap id).eraseIdx k) } f m := by
  have hold : old ∈ chOf c.heap id := List.mem_of_getElem? hk
  have hvalid : ∀ x ∈ (chOf c.heap id).eraseIdx k, WfItem c.heap x :=
    fun x hx => chOf_valid inv id x (List.mem_of_mem_eraseIdx hx)
  have hcs := fun j => cnt_eraseIdx j (chOf c.heap id) k old hk
  cases ho : old.cid with
  | none =>
    rw [rem_prim c old ho]
    have i1 := inv_setCh_gen (g := fun j => f j + cnt j [old]) (k := m + 1) id ((chOf c.heap id).eraseIdx k) hr hvalid inv
      (by intro j; have := (hcs j).1; omega) (by have := (hcs 0).2; omega)
    refine ⟨i1.wf, fun j => ?_, ?_⟩
    · have := i1.rc j; simp only [cnt_cons, ho, cnt_nil] at this ⊢; simpa using this
    · have := i1.refs; simp only at this ⊢; push_cast at this ⊢; omega
  | some o =>
    obtain ⟨ss, hcase⟩ := rem_child inv id o old ho hr hold
    have hv1 : ∀ x ∈ (chOf c.heap id).eraseIdx k, WfItem (c.rem old).heap x :=
      fun x hx => wfItem_of_len (hvalid x hx) (by rw [ss.1]; exact Nat.le_refl _)
    rcases hcase with ⟨hr1, iD⟩ | ⟨hz1, i1, _⟩
    · refine ⟨HeapWf_setCh id _ iD.wf hv1, fun j => ?_, ?_⟩
      · have h1 := iD.rc j
        have h2 := held_setCh_ref (cnt j) (c.rem old).heap id ((chOf c.heap id).eraseIdx k) hr1
        have h3 := (hcs j).1
        rw [ss.2 id] at h2
        simp only [rcOf_setCh, heldCnt] at *
        omega
      · have h1 := iD.refs
        have h2 := held_setCh_ref (List.length) (c.rem old).heap id ((chOf c.heap id).eraseIdx k) hr1
        have h3 := (hcs 0).2
        rw [ss.2 id] at h2
        simp only [heldLen, List.length_singleton] at *
        push_cast at *
        omega
    · exact inv_setCh_unref id _ hz1 hv1 i1

end NeoModel.VmAcct

namespace NeoModel.VmAcct

variable {rest : Nat → Nat} {n : Nat}

/-- outcome invariant: possibly with newly leaked references, none if the heap was acyclic -/
def PostOut (h0 : Heap) (rest : Nat → Nat) (n : Nat) : Outcome → Prop
  | .ok w' => Post h0 w' rest n
  | .throw w' => Post h0 w' rest n

theorem popNoRef_inv {w w' : W} {x : Item} (inv : InvW w rest n) (hp : w.popNoRef = some (x, w')) :
    InvW w' (fun j => rest j + cnt j [x]) (n + 1) ∧ w'.c = w.c ∧ w.st = x :: w'.st := by
  unfold W.popNoRef at hp
  cases hst : w.st with
  | nil => simp [hst] at hp
  | cons y r =>
    simp only [hst, Option.some.injEq, Prod.mk.injEq] at hp
    obtain ⟨rfl, rfl⟩ := hp
    refine ⟨inv.congr (by intro j; simp only [hst, cnt_cons, cnt_nil]; omega) (by simp [hst]; omega), rfl, rfl⟩

/-- non-referenced container: the item in hand is discounted, the store is invisible -/
theorem setitem_unref {c : Ctr} {f : Nat → Nat} {m : Nat} (item : Item) (id : Nat) (xs : List Item)
    (inv : InvC c (fun j => f j + cnt j [item]) (m + 1)) (hr : rcOf c.heap id = 0) (hx : ∀ x ∈ xs, WfItem c.heap x) :
    InvC { (c.rem item) with heap := setCh (c.rem item).heap id xs } f m := by
  obtain ⟨i1, ss⟩ := inv_rem item inv
  have hz : rcOf (c.rem item).heap id = 0 := by
    have := remW_rc_le [item] c id
    simp only [Ctr.rem]; omega
  exact inv_setCh_unref id xs hz (fun x hxm => wfItem_of_len (hx x hxm) (by rw [ss.1]; exact Nat.le_refl _)) i1

theorem setitem_tail_inv {H0 : Heap} {w0 : W} (i : Int) (item : Item)
    (i0 : InvW w0 (fun j => rest j + cnt j [item]) (n + 1)) (hacy : Acyclic H0 → Acyclic w0.c.heap)
    (hkey : ∀ k id r, w0.st = k :: .map id :: r → k = .prim) :
    ∀ out, setitemTail i item w0 = some out → PostOut H0 rest n out := by
  intro out h
  simp only [setitemTail] at h
  cases hp1 : w0.pop with
  | none => simp [hp1] at h
  | some r1 =>
    obtain ⟨key, w1⟩ := r1
    simp only [hp1] at h
    by_cases hkc : key.cid.isSome = true
    · simp [hkc] at h
    rw [if_neg hkc] at h
    obtain ⟨i1, s1, _, hst1⟩ := pop_inv i0 hp1
    cases hp2 : w1.pop with
    | none => simp [hp2] at h
    | some r2 =>
      obtain ⟨obj, w2⟩ := r2
      simp only [hp2] at h
      obtain ⟨i2, s2, _, hst2⟩ := pop_inv i1 hp2
      have hss : SameShape w0.c.heap w2.c.heap := s1.trans s2
      have hitem : WfItem w2.c.heap item := by
        intro d hd
        exact i2.valid (d := d) (by simp [cnt_cons, hd]; omega)
      -- the invariant with the item still in hand
      have i2' : InvC w2.c (fun j => (cnt j w2.st + rest j) + cnt j [item]) ((w2.st.length + n) + 1) :=
        i2.congr (by intro j; simp only []; omega) (by omega)
      have throwCase : Post H0 ({ w2 with c := w2.c.rem item } : W) rest n :=
        post_of_inv (inv_rem item i2').1
      have seqCase : ∀ id, (if i < 0 then some (Outcome.throw { w2 with c := w2.c.rem item })
            else match (chOf w2.c.heap id)[i.toNat]? with
              | none => none
              | some old =>
                okW ((if rcOf w2.c.heap id ≠ 0 then ({ w2 with c := w2.c.rem old } : W) else { w2 with c := w2.c.rem item }).setHeap
                  (setCh (if rcOf w2.c.heap id ≠ 0 then ({ w2 with c := w2.c.rem old } : W) else { w2 with c := w2.c.rem item }).c.heap id
                    (listSet (chOf w2.c.heap id) i.toNat item)))) = some out → PostOut H0 rest n out := by
        intro id h
        by_cases hi : i < 0
        · simp only [hi, if_true, Option.some.injEq] at h
          rw [← h]; exact throwCase
        · simp only [hi, if_false] at h
          cases hg : (chOf w2.c.heap id)[i.toNat]? with
          | none => simp [hg] at h
          | some old =>
            simp only [hg, okW, Option.some.injEq] at h
            rw [← h]
            have hvalid : ∀ x ∈ listSet (chOf w2.c.heap id) i.toNat item, WfItem w2.c.heap x := by
              intro x hx
              rcases List.mem_or_eq_of_mem_set hx with h1 | h1
              · exact chOf_valid i2 id x h1
              · rw [h1]; exact hitem
            by_cases hr : rcOf w2.c.heap id = 0
            · simp only [hr, ne_eq, not_true_eq_false, if_false, W.setHeap]
              exact post_of_inv (setitem_unref item id _ i2' hr hvalid)
            · simp only [ne_eq, hr, not_false_eq_true, if_true, W.setHeap]
              obtain ⟨lk, ilk, hac⟩ := setchild_core item old id i.toNat i2' hg hr
              refine ⟨lk, ilk.congr (by intro j; simp only []; omega) (by simp only []; omega), fun ha => hac (acyclic_of_sameShape' hss (hacy ha))⟩
      cases obj with
      | arr id => exact seqCase id h
      | str id => exact seqCase id h
      | prim =>
        simp only at h
        by_cases hi : i < 0
        · simp only [hi, if_true, Option.some.injEq] at h
          rw [← h]; exact throwCase
        · simp only [hi, if_false, okW, Option.some.injEq] at h
          rw [← h]; exact throwCase
      | map id =>
        have hkp : key = .prim := hkey key id w2.st (by rw [hst1, hst2])
        simp only at h
        by_cases hi : i < 0
        · simp only [hi, if_true, okW, Option.some.injEq] at h
          rw [← h]
          have hvalid : ∀ x ∈ chOf w2.c.heap id ++ [key, item], WfItem w2.c.heap x := by
            intro x hx
            rcases List.mem_append.1 hx with h1 | h1
            · exact chOf_valid i2 id x h1
            · simp only [List.mem_cons, List.not_mem_nil, or_false] at h1
              rcases h1 with rfl | rfl
              · rw [hkp]; exact wfItem_prim _
              · exact hitem
          by_cases hr : rcOf w2.c.heap id = 0
          · simp only [hr, ne_eq, not_true_eq_false, if_false, W.setHeap]
            exact post_of_inv (setitem_unref item id _ i2' hr hvalid)
          · simp only [ne_eq, hr, not_false_eq_true, if_true, W.setHeap]
            apply post_of_inv
            rw [hkp, add_prim w2.c .prim rfl]
            have i3 : InvC { w2.c with refs := w2.c.refs + 1 } (fun j => (cnt j w2.st + rest j) + cnt j [item]) ((w2.st.length + n) + 2) :=
              ⟨i2'.wf, i2'.rc, by have := i2'.refs; simp only at this ⊢; push_cast at this ⊢; omega⟩
            exact inv_setCh_gen (c := { w2.c with refs := w2.c.refs + 1 }) id _ hr (by rw [← hkp]; exact hvalid) i3
              (by intro j; simp [cnt_cons, Item.cid]; omega) (by simp; omega)
        · simp only [hi, if_false] at h
          cases hg : (chOf w2.c.heap id)[2 * i.toNat + 1]? with
          | none => simp [hg] at h
          | some old =>
            simp only [hg, okW, Option.some.injEq] at h
            rw [← h]
            have hvalid : ∀ x ∈ listSet (chOf w2.c.heap id) (2 * i.toNat + 1) item, WfItem w2.c.heap x := by
              intro x hx
              rcases List.mem_or_eq_of_mem_set hx with h1 | h1
              · exact chOf_valid i2 id x h1
              · rw [h1]; exact hitem
            by_cases hr : rcOf w2.c.heap id = 0
            · simp only [hr, ne_eq, not_true_eq_false, if_false, W.setHeap]
              exact post_of_inv (setitem_unref item id _ i2' hr hvalid)
            · simp only [ne_eq, hr, not_false_eq_true, if_true, W.setHeap]
              obtain ⟨lk, ilk, hac⟩ := setchild_core item old id (2 * i.toNat + 1) i2' hg hr
              refine ⟨lk, ilk.congr (by intro j; simp only []; omega) (by simp only []; omega), fun ha => hac (acyclic_of_sameShape' hss (hacy ha))⟩

theorem setitem_inv {w : W} (i : Int) (inv : InvW w rest n) (hns : ∀ id, w.st.head? ≠ some (.str id))
    (hkey : ∀ a k id r, w.st = a :: k :: .map id :: r → k = .prim) :
    ∀ out, execS (.setitem i) w = some out → PostOut w.c.heap rest n out := by
  intro out h
  simp only [execS] at h
  cases hp0 : w.popNoRef with
  | none => simp [hp0] at h
  | some r0 =>
    obtain ⟨item, w0⟩ := r0
    simp only [hp0] at h
    obtain ⟨i0, hc0, hst0⟩ := popNoRef_inv inv hp0
    have hnsi : ∀ id, item ≠ .str id := by
      intro id e; apply hns id; rw [hst0, e]; rfl
    rw [cloneIfStruct_of_not_str w0 item hnsi] at h
    simp only [Bool.false_eq_true, if_false] at h
    exact setitem_tail_inv i item i0 (by rw [hc0]; exact id) (fun k id r hst => hkey item k id r (by rw [hst0, hst])) out h

end NeoModel.VmAcct

namespace NeoModel.VmAcct

variable {rest : Nat → Nat} {n : Nat}

/-- REMOVE (Array, Struct: discount then detach; Map: detach then discount, as fixed in vm.go). -/
theorem remove_inv {w w' : W} (i : Int) (inv : InvW w rest n)
    (h : execS (.remove i) w = some (.ok w')) : InvW w' rest n := by
  simp only [execS] at h
  cases hp1 : w.pop with
  | none => simp [hp1] at h
  | some r1 =>
    obtain ⟨key, w1⟩ := r1
    simp only [hp1] at h
    obtain ⟨i1, _, _, hst1⟩ := pop_inv inv hp1
    cases hp2 : w1.pop with
    | none => simp [hp2] at h
    | some r2 =>
      obtain ⟨elem, w2⟩ := r2
      simp only [hp2] at h
      obtain ⟨i2, _, _, hst2⟩ := pop_inv i1 hp2
      have seqCase : ∀ id, (if i < 0 then none
            else match (chOf w2.c.heap id)[i.toNat]? with
              | none => none
              | some x =>
                okW ((if rcOf w2.c.heap id ≠ 0 then ({ w2 with c := w2.c.rem x } : W) else w2).setHeap
                  (setCh (if rcOf w2.c.heap id ≠ 0 then ({ w2 with c := w2.c.rem x } : W) else w2).c.heap id
                    ((chOf w2.c.heap id).eraseIdx i.toNat)))) = some (Outcome.ok w') → InvW w' rest n := by
        intro id h
        by_cases hi : i < 0
        · simp [hi] at h
        · simp only [hi, if_false] at h
          cases hg : (chOf w2.c.heap id)[i.toNat]? with
          | none => simp [hg] at h
          | some x =>
            simp only [hg, okW, Option.some.injEq, Outcome.ok.injEq] at h
            rw [← h]
            by_cases hr : rcOf w2.c.heap id = 0
            · simp only [hr, ne_eq, not_true_eq_false, if_false, W.setHeap]
              exact inv_setCh_unref id _ hr (fun y hy => chOf_valid i2 id y (List.mem_of_mem_eraseIdx hy)) i2
            · simp only [ne_eq, hr, not_false_eq_true, if_true, W.setHeap]
              exact remchild_core x id i.toNat i2 hg hr
      cases elem with
      | prim => simp at h
      | arr id => exact seqCase id h
      | str id => exact seqCase id h
      | map id =>
        simp only at h
        by_cases hi : i < 0
        · simp only [hi, if_true, okW, Option.some.injEq, Outcome.ok.injEq] at h
          rw [← h]; exact i2
        · simp only [hi, if_false] at h
          cases hk : (chOf w2.c.heap id)[2 * i.toNat]? with
          | none => simp [hk] at h
          | some k =>
            cases hv : (chOf w2.c.heap id)[2 * i.toNat + 1]? with
            | none => simp [hk, hv] at h
            | some v =>
              simp only [hk, hv, okW, W.setHeap, Option.some.injEq, Outcome.ok.injEq] at h
              rw [← h]
              have hvalid : ∀ x ∈ ((chOf w2.c.heap id).eraseIdx (2 * i.toNat + 1)).eraseIdx (2 * i.toNat), WfItem w2.c.heap x :=
                fun x hx => chOf_valid i2 id x (List.mem_of_mem_eraseIdx (List.mem_of_mem_eraseIdx hx))
              have hk' : ((chOf w2.c.heap id).eraseIdx (2 * i.toNat + 1))[2 * i.toNat]? = some k := by
                rw [List.getElem?_eraseIdx]; simp [hk]
              have c1 := fun j => cnt_eraseIdx j (chOf w2.c.heap id) (2 * i.toNat + 1) v hv
              have c2 := fun j => cnt_eraseIdx j ((chOf w2.c.heap id).eraseIdx (2 * i.toNat + 1)) (2 * i.toNat) k hk'
              by_cases hr : rcOf w2.c.heap id = 0
              · simp only [hr, ne_eq, not_true_eq_false, decide_false, Bool.false_eq_true, if_false]
                exact inv_setCh_unref id _ hr hvalid i2
              · simp only [ne_eq, hr, not_false_eq_true, decide_true, if_true]
                -- detached, both references still counted as if in hand; then discounted
                have i3 := inv_setCh_gen (g := fun j => ((cnt j w2.st + rest j) + cnt j [v]) + cnt j [k])
                  (k := ((w2.st.length + n) + 1) + 1) id _ hr hvalid i2
                  (by intro j; have := (c1 j).1; have := (c2 j).1; omega)
                  (by have := (c1 0).2; have := (c2 0).2; omega)
                have i4 := (inv_rem k i3).1
                exact (inv_rem v i4).1

end NeoModel.VmAcct
