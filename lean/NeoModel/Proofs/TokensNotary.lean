/-
Notary deposits: the exact conditions of withdrawal, re-locking and charging (boundaries of expiry and of a deposit
that is used up exactly).
-/
import NeoModel.Proofs.TokensAL
namespace NeoModel.Tokens

/-- withdraw (notary.go:306-349) gets as far as the GAS transfer iff the owner witnesses, a deposit exists and the
block before the one being persisted has reached `till`; the deposit record is removed and its whole amount sent. -/
theorem withdrawPre_spec (e : Env) (l l' : Ledger) (src : Nat) (wit : Bool) (amt : Int) :
    withdrawPre e l src wit = some (l', amt) ↔
      (wit = true ∧ ∃ d, get l.deps src = some d ∧ d.till ≤ e.index - 1 ∧ amt = d.amount ∧
        l' = { l with deps := del l.deps src }) := by
  unfold withdrawPre
  cases wit with
  | false => simp
  | true =>
    cases hg : get l.deps src with
    | none => simp
    | some d =>
      simp only [Bool.not_true, Bool.false_eq_true, if_false, true_and]
      by_cases ht : e.index - 1 < d.till
      · simp [ht]; intro _ ; omega
      · simp only [ht, if_false, Option.some.injEq, Prod.mk.injEq]
        constructor
        · rintro ⟨rfl, rfl⟩; exact ⟨d, rfl, by omega, rfl, rfl⟩
        · rintro ⟨d', hd, _, rfl, rfl⟩; subst hd; exact ⟨rfl, rfl⟩

/-- lockDepositUntil (277-303) succeeds iff the owner witnesses, the new `till` is after the block being persisted
(`till ≥ index + 1`) and not before the deposit's current one; only `till` changes. -/
theorem lockDeposit_spec (e : Env) (l : Ledger) (a till : Nat) (wit : Bool) :
    ((lockDeposit e l a till wit).2 = true ↔
      (wit = true ∧ e.index - 1 + 2 ≤ till ∧ ∃ d, get l.deps a = some d ∧ d.till ≤ till)) ∧
    ((lockDeposit e l a till wit).2 = true → ∃ d, get l.deps a = some d ∧
      (lockDeposit e l a till wit).1 = { l with deps := put l.deps a { d with till := till } }) ∧
    ((lockDeposit e l a till wit).2 = false → (lockDeposit e l a till wit).1 = l) := by
  unfold lockDeposit
  cases wit with
  | false => simp
  | true =>
    simp only [Bool.not_true, Bool.false_eq_true, if_false, true_and]
    by_cases h1 : till < e.index - 1 + 1 + 1
    · simp [h1]; intro _; omega
    · simp only [h1, if_false]
      cases hg : get l.deps a with
      | none => simp
      | some d =>
        simp only []
        by_cases h2 : till < d.till
        · simp [h2]
        · simp [h2]; omega

/-- charging one notary-assisted transaction (notary.go:183-199): a deposit larger than the fees is reduced by
them, one that equals them is removed, a smaller or missing one stops the node. -/
theorem notaryCharge_one (e : Env) (l : Ledger) (t : TxFee) (k p : Nat) (hs : t.sender = e.notary) (hk : t.nkeys = some k)
    (hp : t.payer = some p) :
    notaryCharge e l [t] =
      match get l.deps p with
      | none => none
      | some d =>
        if d.amount < t.sys + t.net then none
        else if d.amount = t.sys + t.net then some ({ l with deps := del l.deps p }, (k : Int) + 1)
        else some ({ l with deps := put l.deps p { d with amount := d.amount - (t.sys + t.net) } }, (k : Int) + 1) := by
  simp only [notaryCharge, hk, hs, hp, if_true]
  cases hg : get l.deps p with
  | none => rfl
  | some d =>
    simp only []
    by_cases h1 : d.amount - (t.sys + t.net) < 0
    · have : d.amount < t.sys + t.net := by omega
      simp [h1, this]
    · have n1 : ¬ d.amount < t.sys + t.net := by omega
      simp only [h1, n1, if_false]
      by_cases h2 : d.amount - (t.sys + t.net) = 0
      · have : d.amount = t.sys + t.net := by omega
        simp [this]
      · have : ¬ d.amount = t.sys + t.net := by omega
        simp [h2, this]

end NeoModel.Tokens
