/-
C01 — cached components (Model/Ledger/Comp.lean, Components.lean): the generic coherence theorem for exact
components and the exactness of whitelist / management (guarded settings, RoleManagement, gasPerBlock: LedgerGuarded, LedgerGpb); gasPerVote lookup coherence.
-/
import NeoModel.Model.Ledger.Components
namespace NeoModel.Ledger.Comp
variable {S C O : Type}

theorem runOps_exact (K : Comp S C O) (hE : K.Exact) (h : Nat) (ops : List O) :
    ∀ s s' c', K.runOps s (K.init s) h ops = some (s', c') → c' = K.init s' := by
  induction ops with
  | nil => intro s s' c' hr; simp only [runOps, Option.some.injEq, Prod.mk.injEq] at hr; rw [← hr.1, ← hr.2]
  | cons o os ih =>
    intro s s' c' hr
    simp only [runOps] at hr
    cases he : K.exec s (K.init s) h o with
    | none => simp [he] at hr
    | some p =>
      obtain ⟨s1, c1⟩ := p
      simp only [he] at hr
      have := hE.step s h o s1 c1 he
      subst this
      exact ih s1 s' c' hr

theorem leaks_id (K : Comp S C O) (hE : K.Exact) (ops : List O) : ∀ c, K.leaks c ops = c := by
  induction ops with
  | nil => intro c; rfl
  | cons o os ih => intro c; simp only [leaks, hE.noLeak]; exact ih c

theorem runTx_exact (K : Comp S C O) (hE : K.Exact) (s : S) (h : Nat) (tx : CTx O) :
    (K.runTx s (K.init s) h tx).2 = K.init (K.runTx s (K.init s) h tx).1 := by
  unfold runTx
  cases hr : K.runOps s (K.init s) h tx.ops with
  | none => simp [leaks_id K hE]
  | some p =>
    obtain ⟨s', c'⟩ := p
    by_cases ht : tx.halts = true
    · simp only [ht, if_true]; exact runOps_exact K hE h tx.ops s s' c' hr
    · simp [ht, leaks_id K hE]

theorem runBlock_exact (K : Comp S C O) (hE : K.Exact) (h : Nat) (txs : List (CTx O)) :
    ∀ s, (K.runBlock s (K.init s) h txs).2 = K.init (K.runBlock s (K.init s) h txs).1 := by
  induction txs with
  | nil => intro s; rfl
  | cons tx txs ih =>
    intro s
    simp only [runBlock]
    rw [runTx_exact K hE s h tx]
    exact ih _

/-- `<x>_cache_coherent`, generic form: for an exact component, after ANY sequence of blocks (transactions that
    halt, fault half-way or are rolled back as a whole) and restarts, the cache is exactly InitializeCache of
    the storage — so cached answers are storage answers and a restart is invisible. -/
theorem cache_coherent (K : Comp S C O) (hE : K.Exact) (steps : List (CStep O)) :
    ∀ n : CNode S C, n.cache = K.init n.store → (K.crun n steps).cache = K.init (K.crun n steps).store := by
  induction steps with
  | nil => intro n h; exact h
  | cons st ss ih =>
    intro n h
    simp only [crun]
    apply ih
    cases st with
    | block txs => simp only [cstep]; rw [h]; exact runBlock_exact K hE _ txs n.store
    | restart => rfl

/-- a restart changes nothing on a coherent node -/
theorem restart_invisible (K : Comp S C O) (n : CNode S C) (h : n.cache = K.init n.store) :
    K.cstep n .restart = n := by
  cases n; simp only [cstep] at *; simp [h]

end NeoModel.Ledger.Comp

namespace NeoModel.Ledger.Components
open NeoModel.Ledger NeoModel.Ledger.Comp

theorem whitelist_exact : whitelist.Exact where
  step := by
    intro s h o s' c' he
    cases o with
    | set k fee =>
      simp only [whitelist] at he
      split at he
      · simp at he
      · simp only [Option.some.injEq, Prod.mk.injEq] at he; rw [← he.1, ← he.2]; rfl
    | remove k =>
      simp only [whitelist] at he
      split at he
      · simp at he
      · simp only [Option.some.injEq, Prod.mk.injEq] at he; rw [← he.1, ← he.2]; rfl
    | clean ct =>
      simp only [whitelist, Option.some.injEq, Prod.mk.injEq] at he; rw [← he.1, ← he.2]; rfl
  noLeak := fun _ _ => rfl

theorem maxEntry_cons_other (e : (Nat × Nat) × List Nat) (s : RoleStore) (r : Nat) (h : e.1.1 ≠ r) :
    maxEntry (e :: s) r = maxEntry s r := by
  simp [maxEntry, h]

/-- what the layer discipline protects against: a setter that wrote through GetROCache would survive the
    rollback of its transaction — cache 5, storage nothing. -/
theorem settings_ro_write_witness :
    let n := settings.crun { store := [], cache := [], height := 0 } [.block [{ ops := [.setViaRO 1 5], halts := false }]]
    aget n.cache 1 = some 5 ∧ aget n.store 1 = none := by decide

-- gasPerVote ------------------------------------------------------------------------------------------------------
theorem aget_aput_same {β : Type} (l : List (Nat × β)) (k : Nat) (v : β) : aget (aput l k v) k = some v := by
  simp [aget, aput]

theorem aget_filter_ne {β : Type} (l : List (Nat × β)) (k k' : Nat) (h : k' ≠ k) :
    aget (l.filter (·.1 != k)) k' = aget l k' := by
  induction l with
  | nil => rfl
  | cons x xs ih =>
    by_cases hx : x.1 = k
    · have h1 : (x.1 != k) = false := by simp [hx]
      have h2 : (x.1 == k') = false := by simp [hx]; exact fun e => h e.symm
      simp only [List.filter, h1, aget, List.find?, h2] at *
      exact ih
    · have h1 : (x.1 != k) = true := by simp [hx]
      simp only [List.filter, h1, aget, List.find?] at *
      by_cases hk : (x.1 == k') = true
      · simp [hk]
      · simp only [hk]; exact ih

theorem aget_filter_same {β : Type} (l : List (Nat × β)) (k : Nat) : aget (l.filter (·.1 != k)) k = none := by
  induction l with
  | nil => rfl
  | cons x xs ih =>
    by_cases hx : x.1 = k
    · have h1 : (x.1 != k) = false := by simp [hx]
      simp only [List.filter, h1]; exact ih
    · have h1 : (x.1 != k) = true := by simp [hx]
      have h2 : (x.1 == k) = false := by simp [hx]
      simp only [List.filter, h1, aget, List.find?, h2] at *
      exact ih

theorem aget_aput_other {β : Type} (l : List (Nat × β)) (k k' : Nat) (v : β) (h : k' ≠ k) :
    aget (aput l k v) k' = aget l k' := by
  have h2 : (k == k') = false := by simp; exact fun e => h e.symm
  simp only [aput, aget, List.find?, h2]
  exact aget_filter_ne l k k' h

/-- every cached reward-per-vote value is the stored one -/
def GpvCoherent (g : GpvState) : Prop := ∀ k v, aget g.cache k = some v → aget g.store k = some v

theorem gpvStep_coherent (g : GpvState) (o : GpvOp) (h : GpvCoherent g) : GpvCoherent (gpvStep g o) := by
  cases o with
  | write k v =>
    intro k' v' hc
    simp only [gpvStep] at hc ⊢
    by_cases e : k' = k
    · subst e; rw [aget_aput_same] at hc ⊢; exact hc
    · rw [aget_aput_other _ _ _ _ e] at hc ⊢; exact h k' v' hc
  | add k d =>
    intro k' v' hc
    simp only [gpvStep] at hc ⊢
    by_cases e : k' = k
    · subst e; rw [aget_aput_same] at hc ⊢; exact hc
    · rw [aget_aput_other _ _ _ _ e] at hc ⊢; exact h k' v' hc
  | drop k =>
    intro k' v' hc
    simp only [gpvStep, adel] at hc ⊢
    by_cases e : k' = k
    · subst e; rw [aget_filter_same] at hc; simp at hc
    · rw [aget_filter_ne _ _ _ e] at hc ⊢; exact h k' v' hc
  | restart =>
    intro k' v' hc
    simp [gpvStep, aget] at hc

theorem gpvRun_coherent (ops : List GpvOp) : ∀ g, GpvCoherent g → GpvCoherent (gpvRun g ops) := by
  induction ops with
  | nil => intro g h; exact h
  | cons o os ih => intro g h; exact ih _ (gpvStep_coherent g o h)

theorem gpvLookup_stored (g : GpvState) (h : GpvCoherent g) (k : Nat) : gpvLookup g k = (aget g.store k).getD 0 := by
  unfold gpvLookup
  cases hc : aget g.cache k with
  | none => rfl
  | some v => simp [h k v hc]

/-- the stored reward-per-vote values do not depend on WHICH coherent cache the node holds (a running node's partial
    cache, a restarted node's empty one): same storage before, same operations ⇒ same storage after -/
theorem gpvStep_store_same (g₁ g₂ : GpvState) (o : GpvOp) (h1 : GpvCoherent g₁) (h2 : GpvCoherent g₂)
    (hs : g₁.store = g₂.store) : (gpvStep g₁ o).store = (gpvStep g₂ o).store := by
  cases o with
  | write k v => simp [gpvStep, hs]
  | add k d =>
    simp only [gpvStep]
    rw [gpvLookup_stored g₁ h1, gpvLookup_stored g₂ h2, hs]
  | drop k => simp [gpvStep, hs]
  | restart => simp [gpvStep, hs]

theorem gpvRun_store_same (ops : List GpvOp) : ∀ g₁ g₂, GpvCoherent g₁ → GpvCoherent g₂ → g₁.store = g₂.store →
    (gpvRun g₁ ops).store = (gpvRun g₂ ops).store := by
  induction ops with
  | nil => intro g₁ g₂ _ _ hs; exact hs
  | cons o os ih =>
    intro g₁ g₂ h1 h2 hs
    exact ih _ _ (gpvStep_coherent g₁ o h1) (gpvStep_coherent g₂ o h2) (gpvStep_store_same g₁ g₂ o h1 h2 hs)

end NeoModel.Ledger.Components
