/-
C01 — cached components (Model/Ledger/Comp.lean, Components.lean): the generic coherence theorem for exact
components and the exactness of settings / whitelist / designate / management; gasPerVote lookup coherence.
-/
import NeoModel.Model.Ledger.Components
namespace NeoModel.Ledger.Comp
variable {S C O : Type}

theorem runOps_exact (K : Comp S C O) (hE : K.Exact) (h : Nat) (ops : List O) :
    ∀ s s' c', K.runOps s (K.init s) h ops = some (s', c') → c' = K.init s' := by
  induction ops with
  | nil => intro s s' c' hr; simp only [runOps, Option.some.injEq, Prod.mk.injEq] at hr; rw [← hr.1, ← hr.2]
  | cons o os ih =>
    intro s s' c' hr
    simp only [runOps] at hr
    cases he : K.exec s (K.init s) h o with
    | none => simp [he] at hr
    | some p =>
      obtain ⟨s1, c1⟩ := p
      simp only [he] at hr
      have := hE.step s h o s1 c1 he
      subst this
      exact ih s1 s' c' hr

theorem leaks_id (K : Comp S C O) (hE : K.Exact) (ops : List O) : ∀ c, K.leaks c ops = c := by
  induction ops with
  | nil => intro c; rfl
  | cons o os ih => intro c; simp only [leaks, hE.noLeak]; exact ih c

theorem runTx_exact (K : Comp S C O) (hE : K.Exact) (s : S) (h : Nat) (tx : CTx O) :
    (K.runTx s (K.init s) h tx).2 = K.init (K.runTx s (K.init s) h tx).1 := by
  unfold runTx
  cases hr : K.runOps s (K.init s) h tx.ops with
  | none => simp [leaks_id K hE]
  | some p =>
    obtain ⟨s', c'⟩ := p
    by_cases ht : tx.halts = true
    · simp only [ht, if_true]; exact runOps_exact K hE h tx.ops s s' c' hr
    · simp [ht, leaks_id K hE]

theorem runBlock_exact (K : Comp S C O) (hE : K.Exact) (h : Nat) (txs : List (CTx O)) :
    ∀ s, (K.runBlock s (K.init s) h txs).2 = K.init (K.runBlock s (K.init s) h txs).1 := by
  induction txs with
  | nil => intro s; rfl
  | cons tx txs ih =>
    intro s
    simp only [runBlock]
    rw [runTx_exact K hE s h tx]
    exact ih _

/-- `<x>_cache_coherent`, generic form: for an exact component, after ANY sequence of blocks (transactions that
    halt, fault half-way or are rolled back as a whole) and restarts, the cache is exactly InitializeCache of
    the storage — so cached answers are storage answers and a restart is invisible. -/
theorem cache_coherent (K : Comp S C O) (hE : K.Exact) (steps : List (CStep O)) :
    ∀ n : CNode S C, n.cache = K.init n.store → (K.crun n steps).cache = K.init (K.crun n steps).store := by
  induction steps with
  | nil => intro n h; exact h
  | cons st ss ih =>
    intro n h
    simp only [crun]
    apply ih
    cases st with
    | block txs => simp only [cstep]; rw [h]; exact runBlock_exact K hE _ txs n.store
    | restart => rfl

/-- a restart changes nothing on a coherent node -/
theorem restart_invisible (K : Comp S C O) (n : CNode S C) (h : n.cache = K.init n.store) :
    K.cstep n .restart = n := by
  cases n; simp only [cstep] at *; simp [h]

end NeoModel.Ledger.Comp

namespace NeoModel.Ledger.Components
open NeoModel.Ledger NeoModel.Ledger.Comp

theorem settingsRW_exact : settingsRW.Exact where
  step := by
    intro s h o s' c' he
    obtain ⟨o, ho⟩ := o
    cases o with
    | set k v =>
      simp only [settingsRW, settings, Option.some.injEq, Prod.mk.injEq] at he
      rw [← he.1, ← he.2]; rfl
    | setViaRO k v => simp [SetOp.disciplined] at ho
  noLeak := by
    intro c o
    obtain ⟨o, ho⟩ := o
    cases o with
    | set k v => rfl
    | setViaRO k v => simp [SetOp.disciplined] at ho

theorem whitelist_exact : whitelist.Exact where
  step := by
    intro s h o s' c' he
    cases o with
    | set k fee =>
      simp only [whitelist] at he
      split at he
      · simp at he
      · simp only [Option.some.injEq, Prod.mk.injEq] at he; rw [← he.1, ← he.2]; rfl
    | remove k =>
      simp only [whitelist] at he
      split at he
      · simp at he
      · simp only [Option.some.injEq, Prod.mk.injEq] at he; rw [← he.1, ← he.2]; rfl
    | clean ct =>
      simp only [whitelist, Option.some.injEq, Prod.mk.injEq] at he; rw [← he.1, ← he.2]; rfl
  noLeak := fun _ _ => rfl

theorem management_exact : management.Exact where
  step := by
    intro s h o s' c' he
    cases o with
    | deploy hh =>
      simp only [management] at he
      split at he
      · simp at he
      · simp only [Option.some.injEq, Prod.mk.injEq] at he; rw [← he.1, ← he.2]; rfl
    | update hh =>
      simp only [management] at he
      split at he
      · simp at he
      · simp only [Option.some.injEq, Prod.mk.injEq] at he; rw [← he.1, ← he.2]; rfl
    | destroy hh =>
      simp only [management] at he
      split at he
      · simp at he
      · simp only [Option.some.injEq, Prod.mk.injEq] at he; rw [← he.1, ← he.2]; rfl
  noLeak := fun _ _ => rfl

theorem maxEntry_cons_other (e : (Nat × Nat) × List Nat) (s : RoleStore) (r : Nat) (h : e.1.1 ≠ r) :
    maxEntry (e :: s) r = maxEntry s r := by
  simp [maxEntry, h]

theorem designate_exact : designate.Exact where
  step := by
    intro s h o s' c' he
    cases o with
    | designate r nodes =>
      simp only [designate] at he
      split at he; · simp at he
      split at he; · simp at he
      simp only [Option.some.injEq, Prod.mk.injEq] at he
      rw [← he.1, ← he.2]
      have hi : ∀ t, designate.init t = roleList.map fun r => (r, maxEntry t r) := fun _ => rfl
      rw [hi]
      simp only [List.map_map]
      apply List.map_congr_left
      intro r' _
      simp only [Function.comp]
      by_cases e : r' = r
      · simp [e]
      · simp only [e, if_false]
        rw [maxEntry_cons_other _ _ _ (fun x => e x.symm)]
  noLeak := fun _ _ => rfl

/-- what the layer discipline protects against: a setter that wrote through GetROCache would survive the
    rollback of its transaction — cache 5, storage nothing. -/
theorem settings_ro_write_witness :
    let n := settings.crun { store := [], cache := [], height := 0 } [.block [{ ops := [.setViaRO 1 5], halts := false }]]
    aget n.cache 1 = some 5 ∧ aget n.store 1 = none := by decide

-- gasPerVote ------------------------------------------------------------------------------------------------------
theorem aget_aput_same {β : Type} (l : List (Nat × β)) (k : Nat) (v : β) : aget (aput l k v) k = some v := by
  simp [aget, aput]

theorem aget_filter_ne {β : Type} (l : List (Nat × β)) (k k' : Nat) (h : k' ≠ k) :
    aget (l.filter (·.1 != k)) k' = aget l k' := by
  induction l with
  | nil => rfl
  | cons x xs ih =>
    by_cases hx : x.1 = k
    · have h1 : (x.1 != k) = false := by simp [hx]
      have h2 : (x.1 == k') = false := by simp [hx]; exact fun e => h e.symm
      simp only [List.filter, h1, aget, List.find?, h2] at *
      exact ih
    · have h1 : (x.1 != k) = true := by simp [hx]
      simp only [List.filter, h1, aget, List.find?] at *
      by_cases hk : (x.1 == k') = true
      · simp [hk]
      · simp only [hk]; exact ih

theorem aget_filter_same {β : Type} (l : List (Nat × β)) (k : Nat) : aget (l.filter (·.1 != k)) k = none := by
  induction l with
  | nil => rfl
  | cons x xs ih =>
    by_cases hx : x.1 = k
    · have h1 : (x.1 != k) = false := by simp [hx]
      simp only [List.filter, h1]; exact ih
    · have h1 : (x.1 != k) = true := by simp [hx]
      have h2 : (x.1 == k) = false := by simp [hx]
      simp only [List.filter, h1, aget, List.find?, h2] at *
      exact ih

theorem aget_aput_other {β : Type} (l : List (Nat × β)) (k k' : Nat) (v : β) (h : k' ≠ k) :
    aget (aput l k v) k' = aget l k' := by
  have h2 : (k == k') = false := by simp; exact fun e => h e.symm
  simp only [aput, aget, List.find?, h2]
  exact aget_filter_ne l k k' h

/-- every cached reward-per-vote value is the stored one -/
def GpvCoherent (g : GpvState) : Prop := ∀ k v, aget g.cache k = some v → aget g.store k = some v

theorem gpvStep_coherent (g : GpvState) (o : GpvOp) (h : GpvCoherent g) : GpvCoherent (gpvStep g o) := by
  cases o with
  | write k v =>
    intro k' v' hc
    simp only [gpvStep] at hc ⊢
    by_cases e : k' = k
    · subst e; rw [aget_aput_same] at hc ⊢; exact hc
    · rw [aget_aput_other _ _ _ _ e] at hc ⊢; exact h k' v' hc
  | drop k =>
    intro k' v' hc
    simp only [gpvStep, adel] at hc ⊢
    by_cases e : k' = k
    · subst e; rw [aget_filter_same] at hc; simp at hc
    · rw [aget_filter_ne _ _ _ e] at hc ⊢; exact h k' v' hc
  | restart =>
    intro k' v' hc
    simp [gpvStep, aget] at hc

theorem gpvRun_coherent (ops : List GpvOp) : ∀ g, GpvCoherent g → GpvCoherent (gpvRun g ops) := by
  induction ops with
  | nil => intro g h; exact h
  | cons o os ih => intro g h; exact ih _ (gpvStep_coherent g o h)

theorem gpvLookup_stored (g : GpvState) (h : GpvCoherent g) (k : Nat) : gpvLookup g k = (aget g.store k).getD 0 := by
  unfold gpvLookup
  cases hc : aget g.cache k with
  | none => rfl
  | some v => simp [h k v hc]

end NeoModel.Ledger.Components

-- gasPerBlock ---------------------------------------------------------------------------------------------------
namespace NeoModel.Ledger.Components

def Below (l : List (Nat × Int)) (x : Nat) : Prop := ∀ e ∈ l, e.1 < x

theorem insertRec_append (x : Nat × Int) (l : List (Nat × Int)) (h : Below l x.1) : insertRec x l = l ++ [x] := by
  induction l with
  | nil => rfl
  | cons y r ih =>
    have hy : y.1 < x.1 := h y List.mem_cons_self
    have hr : Below r x.1 := fun e he => h e (List.mem_cons_of_mem _ he)
    simp only [insertRec]
    have : ¬ x.1 ≤ y.1 := by omega
    simp only [this, if_false, ih hr, List.cons_append]

theorem filter_absent (l : List (Nat × Int)) (k : Nat) (h : Below l k) : l.filter (·.1 != k) = l := by
  apply List.filter_eq_self.mpr
  intro e he
  have := h e he
  simp; omega

/-- invariant: the store is the cache newest-first, all indices below the next one -/
structure GpbInv (g : GpbState) (bound : Nat) : Prop where
  rev : g.store = g.cache.reverse
  below : Below g.cache bound

theorem sort_desc (l : List (Nat × Int)) (hs : List.Pairwise (fun a b => b.1 < a.1) l) :
    l.foldr insertRec [] = l.reverse := by
  induction l with
  | nil => rfl
  | cons x r ih =>
    have hp := List.pairwise_cons.mp hs
    simp only [List.foldr_cons, ih hp.2, List.reverse_cons]
    apply insertRec_append
    intro e he
    exact hp.1 e (List.mem_reverse.mp he)

theorem sort_rev (c : List (Nat × Int)) (hs : List.Pairwise (fun a b => a.1 < b.1) c) :
    c.reverse.foldr insertRec [] = c := by
  have := sort_desc c.reverse (List.pairwise_reverse.mpr hs)
  rw [this, List.reverse_reverse]

theorem gpbSet_sorted (g : GpbState) (h : Nat) (v : Int) (b : Nat) (hi : GpbInv g b) (hb : b ≤ h + 1)
    (hs : List.Pairwise (fun a b => a.1 < b.1) g.cache) :
    GpbInv (gpbSet g h v) (h + 2) ∧ List.Pairwise (fun a b => a.1 < b.1) (gpbSet g h v).cache := by
  have hbel : Below g.cache (h + 1) := fun e he => by have := hi.below e he; omega
  refine ⟨⟨?_, ?_⟩, ?_⟩
  · simp only [gpbSet, aput, List.reverse_append, List.reverse_singleton, List.singleton_append]
    rw [hi.rev, filter_absent]
    intro e he
    exact hbel e (List.mem_reverse.mp he)
  · intro e he
    simp only [gpbSet, List.mem_append, List.mem_singleton] at he
    rcases he with he | he
    · have := hbel e he; omega
    · subst he; simp
  · simp only [gpbSet]
    apply List.pairwise_append.mpr
    refine ⟨hs, List.pairwise_singleton _ _, ?_⟩
    intro a ha b' hb'
    simp only [List.mem_singleton] at hb'
    subst hb'
    exact hbel a ha

theorem gpbFold_inv (ops : List (Nat × Int)) : ∀ (g : GpbState) (b : Nat), GpbInv g b →
    List.Pairwise (fun a b => a.1 < b.1) g.cache → Increasing b ops →
    (gpbRestart (gpbFold g ops)).cache = (gpbFold g ops).cache := by
  induction ops with
  | nil =>
    intro g b hi hs _
    simp only [gpbFold, gpbRestart]
    rw [hi.rev]
    exact sort_rev g.cache hs
  | cons o r ih =>
    intro g b hi hs hinc
    obtain ⟨h, v⟩ := o
    simp only [gpbFold]
    have := gpbSet_sorted g h v b hi hinc.1 hs
    exact ih _ (h + 2) this.1 this.2 hinc.2

end NeoModel.Ledger.Components
