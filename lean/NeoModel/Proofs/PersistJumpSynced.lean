/-
Helper lemmas for C02: the node the state-sync module leaves (`syncedNode`: all headers, the trie and the storage of
the sync point, the last MaxTraceableBlocks blocks, the sync point) meets every hypothesis of `jump_resumable`, and
the jump succeeds on it. Core Lean only.
-/
import NeoModel.Proofs.PersistResetMulti
namespace NeoModel.Persist

/-- the writes the state-sync module adds on top of the header-only node. -/
def syncWrites (H : Hist) (P : Nat) : Writes :=
  let items := itemsAt H P
  let blocks : Writes := (List.range H.mtb).flatMap (fun d =>
    (Key.exec (P - d), some (Val.blk (P - d))) :: (List.range (H.ntx (P - d))).map (fun j => (Key.tx (P - d) j, some (Val.txv (P - d)))))
  [(Key.syncPoint, some (Val.ptr P)), (Key.trie P, some (Val.snap items))]
    ++ items.map (fun kv => (Key.stor true kv.1, some (Val.item kv.2))) ++ blocks

theorem syncedNode_db (H : Hist) (B P n : Nat) :
    (syncedNode H B P n).db = applyWrites (syncWrites H P) (run H B [Op.headers n, Op.flush]).1.db := rfl

inductive SyncKey (P : Nat) : Key × Option Val → Prop where
  | sp : SyncKey P (Key.syncPoint, some (Val.ptr P))
  | trie (v) : SyncKey P (Key.trie P, some v)
  | stor (k v) : SyncKey P (Key.stor true k, some v)
  | exec (i) (h : i ≤ P) : SyncKey P (Key.exec i, some (Val.blk i))
  | tx (i j) : SyncKey P (Key.tx i j, some (Val.txv i))

theorem mem_syncWrites {H : Hist} {P : Nat} {p} (hp : p ∈ syncWrites H P) : SyncKey P p := by
  simp only [syncWrites, List.mem_append, List.mem_cons, List.mem_map, List.mem_flatMap, List.mem_range, List.not_mem_nil, or_false] at hp
  rcases hp with ((rfl | rfl) | ⟨kv, _, rfl⟩) | ⟨d, _, rfl | ⟨j, _, rfl⟩⟩
  · exact .sp
  · exact .trie _
  · exact .stor _ _
  · exact .exec _ (Nat.sub_le _ _)
  · exact .tx _ _

theorem applyWrites_txdel (l : List Nat) (X : Db) (k : Key) (hk : ∀ j, k ≠ Key.tx 0 j) :
    applyWrites (l.map (fun j => (Key.tx 0 j, (none : Option Val)))) X k = X k := by
  apply applyWrites_notin
  intro p hp e
  simp at hp
  obtain ⟨j, _, rfl⟩ := hp
  exact hk j e.symm

/-- what the jump reads of a database. -/
structure JumpReady (H : Hist) (P hh : Nat) (db : Db) : Prop where
  lt : P < hh
  ver : ∃ v, db Key.version = some (Val.ver v)
  gen : (db (Key.exec 0)).isSome
  blk : (db (Key.exec P)).isSome
  nxt : (db (Key.exec (P + 1))).isSome
  tri : ∃ it, db (Key.trie P) = some (Val.snap it)

theorem jump_ok_of_ready {H : Hist} {P : Nat} {n : Node} (h : JumpReady H P n.hdrHeight n.db) :
    ∃ bs n', jump H n P = .ok (bs, n') := by
  obtain ⟨v, hv⟩ := h.ver
  obtain ⟨it, hit⟩ := h.tri
  have exA : ∀ i, applyBatch jumpA n.db (Key.exec i) = n.db (Key.exec i) := by
    intro i; simp [jumpA, jmarker, applyBatch, W.apply, Db.set]
  have exB : ∀ i, applyBatch (jumpB v) (applyBatch jumpA n.db) (Key.exec i) = n.db (Key.exec i) := by
    intro i; rw [← exA i]; simp [jumpB, jmarker, applyBatch, W.apply, Db.set]
  have hnlt : ¬ (P ≥ n.hdrHeight) := by have := h.lt; omega
  have e0 : (n.db (Key.exec 0)).isNone = false := by have := h.gen; cases hx : n.db (Key.exec 0) <;> simp_all
  have eP : (n.db (Key.exec P)).isNone = false := by have := h.blk; cases hx : n.db (Key.exec P) <;> simp_all
  simp only [jump, jumpFrom, hnlt, if_false, hv]
  simp [stNone, stJumpStarted, stNewItems, stBlocksRemoved, foldBatches, exA, exB, e0, eP]
  obtain ⟨_, _, fC⟩ := jump_batches_fix H P v (Key.exec (P + 1)) (Or.inr (Or.inr (Or.inr ⟨P + 1, by omega, rfl⟩)))
  have eN : applyBatch (jumpC H P v) (applyBatch (jumpB v) (applyBatch jumpA n.db)) (Key.exec (P + 1)) = n.db (Key.exec (P + 1)) := by
    rw [applyBatch_fixes _ _ _ fC, exB]
  have eN' : ¬ (n.db (Key.exec (P + 1)) = none) := by have := h.nxt; cases hx : n.db (Key.exec (P + 1)) <;> simp_all
  rw [eN, if_neg eN']
  simp only []
  -- the node after the jump
  have hP' : ∃ x, applyBatch (jumpD H P) (applyBatch (jumpC H P v) (applyBatch (jumpB v) (applyBatch jumpA n.db))) (Key.exec P) = some x := by
    have hb := h.blk
    by_cases hP : P > H.mtb
    · by_cases h0 : P = 0
      · omega
      · obtain ⟨_, _, fC'⟩ := jump_batches_fix H P v (Key.exec P) (Or.inr (Or.inr (Or.inr ⟨P, by omega, rfl⟩)))
        have : applyBatch (jumpD H P) (applyBatch (jumpC H P v) (applyBatch (jumpB v) (applyBatch jumpA n.db))) (Key.exec P) = n.db (Key.exec P) := by
          simp only [jumpD, applyBatch, W.apply]
          rw [Db.set_other _ _ (by simp), Db.set_other _ _ (by simp), Db.set_other _ _ (by simp), Db.set_other _ _ (by simp)]
          rw [applyBatch_fixes _ _ _ fC', exB]
        rw [this]; cases hx : n.db (Key.exec P) with
        | none => simp [hx] at hb
        | some x => exact ⟨x, rfl⟩
    · have : applyBatch (jumpD H P) (applyBatch (jumpC H P v) (applyBatch (jumpB v) (applyBatch jumpA n.db))) (Key.exec P) = n.db (Key.exec P) := by
        rw [← exB P]
        simp [jumpD, jumpC, hP, jmarker, applyBatch, W.apply, Db.set, dropStor]
      rw [this]; cases hx : n.db (Key.exec P) with
      | none => simp [hx] at hb
      | some x => exact ⟨x, rfl⟩
  obtain ⟨x, hx⟩ := hP'
  have hV : applyBatch (jumpD H P) (applyBatch (jumpC H P v) (applyBatch (jumpB v) (applyBatch jumpA n.db))) Key.version = some (Val.ver (!v)) := by
    by_cases hP : P > H.mtb <;>
      simp [jumpD, jumpC, jumpB, hP, jmarker, applyBatch, W.apply, Db.set, dropStor, dropXfers, applyBatch_append, applyBatch_ofWrites, applyWrites_append, applyWrites,
        applyWrites_txdel _ _ Key.version (by simp)]
  have hT : applyBatch (jumpD H P) (applyBatch (jumpC H P v) (applyBatch (jumpB v) (applyBatch jumpA n.db))) (Key.trie P) = some (Val.snap it) := by
    rw [← hit]
    by_cases hP : P > H.mtb <;>
      simp [jumpD, jumpC, jumpB, jumpA, hP, jmarker, applyBatch, W.apply, Db.set, dropStor, dropXfers, applyBatch_append, applyBatch_ofWrites, applyWrites_append, applyWrites,
        applyWrites_txdel _ _ (Key.trie P) (by simp)]
  simp only [nodeAfterJump, hx, hV, hT]
  exact ⟨_, _, rfl⟩

theorem headersNode_spec (H : Hist) {B : Nat} (hB : 1 < B) (n : Nat) (hn : 0 < n) :
    let n0 := (run H B [Op.headers n, Op.flush]).1
    Inv H B n0 ∧ n0.cache = [] ∧ n0.hdrHeight = n ∧ n0.height = 0 := by
  intro n0
  have hi : Inv H B n0 := inv_runFrom hB (inv_fresh H hB) _
  have hne : ¬ (n ≤ (fresh H).hdrHeight) := by simp [fresh]; omega
  refine ⟨hi, ?_, ?_, ?_⟩
  · show (runFrom H B (fresh H) [Op.headers n, Op.flush]).1.cache = []
    simp only [runFrom, step, if_neg hne]
    split <;> simp_all
  · show (runFrom H B (fresh H) [Op.headers n, Op.flush]).1.hdrHeight = n
    simp only [runFrom, step, if_neg hne]
    split <;> rfl
  · show (runFrom H B (fresh H) [Op.headers n, Op.flush]).1.height = 0
    simp only [runFrom, step, if_neg hne]
    split <;> rfl

/-- **the node the state-sync module leaves meets every hypothesis of `jump_resumable`**. -/
theorem syncedNode_ready (H : Hist) {B : Nat} (hB : 1 < B) (P n : Nat) (hP : P < n) :
    JumpReady H P (syncedNode H B P n).hdrHeight (syncedNode H B P n).db ∧
    (syncedNode H B P n).db Key.syncPoint = some (Val.ptr P) ∧
    initHeaders B (syncedNode H B P n).db = .ok (syncedNode H B P n).hdrHeight := by
  obtain ⟨hi, hc, hhd, hh0⟩ := headersNode_spec H hB n (by omega)
  generalize hn0 : (run H B [Op.headers n, Op.flush]).1 = n0 at hi hc hhd hh0
  have hdb : (syncedNode H B P n).db = applyWrites (syncWrites H P) n0.db := by rw [syncedNode_db, hn0]
  have hhdr : (syncedNode H B P n).hdrHeight = n := by
    show (run H B [Op.headers n, Op.flush]).1.hdrHeight = n
    rw [hn0]; exact hhd
  have hv : n0.view = n0.db := by simp [Node.view, hc, applyWrites]
  have other : ∀ k, (∀ p, SyncKey P p → p.1 ≠ k) → applyWrites (syncWrites H P) n0.db k = n0.db k :=
    fun k hk => applyWrites_notin _ _ _ (fun p hp => hk p (mem_syncWrites hp))
  have exs : ∀ i, (applyWrites (syncWrites H P) n0.db (Key.exec i)).isSome = (n0.db (Key.exec i)).isSome := by
    intro i
    rcases applyWrites_cases (syncWrites H P) n0.db (Key.exec i) with e | ⟨p, hp, hk, hval⟩
    · rw [e]
    · rw [hval]
      cases mem_syncWrites hp with
      | exec j hj =>
        simp at hk; subst hk
        have := hi.ex j (by omega); rw [hv] at this
        simp [this]
      | sp => simp at hk
      | trie v => simp at hk
      | stor k v => simp at hk
      | tx a b => simp at hk
  have ex0 : ∀ i, i ≤ n → (applyWrites (syncWrites H P) n0.db (Key.exec i)).isSome := by
    intro i hle; rw [exs]; have := hi.ex i (by omega); rwa [hv] at this
  refine ⟨⟨by rw [hhdr]; exact hP, ?_, ?_, ?_, ?_, ?_⟩, ?_, ?_⟩
  · refine ⟨n0.pfx, ?_⟩
    rw [hdb, other _ (by intro p hp; cases hp <;> simp)]
    have := hi.ver; rwa [hv] at this
  · rw [hdb]; exact ex0 0 (by omega)
  · rw [hdb]; exact ex0 P (by omega)
  · rw [hdb]; exact ex0 (P + 1) (by omega)
  · refine ⟨itemsAt H P, ?_⟩
    rw [hdb]
    apply applyWrites_const
    · intro p hp e
      cases mem_syncWrites hp <;> simp at e
      rename_i v
      simp only [syncWrites, List.mem_append, List.mem_cons, List.mem_map, List.mem_flatMap, List.mem_range, List.not_mem_nil, or_false] at hp
      rcases hp with ((hp | hp) | ⟨kv, _, hp⟩) | ⟨d, _, hp | ⟨j, _, hp⟩⟩ <;> simp_all
    · exact ⟨(Key.trie P, some (Val.snap (itemsAt H P))), by simp [syncWrites], rfl⟩
  · rw [hdb]
    apply applyWrites_const
    · intro p hp e
      cases mem_syncWrites hp <;> simp at e
      rfl
    · exact ⟨(Key.syncPoint, some (Val.ptr P)), by simp [syncWrites], rfl⟩
  · rw [hhdr, hdb]
    rw [initHeaders_congr_isSome B n0.db _ (other _ (by intro p hp; cases hp <;> simp)) (fun q => other _ (by intro p hp; cases hp <;> simp)) exs]
    have hch := hi.ch; have hex := hi.ex; have hpg := hi.pg
    rw [hv] at hch hex hpg
    rw [← hhd]
    exact initHeaders_of_inv n0.db n0.hdrHeight hch hex hpg



/-- the node the state-sync module leaves reopens to itself (sync point above genesis). -/
theorem syncedNode_recover (H : Hist) {B S : Nat} (hB : 1 < B) (P n : Nat) (hP0 : 0 < P) (hP : P < n) :
    recover H B S (syncedNode H B P n).db = .ok (syncedNode H B P n) := by
  obtain ⟨hr, hsp, hih⟩ := syncedNode_ready H hB P n hP
  obtain ⟨hi, hc, hhd, hh0⟩ := headersNode_spec H hB n (by omega)
  have hsn : syncedNode H B P n = { (run H B [Op.headers n, Op.flush]).1 with db := (syncedNode H B P n).db } := rfl
  generalize hn0 : (run H B [Op.headers n, Op.flush]).1 = n0 at hi hc hhd hh0 hsn
  have hdb : (syncedNode H B P n).db = applyWrites (syncWrites H P) n0.db := by rw [syncedNode_db, hn0]
  have hhdr : (syncedNode H B P n).hdrHeight = n := by rw [hsn]; exact hhd
  have hv : n0.view = n0.db := by simp [Node.view, hc, applyWrites]
  have other : ∀ k, (∀ p, SyncKey P p → p.1 ≠ k) → (syncedNode H B P n).db k = n0.db k := by
    intro k hk; rw [hdb]; exact applyWrites_notin _ _ _ (fun p hp => hk p (mem_syncWrites hp))
  have e_ver : (syncedNode H B P n).db Key.version = some (Val.ver n0.pfx) := by
    rw [other _ (by intro p hp; cases hp <;> simp)]; have := hi.ver; rwa [hv] at this
  have e_st : (syncedNode H B P n).db Key.stage = none := by
    rw [other _ (by intro p hp; cases hp <;> simp)]; have := hi.st; rwa [hv] at this
  have e_cb : (syncedNode H B P n).db Key.curBlock = some (Val.ptr 0) := by
    rw [other _ (by intro p hp; cases hp <;> simp)]; have := hi.cb; rwa [hv, hh0] at this
  have e_rt : (syncedNode H B P n).db (Key.root 0) = some (Val.rootv (H.hashOf (itemsAt H 0))) := by
    rw [other _ (by intro p hp; cases hp <;> simp)]; have := hi.rt 0 (by omega); rwa [hv] at this
  have e_tr : (syncedNode H B P n).db (Key.trie 0) = some (Val.snap n0.items) := by
    rw [other _ (by intro p hp; cases hp <;> simp; omega)]; have := hi.tr; rwa [hv, hh0] at this
  rw [hhdr] at hih
  simp only [recover, e_ver, hih, e_st, e_cb, e_rt, e_tr]
  rw [hsn]
  obtain ⟨db, cache, height, hdrHeight, items, pfx, mptReady⟩ := n0
  simp at hc hhd hh0
  have := hi.rdy
  simp at this
  simp [hc, hhd, hh0, this]

end NeoModel.Persist
