/-
CompileFull — the full forward simulation for the MiniGo core: expressions with calls, statements with loops,
break/continue and call statements, loop iterations, CALL…RET, proved together by induction on the fuel of the
big-step semantics (`allOK`).
-/
import NeoModel.Proofs.CompileVarDecl
namespace NeoModel.CompileProofs
open NeoModel.MiniVm NeoModel.MiniVm.Asm NeoModel.MiniGo NeoModel.Compile

/-! # Program-level setting -/

/-- the code of every function of `P` sits somewhere in `C` (starting with its label mark). -/
structure ProgCode (C : Code) (P : Prog) : Prop where
  nodup : (labelsOf C).Nodup
  funcs : ∀ (i : Nat) (d : FuncDecl), P[i]? = some d → ∃ pc nl, Placed C pc (compFunc (funcTable P) d i nl).1

theorem tableFrom_lookup (l : List FuncDecl) (k : Nat) (f : String) (d : FuncDecl)
    (h : l.find? (fun d => d.name == f) = some d) :
    ∃ i, l[i]? = some d ∧ (tableFrom l k).lookup f = some (k + i, d.nres) := by
  induction l generalizing k with
  | nil => simp at h
  | cons a r ih =>
    simp only [List.find?] at h
    by_cases hn : (a.name == f) = true
    · simp [hn] at h
      subst h
      have hnf : a.name = f := by simpa using hn
      have : (f == a.name) = true := by simp [hnf]
      exact ⟨0, by simp, by simp [tableFrom, List.lookup, this]⟩
    · have hn' : (a.name == f) = false := by simpa using hn
      simp only [hn'] at h
      obtain ⟨i, hi, hl⟩ := ih (k + 1) h
      have hne : a.name ≠ f := by simpa using hn'
      have : (f == a.name) = false := by simp; exact fun h => hne h.symm
      refine ⟨i + 1, by simpa using hi, ?_⟩
      simp only [tableFrom, List.lookup, this]
      rw [hl]
      congr 2
      omega

theorem find_table {P : Prog} {f : String} {d : FuncDecl} (h : P.find f = some d) :
    ∃ i, P[i]? = some d ∧ (funcTable P).lookup f = some (i, d.nres) := by
  obtain ⟨i, hi, hl⟩ := tableFrom_lookup P 0 f d h
  exact ⟨i, hi, by simpa [funcTable] using hl⟩

theorem step_call {C : Code} {s : State} {l tp : Nat} (hf : C[s.pc]? = some (.ins (.call l)))
    (hl : findLabel C l = some tp) (hd : s.frames.length + 1 < 1024) :
    Asm.step C s = .running (State.mk tp s.stack [] []
      (MiniVm.Frame.mk (s.pc + 1) s.locals s.args s.inited :: s.frames) false) := by
  have : ¬ (s.frames.length + 1 ≥ 1024) := by omega
  simp [Asm.step, hf, stepOp, hl, this]

theorem step_ret {C : Code} {s : State} {f : MiniVm.Frame} {fs : List MiniVm.Frame} (hf : C[s.pc]? = some (.ins .ret))
    (hfr : s.frames = f :: fs) :
    Asm.step C s = .running { pc := f.retPc, stack := s.stack, locals := f.locals, args := f.args, frames := fs, inited := f.inited } := by
  simp [Asm.step, hf, stepOp, hfr]

/-- a post statement: declares nothing (Go allows only simple statements; `i := …` as post statement is not Go). -/
def NoDecl : Stmt → Prop
  | .skip | .assign _ _ | .inc _ | .dec _ => True
  | .opAssign _ op _ => Strict op
  | _ => False

def IsCall : Expr → Prop
  | .call0 _ | .call1 _ _ | .call2 _ _ _ | .call3 _ _ _ _ => True
  | _ => False

/-- the right-hand side of `x, y := f(…)`. -/
def IsCall2 : Expr → Prop
  | .call0 _ | .call1 _ _ | .call2 _ _ _ => True
  | _ => False

/-- an expression that cannot panic: no call, no `/`, no `%`. -/
def NoPanic : Expr → Prop
  | .lit _ | .tt | .ff | .var _ => True
  | .paren e | .neg e | .not e => NoPanic e
  | .bin op a b => op ≠ .div ∧ op ≠ .mod ∧ NoPanic a ∧ NoPanic b
  | _ => False

def IsBoolLit : Expr → Prop
  | .tt | .ff => True
  | _ => False

/-- what `Allowed` knows about the enclosing `for` / `switch` statements, innermost first: (Go label, is a `for`). -/
abbrev Sigs := List (Option String × Bool)

def sigOf (lp : LoopCtx) : Sigs := lp.map (fun e => (e.name, e.isFor))

/-- number of enclosing `switch` statements (each keeps its tag on the VM stack). -/
def swCount : Sigs → Nat
  | [] => 0
  | (_, isFor) :: r => (if isFor then 0 else 1) + swCount r

/-- the innermost enclosing statement labeled `x` is a `for`. -/
def contTarget (x : String) : Sigs → Bool
  | [] => false
  | (n, isFor) :: r => if n == some x then isFor else contTarget x r

def IsClause : Stmt → Prop
  | .caseS _ _ _ _ _ | .defaultS _ => True
  | _ => False

/-- a clause chain: clauses, then `default` or nothing. -/
def IsChain : Stmt → Prop
  | .skip | .defaultS _ => True
  | .caseS _ _ _ _ rest => IsChain rest
  | _ => False

mutual
/-- statements covered by the full statement theorems; `ls` describes the enclosing `for` / `switch` statements.
    `break`/`continue` need something to leave, `break L`/`continue L`
    an enclosing statement labeled `L` (for `continue`: a `for`); a label may only be put on a `for` or a `switch`
    (the only labels Go lets `break`/`continue` refer to); a `switch` may be nested in at most two others (a fourth
    stack item would be dropped with PACK, which MiniVm does not execute); `default` comes last (the clause chain
    ends with it or with `skip`: a `default` in another position is the known finding switch-early-default);
    `fallthrough` in the last clause is not Go (and crashes the compiler).  Excluded: a declaring post statement.
    `return e1, e2`: the compiler evaluates `e2` BEFORE `e1` (known finding return-operands-reversed); in this pure
    fragment that is invisible when both evaluate, so the success theorems do not use the condition, but a panic of
    `e1` would be preceded on the VM by whatever `e2` does — the carve-out is that `e1` cannot panic (no call, `/`,
    `%`) or `e2` is `true` / `false` (the `v, ok` idiom).  `x, y := e`: `e` is a call with at most two arguments. -/
def Allowed (ls : Sigs) : Stmt → Prop
  | .skip | .inc _ | .dec _ | .define _ _ | .assign _ _ | .discard _ | .panicS _ | .ret _ => True
  | .ret2 e1 e2 => NoPanic e1 ∨ IsBoolLit e2
  | .define2 _ _ e => IsCall2 e
  | .seq a b => Allowed ls a ∧ Allowed ls b
  | .opAssign _ op _ => Strict op
  | .varDecl _ _ _ => True
  | .exprStmt e => IsCall e
  | .ite _ t _ e => Allowed ls t ∧ Allowed ls e
  | .loop i _ p b => Allowed ls i ∧ NoDecl p ∧ Allowed ((none, true) :: ls) b
  | .brk => ls ≠ []
  | .cont => ∃ p ∈ ls, p.2 = true
  | .block b => Allowed ls b
  | .labeled x (.loop i _ p b) => Allowed ls i ∧ NoDecl p ∧ Allowed ((some x, true) :: ls) b
  | .labeled x (.switchS _ _ cl) => swCount ls < 3 ∧ AllowedCl ((some x, false) :: ls) cl
  | .labeled _ _ => False
  | .brkL x => ∃ p ∈ ls, p.1 = some x
  | .contL x => contTarget x ls = true
  | .switchS _ _ cl => swCount ls < 3 ∧ AllowedCl ((none, false) :: ls) cl
  | .caseS _ _ _ _ _ => False          -- clauses are statements of a clause chain only
  | .defaultS _ => False
/-- the clause chain of a `switch`: `case` clauses, then `default` or nothing. -/
def AllowedCl (ls : Sigs) : Stmt → Prop
  | .skip => True
  | .defaultS b => Allowed ls b
  | .caseS _ _ b ft rest => Allowed ls b ∧ AllowedCl ls rest ∧ (ft = true → IsClause rest)
  | _ => False
end

theorem allowedCl_chain : ∀ (cl : Stmt) (ls : Sigs), AllowedCl ls cl → IsChain cl
  | .skip, _, _ => trivial
  | .defaultS _, _, _ => trivial
  | .caseS _ _ _ _ rest, ls, h => allowedCl_chain rest ls (by simp only [AllowedCl] at h; exact h.2.1)
  | .seq _ _, _, h | .define _ _, _, h | .assign _ _, _, h | .opAssign _ _ _, _, h | .inc _, _, h | .dec _, _, h
  | .varDecl _ _ _, _, h | .exprStmt _, _, h | .discard _, _, h | .panicS _, _, h | .ite _ _ _ _, _, h
  | .loop _ _ _ _, _, h | .ret _, _, h | .ret2 _ _, _, h | .define2 _ _ _, _, h | .brk, _, h | .cont, _, h | .block _, _, h | .labeled _ _, _, h
  | .brkL _, _, h | .contL _, _, h | .switchS _ _ _, _, h => by simp [AllowedCl] at h

theorem noDecl_allowed {p : Stmt} (h : NoDecl p) (ls : Sigs) : Allowed ls p := by
  cases p <;> simp [NoDecl] at h <;> simp [Allowed] <;> exact h

theorem totalSz_sig (lp : LoopCtx) : totalSz lp = swCount (sigOf lp) := by
  induction lp with
  | nil => rfl
  | cons e r ih =>
    simp only [totalSz, sigOf, List.map_cons, swCount, LEntry.sz]
    rw [ih]; rfl

end NeoModel.CompileProofs

namespace NeoModel.CompileProofs
open NeoModel.MiniVm NeoModel.MiniVm.Asm NeoModel.MiniGo NeoModel.Compile

/-- the label / result count that a call of `f` is compiled with. -/
def fnLabel (P : Prog) (f : String) : Nat := (match (funcTable P).lookup f with | some r => r | none => (0, 0)).1
def fnRes (P : Prog) (f : String) : Nat := (match (funcTable P).lookup f with | some r => r | none => (0, 0)).2

theorem ctx_func {cx : Ctx} {P : Prog} (h : cx.funcs = funcTable P) (f : String) :
    cx.func f = (fnLabel P f, fnRes P f) := by
  simp only [Ctx.func, fnLabel, fnRes, h]
  cases (funcTable P).lookup f <;> rfl

/-- a call that delivers a value: from the CALL instruction (arguments on the stack, first one on top) to the
    instruction after it, with the result in place of the arguments and the caller's frame restored. -/
def CallOK (P : Prog) (C : Code) (fuel : Nat) : Prop :=
  ∀ (f : String) (vs : List Val) (v : Val) (σ : State) (rest : List Val),
    callF fuel P f vs = .ok v → σ.stack = vs ++ rest →
    C[σ.pc]? = some (.ins (.call (fnLabel P f))) → σ.frames.length + fuel < 1024 →
    Reach C σ { σ with pc := σ.pc + 1, stack := v :: rest }

/-- expressions, calls included. -/
def ExprFOK (P : Prog) (C : Code) (cx : Ctx) (sc : Scopes) (env : Env) (fuel : Nat) : Prop :=
  ∀ (e : Expr) (m : Mode) (nl : Nat) (s : State) (v : Val),
    evalE fuel P env e = .ok v →
    Placed C s.pc (compE cx sc e m nl).1 →
    VarsRel cx sc env s.locals s.args → s.frames.length + fuel < 1024 →
    Post C m (compE cx sc e m nl).1.length s v

theorem exprFOK_zero (P : Prog) (C : Code) (cx : Ctx) (sc : Scopes) (env : Env) : ExprFOK P C cx sc env 0 := by
  intro e m nl s v hev
  simp [evalE] at hev

theorem call_post {P : Prog} {C : Code} {cx : Ctx} {fuel : Nat} {m : Mode} {s : State} {c : Code} {f : String}
    {vs : List Val} {v : Val} (htab : cx.funcs = funcTable P) (ihc : CallOK P C fuel)
    (hp : Placed C s.pc (withMode m (c ++ [.ins (.call (cx.func f).1)])))
    (hr : Reach C s { s with pc := s.pc + c.length, stack := vs ++ s.stack })
    (hcall : callF fuel P f vs = .ok v) (hdep : s.frames.length + fuel < 1024) :
    Post C m (withMode m (c ++ [.ins (.call (cx.func f).1)])).length s v := by
  apply withMode_post hp
  refine hr.trans ?_
  have hf : C[s.pc + c.length]? = some (.ins (.call (cx.func f).1)) := (withMode_placed hp).right.head
  rw [ctx_func htab] at hf
  have := ihc f vs v { s with pc := s.pc + c.length, stack := vs ++ s.stack } s.stack hcall rfl hf hdep
  refine this.trans ?_
  simp [Nat.add_assoc]
  exact Reach.refl _ _

theorem exprFOK_succ (P : Prog) (C : Code) (cx : Ctx) (sc : Scopes) (env : Env) (fuel : Nat)
    (hn : (labelsOf C).Nodup) (htab : cx.funcs = funcTable P)
    (ih : ExprFOK P C cx sc env fuel) (ihc : CallOK P C fuel) : ExprFOK P C cx sc env (fuel + 1) := by
  intro e m nl s v hev hp hrel hdep
  have hdep' : s.frames.length + fuel < 1024 := by omega
  cases e with
  | lit n =>
    simp only [evalE] at hev
    obtain ⟨rfl, _⟩ := chk_ok hev
    simp only [compE] at hp ⊢
    exact push_post hp rfl (by simp [stepData])
  | tt =>
    simp only [evalE] at hev; cases hev
    simp only [compE] at hp ⊢
    exact push_post hp rfl (by simp [stepData])
  | ff =>
    simp only [evalE] at hev; cases hev
    simp only [compE] at hp ⊢
    exact push_post hp rfl (by simp [stepData])
  | var x =>
    simp only [evalE] at hev
    cases hg : env.get x with
    | none => simp [hg] at hev
    | some w =>
      simp [hg] at hev; subst hev
      obtain ⟨op, hop, hkind, hstep⟩ := load_correct hrel hg
      simp only [compE, hop] at hp ⊢
      refine push_post hp ?_ (hstep _)
      rcases hkind with h | ⟨j, h⟩ <;> subst h <;> rfl
  | paren e =>
    simp only [evalE] at hev
    simp only [compE] at hp ⊢
    have hp' := withMode_placed hp
    have := ih e .val nl s v hev hp' hrel hdep'
    exact withMode_post hp this
  | neg e =>
    simp only [evalE] at hev
    simp only [compE] at hp ⊢
    cases hx : evalE fuel P env e with
    | ok x =>
      rw [hx] at hev
      cases x with
      | int n =>
        simp only at hev
        obtain ⟨rfl, hfit⟩ := chk_ok hev
        have hp' : Placed C s.pc (compE cx sc e .val nl).1 := (withMode_placed hp).left
        have hr := ih e .val nl s (.int n) hx hp' hrel hdep'
        exact op_post hp rfl hr (by simp [stepData, Val.toInt?, mkInt, hfit])
      | bool b => simp at hev
      | null => simp at hev
    | panic => rw [hx] at hev; simp at hev
    | overflow => rw [hx] at hev; simp at hev
    | stuck => rw [hx] at hev; simp at hev
    | timeout => rw [hx] at hev; simp at hev
  | not e =>
    simp only [evalE] at hev
    simp only [compE] at hp ⊢
    cases hx : evalE fuel P env e with
    | ok x =>
      rw [hx] at hev
      cases x with
      | bool b =>
        simp only at hev
        cases hev
        have hp' : Placed C s.pc (compE cx sc e .val nl).1 := (withMode_placed hp).left
        have hr := ih e .val nl s (.bool b) hx hp' hrel hdep'
        exact op_post hp rfl hr (by simp [stepData, Val.toBool])
      | int n => simp at hev
      | null => simp at hev
    | panic => rw [hx] at hev; simp at hev
    | overflow => rw [hx] at hev; simp at hev
    | stuck => rw [hx] at hev; simp at hev
    | timeout => rw [hx] at hev; simp at hev
  | bin op a b =>
    by_cases hlog : op = .land ∨ op = .lor
    · have hc : (op == .land || op == .lor) = true := by
        rcases hlog with rfl | rfl <;> rfl
      have hev' := evalE_logic hlog hev
      generalize hcs : (op == BinOp.lor) = cs at hev'
      simp only at hev'
      cases m with
      | jump cond t =>
        rw [compE_logic_jump cx sc op a b cond t nl hlog] at hp ⊢
        rw [hcs] at hp ⊢
        generalize hca : compE cx sc a (.jump cs (if cond == cs then t else nl)) (nl + 1) = ra_ at hp ⊢
        obtain ⟨ca, nl1⟩ := ra_
        generalize hcb : compE cx sc b (.jump cond t) nl1 = rb_ at hp ⊢
        obtain ⟨cb, nl2⟩ := rb_
        simp only at hp ⊢
        simp only [Post]
        intro tp hl
        have hpa : Placed C s.pc ca := hp.left.left
        have hpb : Placed C (s.pc + ca.length) cb := hp.left.right
        have hpe : Placed C (s.pc + (ca ++ cb).length) [.lbl nl] := hp.right
        have hle : findLabel C nl = some (s.pc + (ca ++ cb).length) := hpe.label hn
        have hla : ∃ tpa, findLabel C (if (cond == cs) = true then t else nl) = some tpa ∧
            tpa = if (cond == cs) = true then tp else s.pc + (ca ++ cb).length := by
          by_cases hcc : (cond == cs) = true <;> simp [hcc, hl, hle]
        obtain ⟨tpa, hla1, hla2⟩ := hla
        have stepEnd : Reach C { s with pc := s.pc + (ca ++ cb).length } { s with pc := s.pc + (ca ++ cb ++ [Item.lbl nl]).length } := by
          have := step_lbl (s := { s with pc := s.pc + (ca ++ cb).length }) hpe.head
          refine (Reach.step this).trans ?_
          simp [Nat.add_assoc]
          exact Reach.refl _ _
        rcases hev' with ⟨hxa, rfl⟩ | ⟨hxa, y, hyb, rfl⟩
        · have ra := ih a _ (nl + 1) s _ hxa (by rw [hca]; exact hpa) hrel hdep'
          rw [hca] at ra
          simp only [Post] at ra
          have ra := ra tpa hla1
          simp only [Val.toBool, beq_self_eq_true, if_true] at ra
          subst hla2
          by_cases hcc : (cond == cs) = true
          · have : cs = cond := by cases cs <;> cases cond <;> simp_all
            subst this
            simpa [Val.toBool, hcc] using ra
          · have hne : (cs == cond) = false := by cases cs <;> cases cond <;> simp_all
            simp only [hcc] at ra
            simp only [Val.toBool, hne]
            exact ra.trans (by simpa using stepEnd)
        · have ra := ih a _ (nl + 1) s _ hxa (by rw [hca]; exact hpa) hrel hdep'
          rw [hca] at ra
          simp only [Post] at ra
          have ra := ra tpa hla1
          have hnb : ((!cs) == cs) = false := by cases cs <;> rfl
          simp only [Val.toBool, hnb] at ra
          have rb := ih b _ nl1 { s with pc := s.pc + ca.length } _ hyb (by rw [hcb]; exact hpb) hrel hdep'
          rw [hcb] at rb
          simp only [Post] at rb
          have rb := rb tp hl
          refine ra.trans (rb.trans ?_)
          simp only [Val.toBool]
          by_cases hyc : (y == cond) = true
          · simp [hyc]; exact Reach.refl _ _
          · simp only [hyc]
            have : s.pc + ca.length + cb.length = s.pc + (ca ++ cb).length := by simp [Nat.add_assoc]
            simp only [Bool.false_eq_true, if_false, this]
            simpa using stepEnd
      | val =>
        rw [compE_logic_val cx sc op a b nl hlog] at hp ⊢
        rw [hcs] at hp ⊢
        generalize hca : compE cx sc a (.jump cs (nl + 1)) (nl + 2) = ra_ at hp ⊢
        obtain ⟨ca, nl1⟩ := ra_
        generalize hcb : compE cx sc b .val nl1 = rb_ at hp ⊢
        obtain ⟨cb, nl2⟩ := rb_
        simp only at hp ⊢
        simp only [Post]
        have hpa : Placed C s.pc ca := hp.left.left
        have hpb : Placed C (s.pc + ca.length) cb := hp.left.right
        have hp0 : Placed C (s.pc + (ca ++ cb).length) [.ins (.jmp nl), .lbl (nl + 1), .ins (if cs then Op.pushT else Op.pushF), .lbl nl] := hp.right
        have hp1 := hp0.tail
        have hp2 := hp1.tail
        have hp3 := hp2.tail
        have hpush : findLabel C (nl + 1) = some (s.pc + (ca ++ cb).length + 1) := hp1.label hn
        have hend : findLabel C nl = some (s.pc + (ca ++ cb).length + 1 + 1 + 1) := hp3.label hn
        have hlen : (ca ++ cb ++ [Item.ins (Op.jmp nl), Item.lbl (nl + 1), Item.ins (if cs then Op.pushT else Op.pushF), Item.lbl nl]).length
            = (ca ++ cb).length + 4 := by simp; omega
        rw [hlen]
        -- the last mark
        have stepEnd : ∀ stk : List Val, Reach C { s with pc := s.pc + (ca ++ cb).length + 1 + 1 + 1, stack := stk }
            { s with pc := s.pc + ((ca ++ cb).length + 4), stack := stk } := by
          intro stk
          have := step_lbl (s := { s with pc := s.pc + (ca ++ cb).length + 1 + 1 + 1, stack := stk }) hp3.head
          refine (Reach.step this).trans ?_
          simp [Nat.add_assoc]
          exact Reach.refl _ _
        rcases hev' with ⟨hxa, rfl⟩ | ⟨hxa, y, hyb, rfl⟩
        · have ra := ih a _ (nl + 2) s _ hxa (by rw [hca]; exact hpa) hrel hdep'
          rw [hca] at ra
          simp only [Post] at ra
          have ra := ra _ hpush
          simp only [Val.toBool, beq_self_eq_true, if_true] at ra
          refine ra.trans ?_
          have s1 := step_lbl (s := { s with pc := s.pc + (ca ++ cb).length + 1 }) hp1.head
          refine (Reach.step s1).trans ?_
          have hd : isData (if cs then (Op.pushT : Op Nat) else Op.pushF) = true := by cases cs <;> rfl
          have s2 := step_data (s := { s with pc := s.pc + (ca ++ cb).length + 1 + 1 }) (stk := .bool cs :: s.stack)
            (loc := s.locals) (ar := s.args) hp2.head hd (by cases cs <;> simp [stepData])
          refine (Reach.step s2).trans ?_
          simpa using stepEnd (.bool cs :: s.stack)
        · have ra := ih a _ (nl + 2) s _ hxa (by rw [hca]; exact hpa) hrel hdep'
          rw [hca] at ra
          simp only [Post] at ra
          have ra := ra _ hpush
          have hnb : ((!cs) == cs) = false := by cases cs <;> rfl
          simp only [Val.toBool, hnb] at ra
          have rb := ih b _ nl1 { s with pc := s.pc + ca.length } _ hyb (by rw [hcb]; exact hpb) hrel hdep'
          rw [hcb] at rb
          simp only [Post] at rb
          refine ra.trans (rb.trans ?_)
          have hpc : s.pc + ca.length + cb.length = s.pc + (ca ++ cb).length := by simp [Nat.add_assoc]
          have s1 := step_jmp (s := { s with pc := s.pc + (ca ++ cb).length, stack := .bool y :: s.stack }) hp0.head hend
          simp only [hpc]
          refine (Reach.step s1).trans ?_
          simpa using stepEnd (.bool y :: s.stack)
    · have hst : Strict op := ⟨fun h => hlog (Or.inl h), fun h => hlog (Or.inr h)⟩
      obtain ⟨x, y, hx, hy, hb⟩ := evalE_bin_strict hst hev
      have hc : (op == .land || op == .lor) = false := by
        cases op <;> simp_all
      rcases hca : compE cx sc a .val nl with ⟨ca, nl1⟩
      rcases hcb : compE cx sc b .val nl1 with ⟨cb, nl2⟩
      -- both operands are evaluated onto the stack
      have hab : ∀ rest : Code, Placed C s.pc (ca ++ cb ++ rest) →
          Reach C s { s with pc := s.pc + (ca ++ cb).length, stack := y :: x :: s.stack } := by
        intro rest hpr
        have hpa : Placed C s.pc ca := hpr.left.left
        have ra := ih a .val nl s x hx (by rw [hca]; exact hpa) hrel hdep'
        rw [hca] at ra
        simp only [Post] at ra
        have hpb : Placed C (s.pc + ca.length) cb := hpr.left.right
        have rb := ih b .val nl1 { s with pc := s.pc + ca.length, stack := x :: s.stack } y hy
          (by rw [hcb]; exact hpb) hrel hdep'
        rw [hcb] at rb
        simp only [Post] at rb
        refine ra.trans (rb.trans ?_)
        simp [Nat.add_assoc]
        exact Reach.refl _ _
      cases m with
      | val =>
        have hcode : (compE cx sc (.bin op a b) .val nl).1 = withMode .val ((ca ++ cb) ++ [.ins (tokenOp op)]) := by
          simp [compE, hc, hca, hcb, withMode]
        rw [hcode] at hp ⊢
        have hd : isData (tokenOp op) = true := by cases op <;> rfl
        exact op_post hp hd (hab _ (by simpa [withMode] using hp)) (evalBin_token hst hb _ _ _)
      | jump cond t =>
        cases hj : jumpFor op with
        | none =>
          have hcode : (compE cx sc (.bin op a b) (.jump cond t) nl).1 = withMode (.jump cond t) ((ca ++ cb) ++ [.ins (tokenOp op)]) := by
            simp [compE, hc, hca, hcb, withMode, hj]
          rw [hcode] at hp ⊢
          have hd : isData (tokenOp op) = true := by cases op <;> rfl
          exact op_post hp hd (hab _ (by simpa [withMode] using hp)) (evalBin_token hst hb _ _ _)
        | some c =>
          have hcode : (compE cx sc (.bin op a b) (.jump cond t) nl).1 = ca ++ cb ++ [.ins (.jmpCmp (if cond then c else negCmp c) t)] := by
            simp [compE, hc, hca, hcb, hj]
          rw [hcode] at hp ⊢
          obtain ⟨i, j, rfl, rfl, rfl⟩ := evalBin_jump hj hb
          simp only [Post]
          intro tp hl
          refine (hab _ hp).trans ?_
          have hf : C[s.pc + (ca ++ cb).length]? = some (.ins (.jmpCmp (if cond then c else negCmp c) t)) := hp.right.head
          have := step_jmpCmp (s := { s with pc := s.pc + (ca ++ cb).length, stack := .int j :: .int i :: s.stack }) hf hl rfl
          refine (Reach.step this).trans ?_
          cases cond <;> simp [negCmp_eval, Val.toBool, Nat.add_assoc] <;> cases c.eval i j <;> simp <;> exact Reach.refl _ _
  | call0 f =>
    simp only [evalE] at hev
    simp only [compE] at hp ⊢
    exact call_post (c := []) (vs := []) htab ihc (by simpa using hp) (by simpa using Reach.refl C s) hev hdep'
  | call1 f a =>
    simp only [evalE] at hev
    simp only [compE] at hp ⊢
    cases hx : evalE fuel P env a with
    | ok x =>
      rw [hx] at hev
      simp only at hev
      have hpa : Placed C s.pc (compE cx sc a .val nl).1 := (withMode_placed hp).left
      have ra := ih a .val nl s x hx hpa hrel hdep'
      simp only [Post] at ra
      exact call_post (vs := [x]) htab ihc hp (by simpa using ra) hev hdep'
    | panic => rw [hx] at hev; simp at hev
    | overflow => rw [hx] at hev; simp at hev
    | stuck => rw [hx] at hev; simp at hev
    | timeout => rw [hx] at hev; simp at hev
  | call2 f a b =>
    simp only [evalE] at hev
    simp only [compE, emitReverse] at hp ⊢
    cases hx : evalE fuel P env a with
    | ok x =>
      rw [hx] at hev
      simp only at hev
      cases hy : evalE fuel P env b with
      | ok y =>
        rw [hy] at hev
        simp only at hev
        rcases hca : compE cx sc a .val nl with ⟨ca, nl1⟩
        rcases hcb : compE cx sc b .val nl1 with ⟨cb, nl2⟩
        simp only [hca, hcb] at hp ⊢
        have hp0 := withMode_placed hp
        have hpa : Placed C s.pc ca := hp0.left.left.left
        have ra := ih a .val nl s x hx (by rw [hca]; exact hpa) hrel hdep'
        rw [hca] at ra
        simp only [Post] at ra
        have hpb : Placed C (s.pc + ca.length) cb := hp0.left.left.right
        have rb := ih b .val nl1 { s with pc := s.pc + ca.length, stack := x :: s.stack } y hy
          (by rw [hcb]; exact hpb) hrel hdep'
        rw [hcb] at rb
        simp only [Post] at rb
        have hsw := run_data (C := C) (σ := { s with pc := s.pc + ca.length + cb.length, stack := y :: x :: s.stack })
          (op := .swap) (stk := x :: y :: s.stack) (loc := s.locals) (ar := s.args)
          ((hp0.left.right.cast (by simp [Nat.add_assoc])).head) rfl (by simp [stepData])
        have hr : Reach C s { s with pc := s.pc + (ca ++ cb ++ [Item.ins Op.swap]).length, stack := [x, y] ++ s.stack } := by
          refine ra.trans (rb.trans (hsw.trans ?_))
          simp [Nat.add_assoc]
          exact Reach.refl _ _
        exact call_post (c := ca ++ cb ++ [Item.ins Op.swap]) (vs := [x, y]) htab ihc hp hr hev hdep'
      | panic => rw [hy] at hev; simp at hev
      | overflow => rw [hy] at hev; simp at hev
      | stuck => rw [hy] at hev; simp at hev
      | timeout => rw [hy] at hev; simp at hev
    | panic => rw [hx] at hev; simp at hev
    | overflow => rw [hx] at hev; simp at hev
    | stuck => rw [hx] at hev; simp at hev
    | timeout => rw [hx] at hev; simp at hev
  | call3 f a b c =>
    simp only [evalE] at hev
    simp only [compE, emitReverse] at hp ⊢
    cases hx : evalE fuel P env a with
    | ok x =>
      rw [hx] at hev
      simp only at hev
      cases hy : evalE fuel P env b with
      | ok y =>
        rw [hy] at hev
        simp only at hev
        cases hz : evalE fuel P env c with
        | ok z =>
          rw [hz] at hev
          simp only at hev
          rcases hca : compE cx sc a .val nl with ⟨ca, nl1⟩
          rcases hcb : compE cx sc b .val nl1 with ⟨cb, nl2⟩
          rcases hcc : compE cx sc c .val nl2 with ⟨cc, nl3⟩
          simp only [hca, hcb, hcc] at hp ⊢
          have hp0 := withMode_placed hp
          have hpa : Placed C s.pc ca := hp0.left.left.left.left
          have ra := ih a .val nl s x hx (by rw [hca]; exact hpa) hrel hdep'
          rw [hca] at ra
          simp only [Post] at ra
          have hpb : Placed C (s.pc + ca.length) cb := hp0.left.left.left.right
          have rb := ih b .val nl1 { s with pc := s.pc + ca.length, stack := x :: s.stack } y hy
            (by rw [hcb]; exact hpb) hrel hdep'
          rw [hcb] at rb
          simp only [Post] at rb
          have hpc : Placed C (s.pc + ca.length + cb.length) cc := hp0.left.left.right.cast (by simp [Nat.add_assoc])
          have rc := ih c .val nl2 { s with pc := s.pc + ca.length + cb.length, stack := y :: x :: s.stack } z hz
            (by rw [hcc]; exact hpc) hrel hdep'
          rw [hcc] at rc
          simp only [Post] at rc
          have hsw := run_data (C := C) (σ := { s with pc := s.pc + ca.length + cb.length + cc.length, stack := z :: y :: x :: s.stack })
            (op := .reverse3) (stk := x :: y :: z :: s.stack) (loc := s.locals) (ar := s.args)
            ((hp0.left.right.cast (by simp [Nat.add_assoc])).head) rfl (by simp [stepData])
          have hr : Reach C s { s with pc := s.pc + (ca ++ cb ++ cc ++ [Item.ins Op.reverse3]).length, stack := [x, y, z] ++ s.stack } := by
            refine ra.trans (rb.trans (rc.trans (hsw.trans ?_)))
            simp [Nat.add_assoc]
            exact Reach.refl _ _
          exact call_post (c := ca ++ cb ++ cc ++ [Item.ins Op.reverse3]) (vs := [x, y, z]) htab ihc hp hr hev hdep'
        | panic => rw [hz] at hev; simp at hev
        | overflow => rw [hz] at hev; simp at hev
        | stuck => rw [hz] at hev; simp at hev
        | timeout => rw [hz] at hev; simp at hev
      | panic => rw [hy] at hev; simp at hev
      | overflow => rw [hy] at hev; simp at hev
      | stuck => rw [hy] at hev; simp at hev
      | timeout => rw [hy] at hev; simp at hev
    | panic => rw [hx] at hev; simp at hev
    | overflow => rw [hx] at hev; simp at hev
    | stuck => rw [hx] at hev; simp at hev
    | timeout => rw [hx] at hev; simp at hev

end NeoModel.CompileProofs

namespace NeoModel.CompileProofs
open NeoModel.MiniVm NeoModel.MiniVm.Asm NeoModel.MiniGo NeoModel.Compile

/-- everything but the program counter and the slot contents is as before (stack-depth discipline). -/
structure Same (σ σ' : State) : Prop where
  stack : σ'.stack = σ.stack
  frames : σ'.frames = σ.frames
  inited : σ'.inited = σ.inited
  len : σ'.locals.length = σ.locals.length

theorem Same.refl (σ : State) : Same σ σ := ⟨rfl, rfl, rfl, rfl⟩
theorem Same.trans {a b c : State} (h1 : Same a b) (h2 : Same b c) : Same a c :=
  ⟨h2.stack.trans h1.stack, h2.frames.trans h1.frames, h2.inited.trans h1.inited, h2.len.trans h1.len⟩

/-- … except that the `k` topmost stack items (tags of the `switch` statements that are left) are gone. -/
structure SameD (k : Nat) (σ σ' : State) : Prop where
  stack : σ'.stack = σ.stack.drop k
  frames : σ'.frames = σ.frames
  inited : σ'.inited = σ.inited
  len : σ'.locals.length = σ.locals.length

theorem Same.toD {σ σ' : State} (h : Same σ σ') : SameD 0 σ σ' := ⟨by simpa using h.stack, h.frames, h.inited, h.len⟩
theorem SameD.of_same {k : Nat} {a b c : State} (h1 : Same a b) (h2 : SameD k b c) : SameD k a c :=
  ⟨by rw [h2.stack, h1.stack], h2.frames.trans h1.frames, h2.inited.trans h1.inited, h2.len.trans h1.len⟩
theorem SameD.then_same {k : Nat} {a b c : State} (h1 : SameD k a b) (h2 : Same b c) : SameD k a c :=
  ⟨by rw [h2.stack, h1.stack], h2.frames.trans h1.frames, h2.inited.trans h1.inited, h2.len.trans h1.len⟩

/-- the environment without its `d` innermost frames. -/
def dropEnv (env : Env) (d : Nat) : Env := { env with frames := env.frames.drop d }

/-- what the code of a statement achieves.  `endpc`: where normal completion ends; `scN`: compile-time scopes after
    the statement; `scA`: scopes before it; `lp`: the enclosing `for`/`switch` statements.  A `return` has dropped the
    tags of all enclosing `switch` statements before it evaluates its result; a `break`/`continue` reaches the end /
    post mark of the statement it refers to with the tags of the statements it leaves dropped, and the slots describe
    the frames of that statement's scope depth (`scLen`). -/
def StmtPostF (cx : Ctx) (C : Code) (σ : State) (endpc : Nat) (scN scA : Scopes) (lp : LoopCtx) : SOut → Prop
  | .norm env' => ∃ σ', Reach C σ σ' ∧ σ'.pc = endpc ∧ Same σ σ' ∧ VarsRel cx scN env' σ'.locals σ'.args
  | .ret v => ∃ σ', Reach C σ σ' ∧ C[σ'.pc]? = some (.ins .ret) ∧ σ'.stack = v ++ σ.stack.drop (totalSz lp) ∧
      σ'.frames = σ.frames
  | .brk l env' => ∃ dr e, findBrk l lp 0 = some (dr, e) ∧ ∀ bp, findLabel C e.endL = some bp →
      ∃ σ', Reach C σ σ' ∧ σ'.pc = bp ∧ SameD dr σ σ' ∧
        VarsRel cx (scA.drop (scA.length - e.scLen)) (dropEnv env' (scA.length - e.scLen)) σ'.locals σ'.args
  | .cont l env' => ∃ dr e, findCont l lp 0 = some (dr, e) ∧ e.isFor = true ∧ ∀ cp, findLabel C e.postL = some cp →
      ∃ σ', Reach C σ σ' ∧ σ'.pc = cp ∧ SameD dr σ σ' ∧
        VarsRel cx (scA.drop (scA.length - e.scLen)) (dropEnv env' (scA.length - e.scLen)) σ'.locals σ'.args

/-- the post-condition seen from an earlier state that differs only in pc / slots. -/
theorem post_prefix {cx : Ctx} {C : Code} {σ σ0 : State} {endpc : Nat} {scN scA : Scopes} {lp : LoopCtx} {out : SOut}
    (hr : Reach C σ σ0) (hs : Same σ σ0) (h : StmtPostF cx C σ0 endpc scN scA lp out) :
    StmtPostF cx C σ endpc scN scA lp out := by
  cases out with
  | norm e =>
    obtain ⟨σ', h1, h2, h3, h4⟩ := h
    exact ⟨σ', hr.trans h1, h2, hs.trans h3, h4⟩
  | ret v =>
    obtain ⟨σ', h1, h2, h3, h4⟩ := h
    exact ⟨σ', hr.trans h1, h2, by rw [h3, hs.stack], by rw [h4, hs.frames]⟩
  | brk l e =>
    obtain ⟨dr, en, hl, h⟩ := h
    refine ⟨dr, en, hl, fun bp hb => ?_⟩
    obtain ⟨σ', h1, h2, h3, h4⟩ := h bp hb
    exact ⟨σ', hr.trans h1, h2, SameD.of_same hs h3, h4⟩
  | cont l e =>
    obtain ⟨dr, en, hl, hf, h⟩ := h
    refine ⟨dr, en, hl, hf, fun bp hb => ?_⟩
    obtain ⟨σ', h1, h2, h3, h4⟩ := h bp hb
    exact ⟨σ', hr.trans h1, h2, SameD.of_same hs h3, h4⟩

theorem dropEnv_pop (env : Env) (d : Nat) : dropEnv env.pop d = dropEnv env (d + 1) := by
  simp [dropEnv, Env.pop, List.drop_tail]

theorem drop_of_tail_eq {α : Type} {a b : List α} {d : Nat} (h : a.tail = b.tail) (hd : 1 ≤ d) : a.drop d = b.drop d := by
  cases d with
  | zero => omega
  | succ n =>
    cases a <;> cases b <;> simp_all

/-- every enclosing statement's scope depth is below (`Deep`) / at most (`Deepish`) the current one. -/
def Deep (lp : LoopCtx) (n : Nat) : Prop := ∀ e ∈ lp, e.scLen < n
def Deepish (lp : LoopCtx) (n : Nat) : Prop := ∀ e ∈ lp, e.scLen ≤ n

theorem Deep.ish {lp : LoopCtx} {n : Nat} (h : Deep lp n) : Deepish lp n := fun e he => Nat.le_of_lt (h e he)
theorem Deepish.succ {lp : LoopCtx} {n : Nat} (h : Deepish lp n) : Deep lp (n + 1) := fun e he => Nat.lt_succ_of_le (h e he)
theorem Deep.mono {lp : LoopCtx} {n m : Nat} (h : Deep lp n) (hnm : n ≤ m) : Deep lp m := fun e he => Nat.lt_of_lt_of_le (h e he) hnm

theorem findBrk_mem {l : Option String} {lp : LoopCtx} {acc dr : Nat} {e : LEntry} (h : findBrk l lp acc = some (dr, e)) : e ∈ lp := by
  induction lp generalizing acc with
  | nil => simp [findBrk] at h
  | cons a r ih =>
    cases l with
    | none => simp [findBrk] at h; simp [h.2]
    | some x =>
      simp only [findBrk] at h
      split at h
      · cases h; simp
      · exact List.mem_cons_of_mem _ (ih h)

theorem findCont_mem {l : Option String} {lp : LoopCtx} {acc dr : Nat} {e : LEntry} (h : findCont l lp acc = some (dr, e)) : e ∈ lp := by
  induction lp generalizing acc with
  | nil => simp [findCont] at h
  | cons a r ih =>
    cases l with
    | none =>
      simp only [findCont] at h
      split at h
      · cases h; simp
      · exact List.mem_cons_of_mem _ (ih h)
    | some x =>
      simp only [findCont] at h
      split at h
      · cases h; simp
      · exact List.mem_cons_of_mem _ (ih h)

/-- an abrupt exit (break / continue) seen from one scope further out. -/
theorem post_pop' {cx : Ctx} {C : Code} {σ : State} {e1 e2 : Nat} {scN scN' scA scB : Scopes} {lp : LoopCtx} {l : Option String} {env' : Env}
    (hd : Deepish lp scA.length) (ht : scB.tail = scA) (hlen : scB.length = scA.length + 1) :
    (StmtPostF cx C σ e1 scN scB lp (.brk l env') → StmtPostF cx C σ e2 scN' scA lp (.brk l env'.pop)) ∧
    (StmtPostF cx C σ e1 scN scB lp (.cont l env') → StmtPostF cx C σ e2 scN' scA lp (.cont l env'.pop)) := by
  have hdrop : ∀ k, scB.drop (k + 1) = scA.drop k := by
    intro k; rw [← ht]; cases scB <;> simp
  constructor
  · intro h
    obtain ⟨dr, en, hl, h⟩ := h
    refine ⟨dr, en, hl, fun bp hb => ?_⟩
    obtain ⟨σ', h1, h2, h3, h4⟩ := h bp hb
    refine ⟨σ', h1, h2, h3, ?_⟩
    have hle := hd en (findBrk_mem hl)
    have : scB.length - en.scLen = (scA.length - en.scLen) + 1 := by omega
    rw [this, hdrop] at h4
    simpa [dropEnv_pop] using h4
  · intro h
    obtain ⟨dr, en, hl, hf, h⟩ := h
    refine ⟨dr, en, hl, hf, fun bp hb => ?_⟩
    obtain ⟨σ', h1, h2, h3, h4⟩ := h bp hb
    refine ⟨σ', h1, h2, h3, ?_⟩
    have hle := hd en (findCont_mem hl)
    have : scB.length - en.scLen = (scA.length - en.scLen) + 1 := by omega
    rw [this, hdrop] at h4
    simpa [dropEnv_pop] using h4

theorem post_pop {cx : Ctx} {C : Code} {σ : State} {e1 e2 : Nat} {scN scN' scA : Scopes} {lp : LoopCtx} {l : Option String} {env' : Env}
    (hd : Deepish lp scA.length) :
    (StmtPostF cx C σ e1 scN ([] :: scA) lp (.brk l env') → StmtPostF cx C σ e2 scN' scA lp (.brk l env'.pop)) ∧
    (StmtPostF cx C σ e1 scN ([] :: scA) lp (.cont l env') → StmtPostF cx C σ e2 scN' scA lp (.cont l env'.pop)) :=
  post_pop' hd rfl rfl

theorem post_ret {cx : Ctx} {C : Code} {σ : State} {e1 e2 : Nat} {scN scN' scA scA' : Scopes} {lp : LoopCtx} {v : List Val}
    (h : StmtPostF cx C σ e1 scN scA lp (.ret v)) : StmtPostF cx C σ e2 scN' scA' lp (.ret v) := h

/-- the same for a statement that follows others in its block (they may have declared into the innermost scope). -/
theorem post_seq {cx : Ctx} {C : Code} {σ : State} {e1 e2 : Nat} {scN scN' scA scA' : Scopes} {lp : LoopCtx}
    (ht : scA.tail = scA'.tail) (hlen : scA.length = scA'.length) (hd : Deep lp scA.length) {out : SOut} (hne : ∀ e, out ≠ .norm e)
    (h : StmtPostF cx C σ e1 scN scA lp out) : StmtPostF cx C σ e2 scN' scA' lp out := by
  cases out with
  | norm e => exact absurd rfl (hne e)
  | ret v => exact h
  | brk l e =>
    obtain ⟨dr, en, hl, h⟩ := h
    refine ⟨dr, en, hl, fun bp hb => ?_⟩
    obtain ⟨σ', h1, h2, h3, h4⟩ := h bp hb
    have := hd en (findBrk_mem hl)
    refine ⟨σ', h1, h2, h3, ?_⟩
    rw [← hlen, ← drop_of_tail_eq ht (by omega)]
    exact h4
  | cont l e =>
    obtain ⟨dr, en, hl, hf, h⟩ := h
    refine ⟨dr, en, hl, hf, fun bp hb => ?_⟩
    obtain ⟨σ', h1, h2, h3, h4⟩ := h bp hb
    have := hd en (findCont_mem hl)
    refine ⟨σ', h1, h2, h3, ?_⟩
    rw [← hlen, ← drop_of_tail_eq ht (by omega)]
    exact h4

/-- a call in statement position (result dropped by the caller). -/
def CallSOK (P : Prog) (C : Code) (fuel : Nat) : Prop :=
  ∀ (f : String) (vs : List Val) (σ : State) (rest : List Val),
    callS fuel P f vs = .ok () → σ.stack = vs ++ rest →
    C[σ.pc]? = some (.ins (.call (fnLabel P f))) → σ.frames.length + fuel < 1024 →
    ∃ r : List Val, r.length = fnRes P f ∧ Reach C σ { σ with pc := σ.pc + 1, stack := r ++ rest }

/-- the invariants that tie the compile-time context to `Allowed`'s view of it and to the machine state: the
    enclosing statements are the ones `Allowed` was told about, no Go label is waiting in `nextLabel`, the stack
    holds (at least) the tags of the enclosing `switch` statements, at most three of them. -/
structure Inv (lp : LoopCtx) (ls : Sigs) (st : St) (σ : State) : Prop where
  sig : sigOf lp = ls
  noLabel : st.nextLabel = none
  stk : totalSz lp ≤ σ.stack.length
  few : totalSz lp ≤ 3

/-- statements. -/
def StmtFOK (P : Prog) (C : Code) (cx : Ctx) (fuel : Nat) : Prop :=
  ∀ (s : Stmt) (lp : LoopCtx) (ls : Sigs) (st : St) (env : Env) (σ : State) (out : SOut),
    Allowed ls s → Inv lp ls st σ → (Deep lp st.scopes.length ∨ (∃ b, s = .block b) ∧ Deepish lp st.scopes.length) →
    exec fuel P env s = .ok out →
    Placed C σ.pc (compS cx lp s st).1 →
    VarsRel cx st.scopes env σ.locals σ.args → Wf st →
    (compS cx lp s st).2.cnt ≤ σ.locals.length → σ.frames.length + fuel < 1024 →
    StmtPostF cx C σ (σ.pc + (compS cx lp s st).1.length) (compS cx lp s st).2.scopes st.scopes lp out

/-- what the remaining iterations of a loop achieve: `break`/`continue` that concern the loop itself are consumed,
    the others are on their way to an enclosing statement. -/
def IterPost (cx : Ctx) (C : Code) (σ : State) (endpc : Nat) (sc : Scopes) (lp : LoopCtx) : SOut → Prop :=
  StmtPostF cx C σ endpc sc sc lp

/-- the iterations of a loop whose code starts at `pc0`; the machine is at the loop head mark. -/
def IterOK (P : Prog) (C : Code) (cx : Ctx) (fuel : Nat) : Prop :=
  ∀ (init : Stmt) (cond : Option Expr) (post body : Stmt) (lp : LoopCtx) (ls : Sigs) (st : St) (env : Env) (σ : State) (pc0 : Nat) (out : SOut),
    Allowed ((st.nextLabel, true) :: ls) body → NoDecl post → sigOf lp = ls → totalSz lp ≤ σ.stack.length → totalSz lp ≤ 3 →
    Deepish lp st.scopes.length → (forSt1 cx lp init st).nextLabel = none →
    iter fuel P env st.nextLabel cond post body = .ok out →
    Placed C pc0 (compS cx lp (.loop init cond post body) st).1 →
    σ.pc = pc0 + (compS cx lp init (forSt0 st)).1.length →
    VarsRel cx (forSt1 cx lp init st).scopes env σ.locals σ.args → Wf st →
    (compS cx lp (.loop init cond post body) st).2.cnt ≤ σ.locals.length → σ.frames.length + fuel < 1024 →
    IterPost cx C σ (pc0 + (compS cx lp (.loop init cond post body) st).1.length) (forSt1 cx lp init st).scopes lp out

/-- a `for` statement; its Go label (if any) is waiting in `st.nextLabel`. -/
def LoopOK (P : Prog) (C : Code) (cx : Ctx) (fuel : Nat) : Prop :=
  ∀ (init : Stmt) (cond : Option Expr) (post body : Stmt) (lp : LoopCtx) (ls : Sigs) (st : St) (env : Env) (σ : State) (out : SOut),
    Allowed ls init → NoDecl post → Allowed ((st.nextLabel, true) :: ls) body →
    sigOf lp = ls → totalSz lp ≤ σ.stack.length → totalSz lp ≤ 3 → Deepish lp st.scopes.length →
    execLoop fuel P env st.nextLabel init cond post body = .ok out →
    Placed C σ.pc (compS cx lp (.loop init cond post body) st).1 →
    VarsRel cx st.scopes env σ.locals σ.args → Wf st →
    (compS cx lp (.loop init cond post body) st).2.cnt ≤ σ.locals.length → σ.frames.length + fuel < 1024 →
    StmtPostF cx C σ (σ.pc + (compS cx lp (.loop init cond post body) st).1.length)
      (compS cx lp (.loop init cond post body) st).2.scopes st.scopes lp out

/-- a `switch` statement; its Go label (if any) is waiting in `st.nextLabel`. -/
def SwitchOK (P : Prog) (C : Code) (cx : Ctx) (fuel : Nat) : Prop :=
  ∀ (tag : Option Expr) (ti : Bool) (cl : Stmt) (lp : LoopCtx) (ls : Sigs) (st : St) (env : Env) (σ : State) (out : SOut),
    swCount ls < 3 → AllowedCl ((st.nextLabel, false) :: ls) cl →
    sigOf lp = ls → totalSz lp ≤ σ.stack.length → Deepish lp st.scopes.length →
    execSwitch fuel P env st.nextLabel tag ti cl = .ok out →
    Placed C σ.pc (compS cx lp (.switchS tag ti cl) st).1 →
    VarsRel cx st.scopes env σ.locals σ.args → Wf st →
    (compS cx lp (.switchS tag ti cl) st).2.cnt ≤ σ.locals.length → σ.frames.length + fuel < 1024 →
    StmtPostF cx C σ (σ.pc + (compS cx lp (.switchS tag ti cl) st).1.length)
      (compS cx lp (.switchS tag ti cl) st).2.scopes st.scopes lp out

/-- the facts a clause chain is compiled and run under: `lp = ent :: lp0` with `ent` the switch, the tag `tv` on top
    of the stack, the end mark right behind the chain. -/
structure SwCtx (C : Code) (lp : LoopCtx) (ls : Sigs) (st : St) (σ : State) (ti : Bool) (tv : Val) (pcEnd : Nat) : Prop where
  sig : sigOf lp = ls
  ent : ∃ e lp0, lp = e :: lp0 ∧ e.isFor = false ∧ e.eqNum = ti ∧ e.scLen = st.scopes.length ∧ findLabel C e.endL = some pcEnd
  tag : ∃ rest, σ.stack = tv :: rest
  noLabel : st.nextLabel = none
  stk : totalSz lp ≤ σ.stack.length
  few : totalSz lp ≤ 3
  deep : Deepish lp st.scopes.length

/-- the clause chain of a `switch`: the machine is at the first test. -/
def CasesOK (P : Prog) (C : Code) (cx : Ctx) (fuel : Nat) : Prop :=
  ∀ (cl : Stmt) (lp : LoopCtx) (ls : Sigs) (st : St) (env : Env) (σ : State) (ti : Bool) (tv : Val) (out : SOut),
    AllowedCl ls cl → SwCtx C lp ls st σ ti tv (σ.pc + (compS cx lp cl st).1.length) →
    execCases fuel P env tv ti cl = .ok out →
    Placed C σ.pc (compS cx lp cl st).1 →
    VarsRel cx st.scopes env σ.locals σ.args → Wf st →
    (compS cx lp cl st).2.cnt ≤ σ.locals.length → σ.frames.length + fuel < 1024 →
    StmtPostF cx C σ (σ.pc + (compS cx lp cl st).1.length) st.scopes st.scopes lp out

/-- number of items in front of the start mark of a clause (its tests). -/
def testsLen (cx : Ctx) (lp : LoopCtx) (st : St) : Stmt → Nat
  | .caseS e1 e2 _ _ _ => (csTests cx lp e1 e2 st).1.length
  | _ => 0

/-- the body of the first clause of the chain `cl` (entered after a successful test or by `fallthrough`): the
    machine is at the clause's start mark. -/
def BodyOK (P : Prog) (C : Code) (cx : Ctx) (fuel : Nat) : Prop :=
  ∀ (cl body rest : Stmt) (ft : Bool) (lp : LoopCtx) (ls : Sigs) (st : St) (env : Env) (σ : State) (pc0 : Nat) (ti : Bool) (tv : Val) (out : SOut),
    ((∃ e1 e2, cl = .caseS e1 e2 body ft rest) ∨ (cl = .defaultS body ∧ ft = false ∧ rest = .skip)) →
    AllowedCl ls cl → SwCtx C lp ls st σ ti tv (pc0 + (compS cx lp cl st).1.length) →
    execBody fuel P env body ft rest = .ok out →
    Placed C pc0 (compS cx lp cl st).1 → σ.pc = pc0 + testsLen cx lp st cl →
    VarsRel cx st.scopes env σ.locals σ.args → Wf st →
    (compS cx lp cl st).2.cnt ≤ σ.locals.length → σ.frames.length + fuel < 1024 →
    StmtPostF cx C σ (pc0 + (compS cx lp cl st).1.length) st.scopes st.scopes lp out

end NeoModel.CompileProofs

namespace NeoModel.CompileProofs
open NeoModel.MiniVm NeoModel.MiniVm.Asm NeoModel.MiniGo NeoModel.Compile

theorem framesRel_drop {locals : List Val} {fs : List MiniGo.Frame} {sc : Scopes} (h : FramesRel locals fs sc) (d : Nat) :
    FramesRel locals (fs.drop d) (sc.drop d) := by
  induction d generalizing fs sc with
  | zero => simpa using h
  | succ n ih =>
    cases fs with
    | nil => cases sc with
      | nil => simp [FramesRel]
      | cons a b => simp [FramesRel] at h
    | cons f fr => cases sc with
      | nil => simp [FramesRel] at h
      | cons a b => simp only [FramesRel] at h; simpa using ih h.2

theorem varsRel_drop {cx : Ctx} {sc : Scopes} {env : Env} {locals args : List Val}
    (h : VarsRel cx sc env locals args) (d : Nat) : VarsRel cx (sc.drop d) (dropEnv env d) locals args :=
  ⟨framesRel_drop h.frames d, h.argNames, h.argVals⟩

theorem dropN_length (n : Nat) : (dropN n).length = n := by
  induction n with
  | zero => rfl
  | succ k ih => simp [dropN, ih]

theorem run_dropN {C : Code} (n : Nat) : ∀ (σ : State) (r rest : List Val), Placed C σ.pc (dropN n) → σ.stack = r ++ rest →
    r.length = n → Reach C σ { σ with pc := σ.pc + n, stack := rest } := by
  induction n with
  | zero =>
    intro σ r rest _ hs hl
    have : r = [] := List.length_eq_zero_iff.mp hl
    subst this
    have : σ = { σ with pc := σ.pc + 0, stack := rest } := by cases σ; simp_all
    rw [← this]; exact Reach.refl _ _
  | succ k ih =>
    intro σ r rest hp hs hl
    cases r with
    | nil => simp at hl
    | cons a r' =>
      simp only [dropN] at hp
      have h1 := run_data (C := C) (σ := σ) (op := .drop) (stk := r' ++ rest) (loc := σ.locals) (ar := σ.args) hp.head rfl
        (by simp [stepData, hs])
      have h2 := ih { σ with pc := σ.pc + 1, stack := r' ++ rest } r' rest hp.tail rfl (by simpa using hl)
      refine h1.trans (h2.trans ?_)
      simp [Nat.add_assoc, Nat.add_comm 1 k]
      exact Reach.refl _ _

/-- a call statement once the arguments are on the stack: CALL, then the results are dropped. -/
theorem callS_post {P : Prog} {C : Code} {cx : Ctx} {fuel : Nat} {σ : State} {c : Code} {f : String} {vs : List Val} {env : Env}
    {scN : Scopes} {scA : Scopes} {lp : LoopCtx}
    (htab : cx.funcs = funcTable P) (ihCS : CallSOK P C fuel)
    (hp : Placed C σ.pc (c ++ [.ins (.call (cx.func f).1)] ++ dropN (cx.func f).2))
    (hr : Reach C σ { σ with pc := σ.pc + c.length, stack := vs ++ σ.stack })
    (hcall : callS fuel P f vs = .ok ()) (hdep : σ.frames.length + fuel < 1024)
    (hrel : VarsRel cx scN env σ.locals σ.args) :
    StmtPostF cx C σ (σ.pc + (c ++ [Item.ins (.call (cx.func f).1)] ++ dropN (cx.func f).2).length) scN scA lp (.norm env) := by
  have hf : C[σ.pc + c.length]? = some (.ins (.call (cx.func f).1)) := hp.left.right.head
  have hres : (cx.func f).2 = fnRes P f := by rw [ctx_func htab]
  rw [ctx_func htab] at hf
  obtain ⟨r, hrl, hcr⟩ := ihCS f vs { σ with pc := σ.pc + c.length, stack := vs ++ σ.stack } σ.stack hcall rfl hf hdep
  have hpd : Placed C (σ.pc + c.length + 1) (dropN (cx.func f).2) := hp.right.cast (by simp [Nat.add_assoc])
  have hdr := run_dropN (C := C) (cx.func f).2 { σ with pc := σ.pc + c.length + 1, stack := r ++ σ.stack } r σ.stack hpd rfl
    (by rw [hrl, hres])
  refine ⟨_, hr.trans (hcr.trans hdr), ?_, ⟨rfl, rfl, rfl, rfl⟩, hrel⟩
  simp [dropN_length, Nat.add_assoc]
  omega

/-- a call that delivers two values (`x, y := f(…)`): the first result is on top. -/
def Call2OK (P : Prog) (C : Code) (fuel : Nat) : Prop :=
  ∀ (f : String) (vs : List Val) (v w : Val) (σ : State) (rest : List Val),
    callF2 fuel P f vs = .ok (v, w) → σ.stack = vs ++ rest →
    C[σ.pc]? = some (.ins (.call (fnLabel P f))) → σ.frames.length + fuel < 1024 →
    Reach C σ { σ with pc := σ.pc + 1, stack := v :: w :: rest }

/-- `x, y := f(…)` from the evaluated arguments on: CALL, PUSH2 REVERSEN, store `y` (new slot), store `x` (new slot). -/
theorem define2_post {P : Prog} {C : Code} {cx : Ctx} {fuel : Nat} {σ : State} {c : Code} {f : String} {vs : List Val} {env : Env}
    {st : St} {x y : String} {v w : Val} {scA : Scopes} {lp : LoopCtx}
    (htab : cx.funcs = funcTable P) (ihC2 : Call2OK P C fuel)
    (hp : Placed C σ.pc (c ++ [.ins (.call (cx.func f).1)] ++ [.ins (.pushInt 2), .ins .reverseN] ++
      storeVar cx (st.newLocal y).scopes y ++ storeVar cx ((st.newLocal y).newLocal x).scopes x))
    (hr : Reach C σ { σ with pc := σ.pc + c.length, stack := vs ++ σ.stack })
    (hcall : callF2 fuel P f vs = .ok (v, w)) (hdep : σ.frames.length + fuel < 1024)
    (hrel : VarsRel cx st.scopes env σ.locals σ.args) (hwf : Wf st) (hcnt : st.cnt + 2 ≤ σ.locals.length) :
    StmtPostF cx C σ (σ.pc + (c ++ [Item.ins (.call (cx.func f).1)] ++ [Item.ins (.pushInt 2), Item.ins .reverseN] ++
      storeVar cx (st.newLocal y).scopes y ++ storeVar cx ((st.newLocal y).newLocal x).scopes x).length)
      ((st.newLocal y).newLocal x).scopes scA lp (.norm ((env.declare y w).declare x v)) := by
  have hf : C[σ.pc + c.length]? = some (.ins (.call (cx.func f).1)) := hp.left.left.left.right.head
  rw [ctx_func htab] at hf
  have hcr := ihC2 f vs v w { σ with pc := σ.pc + c.length, stack := vs ++ σ.stack } σ.stack hcall rfl hf hdep
  have hpp : Placed C (σ.pc + c.length + 1) [Item.ins (.pushInt 2), .ins .reverseN] :=
    hp.left.left.right.cast (by simp [Nat.add_assoc])
  have h1 := run_data (C := C) (σ := { σ with pc := σ.pc + c.length + 1, stack := v :: w :: σ.stack })
    (op := .pushInt 2) (stk := .int 2 :: v :: w :: σ.stack) (loc := σ.locals) (ar := σ.args) hpp.head rfl (by simp [stepData])
  have h2 := run_data (C := C) (σ := { σ with pc := σ.pc + c.length + 1 + 1, stack := .int 2 :: v :: w :: σ.stack })
    (op := .reverseN) (stk := w :: v :: σ.stack) (loc := σ.locals) (ar := σ.args) hpp.tail.head rfl
    (by simp [stepData, Val.toInt?])
  have hcy : st.cnt < σ.locals.length := by omega
  obtain ⟨σ3, hr3, hpc3, hst3, hfr3, hin3, hl3, hrel3⟩ := declare_step (cx := cx) (st := st) (env := env) (C := C)
    (σ := { σ with pc := σ.pc + c.length + 1 + 1 + 1, stack := w :: v :: σ.stack })
    (x := y) (v := w) (rest := v :: σ.stack) hrel hwf hcy (hp.left.right.cast (by simp [Nat.add_assoc])) rfl
  have hcx : (st.newLocal y).cnt < σ3.locals.length := by rw [newLocal_cnt, hl3]; simp; omega
  obtain ⟨σ4, hr4, hpc4, hst4, hfr4, hin4, hl4, hrel4⟩ := declare_step (cx := cx) (st := st.newLocal y) (env := env.declare y w) (C := C)
    (σ := σ3) (x := x) (v := v) (rest := σ.stack) hrel3 (wf_newLocal hwf y) hcx
    (hp.right.cast (by rw [hpc3]; simp [Nat.add_assoc]; omega)) hst3
  refine ⟨σ4, hr.trans (hcr.trans (h1.trans (h2.trans (hr3.trans hr4)))), ?_, ⟨hst4, ?_, ?_, ?_⟩, hrel4⟩
  · rw [hpc4, hpc3]; simp [Nat.add_assoc]; omega
  · rw [hfr4, hfr3]
  · rw [hin4, hin3]
  · rw [hl4, hl3]

theorem noDecl_state {cx : Ctx} {lp : LoopCtx} {p : Stmt} (h : NoDecl p) (st : St) :
    (compS cx lp p st).2.scopes = st.scopes ∧ (compS cx lp p st).2.cnt = st.cnt := by
  cases p <;> simp [NoDecl] at h <;> simp [compS]

theorem forSt3_scopes (cx : Ctx) (lp : LoopCtx) (init : Stmt) (cond : Option Expr) (body : Stmt) (st : St) :
    (forSt3 cx lp init cond body st).scopes = (forSt1 cx lp init st).scopes := by
  have hb := compS_tail cx body (forEnt st :: lp) (forStB cx lp init cond st) (by simp)
  simp only [forStB_scopes, List.tail_cons] at hb
  simp [forSt3, hb]

theorem forSt1_tail (cx : Ctx) (lp : LoopCtx) (init : Stmt) (st : St) :
    (forSt1 cx lp init st).scopes.tail = st.scopes := by
  have h0 := compS_tail cx init lp (forSt0 st) (by simp)
  simpa [forSt1] using h0

theorem Inv.to {lp : LoopCtx} {ls : Sigs} {st st' : St} {σ σ' : State} (h : Inv lp ls st σ)
    (hn : st'.nextLabel = none) (hs : σ'.stack.length = σ.stack.length) : Inv lp ls st' σ' :=
  ⟨h.sig, hn, by rw [hs]; exact h.stk, h.few⟩

/-- Go labels sit on `for` and `switch` statements only. -/
def LabelsOK : Stmt → Prop
  | .seq a b => LabelsOK a ∧ LabelsOK b
  | .ite _ t _ e => LabelsOK t ∧ LabelsOK e
  | .loop i _ p b => LabelsOK i ∧ LabelsOK p ∧ LabelsOK b
  | .block b => LabelsOK b
  | .labeled _ (.loop i _ p b) => LabelsOK i ∧ LabelsOK p ∧ LabelsOK b
  | .labeled _ (.switchS _ _ cl) => LabelsOK cl
  | .labeled _ _ => False
  | .switchS _ _ cl => LabelsOK cl
  | .caseS _ _ b _ rest => LabelsOK b ∧ LabelsOK rest
  | .defaultS b => LabelsOK b
  | _ => True

theorem noDecl_labelsOK {p : Stmt} (h : NoDecl p) : LabelsOK p := by
  cases p <;> simp [NoDecl] at h <;> simp [LabelsOK]

mutual
theorem allowed_labelsOK : ∀ (s : Stmt) (ls : Sigs), Allowed ls s → LabelsOK s
  | .seq a b, ls, h => by simp only [Allowed] at h; exact ⟨allowed_labelsOK a ls h.1, allowed_labelsOK b ls h.2⟩
  | .ite _ t _ e, ls, h => by simp only [Allowed] at h; exact ⟨allowed_labelsOK t ls h.1, allowed_labelsOK e ls h.2⟩
  | .loop i _ p b, ls, h => by
    simp only [Allowed] at h; exact ⟨allowed_labelsOK i ls h.1, noDecl_labelsOK h.2.1, allowed_labelsOK b _ h.2.2⟩
  | .block b, ls, h => by simp only [Allowed] at h; exact allowed_labelsOK b ls h
  | .labeled _ (.loop i _ p b), ls, h => by
    simp only [Allowed] at h; exact ⟨allowed_labelsOK i ls h.1, noDecl_labelsOK h.2.1, allowed_labelsOK b _ h.2.2⟩
  | .labeled _ (.switchS _ _ cl), ls, h => by simp only [Allowed] at h; exact allowedCl_labelsOK cl _ h.2
  | .switchS _ _ cl, ls, h => by simp only [Allowed] at h; exact allowedCl_labelsOK cl _ h.2
  | .caseS _ _ _ _ _, _, h => by simp [Allowed] at h
  | .defaultS _, _, h => by simp [Allowed] at h
  | .skip, _, _ | .define _ _, _, _ | .assign _ _, _, _ | .opAssign _ _ _, _, _ | .inc _, _, _ | .dec _, _, _
  | .varDecl _ _ _, _, _ | .exprStmt _, _, _ | .discard _, _, _ | .panicS _, _, _ | .ret _, _, _ | .ret2 _ _, _, _ | .define2 _ _ _, _, _ | .brk, _, _ | .cont, _, _
  | .brkL _, _, _ | .contL _, _, _ => trivial
  | .labeled _ .skip, _, h | .labeled _ (.seq _ _), _, h | .labeled _ (.define _ _), _, h | .labeled _ (.assign _ _), _, h
  | .labeled _ (.opAssign _ _ _), _, h | .labeled _ (.inc _), _, h | .labeled _ (.dec _), _, h | .labeled _ (.varDecl _ _ _), _, h
  | .labeled _ (.exprStmt _), _, h | .labeled _ (.discard _), _, h | .labeled _ (.panicS _), _, h | .labeled _ (.ite _ _ _ _), _, h
  | .labeled _ (.ret _), _, h | .labeled _ (.ret2 _ _), _, h | .labeled _ (.define2 _ _ _), _, h | .labeled _ .brk, _, h | .labeled _ .cont, _, h | .labeled _ (.block _), _, h
  | .labeled _ (.labeled _ _), _, h | .labeled _ (.brkL _), _, h | .labeled _ (.contL _), _, h
  | .labeled _ (.caseS _ _ _ _ _), _, h | .labeled _ (.defaultS _), _, h => by simp [Allowed] at h
theorem allowedCl_labelsOK : ∀ (cl : Stmt) (ls : Sigs), AllowedCl ls cl → LabelsOK cl
  | .skip, _, _ => trivial
  | .defaultS b, ls, h => by simp only [AllowedCl] at h; exact allowed_labelsOK b ls h
  | .caseS _ _ b _ rest, ls, h => by simp only [AllowedCl] at h; exact ⟨allowed_labelsOK b ls h.1, allowedCl_labelsOK rest ls h.2.1⟩
  | .seq _ _, _, h | .define _ _, _, h | .assign _ _, _, h | .opAssign _ _ _, _, h | .inc _, _, h | .dec _, _, h
  | .varDecl _ _ _, _, h | .exprStmt _, _, h | .discard _, _, h | .panicS _, _, h | .ite _ _ _ _, _, h
  | .loop _ _ _ _, _, h | .ret _, _, h | .ret2 _ _, _, h | .define2 _ _ _, _, h | .brk, _, h | .cont, _, h | .block _, _, h | .labeled _ _, _, h
  | .brkL _, _, h | .contL _, _, h | .switchS _ _ _, _, h => by simp [AllowedCl] at h
end

/-- the statement consumes a waiting Go label. -/
def IsLS : Stmt → Prop
  | .loop _ _ _ _ | .switchS _ _ _ => True
  | _ => False

/-- no Go label is left waiting after a statement (labels sit on `for` / `switch` only, which consume them). -/
theorem compS_noLabel (cx : Ctx) : ∀ (s : Stmt) (lp : LoopCtx) (st : St), LabelsOK s → (st.nextLabel = none ∨ IsLS s) →
    (compS cx lp s st).2.nextLabel = none := by
  intro s
  induction s with
  | skip => intro lp st _ h; rcases h with h | h; exact h; exact h.elim
  | seq a b iha ihb =>
    intro lp st hl h
    rcases h with h | h
    · simp only [compS]; exact ihb lp _ hl.2 (Or.inl (iha lp st hl.1 (Or.inl h)))
    · exact h.elim
  | define x e =>
    intro lp st _ h
    rcases h with h | h
    · simp only [compS]; unfold St.newLocal; cases st.scopes <;> exact h
    · exact h.elim
  | assign x e => intro lp st _ h; rcases h with h | h; exact h; exact h.elim
  | opAssign x op e => intro lp st _ h; rcases h with h | h; exact h; exact h.elim
  | inc x => intro lp st _ h; rcases h with h | h; exact h; exact h.elim
  | dec x => intro lp st _ h; rcases h with h | h; exact h; exact h.elim
  | varDecl x b init =>
    intro lp st _ h
    rcases h with h | h
    · cases init <;> simp only [compS] <;> unfold St.newLocal <;> cases st.scopes <;> exact h
    · exact h.elim
  | exprStmt e => intro lp st _ h; rcases h with h | h; exact h; exact h.elim
  | discard e => intro lp st _ h; rcases h with h | h; exact h; exact h.elim
  | panicS e => intro lp st _ h; rcases h with h | h; exact h; exact h.elim
  | ite c thn k els iht ihe =>
    intro lp st hl h
    rcases h with h | h
    · have ht := iht lp (ifStT cx c st) hl.1 (Or.inl h)
      cases k with
      | none => rw [compS_ite_none]; exact ht
      | block => rw [compS_ite_block]; exact ihe lp _ hl.2 (Or.inl ht)
      | elif => rw [compS_ite_elif]; exact ihe lp _ hl.2 (Or.inl ht)
    · exact h.elim
  | loop init cond post body ihi ihp ihb =>
    intro lp st hl _
    rw [compS_loop]
    have h1 := ihi lp (forSt0 st) hl.1 (Or.inl rfl)
    have h3 : (forSt3 cx lp init cond body st).nextLabel = none := ihb (forEnt st :: lp) (forStB cx lp init cond st) hl.2.2 (Or.inl h1)
    exact ihp lp _ hl.2.1 (Or.inl h3)
  | ret e => intro lp st _ h; rcases h with h | h; (cases e <;> exact h); exact h.elim
  | ret2 e1 e2 => intro lp st _ h; rcases h with h | h; exact h; exact h.elim
  | define2 x y e =>
    intro lp st _ h
    rcases h with h | h
    · simp only [compS]; unfold St.newLocal; cases st.scopes <;> exact h
    · exact h.elim
  | brk => intro lp st _ h; rcases h with h | h; exact h; exact h.elim
  | cont => intro lp st _ h; rcases h with h | h; exact h; exact h.elim
  | block body ih =>
    intro lp st hl h
    rcases h with h | h
    · rw [compS_block]; exact ih lp st.push hl (Or.inl h)
    · exact h.elim
  | labeled l s ih =>
    intro lp st hl h
    rw [compS_labeled]
    cases s with
    | loop i c p b => exact ih lp _ hl (Or.inr trivial)
    | switchS t ti cl => exact ih lp _ hl (Or.inr trivial)
    | _ => exact hl.elim
  | brkL l =>
    intro lp st _ h
    rcases h with h | h
    · simp only [compS]
      rcases phantom_cases cx st l with h' | h' <;> rw [h']
      · exact h
      · unfold St.newLocal; cases st.scopes <;> exact h
    · exact h.elim
  | contL l =>
    intro lp st _ h
    rcases h with h | h
    · simp only [compS]
      rcases phantom_cases cx st l with h' | h' <;> rw [h']
      · exact h
      · unfold St.newLocal; cases st.scopes <;> exact h
    · exact h.elim
  | switchS tag ti cl ih =>
    intro lp st hl _
    rw [compS_switch]
    exact ih (swEnt cx tag ti st :: lp) (swSt1 cx tag cl st) hl (Or.inl rfl)
  | caseS e1 e2 body ft rest ihb ihr =>
    intro lp st hl h
    rcases h with h | h
    · rw [compS_case]
      have hb : (csStR cx lp e1 e2 body st).nextLabel = none := ihb lp (csStB cx lp e1 e2 st) hl.1 (Or.inl h)
      exact ihr lp _ hl.2 (Or.inl hb)
    · exact h.elim
  | defaultS body ih =>
    intro lp st hl h
    rcases h with h | h
    · rw [compS_default]; exact ih lp (dfStB st) hl (Or.inl h)
    · exact h.elim

theorem dropItems_small {k : Nat} (h : k ≤ 3) : dropItems k = dropN k := by
  unfold dropItems; rw [if_pos (by omega)]

/-- dropItems for at most three items: that many DROPs. -/
theorem run_dropItems {C : Code} {σ : State} {k : Nat} (h3 : k ≤ 3) (hk : k ≤ σ.stack.length)
    (hp : Placed C σ.pc (dropItems k)) :
    Reach C σ { σ with pc := σ.pc + (dropItems k).length, stack := σ.stack.drop k } := by
  rw [dropItems_small h3] at hp ⊢
  have := run_dropN (C := C) k σ (σ.stack.take k) (σ.stack.drop k) hp (by simp) (by simp; omega)
  simpa [dropN_length] using this

/-- `break` / `continue` once the target is known: the tags of the statements that are left are dropped, then the
    jump; whatever follows (the dead load of a labeled branch) is not reached. -/
theorem run_branch {C : Code} {σ : State} {dr tgt : Nat} {tail : Code}
    (hp : Placed C σ.pc (dropItems dr ++ [.ins (.jmp tgt)] ++ tail)) (h3 : dr ≤ 3) (hk : dr ≤ σ.stack.length)
    (bp : Nat) (hb : findLabel C tgt = some bp) :
    ∃ σ', Reach C σ σ' ∧ σ'.pc = bp ∧ SameD dr σ σ' ∧ σ'.locals = σ.locals ∧ σ'.args = σ.args := by
  have h1 := run_dropItems h3 hk hp.left.left
  have hj := step_jmp (s := { σ with pc := σ.pc + (dropItems dr).length, stack := σ.stack.drop dr }) hp.left.right.head hb
  exact ⟨_, h1.trans (Reach.step hj), rfl, ⟨rfl, rfl, rfl, rfl⟩, rfl, rfl⟩

theorem findBrk_le {l : Option String} {lp : LoopCtx} {acc dr : Nat} {e : LEntry} (h : findBrk l lp acc = some (dr, e)) :
    acc ≤ dr ∧ dr ≤ acc + totalSz lp := by
  induction lp generalizing acc with
  | nil => simp [findBrk] at h
  | cons a r ih =>
    cases l with
    | none => simp [findBrk] at h; simp [totalSz]; omega
    | some x =>
      simp only [findBrk] at h
      split at h
      · cases h; simp [totalSz]
      · have := ih h; simp only [totalSz]; omega

theorem findCont_le {l : Option String} {lp : LoopCtx} {acc dr : Nat} {e : LEntry} (h : findCont l lp acc = some (dr, e)) :
    acc ≤ dr ∧ dr ≤ acc + totalSz lp := by
  induction lp generalizing acc with
  | nil => simp [findCont] at h
  | cons a r ih =>
    cases l with
    | none =>
      simp only [findCont] at h
      split at h
      · cases h; simp [totalSz]
      · have := ih h; simp only [totalSz]; omega
    | some x =>
      simp only [findCont] at h
      split at h
      · cases h; simp [totalSz]
      · have := ih h; simp only [totalSz]; omega

theorem findCont_none_isFor {lp : LoopCtx} {acc dr : Nat} {e : LEntry} (h : findCont none lp acc = some (dr, e)) : e.isFor = true := by
  induction lp generalizing acc with
  | nil => simp [findCont] at h
  | cons a r ih =>
    simp only [findCont] at h
    split at h
    · rename_i hc; cases h; exact hc
    · exact ih h

theorem findCont_some_isFor {lp : LoopCtx} {x : String} {acc dr : Nat} {e : LEntry}
    (ht : contTarget x (sigOf lp) = true) (h : findCont (some x) lp acc = some (dr, e)) : e.isFor = true := by
  induction lp generalizing acc with
  | nil => simp [findCont] at h
  | cons a r ih =>
    simp only [findCont] at h
    simp only [sigOf, List.map_cons, contTarget] at ht
    split at h
    · rename_i hc; cases h; rw [if_pos hc] at ht; exact ht
    · rename_i hc; rw [if_neg hc] at ht; exact ih ht h

/-- targets exist where `Allowed` says so. -/
theorem findBrk_none_ex {lp : LoopCtx} (h : sigOf lp ≠ []) (acc : Nat) : ∃ e, findBrk none lp acc = some (acc, e) := by
  cases lp with
  | nil => exact absurd rfl h
  | cons a r => exact ⟨a, by simp [findBrk]⟩

theorem findBrk_some_ex {lp : LoopCtx} {x : String} (h : ∃ p ∈ sigOf lp, p.1 = some x) (acc : Nat) :
    ∃ dr e, findBrk (some x) lp acc = some (dr, e) := by
  induction lp generalizing acc with
  | nil => obtain ⟨p, hp, _⟩ := h; simp [sigOf] at hp
  | cons a r ih =>
    simp only [findBrk]
    by_cases hc : (a.name == some x) = true
    · exact ⟨acc, a, by rw [if_pos hc]⟩
    · rw [if_neg hc]
      apply ih
      obtain ⟨p, hp, hpx⟩ := h
      simp only [sigOf, List.map_cons, List.mem_cons] at hp
      rcases hp with rfl | hp
      · simp at hpx; simp [hpx] at hc
      · exact ⟨p, hp, hpx⟩

theorem findCont_none_ex {lp : LoopCtx} (h : ∃ p ∈ sigOf lp, p.2 = true) (acc : Nat) :
    ∃ dr e, findCont none lp acc = some (dr, e) := by
  induction lp generalizing acc with
  | nil => obtain ⟨p, hp, _⟩ := h; simp [sigOf] at hp
  | cons a r ih =>
    simp only [findCont]
    by_cases hc : a.isFor = true
    · exact ⟨acc, a, by rw [if_pos hc]⟩
    · rw [if_neg hc]
      apply ih
      obtain ⟨p, hp, hpx⟩ := h
      simp only [sigOf, List.map_cons, List.mem_cons] at hp
      rcases hp with rfl | hp
      · simp at hpx; exact absurd hpx hc
      · exact ⟨p, hp, hpx⟩

theorem findCont_some_ex {lp : LoopCtx} {x : String} (h : contTarget x (sigOf lp) = true) (acc : Nat) :
    ∃ dr e, findCont (some x) lp acc = some (dr, e) := by
  induction lp generalizing acc with
  | nil => simp [sigOf, contTarget] at h
  | cons a r ih =>
    simp only [findCont]
    by_cases hc : (a.name == some x) = true
    · exact ⟨acc, a, by rw [if_pos hc]⟩
    · rw [if_neg hc]
      apply ih
      simp only [sigOf, List.map_cons, contTarget] at h
      rw [if_neg hc] at h
      exact h

theorem optstr_beq_comm (a b : Option String) : (a == b) = (b == a) := by
  by_cases h : a = b
  · subst h; rfl
  · have h1 : (a == b) = false := by simpa using h
    have h2 : (b == a) = false := by simpa using fun e => h e.symm
    rw [h1, h2]

/-- `break` (unlabeled, or labeled with the name of the innermost statement) leaves the innermost statement;
    any other goes to the same statement as seen from outside, with the innermost statement's tag dropped too. -/
theorem findBrk_cons (l : Option String) (e : LEntry) (lp : LoopCtx) (acc : Nat) :
    findBrk l (e :: lp) acc = if mine l e.name then some (acc, e) else findBrk l lp (acc + e.sz) := by
  cases l with
  | none => simp [findBrk, mine]
  | some x =>
    simp only [findBrk, mine]
    have : (some x == e.name) = (e.name == some x) := optstr_beq_comm _ _
    simp [this]

theorem findCont_cons (l : Option String) (e : LEntry) (lp : LoopCtx) (acc : Nat) (hfor : e.isFor = true) :
    findCont l (e :: lp) acc = if mine l e.name then some (acc, e) else findCont l lp (acc + e.sz) := by
  cases l with
  | none => simp [findCont, mine, hfor]
  | some x =>
    simp only [findCont, mine]
    have : (some x == e.name) = (e.name == some x) := optstr_beq_comm _ _
    simp [this]

/-- `continue` never refers to a `switch`: for the entry of a `switch` it is always passed on (Go rejects
    `continue L` with `L` on a switch; `Allowed` excludes it). -/
theorem findCont_cons_sw (l : Option String) (e : LEntry) (lp : LoopCtx) (acc : Nat) (hsw : e.isFor = false)
    (hl : ∀ x, l = some x → (e.name == some x) = false) :
    findCont l (e :: lp) acc = findCont l lp (acc + e.sz) := by
  cases l with
  | none => simp [findCont, hsw]
  | some x => simp [findCont, hl x rfl]

theorem stmtFOK_zero (P : Prog) (C : Code) (cx : Ctx) : StmtFOK P C cx 0 := by
  intro s lp ls st env σ out _ _ _ hex
  simp [exec] at hex

set_option maxHeartbeats 1000000 in
theorem stmtFOK_succ (P : Prog) (C : Code) (cx : Ctx) (fuel : Nat)
    (hn : (labelsOf C).Nodup) (htab : cx.funcs = funcTable P)
    (ihE : ∀ sc env, ExprFOK P C cx sc env fuel) (ih : StmtFOK P C cx fuel) (ihL : LoopOK P C cx fuel)
    (ihSw : SwitchOK P C cx fuel) (ihCS : CallSOK P C fuel) (ihC2 : Call2OK P C fuel) : StmtFOK P C cx (fuel + 1) := by
  intro s lp ls st env σ out hal hinv hd hex hp hrel hwf hcnt hdep
  have hdep' : σ.frames.length + fuel < 1024 := by omega
  have hdI : Deepish lp st.scopes.length := hd.elim Deep.ish (·.2)
  have hdS : Deep lp (st.scopes.length + 1) := hdI.succ
  cases s with
  | skip =>
    simp only [exec] at hex
    cases hex
    simp only [compS, StmtPostF]
    exact ⟨σ, Reach.refl _ _, by simp, Same.refl _, hrel⟩
  | seq a b =>
    simp only [Allowed] at hal
    have hd1 : Deep lp st.scopes.length := by
      rcases hd with h | ⟨⟨b', hb⟩, _⟩
      · exact h
      · cases hb
    simp only [exec] at hex
    simp only [compS] at hp hcnt ⊢
    have hmb := compS_mono cx b lp (compS cx lp a st).2 (compS_wf cx a lp st hwf).nonempty
    have hma := compS_mono cx a lp st hwf.nonempty
    have hta := compS_tail cx a lp st hwf.nonempty
    cases ha : exec fuel P env a with
    | ok oa =>
      rw [ha] at hex
      have hpa := ih a lp ls st env σ oa hal.1 hinv (Or.inl hd1) ha hp.left hrel hwf (Nat.le_trans hmb.1 hcnt) hdep'
      cases oa with
      | norm env1 =>
        simp only at hex
        obtain ⟨σ1, hr1, hpc1, hs1, hrel1⟩ := hpa
        have hpb : Placed C σ1.pc (compS cx lp b (compS cx lp a st).2).1 := by rw [hpc1]; exact hp.right
        have hpost := ih b lp ls _ env1 σ1 out hal.2
          (hinv.to (compS_noLabel cx a lp st (allowed_labelsOK a ls hal.1) (Or.inl hinv.noLabel)) (by rw [hs1.stack]))
          (Or.inl (by rw [hma.2]; exact hd1)) hex hpb hrel1 (compS_wf cx a lp st hwf)
          (by rw [hs1.len]; exact hcnt) (by rw [hs1.frames]; exact hdep')
        have hpost' : StmtPostF cx C σ1 (σ.pc + ((compS cx lp a st).1 ++ (compS cx lp b (compS cx lp a st).2).1).length)
            (compS cx lp b (compS cx lp a st).2).2.scopes (compS cx lp a st).2.scopes lp out := by
          have : σ1.pc + (compS cx lp b (compS cx lp a st).2).1.length =
              σ.pc + ((compS cx lp a st).1 ++ (compS cx lp b (compS cx lp a st).2).1).length := by
            rw [hpc1]; simp [Nat.add_assoc]
          rw [← this]; exact hpost
        have hpost'' := post_prefix hr1 hs1 hpost'
        cases out with
        | norm e => exact hpost''
        | ret v => exact hpost''
        | brk l e => exact post_seq hta hma.2 (by rw [hma.2]; exact hd1) (by intro e h; cases h) hpost''
        | cont l e => exact post_seq hta hma.2 (by rw [hma.2]; exact hd1) (by intro e h; cases h) hpost''
      | ret v =>
        simp only at hex
        cases hex
        exact post_ret hpa
      | brk l e =>
        simp only at hex
        cases hex
        exact post_seq rfl rfl hd1 (by intro e h; cases h) hpa
      | cont l e =>
        simp only at hex
        cases hex
        exact post_seq rfl rfl hd1 (by intro e h; cases h) hpa
    | panic => rw [ha] at hex; simp at hex
    | overflow => rw [ha] at hex; simp at hex
    | stuck => rw [ha] at hex; simp at hex
    | timeout => rw [ha] at hex; simp at hex
  | define x e =>
    simp only [exec] at hex
    simp only [compS] at hp hcnt ⊢
    cases hv : evalE fuel P env e with
    | ok v =>
      rw [hv] at hex
      simp only at hex
      cases hex
      have hr1 := (ihE st.scopes env) e .val st.nl σ v hv hp.left hrel hdep'
      simp only [Post] at hr1
      have hwf' : Wf { st with nl := (compE cx st.scopes e .val st.nl).2 } := wf_nl hwf _
      have hcnt' : st.cnt < σ.locals.length := by
        rw [newLocal_cnt] at hcnt
        exact hcnt
      obtain ⟨σ2, hr2, hpc2, hst2, hfr2, hin2, hl2, hrel2⟩ := declare_step (cx := cx)
        (st := { st with nl := (compE cx st.scopes e .val st.nl).2 }) (env := env) (C := C)
        (σ := { σ with pc := σ.pc + (compE cx st.scopes e .val st.nl).1.length, stack := v :: σ.stack })
        (x := x) (v := v) (rest := σ.stack) hrel hwf' hcnt' hp.right rfl
      exact ⟨σ2, hr1.trans hr2, by rw [hpc2]; simp [Nat.add_assoc], ⟨hst2, hfr2, hin2, hl2⟩, hrel2⟩
    | panic => rw [hv] at hex; simp at hex
    | overflow => rw [hv] at hex; simp at hex
    | stuck => rw [hv] at hex; simp at hex
    | timeout => rw [hv] at hex; simp at hex
  | assign x e =>
    simp only [exec] at hex
    simp only [compS] at hp hcnt ⊢
    cases hv : evalE fuel P env e with
    | ok v =>
      rw [hv] at hex
      simp only at hex
      cases hset : env.set x v with
      | none => rw [hset] at hex; simp at hex
      | some env' =>
        rw [hset] at hex
        simp only at hex
        cases hex
        have hr1 := (ihE st.scopes env) e .val st.nl σ v hv hp.left hrel hdep'
        simp only [Post] at hr1
        obtain ⟨σ2, hr2, hpc2, hst2, hfr2, hin2, hl2, hrel2⟩ := assign_step (cx := cx) (sc := st.scopes) (C := C)
          (σ := { σ with pc := σ.pc + (compE cx st.scopes e .val st.nl).1.length, stack := v :: σ.stack })
          (rest := σ.stack) hrel hwf.nodup hset hp.right rfl
        exact ⟨σ2, hr1.trans hr2, by rw [hpc2]; simp [Nat.add_assoc], ⟨hst2, hfr2, hin2, hl2⟩, hrel2⟩
    | panic => rw [hv] at hex; simp at hex
    | overflow => rw [hv] at hex; simp at hex
    | stuck => rw [hv] at hex; simp at hex
    | timeout => rw [hv] at hex; simp at hex
  | discard e =>
    simp only [exec] at hex
    simp only [compS] at hp hcnt ⊢
    cases hv : evalE fuel P env e with
    | ok v =>
      rw [hv] at hex
      simp only at hex
      cases hex
      have hr1 := (ihE st.scopes env) e .val st.nl σ v hv hp.left hrel hdep'
      simp only [Post] at hr1
      have hr2 := run_data (C := C)
        (σ := { σ with pc := σ.pc + (compE cx st.scopes e .val st.nl).1.length, stack := v :: σ.stack })
        (op := .drop) (stk := σ.stack) (loc := σ.locals) (ar := σ.args) hp.right.head rfl (by simp [stepData])
      exact ⟨_, hr1.trans hr2, by simp [Nat.add_assoc], ⟨rfl, rfl, rfl, rfl⟩, hrel⟩
    | panic => rw [hv] at hex; simp at hex
    | overflow => rw [hv] at hex; simp at hex
    | stuck => rw [hv] at hex; simp at hex
    | timeout => rw [hv] at hex; simp at hex
  | panicS e =>
    simp only [exec] at hex
    cases hv : evalE fuel P env e <;> rw [hv] at hex <;> simp at hex
  | ret e =>
    have hdrop := run_dropItems (C := C) (σ := σ) hinv.few hinv.stk
    cases e with
    | none =>
      simp only [exec] at hex
      cases hex
      simp only [compS] at hp ⊢
      exact ⟨_, hdrop hp.left, hp.right.head, by simp, rfl⟩
    | some e =>
      simp only [exec] at hex
      simp only [compS] at hp ⊢
      cases hv : evalE fuel P env e with
      | ok v =>
        rw [hv] at hex
        simp only at hex
        cases hex
        have hr0 := hdrop hp.left.left
        have hr1 := (ihE st.scopes env) e .val st.nl
          { σ with pc := σ.pc + (dropItems (totalSz lp)).length, stack := σ.stack.drop (totalSz lp) } v hv hp.left.right hrel hdep'
        simp only [Post] at hr1
        exact ⟨_, hr0.trans hr1, by simpa [Nat.add_assoc] using hp.right.head, by simp, rfl⟩
      | panic => rw [hv] at hex; simp at hex
      | overflow => rw [hv] at hex; simp at hex
      | stuck => rw [hv] at hex; simp at hex
      | timeout => rw [hv] at hex; simp at hex
  | ret2 e1 e2 =>
    have hdrop := run_dropItems (C := C) (σ := σ) hinv.few hinv.stk
    simp only [exec] at hex
    simp only [compS] at hp ⊢
    cases hv : evalE fuel P env e1 with
    | ok v =>
      rw [hv] at hex
      simp only at hex
      cases hw : evalE fuel P env e2 with
      | ok w =>
        rw [hw] at hex
        simp only at hex
        cases hex
        rcases hc2 : compE cx st.scopes e2 .val st.nl with ⟨c2, nl1⟩
        rcases hc1 : compE cx st.scopes e1 .val nl1 with ⟨c1, nl2⟩
        simp only [hc2, hc1] at hp ⊢
        have hr0 := hdrop hp.left.left.left
        -- the VM evaluates the second operand first; both evaluations are pure (same environment, same slots)
        have hr2 := (ihE st.scopes env) e2 .val st.nl
          { σ with pc := σ.pc + (dropItems (totalSz lp)).length, stack := σ.stack.drop (totalSz lp) } w hw
          (by rw [hc2]; exact hp.left.left.right) hrel hdep'
        rw [hc2] at hr2
        simp only [Post] at hr2
        have hr1 := (ihE st.scopes env) e1 .val nl1
          { σ with pc := σ.pc + (dropItems (totalSz lp)).length + c2.length, stack := w :: σ.stack.drop (totalSz lp) } v hv
          (by rw [hc1]; exact hp.left.right.cast (by simp [Nat.add_assoc])) hrel hdep'
        rw [hc1] at hr1
        simp only [Post] at hr1
        exact ⟨_, hr0.trans (hr2.trans hr1), by simpa [Nat.add_assoc] using hp.right.head, by simp, rfl⟩
      | panic => rw [hw] at hex; simp at hex
      | overflow => rw [hw] at hex; simp at hex
      | stuck => rw [hw] at hex; simp at hex
      | timeout => rw [hw] at hex; simp at hex
    | panic => rw [hv] at hex; simp at hex
    | overflow => rw [hv] at hex; simp at hex
    | stuck => rw [hv] at hex; simp at hex
    | timeout => rw [hv] at hex; simp at hex
  | define2 x y e =>
    have hwf' : ∀ n, Wf { st with nl := n } := fun n => wf_nl hwf n
    have hcnt2 : ∀ n, ({ st with nl := n } : St).cnt + 2 ≤ σ.locals.length := by
      intro n
      simp only [compS, newLocal_cnt] at hcnt
      exact hcnt
    cases e with
    | call0 f =>
      simp only [exec] at hex
      simp only [compS, compE, withMode] at hp ⊢
      cases hc : callF2 fuel P f [] with
      | ok r =>
        obtain ⟨v, w⟩ := r
        rw [hc] at hex
        simp only [declare2] at hex
        cases hex
        exact define2_post (c := []) (vs := []) htab ihC2 (by simpa using hp) (by simpa using Reach.refl C σ) hc hdep' hrel (hwf' _) (hcnt2 _)
      | panic => rw [hc] at hex; simp [declare2] at hex
      | overflow => rw [hc] at hex; simp [declare2] at hex
      | stuck => rw [hc] at hex; simp [declare2] at hex
      | timeout => rw [hc] at hex; simp [declare2] at hex
    | call1 f a =>
      simp only [exec] at hex
      simp only [compS, compE, withMode] at hp ⊢
      cases hx : evalE fuel P env a with
      | ok xa =>
        rw [hx] at hex
        simp only at hex
        cases hc : callF2 fuel P f [xa] with
        | ok r =>
          obtain ⟨v, w⟩ := r
          rw [hc] at hex
          simp only [declare2] at hex
          cases hex
          have ra := (ihE st.scopes env) a .val st.nl σ xa hx hp.left.left.left.left hrel hdep'
          simp only [Post] at ra
          exact define2_post (vs := [xa]) htab ihC2 hp (by simpa using ra) hc hdep' hrel (hwf' _) (hcnt2 _)
        | panic => rw [hc] at hex; simp [declare2] at hex
        | overflow => rw [hc] at hex; simp [declare2] at hex
        | stuck => rw [hc] at hex; simp [declare2] at hex
        | timeout => rw [hc] at hex; simp [declare2] at hex
      | panic => rw [hx] at hex; simp at hex
      | overflow => rw [hx] at hex; simp at hex
      | stuck => rw [hx] at hex; simp at hex
      | timeout => rw [hx] at hex; simp at hex
    | call2 f a b =>
      simp only [exec] at hex
      simp only [compS, compE, withMode, emitReverse] at hp ⊢
      cases hx : evalE fuel P env a with
      | ok xa =>
        rw [hx] at hex
        simp only at hex
        cases hy : evalE fuel P env b with
        | ok yb =>
          rw [hy] at hex
          simp only at hex
          cases hc : callF2 fuel P f [xa, yb] with
          | ok r =>
            obtain ⟨v, w⟩ := r
            rw [hc] at hex
            simp only [declare2] at hex
            cases hex
            rcases hca : compE cx st.scopes a .val st.nl with ⟨ca, nl1⟩
            rcases hcb : compE cx st.scopes b .val nl1 with ⟨cb, nl2⟩
            simp only [hca, hcb] at hp ⊢
            have hpa : Placed C σ.pc ca := hp.left.left.left.left.left.left
            have ra := (ihE st.scopes env) a .val st.nl σ xa hx (by rw [hca]; exact hpa) hrel hdep'
            rw [hca] at ra
            simp only [Post] at ra
            have hpb : Placed C (σ.pc + ca.length) cb := hp.left.left.left.left.left.right
            have rb := (ihE st.scopes env) b .val nl1 { σ with pc := σ.pc + ca.length, stack := xa :: σ.stack } yb hy
              (by rw [hcb]; exact hpb) hrel hdep'
            rw [hcb] at rb
            simp only [Post] at rb
            have hsw := run_data (C := C) (σ := { σ with pc := σ.pc + ca.length + cb.length, stack := yb :: xa :: σ.stack })
              (op := .swap) (stk := xa :: yb :: σ.stack) (loc := σ.locals) (ar := σ.args)
              ((hp.left.left.left.left.right.cast (by simp [Nat.add_assoc])).head) rfl (by simp [stepData])
            have hr : Reach C σ { σ with pc := σ.pc + (ca ++ cb ++ [Item.ins Op.swap]).length, stack := [xa, yb] ++ σ.stack } := by
              refine ra.trans (rb.trans (hsw.trans ?_))
              simp [Nat.add_assoc]
              exact Reach.refl _ _
            exact define2_post (c := ca ++ cb ++ [Item.ins Op.swap]) (vs := [xa, yb]) htab ihC2 hp hr hc hdep' hrel (hwf' _) (hcnt2 _)
          | panic => rw [hc] at hex; simp [declare2] at hex
          | overflow => rw [hc] at hex; simp [declare2] at hex
          | stuck => rw [hc] at hex; simp [declare2] at hex
          | timeout => rw [hc] at hex; simp [declare2] at hex
        | panic => rw [hy] at hex; simp at hex
        | overflow => rw [hy] at hex; simp at hex
        | stuck => rw [hy] at hex; simp at hex
        | timeout => rw [hy] at hex; simp at hex
      | panic => rw [hx] at hex; simp at hex
      | overflow => rw [hx] at hex; simp at hex
      | stuck => rw [hx] at hex; simp at hex
      | timeout => rw [hx] at hex; simp at hex
    | _ => simp [Allowed, IsCall2] at hal
  | brk =>
    simp only [Allowed] at hal
    simp only [exec] at hex
    cases hex
    obtain ⟨e, he⟩ := findBrk_none_ex (lp := lp) (by rw [hinv.sig]; exact hal) 0
    simp only [compS, he] at hp ⊢
    refine ⟨0, e, he, fun bp hb => ?_⟩
    obtain ⟨σ', h1, h2, h3, h4, h5⟩ := run_branch (tail := []) (by simpa using hp) (by omega) (by omega) bp hb
    exact ⟨σ', h1, h2, h3, by rw [h4, h5]; exact varsRel_drop hrel _⟩
  | cont =>
    simp only [Allowed] at hal
    simp only [exec] at hex
    cases hex
    obtain ⟨dr, e, he⟩ := findCont_none_ex (lp := lp) (by rw [hinv.sig]; exact hal) 0
    have hle := findCont_le he
    simp only [compS, he] at hp ⊢
    refine ⟨dr, e, he, findCont_none_isFor he, fun bp hb => ?_⟩
    obtain ⟨σ', h1, h2, h3, h4, h5⟩ := run_branch (tail := []) (by simpa using hp) (by have := hinv.few; omega) (by have := hinv.stk; omega) bp hb
    exact ⟨σ', h1, h2, h3, by rw [h4, h5]; exact varsRel_drop hrel _⟩
  | inc x =>
    simp only [exec] at hex
    simp only [compS] at hp hcnt ⊢
    cases hg : env.get x with
    | none => rw [hg] at hex; simp at hex
    | some old =>
      rw [hg] at hex
      cases old with
      | bool b => simp at hex
      | null => simp at hex
      | int n =>
        simp only at hex
        cases hc : chk (n + 1) with
        | ok r =>
          rw [hc] at hex
          simp only at hex
          obtain ⟨rfl, hfit⟩ := chk_ok hc
          cases hset : env.set x (.int (n + 1)) with
          | none => rw [hset] at hex; simp at hex
          | some env' =>
            rw [hset] at hex
            simp only at hex
            cases hex
            obtain ⟨op, hop, hkind, hstep⟩ := load_correct hrel hg
            rw [hop] at hp ⊢
            have hdl : isData op = true := by rcases hkind with h | ⟨j, h⟩ <;> subst h <;> rfl
            have hr1 := run_data (C := C) (σ := σ) hp.left.left.head hdl (hstep σ.stack)
            have hr2 := run_data (C := C) (σ := { σ with pc := σ.pc + 1, stack := .int n :: σ.stack })
              (op := .inc) (stk := .int (n + 1) :: σ.stack) (loc := σ.locals) (ar := σ.args)
              (by simpa using hp.left.right.head) rfl (by simp [stepData, Val.toInt?, mkInt, hfit])
            obtain ⟨σ3, hr3, hpc3, hst3, hfr3, hin3, hl3, hrel3⟩ := assign_step (cx := cx) (sc := st.scopes) (C := C)
              (σ := { σ with pc := σ.pc + 1 + 1, stack := .int (n + 1) :: σ.stack })
              (rest := σ.stack) hrel hwf.nodup hset (by simpa [Nat.add_assoc] using hp.right) rfl
            exact ⟨σ3, hr1.trans (hr2.trans hr3), by rw [hpc3]; simp [Nat.add_assoc]; omega, ⟨hst3, hfr3, hin3, hl3⟩, hrel3⟩
        | panic => rw [hc] at hex; simp at hex
        | overflow => rw [hc] at hex; simp at hex
        | stuck => rw [hc] at hex; simp at hex
        | timeout => rw [hc] at hex; simp at hex
  | dec x =>
    simp only [exec] at hex
    simp only [compS] at hp hcnt ⊢
    cases hg : env.get x with
    | none => rw [hg] at hex; simp at hex
    | some old =>
      rw [hg] at hex
      cases old with
      | bool b => simp at hex
      | null => simp at hex
      | int n =>
        simp only at hex
        cases hc : chk (n - 1) with
        | ok r =>
          rw [hc] at hex
          simp only at hex
          obtain ⟨rfl, hfit⟩ := chk_ok hc
          cases hset : env.set x (.int (n - 1)) with
          | none => rw [hset] at hex; simp at hex
          | some env' =>
            rw [hset] at hex
            simp only at hex
            cases hex
            obtain ⟨op, hop, hkind, hstep⟩ := load_correct hrel hg
            rw [hop] at hp ⊢
            have hdl : isData op = true := by rcases hkind with h | ⟨j, h⟩ <;> subst h <;> rfl
            have hr1 := run_data (C := C) (σ := σ) hp.left.left.head hdl (hstep σ.stack)
            have hr2 := run_data (C := C) (σ := { σ with pc := σ.pc + 1, stack := .int n :: σ.stack })
              (op := .dec) (stk := .int (n - 1) :: σ.stack) (loc := σ.locals) (ar := σ.args)
              (by simpa using hp.left.right.head) rfl (by simp [stepData, Val.toInt?, mkInt, hfit])
            obtain ⟨σ3, hr3, hpc3, hst3, hfr3, hin3, hl3, hrel3⟩ := assign_step (cx := cx) (sc := st.scopes) (C := C)
              (σ := { σ with pc := σ.pc + 1 + 1, stack := .int (n - 1) :: σ.stack })
              (rest := σ.stack) hrel hwf.nodup hset (by simpa [Nat.add_assoc] using hp.right) rfl
            exact ⟨σ3, hr1.trans (hr2.trans hr3), by rw [hpc3]; simp [Nat.add_assoc]; omega, ⟨hst3, hfr3, hin3, hl3⟩, hrel3⟩
        | panic => rw [hc] at hex; simp at hex
        | overflow => rw [hc] at hex; simp at hex
        | stuck => rw [hc] at hex; simp at hex
        | timeout => rw [hc] at hex; simp at hex
  | varDecl x isBool init =>
    cases init with
    | some e =>
      -- same code, same compile-time state and same Go semantics as `x := e`
      simp only [Allowed] at hal
      rw [compS_varDecl_define cx lp x isBool e st] at hp hcnt ⊢
      simp only [exec] at hex
      simp only [compS] at hp hcnt ⊢
      cases hv : evalE fuel P env e with
      | ok v =>
        rw [hv] at hex
        simp only at hex
        cases hex
        have hr1 := (ihE st.scopes env) e .val st.nl σ v hv hp.left hrel hdep'
        simp only [Post] at hr1
        have hwf' : Wf { st with nl := (compE cx st.scopes e .val st.nl).2 } := wf_nl hwf _
        have hcnt' : st.cnt < σ.locals.length := by
          rw [newLocal_cnt] at hcnt
          exact hcnt
        obtain ⟨σ2, hr2, hpc2, hst2, hfr2, hin2, hl2, hrel2⟩ := declare_step (cx := cx)
          (st := { st with nl := (compE cx st.scopes e .val st.nl).2 }) (env := env) (C := C)
          (σ := { σ with pc := σ.pc + (compE cx st.scopes e .val st.nl).1.length, stack := v :: σ.stack })
          (x := x) (v := v) (rest := σ.stack) hrel hwf' hcnt' hp.right rfl
        exact ⟨σ2, hr1.trans hr2, by rw [hpc2]; simp [Nat.add_assoc], ⟨hst2, hfr2, hin2, hl2⟩, hrel2⟩
      | panic => rw [hv] at hex; simp at hex
      | overflow => rw [hv] at hex; simp at hex
      | stuck => rw [hv] at hex; simp at hex
      | timeout => rw [hv] at hex; simp at hex
    | none =>
      simp only [exec] at hex
      cases hex
      simp only [compS] at hp hcnt ⊢
      have hcnt' : st.cnt < σ.locals.length := by
        rw [newLocal_cnt] at hcnt
        exact hcnt
      have hdd : isData (if isBool then (Op.pushF : Op Nat) else Op.pushInt 0) = true := by cases isBool <;> rfl
      have hr1 := run_data (C := C) (σ := σ) (op := if isBool then Op.pushF else Op.pushInt 0)
        (stk := (if isBool then Val.bool false else Val.int 0) :: σ.stack) (loc := σ.locals) (ar := σ.args)
        hp.left.head hdd (by cases isBool <;> simp [stepData])
      obtain ⟨σ2, hr2, hpc2, hst2, hfr2, hin2, hl2, hrel2⟩ := declare_step (cx := cx) (st := st) (env := env) (C := C)
        (σ := { σ with pc := σ.pc + 1, stack := (if isBool then Val.bool false else Val.int 0) :: σ.stack })
        (x := x) (v := if isBool then Val.bool false else Val.int 0) (rest := σ.stack) hrel hwf hcnt'
        (by simpa using hp.right) rfl
      exact ⟨σ2, hr1.trans hr2, by rw [hpc2]; simp [Nat.add_assoc]; omega, ⟨hst2, hfr2, hin2, hl2⟩, hrel2⟩
  | opAssign x op e =>
    simp only [Allowed] at hal
    simp only [exec] at hex
    simp only [compS] at hp hcnt ⊢
    cases hg : env.get x with
    | none => rw [hg] at hex; simp at hex
    | some old =>
      rw [hg] at hex
      simp only at hex
      cases hv : evalE fuel P env e with
      | ok v =>
        rw [hv] at hex
        simp only at hex
        cases hb : evalBin op old v with
        | ok r =>
          rw [hb] at hex
          simp only at hex
          cases hset : env.set x r with
          | none => rw [hset] at hex; simp at hex
          | some env' =>
            rw [hset] at hex
            simp only at hex
            cases hex
            obtain ⟨lop, hop, hkind, hstep⟩ := load_correct hrel hg
            rw [hop] at hp ⊢
            have hdl : isData lop = true := by rcases hkind with h | ⟨j, h⟩ <;> subst h <;> rfl
            have hr1 := run_data (C := C) (σ := σ) hp.left.left.left.head hdl (hstep σ.stack)
            have hr2 := (ihE st.scopes env) e .val st.nl { σ with pc := σ.pc + 1, stack := old :: σ.stack } v hv
              (by simpa using hp.left.left.right) hrel hdep'
            simp only [Post] at hr2
            have hdt : isData (tokenOp op) = true := by cases op <;> rfl
            have hr3 := run_data (C := C)
              (σ := { σ with pc := σ.pc + 1 + (compE cx st.scopes e .val st.nl).1.length, stack := v :: old :: σ.stack })
              (op := tokenOp op) (stk := r :: σ.stack) (loc := σ.locals) (ar := σ.args)
              ((hp.left.right.cast (by simp; omega)).head) hdt (evalBin_token hal hb _ _ _)
            obtain ⟨σ4, hr4, hpc4, hst4, hfr4, hin4, hl4, hrel4⟩ := assign_step (cx := cx) (sc := st.scopes) (C := C)
              (σ := { σ with pc := σ.pc + 1 + (compE cx st.scopes e .val st.nl).1.length + 1, stack := r :: σ.stack })
              (rest := σ.stack) hrel hwf.nodup hset (hp.right.cast (by simp; omega)) rfl
            exact ⟨σ4, hr1.trans (hr2.trans (hr3.trans hr4)), by rw [hpc4]; simp [Nat.add_assoc]; omega, ⟨hst4, hfr4, hin4, hl4⟩, hrel4⟩
        | panic => rw [hb] at hex; simp at hex
        | overflow => rw [hb] at hex; simp at hex
        | stuck => rw [hb] at hex; simp at hex
        | timeout => rw [hb] at hex; simp at hex
      | panic => rw [hv] at hex; simp at hex
      | overflow => rw [hv] at hex; simp at hex
      | stuck => rw [hv] at hex; simp at hex
      | timeout => rw [hv] at hex; simp at hex
  | block body =>
    simp only [Allowed] at hal
    simp only [exec] at hex
    rw [compS_block] at hp hcnt ⊢
    have hrel' : VarsRel cx st.push.scopes env.push σ.locals σ.args := varsRel_push hrel
    cases hb : exec fuel P env.push body with
    | ok ob =>
      rw [hb] at hex
      have hpost := ih body lp ls st.push env.push σ ob hal (hinv.to hinv.noLabel rfl) (Or.inl hdS) hb hp hrel' (wf_push hwf)
        (by simpa using hcnt) hdep'
      cases ob with
      | norm e' =>
        simp only at hex
        cases hex
        obtain ⟨σ2, hr2, hpc2, hs2, hrel2⟩ := hpost
        exact ⟨σ2, hr2, hpc2, hs2, varsRel_pop hrel2⟩
      | ret v =>
        simp only at hex
        cases hex
        exact post_ret hpost
      | brk l e =>
        simp only at hex
        cases hex
        exact (post_pop hdI).1 hpost
      | cont l e =>
        simp only at hex
        cases hex
        exact (post_pop hdI).2 hpost
    | panic => rw [hb] at hex; simp at hex
    | overflow => rw [hb] at hex; simp at hex
    | stuck => rw [hb] at hex; simp at hex
    | timeout => rw [hb] at hex; simp at hex
  | exprStmt e =>
    cases e with
    | call0 f =>
      simp only [exec] at hex
      simp only [compS, compE, withMode] at hp hcnt ⊢
      cases hc : callS fuel P f [] with
      | ok u =>
        rw [hc] at hex
        simp only at hex
        cases hex
        exact callS_post (c := []) (vs := []) htab ihCS (by simpa using hp) (by simpa using Reach.refl C σ) hc hdep' hrel
      | panic => rw [hc] at hex; simp at hex
      | overflow => rw [hc] at hex; simp at hex
      | stuck => rw [hc] at hex; simp at hex
      | timeout => rw [hc] at hex; simp at hex
    | call1 f a =>
      simp only [exec] at hex
      simp only [compS, compE, withMode] at hp hcnt ⊢
      cases hx : evalE fuel P env a with
      | ok x =>
        rw [hx] at hex
        simp only at hex
        cases hc : callS fuel P f [x] with
        | ok u =>
          rw [hc] at hex
          simp only at hex
          cases hex
          have ra := (ihE st.scopes env) a .val st.nl σ x hx hp.left.left hrel hdep'
          simp only [Post] at ra
          exact callS_post (vs := [x]) htab ihCS hp (by simpa using ra) hc hdep' hrel
        | panic => rw [hc] at hex; simp at hex
        | overflow => rw [hc] at hex; simp at hex
        | stuck => rw [hc] at hex; simp at hex
        | timeout => rw [hc] at hex; simp at hex
      | panic => rw [hx] at hex; simp at hex
      | overflow => rw [hx] at hex; simp at hex
      | stuck => rw [hx] at hex; simp at hex
      | timeout => rw [hx] at hex; simp at hex
    | call2 f a b =>
      simp only [exec] at hex
      simp only [compS, compE, withMode, emitReverse] at hp hcnt ⊢
      cases hx : evalE fuel P env a with
      | ok x =>
        rw [hx] at hex
        simp only at hex
        cases hy : evalE fuel P env b with
        | ok y =>
          rw [hy] at hex
          simp only at hex
          cases hc : callS fuel P f [x, y] with
          | ok u =>
            rw [hc] at hex
            simp only at hex
            cases hex
            rcases hca : compE cx st.scopes a .val st.nl with ⟨ca, nl1⟩
            rcases hcb : compE cx st.scopes b .val nl1 with ⟨cb, nl2⟩
            simp only [hca, hcb] at hp ⊢
            have hpa : Placed C σ.pc ca := hp.left.left.left.left
            have ra := (ihE st.scopes env) a .val st.nl σ x hx (by rw [hca]; exact hpa) hrel hdep'
            rw [hca] at ra
            simp only [Post] at ra
            have hpb : Placed C (σ.pc + ca.length) cb := hp.left.left.left.right
            have rb := (ihE st.scopes env) b .val nl1 { σ with pc := σ.pc + ca.length, stack := x :: σ.stack } y hy
              (by rw [hcb]; exact hpb) hrel hdep'
            rw [hcb] at rb
            simp only [Post] at rb
            have hsw := run_data (C := C) (σ := { σ with pc := σ.pc + ca.length + cb.length, stack := y :: x :: σ.stack })
              (op := .swap) (stk := x :: y :: σ.stack) (loc := σ.locals) (ar := σ.args)
              ((hp.left.left.right.cast (by simp [Nat.add_assoc])).head) rfl (by simp [stepData])
            have hr : Reach C σ { σ with pc := σ.pc + (ca ++ cb ++ [Item.ins Op.swap]).length, stack := [x, y] ++ σ.stack } := by
              refine ra.trans (rb.trans (hsw.trans ?_))
              simp [Nat.add_assoc]
              exact Reach.refl _ _
            exact callS_post (c := ca ++ cb ++ [Item.ins Op.swap]) (vs := [x, y]) htab ihCS hp hr hc hdep' hrel
          | panic => rw [hc] at hex; simp at hex
          | overflow => rw [hc] at hex; simp at hex
          | stuck => rw [hc] at hex; simp at hex
          | timeout => rw [hc] at hex; simp at hex
        | panic => rw [hy] at hex; simp at hex
        | overflow => rw [hy] at hex; simp at hex
        | stuck => rw [hy] at hex; simp at hex
        | timeout => rw [hy] at hex; simp at hex
      | panic => rw [hx] at hex; simp at hex
      | overflow => rw [hx] at hex; simp at hex
      | stuck => rw [hx] at hex; simp at hex
      | timeout => rw [hx] at hex; simp at hex
    | call3 f a b c =>
      simp only [exec] at hex
      simp only [compS, compE, withMode, emitReverse] at hp hcnt ⊢
      cases hx : evalE fuel P env a with
      | ok x =>
        rw [hx] at hex
        simp only at hex
        cases hy : evalE fuel P env b with
        | ok y =>
          rw [hy] at hex
          simp only at hex
          cases hz : evalE fuel P env c with
          | ok z =>
            rw [hz] at hex
            simp only at hex
            cases hc : callS fuel P f [x, y, z] with
            | ok u =>
              rw [hc] at hex
              simp only at hex
              cases hex
              rcases hca : compE cx st.scopes a .val st.nl with ⟨ca, nl1⟩
              rcases hcb : compE cx st.scopes b .val nl1 with ⟨cb, nl2⟩
              rcases hcc : compE cx st.scopes c .val nl2 with ⟨cc, nl3⟩
              simp only [hca, hcb, hcc] at hp ⊢
              have hpa : Placed C σ.pc ca := hp.left.left.left.left.left
              have ra := (ihE st.scopes env) a .val st.nl σ x hx (by rw [hca]; exact hpa) hrel hdep'
              rw [hca] at ra
              simp only [Post] at ra
              have hpb : Placed C (σ.pc + ca.length) cb := hp.left.left.left.left.right
              have rb := (ihE st.scopes env) b .val nl1 { σ with pc := σ.pc + ca.length, stack := x :: σ.stack } y hy
                (by rw [hcb]; exact hpb) hrel hdep'
              rw [hcb] at rb
              simp only [Post] at rb
              have hpc : Placed C (σ.pc + ca.length + cb.length) cc := hp.left.left.left.right.cast (by simp [Nat.add_assoc])
              have rc := (ihE st.scopes env) c .val nl2 { σ with pc := σ.pc + ca.length + cb.length, stack := y :: x :: σ.stack } z hz
                (by rw [hcc]; exact hpc) hrel hdep'
              rw [hcc] at rc
              simp only [Post] at rc
              have hsw := run_data (C := C) (σ := { σ with pc := σ.pc + ca.length + cb.length + cc.length, stack := z :: y :: x :: σ.stack })
                (op := .reverse3) (stk := x :: y :: z :: σ.stack) (loc := σ.locals) (ar := σ.args)
                ((hp.left.left.right.cast (by simp [Nat.add_assoc])).head) rfl (by simp [stepData])
              have hr : Reach C σ { σ with pc := σ.pc + (ca ++ cb ++ cc ++ [Item.ins Op.reverse3]).length, stack := [x, y, z] ++ σ.stack } := by
                refine ra.trans (rb.trans (rc.trans (hsw.trans ?_)))
                simp [Nat.add_assoc]
                exact Reach.refl _ _
              exact callS_post (c := ca ++ cb ++ cc ++ [Item.ins Op.reverse3]) (vs := [x, y, z]) htab ihCS hp hr hc hdep' hrel
            | panic => rw [hc] at hex; simp at hex
            | overflow => rw [hc] at hex; simp at hex
            | stuck => rw [hc] at hex; simp at hex
            | timeout => rw [hc] at hex; simp at hex
          | panic => rw [hz] at hex; simp at hex
          | overflow => rw [hz] at hex; simp at hex
          | stuck => rw [hz] at hex; simp at hex
          | timeout => rw [hz] at hex; simp at hex
        | panic => rw [hy] at hex; simp at hex
        | overflow => rw [hy] at hex; simp at hex
        | stuck => rw [hy] at hex; simp at hex
        | timeout => rw [hy] at hex; simp at hex
      | panic => rw [hx] at hex; simp at hex
      | overflow => rw [hx] at hex; simp at hex
      | stuck => rw [hx] at hex; simp at hex
      | timeout => rw [hx] at hex; simp at hex
    | lit n => simp [Allowed, IsCall] at hal
    | tt => simp [Allowed, IsCall] at hal
    | ff => simp [Allowed, IsCall] at hal
    | var x => simp [Allowed, IsCall] at hal
    | paren e => simp [Allowed, IsCall] at hal
    | neg e => simp [Allowed, IsCall] at hal
    | not e => simp [Allowed, IsCall] at hal
    | bin op a b => simp [Allowed, IsCall] at hal
  | ite c thn k els =>
    simp only [Allowed] at hal
    simp only [exec] at hex
    have hrelP : VarsRel cx (ifSt0 st).scopes env.push σ.locals σ.args := varsRel_push hrel
    have hwfC : Wf { ifSt0 st with nl := (ifCond cx c st).2 } := wf_nl (wf_push (wf_nl hwf _)) _
    have hwf1 : Wf (ifSt1 cx lp c thn st) := by
      have := compS_wf cx (.block thn) lp _ hwfC
      rwa [compS_block] at this
    have hnl1 : (ifSt1 cx lp c thn st).nextLabel = none :=
      compS_noLabel cx thn lp (ifStT cx c st) (allowed_labelsOK thn ls hal.1) (Or.inl hinv.noLabel)
    have hd1S : Deep lp (ifSt1 cx lp c thn st).scopes.length := by rw [ifSt1_scopes]; exact hdS
    cases k with
    | none =>
      rw [compS_ite_none] at hp hcnt ⊢
      simp only at hp hcnt ⊢
      have hpc : Placed C σ.pc (ifCond cx c st).1 := hp.left.left.left
      have hpl : Placed C (σ.pc + (ifCond cx c st).1.length) [Item.lbl st.nl] := hp.left.left.right
      have hpt : Placed C (σ.pc + (ifCond cx c st).1.length + 1) (compS cx lp thn (ifStT cx c st)).1 :=
        hp.left.right.cast (by simp [Nat.add_assoc])
      have hpe : Placed C (σ.pc + (ifCond cx c st).1.length + 1 + (compS cx lp thn (ifStT cx c st)).1.length)
          [Item.lbl (st.nl + 1), Item.lbl (st.nl + 2)] := hp.right.cast (by simp [Nat.add_assoc]; omega)
      have hlElse := hpe.label hn
      have hend : ∀ τ : State, τ.pc = σ.pc + (ifCond cx c st).1.length + 1 + (compS cx lp thn (ifStT cx c st)).1.length →
          Reach C τ { τ with pc := τ.pc + 1 + 1 } := by
        intro τ hτ
        have h1 := skip_lbl (σ := τ) (hτ ▸ hpe)
        have h2 := skip_lbl (σ := { τ with pc := τ.pc + 1 }) (by simpa [hτ] using hpe.tail)
        exact h1.trans h2
      cases hcv : evalE fuel P env.push c with
      | ok cv =>
        rw [hcv] at hex
        have hpost := (ihE (ifSt0 st).scopes env.push) c (.jump false (st.nl + 1)) (ifSt0 st).nl σ cv hcv hpc hrelP hdep'
        simp only [Post] at hpost
        have hjmp := hpost _ hlElse
        cases cv with
        | bool b =>
          cases b with
          | true =>
            simp only at hex
            simp only [Val.toBool, Bool.true_eq_false, beq_iff_eq, if_false] at hjmp
            have h1 := skip_lbl (σ := { σ with pc := σ.pc + (ifCond cx c st).1.length }) hpl
            cases hb : exec fuel P env.push (.block thn) with
            | ok ob =>
              rw [hb] at hex
              have hpostB := ih (.block thn) lp ls { ifSt0 st with nl := (ifCond cx c st).2 } env.push
                { σ with pc := σ.pc + (ifCond cx c st).1.length + 1 } ob hal.1 (hinv.to hinv.noLabel rfl) (Or.inl hdS) hb
                (by rw [compS_block]; exact hpt) hrelP hwfC
                (by rw [compS_block]; show (compS cx lp thn (ifStT cx c st)).2.pop.cnt ≤ _; simpa [ifSt1] using hcnt) hdep'
              rw [compS_block] at hpostB
              have hpostB' := post_prefix (hjmp.trans h1) ⟨rfl, rfl, rfl, rfl⟩ hpostB
              cases ob with
              | norm e' =>
                simp only at hex
                cases hex
                obtain ⟨σ2, hr2, hpc2, hs2, hrel2⟩ := hpostB'
                have h3 := hend σ2 (by rw [hpc2] <;> rfl)
                refine ⟨_, hr2.trans h3, ?_, ⟨hs2.stack, hs2.frames, hs2.inited, hs2.len⟩, varsRel_pop hrel2⟩
                have : σ2.pc = σ.pc + (ifCond cx c st).1.length + 1 + (compS cx lp thn (ifStT cx c st)).1.length := by
                  rw [hpc2] <;> rfl
                simp [this, Nat.add_assoc]; omega
              | ret v => simp only at hex; cases hex; exact post_ret hpostB'
              | brk l e => simp only at hex; cases hex; exact (post_pop hdI).1 hpostB'
              | cont l e => simp only at hex; cases hex; exact (post_pop hdI).2 hpostB'
            | panic => rw [hb] at hex; simp at hex
            | overflow => rw [hb] at hex; simp at hex
            | stuck => rw [hb] at hex; simp at hex
            | timeout => rw [hb] at hex; simp at hex
          | false =>
            simp only at hex
            cases hex
            simp only [Val.toBool, beq_self_eq_true, if_true] at hjmp
            have h3 := hend { σ with pc := σ.pc + (ifCond cx c st).1.length + 1 + (compS cx lp thn (ifStT cx c st)).1.length } rfl
            refine ⟨_, hjmp.trans h3, ?_, ⟨rfl, rfl, rfl, rfl⟩, ?_⟩
            · simp [Nat.add_assoc]; omega
            · simpa [ifSt1_scopes] using hrel
        | int n => simp at hex
        | null => simp at hex
      | panic => rw [hcv] at hex; simp at hex
      | overflow => rw [hcv] at hex; simp at hex
      | stuck => rw [hcv] at hex; simp at hex
      | timeout => rw [hcv] at hex; simp at hex
    | block =>
      rw [compS_ite_block] at hp hcnt ⊢
      simp only at hp hcnt ⊢
      have hscF : ((compS cx lp els (ifSt1 cx lp c thn st).push).2.pop.pop).scopes = st.scopes := by
        have ht := compS_tail cx els lp ((ifSt1 cx lp c thn st).push) (by simp [ifSt1_scopes])
        simp [ht, ifSt1_scopes]
      have hcntE : (ifSt1 cx lp c thn st).cnt ≤ ((compS cx lp els (ifSt1 cx lp c thn st).push).2.pop.pop).cnt := by
        have := (compS_mono cx els lp ((ifSt1 cx lp c thn st).push) (by simp [ifSt1_scopes])).1
        simpa using this
      have hpc : Placed C σ.pc (ifCond cx c st).1 := hp.left.left.left.left.left
      have hpl : Placed C (σ.pc + (ifCond cx c st).1.length) [Item.lbl st.nl] := hp.left.left.left.left.right
      have hpt : Placed C (σ.pc + (ifCond cx c st).1.length + 1) (compS cx lp thn (ifStT cx c st)).1 :=
        hp.left.left.left.right.cast (by simp [Nat.add_assoc])
      have hpj : Placed C (σ.pc + (ifCond cx c st).1.length + 1 + (compS cx lp thn (ifStT cx c st)).1.length)
          [Item.ins (.jmp (st.nl + 2)), Item.lbl (st.nl + 1)] := hp.left.left.right.cast (by simp [Nat.add_assoc]; omega)
      have hpe : Placed C (σ.pc + (ifCond cx c st).1.length + 1 + (compS cx lp thn (ifStT cx c st)).1.length + 1 + 1)
          (compS cx lp els ((ifSt1 cx lp c thn st).push)).1 := hp.left.right.cast (by simp [Nat.add_assoc]; omega)
      have hpz : Placed C (σ.pc + (ifCond cx c st).1.length + 1 + (compS cx lp thn (ifStT cx c st)).1.length + 1 + 1 +
          (compS cx lp els ((ifSt1 cx lp c thn st).push)).1.length) [Item.lbl (st.nl + 2)] := hp.right.cast (by simp [Nat.add_assoc]; omega)
      have hlElse := hpj.tail.label hn
      have hlEnd := hpz.label hn
      have hend : ∀ τ : State, τ.pc = σ.pc + (ifCond cx c st).1.length + 1 + (compS cx lp thn (ifStT cx c st)).1.length + 1 + 1 +
          (compS cx lp els ((ifSt1 cx lp c thn st).push)).1.length → Reach C τ { τ with pc := τ.pc + 1 } := by
        intro τ hτ
        exact skip_lbl (σ := τ) (hτ ▸ hpz)
      cases hcv : evalE fuel P env.push c with
      | ok cv =>
        rw [hcv] at hex
        have hpost := (ihE (ifSt0 st).scopes env.push) c (.jump false (st.nl + 1)) (ifSt0 st).nl σ cv hcv hpc hrelP hdep'
        simp only [Post] at hpost
        have hjmp := hpost _ hlElse
        cases cv with
        | bool b =>
          cases b with
          | true =>
            simp only at hex
            simp only [Val.toBool, Bool.true_eq_false, beq_iff_eq, if_false] at hjmp
            have h1 := skip_lbl (σ := { σ with pc := σ.pc + (ifCond cx c st).1.length }) hpl
            cases hb : exec fuel P env.push (.block thn) with
            | ok ob =>
              rw [hb] at hex
              have hpostB := ih (.block thn) lp ls { ifSt0 st with nl := (ifCond cx c st).2 } env.push
                { σ with pc := σ.pc + (ifCond cx c st).1.length + 1 } ob hal.1 (hinv.to hinv.noLabel rfl) (Or.inl hdS) hb
                (by rw [compS_block]; exact hpt) hrelP hwfC
                (by rw [compS_block]; show (compS cx lp thn (ifStT cx c st)).2.pop.cnt ≤ _
                    exact Nat.le_trans hcntE (by simpa using hcnt)) hdep'
              rw [compS_block] at hpostB
              have hpostB' := post_prefix (hjmp.trans h1) ⟨rfl, rfl, rfl, rfl⟩ hpostB
              cases ob with
              | norm e' =>
                simp only at hex
                cases hex
                obtain ⟨σ2, hr2, hpc2, hs2, hrel2⟩ := hpostB'
                have hpc2' : σ2.pc = σ.pc + (ifCond cx c st).1.length + 1 + (compS cx lp thn (ifStT cx c st)).1.length := by
                  rw [hpc2] <;> rfl
                have hj := step_jmp (s := σ2) (hpc2' ▸ hpj.head) hlEnd
                have h3 := hend { σ2 with pc := σ.pc + (ifCond cx c st).1.length + 1 + (compS cx lp thn (ifStT cx c st)).1.length + 1 + 1 +
                  (compS cx lp els ((ifSt1 cx lp c thn st).push)).1.length } rfl
                refine ⟨_, hr2.trans ((Reach.step hj).trans h3), ?_, ⟨hs2.stack, hs2.frames, hs2.inited, hs2.len⟩, ?_⟩
                · simp [Nat.add_assoc]; omega
                · rw [hscF]
                  change VarsRel cx (ifSt1 cx lp c thn st).scopes e' _ _ at hrel2
                  rw [ifSt1_scopes] at hrel2
                  exact varsRel_pop hrel2
              | ret v => simp only at hex; cases hex; exact post_ret hpostB'
              | brk l e => simp only at hex; cases hex; exact (post_pop hdI).1 hpostB'
              | cont l e => simp only at hex; cases hex; exact (post_pop hdI).2 hpostB'
            | panic => rw [hb] at hex; simp at hex
            | overflow => rw [hb] at hex; simp at hex
            | stuck => rw [hb] at hex; simp at hex
            | timeout => rw [hb] at hex; simp at hex
          | false =>
            simp only at hex
            simp only [Val.toBool, beq_self_eq_true, if_true] at hjmp
            have h1 := skip_lbl (σ := { σ with pc := σ.pc + (ifCond cx c st).1.length + 1 + (compS cx lp thn (ifStT cx c st)).1.length + 1 }) hpj.tail
            have hrelE : VarsRel cx (ifSt1 cx lp c thn st).scopes env.push σ.locals σ.args := by
              rw [ifSt1_scopes]; exact varsRel_push hrel
            cases hb : exec fuel P env.push (.block els) with
            | ok ob =>
              rw [hb] at hex
              have hpostB := ih (.block els) lp ls (ifSt1 cx lp c thn st) env.push
                { σ with pc := σ.pc + (ifCond cx c st).1.length + 1 + (compS cx lp thn (ifStT cx c st)).1.length + 1 + 1 } ob hal.2 (hinv.to hnl1 rfl) (Or.inl hd1S) hb
                (by rw [compS_block]; exact hpe) hrelE hwf1
                (by rw [compS_block]; show (compS cx lp els (ifSt1 cx lp c thn st).push).2.pop.cnt ≤ _; simpa using hcnt) hdep'
              rw [compS_block] at hpostB
              rw [ifSt1_scopes] at hpostB
              have hpostB' := post_prefix (hjmp.trans h1) ⟨rfl, rfl, rfl, rfl⟩ hpostB
              cases ob with
              | norm e' =>
                simp only at hex
                cases hex
                obtain ⟨σ2, hr2, hpc2, hs2, hrel2⟩ := hpostB'
                have hpc2' : σ2.pc = σ.pc + (ifCond cx c st).1.length + 1 + (compS cx lp thn (ifStT cx c st)).1.length + 1 + 1 +
                    (compS cx lp els ((ifSt1 cx lp c thn st).push)).1.length := by rw [hpc2] <;> rfl
                have h3 := hend σ2 hpc2'
                refine ⟨_, hr2.trans h3, ?_, ⟨hs2.stack, hs2.frames, hs2.inited, hs2.len⟩, varsRel_pop hrel2⟩
                simp [hpc2', Nat.add_assoc]; omega
              | ret v => simp only at hex; cases hex; exact post_ret hpostB'
              | brk l e => simp only at hex; cases hex; exact (post_pop hdI).1 hpostB'
              | cont l e => simp only at hex; cases hex; exact (post_pop hdI).2 hpostB'
            | panic => rw [hb] at hex; simp at hex
            | overflow => rw [hb] at hex; simp at hex
            | stuck => rw [hb] at hex; simp at hex
            | timeout => rw [hb] at hex; simp at hex
        | int n => simp at hex
        | null => simp at hex
      | panic => rw [hcv] at hex; simp at hex
      | overflow => rw [hcv] at hex; simp at hex
      | stuck => rw [hcv] at hex; simp at hex
      | timeout => rw [hcv] at hex; simp at hex
    | elif =>
      rw [compS_ite_elif] at hp hcnt ⊢
      simp only at hp hcnt ⊢
      have hscF : ((compS cx lp els (ifSt1 cx lp c thn st)).2.pop).scopes = st.scopes := by
        have ht := compS_tail cx els lp (ifSt1 cx lp c thn st) (by simp [ifSt1_scopes])
        simp [ht, ifSt1_scopes]
      have hcntE : (ifSt1 cx lp c thn st).cnt ≤ ((compS cx lp els (ifSt1 cx lp c thn st)).2.pop).cnt := by
        have := (compS_mono cx els lp (ifSt1 cx lp c thn st) (by simp [ifSt1_scopes])).1
        simpa using this
      have hpc : Placed C σ.pc (ifCond cx c st).1 := hp.left.left.left.left.left
      have hpl : Placed C (σ.pc + (ifCond cx c st).1.length) [Item.lbl st.nl] := hp.left.left.left.left.right
      have hpt : Placed C (σ.pc + (ifCond cx c st).1.length + 1) (compS cx lp thn (ifStT cx c st)).1 :=
        hp.left.left.left.right.cast (by simp [Nat.add_assoc])
      have hpj : Placed C (σ.pc + (ifCond cx c st).1.length + 1 + (compS cx lp thn (ifStT cx c st)).1.length)
          [Item.ins (.jmp (st.nl + 2)), Item.lbl (st.nl + 1)] := hp.left.left.right.cast (by simp [Nat.add_assoc]; omega)
      have hpe : Placed C (σ.pc + (ifCond cx c st).1.length + 1 + (compS cx lp thn (ifStT cx c st)).1.length + 1 + 1)
          (compS cx lp els (ifSt1 cx lp c thn st)).1 := hp.left.right.cast (by simp [Nat.add_assoc]; omega)
      have hpz : Placed C (σ.pc + (ifCond cx c st).1.length + 1 + (compS cx lp thn (ifStT cx c st)).1.length + 1 + 1 +
          (compS cx lp els (ifSt1 cx lp c thn st)).1.length) [Item.lbl (st.nl + 2)] := hp.right.cast (by simp [Nat.add_assoc]; omega)
      have hlElse := hpj.tail.label hn
      have hlEnd := hpz.label hn
      have hend : ∀ τ : State, τ.pc = σ.pc + (ifCond cx c st).1.length + 1 + (compS cx lp thn (ifStT cx c st)).1.length + 1 + 1 +
          (compS cx lp els (ifSt1 cx lp c thn st)).1.length → Reach C τ { τ with pc := τ.pc + 1 } := by
        intro τ hτ
        exact skip_lbl (σ := τ) (hτ ▸ hpz)
      cases hcv : evalE fuel P env.push c with
      | ok cv =>
        rw [hcv] at hex
        have hpost := (ihE (ifSt0 st).scopes env.push) c (.jump false (st.nl + 1)) (ifSt0 st).nl σ cv hcv hpc hrelP hdep'
        simp only [Post] at hpost
        have hjmp := hpost _ hlElse
        cases cv with
        | bool b =>
          cases b with
          | true =>
            simp only at hex
            simp only [Val.toBool, Bool.true_eq_false, beq_iff_eq, if_false] at hjmp
            have h1 := skip_lbl (σ := { σ with pc := σ.pc + (ifCond cx c st).1.length }) hpl
            cases hb : exec fuel P env.push (.block thn) with
            | ok ob =>
              rw [hb] at hex
              have hpostB := ih (.block thn) lp ls { ifSt0 st with nl := (ifCond cx c st).2 } env.push
                { σ with pc := σ.pc + (ifCond cx c st).1.length + 1 } ob hal.1 (hinv.to hinv.noLabel rfl) (Or.inl hdS) hb
                (by rw [compS_block]; exact hpt) hrelP hwfC
                (by rw [compS_block]; show (compS cx lp thn (ifStT cx c st)).2.pop.cnt ≤ _
                    exact Nat.le_trans hcntE (by simpa using hcnt)) hdep'
              rw [compS_block] at hpostB
              have hpostB' := post_prefix (hjmp.trans h1) ⟨rfl, rfl, rfl, rfl⟩ hpostB
              cases ob with
              | norm e' =>
                simp only at hex
                cases hex
                obtain ⟨σ2, hr2, hpc2, hs2, hrel2⟩ := hpostB'
                have hpc2' : σ2.pc = σ.pc + (ifCond cx c st).1.length + 1 + (compS cx lp thn (ifStT cx c st)).1.length := by
                  rw [hpc2] <;> rfl
                have hj := step_jmp (s := σ2) (hpc2' ▸ hpj.head) hlEnd
                have h3 := hend { σ2 with pc := σ.pc + (ifCond cx c st).1.length + 1 + (compS cx lp thn (ifStT cx c st)).1.length + 1 + 1 +
                  (compS cx lp els (ifSt1 cx lp c thn st)).1.length } rfl
                refine ⟨_, hr2.trans ((Reach.step hj).trans h3), ?_, ⟨hs2.stack, hs2.frames, hs2.inited, hs2.len⟩, ?_⟩
                · simp [Nat.add_assoc]; omega
                · rw [hscF]
                  change VarsRel cx (ifSt1 cx lp c thn st).scopes e' _ _ at hrel2
                  rw [ifSt1_scopes] at hrel2
                  exact varsRel_pop hrel2
              | ret v => simp only at hex; cases hex; exact post_ret hpostB'
              | brk l e => simp only at hex; cases hex; exact (post_pop hdI).1 hpostB'
              | cont l e => simp only at hex; cases hex; exact (post_pop hdI).2 hpostB'
            | panic => rw [hb] at hex; simp at hex
            | overflow => rw [hb] at hex; simp at hex
            | stuck => rw [hb] at hex; simp at hex
            | timeout => rw [hb] at hex; simp at hex
          | false =>
            simp only at hex
            simp only [Val.toBool, beq_self_eq_true, if_true] at hjmp
            have h1 := skip_lbl (σ := { σ with pc := σ.pc + (ifCond cx c st).1.length + 1 + (compS cx lp thn (ifStT cx c st)).1.length + 1 }) hpj.tail
            have hrelE : VarsRel cx (ifSt1 cx lp c thn st).scopes env.push σ.locals σ.args := by
              rw [ifSt1_scopes]; exact varsRel_push hrel
            cases hb : exec fuel P env.push (els) with
            | ok ob =>
              rw [hb] at hex
              have hpostB := ih (els) lp ls (ifSt1 cx lp c thn st) env.push
                { σ with pc := σ.pc + (ifCond cx c st).1.length + 1 + (compS cx lp thn (ifStT cx c st)).1.length + 1 + 1 } ob hal.2 (hinv.to hnl1 rfl) (Or.inl hd1S) hb
                (by exact hpe) hrelE hwf1
                (by simpa using hcnt) hdep'
              skip
              rw [ifSt1_scopes] at hpostB
              have hpostB' := post_prefix (hjmp.trans h1) ⟨rfl, rfl, rfl, rfl⟩ hpostB
              cases ob with
              | norm e' =>
                simp only at hex
                cases hex
                obtain ⟨σ2, hr2, hpc2, hs2, hrel2⟩ := hpostB'
                have hpc2' : σ2.pc = σ.pc + (ifCond cx c st).1.length + 1 + (compS cx lp thn (ifStT cx c st)).1.length + 1 + 1 +
                    (compS cx lp els (ifSt1 cx lp c thn st)).1.length := by rw [hpc2] <;> rfl
                have h3 := hend σ2 hpc2'
                refine ⟨_, hr2.trans h3, ?_, ⟨hs2.stack, hs2.frames, hs2.inited, hs2.len⟩, varsRel_pop hrel2⟩
                simp [hpc2', Nat.add_assoc]; omega
              | ret v => simp only at hex; cases hex; exact post_ret hpostB'
              | brk l e => simp only at hex; cases hex; exact (post_pop hdI).1 hpostB'
              | cont l e => simp only at hex; cases hex; exact (post_pop hdI).2 hpostB'
            | panic => rw [hb] at hex; simp at hex
            | overflow => rw [hb] at hex; simp at hex
            | stuck => rw [hb] at hex; simp at hex
            | timeout => rw [hb] at hex; simp at hex
        | int n => simp at hex
        | null => simp at hex
      | panic => rw [hcv] at hex; simp at hex
      | overflow => rw [hcv] at hex; simp at hex
      | stuck => rw [hcv] at hex; simp at hex
      | timeout => rw [hcv] at hex; simp at hex
  | loop init cond post body =>
    simp only [Allowed] at hal
    simp only [exec] at hex
    have hnl := hinv.noLabel
    exact ihL init cond post body lp ls st env σ out hal.1 hal.2.1 (by rw [hnl]; exact hal.2.2) hinv.sig hinv.stk hinv.few hdI
      (by rw [hnl]; exact hex) hp hrel hwf hcnt hdep'
  | labeled l s =>
    cases s with
    | loop init cond post body =>
      have hal' : Allowed ls init ∧ NoDecl post ∧ Allowed ((some l, true) :: ls) body := by simpa only [Allowed] using hal
      simp only [exec] at hex
      rw [compS_labeled] at hp hcnt ⊢
      exact ihL init cond post body lp ls { st with nextLabel := some l } env σ out hal'.1 hal'.2.1 hal'.2.2 hinv.sig hinv.stk hinv.few hdI
        hex hp hrel (wf_mono hwf rfl (Nat.le_refl _)) hcnt hdep'
    | switchS tag ti cl =>
      have hal' : swCount ls < 3 ∧ AllowedCl ((some l, false) :: ls) cl := by simpa only [Allowed] using hal
      simp only [exec] at hex
      rw [compS_labeled] at hp hcnt ⊢
      exact ihSw tag ti cl lp ls { st with nextLabel := some l } env σ out hal'.1 hal'.2 hinv.sig hinv.stk hdI
        hex hp hrel (wf_mono hwf rfl (Nat.le_refl _)) hcnt hdep'
    | skip => exact hal.elim
    | seq a b => exact hal.elim
    | define x e => exact hal.elim
    | assign x e => exact hal.elim
    | opAssign x op e => exact hal.elim
    | inc x => exact hal.elim
    | dec x => exact hal.elim
    | varDecl x b i => exact hal.elim
    | exprStmt e => exact hal.elim
    | discard e => exact hal.elim
    | panicS e => exact hal.elim
    | ite c t k e => exact hal.elim
    | ret e => exact hal.elim
    | ret2 e1 e2 => exact hal.elim
    | define2 x y e => exact hal.elim
    | brk => exact hal.elim
    | cont => exact hal.elim
    | block b => exact hal.elim
    | labeled l' s' => exact hal.elim
    | brkL l' => exact hal.elim
    | contL l' => exact hal.elim
    | caseS e1 e2 b ft r => exact hal.elim
    | defaultS b => exact hal.elim
  | brkL l =>
    simp only [Allowed] at hal
    simp only [exec] at hex
    cases hex
    obtain ⟨dr, e, he⟩ := findBrk_some_ex (lp := lp) (by rw [hinv.sig]; exact hal) 0
    have hle := findBrk_le he
    simp only [compS, he] at hp ⊢
    refine ⟨dr, e, he, fun bp hb => ?_⟩
    obtain ⟨σ', h1, h2, h3, h4, h5⟩ := run_branch hp (by have := hinv.few; omega) (by have := hinv.stk; omega) bp hb
    exact ⟨σ', h1, h2, h3, by rw [h4, h5]; exact varsRel_drop hrel _⟩
  | contL l =>
    simp only [Allowed] at hal
    simp only [exec] at hex
    cases hex
    obtain ⟨dr, e, he⟩ := findCont_some_ex (lp := lp) (by rw [hinv.sig]; exact hal) 0
    have hle := findCont_le he
    simp only [compS, he] at hp ⊢
    refine ⟨dr, e, he, findCont_some_isFor (by rw [hinv.sig]; exact hal) he, fun bp hb => ?_⟩
    obtain ⟨σ', h1, h2, h3, h4, h5⟩ := run_branch hp (by have := hinv.few; omega) (by have := hinv.stk; omega) bp hb
    exact ⟨σ', h1, h2, h3, by rw [h4, h5]; exact varsRel_drop hrel _⟩
  | switchS tag ti cl =>
    simp only [Allowed] at hal
    simp only [exec] at hex
    have hnl := hinv.noLabel
    exact ihSw tag ti cl lp ls st env σ out hal.1 (by rw [hnl]; exact hal.2) hinv.sig hinv.stk hdI
      (by rw [hnl]; exact hex) hp hrel hwf hcnt hdep'
  | caseS e1 e2 body ft rest => simp [exec] at hex
  | defaultS body => simp [exec] at hex

end NeoModel.CompileProofs
