/-
CompileFull — the full forward simulation for the MiniGo core: expressions with calls, statements with loops,
break/continue and call statements, loop iterations, CALL…RET, proved together by induction on the fuel of the
big-step semantics (`allOK`).
-/
import NeoModel.Proofs.CompileStmt
namespace NeoModel.CompileProofs
open NeoModel.MiniVm NeoModel.MiniVm.Asm NeoModel.MiniGo NeoModel.Compile

/-! # Program-level setting -/

/-- the code of every function of `P` sits somewhere in `C` (starting with its label mark). -/
structure ProgCode (C : Code) (P : Prog) : Prop where
  nodup : (labelsOf C).Nodup
  funcs : ∀ (i : Nat) (d : FuncDecl), P[i]? = some d → ∃ pc nl, Placed C pc (compFunc (funcTable P) d i nl).1

theorem tableFrom_lookup (l : List FuncDecl) (k : Nat) (f : String) (d : FuncDecl)
    (h : l.find? (fun d => d.name == f) = some d) :
    ∃ i, l[i]? = some d ∧ (tableFrom l k).lookup f = some (k + i, if d.hasResult then 1 else 0) := by
  induction l generalizing k with
  | nil => simp at h
  | cons a r ih =>
    simp only [List.find?] at h
    by_cases hn : (a.name == f) = true
    · simp [hn] at h
      subst h
      have hnf : a.name = f := by simpa using hn
      have : (f == a.name) = true := by simp [hnf]
      exact ⟨0, by simp, by simp [tableFrom, List.lookup, this]⟩
    · have hn' : (a.name == f) = false := by simpa using hn
      simp only [hn'] at h
      obtain ⟨i, hi, hl⟩ := ih (k + 1) h
      have hne : a.name ≠ f := by simpa using hn'
      have : (f == a.name) = false := by simp; exact fun h => hne h.symm
      refine ⟨i + 1, by simpa using hi, ?_⟩
      simp only [tableFrom, List.lookup, this]
      rw [hl]
      congr 2
      omega

theorem find_table {P : Prog} {f : String} {d : FuncDecl} (h : P.find f = some d) :
    ∃ i, P[i]? = some d ∧ (funcTable P).lookup f = some (i, if d.hasResult then 1 else 0) := by
  obtain ⟨i, hi, hl⟩ := tableFrom_lookup P 0 f d h
  exact ⟨i, hi, by simpa [funcTable] using hl⟩

theorem step_call {C : Code} {s : State} {l tp : Nat} (hf : C[s.pc]? = some (.ins (.call l)))
    (hl : findLabel C l = some tp) (hd : s.frames.length + 1 < 1024) :
    Asm.step C s = .running (State.mk tp s.stack [] []
      (MiniVm.Frame.mk (s.pc + 1) s.locals s.args s.inited :: s.frames) false) := by
  have : ¬ (s.frames.length + 1 ≥ 1024) := by omega
  simp [Asm.step, hf, stepOp, hl, this]

theorem step_ret {C : Code} {s : State} {f : MiniVm.Frame} {fs : List MiniVm.Frame} (hf : C[s.pc]? = some (.ins .ret))
    (hfr : s.frames = f :: fs) :
    Asm.step C s = .running { pc := f.retPc, stack := s.stack, locals := f.locals, args := f.args, frames := fs, inited := f.inited } := by
  simp [Asm.step, hf, stepOp, hfr]

/-- statements covered by the full statement theorem.  `il` = inside a loop body (break/continue allowed).
    Excluded: `var x T = e` (see `varDecl_shadow_witness`), a declaring post statement (not Go). -/
def NoDecl : Stmt → Prop
  | .skip | .assign _ _ | .inc _ | .dec _ => True
  | .opAssign _ op _ => Strict op
  | _ => False

def IsCall : Expr → Prop
  | .call0 _ | .call1 _ _ | .call2 _ _ _ | .call3 _ _ _ _ => True
  | _ => False

def Allowed (il : Bool) : Stmt → Prop
  | .skip | .inc _ | .dec _ | .define _ _ | .assign _ _ | .discard _ | .panicS _ | .ret _ => True
  | .seq a b => Allowed il a ∧ Allowed il b
  | .opAssign _ op _ => Strict op
  | .varDecl _ _ none => True
  | .varDecl _ _ (some _) => False
  | .exprStmt e => IsCall e
  | .ite _ t _ e => Allowed il t ∧ Allowed il e
  | .loop i _ p b => Allowed false i ∧ NoDecl p ∧ Allowed true b
  | .brk | .cont => il = true
  | .block b => Allowed il b

theorem noDecl_allowed {p : Stmt} (h : NoDecl p) (il : Bool) : Allowed il p := by
  cases p <;> simp [NoDecl] at h <;> simp [Allowed] <;> exact h

end NeoModel.CompileProofs

namespace NeoModel.CompileProofs
open NeoModel.MiniVm NeoModel.MiniVm.Asm NeoModel.MiniGo NeoModel.Compile

/-- the label / result count that a call of `f` is compiled with. -/
def fnLabel (P : Prog) (f : String) : Nat := (match (funcTable P).lookup f with | some r => r | none => (0, 0)).1
def fnRes (P : Prog) (f : String) : Nat := (match (funcTable P).lookup f with | some r => r | none => (0, 0)).2

theorem ctx_func {cx : Ctx} {P : Prog} (h : cx.funcs = funcTable P) (f : String) :
    cx.func f = (fnLabel P f, fnRes P f) := by
  simp only [Ctx.func, fnLabel, fnRes, h]
  cases (funcTable P).lookup f <;> rfl

/-- a call that delivers a value: from the CALL instruction (arguments on the stack, first one on top) to the
    instruction after it, with the result in place of the arguments and the caller's frame restored. -/
def CallOK (P : Prog) (C : Code) (fuel : Nat) : Prop :=
  ∀ (f : String) (vs : List Val) (v : Val) (σ : State) (rest : List Val),
    callF fuel P f vs = .ok v → σ.stack = vs ++ rest →
    C[σ.pc]? = some (.ins (.call (fnLabel P f))) → σ.frames.length + fuel < 1024 →
    Reach C σ { σ with pc := σ.pc + 1, stack := v :: rest }

/-- expressions, calls included. -/
def ExprFOK (P : Prog) (C : Code) (cx : Ctx) (sc : Scopes) (env : Env) (fuel : Nat) : Prop :=
  ∀ (e : Expr) (m : Mode) (nl : Nat) (s : State) (v : Val),
    evalE fuel P env e = .ok v →
    Placed C s.pc (compE cx sc e m nl).1 →
    VarsRel cx sc env s.locals s.args → s.frames.length + fuel < 1024 →
    Post C m (compE cx sc e m nl).1.length s v

theorem exprFOK_zero (P : Prog) (C : Code) (cx : Ctx) (sc : Scopes) (env : Env) : ExprFOK P C cx sc env 0 := by
  intro e m nl s v hev
  simp [evalE] at hev

theorem call_post {P : Prog} {C : Code} {cx : Ctx} {fuel : Nat} {m : Mode} {s : State} {c : Code} {f : String}
    {vs : List Val} {v : Val} (htab : cx.funcs = funcTable P) (ihc : CallOK P C fuel)
    (hp : Placed C s.pc (withMode m (c ++ [.ins (.call (cx.func f).1)])))
    (hr : Reach C s { s with pc := s.pc + c.length, stack := vs ++ s.stack })
    (hcall : callF fuel P f vs = .ok v) (hdep : s.frames.length + fuel < 1024) :
    Post C m (withMode m (c ++ [.ins (.call (cx.func f).1)])).length s v := by
  apply withMode_post hp
  refine hr.trans ?_
  have hf : C[s.pc + c.length]? = some (.ins (.call (cx.func f).1)) := (withMode_placed hp).right.head
  rw [ctx_func htab] at hf
  have := ihc f vs v { s with pc := s.pc + c.length, stack := vs ++ s.stack } s.stack hcall rfl hf hdep
  refine this.trans ?_
  simp [Nat.add_assoc]
  exact Reach.refl _ _

theorem exprFOK_succ (P : Prog) (C : Code) (cx : Ctx) (sc : Scopes) (env : Env) (fuel : Nat)
    (hn : (labelsOf C).Nodup) (htab : cx.funcs = funcTable P)
    (ih : ExprFOK P C cx sc env fuel) (ihc : CallOK P C fuel) : ExprFOK P C cx sc env (fuel + 1) := by
  intro e m nl s v hev hp hrel hdep
  have hdep' : s.frames.length + fuel < 1024 := by omega
  cases e with
  | lit n =>
    simp only [evalE] at hev
    obtain ⟨rfl, _⟩ := chk_ok hev
    simp only [compE] at hp ⊢
    exact push_post hp rfl (by simp [stepData])
  | tt =>
    simp only [evalE] at hev; cases hev
    simp only [compE] at hp ⊢
    exact push_post hp rfl (by simp [stepData])
  | ff =>
    simp only [evalE] at hev; cases hev
    simp only [compE] at hp ⊢
    exact push_post hp rfl (by simp [stepData])
  | var x =>
    simp only [evalE] at hev
    cases hg : env.get x with
    | none => simp [hg] at hev
    | some w =>
      simp [hg] at hev; subst hev
      obtain ⟨op, hop, hkind, hstep⟩ := load_correct hrel hg
      simp only [compE, hop] at hp ⊢
      refine push_post hp ?_ (hstep _)
      rcases hkind with h | ⟨j, h⟩ <;> subst h <;> rfl
  | paren e =>
    simp only [evalE] at hev
    simp only [compE] at hp ⊢
    have hp' := withMode_placed hp
    have := ih e .val nl s v hev hp' hrel hdep'
    exact withMode_post hp this
  | neg e =>
    simp only [evalE] at hev
    simp only [compE] at hp ⊢
    cases hx : evalE fuel P env e with
    | ok x =>
      rw [hx] at hev
      cases x with
      | int n =>
        simp only at hev
        obtain ⟨rfl, hfit⟩ := chk_ok hev
        have hp' : Placed C s.pc (compE cx sc e .val nl).1 := (withMode_placed hp).left
        have hr := ih e .val nl s (.int n) hx hp' hrel hdep'
        exact op_post hp rfl hr (by simp [stepData, Val.toInt?, mkInt, hfit])
      | bool b => simp at hev
      | null => simp at hev
    | panic => rw [hx] at hev; simp at hev
    | overflow => rw [hx] at hev; simp at hev
    | stuck => rw [hx] at hev; simp at hev
    | timeout => rw [hx] at hev; simp at hev
  | not e =>
    simp only [evalE] at hev
    simp only [compE] at hp ⊢
    cases hx : evalE fuel P env e with
    | ok x =>
      rw [hx] at hev
      cases x with
      | bool b =>
        simp only at hev
        cases hev
        have hp' : Placed C s.pc (compE cx sc e .val nl).1 := (withMode_placed hp).left
        have hr := ih e .val nl s (.bool b) hx hp' hrel hdep'
        exact op_post hp rfl hr (by simp [stepData, Val.toBool])
      | int n => simp at hev
      | null => simp at hev
    | panic => rw [hx] at hev; simp at hev
    | overflow => rw [hx] at hev; simp at hev
    | stuck => rw [hx] at hev; simp at hev
    | timeout => rw [hx] at hev; simp at hev
  | bin op a b =>
    by_cases hlog : op = .land ∨ op = .lor
    · have hc : (op == .land || op == .lor) = true := by
        rcases hlog with rfl | rfl <;> rfl
      have hev' := evalE_logic hlog hev
      generalize hcs : (op == BinOp.lor) = cs at hev'
      simp only at hev'
      cases m with
      | jump cond t =>
        rw [compE_logic_jump cx sc op a b cond t nl hlog] at hp ⊢
        rw [hcs] at hp ⊢
        generalize hca : compE cx sc a (.jump cs (if cond == cs then t else nl)) (nl + 1) = ra_ at hp ⊢
        obtain ⟨ca, nl1⟩ := ra_
        generalize hcb : compE cx sc b (.jump cond t) nl1 = rb_ at hp ⊢
        obtain ⟨cb, nl2⟩ := rb_
        simp only at hp ⊢
        simp only [Post]
        intro tp hl
        have hpa : Placed C s.pc ca := hp.left.left
        have hpb : Placed C (s.pc + ca.length) cb := hp.left.right
        have hpe : Placed C (s.pc + (ca ++ cb).length) [.lbl nl] := hp.right
        have hle : findLabel C nl = some (s.pc + (ca ++ cb).length) := hpe.label hn
        have hla : ∃ tpa, findLabel C (if (cond == cs) = true then t else nl) = some tpa ∧
            tpa = if (cond == cs) = true then tp else s.pc + (ca ++ cb).length := by
          by_cases hcc : (cond == cs) = true <;> simp [hcc, hl, hle]
        obtain ⟨tpa, hla1, hla2⟩ := hla
        have stepEnd : Reach C { s with pc := s.pc + (ca ++ cb).length } { s with pc := s.pc + (ca ++ cb ++ [Item.lbl nl]).length } := by
          have := step_lbl (s := { s with pc := s.pc + (ca ++ cb).length }) hpe.head
          refine (Reach.step this).trans ?_
          simp [Nat.add_assoc]
          exact Reach.refl _ _
        rcases hev' with ⟨hxa, rfl⟩ | ⟨hxa, y, hyb, rfl⟩
        · have ra := ih a _ (nl + 1) s _ hxa (by rw [hca]; exact hpa) hrel hdep'
          rw [hca] at ra
          simp only [Post] at ra
          have ra := ra tpa hla1
          simp only [Val.toBool, beq_self_eq_true, if_true] at ra
          subst hla2
          by_cases hcc : (cond == cs) = true
          · have : cs = cond := by cases cs <;> cases cond <;> simp_all
            subst this
            simpa [Val.toBool, hcc] using ra
          · have hne : (cs == cond) = false := by cases cs <;> cases cond <;> simp_all
            simp only [hcc] at ra
            simp only [Val.toBool, hne]
            exact ra.trans (by simpa using stepEnd)
        · have ra := ih a _ (nl + 1) s _ hxa (by rw [hca]; exact hpa) hrel hdep'
          rw [hca] at ra
          simp only [Post] at ra
          have ra := ra tpa hla1
          have hnb : ((!cs) == cs) = false := by cases cs <;> rfl
          simp only [Val.toBool, hnb] at ra
          have rb := ih b _ nl1 { s with pc := s.pc + ca.length } _ hyb (by rw [hcb]; exact hpb) hrel hdep'
          rw [hcb] at rb
          simp only [Post] at rb
          have rb := rb tp hl
          refine ra.trans (rb.trans ?_)
          simp only [Val.toBool]
          by_cases hyc : (y == cond) = true
          · simp [hyc]; exact Reach.refl _ _
          · simp only [hyc]
            have : s.pc + ca.length + cb.length = s.pc + (ca ++ cb).length := by simp [Nat.add_assoc]
            simp only [Bool.false_eq_true, if_false, this]
            simpa using stepEnd
      | val =>
        rw [compE_logic_val cx sc op a b nl hlog] at hp ⊢
        rw [hcs] at hp ⊢
        generalize hca : compE cx sc a (.jump cs (nl + 1)) (nl + 2) = ra_ at hp ⊢
        obtain ⟨ca, nl1⟩ := ra_
        generalize hcb : compE cx sc b .val nl1 = rb_ at hp ⊢
        obtain ⟨cb, nl2⟩ := rb_
        simp only at hp ⊢
        simp only [Post]
        have hpa : Placed C s.pc ca := hp.left.left
        have hpb : Placed C (s.pc + ca.length) cb := hp.left.right
        have hp0 : Placed C (s.pc + (ca ++ cb).length) [.ins (.jmp nl), .lbl (nl + 1), .ins (if cs then Op.pushT else Op.pushF), .lbl nl] := hp.right
        have hp1 := hp0.tail
        have hp2 := hp1.tail
        have hp3 := hp2.tail
        have hpush : findLabel C (nl + 1) = some (s.pc + (ca ++ cb).length + 1) := hp1.label hn
        have hend : findLabel C nl = some (s.pc + (ca ++ cb).length + 1 + 1 + 1) := hp3.label hn
        have hlen : (ca ++ cb ++ [Item.ins (Op.jmp nl), Item.lbl (nl + 1), Item.ins (if cs then Op.pushT else Op.pushF), Item.lbl nl]).length
            = (ca ++ cb).length + 4 := by simp; omega
        rw [hlen]
        -- the last mark
        have stepEnd : ∀ stk : List Val, Reach C { s with pc := s.pc + (ca ++ cb).length + 1 + 1 + 1, stack := stk }
            { s with pc := s.pc + ((ca ++ cb).length + 4), stack := stk } := by
          intro stk
          have := step_lbl (s := { s with pc := s.pc + (ca ++ cb).length + 1 + 1 + 1, stack := stk }) hp3.head
          refine (Reach.step this).trans ?_
          simp [Nat.add_assoc]
          exact Reach.refl _ _
        rcases hev' with ⟨hxa, rfl⟩ | ⟨hxa, y, hyb, rfl⟩
        · have ra := ih a _ (nl + 2) s _ hxa (by rw [hca]; exact hpa) hrel hdep'
          rw [hca] at ra
          simp only [Post] at ra
          have ra := ra _ hpush
          simp only [Val.toBool, beq_self_eq_true, if_true] at ra
          refine ra.trans ?_
          have s1 := step_lbl (s := { s with pc := s.pc + (ca ++ cb).length + 1 }) hp1.head
          refine (Reach.step s1).trans ?_
          have hd : isData (if cs then (Op.pushT : Op Nat) else Op.pushF) = true := by cases cs <;> rfl
          have s2 := step_data (s := { s with pc := s.pc + (ca ++ cb).length + 1 + 1 }) (stk := .bool cs :: s.stack)
            (loc := s.locals) (ar := s.args) hp2.head hd (by cases cs <;> simp [stepData])
          refine (Reach.step s2).trans ?_
          simpa using stepEnd (.bool cs :: s.stack)
        · have ra := ih a _ (nl + 2) s _ hxa (by rw [hca]; exact hpa) hrel hdep'
          rw [hca] at ra
          simp only [Post] at ra
          have ra := ra _ hpush
          have hnb : ((!cs) == cs) = false := by cases cs <;> rfl
          simp only [Val.toBool, hnb] at ra
          have rb := ih b _ nl1 { s with pc := s.pc + ca.length } _ hyb (by rw [hcb]; exact hpb) hrel hdep'
          rw [hcb] at rb
          simp only [Post] at rb
          refine ra.trans (rb.trans ?_)
          have hpc : s.pc + ca.length + cb.length = s.pc + (ca ++ cb).length := by simp [Nat.add_assoc]
          have s1 := step_jmp (s := { s with pc := s.pc + (ca ++ cb).length, stack := .bool y :: s.stack }) hp0.head hend
          simp only [hpc]
          refine (Reach.step s1).trans ?_
          simpa using stepEnd (.bool y :: s.stack)
    · have hst : Strict op := ⟨fun h => hlog (Or.inl h), fun h => hlog (Or.inr h)⟩
      obtain ⟨x, y, hx, hy, hb⟩ := evalE_bin_strict hst hev
      have hc : (op == .land || op == .lor) = false := by
        cases op <;> simp_all
      rcases hca : compE cx sc a .val nl with ⟨ca, nl1⟩
      rcases hcb : compE cx sc b .val nl1 with ⟨cb, nl2⟩
      -- both operands are evaluated onto the stack
      have hab : ∀ rest : Code, Placed C s.pc (ca ++ cb ++ rest) →
          Reach C s { s with pc := s.pc + (ca ++ cb).length, stack := y :: x :: s.stack } := by
        intro rest hpr
        have hpa : Placed C s.pc ca := hpr.left.left
        have ra := ih a .val nl s x hx (by rw [hca]; exact hpa) hrel hdep'
        rw [hca] at ra
        simp only [Post] at ra
        have hpb : Placed C (s.pc + ca.length) cb := hpr.left.right
        have rb := ih b .val nl1 { s with pc := s.pc + ca.length, stack := x :: s.stack } y hy
          (by rw [hcb]; exact hpb) hrel hdep'
        rw [hcb] at rb
        simp only [Post] at rb
        refine ra.trans (rb.trans ?_)
        simp [Nat.add_assoc]
        exact Reach.refl _ _
      cases m with
      | val =>
        have hcode : (compE cx sc (.bin op a b) .val nl).1 = withMode .val ((ca ++ cb) ++ [.ins (tokenOp op)]) := by
          simp [compE, hc, hca, hcb, withMode]
        rw [hcode] at hp ⊢
        have hd : isData (tokenOp op) = true := by cases op <;> rfl
        exact op_post hp hd (hab _ (by simpa [withMode] using hp)) (evalBin_token hst hb _ _ _)
      | jump cond t =>
        cases hj : jumpFor op with
        | none =>
          have hcode : (compE cx sc (.bin op a b) (.jump cond t) nl).1 = withMode (.jump cond t) ((ca ++ cb) ++ [.ins (tokenOp op)]) := by
            simp [compE, hc, hca, hcb, withMode, hj]
          rw [hcode] at hp ⊢
          have hd : isData (tokenOp op) = true := by cases op <;> rfl
          exact op_post hp hd (hab _ (by simpa [withMode] using hp)) (evalBin_token hst hb _ _ _)
        | some c =>
          have hcode : (compE cx sc (.bin op a b) (.jump cond t) nl).1 = ca ++ cb ++ [.ins (.jmpCmp (if cond then c else negCmp c) t)] := by
            simp [compE, hc, hca, hcb, hj]
          rw [hcode] at hp ⊢
          obtain ⟨i, j, rfl, rfl, rfl⟩ := evalBin_jump hj hb
          simp only [Post]
          intro tp hl
          refine (hab _ hp).trans ?_
          have hf : C[s.pc + (ca ++ cb).length]? = some (.ins (.jmpCmp (if cond then c else negCmp c) t)) := hp.right.head
          have := step_jmpCmp (s := { s with pc := s.pc + (ca ++ cb).length, stack := .int j :: .int i :: s.stack }) hf hl rfl
          refine (Reach.step this).trans ?_
          cases cond <;> simp [negCmp_eval, Val.toBool, Nat.add_assoc] <;> cases c.eval i j <;> simp <;> exact Reach.refl _ _
  | call0 f =>
    simp only [evalE] at hev
    simp only [compE] at hp ⊢
    exact call_post (c := []) (vs := []) htab ihc (by simpa using hp) (by simpa using Reach.refl C s) hev hdep'
  | call1 f a =>
    simp only [evalE] at hev
    simp only [compE] at hp ⊢
    cases hx : evalE fuel P env a with
    | ok x =>
      rw [hx] at hev
      simp only at hev
      have hpa : Placed C s.pc (compE cx sc a .val nl).1 := (withMode_placed hp).left
      have ra := ih a .val nl s x hx hpa hrel hdep'
      simp only [Post] at ra
      exact call_post (vs := [x]) htab ihc hp (by simpa using ra) hev hdep'
    | panic => rw [hx] at hev; simp at hev
    | overflow => rw [hx] at hev; simp at hev
    | stuck => rw [hx] at hev; simp at hev
    | timeout => rw [hx] at hev; simp at hev
  | call2 f a b =>
    simp only [evalE] at hev
    simp only [compE, emitReverse] at hp ⊢
    cases hx : evalE fuel P env a with
    | ok x =>
      rw [hx] at hev
      simp only at hev
      cases hy : evalE fuel P env b with
      | ok y =>
        rw [hy] at hev
        simp only at hev
        rcases hca : compE cx sc a .val nl with ⟨ca, nl1⟩
        rcases hcb : compE cx sc b .val nl1 with ⟨cb, nl2⟩
        simp only [hca, hcb] at hp ⊢
        have hp0 := withMode_placed hp
        have hpa : Placed C s.pc ca := hp0.left.left.left
        have ra := ih a .val nl s x hx (by rw [hca]; exact hpa) hrel hdep'
        rw [hca] at ra
        simp only [Post] at ra
        have hpb : Placed C (s.pc + ca.length) cb := hp0.left.left.right
        have rb := ih b .val nl1 { s with pc := s.pc + ca.length, stack := x :: s.stack } y hy
          (by rw [hcb]; exact hpb) hrel hdep'
        rw [hcb] at rb
        simp only [Post] at rb
        have hsw := run_data (C := C) (σ := { s with pc := s.pc + ca.length + cb.length, stack := y :: x :: s.stack })
          (op := .swap) (stk := x :: y :: s.stack) (loc := s.locals) (ar := s.args)
          ((hp0.left.right.cast (by simp [Nat.add_assoc])).head) rfl (by simp [stepData])
        have hr : Reach C s { s with pc := s.pc + (ca ++ cb ++ [Item.ins Op.swap]).length, stack := [x, y] ++ s.stack } := by
          refine ra.trans (rb.trans (hsw.trans ?_))
          simp [Nat.add_assoc]
          exact Reach.refl _ _
        exact call_post (c := ca ++ cb ++ [Item.ins Op.swap]) (vs := [x, y]) htab ihc hp hr hev hdep'
      | panic => rw [hy] at hev; simp at hev
      | overflow => rw [hy] at hev; simp at hev
      | stuck => rw [hy] at hev; simp at hev
      | timeout => rw [hy] at hev; simp at hev
    | panic => rw [hx] at hev; simp at hev
    | overflow => rw [hx] at hev; simp at hev
    | stuck => rw [hx] at hev; simp at hev
    | timeout => rw [hx] at hev; simp at hev
  | call3 f a b c =>
    simp only [evalE] at hev
    simp only [compE, emitReverse] at hp ⊢
    cases hx : evalE fuel P env a with
    | ok x =>
      rw [hx] at hev
      simp only at hev
      cases hy : evalE fuel P env b with
      | ok y =>
        rw [hy] at hev
        simp only at hev
        cases hz : evalE fuel P env c with
        | ok z =>
          rw [hz] at hev
          simp only at hev
          rcases hca : compE cx sc a .val nl with ⟨ca, nl1⟩
          rcases hcb : compE cx sc b .val nl1 with ⟨cb, nl2⟩
          rcases hcc : compE cx sc c .val nl2 with ⟨cc, nl3⟩
          simp only [hca, hcb, hcc] at hp ⊢
          have hp0 := withMode_placed hp
          have hpa : Placed C s.pc ca := hp0.left.left.left.left
          have ra := ih a .val nl s x hx (by rw [hca]; exact hpa) hrel hdep'
          rw [hca] at ra
          simp only [Post] at ra
          have hpb : Placed C (s.pc + ca.length) cb := hp0.left.left.left.right
          have rb := ih b .val nl1 { s with pc := s.pc + ca.length, stack := x :: s.stack } y hy
            (by rw [hcb]; exact hpb) hrel hdep'
          rw [hcb] at rb
          simp only [Post] at rb
          have hpc : Placed C (s.pc + ca.length + cb.length) cc := hp0.left.left.right.cast (by simp [Nat.add_assoc])
          have rc := ih c .val nl2 { s with pc := s.pc + ca.length + cb.length, stack := y :: x :: s.stack } z hz
            (by rw [hcc]; exact hpc) hrel hdep'
          rw [hcc] at rc
          simp only [Post] at rc
          have hsw := run_data (C := C) (σ := { s with pc := s.pc + ca.length + cb.length + cc.length, stack := z :: y :: x :: s.stack })
            (op := .reverse3) (stk := x :: y :: z :: s.stack) (loc := s.locals) (ar := s.args)
            ((hp0.left.right.cast (by simp [Nat.add_assoc])).head) rfl (by simp [stepData])
          have hr : Reach C s { s with pc := s.pc + (ca ++ cb ++ cc ++ [Item.ins Op.reverse3]).length, stack := [x, y, z] ++ s.stack } := by
            refine ra.trans (rb.trans (rc.trans (hsw.trans ?_)))
            simp [Nat.add_assoc]
            exact Reach.refl _ _
          exact call_post (c := ca ++ cb ++ cc ++ [Item.ins Op.reverse3]) (vs := [x, y, z]) htab ihc hp hr hev hdep'
        | panic => rw [hz] at hev; simp at hev
        | overflow => rw [hz] at hev; simp at hev
        | stuck => rw [hz] at hev; simp at hev
        | timeout => rw [hz] at hev; simp at hev
      | panic => rw [hy] at hev; simp at hev
      | overflow => rw [hy] at hev; simp at hev
      | stuck => rw [hy] at hev; simp at hev
      | timeout => rw [hy] at hev; simp at hev
    | panic => rw [hx] at hev; simp at hev
    | overflow => rw [hx] at hev; simp at hev
    | stuck => rw [hx] at hev; simp at hev
    | timeout => rw [hx] at hev; simp at hev

end NeoModel.CompileProofs

namespace NeoModel.CompileProofs
open NeoModel.MiniVm NeoModel.MiniVm.Asm NeoModel.MiniGo NeoModel.Compile

/-- everything but the program counter and the slot contents is as before (stack-depth discipline). -/
structure Same (σ σ' : State) : Prop where
  stack : σ'.stack = σ.stack
  frames : σ'.frames = σ.frames
  inited : σ'.inited = σ.inited
  len : σ'.locals.length = σ.locals.length

theorem Same.refl (σ : State) : Same σ σ := ⟨rfl, rfl, rfl, rfl⟩
theorem Same.trans {a b c : State} (h1 : Same a b) (h2 : Same b c) : Same a c :=
  ⟨h2.stack.trans h1.stack, h2.frames.trans h1.frames, h2.inited.trans h1.inited, h2.len.trans h1.len⟩

/-- the environment without its `d` innermost frames. -/
def dropEnv (env : Env) (d : Nat) : Env := { env with frames := env.frames.drop d }

/-- what the code of a statement achieves.  `endpc`: where normal completion ends; `scN`: compile-time scopes after
    the statement; `scA`, `d`: scopes before it and the number of scopes between it and the enclosing loop (a
    `break`/`continue` leaves exactly those; what it guarantees is the relation for the frames below them). -/
def StmtPostF (cx : Ctx) (C : Code) (σ : State) (endpc : Nat) (scN scA : Scopes) (lp : LoopCtx) (d : Nat) : SOut → Prop
  | .norm env' => ∃ σ', Reach C σ σ' ∧ σ'.pc = endpc ∧ Same σ σ' ∧ VarsRel cx scN env' σ'.locals σ'.args
  | .ret v => ∃ σ', Reach C σ σ' ∧ C[σ'.pc]? = some (.ins .ret) ∧ σ'.stack = v.toList ++ σ.stack ∧ σ'.frames = σ.frames
  | .brk env' => ∃ b c, lp = some (b, c) ∧ ∀ bp, findLabel C b = some bp →
      ∃ σ', Reach C σ σ' ∧ σ'.pc = bp ∧ Same σ σ' ∧ VarsRel cx (scA.drop d) (dropEnv env' d) σ'.locals σ'.args
  | .cont env' => ∃ b c, lp = some (b, c) ∧ ∀ cp, findLabel C c = some cp →
      ∃ σ', Reach C σ σ' ∧ σ'.pc = cp ∧ Same σ σ' ∧ VarsRel cx (scA.drop d) (dropEnv env' d) σ'.locals σ'.args

/-- the post-condition seen from an earlier state that differs only in pc / slots. -/
theorem post_prefix {cx : Ctx} {C : Code} {σ σ0 : State} {endpc : Nat} {scN scA : Scopes} {lp : LoopCtx} {d : Nat} {out : SOut}
    (hr : Reach C σ σ0) (hs : Same σ σ0) (h : StmtPostF cx C σ0 endpc scN scA lp d out) :
    StmtPostF cx C σ endpc scN scA lp d out := by
  cases out with
  | norm e =>
    obtain ⟨σ', h1, h2, h3, h4⟩ := h
    exact ⟨σ', hr.trans h1, h2, hs.trans h3, h4⟩
  | ret v =>
    obtain ⟨σ', h1, h2, h3, h4⟩ := h
    exact ⟨σ', hr.trans h1, h2, by rw [h3, hs.stack], by rw [h4, hs.frames]⟩
  | brk e =>
    obtain ⟨b, c, hl, h⟩ := h
    refine ⟨b, c, hl, fun bp hb => ?_⟩
    obtain ⟨σ', h1, h2, h3, h4⟩ := h bp hb
    exact ⟨σ', hr.trans h1, h2, hs.trans h3, h4⟩
  | cont e =>
    obtain ⟨b, c, hl, h⟩ := h
    refine ⟨b, c, hl, fun bp hb => ?_⟩
    obtain ⟨σ', h1, h2, h3, h4⟩ := h bp hb
    exact ⟨σ', hr.trans h1, h2, hs.trans h3, h4⟩

theorem dropEnv_pop (env : Env) (d : Nat) : dropEnv env.pop d = dropEnv env (d + 1) := by
  simp [dropEnv, Env.pop, List.drop_tail]

theorem drop_of_tail_eq {α : Type} {a b : List α} {d : Nat} (h : a.tail = b.tail) (hd : 1 ≤ d) : a.drop d = b.drop d := by
  cases d with
  | zero => omega
  | succ n =>
    cases a <;> cases b <;> simp_all

/-- an abrupt exit (break / continue / return) seen from one scope further out. -/
theorem post_pop {cx : Ctx} {C : Code} {σ : State} {e1 e2 : Nat} {scN scN' scA : Scopes} {lp : LoopCtx} {d : Nat} {env' : Env} :
    (StmtPostF cx C σ e1 scN ([] :: scA) lp (d + 1) (.brk env') → StmtPostF cx C σ e2 scN' scA lp d (.brk env'.pop)) ∧
    (StmtPostF cx C σ e1 scN ([] :: scA) lp (d + 1) (.cont env') → StmtPostF cx C σ e2 scN' scA lp d (.cont env'.pop)) := by
  constructor <;> intro h <;> obtain ⟨b, c, hl, h⟩ := h <;> refine ⟨b, c, hl, fun bp hb => ?_⟩ <;>
    obtain ⟨σ', h1, h2, h3, h4⟩ := h bp hb <;>
    exact ⟨σ', h1, h2, h3, by simpa [dropEnv_pop] using h4⟩

theorem post_ret {cx : Ctx} {C : Code} {σ : State} {e1 e2 : Nat} {scN scN' scA scA' : Scopes} {lp lp' : LoopCtx} {d d' : Nat} {v : Option Val}
    (h : StmtPostF cx C σ e1 scN scA lp d (.ret v)) : StmtPostF cx C σ e2 scN' scA' lp' d' (.ret v) := h

/-- the same for a statement that follows others in its block (they may have declared into the innermost scope). -/
theorem post_seq {cx : Ctx} {C : Code} {σ : State} {e1 e2 : Nat} {scN scN' scA scA' : Scopes} {lp : LoopCtx} {d : Nat}
    (ht : scA.tail = scA'.tail) (hd : 1 ≤ d) {out : SOut} (hne : ∀ e, out ≠ .norm e)
    (h : StmtPostF cx C σ e1 scN scA lp d out) : StmtPostF cx C σ e2 scN' scA' lp d out := by
  cases out with
  | norm e => exact absurd rfl (hne e)
  | ret v => exact h
  | brk e => simpa [StmtPostF, drop_of_tail_eq ht hd] using h
  | cont e => simpa [StmtPostF, drop_of_tail_eq ht hd] using h

/-- a call in statement position (result dropped by the caller). -/
def CallSOK (P : Prog) (C : Code) (fuel : Nat) : Prop :=
  ∀ (f : String) (vs : List Val) (σ : State) (rest : List Val),
    callS fuel P f vs = .ok () → σ.stack = vs ++ rest →
    C[σ.pc]? = some (.ins (.call (fnLabel P f))) → σ.frames.length + fuel < 1024 →
    ∃ r : List Val, r.length = fnRes P f ∧ Reach C σ { σ with pc := σ.pc + 1, stack := r ++ rest }

/-- statements. `il`: break/continue may occur; then `lp` holds the enclosing loop's labels. -/
def StmtFOK (P : Prog) (C : Code) (cx : Ctx) (fuel : Nat) : Prop :=
  ∀ (s : Stmt) (lp : LoopCtx) (d : Nat) (il : Bool) (st : St) (env : Env) (σ : State) (out : SOut),
    Allowed il s → (il = true → ∃ b c, lp = some (b, c)) → (1 ≤ d ∨ ∃ b, s = .block b) →
    exec fuel P env s = .ok out →
    Placed C σ.pc (compS cx lp s st).1 →
    VarsRel cx st.scopes env σ.locals σ.args → Wf st →
    (compS cx lp s st).2.cnt ≤ σ.locals.length → σ.frames.length + fuel < 1024 →
    StmtPostF cx C σ (σ.pc + (compS cx lp s st).1.length) (compS cx lp s st).2.scopes st.scopes lp d out

/-- what the remaining iterations of a loop achieve (break/continue do not leave a loop). -/
def IterPost (cx : Ctx) (C : Code) (σ : State) (endpc : Nat) (sc : Scopes) : SOut → Prop
  | .norm env' => ∃ σ', Reach C σ σ' ∧ σ'.pc = endpc ∧ Same σ σ' ∧ VarsRel cx sc env' σ'.locals σ'.args
  | .ret v => ∃ σ', Reach C σ σ' ∧ C[σ'.pc]? = some (.ins .ret) ∧ σ'.stack = v.toList ++ σ.stack ∧ σ'.frames = σ.frames
  | .brk _ => False
  | .cont _ => False

/-- the iterations of a loop whose code starts at `pc0`; the machine is at the loop head mark. -/
def IterOK (P : Prog) (C : Code) (cx : Ctx) (fuel : Nat) : Prop :=
  ∀ (init : Stmt) (cond : Option Expr) (post body : Stmt) (lp : LoopCtx) (st : St) (env : Env) (σ : State) (pc0 : Nat) (out : SOut),
    Allowed true body → NoDecl post →
    iter fuel P env cond post body = .ok out →
    Placed C pc0 (compS cx lp (.loop init cond post body) st).1 →
    σ.pc = pc0 + (compS cx lp init (forSt0 st)).1.length →
    VarsRel cx (forSt1 cx lp init st).scopes env σ.locals σ.args → Wf st →
    (compS cx lp (.loop init cond post body) st).2.cnt ≤ σ.locals.length → σ.frames.length + fuel < 1024 →
    IterPost cx C σ (pc0 + (compS cx lp (.loop init cond post body) st).1.length) (forSt1 cx lp init st).scopes out

end NeoModel.CompileProofs

namespace NeoModel.CompileProofs
open NeoModel.MiniVm NeoModel.MiniVm.Asm NeoModel.MiniGo NeoModel.Compile

theorem framesRel_drop {locals : List Val} {fs : List MiniGo.Frame} {sc : Scopes} (h : FramesRel locals fs sc) (d : Nat) :
    FramesRel locals (fs.drop d) (sc.drop d) := by
  induction d generalizing fs sc with
  | zero => simpa using h
  | succ n ih =>
    cases fs with
    | nil => cases sc with
      | nil => simp [FramesRel]
      | cons a b => simp [FramesRel] at h
    | cons f fr => cases sc with
      | nil => simp [FramesRel] at h
      | cons a b => simp only [FramesRel] at h; simpa using ih h.2

theorem varsRel_drop {cx : Ctx} {sc : Scopes} {env : Env} {locals args : List Val}
    (h : VarsRel cx sc env locals args) (d : Nat) : VarsRel cx (sc.drop d) (dropEnv env d) locals args :=
  ⟨framesRel_drop h.frames d, h.argNames, h.argVals⟩

theorem dropN_length (n : Nat) : (dropN n).length = n := by
  induction n with
  | zero => rfl
  | succ k ih => simp [dropN, ih]

theorem run_dropN {C : Code} (n : Nat) : ∀ (σ : State) (r rest : List Val), Placed C σ.pc (dropN n) → σ.stack = r ++ rest →
    r.length = n → Reach C σ { σ with pc := σ.pc + n, stack := rest } := by
  induction n with
  | zero =>
    intro σ r rest _ hs hl
    have : r = [] := List.length_eq_zero_iff.mp hl
    subst this
    have : σ = { σ with pc := σ.pc + 0, stack := rest } := by cases σ; simp_all
    rw [← this]; exact Reach.refl _ _
  | succ k ih =>
    intro σ r rest hp hs hl
    cases r with
    | nil => simp at hl
    | cons a r' =>
      simp only [dropN] at hp
      have h1 := run_data (C := C) (σ := σ) (op := .drop) (stk := r' ++ rest) (loc := σ.locals) (ar := σ.args) hp.head rfl
        (by simp [stepData, hs])
      have h2 := ih { σ with pc := σ.pc + 1, stack := r' ++ rest } r' rest hp.tail rfl (by simpa using hl)
      refine h1.trans (h2.trans ?_)
      simp [Nat.add_assoc, Nat.add_comm 1 k]
      exact Reach.refl _ _

/-- a call statement once the arguments are on the stack: CALL, then the results are dropped. -/
theorem callS_post {P : Prog} {C : Code} {cx : Ctx} {fuel : Nat} {σ : State} {c : Code} {f : String} {vs : List Val} {env : Env}
    {scN : Scopes} {scA : Scopes} {lp : LoopCtx} {d : Nat}
    (htab : cx.funcs = funcTable P) (ihCS : CallSOK P C fuel)
    (hp : Placed C σ.pc (c ++ [.ins (.call (cx.func f).1)] ++ dropN (cx.func f).2))
    (hr : Reach C σ { σ with pc := σ.pc + c.length, stack := vs ++ σ.stack })
    (hcall : callS fuel P f vs = .ok ()) (hdep : σ.frames.length + fuel < 1024)
    (hrel : VarsRel cx scN env σ.locals σ.args) :
    StmtPostF cx C σ (σ.pc + (c ++ [Item.ins (.call (cx.func f).1)] ++ dropN (cx.func f).2).length) scN scA lp d (.norm env) := by
  have hf : C[σ.pc + c.length]? = some (.ins (.call (cx.func f).1)) := hp.left.right.head
  have hres : (cx.func f).2 = fnRes P f := by rw [ctx_func htab]
  rw [ctx_func htab] at hf
  obtain ⟨r, hrl, hcr⟩ := ihCS f vs { σ with pc := σ.pc + c.length, stack := vs ++ σ.stack } σ.stack hcall rfl hf hdep
  have hpd : Placed C (σ.pc + c.length + 1) (dropN (cx.func f).2) := hp.right.cast (by simp [Nat.add_assoc])
  have hdr := run_dropN (C := C) (cx.func f).2 { σ with pc := σ.pc + c.length + 1, stack := r ++ σ.stack } r σ.stack hpd rfl
    (by rw [hrl, hres])
  refine ⟨_, hr.trans (hcr.trans hdr), ?_, ⟨rfl, rfl, rfl, rfl⟩, hrel⟩
  simp [dropN_length, Nat.add_assoc]
  omega

theorem noDecl_state {cx : Ctx} {lp : LoopCtx} {p : Stmt} (h : NoDecl p) (st : St) :
    (compS cx lp p st).2.scopes = st.scopes ∧ (compS cx lp p st).2.cnt = st.cnt := by
  cases p <;> simp [NoDecl] at h <;> simp [compS]

theorem forSt3_scopes (cx : Ctx) (lp : LoopCtx) (init : Stmt) (cond : Option Expr) (body : Stmt) (st : St) :
    (forSt3 cx lp init cond body st).scopes = (forSt1 cx lp init st).scopes := by
  have hb := compS_tail cx body (some (st.nl + 1, st.nl + 2)) (forStB cx lp init cond st) (by simp)
  simp only [forStB_scopes, List.tail_cons] at hb
  simp [forSt3, hb]

theorem forSt1_tail (cx : Ctx) (lp : LoopCtx) (init : Stmt) (st : St) :
    (forSt1 cx lp init st).scopes.tail = st.scopes := by
  have h0 := compS_tail cx init lp (forSt0 st) (by simp)
  simpa [forSt1] using h0

theorem stmtFOK_zero (P : Prog) (C : Code) (cx : Ctx) : StmtFOK P C cx 0 := by
  intro s lp d il st env σ out _ _ _ hex
  simp [exec] at hex

set_option maxHeartbeats 1000000 in
theorem stmtFOK_succ (P : Prog) (C : Code) (cx : Ctx) (fuel : Nat)
    (hn : (labelsOf C).Nodup) (htab : cx.funcs = funcTable P)
    (ihE : ∀ sc env, ExprFOK P C cx sc env fuel) (ih : StmtFOK P C cx fuel) (ihI : IterOK P C cx fuel)
    (ihCS : CallSOK P C fuel) : StmtFOK P C cx (fuel + 1) := by
  intro s lp d il st env σ out hal hil hd hex hp hrel hwf hcnt hdep
  have hdep' : σ.frames.length + fuel < 1024 := by omega
  cases s with
  | skip =>
    simp only [exec] at hex
    cases hex
    simp only [compS, StmtPostF]
    exact ⟨σ, Reach.refl _ _, by simp, Same.refl _, hrel⟩
  | seq a b =>
    simp only [Allowed] at hal
    have hd1 : 1 ≤ d := by
      rcases hd with h | ⟨b', hb⟩
      · exact h
      · cases hb
    simp only [exec] at hex
    simp only [compS] at hp hcnt ⊢
    have hmb := compS_mono cx b lp (compS cx lp a st).2 (compS_wf cx a lp st hwf).nonempty
    have hta := compS_tail cx a lp st hwf.nonempty
    cases ha : exec fuel P env a with
    | ok oa =>
      rw [ha] at hex
      have hpa := ih a lp d il st env σ oa hal.1 hil (Or.inl hd1) ha hp.left hrel hwf (Nat.le_trans hmb.1 hcnt) hdep'
      cases oa with
      | norm env1 =>
        simp only at hex
        obtain ⟨σ1, hr1, hpc1, hs1, hrel1⟩ := hpa
        have hpb : Placed C σ1.pc (compS cx lp b (compS cx lp a st).2).1 := by rw [hpc1]; exact hp.right
        have hpost := ih b lp d il _ env1 σ1 out hal.2 hil (Or.inl hd1) hex hpb hrel1 (compS_wf cx a lp st hwf)
          (by rw [hs1.len]; exact hcnt) (by rw [hs1.frames]; exact hdep')
        have hpost' : StmtPostF cx C σ1 (σ.pc + ((compS cx lp a st).1 ++ (compS cx lp b (compS cx lp a st).2).1).length)
            (compS cx lp b (compS cx lp a st).2).2.scopes (compS cx lp a st).2.scopes lp d out := by
          have : σ1.pc + (compS cx lp b (compS cx lp a st).2).1.length =
              σ.pc + ((compS cx lp a st).1 ++ (compS cx lp b (compS cx lp a st).2).1).length := by
            rw [hpc1]; simp [Nat.add_assoc]
          rw [← this]; exact hpost
        have hpost'' := post_prefix hr1 hs1 hpost'
        cases out with
        | norm e => exact hpost''
        | ret v => exact hpost''
        | brk e => exact post_seq hta hd1 (by intro e h; cases h) hpost''
        | cont e => exact post_seq hta hd1 (by intro e h; cases h) hpost''
      | ret v =>
        simp only at hex
        cases hex
        exact post_ret hpa
      | brk e =>
        simp only at hex
        cases hex
        exact post_seq rfl hd1 (by intro e h; cases h) hpa
      | cont e =>
        simp only at hex
        cases hex
        exact post_seq rfl hd1 (by intro e h; cases h) hpa
    | panic => rw [ha] at hex; simp at hex
    | overflow => rw [ha] at hex; simp at hex
    | stuck => rw [ha] at hex; simp at hex
    | timeout => rw [ha] at hex; simp at hex
  | define x e =>
    simp only [exec] at hex
    simp only [compS] at hp hcnt ⊢
    cases hv : evalE fuel P env e with
    | ok v =>
      rw [hv] at hex
      simp only at hex
      cases hex
      have hr1 := (ihE st.scopes env) e .val st.nl σ v hv hp.left hrel hdep'
      simp only [Post] at hr1
      have hwf' : Wf { st with nl := (compE cx st.scopes e .val st.nl).2 } := wf_nl hwf _
      have hcnt' : st.cnt < σ.locals.length := by
        rw [newLocal_cnt] at hcnt
        exact hcnt
      obtain ⟨σ2, hr2, hpc2, hst2, hfr2, hin2, hl2, hrel2⟩ := declare_step (cx := cx)
        (st := { st with nl := (compE cx st.scopes e .val st.nl).2 }) (env := env) (C := C)
        (σ := { σ with pc := σ.pc + (compE cx st.scopes e .val st.nl).1.length, stack := v :: σ.stack })
        (x := x) (v := v) (rest := σ.stack) hrel hwf' hcnt' hp.right rfl
      exact ⟨σ2, hr1.trans hr2, by rw [hpc2]; simp [Nat.add_assoc], ⟨hst2, hfr2, hin2, hl2⟩, hrel2⟩
    | panic => rw [hv] at hex; simp at hex
    | overflow => rw [hv] at hex; simp at hex
    | stuck => rw [hv] at hex; simp at hex
    | timeout => rw [hv] at hex; simp at hex
  | assign x e =>
    simp only [exec] at hex
    simp only [compS] at hp hcnt ⊢
    cases hv : evalE fuel P env e with
    | ok v =>
      rw [hv] at hex
      simp only at hex
      cases hset : env.set x v with
      | none => rw [hset] at hex; simp at hex
      | some env' =>
        rw [hset] at hex
        simp only at hex
        cases hex
        have hr1 := (ihE st.scopes env) e .val st.nl σ v hv hp.left hrel hdep'
        simp only [Post] at hr1
        obtain ⟨σ2, hr2, hpc2, hst2, hfr2, hin2, hl2, hrel2⟩ := assign_step (cx := cx) (sc := st.scopes) (C := C)
          (σ := { σ with pc := σ.pc + (compE cx st.scopes e .val st.nl).1.length, stack := v :: σ.stack })
          (rest := σ.stack) hrel hwf.nodup hset hp.right rfl
        exact ⟨σ2, hr1.trans hr2, by rw [hpc2]; simp [Nat.add_assoc], ⟨hst2, hfr2, hin2, hl2⟩, hrel2⟩
    | panic => rw [hv] at hex; simp at hex
    | overflow => rw [hv] at hex; simp at hex
    | stuck => rw [hv] at hex; simp at hex
    | timeout => rw [hv] at hex; simp at hex
  | discard e =>
    simp only [exec] at hex
    simp only [compS] at hp hcnt ⊢
    cases hv : evalE fuel P env e with
    | ok v =>
      rw [hv] at hex
      simp only at hex
      cases hex
      have hr1 := (ihE st.scopes env) e .val st.nl σ v hv hp.left hrel hdep'
      simp only [Post] at hr1
      have hr2 := run_data (C := C)
        (σ := { σ with pc := σ.pc + (compE cx st.scopes e .val st.nl).1.length, stack := v :: σ.stack })
        (op := .drop) (stk := σ.stack) (loc := σ.locals) (ar := σ.args) hp.right.head rfl (by simp [stepData])
      exact ⟨_, hr1.trans hr2, by simp [Nat.add_assoc], ⟨rfl, rfl, rfl, rfl⟩, hrel⟩
    | panic => rw [hv] at hex; simp at hex
    | overflow => rw [hv] at hex; simp at hex
    | stuck => rw [hv] at hex; simp at hex
    | timeout => rw [hv] at hex; simp at hex
  | panicS e =>
    simp only [exec] at hex
    cases hv : evalE fuel P env e <;> rw [hv] at hex <;> simp at hex
  | ret e =>
    cases e with
    | none =>
      simp only [exec] at hex
      cases hex
      simp only [compS] at hp ⊢
      exact ⟨σ, Reach.refl _ _, hp.head, by simp, rfl⟩
    | some e =>
      simp only [exec] at hex
      simp only [compS] at hp ⊢
      cases hv : evalE fuel P env e with
      | ok v =>
        rw [hv] at hex
        simp only at hex
        cases hex
        have hr1 := (ihE st.scopes env) e .val st.nl σ v hv hp.left hrel hdep'
        simp only [Post] at hr1
        exact ⟨_, hr1, hp.right.head, by simp, rfl⟩
      | panic => rw [hv] at hex; simp at hex
      | overflow => rw [hv] at hex; simp at hex
      | stuck => rw [hv] at hex; simp at hex
      | timeout => rw [hv] at hex; simp at hex
  | brk =>
    simp only [Allowed] at hal
    obtain ⟨b, c, hlp⟩ := hil hal
    simp only [exec] at hex
    cases hex
    subst hlp
    simp only [compS] at hp ⊢
    refine ⟨b, c, rfl, fun bp hb => ?_⟩
    have := step_jmp (s := σ) hp.head hb
    exact ⟨_, Reach.step this, rfl, ⟨rfl, rfl, rfl, rfl⟩, varsRel_drop hrel d⟩
  | cont =>
    simp only [Allowed] at hal
    obtain ⟨b, c, hlp⟩ := hil hal
    simp only [exec] at hex
    cases hex
    subst hlp
    simp only [compS] at hp ⊢
    refine ⟨b, c, rfl, fun cp hc => ?_⟩
    have := step_jmp (s := σ) hp.head hc
    exact ⟨_, Reach.step this, rfl, ⟨rfl, rfl, rfl, rfl⟩, varsRel_drop hrel d⟩
  | inc x =>
    simp only [exec] at hex
    simp only [compS] at hp hcnt ⊢
    cases hg : env.get x with
    | none => rw [hg] at hex; simp at hex
    | some old =>
      rw [hg] at hex
      cases old with
      | bool b => simp at hex
      | null => simp at hex
      | int n =>
        simp only at hex
        cases hc : chk (n + 1) with
        | ok r =>
          rw [hc] at hex
          simp only at hex
          obtain ⟨rfl, hfit⟩ := chk_ok hc
          cases hset : env.set x (.int (n + 1)) with
          | none => rw [hset] at hex; simp at hex
          | some env' =>
            rw [hset] at hex
            simp only at hex
            cases hex
            obtain ⟨op, hop, hkind, hstep⟩ := load_correct hrel hg
            rw [hop] at hp ⊢
            have hdl : isData op = true := by rcases hkind with h | ⟨j, h⟩ <;> subst h <;> rfl
            have hr1 := run_data (C := C) (σ := σ) hp.left.left.head hdl (hstep σ.stack)
            have hr2 := run_data (C := C) (σ := { σ with pc := σ.pc + 1, stack := .int n :: σ.stack })
              (op := .inc) (stk := .int (n + 1) :: σ.stack) (loc := σ.locals) (ar := σ.args)
              (by simpa using hp.left.right.head) rfl (by simp [stepData, Val.toInt?, mkInt, hfit])
            obtain ⟨σ3, hr3, hpc3, hst3, hfr3, hin3, hl3, hrel3⟩ := assign_step (cx := cx) (sc := st.scopes) (C := C)
              (σ := { σ with pc := σ.pc + 1 + 1, stack := .int (n + 1) :: σ.stack })
              (rest := σ.stack) hrel hwf.nodup hset (by simpa [Nat.add_assoc] using hp.right) rfl
            exact ⟨σ3, hr1.trans (hr2.trans hr3), by rw [hpc3]; simp [Nat.add_assoc]; omega, ⟨hst3, hfr3, hin3, hl3⟩, hrel3⟩
        | panic => rw [hc] at hex; simp at hex
        | overflow => rw [hc] at hex; simp at hex
        | stuck => rw [hc] at hex; simp at hex
        | timeout => rw [hc] at hex; simp at hex
  | dec x =>
    simp only [exec] at hex
    simp only [compS] at hp hcnt ⊢
    cases hg : env.get x with
    | none => rw [hg] at hex; simp at hex
    | some old =>
      rw [hg] at hex
      cases old with
      | bool b => simp at hex
      | null => simp at hex
      | int n =>
        simp only at hex
        cases hc : chk (n - 1) with
        | ok r =>
          rw [hc] at hex
          simp only at hex
          obtain ⟨rfl, hfit⟩ := chk_ok hc
          cases hset : env.set x (.int (n - 1)) with
          | none => rw [hset] at hex; simp at hex
          | some env' =>
            rw [hset] at hex
            simp only at hex
            cases hex
            obtain ⟨op, hop, hkind, hstep⟩ := load_correct hrel hg
            rw [hop] at hp ⊢
            have hdl : isData op = true := by rcases hkind with h | ⟨j, h⟩ <;> subst h <;> rfl
            have hr1 := run_data (C := C) (σ := σ) hp.left.left.head hdl (hstep σ.stack)
            have hr2 := run_data (C := C) (σ := { σ with pc := σ.pc + 1, stack := .int n :: σ.stack })
              (op := .dec) (stk := .int (n - 1) :: σ.stack) (loc := σ.locals) (ar := σ.args)
              (by simpa using hp.left.right.head) rfl (by simp [stepData, Val.toInt?, mkInt, hfit])
            obtain ⟨σ3, hr3, hpc3, hst3, hfr3, hin3, hl3, hrel3⟩ := assign_step (cx := cx) (sc := st.scopes) (C := C)
              (σ := { σ with pc := σ.pc + 1 + 1, stack := .int (n - 1) :: σ.stack })
              (rest := σ.stack) hrel hwf.nodup hset (by simpa [Nat.add_assoc] using hp.right) rfl
            exact ⟨σ3, hr1.trans (hr2.trans hr3), by rw [hpc3]; simp [Nat.add_assoc]; omega, ⟨hst3, hfr3, hin3, hl3⟩, hrel3⟩
        | panic => rw [hc] at hex; simp at hex
        | overflow => rw [hc] at hex; simp at hex
        | stuck => rw [hc] at hex; simp at hex
        | timeout => rw [hc] at hex; simp at hex
  | varDecl x isBool init =>
    cases init with
    | some e => simp [Allowed] at hal
    | none =>
      simp only [exec] at hex
      cases hex
      simp only [compS] at hp hcnt ⊢
      have hcnt' : st.cnt < σ.locals.length := by
        rw [newLocal_cnt] at hcnt
        exact hcnt
      have hdd : isData (if isBool then (Op.pushF : Op Nat) else Op.pushInt 0) = true := by cases isBool <;> rfl
      have hr1 := run_data (C := C) (σ := σ) (op := if isBool then Op.pushF else Op.pushInt 0)
        (stk := (if isBool then Val.bool false else Val.int 0) :: σ.stack) (loc := σ.locals) (ar := σ.args)
        hp.left.head hdd (by cases isBool <;> simp [stepData])
      obtain ⟨σ2, hr2, hpc2, hst2, hfr2, hin2, hl2, hrel2⟩ := declare_step (cx := cx) (st := st) (env := env) (C := C)
        (σ := { σ with pc := σ.pc + 1, stack := (if isBool then Val.bool false else Val.int 0) :: σ.stack })
        (x := x) (v := if isBool then Val.bool false else Val.int 0) (rest := σ.stack) hrel hwf hcnt'
        (by simpa using hp.right) rfl
      exact ⟨σ2, hr1.trans hr2, by rw [hpc2]; simp [Nat.add_assoc]; omega, ⟨hst2, hfr2, hin2, hl2⟩, hrel2⟩
  | opAssign x op e =>
    simp only [Allowed] at hal
    simp only [exec] at hex
    simp only [compS] at hp hcnt ⊢
    cases hg : env.get x with
    | none => rw [hg] at hex; simp at hex
    | some old =>
      rw [hg] at hex
      simp only at hex
      cases hv : evalE fuel P env e with
      | ok v =>
        rw [hv] at hex
        simp only at hex
        cases hb : evalBin op old v with
        | ok r =>
          rw [hb] at hex
          simp only at hex
          cases hset : env.set x r with
          | none => rw [hset] at hex; simp at hex
          | some env' =>
            rw [hset] at hex
            simp only at hex
            cases hex
            obtain ⟨lop, hop, hkind, hstep⟩ := load_correct hrel hg
            rw [hop] at hp ⊢
            have hdl : isData lop = true := by rcases hkind with h | ⟨j, h⟩ <;> subst h <;> rfl
            have hr1 := run_data (C := C) (σ := σ) hp.left.left.left.head hdl (hstep σ.stack)
            have hr2 := (ihE st.scopes env) e .val st.nl { σ with pc := σ.pc + 1, stack := old :: σ.stack } v hv
              (by simpa using hp.left.left.right) hrel hdep'
            simp only [Post] at hr2
            have hdt : isData (tokenOp op) = true := by cases op <;> rfl
            have hr3 := run_data (C := C)
              (σ := { σ with pc := σ.pc + 1 + (compE cx st.scopes e .val st.nl).1.length, stack := v :: old :: σ.stack })
              (op := tokenOp op) (stk := r :: σ.stack) (loc := σ.locals) (ar := σ.args)
              ((hp.left.right.cast (by simp; omega)).head) hdt (evalBin_token hal hb _ _ _)
            obtain ⟨σ4, hr4, hpc4, hst4, hfr4, hin4, hl4, hrel4⟩ := assign_step (cx := cx) (sc := st.scopes) (C := C)
              (σ := { σ with pc := σ.pc + 1 + (compE cx st.scopes e .val st.nl).1.length + 1, stack := r :: σ.stack })
              (rest := σ.stack) hrel hwf.nodup hset (hp.right.cast (by simp; omega)) rfl
            exact ⟨σ4, hr1.trans (hr2.trans (hr3.trans hr4)), by rw [hpc4]; simp [Nat.add_assoc]; omega, ⟨hst4, hfr4, hin4, hl4⟩, hrel4⟩
        | panic => rw [hb] at hex; simp at hex
        | overflow => rw [hb] at hex; simp at hex
        | stuck => rw [hb] at hex; simp at hex
        | timeout => rw [hb] at hex; simp at hex
      | panic => rw [hv] at hex; simp at hex
      | overflow => rw [hv] at hex; simp at hex
      | stuck => rw [hv] at hex; simp at hex
      | timeout => rw [hv] at hex; simp at hex
  | block body =>
    simp only [Allowed] at hal
    simp only [exec] at hex
    rw [compS_block] at hp hcnt ⊢
    have hrel' : VarsRel cx st.push.scopes env.push σ.locals σ.args := varsRel_push hrel
    cases hb : exec fuel P env.push body with
    | ok ob =>
      rw [hb] at hex
      have hpost := ih body lp (d + 1) il st.push env.push σ ob hal hil (Or.inl (by omega)) hb hp hrel' (wf_push hwf)
        (by simpa using hcnt) hdep'
      cases ob with
      | norm e' =>
        simp only at hex
        cases hex
        obtain ⟨σ2, hr2, hpc2, hs2, hrel2⟩ := hpost
        exact ⟨σ2, hr2, hpc2, hs2, varsRel_pop hrel2⟩
      | ret v =>
        simp only at hex
        cases hex
        exact post_ret hpost
      | brk e =>
        simp only at hex
        cases hex
        exact post_pop.1 hpost
      | cont e =>
        simp only at hex
        cases hex
        exact post_pop.2 hpost
    | panic => rw [hb] at hex; simp at hex
    | overflow => rw [hb] at hex; simp at hex
    | stuck => rw [hb] at hex; simp at hex
    | timeout => rw [hb] at hex; simp at hex
  | exprStmt e =>
    cases e with
    | call0 f =>
      simp only [exec] at hex
      simp only [compS, compE, withMode] at hp hcnt ⊢
      cases hc : callS fuel P f [] with
      | ok u =>
        rw [hc] at hex
        simp only at hex
        cases hex
        exact callS_post (c := []) (vs := []) htab ihCS (by simpa using hp) (by simpa using Reach.refl C σ) hc hdep' hrel
      | panic => rw [hc] at hex; simp at hex
      | overflow => rw [hc] at hex; simp at hex
      | stuck => rw [hc] at hex; simp at hex
      | timeout => rw [hc] at hex; simp at hex
    | call1 f a =>
      simp only [exec] at hex
      simp only [compS, compE, withMode] at hp hcnt ⊢
      cases hx : evalE fuel P env a with
      | ok x =>
        rw [hx] at hex
        simp only at hex
        cases hc : callS fuel P f [x] with
        | ok u =>
          rw [hc] at hex
          simp only at hex
          cases hex
          have ra := (ihE st.scopes env) a .val st.nl σ x hx hp.left.left hrel hdep'
          simp only [Post] at ra
          exact callS_post (vs := [x]) htab ihCS hp (by simpa using ra) hc hdep' hrel
        | panic => rw [hc] at hex; simp at hex
        | overflow => rw [hc] at hex; simp at hex
        | stuck => rw [hc] at hex; simp at hex
        | timeout => rw [hc] at hex; simp at hex
      | panic => rw [hx] at hex; simp at hex
      | overflow => rw [hx] at hex; simp at hex
      | stuck => rw [hx] at hex; simp at hex
      | timeout => rw [hx] at hex; simp at hex
    | call2 f a b =>
      simp only [exec] at hex
      simp only [compS, compE, withMode, emitReverse] at hp hcnt ⊢
      cases hx : evalE fuel P env a with
      | ok x =>
        rw [hx] at hex
        simp only at hex
        cases hy : evalE fuel P env b with
        | ok y =>
          rw [hy] at hex
          simp only at hex
          cases hc : callS fuel P f [x, y] with
          | ok u =>
            rw [hc] at hex
            simp only at hex
            cases hex
            rcases hca : compE cx st.scopes a .val st.nl with ⟨ca, nl1⟩
            rcases hcb : compE cx st.scopes b .val nl1 with ⟨cb, nl2⟩
            simp only [hca, hcb] at hp ⊢
            have hpa : Placed C σ.pc ca := hp.left.left.left.left
            have ra := (ihE st.scopes env) a .val st.nl σ x hx (by rw [hca]; exact hpa) hrel hdep'
            rw [hca] at ra
            simp only [Post] at ra
            have hpb : Placed C (σ.pc + ca.length) cb := hp.left.left.left.right
            have rb := (ihE st.scopes env) b .val nl1 { σ with pc := σ.pc + ca.length, stack := x :: σ.stack } y hy
              (by rw [hcb]; exact hpb) hrel hdep'
            rw [hcb] at rb
            simp only [Post] at rb
            have hsw := run_data (C := C) (σ := { σ with pc := σ.pc + ca.length + cb.length, stack := y :: x :: σ.stack })
              (op := .swap) (stk := x :: y :: σ.stack) (loc := σ.locals) (ar := σ.args)
              ((hp.left.left.right.cast (by simp [Nat.add_assoc])).head) rfl (by simp [stepData])
            have hr : Reach C σ { σ with pc := σ.pc + (ca ++ cb ++ [Item.ins Op.swap]).length, stack := [x, y] ++ σ.stack } := by
              refine ra.trans (rb.trans (hsw.trans ?_))
              simp [Nat.add_assoc]
              exact Reach.refl _ _
            exact callS_post (c := ca ++ cb ++ [Item.ins Op.swap]) (vs := [x, y]) htab ihCS hp hr hc hdep' hrel
          | panic => rw [hc] at hex; simp at hex
          | overflow => rw [hc] at hex; simp at hex
          | stuck => rw [hc] at hex; simp at hex
          | timeout => rw [hc] at hex; simp at hex
        | panic => rw [hy] at hex; simp at hex
        | overflow => rw [hy] at hex; simp at hex
        | stuck => rw [hy] at hex; simp at hex
        | timeout => rw [hy] at hex; simp at hex
      | panic => rw [hx] at hex; simp at hex
      | overflow => rw [hx] at hex; simp at hex
      | stuck => rw [hx] at hex; simp at hex
      | timeout => rw [hx] at hex; simp at hex
    | call3 f a b c =>
      simp only [exec] at hex
      simp only [compS, compE, withMode, emitReverse] at hp hcnt ⊢
      cases hx : evalE fuel P env a with
      | ok x =>
        rw [hx] at hex
        simp only at hex
        cases hy : evalE fuel P env b with
        | ok y =>
          rw [hy] at hex
          simp only at hex
          cases hz : evalE fuel P env c with
          | ok z =>
            rw [hz] at hex
            simp only at hex
            cases hc : callS fuel P f [x, y, z] with
            | ok u =>
              rw [hc] at hex
              simp only at hex
              cases hex
              rcases hca : compE cx st.scopes a .val st.nl with ⟨ca, nl1⟩
              rcases hcb : compE cx st.scopes b .val nl1 with ⟨cb, nl2⟩
              rcases hcc : compE cx st.scopes c .val nl2 with ⟨cc, nl3⟩
              simp only [hca, hcb, hcc] at hp ⊢
              have hpa : Placed C σ.pc ca := hp.left.left.left.left.left
              have ra := (ihE st.scopes env) a .val st.nl σ x hx (by rw [hca]; exact hpa) hrel hdep'
              rw [hca] at ra
              simp only [Post] at ra
              have hpb : Placed C (σ.pc + ca.length) cb := hp.left.left.left.left.right
              have rb := (ihE st.scopes env) b .val nl1 { σ with pc := σ.pc + ca.length, stack := x :: σ.stack } y hy
                (by rw [hcb]; exact hpb) hrel hdep'
              rw [hcb] at rb
              simp only [Post] at rb
              have hpc : Placed C (σ.pc + ca.length + cb.length) cc := hp.left.left.left.right.cast (by simp [Nat.add_assoc])
              have rc := (ihE st.scopes env) c .val nl2 { σ with pc := σ.pc + ca.length + cb.length, stack := y :: x :: σ.stack } z hz
                (by rw [hcc]; exact hpc) hrel hdep'
              rw [hcc] at rc
              simp only [Post] at rc
              have hsw := run_data (C := C) (σ := { σ with pc := σ.pc + ca.length + cb.length + cc.length, stack := z :: y :: x :: σ.stack })
                (op := .reverse3) (stk := x :: y :: z :: σ.stack) (loc := σ.locals) (ar := σ.args)
                ((hp.left.left.right.cast (by simp [Nat.add_assoc])).head) rfl (by simp [stepData])
              have hr : Reach C σ { σ with pc := σ.pc + (ca ++ cb ++ cc ++ [Item.ins Op.reverse3]).length, stack := [x, y, z] ++ σ.stack } := by
                refine ra.trans (rb.trans (rc.trans (hsw.trans ?_)))
                simp [Nat.add_assoc]
                exact Reach.refl _ _
              exact callS_post (c := ca ++ cb ++ cc ++ [Item.ins Op.reverse3]) (vs := [x, y, z]) htab ihCS hp hr hc hdep' hrel
            | panic => rw [hc] at hex; simp at hex
            | overflow => rw [hc] at hex; simp at hex
            | stuck => rw [hc] at hex; simp at hex
            | timeout => rw [hc] at hex; simp at hex
          | panic => rw [hz] at hex; simp at hex
          | overflow => rw [hz] at hex; simp at hex
          | stuck => rw [hz] at hex; simp at hex
          | timeout => rw [hz] at hex; simp at hex
        | panic => rw [hy] at hex; simp at hex
        | overflow => rw [hy] at hex; simp at hex
        | stuck => rw [hy] at hex; simp at hex
        | timeout => rw [hy] at hex; simp at hex
      | panic => rw [hx] at hex; simp at hex
      | overflow => rw [hx] at hex; simp at hex
      | stuck => rw [hx] at hex; simp at hex
      | timeout => rw [hx] at hex; simp at hex
    | lit n => simp [Allowed, IsCall] at hal
    | tt => simp [Allowed, IsCall] at hal
    | ff => simp [Allowed, IsCall] at hal
    | var x => simp [Allowed, IsCall] at hal
    | paren e => simp [Allowed, IsCall] at hal
    | neg e => simp [Allowed, IsCall] at hal
    | not e => simp [Allowed, IsCall] at hal
    | bin op a b => simp [Allowed, IsCall] at hal
  | ite c thn k els =>
    simp only [Allowed] at hal
    simp only [exec] at hex
    have hrelP : VarsRel cx (ifSt0 st).scopes env.push σ.locals σ.args := varsRel_push hrel
    have hwfC : Wf { ifSt0 st with nl := (ifCond cx c st).2 } := wf_nl (wf_push (wf_nl hwf _)) _
    have hwf1 : Wf (ifSt1 cx lp c thn st) := by
      have := compS_wf cx (.block thn) lp _ hwfC
      rwa [compS_block] at this
    cases k with
    | none =>
      rw [compS_ite_none] at hp hcnt ⊢
      simp only at hp hcnt ⊢
      have hpc : Placed C σ.pc (ifCond cx c st).1 := hp.left.left.left
      have hpl : Placed C (σ.pc + (ifCond cx c st).1.length) [Item.lbl st.nl] := hp.left.left.right
      have hpt : Placed C (σ.pc + (ifCond cx c st).1.length + 1) (compS cx lp thn (ifStT cx c st)).1 :=
        hp.left.right.cast (by simp [Nat.add_assoc])
      have hpe : Placed C (σ.pc + (ifCond cx c st).1.length + 1 + (compS cx lp thn (ifStT cx c st)).1.length)
          [Item.lbl (st.nl + 1), Item.lbl (st.nl + 2)] := hp.right.cast (by simp [Nat.add_assoc]; omega)
      have hlElse := hpe.label hn
      have hend : ∀ τ : State, τ.pc = σ.pc + (ifCond cx c st).1.length + 1 + (compS cx lp thn (ifStT cx c st)).1.length →
          Reach C τ { τ with pc := τ.pc + 1 + 1 } := by
        intro τ hτ
        have h1 := skip_lbl (σ := τ) (hτ ▸ hpe)
        have h2 := skip_lbl (σ := { τ with pc := τ.pc + 1 }) (by simpa [hτ] using hpe.tail)
        exact h1.trans h2
      cases hcv : evalE fuel P env.push c with
      | ok cv =>
        rw [hcv] at hex
        have hpost := (ihE (ifSt0 st).scopes env.push) c (.jump false (st.nl + 1)) (ifSt0 st).nl σ cv hcv hpc hrelP hdep'
        simp only [Post] at hpost
        have hjmp := hpost _ hlElse
        cases cv with
        | bool b =>
          cases b with
          | true =>
            simp only at hex
            simp only [Val.toBool, Bool.true_eq_false, beq_iff_eq, if_false] at hjmp
            have h1 := skip_lbl (σ := { σ with pc := σ.pc + (ifCond cx c st).1.length }) hpl
            cases hb : exec fuel P env.push (.block thn) with
            | ok ob =>
              rw [hb] at hex
              have hpostB := ih (.block thn) lp (d + 1) il { ifSt0 st with nl := (ifCond cx c st).2 } env.push
                { σ with pc := σ.pc + (ifCond cx c st).1.length + 1 } ob hal.1 hil (Or.inl (by omega)) hb
                (by rw [compS_block]; exact hpt) hrelP hwfC
                (by rw [compS_block]; show (compS cx lp thn (ifStT cx c st)).2.pop.cnt ≤ _; simpa [ifSt1] using hcnt) hdep'
              rw [compS_block] at hpostB
              have hpostB' := post_prefix (hjmp.trans h1) ⟨rfl, rfl, rfl, rfl⟩ hpostB
              cases ob with
              | norm e' =>
                simp only at hex
                cases hex
                obtain ⟨σ2, hr2, hpc2, hs2, hrel2⟩ := hpostB'
                have h3 := hend σ2 (by rw [hpc2] <;> rfl)
                refine ⟨_, hr2.trans h3, ?_, ⟨hs2.stack, hs2.frames, hs2.inited, hs2.len⟩, varsRel_pop hrel2⟩
                have : σ2.pc = σ.pc + (ifCond cx c st).1.length + 1 + (compS cx lp thn (ifStT cx c st)).1.length := by
                  rw [hpc2] <;> rfl
                simp [this, Nat.add_assoc]; omega
              | ret v => simp only at hex; cases hex; exact post_ret hpostB'
              | brk e => simp only at hex; cases hex; exact post_pop.1 hpostB'
              | cont e => simp only at hex; cases hex; exact post_pop.2 hpostB'
            | panic => rw [hb] at hex; simp at hex
            | overflow => rw [hb] at hex; simp at hex
            | stuck => rw [hb] at hex; simp at hex
            | timeout => rw [hb] at hex; simp at hex
          | false =>
            simp only at hex
            cases hex
            simp only [Val.toBool, beq_self_eq_true, if_true] at hjmp
            have h3 := hend { σ with pc := σ.pc + (ifCond cx c st).1.length + 1 + (compS cx lp thn (ifStT cx c st)).1.length } rfl
            refine ⟨_, hjmp.trans h3, ?_, ⟨rfl, rfl, rfl, rfl⟩, ?_⟩
            · simp [Nat.add_assoc]; omega
            · simpa [ifSt1_scopes] using hrel
        | int n => simp at hex
        | null => simp at hex
      | panic => rw [hcv] at hex; simp at hex
      | overflow => rw [hcv] at hex; simp at hex
      | stuck => rw [hcv] at hex; simp at hex
      | timeout => rw [hcv] at hex; simp at hex
    | block =>
      rw [compS_ite_block] at hp hcnt ⊢
      simp only at hp hcnt ⊢
      have hscF : ((compS cx lp els (ifSt1 cx lp c thn st).push).2.pop.pop).scopes = st.scopes := by
        have ht := compS_tail cx els lp ((ifSt1 cx lp c thn st).push) (by simp [ifSt1_scopes])
        simp [ht, ifSt1_scopes]
      have hcntE : (ifSt1 cx lp c thn st).cnt ≤ ((compS cx lp els (ifSt1 cx lp c thn st).push).2.pop.pop).cnt := by
        have := (compS_mono cx els lp ((ifSt1 cx lp c thn st).push) (by simp [ifSt1_scopes])).1
        simpa using this
      have hpc : Placed C σ.pc (ifCond cx c st).1 := hp.left.left.left.left.left
      have hpl : Placed C (σ.pc + (ifCond cx c st).1.length) [Item.lbl st.nl] := hp.left.left.left.left.right
      have hpt : Placed C (σ.pc + (ifCond cx c st).1.length + 1) (compS cx lp thn (ifStT cx c st)).1 :=
        hp.left.left.left.right.cast (by simp [Nat.add_assoc])
      have hpj : Placed C (σ.pc + (ifCond cx c st).1.length + 1 + (compS cx lp thn (ifStT cx c st)).1.length)
          [Item.ins (.jmp (st.nl + 2)), Item.lbl (st.nl + 1)] := hp.left.left.right.cast (by simp [Nat.add_assoc]; omega)
      have hpe : Placed C (σ.pc + (ifCond cx c st).1.length + 1 + (compS cx lp thn (ifStT cx c st)).1.length + 1 + 1)
          (compS cx lp els ((ifSt1 cx lp c thn st).push)).1 := hp.left.right.cast (by simp [Nat.add_assoc]; omega)
      have hpz : Placed C (σ.pc + (ifCond cx c st).1.length + 1 + (compS cx lp thn (ifStT cx c st)).1.length + 1 + 1 +
          (compS cx lp els ((ifSt1 cx lp c thn st).push)).1.length) [Item.lbl (st.nl + 2)] := hp.right.cast (by simp [Nat.add_assoc]; omega)
      have hlElse := hpj.tail.label hn
      have hlEnd := hpz.label hn
      have hend : ∀ τ : State, τ.pc = σ.pc + (ifCond cx c st).1.length + 1 + (compS cx lp thn (ifStT cx c st)).1.length + 1 + 1 +
          (compS cx lp els ((ifSt1 cx lp c thn st).push)).1.length → Reach C τ { τ with pc := τ.pc + 1 } := by
        intro τ hτ
        exact skip_lbl (σ := τ) (hτ ▸ hpz)
      cases hcv : evalE fuel P env.push c with
      | ok cv =>
        rw [hcv] at hex
        have hpost := (ihE (ifSt0 st).scopes env.push) c (.jump false (st.nl + 1)) (ifSt0 st).nl σ cv hcv hpc hrelP hdep'
        simp only [Post] at hpost
        have hjmp := hpost _ hlElse
        cases cv with
        | bool b =>
          cases b with
          | true =>
            simp only at hex
            simp only [Val.toBool, Bool.true_eq_false, beq_iff_eq, if_false] at hjmp
            have h1 := skip_lbl (σ := { σ with pc := σ.pc + (ifCond cx c st).1.length }) hpl
            cases hb : exec fuel P env.push (.block thn) with
            | ok ob =>
              rw [hb] at hex
              have hpostB := ih (.block thn) lp (d + 1) il { ifSt0 st with nl := (ifCond cx c st).2 } env.push
                { σ with pc := σ.pc + (ifCond cx c st).1.length + 1 } ob hal.1 hil (Or.inl (by omega)) hb
                (by rw [compS_block]; exact hpt) hrelP hwfC
                (by rw [compS_block]; show (compS cx lp thn (ifStT cx c st)).2.pop.cnt ≤ _
                    exact Nat.le_trans hcntE (by simpa using hcnt)) hdep'
              rw [compS_block] at hpostB
              have hpostB' := post_prefix (hjmp.trans h1) ⟨rfl, rfl, rfl, rfl⟩ hpostB
              cases ob with
              | norm e' =>
                simp only at hex
                cases hex
                obtain ⟨σ2, hr2, hpc2, hs2, hrel2⟩ := hpostB'
                have hpc2' : σ2.pc = σ.pc + (ifCond cx c st).1.length + 1 + (compS cx lp thn (ifStT cx c st)).1.length := by
                  rw [hpc2] <;> rfl
                have hj := step_jmp (s := σ2) (hpc2' ▸ hpj.head) hlEnd
                have h3 := hend { σ2 with pc := σ.pc + (ifCond cx c st).1.length + 1 + (compS cx lp thn (ifStT cx c st)).1.length + 1 + 1 +
                  (compS cx lp els ((ifSt1 cx lp c thn st).push)).1.length } rfl
                refine ⟨_, hr2.trans ((Reach.step hj).trans h3), ?_, ⟨hs2.stack, hs2.frames, hs2.inited, hs2.len⟩, ?_⟩
                · simp [Nat.add_assoc]; omega
                · rw [hscF]
                  change VarsRel cx (ifSt1 cx lp c thn st).scopes e' _ _ at hrel2
                  rw [ifSt1_scopes] at hrel2
                  exact varsRel_pop hrel2
              | ret v => simp only at hex; cases hex; exact post_ret hpostB'
              | brk e => simp only at hex; cases hex; exact post_pop.1 hpostB'
              | cont e => simp only at hex; cases hex; exact post_pop.2 hpostB'
            | panic => rw [hb] at hex; simp at hex
            | overflow => rw [hb] at hex; simp at hex
            | stuck => rw [hb] at hex; simp at hex
            | timeout => rw [hb] at hex; simp at hex
          | false =>
            simp only at hex
            simp only [Val.toBool, beq_self_eq_true, if_true] at hjmp
            have h1 := skip_lbl (σ := { σ with pc := σ.pc + (ifCond cx c st).1.length + 1 + (compS cx lp thn (ifStT cx c st)).1.length + 1 }) hpj.tail
            have hrelE : VarsRel cx (ifSt1 cx lp c thn st).scopes env.push σ.locals σ.args := by
              rw [ifSt1_scopes]; exact varsRel_push hrel
            cases hb : exec fuel P env.push (.block els) with
            | ok ob =>
              rw [hb] at hex
              have hpostB := ih (.block els) lp (d + 1) il (ifSt1 cx lp c thn st) env.push
                { σ with pc := σ.pc + (ifCond cx c st).1.length + 1 + (compS cx lp thn (ifStT cx c st)).1.length + 1 + 1 } ob hal.2 hil (Or.inl (by omega)) hb
                (by rw [compS_block]; exact hpe) hrelE hwf1
                (by rw [compS_block]; show (compS cx lp els (ifSt1 cx lp c thn st).push).2.pop.cnt ≤ _; simpa using hcnt) hdep'
              rw [compS_block] at hpostB
              rw [ifSt1_scopes] at hpostB
              have hpostB' := post_prefix (hjmp.trans h1) ⟨rfl, rfl, rfl, rfl⟩ hpostB
              cases ob with
              | norm e' =>
                simp only at hex
                cases hex
                obtain ⟨σ2, hr2, hpc2, hs2, hrel2⟩ := hpostB'
                have hpc2' : σ2.pc = σ.pc + (ifCond cx c st).1.length + 1 + (compS cx lp thn (ifStT cx c st)).1.length + 1 + 1 +
                    (compS cx lp els ((ifSt1 cx lp c thn st).push)).1.length := by rw [hpc2] <;> rfl
                have h3 := hend σ2 hpc2'
                refine ⟨_, hr2.trans h3, ?_, ⟨hs2.stack, hs2.frames, hs2.inited, hs2.len⟩, varsRel_pop hrel2⟩
                simp [hpc2', Nat.add_assoc]; omega
              | ret v => simp only at hex; cases hex; exact post_ret hpostB'
              | brk e => simp only at hex; cases hex; exact post_pop.1 hpostB'
              | cont e => simp only at hex; cases hex; exact post_pop.2 hpostB'
            | panic => rw [hb] at hex; simp at hex
            | overflow => rw [hb] at hex; simp at hex
            | stuck => rw [hb] at hex; simp at hex
            | timeout => rw [hb] at hex; simp at hex
        | int n => simp at hex
        | null => simp at hex
      | panic => rw [hcv] at hex; simp at hex
      | overflow => rw [hcv] at hex; simp at hex
      | stuck => rw [hcv] at hex; simp at hex
      | timeout => rw [hcv] at hex; simp at hex
    | elif =>
      rw [compS_ite_elif] at hp hcnt ⊢
      simp only at hp hcnt ⊢
      have hscF : ((compS cx lp els (ifSt1 cx lp c thn st)).2.pop).scopes = st.scopes := by
        have ht := compS_tail cx els lp (ifSt1 cx lp c thn st) (by simp [ifSt1_scopes])
        simp [ht, ifSt1_scopes]
      have hcntE : (ifSt1 cx lp c thn st).cnt ≤ ((compS cx lp els (ifSt1 cx lp c thn st)).2.pop).cnt := by
        have := (compS_mono cx els lp (ifSt1 cx lp c thn st) (by simp [ifSt1_scopes])).1
        simpa using this
      have hpc : Placed C σ.pc (ifCond cx c st).1 := hp.left.left.left.left.left
      have hpl : Placed C (σ.pc + (ifCond cx c st).1.length) [Item.lbl st.nl] := hp.left.left.left.left.right
      have hpt : Placed C (σ.pc + (ifCond cx c st).1.length + 1) (compS cx lp thn (ifStT cx c st)).1 :=
        hp.left.left.left.right.cast (by simp [Nat.add_assoc])
      have hpj : Placed C (σ.pc + (ifCond cx c st).1.length + 1 + (compS cx lp thn (ifStT cx c st)).1.length)
          [Item.ins (.jmp (st.nl + 2)), Item.lbl (st.nl + 1)] := hp.left.left.right.cast (by simp [Nat.add_assoc]; omega)
      have hpe : Placed C (σ.pc + (ifCond cx c st).1.length + 1 + (compS cx lp thn (ifStT cx c st)).1.length + 1 + 1)
          (compS cx lp els (ifSt1 cx lp c thn st)).1 := hp.left.right.cast (by simp [Nat.add_assoc]; omega)
      have hpz : Placed C (σ.pc + (ifCond cx c st).1.length + 1 + (compS cx lp thn (ifStT cx c st)).1.length + 1 + 1 +
          (compS cx lp els (ifSt1 cx lp c thn st)).1.length) [Item.lbl (st.nl + 2)] := hp.right.cast (by simp [Nat.add_assoc]; omega)
      have hlElse := hpj.tail.label hn
      have hlEnd := hpz.label hn
      have hend : ∀ τ : State, τ.pc = σ.pc + (ifCond cx c st).1.length + 1 + (compS cx lp thn (ifStT cx c st)).1.length + 1 + 1 +
          (compS cx lp els (ifSt1 cx lp c thn st)).1.length → Reach C τ { τ with pc := τ.pc + 1 } := by
        intro τ hτ
        exact skip_lbl (σ := τ) (hτ ▸ hpz)
      cases hcv : evalE fuel P env.push c with
      | ok cv =>
        rw [hcv] at hex
        have hpost := (ihE (ifSt0 st).scopes env.push) c (.jump false (st.nl + 1)) (ifSt0 st).nl σ cv hcv hpc hrelP hdep'
        simp only [Post] at hpost
        have hjmp := hpost _ hlElse
        cases cv with
        | bool b =>
          cases b with
          | true =>
            simp only at hex
            simp only [Val.toBool, Bool.true_eq_false, beq_iff_eq, if_false] at hjmp
            have h1 := skip_lbl (σ := { σ with pc := σ.pc + (ifCond cx c st).1.length }) hpl
            cases hb : exec fuel P env.push (.block thn) with
            | ok ob =>
              rw [hb] at hex
              have hpostB := ih (.block thn) lp (d + 1) il { ifSt0 st with nl := (ifCond cx c st).2 } env.push
                { σ with pc := σ.pc + (ifCond cx c st).1.length + 1 } ob hal.1 hil (Or.inl (by omega)) hb
                (by rw [compS_block]; exact hpt) hrelP hwfC
                (by rw [compS_block]; show (compS cx lp thn (ifStT cx c st)).2.pop.cnt ≤ _
                    exact Nat.le_trans hcntE (by simpa using hcnt)) hdep'
              rw [compS_block] at hpostB
              have hpostB' := post_prefix (hjmp.trans h1) ⟨rfl, rfl, rfl, rfl⟩ hpostB
              cases ob with
              | norm e' =>
                simp only at hex
                cases hex
                obtain ⟨σ2, hr2, hpc2, hs2, hrel2⟩ := hpostB'
                have hpc2' : σ2.pc = σ.pc + (ifCond cx c st).1.length + 1 + (compS cx lp thn (ifStT cx c st)).1.length := by
                  rw [hpc2] <;> rfl
                have hj := step_jmp (s := σ2) (hpc2' ▸ hpj.head) hlEnd
                have h3 := hend { σ2 with pc := σ.pc + (ifCond cx c st).1.length + 1 + (compS cx lp thn (ifStT cx c st)).1.length + 1 + 1 +
                  (compS cx lp els (ifSt1 cx lp c thn st)).1.length } rfl
                refine ⟨_, hr2.trans ((Reach.step hj).trans h3), ?_, ⟨hs2.stack, hs2.frames, hs2.inited, hs2.len⟩, ?_⟩
                · simp [Nat.add_assoc]; omega
                · rw [hscF]
                  change VarsRel cx (ifSt1 cx lp c thn st).scopes e' _ _ at hrel2
                  rw [ifSt1_scopes] at hrel2
                  exact varsRel_pop hrel2
              | ret v => simp only at hex; cases hex; exact post_ret hpostB'
              | brk e => simp only at hex; cases hex; exact post_pop.1 hpostB'
              | cont e => simp only at hex; cases hex; exact post_pop.2 hpostB'
            | panic => rw [hb] at hex; simp at hex
            | overflow => rw [hb] at hex; simp at hex
            | stuck => rw [hb] at hex; simp at hex
            | timeout => rw [hb] at hex; simp at hex
          | false =>
            simp only at hex
            simp only [Val.toBool, beq_self_eq_true, if_true] at hjmp
            have h1 := skip_lbl (σ := { σ with pc := σ.pc + (ifCond cx c st).1.length + 1 + (compS cx lp thn (ifStT cx c st)).1.length + 1 }) hpj.tail
            have hrelE : VarsRel cx (ifSt1 cx lp c thn st).scopes env.push σ.locals σ.args := by
              rw [ifSt1_scopes]; exact varsRel_push hrel
            cases hb : exec fuel P env.push (els) with
            | ok ob =>
              rw [hb] at hex
              have hpostB := ih (els) lp (d + 1) il (ifSt1 cx lp c thn st) env.push
                { σ with pc := σ.pc + (ifCond cx c st).1.length + 1 + (compS cx lp thn (ifStT cx c st)).1.length + 1 + 1 } ob hal.2 hil (Or.inl (by omega)) hb
                (by exact hpe) hrelE hwf1
                (by simpa using hcnt) hdep'
              skip
              rw [ifSt1_scopes] at hpostB
              have hpostB' := post_prefix (hjmp.trans h1) ⟨rfl, rfl, rfl, rfl⟩ hpostB
              cases ob with
              | norm e' =>
                simp only at hex
                cases hex
                obtain ⟨σ2, hr2, hpc2, hs2, hrel2⟩ := hpostB'
                have hpc2' : σ2.pc = σ.pc + (ifCond cx c st).1.length + 1 + (compS cx lp thn (ifStT cx c st)).1.length + 1 + 1 +
                    (compS cx lp els (ifSt1 cx lp c thn st)).1.length := by rw [hpc2] <;> rfl
                have h3 := hend σ2 hpc2'
                refine ⟨_, hr2.trans h3, ?_, ⟨hs2.stack, hs2.frames, hs2.inited, hs2.len⟩, varsRel_pop hrel2⟩
                simp [hpc2', Nat.add_assoc]; omega
              | ret v => simp only at hex; cases hex; exact post_ret hpostB'
              | brk e => simp only at hex; cases hex; exact post_pop.1 hpostB'
              | cont e => simp only at hex; cases hex; exact post_pop.2 hpostB'
            | panic => rw [hb] at hex; simp at hex
            | overflow => rw [hb] at hex; simp at hex
            | stuck => rw [hb] at hex; simp at hex
            | timeout => rw [hb] at hex; simp at hex
        | int n => simp at hex
        | null => simp at hex
      | panic => rw [hcv] at hex; simp at hex
      | overflow => rw [hcv] at hex; simp at hex
      | stuck => rw [hcv] at hex; simp at hex
      | timeout => rw [hcv] at hex; simp at hex
  | loop init cond post body =>
    simp only [Allowed] at hal
    simp only [exec] at hex
    have hp' := hp
    have hcnt' := hcnt
    rw [compS_loop] at hp' hcnt' ⊢
    simp only at hp' hcnt' ⊢
    -- counters along the loop
    have hne1 : (forSt1 cx lp init st).scopes ≠ [] := by
      have := (compS_mono cx init lp (forSt0 st) (by simp)).2
      exact ne_nil_of_length this (by simp)
    have hc1 : (forSt1 cx lp init st).cnt ≤ (forSt3 cx lp init cond body st).cnt := by
      have := (compS_mono cx body (some (st.nl + 1, st.nl + 2)) (forStB cx lp init cond st) (by simp)).1
      simpa [forSt3] using this
    have hc3 : (forSt3 cx lp init cond body st).cnt ≤ (compS cx lp post (forSt3 cx lp init cond body st)).2.cnt :=
      (compS_mono cx post lp _ (by rw [forSt3_scopes]; exact hne1)).1
    have hfin : (compS cx lp post (forSt3 cx lp init cond body st)).2.pop.scopes = st.scopes := by
      simp only [pop_scopes, (noDecl_state hal.2.1 _).1, forSt3_scopes, forSt1_tail]
    have hpi : Placed C σ.pc (compS cx lp init (forSt0 st)).1 := hp'.left.left.left.left.left.left
    cases hi : exec fuel P env.push init with
    | ok oi =>
      rw [hi] at hex
      have hposti := ih init lp (d + 1) false (forSt0 st) env.push σ oi hal.1 (by intro h; cases h) (Or.inl (by omega)) hi hpi
        (varsRel_push hrel) (wf_push (wf_nl hwf _)) (by
          have : (compS cx lp init (forSt0 st)).2.cnt = (forSt1 cx lp init st).cnt := rfl
          simp only [pop_cnt] at hcnt'
          omega) hdep'
      cases oi with
      | norm env1 =>
        simp only at hex
        obtain ⟨σ1, hr1, hpc1, hs1, hrel1⟩ := hposti
        cases hit : iter fuel P env1 cond post body with
        | ok oo =>
          rw [hit] at hex
          have hpostI := ihI init cond post body lp st env1 σ1 σ.pc oo hal.2.2 hal.2.1 hit hp hpc1 hrel1 hwf
            (by rw [hs1.len]; exact hcnt) (by rw [hs1.frames]; exact hdep')
          cases oo with
          | norm e' =>
            simp only at hex
            cases hex
            obtain ⟨σ2, hr2, hpc2, hs2, hrel2⟩ := hpostI
            refine ⟨σ2, hr1.trans hr2, ?_, hs1.trans hs2, ?_⟩
            · rw [hpc2, compS_loop]
            · rw [hfin]
              have := varsRel_pop hrel2
              rwa [forSt1_tail] at this
          | ret v =>
            simp only at hex
            cases hex
            obtain ⟨σ2, hr2, h2, h3, h4⟩ := hpostI
            exact ⟨σ2, hr1.trans hr2, h2, by rw [h3, hs1.stack], by rw [h4, hs1.frames]⟩
          | brk e => exact hpostI.elim
          | cont e => exact hpostI.elim
        | panic => rw [hit] at hex; simp at hex
        | overflow => rw [hit] at hex; simp at hex
        | stuck => rw [hit] at hex; simp at hex
        | timeout => rw [hit] at hex; simp at hex
      | ret v => simp at hex
      | brk e => simp at hex
      | cont e => simp at hex
    | panic => rw [hi] at hex; simp at hex
    | overflow => rw [hi] at hex; simp at hex
    | stuck => rw [hi] at hex; simp at hex
    | timeout => rw [hi] at hex; simp at hex

end NeoModel.CompileProofs

namespace NeoModel.CompileProofs
open NeoModel.MiniVm NeoModel.MiniVm.Asm NeoModel.MiniGo NeoModel.Compile

theorem iterOK_zero (P : Prog) (C : Code) (cx : Ctx) : IterOK P C cx 0 := by
  intro init cond post body lp st env σ pc0 out _ _ hit
  simp [iter] at hit

set_option maxHeartbeats 1000000 in
theorem iterOK_succ (P : Prog) (C : Code) (cx : Ctx) (fuel : Nat)
    (hn : (labelsOf C).Nodup)
    (ihE : ∀ sc env, ExprFOK P C cx sc env fuel) (ih : StmtFOK P C cx fuel) (ihI : IterOK P C cx fuel) :
    IterOK P C cx (fuel + 1) := by
  intro init cond post body lp st env σ pc0 out halb hnd hit hp hpc hrel hwf hcnt hdep
  have hdep' : σ.frames.length + fuel < 1024 := by omega
  have hp' := hp
  have hcnt' := hcnt
  rw [compS_loop] at hp' hcnt'
  simp only at hp' hcnt'
  -- abbreviations
  generalize hci : (compS cx lp init (forSt0 st)).1 = ci at hp' hpc
  generalize hcc : (forCond cx lp init cond st).1 = cc at hp'
  generalize hcb : (compS cx (some (st.nl + 1, st.nl + 2)) body (forStB cx lp init cond st)).1 = cb at hp'
  generalize hcp : (compS cx lp post (forSt3 cx lp init cond body st)).1 = cp at hp'
  have hlenT : (compS cx lp (.loop init cond post body) st).1.length = ci.length + 1 + cc.length + cb.length + 1 + cp.length + 2 := by
    rw [compS_loop]; simp [hci, hcc, hcb, hcp]; omega
  -- placements
  have hP0 : Placed C (pc0 + ci.length) [Item.lbl st.nl] := hp'.left.left.left.left.left.right
  have hPc : Placed C (pc0 + ci.length + 1) cc := hp'.left.left.left.left.right.cast (by simp [Nat.add_assoc] <;> omega)
  have hPb : Placed C (pc0 + ci.length + 1 + cc.length) cb := hp'.left.left.left.right.cast (by simp [Nat.add_assoc] <;> omega)
  have hPp : Placed C (pc0 + ci.length + 1 + cc.length + cb.length) [Item.lbl (st.nl + 2)] :=
    hp'.left.left.right.cast (by simp [Nat.add_assoc] <;> omega)
  have hPq : Placed C (pc0 + ci.length + 1 + cc.length + cb.length + 1) cp := hp'.left.right.cast (by simp [Nat.add_assoc] <;> omega)
  have hPj : Placed C (pc0 + ci.length + 1 + cc.length + cb.length + 1 + cp.length) [Item.ins (.jmp st.nl), Item.lbl (st.nl + 1)] :=
    hp'.right.cast (by simp [Nat.add_assoc] <;> omega)
  have hLstart : findLabel C st.nl = some (pc0 + ci.length) := hP0.label hn
  have hLpost : findLabel C (st.nl + 2) = some (pc0 + ci.length + 1 + cc.length + cb.length) := hPp.label hn
  have hLend : findLabel C (st.nl + 1) = some (pc0 + ci.length + 1 + cc.length + cb.length + 1 + cp.length + 1) := hPj.tail.label hn
  -- compile-time states
  have hwf1 : Wf (forSt1 cx lp init st) := compS_wf cx init lp _ (wf_push (wf_nl hwf _))
  have hne1 : (forSt1 cx lp init st).scopes ≠ [] := hwf1.nonempty
  have hc1 : (forSt1 cx lp init st).cnt ≤ (forSt3 cx lp init cond body st).cnt := by
    have := (compS_mono cx body (some (st.nl + 1, st.nl + 2)) (forStB cx lp init cond st) (by simp)).1
    simpa [forSt3] using this
  have hc3 : (forSt3 cx lp init cond body st).cnt ≤ σ.locals.length := by
    have := (compS_mono cx post lp (forSt3 cx lp init cond body st) (by rw [forSt3_scopes]; exact hne1)).1
    simp only [pop_cnt] at hcnt'
    omega
  have hwf3 : Wf (forSt3 cx lp init cond body st) := by
    have := compS_wf cx (.block body) (some (st.nl + 1, st.nl + 2)) { forSt1 cx lp init st with nl := (forCond cx lp init cond st).2 } (wf_nl hwf1 _)
    rwa [compS_block] at this
  -- leaving the loop through the end mark
  have hexit : ∀ τ : State, τ.pc = pc0 + ci.length + 1 + cc.length + cb.length + 1 + cp.length + 1 →
      Reach C τ { τ with pc := pc0 + (compS cx lp (.loop init cond post body) st).1.length } := by
    intro τ hτ
    have := skip_lbl (σ := τ) (hτ ▸ hPj.tail)
    refine this.trans ?_
    have : τ.pc + 1 = pc0 + (compS cx lp (.loop init cond post body) st).1.length := by rw [hτ, hlenT]; omega
    rw [this]; exact Reach.refl _ _
  -- the body and what follows it, from the state where the body starts
  have hgo : ∀ τ : State, τ.pc = pc0 + ci.length + 1 + cc.length → Same σ τ → VarsRel cx (forSt1 cx lp init st).scopes env τ.locals τ.args →
      (match exec fuel P env (.block body) with
        | .ok (.norm e1) | .ok (.cont e1) => match exec fuel P e1 post with
          | .ok (.norm e2) => iter fuel P e2 cond post body
          | .ok _ => .stuck
          | r => r
        | .ok (.brk e1) => .ok (.norm e1)
        | r => r) = .ok out →
      IterPost cx C τ (pc0 + (compS cx lp (.loop init cond post body) st).1.length) (forSt1 cx lp init st).scopes out := by
    intro τ hτ hsτ hrelτ hgoeq
    have hdτ : τ.frames.length + fuel < 1024 := by rw [hsτ.frames]; exact hdep'
    cases hb : exec fuel P env (.block body) with
    | ok ob =>
      rw [hb] at hgoeq
      have hpostB := ih (.block body) (some (st.nl + 1, st.nl + 2)) 0 true
        { forSt1 cx lp init st with nl := (forCond cx lp init cond st).2 } env τ ob
        (by simpa [Allowed] using halb) (fun _ => ⟨_, _, rfl⟩) (Or.inr ⟨body, rfl⟩) hb
        (by rw [compS_block, hτ]; show Placed C _ (compS cx (some (st.nl + 1, st.nl + 2)) body (forStB cx lp init cond st)).1
            rw [hcb]; exact hPb)
        hrelτ (wf_nl hwf1 _)
        (by rw [compS_block, hsτ.len]; exact hc3) hdτ
      rw [compS_block] at hpostB
      have hbl : (compS cx (some (st.nl + 1, st.nl + 2)) body ({ forSt1 cx lp init st with nl := (forCond cx lp init cond st).2 } : St).push).1 = cb := hcb
      -- after the body (normal completion or continue): the post statement, the jump back, the remaining iterations
      have hafter : ∀ (e1 : Env) (σ2 : State), Reach C τ σ2 → σ2.pc = pc0 + ci.length + 1 + cc.length + cb.length → Same τ σ2 →
          VarsRel cx (forSt1 cx lp init st).scopes e1 σ2.locals σ2.args →
          (match exec fuel P e1 post with
            | .ok (.norm e2) => iter fuel P e2 cond post body
            | .ok _ => .stuck
            | r => r) = .ok out →
          IterPost cx C τ (pc0 + (compS cx lp (.loop init cond post body) st).1.length) (forSt1 cx lp init st).scopes out := by
        intro e1 σ2 hr2 hpc2 hs2 hrel2 heq
        have hl := skip_lbl (σ := σ2) (hpc2 ▸ hPp)
        cases hpo : exec fuel P e1 post with
        | ok op =>
          rw [hpo] at heq
          have hrel2' : VarsRel cx (forSt3 cx lp init cond body st).scopes e1 σ2.locals σ2.args := by
            rw [forSt3_scopes]; exact hrel2
          have hpostP := ih post lp 1 false (forSt3 cx lp init cond body st) e1 { σ2 with pc := σ2.pc + 1 } op
            (noDecl_allowed hnd false) (by intro h; cases h) (Or.inl (Nat.le_refl 1)) hpo
            (by rw [hcp]; exact hPq.cast (by simp [hpc2])) hrel2' hwf3
            (by
              have := (noDecl_state (cx := cx) (lp := lp) hnd (forSt3 cx lp init cond body st)).2
              rw [this]; show _ ≤ σ2.locals.length; rw [hs2.len, hsτ.len]; exact hc3)
            (by show σ2.frames.length + fuel < 1024; rw [hs2.frames]; exact hdτ)
          cases op with
          | norm e2 =>
            simp only at heq
            obtain ⟨σ3, hr3, hpc3, hs3, hrel3⟩ := hpostP
            rw [(noDecl_state hnd _).1, forSt3_scopes] at hrel3
            have hpc3' : σ3.pc = pc0 + ci.length + 1 + cc.length + cb.length + 1 + cp.length := by
              rw [hpc3, hcp]; simp [hpc2]
            have hj := step_jmp (s := σ3) (hpc3' ▸ hPj.head) hLstart
            have hs23 : Same σ2 σ3 := ⟨hs3.stack, hs3.frames, hs3.inited, hs3.len⟩
            have hsσ4 : Same σ { σ3 with pc := pc0 + ci.length } :=
              ⟨by show σ3.stack = σ.stack; rw [hs23.stack, hs2.stack, hsτ.stack],
               by show σ3.frames = σ.frames; rw [hs23.frames, hs2.frames, hsτ.frames],
               by show σ3.inited = σ.inited; rw [hs23.inited, hs2.inited, hsτ.inited],
               by show σ3.locals.length = σ.locals.length; rw [hs23.len, hs2.len, hsτ.len]⟩
            have hrest := ihI init cond post body lp st e2 { σ3 with pc := pc0 + ci.length } pc0 out halb hnd heq hp
              (by simp [hci]) hrel3 hwf (by show _ ≤ σ3.locals.length; rw [hsσ4.len]; exact hcnt)
              (by show σ3.frames.length + fuel < 1024; rw [hsσ4.frames]; exact hdep')
            have hpre : Reach C τ { σ3 with pc := pc0 + ci.length } := hr2.trans (hl.trans (hr3.trans (Reach.step hj)))
            have hsτ4 : Same τ { σ3 with pc := pc0 + ci.length } :=
              ⟨by show σ3.stack = τ.stack; rw [hs23.stack, hs2.stack],
               by show σ3.frames = τ.frames; rw [hs23.frames, hs2.frames],
               by show σ3.inited = τ.inited; rw [hs23.inited, hs2.inited],
               by show σ3.locals.length = τ.locals.length; rw [hs23.len, hs2.len]⟩
            cases out with
            | norm e' =>
              obtain ⟨σ5, hr5, hpc5, hs5, hrel5⟩ := hrest
              exact ⟨σ5, hpre.trans hr5, hpc5, hsτ4.trans hs5, hrel5⟩
            | ret v =>
              obtain ⟨σ5, hr5, h5, h6, h7⟩ := hrest
              exact ⟨σ5, hpre.trans hr5, h5, by rw [h6]; show _ ++ σ3.stack = _; rw [hs23.stack, hs2.stack],
                by rw [h7]; show σ3.frames = _; rw [hs23.frames, hs2.frames]⟩
            | brk e => exact hrest
            | cont e => exact hrest
          | ret v => simp at heq
          | brk e => simp at heq
          | cont e => simp at heq
        | panic => rw [hpo] at heq; simp at heq
        | overflow => rw [hpo] at heq; simp at heq
        | stuck => rw [hpo] at heq; simp at heq
        | timeout => rw [hpo] at heq; simp at heq
      cases ob with
      | norm e1 =>
        simp only at hgoeq
        obtain ⟨σ2, hr2, hpc2, hs2, hrel2⟩ := hpostB
        rw [hbl] at hpc2
        change VarsRel cx (forSt3 cx lp init cond body st).scopes e1 _ _ at hrel2
        rw [forSt3_scopes] at hrel2
        exact hafter e1 σ2 hr2 (by rw [hpc2, hτ]) hs2 hrel2 hgoeq
      | cont e1 =>
        simp only at hgoeq
        obtain ⟨b, c, hbc, hh⟩ := hpostB
        cases hbc
        obtain ⟨σ2, hr2, hpc2, hs2, hrel2⟩ := hh _ hLpost
        have hrel2' : VarsRel cx (forSt1 cx lp init st).scopes e1 σ2.locals σ2.args := by
          simpa [dropEnv] using hrel2
        exact hafter e1 σ2 hr2 hpc2 hs2 hrel2' hgoeq
      | brk e1 =>
        simp only at hgoeq
        cases hgoeq
        obtain ⟨b, c, hbc, hh⟩ := hpostB
        cases hbc
        obtain ⟨σ2, hr2, hpc2, hs2, hrel2⟩ := hh _ hLend
        have hrel2' : VarsRel cx (forSt1 cx lp init st).scopes e1 σ2.locals σ2.args := by
          simpa [dropEnv] using hrel2
        exact ⟨_, hr2.trans (hexit σ2 hpc2), rfl, ⟨hs2.stack, hs2.frames, hs2.inited, hs2.len⟩, hrel2'⟩
      | ret v =>
        simp only at hgoeq
        cases hgoeq
        exact hpostB
    | panic => rw [hb] at hgoeq; simp at hgoeq
    | overflow => rw [hb] at hgoeq; simp at hgoeq
    | stuck => rw [hb] at hgoeq; simp at hgoeq
    | timeout => rw [hb] at hgoeq; simp at hgoeq
  -- the loop head mark, then the condition
  have h0 := skip_lbl (σ := σ) (hpc ▸ hP0)
  have hpost_pre : ∀ {τ : State} {o : SOut}, Reach C σ τ → Same σ τ →
      IterPost cx C τ (pc0 + (compS cx lp (.loop init cond post body) st).1.length) (forSt1 cx lp init st).scopes o →
      IterPost cx C σ (pc0 + (compS cx lp (.loop init cond post body) st).1.length) (forSt1 cx lp init st).scopes o := by
    intro τ o hr hs h
    cases o with
    | norm e =>
      obtain ⟨σ', h1, h2, h3, h4⟩ := h
      exact ⟨σ', hr.trans h1, h2, hs.trans h3, h4⟩
    | ret v =>
      obtain ⟨σ', h1, h2, h3, h4⟩ := h
      exact ⟨σ', hr.trans h1, h2, by rw [h3, hs.stack], by rw [h4, hs.frames]⟩
    | brk e => exact h
    | cont e => exact h
  simp only [iter] at hit
  cases cond with
  | none =>
    simp only at hit
    have hccn : cc = [] := by rw [← hcc]; rfl
    subst hccn
    have hτ : ({ σ with pc := σ.pc + 1 } : State).pc = pc0 + ci.length + 1 + ([] : Code).length := by simp [hpc]
    exact hpost_pre h0 ⟨rfl, rfl, rfl, rfl⟩ (hgo { σ with pc := σ.pc + 1 } hτ ⟨rfl, rfl, rfl, rfl⟩ hrel hit)
  | some c =>
    simp only at hit
    have hccs : cc = (compE cx (forSt1 cx lp init st).scopes c .val (forSt1 cx lp init st).nl).1 ++ [Item.ins (.jmpIfNot (st.nl + 1))] := by
      rw [← hcc]; rfl
    cases hcv : evalE fuel P env c with
    | ok cv =>
      rw [hcv] at hit
      have hPc' : Placed C (pc0 + ci.length + 1) ((compE cx (forSt1 cx lp init st).scopes c .val (forSt1 cx lp init st).nl).1 ++ [Item.ins (.jmpIfNot (st.nl + 1))]) := by
        rw [← hccs]; exact hPc
      have hre := (ihE (forSt1 cx lp init st).scopes env) c .val (forSt1 cx lp init st).nl { σ with pc := σ.pc + 1 } cv hcv
        (by show Placed C (σ.pc + 1) _; rw [hpc]; exact hPc'.left) hrel hdep'
      simp only [Post] at hre
      have hjf : C[σ.pc + 1 + (compE cx (forSt1 cx lp init st).scopes c .val (forSt1 cx lp init st).nl).1.length]? =
          some (Item.ins (.jmpIfNot (st.nl + 1))) := by
        rw [hpc]; exact hPc'.right.head
      generalize hlc : (compE cx (forSt1 cx lp init st).scopes c .val (forSt1 cx lp init st).nl).1.length = lc at hre hjf
      have hj := step_jmpIfNot (s := { σ with pc := σ.pc + 1 + lc, stack := cv :: σ.stack }) (v := cv) (r := σ.stack) hjf hLend rfl
      cases cv with
      | bool b =>
        cases b with
        | true =>
          simp only at hit
          simp only [Val.toBool, if_true] at hj
          have hτ : ({ σ with pc := σ.pc + 1 + lc + 1 } : State).pc
              = pc0 + ci.length + 1 + cc.length := by rw [hccs]; simp [hpc, hlc, Nat.add_assoc]
          refine hpost_pre (h0.trans (hre.trans (Reach.step hj))) ⟨rfl, rfl, rfl, rfl⟩ ?_
          exact hgo _ hτ ⟨rfl, rfl, rfl, rfl⟩ hrel hit
        | false =>
          simp only at hit
          cases hit
          simp only [Val.toBool, Bool.false_eq_true, if_false] at hj
          have hx := hexit { σ with pc := pc0 + ci.length + 1 + cc.length + cb.length + 1 + cp.length + 1 } rfl
          exact ⟨_, h0.trans (hre.trans ((Reach.step hj).trans hx)), rfl, ⟨rfl, rfl, rfl, rfl⟩, hrel⟩
      | int n => simp at hit
      | null => simp at hit
    | panic => rw [hcv] at hit; simp at hit
    | overflow => rw [hcv] at hit; simp at hit
    | stuck => rw [hcv] at hit; simp at hit
    | timeout => rw [hcv] at hit; simp at hit

end NeoModel.CompileProofs

namespace NeoModel.CompileProofs
open NeoModel.MiniVm NeoModel.MiniVm.Asm NeoModel.MiniGo NeoModel.Compile

/-- INITSLOT (or the NOP of a removed INITSLOT 0,0) at the entry of a called function. -/
theorem initSlot_stepF {C : Code} {σ : State} {N np : Nat} {vs rest : List Val} (hnp : np = vs.length)
    (hf : C[σ.pc]? = some (initSlotItem N np)) (hs : σ.stack = vs ++ rest) (hl : σ.locals = []) (ha : σ.args = [])
    (hi : σ.inited = false) :
    ∃ b, Reach C σ { σ with pc := σ.pc + 1, stack := rest, locals := List.replicate N .null, args := vs, inited := b } := by
  by_cases hz : (N == 0 && np == 0) = true
  · have hN : N = 0 := by simp at hz; exact hz.1
    have hA : vs = [] := by
      have : np = 0 := by simp at hz; exact hz.2
      rw [this] at hnp
      exact List.length_eq_zero_iff.mp hnp.symm
    simp only [initSlotItem, hz, if_true] at hf
    subst hN; subst hA
    refine ⟨false, Reach.step ?_⟩
    have h := step_data (C := C) (s := σ) (op := .nop) (stk := σ.stack) (loc := σ.locals) (ar := σ.args) hf rfl (by simp [stepData])
    rw [h]
    congr 1
    cases σ
    simp_all
  · have hz' : (N == 0 && np == 0) = false := by simpa using hz
    simp only [initSlotItem, hz', Bool.false_eq_true, if_false] at hf
    refine ⟨true, Reach.step ?_⟩
    simp [Asm.step, hf, stepOp, hnp, hs, hi]
    intro h0 hv
    subst h0; subst hv
    simp at hnp
    subst hnp
    simp at hz

/-- a statement list whose last statement is a return (possibly inside blocks) does not complete normally. -/
theorem lastIsRet_aux : ∀ (s : Stmt),
    (lastIsRet s = true → ∀ (fuel : Nat) (P : Prog) (env e : Env), exec fuel P env s ≠ .ok (.norm e)) ∧
    (∀ b, s = .block b → lastIsRet b = true → ∀ (fuel : Nat) (P : Prog) (env e : Env), exec fuel P env s ≠ .ok (.norm e)) := by
  intro s
  induction s with
  | seq a b iha ihb =>
    refine ⟨?_, fun b' h => by cases h⟩
    intro hl fuel P env e
    cases fuel with
    | zero => simp [exec]
    | succ n =>
      simp only [exec]
      cases hb : b with
      | skip =>
        subst hb
        cases ha : exec n P env a with
        | ok oa =>
          cases oa with
          | norm e1 =>
            exfalso
            cases a with
            | block bb =>
              exact iha.2 bb rfl (by simpa [lastIsRet] using hl) n P env e1 ha
            | ret r =>
              cases n with
              | zero => simp [exec] at ha
              | succ m =>
                cases r with
                | none => simp [exec] at ha
                | some ex =>
                  simp only [exec] at ha
                  cases hv : evalE m P env ex <;> rw [hv] at ha <;> simp at ha
            | _ => simp [lastIsRet] at hl
          | ret v => simp
          | brk e1 => simp
          | cont e1 => simp
        | panic => simp
        | overflow => simp
        | stuck => simp
        | timeout => simp
      | _ =>
        rw [← hb]
        have hlb : lastIsRet b = true := by
          rw [hb] at hl ⊢
          simpa [lastIsRet] using hl
        cases ha : exec n P env a with
        | ok oa =>
          cases oa with
          | norm e1 => simp only; exact ihb.1 hlb n P e1 e
          | ret v => simp
          | brk e1 => simp
          | cont e1 => simp
        | panic => simp
        | overflow => simp
        | stuck => simp
        | timeout => simp
  | block b ih =>
    refine ⟨fun hl => by simp [lastIsRet] at hl, ?_⟩
    intro b' hb' hl fuel P env e
    cases hb'
    cases fuel with
    | zero => simp [exec]
    | succ n =>
      simp only [exec]
      cases hx : exec n P env.push b with
      | ok ob =>
        cases ob with
        | norm e1 => exact absurd hx (ih.1 hl n P env.push e1)
        | ret v => simp
        | brk e1 => simp
        | cont e1 => simp
      | panic => simp
      | overflow => simp
      | stuck => simp
      | timeout => simp
  | _ => exact ⟨fun hl => by simp [lastIsRet] at hl, fun b h => by cases h⟩

end NeoModel.CompileProofs

namespace NeoModel.CompileProofs
open NeoModel.MiniVm NeoModel.MiniVm.Asm NeoModel.MiniGo NeoModel.Compile

/-- what a CALL of a function achieves, by the outcome of its body. -/
def CallPost (C : Code) (σ : State) (rest : List Val) : SOut → Prop
  | .ret v => Reach C σ { σ with pc := σ.pc + 1, stack := v.toList ++ rest }
  | .norm _ => Reach C σ { σ with pc := σ.pc + 1, stack := rest }
  | .brk _ => False
  | .cont _ => False

theorem fnLabel_of_find {P : Prog} {f : String} {d : FuncDecl} (h : P.find f = some d) :
    ∃ i, P[i]? = some d ∧ fnLabel P f = i ∧ fnRes P f = (if d.hasResult then 1 else 0) := by
  obtain ⟨i, hi, hl⟩ := find_table h
  exact ⟨i, hi, by simp [fnLabel, hl], by simp [fnRes, hl]⟩

/-- CALL … RET: the callee's frame is pushed, its body runs under the statement theorem, RET restores the caller. -/
theorem call_run {P : Prog} {C : Code} {fuel : Nat} (hpc : ProgCode C P)
    (ihS : ∀ cx : Ctx, cx.funcs = funcTable P → StmtFOK P C cx fuel) (hall : ∀ d ∈ P, Allowed false d.body)
    {f : String} {d : FuncDecl} {vs rest : List Val} {σ : State} {out : SOut}
    (hfind : P.find f = some d) (hlen : d.params.length = vs.length)
    (hex : exec fuel P { frames := [[]], args := d.params.zip vs } (.block d.body) = .ok out)
    (hs : σ.stack = vs ++ rest) (hf : C[σ.pc]? = some (.ins (.call (fnLabel P f))))
    (hdep : σ.frames.length + (fuel + 1) < 1024) : CallPost C σ rest out := by
  obtain ⟨i, hi, hlab, _⟩ := fnLabel_of_find hfind
  obtain ⟨pc0, nl, hp⟩ := hpc.funcs i d hi
  have hmem : d ∈ P := List.mem_of_getElem? hi
  have hcode : (compFunc (funcTable P) d i nl).1 =
      [Item.lbl i, initSlotItem (compS { funcs := funcTable P, args := d.params } none (.block d.body) { nl := nl, cnt := 0, scopes := [[]] }).2.cnt d.params.length] ++
        (compS { funcs := funcTable P, args := d.params } none (.block d.body) { nl := nl, cnt := 0, scopes := [[]] }).1 ++
        (if lastIsRet d.body then [] else [Item.ins .ret]) := rfl
  rw [hcode] at hp
  generalize hN : (compS { funcs := funcTable P, args := d.params } none (.block d.body) { nl := nl, cnt := 0, scopes := [[]] }).2.cnt = N at hp
  have hlbl : findLabel C i = some pc0 := hp.left.left.label hpc.nodup
  rw [hlab] at hf
  have hcall := step_call (s := σ) hf hlbl (by omega)
  -- the callee's frame
  have h1 := skip_lbl (σ := State.mk pc0 σ.stack [] [] (MiniVm.Frame.mk (σ.pc + 1) σ.locals σ.args σ.inited :: σ.frames) false) hp.left.left
  obtain ⟨b, h2⟩ := initSlot_stepF (C := C)
    (σ := State.mk (pc0 + 1) σ.stack [] [] (MiniVm.Frame.mk (σ.pc + 1) σ.locals σ.args σ.inited :: σ.frames) false)
    (N := N) (vs := vs) (rest := rest) hlen hp.left.left.tail.head hs rfl rfl rfl
  have hrel : VarsRel { funcs := funcTable P, args := d.params } [[]] { frames := [[]], args := d.params.zip vs } (List.replicate N .null) vs :=
    ⟨by simp [FramesRel, FrameRel], zip_fst _ _ hlen, zip_snd _ _ hlen⟩
  have hwf : Wf { nl := nl, cnt := 0, scopes := [[]] } := ⟨by simp [slotsOf], by simp [slotsOf], by simp⟩
  have hbody := ihS { funcs := funcTable P, args := d.params } rfl (.block d.body) none 0 false { nl := nl, cnt := 0, scopes := [[]] } _
    (State.mk (pc0 + 1 + 1) rest (List.replicate N .null) vs (MiniVm.Frame.mk (σ.pc + 1) σ.locals σ.args σ.inited :: σ.frames) b) out
    (by simpa [Allowed] using hall d hmem) (by intro h; cases h) (Or.inr ⟨_, rfl⟩) hex
    (hp.left.right.cast (by simp)) hrel hwf (by simp [hN]) (by simp; omega)
  have hpre := (Reach.step hcall).trans (h1.trans h2)
  cases out with
  | ret v =>
    obtain ⟨σ3, hr3, hret, hst3, hfr3⟩ := hbody
    have hr := step_ret (s := σ3) hret hfr3
    refine (hpre.trans (hr3.trans (Reach.step hr))).trans ?_
    simp only at hst3
    rw [hst3]
    exact Reach.refl _ _
  | norm e =>
    obtain ⟨σ3, hr3, hpc3, hs3, _⟩ := hbody
    -- the body fell off its end: the function's closing RET follows
    have hnl : lastIsRet d.body = false := by
      cases hl : lastIsRet d.body with
      | false => rfl
      | true => exact absurd hex ((lastIsRet_aux (.block d.body)).2 d.body rfl hl fuel P _ e)
    rw [hnl] at hp
    have hret : C[σ3.pc]? = some (.ins .ret) := by
      rw [hpc3]
      exact (hp.right.cast (by simp [Nat.add_assoc]; omega)).head
    have hr := step_ret (s := σ3) hret hs3.frames
    refine (hpre.trans (hr3.trans (Reach.step hr))).trans ?_
    rw [hs3.stack]
    exact Reach.refl _ _
  | brk e => obtain ⟨b', c', hh, _⟩ := hbody; cases hh
  | cont e => obtain ⟨b', c', hh, _⟩ := hbody; cases hh

end NeoModel.CompileProofs

namespace NeoModel.CompileProofs
open NeoModel.MiniVm NeoModel.MiniVm.Asm NeoModel.MiniGo NeoModel.Compile

/-- everything that is proved together by induction on the fuel. -/
structure AllOK (P : Prog) (C : Code) (fuel : Nat) : Prop where
  expr : ∀ (cx : Ctx) (sc : Scopes) (env : Env), cx.funcs = funcTable P → ExprFOK P C cx sc env fuel
  stmt : ∀ cx : Ctx, cx.funcs = funcTable P → StmtFOK P C cx fuel
  iter : ∀ cx : Ctx, cx.funcs = funcTable P → IterOK P C cx fuel
  call : CallOK P C fuel
  callS : CallSOK P C fuel

theorem callOK_succ {P : Prog} {C : Code} {fuel : Nat} (hpc : ProgCode C P)
    (ihS : ∀ cx : Ctx, cx.funcs = funcTable P → StmtFOK P C cx fuel) (hall : ∀ d ∈ P, Allowed false d.body) :
    CallOK P C (fuel + 1) := by
  intro f vs v σ rest hc hs hf hdep
  simp only [callF] at hc
  cases hfind : P.find f with
  | none => rw [hfind] at hc; simp at hc
  | some d =>
    rw [hfind] at hc
    simp only at hc
    by_cases hlen : d.params.length = vs.length
    · have hne : (d.params.length != vs.length) = false := by simp [hlen]
      simp only [hne, Bool.false_eq_true, if_false] at hc
      cases hex : exec fuel P { frames := [[]], args := d.params.zip vs } (.block d.body) with
      | ok out =>
        rw [hex] at hc
        have hrun := call_run hpc ihS hall hfind hlen hex hs hf hdep
        cases out with
        | ret r =>
          cases r with
          | some v' =>
            simp only at hc
            split at hc
            · cases hc
              simpa [CallPost] using hrun
            · cases hc
          | none => simp at hc
        | norm e => simp at hc
        | brk e => simp at hc
        | cont e => simp at hc
      | panic => rw [hex] at hc; simp at hc
      | overflow => rw [hex] at hc; simp at hc
      | stuck => rw [hex] at hc; simp at hc
      | timeout => rw [hex] at hc; simp at hc
    · have hne : (d.params.length != vs.length) = true := by simpa using hlen
      simp [hne] at hc

theorem callSOK_succ {P : Prog} {C : Code} {fuel : Nat} (hpc : ProgCode C P)
    (ihS : ∀ cx : Ctx, cx.funcs = funcTable P → StmtFOK P C cx fuel) (hall : ∀ d ∈ P, Allowed false d.body) :
    CallSOK P C (fuel + 1) := by
  intro f vs σ rest hc hs hf hdep
  simp only [callS] at hc
  cases hfind : P.find f with
  | none => rw [hfind] at hc; simp at hc
  | some d =>
    rw [hfind] at hc
    simp only at hc
    obtain ⟨i, _, _, hres⟩ := fnLabel_of_find hfind
    by_cases hlen : d.params.length = vs.length
    · have hne : (d.params.length != vs.length) = false := by simp [hlen]
      simp only [hne, Bool.false_eq_true, if_false] at hc
      cases hex : exec fuel P { frames := [[]], args := d.params.zip vs } (.block d.body) with
      | ok out =>
        rw [hex] at hc
        have hrun := call_run hpc ihS hall hfind hlen hex hs hf hdep
        cases out with
        | ret r =>
          cases r with
          | some v' =>
            simp only at hc
            split at hc
            · rename_i hh
              exact ⟨[v'], by simp [hres, hh], by simpa [CallPost] using hrun⟩
            · cases hc
          | none =>
            simp only at hc
            split at hc
            · cases hc
            · rename_i hh
              exact ⟨[], by simp [hres, hh], by simpa [CallPost] using hrun⟩
        | norm e =>
          simp only at hc
          split at hc
          · cases hc
          · rename_i hh
            exact ⟨[], by simp [hres, hh], by simpa [CallPost] using hrun⟩
        | brk e => simp at hc
        | cont e => simp at hc
      | panic => rw [hex] at hc; simp at hc
      | overflow => rw [hex] at hc; simp at hc
      | stuck => rw [hex] at hc; simp at hc
      | timeout => rw [hex] at hc; simp at hc
    · have hne : (d.params.length != vs.length) = true := by simpa using hlen
      simp [hne] at hc

theorem allOK {P : Prog} {C : Code} (hpc : ProgCode C P) (hall : ∀ d ∈ P, Allowed false d.body) :
    ∀ fuel, AllOK P C fuel := by
  intro fuel
  induction fuel with
  | zero =>
    refine ⟨fun cx sc env _ => exprFOK_zero P C cx sc env, fun cx _ => stmtFOK_zero P C cx, fun cx _ => iterOK_zero P C cx, ?_, ?_⟩
    · intro f vs v σ rest hc; simp [callF] at hc
    · intro f vs σ rest hc; simp [callS] at hc
  | succ n ih =>
    refine ⟨?_, ?_, ?_, callOK_succ hpc ih.stmt hall, callSOK_succ hpc ih.stmt hall⟩
    · intro cx sc env htab
      exact exprFOK_succ P C cx sc env n hpc.nodup htab (ih.expr cx sc env htab) ih.call
    · intro cx htab
      exact stmtFOK_succ P C cx n hpc.nodup htab (fun sc env => ih.expr cx sc env htab) (ih.stmt cx htab) (ih.iter cx htab) ih.callS
    · intro cx htab
      exact iterOK_succ P C cx n hpc.nodup (fun sc env => ih.expr cx sc env htab) (ih.stmt cx htab) (ih.iter cx htab)

end NeoModel.CompileProofs

