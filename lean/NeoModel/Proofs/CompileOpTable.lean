/-
C14: the model's instruction encoding (`Byte.encode`, the function the compiler's bytes are compared with and that
`decode_encode` inverts) against the opcode table regenerated from /repo on every run (NeoModel.Generated.Opcodes:
pkg/vm/opcode numbering and names, operand sizes of the VM's instruction parser).
-/
import NeoModel.Generated.Opcodes
import NeoModel.Proofs.CompileCodec
set_option linter.unusedSimpArgs false
namespace NeoModel.CompileProofs
open NeoModel.MiniVm NeoModel.MiniVm.Asm NeoModel.Compile NeoModel.Generated

/-- the name pkg/vm/opcode gives the instruction the model encodes. -/
def cmpName : Cmp → String
  | .eq => "JMPEQ" | .ne => "JMPNE" | .gt => "JMPGT" | .ge => "JMPGE" | .lt => "JMPLT" | .le => "JMPLE"

def lg (long : Bool) (s : String) : String := if long then s ++ "_L" else s

def slotName (names : List String) (generic : String) (i : Nat) : String := (names[i]?).getD generic

/-- size class of a PUSHINT operand: the index into PUSHINT8 … PUSHINT256 (emit.bigInt's padSize). -/
def pushIdx (n : Int) : Nat :=
  let l := Byte.minLen n 32
  if l ≤ 1 then 0 else if l ≤ 2 then 1 else if l ≤ 4 then 2 else if l ≤ 8 then 3 else if l ≤ 16 then 4 else 5

def pushName (n : Int) : String :=
  if n == -1 then "PUSHM1"
  else if 0 ≤ n ∧ n < 16 then
    (["PUSH0", "PUSH1", "PUSH2", "PUSH3", "PUSH4", "PUSH5", "PUSH6", "PUSH7", "PUSH8", "PUSH9", "PUSH10", "PUSH11", "PUSH12",
      "PUSH13", "PUSH14", "PUSH15"][n.toNat]?).getD ""
  else (["PUSHINT8", "PUSHINT16", "PUSHINT32", "PUSHINT64", "PUSHINT128", "PUSHINT256"][pushIdx n]?).getD ""

def mnemonic (long : Bool) : Op Int → String
  | .pushInt n => pushName n
  | .pushT => "PUSHT" | .pushF => "PUSHF" | .pushNull => "PUSHNULL" | .nop => "NOP"
  | .jmp _ => lg long "JMP" | .jmpIf _ => lg long "JMPIF" | .jmpIfNot _ => lg long "JMPIFNOT"
  | .jmpCmp c _ => lg long (cmpName c) | .call _ => lg long "CALL"
  | .ret => "RET" | .drop => "DROP" | .dup => "DUP" | .swap => "SWAP"
  | .reverse3 => "REVERSE3" | .reverse4 => "REVERSE4" | .reverseN => "REVERSEN"
  | .initSlot _ _ => "INITSLOT"
  | .ldloc i => slotName ["LDLOC0", "LDLOC1", "LDLOC2", "LDLOC3", "LDLOC4", "LDLOC5", "LDLOC6"] "LDLOC" i
  | .stloc i => slotName ["STLOC0", "STLOC1", "STLOC2", "STLOC3", "STLOC4", "STLOC5", "STLOC6"] "STLOC" i
  | .ldarg i => slotName ["LDARG0", "LDARG1", "LDARG2", "LDARG3", "LDARG4", "LDARG5", "LDARG6"] "LDARG" i
  | .starg i => slotName ["STARG0", "STARG1", "STARG2", "STARG3", "STARG4", "STARG5", "STARG6"] "STARG" i
  | .add => "ADD" | .sub => "SUB" | .mul => "MUL" | .div => "DIV" | .mod => "MOD"
  | .negate => "NEGATE" | .inc => "INC" | .dec => "DEC"
  | .not => "NOT" | .boolAnd => "BOOLAND" | .boolOr => "BOOLOR"
  | .numEq => "NUMEQUAL" | .numNe => "NUMNOTEQUAL" | .equal => "EQUAL" | .notEqual => "NOTEQUAL"
  | .lt => "LT" | .le => "LE" | .gt => "GT" | .ge => "GE"
  | .throw => "THROW" | .pack => "PACK"

/-- the row of the regenerated opcode table (pkg/vm/opcode + operand sizes of the VM's instruction parser) with that name. -/
def rowOf (name : String) : Option (Nat × String × Nat × Nat × Nat) := Opcodes.table.find? (fun r => r.2.1 == name)

/-- head byte `b` followed by `n` operand bytes agrees with the table row called `name`: the opcode byte is the row's,
    the row has no length prefix, and its fixed operand size is `n`. -/
def agreesHL (name : String) (b : UInt8) (n : Nat) : Bool :=
  match rowOf name with
  | some r => b.toNat == r.1 && r.2.2.1 == 0 && r.2.2.2.1 == n
  | none => false

def agreesB (name : String) : Bytes → Bool
  | b :: rest => agreesHL name b rest.length
  | [] => false

def pushSmallNames : List String :=
  ["PUSH0", "PUSH1", "PUSH2", "PUSH3", "PUSH4", "PUSH5", "PUSH6", "PUSH7", "PUSH8", "PUSH9", "PUSH10", "PUSH11", "PUSH12",
   "PUSH13", "PUSH14", "PUSH15"]
def pushBigNames : List String := ["PUSHINT8", "PUSHINT16", "PUSHINT32", "PUSHINT64", "PUSHINT128", "PUSHINT256"]

theorem pushIdx_le (n : Int) : pushIdx n < 6 := by
  unfold pushIdx; dsimp only; repeat' split
  all_goals omega

theorem encPushInt_big (n : Int) (h1 : (n == -1) = false) (h2 : ¬ (0 ≤ n ∧ n < 16)) :
    Byte.encPushInt n = UInt8.ofNat (pushIdx n) :: Byte.leBytes n (2 ^ pushIdx n) := by
  unfold Byte.encPushInt pushIdx
  rw [h1]; simp only [Bool.false_eq_true, if_false, h2]
  repeat' split
  all_goals rfl

theorem push_small_rows : ∀ k, k < 16 → agreesB ((pushSmallNames[k]?).getD "") [UInt8.ofNat (0x10 + k)] = true := by
  decide +kernel
theorem push_big_rows : ∀ j, j < 6 → agreesHL ((pushBigNames[j]?).getD "") (UInt8.ofNat j) (2 ^ j) = true := by
  decide +kernel
theorem slot_rows (names : List String) (generic : String) (base : Nat)
    (h : ∀ i, i < 7 → agreesHL ((names[i]?).getD generic) (UInt8.ofNat (base + i)) 0 = true)
    (hl : names.length = 7) (hg : agreesHL generic (UInt8.ofNat (base + 7)) 1 = true) (i : Nat) :
    agreesB (slotName names generic i) (Byte.slotOp base i) = true := by
  unfold Byte.slotOp slotName
  by_cases hi : i < 7
  · simp only [hi, if_true, agreesB, List.length_nil]; exact h i hi
  · have : names[i]? = none := by rw [List.getElem?_eq_none]; omega
    simp only [hi, if_false, this, Option.getD_none, agreesB, List.length_cons, List.length_nil]; exact hg

/-- **Every instruction encoding of the model agrees with the regenerated opcode table**: the first byte is the opcode
    that pkg/vm/opcode gives the instruction's mnemonic and the operand has the size the VM's instruction parser reads
    for it (so the model's `Byte.encode`, to which the compiler's bytes are compared, cannot drift from the opcode
    numbering or operand widths of /repo without this theorem failing). -/
theorem encode_agrees_table (long : Bool) (op : Op Int) : agreesB (mnemonic long op) (Byte.encode long op) = true := by
  cases op
  case pushInt n =>
    simp only [Byte.encode, mnemonic, pushName]
    by_cases h1 : (n == -1) = true
    · simp only [Byte.encPushInt, h1, if_true]; decide +kernel
    · have h1' : (n == -1) = false := by simpa using h1
      by_cases h2 : 0 ≤ n ∧ n < 16
      · simp only [Byte.encPushInt, h1', Bool.false_eq_true, if_false, h2, if_true, and_self]
        exact push_small_rows n.toNat (by omega)
      · rw [encPushInt_big n h1' h2]
        simp only [h1', Bool.false_eq_true, if_false, h2, agreesB, leBytes_length]
        exact push_big_rows _ (pushIdx_le n)
  case ldloc i => exact slot_rows _ _ 0x68 (by decide +kernel) rfl (by decide +kernel) i
  case stloc i => exact slot_rows _ _ 0x70 (by decide +kernel) rfl (by decide +kernel) i
  case ldarg i => exact slot_rows _ _ 0x78 (by decide +kernel) rfl (by decide +kernel) i
  case starg i => exact slot_rows _ _ 0x80 (by decide +kernel) rfl (by decide +kernel) i
  case jmpCmp c t =>
    cases long <;> cases c <;>
      simp only [Byte.encode, mnemonic, lg, cmpName, Byte.Cmp.code, agreesB, Byte.i32, leBytes_length, if_true, if_false,
        Bool.false_eq_true, List.length_cons, List.length_nil] <;> decide +kernel
  all_goals
    cases long <;>
      simp only [Byte.encode, mnemonic, lg, agreesB, Byte.i32, leBytes_length, if_true, if_false,
        Bool.false_eq_true, List.length_cons, List.length_nil] <;> decide +kernel

example : rowOf "JMPIFNOT_L" = some (0x27, "JMPIFNOT_L", 0, 4, 2) := by decide +kernel

end NeoModel.CompileProofs
