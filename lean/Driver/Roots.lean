/-
Driver for stream `roots` (C03): replays each block's storage change set on the MPT model and
prints the model's state root (real double SHA-256), so model and node agree on the 32 bytes at
every height; `get` reads the model trie of a given height; `findl`/`findh`/`findw` run the model of
System.Storage.Find (Model/StateCommit/Find.lean) on the live-side model store (a C09 store stack
that receives the same change sets, flushed now and then) and on the trie of a height under empty
cache layers (plus the invocation's own writes for `findw`).

  case <k>                                  -> case <k>            (reset: empty trie, no heights)
  batch <h> <key> <val|del> ...             -> <root hex>          MapToMPTBatch + PutBatch on the trie of h-1
  get <h> <key>                             -> <val hex> | none
  findl <id4> <prefix> <opts>               -> invalid:<i> | fault | ok:[item,...]   (live model store, now)
  findh <h> <id4> <prefix> <opts>           -> the same on the trie of height h
  findw <h|live> <id4> <prefix> <opts> <key> <val|del> ...  -> the same after the invocation's own writes
  getw <h|live> <id4> <key> <k> <v|del> ... -> <val hex> | none | fault   System.Storage.Get after the invocation's own
                                               writes: model store stack (live) / cache layers over TrieStore (h)
  dfindh / dfindw / dget                    -> as findh / findw / get: the harness created the historic context
                                               earlier and evaluates it after later blocks were stored; the model's
                                               answer is the view of height h regardless (historic_view_stable)
  validated <h> <root> <0|1>                -> <index> <root> w<witnesses> v<validated height>   AddStateRoot of a signed
                                               root (1 = its witness verifies) on the module model
  sroot <h>                                 -> <index> <root hex> | none     GetStateRoot(h) of the model of
                                               stateroot.Module's records (Model/StateCommit/Roots.lean), which
                                               receives every batch as AddMPTBatch+UpdateCurrentLocal
  vheight                                   -> <validated height>   the key [DataMPTAux, prefixValidated] of the model (0 = absent);
                                               after a reset it is what the model's backward search (findValidated) found
  local                                     -> <CurrentLocalHeight> <CurrentLocalStateRoot hex>
  reset <h>                                 -> ok       ResetState(h) on the model, heights above h forgotten
  flush <0|1>                               -> ok       a flush of the write cache (0: the DB write failed): Op.flush, a no-op
  resetrefused <h>                          -> ok       Blockchain.Reset refused the request before writing (RemoveUntraceableBlocks
                                               below the tip): the model is untouched, the following sroot/local lines must agree
  restart                                   -> ok       Init(current height) on the model
  (in the rpc* lines <id4> may also be <mgmt id4><contract hash, 20 bytes BE>: the model then resolves the id
   from Management's record at the same height, Model/StateCommit/RpcId.lean)
  rpcget <h> <id4> <key>                    -> <val hex> | none                 getstate
  rpcproof <h> <id4> <key>                  -> <id‖key> <node,node,...> | none  getproof
  rpcverify <h> <id‖key> <node,node,...>    -> <val hex> | invalid              verifyproof against the root of h
  rpcfind <h> <id4> <prefix> <key|nil> <n>  -> err:keyprefix | <T|F> <k=v,...> <first|nil> <last|nil>   findstates
-/
import NeoModel.Base.Proto
import NeoModel.Base.Sha256
import NeoModel.Model.Mpt
import NeoModel.Model.StateCommit.Find
import NeoModel.Model.StateCommit.Roots
import NeoModel.Model.StateCommit.Get
import NeoModel.Model.StateCommit.Rpc
import NeoModel.Model.StateCommit.RpcId
import NeoModel.Props.C03
open NeoModel NeoModel.Mpt

def H : Bytes → Bytes := Sha256.hash2

structure St where
  cur : Node := .empty
  hist : List (Nat × Node) := []
  /-- live-side model: the DAO's MemCachedStore over a MemoryStore -/
  live : Store.Store := .cached (Store.Layer.fresh false) (.memB [] [])
  nBatch : Nat := 0
  /-- model of stateroot.Module with the surviving chain -/
  mod : StateCommit.Roots.St Node :=
    { m := { store := [], mpt := .empty, currentLocal := List.replicate 32 0, localHeight := 0 }, chain := [] }
  /-- root hash -> trie (what re-opening a trie from the node store gives) -/
  tries : List (Bytes × Node) := []

def parsePairs : List String → Option (List (Bytes × Option Bytes))
  | [] => some []
  | k :: v :: rest => do
    let kb ← Hex.decode k
    let ov ← (if v == "del" then some none else (Hex.decode v).map some)
    let r ← parsePairs rest
    pure ((kb, ov) :: r)
  | _ => none

open NeoModel.Wire (Item) in
partial def showItem : Item → String
  | .byteArray b => "B" ++ Hex.encode b
  | .buffer b => "U" ++ Hex.encode b
  | .bool b => if b then "T" else "F"
  | .int c => "I" ++ Hex.encode c
  | .array l => "A[" ++ ",".intercalate (l.map showItem) ++ "]"
  | .struct l => "S[" ++ ",".intercalate (l.map showItem) ++ "]"
  | .map m => "M[" ++ ",".intercalate (m.map fun (k, v) => showItem k ++ ":" ++ showItem v) ++ "]"
  | .null => "N"
  | .interop => "X"
  | .pointer _ => "P"
  | .invalid => "?"

open NeoModel.StateCommit.Find in
def showOut : Out → String
  | .invalid i => s!"invalid:{i}"
  | .fault => "fault"
  | .ok l => "ok:[" ++ ",".intercalate (l.map showItem) ++ "]"

/-- the invocation's own writes as a private cache layer (keys are the contract's keys). -/
def writeLayer (id : Nat) (ws : List (Bytes × Option Bytes)) : Store.Layer :=
  ws.foldl (fun L w => L.set (StateCommit.Find.storageKey 0x70 id w.1) w.2) (Store.Layer.fresh true)

def idOf (b : Bytes) : Nat := Wire.leVal b

/-- the contract an RPC line addresses: 4 bytes = the id; 24 bytes = Management's id ‖ contract hash, resolved
on the trie of the height (`none`: unknown contract). -/
def rpcId (t : Node) (b : Bytes) : Option Nat :=
  if b.length == 4 then some (idOf b)
  else StateCommit.Rpc.contractId t (idOf (b.take 4)) (b.drop 4)

def parseNodes (s : String) : Option (List Bytes) :=
  if s == "none" then some [] else (s.splitOn ",").mapM Hex.decode

def showNodes (l : List Bytes) : String :=
  if l.isEmpty then "none" else ",".intercalate (l.map Hex.encode)

def showOptKey : Option Bytes → String
  | some k => Hex.encode k
  | none => "nil"

open NeoModel.StateCommit.Rpc in
def showFind : Except FindErr FindRes → String
  | .error .keyPrefix => "err:keyprefix"
  | .error .tooLong => "err:internal"
  | .ok r =>
    (if r.truncated then "T " else "F ") ++
      (if r.results.isEmpty then "none" else ",".intercalate (r.results.map fun e => Hex.encode e.1 ++ "=" ++ Hex.encode e.2)) ++
      " " ++ showOptKey r.first ++ " " ++ showOptKey r.last

/-- the trie side of the module model: the C10 MPT as `AuthMap` (StateCommit.mptMap), real root
hashes, re-opening by root hash from the tries flushed so far. -/
def trieOps (tries : List (Bytes × Node)) : StateCommit.Roots.TrieOps Node :=
  { M := StateCommit.mptMap, rootOf := rootHash H, reopen := fun r => (tries.lookup r).getD .empty, rootOf_empty := rfl }

/-- the live-side model store rebuilt from a trie (after a reset / restart). -/
def liveOf (t : Node) : Store.Store :=
  .cached (Store.Layer.fresh false)
    (.memB [] ((entries t).map fun e => ((0x70 : UInt8) :: fromNibbles e.1, some e.2)))

def step (s : St) (ws0 : List String) : St × String :=
  -- a deferred evaluation has the same specified answer as an immediate one
  let ws := match ws0 with
    | "dfindh" :: r => "findh" :: r
    | "dfindw" :: r => "findw" :: r
    | "dget" :: r => "get" :: r
    | l => l
  match ws with
  | ["case", k] => ({}, s!"case {k}")
  | "batch" :: h :: items =>
    match h.toNat?, parsePairs items with
    | some hn, some m =>
      let t := putBatch s.cur (mapToBatch (m.map fun e => (toNibbles e.1, e.2)))
      -- the live side: the same changes as writes to the DAO's store (a delete is a tombstone),
      -- flushed to the backend every third block
      let live1 := m.foldl (fun st e => st.put (0x70 :: e.1) e.2) s.live
      let live2 := if s.nBatch % 3 == 2 then live1.persist.1 else live1
      let tries := (rootHash H t, t) :: s.tries
      let mod := (StateCommit.Roots.step (trieOps tries) s.mod (.block m)).getD s.mod
      ({ s with cur := mod.m.mpt, hist := (hn, t) :: s.hist, live := live2, nBatch := s.nBatch + 1, mod := mod, tries := tries },
        Hex.encode (rootHash H t))
    | _, _ => (s, "bad-op")
  | ["sroot", h] =>
    match h.toNat? with
    | some hn =>
      match StateCommit.Roots.getStateRoot s.mod.m hn with
      | some r => (s, s!"{r.index} {Hex.encode r.root}")
      | none => (s, "none")
    | none => (s, "bad-op")
  | ["validated", h, root, v] =>
    match h.toNat?, Hex.decode root with
    | some hn, some rt =>
      -- the witness array of the signed root: one witness (only the count is compared)
      let mod := (StateCommit.Roots.step (trieOps s.tries) s.mod (.validated { index := hn, root := rt, wit := [1] } (v == "1"))).getD s.mod
      let vh := match StateCommit.Roots.kvGet mod.m.store StateCommit.Roots.validatedKey with
        | some b => Wire.leVal b
        | none => 0
      match StateCommit.Roots.getStateRoot mod.m hn with
      | some r => ({ s with mod := mod }, s!"{r.index} {Hex.encode r.root} w{if r.wit == [0] then 0 else 1} v{vh}")
      | none => ({ s with mod := mod }, "none")
    | _, _ => (s, "bad-op")
  | ["vheight"] =>
    (s, match StateCommit.Roots.kvGet s.mod.m.store StateCommit.Roots.validatedKey with
        | some b => toString (Wire.leVal b)
        | none => "0")
  | ["local"] => (s, s!"{s.mod.m.localHeight} {Hex.encode s.mod.m.currentLocal}")
  | ["reset", h] =>
    match h.toNat? with
    | some hn =>
      let mod := (StateCommit.Roots.step (trieOps s.tries) s.mod (.reset hn)).getD s.mod
      let t := mod.m.mpt
      ({ s with cur := t, hist := s.hist.filter (fun e => e.1 ≤ hn), live := liveOf t, mod := mod }, "ok")
    | none => (s, "bad-op")
  | ["flush", ok] =>
    -- a flush of the node's write cache (0 = the DB refused the write): a no-op on records, trie and storage
    let mod := (StateCommit.Roots.step (trieOps s.tries) s.mod (.flush (ok == "1"))).getD s.mod
    ({ s with mod := mod }, "ok")
  | ["resetrefused", _] => (s, "ok")      -- a refused reset: nothing changes
  | ["restart"] =>
    let mod := (StateCommit.Roots.step (trieOps s.tries) s.mod .restart).getD s.mod
    let t := mod.m.mpt
    ({ s with cur := t, live := liveOf t, mod := mod }, "ok")
  | ["get", h, k] =>
    match h.toNat?, Hex.decode k with
    | some hn, some kb =>
      match s.hist.lookup hn with
      | some t =>
        match lookup t (toNibbles kb) with
        | some v => (s, Hex.encode v)
        | none => (s, "none")
      | none => (s, "no-such-height")
    | _, _ => (s, "bad-op")
  | ["findl", id, pfx, opts] =>
    match Hex.decode id, Hex.decode pfx, opts.toInt? with
    | some idb, some p, some o => (s, showOut (StateCommit.Find.findLive s.live 0x70 (idOf idb) p o))
    | _, _, _ => (s, "bad-op")
  | ["findh", h, id, pfx, opts] =>
    match h.toNat?, Hex.decode id, Hex.decode pfx, opts.toInt? with
    | some hn, some idb, some p, some o =>
      match s.hist.lookup hn with
      | some t =>
        -- interop context's private layer over the historic DAO's MemCachedStore over TrieStore
        (s, showOut (StateCommit.Find.findHistoric t [Store.Layer.fresh true, Store.Layer.fresh false] 0x70 (idOf idb) p o))
      | none => (s, "no-such-height")
    | _, _, _, _ => (s, "bad-op")
  | "findw" :: h :: id :: pfx :: opts :: items =>
    match Hex.decode id, Hex.decode pfx, opts.toInt?, parsePairs items with
    | some idb, some p, some o, some wr =>
      let W := writeLayer (idOf idb) wr
      if h == "live" then
        (s, showOut (StateCommit.Find.findLive (.cached W s.live) 0x70 (idOf idb) p o))
      else
        match h.toNat?.bind (fun hn => s.hist.lookup hn) with
        | some t =>
          (s, showOut (StateCommit.Find.findHistoric t [W, Store.Layer.fresh false] 0x70 (idOf idb) p o))
        | none => (s, "no-such-height")
    | _, _, _, _ => (s, "bad-op")
  | "getw" :: h :: id :: key :: items =>
    match Hex.decode id, Hex.decode key, parsePairs items with
    | some idb, some kb, some wr =>
      let W := writeLayer (idOf idb) wr
      let shw (o : Option (Option Bytes)) : String :=
        match o with | some (some v) => Hex.encode v | some none => "none" | none => "fault"
      if h == "live" then
        (s, shw (StateCommit.Find.getSyscallLive (.cached W s.live) 0x70 (idOf idb) kb))
      else
        match h.toNat?.bind (fun hn => s.hist.lookup hn) with
        | some t => (s, shw (StateCommit.Find.getSyscallHistoric t [W, Store.Layer.fresh false] 0x70 (idOf idb) kb))
        | none => (s, "no-such-height")
    | _, _, _ => (s, "bad-op")
  | ["rpcget", h, id, key] =>
    match h.toNat?.bind (fun hn => s.hist.lookup hn), Hex.decode id, Hex.decode key with
    | some t, some idb, some kb =>
      match (rpcId t idb).bind fun id => StateCommit.Rpc.getState t id kb with
      | some v => (s, Hex.encode v)
      | none => (s, "none")
    | _, _, _ => (s, "bad-op")
  | ["rpcproof", h, id, key] =>
    match h.toNat?.bind (fun hn => s.hist.lookup hn), Hex.decode id, Hex.decode key with
    | some t, some idb, some kb =>
      match (rpcId t idb).bind fun id => StateCommit.Rpc.getProof H t id kb with
      | some (sk, ps) => (s, Hex.encode sk ++ " " ++ showNodes ps)
      | none => (s, "none")
    | _, _, _ => (s, "bad-op")
  | ["rpcverify", h, skey, nodes] =>
    match h.toNat?.bind (fun hn => s.hist.lookup hn), Hex.decode skey, parseNodes nodes with
    | some t, some sk, some ps =>
      match StateCommit.Rpc.verifyProof H (rootHash H t) (sk, ps) with
      | some v => (s, Hex.encode v)
      | none => (s, "invalid")
    | _, _, _ => (s, "bad-op")
  | ["rpcfind", h, id, pfx, key, n] =>
    match h.toNat?.bind (fun hn => s.hist.lookup hn), Hex.decode id, Hex.decode pfx, n.toNat? with
    | some t, some idb, some p, some cnt =>
      let k : Option (Option Bytes) := if key == "nil" then some none else (Hex.decode key).map some
      match k with
      | some ko =>
        match rpcId t idb with
        | some id => (s, showFind (StateCommit.Rpc.findStates t id p ko cnt))
        | none => (s, "err:unknowncontract")
      | none => (s, "bad-op")
    | _, _, _, _ => (s, "bad-op")
  | _ => (s, "bad-op")

def main : IO Unit := Proto.run ({} : St) step
