/-
Driver for stream `roots` (C03): replays each block's storage change set on the MPT model and
prints the model's state root (real double SHA-256), so model and node agree on the 32 bytes at
every height; `get` reads the model trie of a given height.

  case <k>                          -> case <k>            (reset: empty trie, no heights)
  batch <h> <key> <val|del> ...     -> <root hex>          MapToMPTBatch + PutBatch on the trie of h-1
  get <h> <key>                     -> <val hex> | none
-/
import NeoModel.Base.Proto
import NeoModel.Base.Sha256
import NeoModel.Model.Mpt
open NeoModel NeoModel.Mpt

def H : Bytes → Bytes := Sha256.hash2

structure St where
  cur : Node := .empty
  hist : List (Nat × Node) := []

def parsePairs : List String → Option (List KV)
  | [] => some []
  | k :: v :: rest => do
    let kb ← Hex.decode k
    let ov ← (if v == "del" then some none else (Hex.decode v).map some)
    let r ← parsePairs rest
    pure ((toNibbles kb, ov) :: r)
  | _ => none

def step (s : St) (ws : List String) : St × String :=
  match ws with
  | ["case", k] => ({}, s!"case {k}")
  | "batch" :: h :: items =>
    match h.toNat?, parsePairs items with
    | some hn, some m =>
      let t := putBatch s.cur (mapToBatch m)
      ({ cur := t, hist := (hn, t) :: s.hist }, Hex.encode (rootHash H t))
    | _, _ => (s, "bad-op")
  | ["get", h, k] =>
    match h.toNat?, Hex.decode k with
    | some hn, some kb =>
      match s.hist.lookup hn with
      | some t =>
        match lookup t (toNibbles kb) with
        | some v => (s, Hex.encode v)
        | none => (s, "none")
      | none => (s, "no-such-height")
    | _, _ => (s, "bad-op")
  | _ => (s, "bad-op")

def main : IO Unit := Proto.run ({} : St) step
