/-
Driver for stream `mpt` (C10): one op per line, one observation per line. Keys/values are hex
(`-` = empty). The state is the model's fully expanded trie AND the in-memory representation
with HashNodes over a node store (Model/Mpt/Lazy*.lean), both driven by every line: put / del /
batch / get / root / proof are answered from the lazy model (errors included) and cross-checked against the
expanded one (`MISMATCH…` if they differ, which Props/C10Lazy.lean proves impossible while every
node can be loaded); seek is answered by the lazy traversal from `HashNode(root)`, find by the lazy Find (which loads nodes in place). `H` is the real double
SHA-256, so roots and proofs are compared with the implementation byte for byte. The node store is
a hash map from node hash to bytes (the model's `LStore` is its lookup function); `drop` removes a
record, after which only the lazy model is meaningful (the harness sends only put / del / batch /
get / root from then on).

  case <k>                         -> case <k>                  (reset to the empty trie)
  put <key> <val>                  -> ok | err                  trie.go:146-165 (incl. the argument checks)
  del <key>                        -> ok | err                  trie.go:284-295
  batch <key>:<val|x> ...          -> ok <n>                    MapToMPTBatch + PutBatch (x = delete)
  flush | collapse <d> | reopen    -> ok                        Flush; Flush+Collapse(d); Flush+NewTrie(HashNode(root))
  root (right after a failed del)  -> root <hex>                StateRoot answered from the node caches (Model/Mpt/Cache.lean `cdel`, `croot`)
  drop <hash>                      -> ok                        the DataMPT record of that hash is deleted from the store
  root                             -> root <hex>                StateRoot
  get <key>                        -> val <hex> | none | err
  find <prefix> <from|nil> <max>   -> find <k>=<v>,... | err    Trie.Find (stop condition as written: `findX`)
  seek <prefix> <start> <0|1>      -> seek <k>=<v>,...          TrieStore.Seek (keys without the 0x70 byte)
  proof <key>                      -> proof <p1>,<p2>,... | err GetProof
  verify <root> <key> <p1>,<p2>..  -> ok <val> | fail | loop   VerifyProof (`_` = no proofs)
-/
import NeoModel.Base.Proto
import NeoModel.Base.Sha256
import NeoModel.Model.Mpt
import NeoModel.Model.Mpt.Traverse
import NeoModel.Model.Mpt.Proof
import NeoModel.Model.Mpt.LazyBatch
import NeoModel.Model.Mpt.FindExact
import NeoModel.Model.Mpt.Guards
import NeoModel.Model.Mpt.LazySeek
import NeoModel.Model.Mpt.LazyFind
import NeoModel.Model.Mpt.Cache
import Std.Data.HashMap
open NeoModel NeoModel.Mpt

def H : Bytes → Bytes := Sha256.hash2

def hexList (l : List Bytes) : String :=
  if l.isEmpty then "_" else ",".intercalate (l.map Hex.encode)

def parseHexList (s : String) : Option (List Bytes) :=
  if s == "_" then some [] else (s.splitOn ",").mapM Hex.decode

def parseKV (s : String) : Option KV :=
  match s.splitOn ":" with
  | [k, v] =>
    match Hex.decode k with
    | none => none
    | some kb =>
      if v == "x" then some (toNibbles kb, none)
      else (Hex.decode v).map fun vb => (toNibbles kb, some vb)
  | _ => none

def showKVs (pre : Bytes) (l : List (Path × Val)) : String :=
  if l.isEmpty then "-" else
    ",".intercalate (l.map fun e => Hex.encode (pre ++ fromNibbles e.1) ++ "=" ++ Hex.encode e.2)

/-- driver state: expanded trie, in-memory representation, node store, "a record was dropped". -/
structure DSt where
  t : Node
  l : LNode
  st : Std.HashMap Bytes Bytes
  dropped : Bool
  /-- what `StateRoot()` answers from the node caches right after a failed Delete (Model/Mpt/Cache.lean):
  the caches were right before (the harness sends this root line only after the FIRST failed
  Delete / PutBatch of a case), the failed `cdel` leaves the ancestors' caches as they were -/
  staleRoot : Option Bytes := none

def DSt.init : DSt := ⟨.empty, .empty, {}, false, none⟩

/-- the model's store = the map's lookup function. -/
def DSt.store (s : DSt) : LStore := fun h => s.st.get? h

/-- fuel of the lazy operations (Props/C10Lazy.lean: `2·height t + 3` suffices; keys are ≤ 136 nibbles). -/
def fuel : Nat := 2000

/-- `Flush`: the records of all in-memory nodes are written (Model/Mpt/Lazy.lean `lflush`). -/
def DSt.flush (s : DSt) : DSt :=
  { s with st := (lnodes H s.l).foldl (fun m e => m.insert e.1 e.2) s.st }

def step (s : DSt) (ws : List String) : DSt × String :=
  let t := s.t
  match ws with
  | ["case", k] => (DSt.init, s!"case {k}")
  | ["put", k, v] =>
    match Hex.decode k, Hex.decode v with
    | some kb, some vb =>
      if putGuard kb.length vb.length then (s, "err")
      else
        let r := lput s.store fuel s.l (toNibbles kb) vb
        ({ s with l := r.1, t := if s.dropped then t else put t (toNibbles kb) vb, staleRoot := none }, if r.2 then "err" else "ok")
    | _, _ => (s, "bad-op")
  | ["del", k] =>
    match Hex.decode k with
    | some kb =>
      if keyGuard kb.length then (s, "err")
      else
        let r := ldel s.store fuel s.l (toNibbles kb)
        let stale := if r.2 then some (croot H (cdel H s.store fuel (cfill H s.l) (toNibbles kb)).1) else none
        ({ s with l := r.1, t := if s.dropped then t else delete t (toNibbles kb), staleRoot := stale },
          if r.2 then "err" else "ok")
    | none => (s, "bad-op")
  | "batch" :: items =>
    match items.mapM parseKV with
    | some m =>
      let r := lputBatch s.store fuel s.l (mapToBatch m)
      -- a value longer than MaxValueLength (PutBatch does not check, the decoder does): the expanded trie is
      -- not `Bounded` any more, the refinement theorems do not apply — only the lazy model answers from here
      let big := m.any fun e => match e.2 with | some v => decide (v.length > maxValueLength) | none => false
      ({ s with l := r.1, t := if s.dropped then t else putBatch t (mapToBatch m), staleRoot := none,
                dropped := s.dropped || big },
        if r.2 then "err" else s!"ok {m.length}")
    | none => (s, "bad-op")
  | ["flush"] => (s.flush, "ok")
  | ["collapse", d] =>
    match d.toNat? with
    | some n => let s' := s.flush; ({ s' with l := lcollapse H n s'.l }, "ok")
    | none => (s, "bad-op")
  | ["reopen"] => let s' := s.flush; ({ s' with l := lreopen H s'.l }, "ok")
  | ["drop", h] =>
    match Hex.decode h with
    | some hb => ({ s with st := s.st.erase hb, dropped := true }, "ok")
    | none => (s, "bad-op")
  | ["root"] =>
    let r := match s.staleRoot with
      | some h => h
      | none => lrootHash H s.l
    if !s.dropped && r != rootHash H t then (s, "MISMATCH-root " ++ Hex.encode r ++ " " ++ Hex.encode (rootHash H t))
    else (s, "root " ++ Hex.encode r)
  | ["get", k] =>
    match Hex.decode k with
    | some kb =>
      if keyGuard kb.length then (s, "err")
      else
        match lget s.store fuel s.l (toNibbles kb) with
        | some x =>
          if !s.dropped && lookup t (toNibbles kb) != some x.2 then (s, "MISMATCH-get")
          else ({ s with l := x.1 }, "val " ++ Hex.encode x.2)
        | none =>
          if !s.dropped && (lookup t (toNibbles kb)).isSome then (s, "MISMATCH-get")
          else (s, "none")
    | none => (s, "bad-op")
  | ["find", p, f, m] =>
    match Hex.decode p, (if f == "nil" then some none else (Hex.decode f).map some), m.toNat? with
    | some pb, some fo, some mx =>
      if findGuard pb.length (fo.getD []).length then (s, "err")
      else
        -- answered by the lazy model: Find loads nodes of the trie in place (prefix path, traversal up
        -- to the stop), the model keeps them; cross-checked against `findX` on the expanded trie
        let r := lfind s.store fuel s.l (toNibbles pb) (fo.map toNibbles) mx
        if !s.dropped && decide (r.2 ≠ findX t (toNibbles pb) (fo.map toNibbles) mx) then (s, "MISMATCH-find")
        else
          match r.2 with
          | some l => ({ s with l := r.1 }, "find " ++ showKVs pb l)
          | none => ({ s with l := r.1 }, "err")
    | _, _, _ => (s, "bad-op")
  | ["seek", p, st, b] =>
    match Hex.decode p, Hex.decode st with
    | some pb, some sb =>
      -- a TrieStore is `HashNode(StateRoot())` over the store (trie_store.go:26-35): answered by the lazy
      -- traversal from that single HashNode, cross-checked against `seek` on the expanded trie
      match lseek s.store fuel (lreopen H s.l) (toNibbles pb) (toNibbles sb) (b == "1") with
      | some r =>
        if !s.dropped && decide (r ≠ seek t (toNibbles pb) (toNibbles sb) (b == "1")) then (s, "MISMATCH-seek")
        else (s, "seek " ++ showKVs pb r)
      | none => (s, "panic")
    | _, _ => (s, "bad-op")
  | ["proof", k] =>
    match Hex.decode k with
    | some kb =>
      if keyGuard kb.length then (s, "err")
      else
        -- answered by the lazy model (GetProof loads the HashNodes on the path and keeps them,
        -- proof.go:22-25 `t.root = r`), cross-checked against the expanded trie
        match lgetProof H s.store fuel s.l (toNibbles kb) with
        | some x =>
          if !s.dropped && getProof H t (toNibbles kb) != some x.2 then (s, "MISMATCH-proof")
          else ({ s with l := x.1 }, "proof " ++ hexList x.2)
        | none =>
          if !s.dropped && (getProof H t (toNibbles kb)).isSome then (s, "MISMATCH-proof")
          else (s, "err")
    | none => (s, "bad-op")
  | ["verify", r, k, ps] =>
    match Hex.decode r, Hex.decode k, parseHexList ps with
    | some rb, some kb, some pl =>
      match verifyProof H rb kb pl with
      | .found v => (s, "ok " ++ Hex.encode v)
      | .notFound => (s, "fail")
      | .loop => (s, "loop")
    | _, _, _ => (s, "bad-op")
  | _ => (s, "bad-op")

def main : IO Unit := Proto.run DSt.init step
