/-
Driver for stream `mpt` (C10): one op per line, one observation per line. Keys/values are hex
(`-` = empty). The state is the model's fully expanded trie; `H` is the real double SHA-256, so
roots and proofs are compared with the implementation byte for byte.

  case <k>                         -> case <k>                  (reset to the empty trie)
  put <key> <val>                  -> ok | err                  trie.go:146-165 (incl. the argument checks)
  del <key>                        -> ok | err                  trie.go:284-295
  batch <key>:<val|x> ...          -> ok <n>                    MapToMPTBatch + PutBatch (x = delete)
  flush | collapse <d> | reopen    -> ok                        no change of the expanded trie
  root                             -> root <hex>                StateRoot
  get <key>                        -> val <hex> | none | err
  find <prefix> <from|nil> <max>   -> find <k>=<v>,... | err    Trie.Find
  seek <prefix> <start> <0|1>      -> seek <k>=<v>,...          TrieStore.Seek (keys without the 0x70 byte)
  proof <key>                      -> proof <p1>,<p2>,... | err GetProof
  verify <root> <key> <p1>,<p2>..  -> ok <val> | fail | loop   VerifyProof (`_` = no proofs)
-/
import NeoModel.Base.Proto
import NeoModel.Base.Sha256
import NeoModel.Model.Mpt
import NeoModel.Model.Mpt.Traverse
import NeoModel.Model.Mpt.Proof
open NeoModel NeoModel.Mpt

def H : Bytes → Bytes := Sha256.hash2

def hexList (l : List Bytes) : String :=
  if l.isEmpty then "_" else ",".intercalate (l.map Hex.encode)

def parseHexList (s : String) : Option (List Bytes) :=
  if s == "_" then some [] else (s.splitOn ",").mapM Hex.decode

def parseKV (s : String) : Option KV :=
  match s.splitOn ":" with
  | [k, v] =>
    match Hex.decode k with
    | none => none
    | some kb =>
      if v == "x" then some (toNibbles kb, none)
      else (Hex.decode v).map fun vb => (toNibbles kb, some vb)
  | _ => none

def showKVs (pre : Bytes) (l : List (Path × Val)) : String :=
  if l.isEmpty then "-" else
    ",".intercalate (l.map fun e => Hex.encode (pre ++ fromNibbles e.1) ++ "=" ++ Hex.encode e.2)

def step (t : Node) (ws : List String) : Node × String :=
  match ws with
  | ["case", k] => (.empty, s!"case {k}")
  | ["put", k, v] =>
    match Hex.decode k, Hex.decode v with
    | some kb, some vb =>
      if kb.length = 0 ∨ kb.length > maxKeyLength ∨ vb.length > maxValueLength then (t, "err")
      else (put t (toNibbles kb) vb, "ok")
    | _, _ => (t, "bad-op")
  | ["del", k] =>
    match Hex.decode k with
    | some kb => if kb.length > maxKeyLength then (t, "err") else (delete t (toNibbles kb), "ok")
    | none => (t, "bad-op")
  | "batch" :: items =>
    match items.mapM parseKV with
    | some m => (putBatch t (mapToBatch m), s!"ok {m.length}")
    | none => (t, "bad-op")
  | ["flush"] => (t, "ok")
  | ["collapse", _] => (t, "ok")
  | ["reopen"] => (t, "ok")
  | ["root"] => (t, "root " ++ Hex.encode (rootHash H t))
  | ["get", k] =>
    match Hex.decode k with
    | some kb =>
      if kb.length > maxKeyLength then (t, "err")
      else
        match lookup t (toNibbles kb) with
        | some v => (t, "val " ++ Hex.encode v)
        | none => (t, "none")
    | none => (t, "bad-op")
  | ["find", p, f, m] =>
    match Hex.decode p, (if f == "nil" then some none else (Hex.decode f).map some), m.toNat? with
    | some pb, some fo, some mx =>
      if pb.length > maxKeyLength ∨ (fo.getD []).length > maxKeyLength - pb.length then (t, "err")
      else
        match find t (toNibbles pb) (fo.map toNibbles) mx with
        | some l => (t, "find " ++ showKVs pb l)
        | none => (t, "err")
    | _, _, _ => (t, "bad-op")
  | ["seek", p, s, b] =>
    match Hex.decode p, Hex.decode s with
    | some pb, some sb => (t, "seek " ++ showKVs pb (seek t (toNibbles pb) (toNibbles sb) (b == "1")))
    | _, _ => (t, "bad-op")
  | ["proof", k] =>
    match Hex.decode k with
    | some kb =>
      if kb.length > maxKeyLength then (t, "err")
      else
        match getProof H t (toNibbles kb) with
        | some ps => (t, "proof " ++ hexList ps)
        | none => (t, "err")
    | none => (t, "bad-op")
  | ["verify", r, k, ps] =>
    match Hex.decode r, Hex.decode k, parseHexList ps with
    | some rb, some kb, some pl =>
      match verifyProof H rb kb pl with
      | .found v => (t, "ok " ++ Hex.encode v)
      | .notFound => (t, "fail")
      | .loop => (t, "loop")
    | _, _, _ => (t, "bad-op")
  | _ => (t, "bad-op")

def main : IO Unit := Proto.run Node.empty step
