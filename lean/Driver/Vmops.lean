/-
Driver for stream `vmops` (C13): runs the NeoVM specification model on one script per line.

  case <k>                                         -> case <k>
  skip <k>                                         -> skip <k>
  conv <fn> <arg>                                  -> ok <dec> | ok <hex> | err   (stackitem/conversion.go:
        fn = int64 int32 uint8 uint16 uint32 uint64 string uint160 uint256; TryBool/TryBytes/TryInteger: bool bytes integer)
  run <gasLimit|-1> <priced 0|1> <script-hex> <arg>*  -> HALT gas=<n> [<item> ...]   (top of stack first)
                                                     | FAULT gas=<n>
                                                     | TIMEOUT
  runm <gasLimit|-1> <priced 0|1> <n> (<rv>:<script-hex>)^n <arg>*   -> same answers: n scripts loaded one
        after the other (LoadScript*: the first is the entry script at the bottom of the invocation stack, the
        last one executes first); rv = -1 (any number of results), 0 or 1 (checked when the script returns into
        the one below); the arguments go on the evaluation stack of the last script; a Pointer belongs to the
        script it was made in (scripts with identical bytes have the same hash = the same identity)
  arg (pushed in order, the last one ends on top):  n | b:0 | b:1 | i:<dec> | s:<hex> | f:<hex> | x (an InteropInterface)
  item:  N | B0 | B1 | I<dec> | S<hex> | S~<len>:<sha256 prefix>  (byte strings longer than 40 bytes)
         F#k=<bytes>  A#k[..]  T#k[..]  M#k{key:value,..}  (k = number of the reference object by
         first occurrence; a repeated object prints only `F#k`/`A#k`/…)  P<pos>  X
  price = coefficient of pkg/core/fee/opcode.go (Generated/Opcodes.lean), gas limit in the same unit.
-/
import NeoModel.Base.Proto
import NeoModel.Base.Sha256
import NeoModel.Model.Vm
import NeoModel.Generated.Opcodes
open NeoModel NeoModel.Vm

def showBytes (b : Bytes) : String :=
  if b.length ≤ 40 then Hex.encode b
  else s!"~{b.length}:{Hex.encode ((Sha256.hash b).take 8)}"

/-- printer state: heap ids already printed, in order of first occurrence. -/
abbrev Seen := List Nat

def label (seen : Seen) (id : Nat) : Option Nat :=
  let rec go : List Nat → Nat → Option Nat
    | [], _ => none
    | x :: r, n => if x == id then some n else go r n.succ
  go seen.reverse 0

mutual
partial def showItem (h : Heap) (seen : Seen) (x : Item) : String × Seen :=
  match x with
  | .null => ("N", seen)
  | .bool b => (if b then "B1" else "B0", seen)
  | .int n => (s!"I{n.val}", seen)
  | .bytes b => ("S" ++ showBytes b, seen)
  | .pointer p _ => (s!"P{p}", seen)
  | .interop _ => ("X", seen)
  | .buffer id =>
    match label seen id with
    | some k => (s!"F#{k}", seen)
    | none =>
      let k := seen.length
      (s!"F#{k}=" ++ showBytes ((h.getBuf id).getD []), id :: seen)
  | .array id => showSeq h seen "A" id
  | .struct id => showSeq h seen "T" id
  | .map id =>
    match label seen id with
    | some k => (s!"M#{k}", seen)
    | none =>
      let k := seen.length
      let seen := id :: seen
      let (parts, seen) := ((h.getEntries id).getD []).foldl (fun (acc : List String × Seen) kv =>
        let (ks, s1) := showItem h acc.2 kv.1
        let (vs, s2) := showItem h s1 kv.2
        (acc.1 ++ [ks ++ ":" ++ vs], s2)) ([], seen)
      (s!"M#{k}" ++ "{" ++ ",".intercalate parts ++ "}", seen)

partial def showSeq (h : Heap) (seen : Seen) (tag : String) (id : Nat) : String × Seen :=
  match label seen id with
  | some k => (s!"{tag}#{k}", seen)
  | none =>
    let k := seen.length
    let seen := id :: seen
    let (parts, seen) := ((h.getItems id).getD []).foldl (fun (acc : List String × Seen) x =>
      let (s, s1) := showItem h acc.2 x
      (acc.1 ++ [s], s1)) ([], seen)
    (s!"{tag}#{k}[" ++ ",".intercalate parts ++ "]", seen)
end

def showStack (h : Heap) (st : List Item) : String :=
  let (parts, _) := st.foldl (fun (acc : List String × Seen) x =>
    let (s, s1) := showItem h acc.2 x
    (acc.1 ++ [s], s1)) ([], [])
  "[" ++ " ".intercalate parts ++ "]"

def parseArg (h : Heap) (a : String) : Option (Heap × Item) :=
  if a == "n" then some (h, .null)
  else if a == "b:0" then some (h, .bool false)
  else if a == "b:1" then some (h, .bool true)
  else if a == "x" then some (h, .interop 0)
  else if a.startsWith "i:" then ((a.drop 2).toString.toInt?.bind checkInt).map fun n => (h, .int n)
  else if a.startsWith "s:" then (Hex.decode (a.drop 2).toString).map fun b => (h, .bytes b)
  else if a.startsWith "f:" then (Hex.decode (a.drop 2).toString).map fun b =>
    let (h, id) := h.alloc (.buf b); (h, .buffer id)
  else none

def parseArgs : Heap → List String → List Item → Option (Heap × List Item)
  | h, [], acc => some (h, acc)
  | h, a :: r, acc =>
    match parseArg h a with
    | some (h, x) => parseArgs h r (x :: acc)     -- later arguments end nearer the top
    | none => none

def priceOf (b : UInt8) : Nat := NeoModel.Generated.Opcodes.prices.getD b.toNat 0

def fuelSteps : Nat := 2000000

/-- fast hex decoding straight into an array (scripts can be 260 kB of hex). -/
def hexVal (c : UInt8) : Option UInt8 :=
  if 48 ≤ c && c ≤ 57 then some (c - 48)
  else if 97 ≤ c && c ≤ 102 then some (c - 87)
  else if 65 ≤ c && c ≤ 70 then some (c - 55)
  else none

def decodeHexArray (s : String) : Option (Array UInt8) :=
  if s == "-" then some #[] else
  let b := s.toUTF8
  if b.size % 2 != 0 then none else
  let n := b.size / 2
  let rec go (i : Nat) (fuel : Nat) (acc : Array UInt8) : Option (Array UInt8) :=
    match fuel with
    | 0 => some acc
    | fuel+1 =>
      match hexVal (b.get! (2*i)), hexVal (b.get! (2*i+1)) with
      | some x, some y => go (i+1) fuel (acc.push (x * 16 + y))
      | _, _ => none
  go 0 n (Array.mkEmpty n)

def runVm (gas priced script : String) (args : List String) : Option Vm :=
  match gas.toInt?, decodeHexArray script, parseArgs #[] args [] with
  | some g, some prog, some (h, st) =>
    let limit : Option Nat := if g < 0 then none else some g.toNat
    let cfg : Cfg := { price := if priced == "1" then some priceOf else none }
    some (run cfg fuelSteps (Vm.load prog st limit h))
  | _, _, _ => none

def showVm : Option Vm → String
  | some v =>
    match v.state with
    | .halt => s!"HALT gas={v.gas} " ++ showStack v.heap v.result
    | .fault => s!"FAULT gas={v.gas}"
    | _ => "TIMEOUT"
  | none => "bad-op"

def runLine (gas priced script : String) (args : List String) : String :=
  showVm (runVm gas priced script args)

/-- `<rv>:<hex>` -/
def parseScript (w : String) : Option (Option Nat × Array UInt8) :=
  match w.splitOn ":" with
  | [rv, hex] =>
    match rv.toInt?, decodeHexArray hex with
    | some r, some p => some (if r < 0 then none else some r.toNat, p)
    | _, _ => none
  | _ => none

/-- frames for scripts loaded in order (`acc` = frames so far, top first). The identity of a script is
the index of the first script with the same bytes (Go: the script hash). -/
def mkFrames (all : List (Option Nat × Array UInt8)) : List (Option Nat × Array UInt8) → List Frame → List Frame
  | [], acc => acc
  | (rv, p) :: rest, acc =>
    let sid := (all.findIdx? (fun q => q.2 == p)).getD 0
    mkFrames all rest ({ prog := p, scriptId := sid, retCount := rv, calls := [{ ip := 0 }] } :: acc)

def runVmMulti (gas priced n : String) (rest : List String) : Option Vm :=
  match gas.toInt?, n.toNat? with
  | some g, some cnt =>
    if cnt = 0 ∨ cnt > rest.length then none else
    match (rest.take cnt).mapM parseScript, parseArgs #[] (rest.drop cnt) [] with
    | some scripts, some (h, st) =>
      let limit : Option Nat := if g < 0 then none else some g.toNat
      let cfg : Cfg := { price := if priced == "1" then some priceOf else none }
      match mkFrames scripts scripts [] with
      | top :: below =>
        let v : Vm := { frames := { top with estack := st } :: below, gasLimit := limit, heap := h }
        some (run cfg fuelSteps v)
      | [] => none
    | _, _ => none
  | _, _ => none

/-- does the heap contain a cycle among compound objects (reachable or garbage)? colours:
0 = unvisited, 1 = on the DFS path, 2 = done. -/
partial def heapHasCycle (h : Heap) : Bool :=
  let kids (id : Nat) : List Nat :=
    match h[id]? with
    | some o => o.children.filterMap Item.compoundId
    | none => []
  let rec visit (id : Nat) (col : Array UInt8) : Bool × Array UInt8 :=
    match col.getD id 2 with
    | 1 => (true, col)
    | 2 => (false, col)
    | _ =>
      let col := col.setIfInBounds id 1
      let (cyc, col) := (kids id).foldl (fun (acc : Bool × Array UInt8) k =>
        if acc.1 then acc else visit k acc.2) (false, col)
      (cyc, col.setIfInBounds id 2)
  let (cyc, _) := (List.range h.size).foldl (fun (acc : Bool × Array UInt8) id =>
    if acc.1 then acc else visit id acc.2) (false, Array.replicate h.size 0)
  cyc

def step (ws : List String) : String :=
  match ws with
  | ["case", k] => s!"case {k}"
  | ["skip", k] => s!"skip {k}"     -- a case the harness keeps out of the correspondence (known finding)
  | "run" :: gas :: priced :: script :: args => runLine gas priced script args
  | "runx" :: gas :: priced :: script :: args =>
    -- extended answer for the harness' own oracle: reference count of the specification and
    -- whether any cycle of compound objects was ever built (garbage included)
    match runVm gas priced script args with
    | some v => runLine gas priced script args ++ s!" | refs={reach v} cyc={if heapHasCycle v.heap then 1 else 0}"
    | none => "bad-op"
  | "runm" :: gas :: priced :: n :: rest => showVm (runVmMulti gas priced n rest)
  | "runmx" :: gas :: priced :: n :: rest =>
    match runVmMulti gas priced n rest with
    | some v => showVm (some v) ++ s!" | refs={reach v} cyc={if heapHasCycle v.heap then 1 else 0}"
    | none => "bad-op"
  | "whym" :: gas :: priced :: n :: rest =>
    match runVmMulti gas priced n rest with
    | some v => s!"{repr v.state} {v.faultMsg} refs={reach v}"
    | none => "bad-op"
  | ["conv", fn, a] =>
    -- stackitem/conversion.go on one primitive item
    match parseArg #[] a with
    | none => "bad-op"
    | some (h, x) =>
      let showI (o : Option Int) : String := match o with | some n => s!"ok {n}" | none => "err"
      let showB (o : Option Bytes) : String := match o with | some b => "ok " ++ Hex.encode b | none => "err"
      match fn with
      | "int64" => showI (x.toIntBounded (-(2:Int)^63) ((2:Int)^63 - 1))
      | "int32" => showI (x.toIntBounded (-(2:Int)^31) ((2:Int)^31 - 1))
      | "uint8" => showI (x.toIntBounded 0 255)
      | "uint16" => showI (x.toIntBounded 0 65535)
      | "uint32" => showI (x.toIntBounded 0 ((2:Int)^32 - 1))
      | "uint64" => showI (x.toIntBounded 0 ((2:Int)^64 - 1))
      | "string" => showB (x.toUtf8 h)
      | "uint160" => showB (x.toFixedBytes h 20)
      | "uint256" => showB (x.toFixedBytes h 32)
      | "bool" => match x.toBool with | some b => s!"ok {if b then 1 else 0}" | none => "err"
      | "bytes" => showB (x.toBytes h)
      | "integer" => showI x.toInteger
      | _ => "bad-op"
  | "why" :: gas :: priced :: script :: args =>
    -- debugging aid: the fault message of the model
    match runVm gas priced script args with
    | some v => s!"{repr v.state} {v.faultMsg} refs={reach v}"
    | none => "bad-op"
  | _ => "bad-op"

/-- own line loop (Proto.run goes through `List Char`, too slow for 260 kB lines). -/
partial def loop (hIn hOut : IO.FS.Stream) : IO Unit := do
  let line ← hIn.getLine
  if line.isEmpty then
    hOut.flush
    return ()
  let line := (line.dropEndWhile (fun c => c == '\n' || c == '\r')).toString
  let ws := (line.splitOn " ").filter (fun w => !w.isEmpty)
  hOut.putStrLn (step ws)
  loop hIn hOut

def main : IO Unit := do
  let hIn ← IO.getStdin
  let hOut ← IO.getStdout
  loop hIn hOut
