/-
Driver for stream `fees` (C07). One op per line, one observation per line.

  case <k>                                   -> case <k>
  emitint <dec>                              -> <hex>                       (`emitInt`)
  emitbytes <hex>                            -> <hex>                       (`emitBytes`)
  sigscript <key-hex>                        -> <hex>                       (`sigScript`)
  multisig <m> <keys-hex (33 bytes each)>    -> <hex> | err                 (`multisigScript`)
  parse <script-hex>                         -> sig | multisig <m> <n> | none
  calc <base> <script-hex>                   -> <fee> <size>                (`calculate`)
  wsize <inv-hex> <ver-hex>                  -> <len of the encoded witness>
  wcost <base> <gorgon> <inv-hex> <ver-hex>  -> halt <picoGAS> <depth> | fault   (`runWitness`, no limit, every signature valid)
  vw <base> <maxvergas> <gorgon> <hashok> <gas> <pairs-hex (key‖sig, 97 bytes each)> <inv-hex> <ver-hex>
                                             -> ok <gas> | invsig <gas> | fail   (`verifyWitness`)
-/
import NeoModel.Base.Proto
import NeoModel.Model.Fees
open NeoModel NeoModel.Fees

def chunks (n : Nat) : Nat → Bytes → List Bytes
  | 0, _ => []
  | fuel+1, bs => if bs.isEmpty then [] else bs.take n :: chunks n fuel (bs.drop n)

def keyOk (k : Bytes) : Bool := k.length == 33 && (k.headD 0 == 2 || k.headD 0 == 3)

def bit (s : String) : Option Bool := if s == "1" then some true else if s == "0" then some false else none

def step (s : Unit) (ws : List String) : Unit × String :=
  match ws with
  | ["case", k] => (s, s!"case {k}")
  | ["emitint", n] =>
    match n.toNat? with
    | some v => (s, Hex.encode (emitInt v))
    | none => (s, "bad-op")
  | ["emitbytes", h] =>
    match Hex.decode h with
    | some b => (s, Hex.encode (emitBytes b))
    | none => (s, "bad-op")
  | ["sigscript", h] =>
    match Hex.decode h with
    | some b => (s, Hex.encode (sigScript b))
    | none => (s, "bad-op")
  | ["multisig", m, h] =>
    match m.toNat?, Hex.decode h with
    | some m, some b =>
      match multisigScript m (chunks 33 b.length b) with
      | some sc => (s, Hex.encode sc)
      | none => (s, "err")
    | _, _ => (s, "bad-op")
  | ["parse", h] =>
    match Hex.decode h with
    | some b =>
      if isSignatureContract b then (s, "sig")
      else match parseMultiSig b with
        | some (m, pubs) => (s, s!"multisig {m} {pubs.length}")
        | none => (s, "none")
    | none => (s, "bad-op")
  | ["calc", base, h] =>
    match base.toNat?, Hex.decode h with
    | some base, some b => let r := calculate base b; (s, s!"{r.1} {r.2}")
    | _, _ => (s, "bad-op")
  | ["wsize", i, v] =>
    match Hex.decode i, Hex.decode v with
    | some i, some v => (s, s!"{(encodeWitness i v).length}")
    | _, _ => (s, "bad-op")
  | ["wcost", base, g, i, v] =>
    match base.toNat?, bit g, Hex.decode i, Hex.decode v with
    | some base, some g, some i, some v =>
      match runWitness ⟨base, none, g, keyOk, fun _ _ => true⟩ i v with
      | some st => (s, s!"halt {st.gas} {st.stack.length}")
      | none => (s, "fault")
    | _, _, _, _ => (s, "bad-op")
  | ["vw", base, mvg, g, hok, gas, pairs, i, v] =>
    match base.toNat?, mvg.toNat?, bit g, bit hok, gas.toNat?, Hex.decode pairs, Hex.decode i, Hex.decode v with
    | some base, some mvg, some g, some hok, some gas, some pairs, some i, some v =>
      let ps := chunks 97 pairs.length pairs
      let verify := fun (k sg : Bytes) => ps.contains (k ++ sg)
      match verifyWitness base mvg g keyOk verify hok gas i v with
      | .ok c => (s, s!"ok {c}")
      | .invalidSig c => (s, s!"invsig {c}")
      | .fail => (s, "fail")
    | _, _, _, _, _, _, _, _ => (s, "bad-op")
  | _ => (s, "bad-op")

def main : IO Unit := Proto.run () step
