/-
Driver for stream `fees` (C07). One op per line, one observation per line.

  case <k>                                   -> case <k>
  emitint <dec>                              -> <hex>                       (`emitInt`)
  emitbytes <hex>                            -> <hex>                       (`emitBytes`)
  sigscript <key-hex>                        -> <hex>                       (`sigScript`)
  multisig <m> <keys-hex (33 bytes each)>    -> <hex> | err                 (`multisigScript`)
  parse <script-hex>                         -> sig | multisig <m> <n> | none
  calc <base> <script-hex>                   -> <fee> <size>                (`calculate`)
  wsize <inv-hex> <ver-hex>                  -> <len of the encoded witness>
  wcost <base> <gorgon> <pairs-hex> <inv-hex> <ver-hex>
                                             -> halt <datoshi> <depth> | fault   (`runWitness`, no limit; pairs = valid key‖signature, 97 bytes each)
  vw <base> <maxvergas> <gorgon> <hashok> <gas> <pairs-hex (key‖sig, 97 bytes each)> <inv-hex> <ver-hex>
                                             -> ok <gas> | invsig <gas> | fail   (`verifyWitness`)
  admit <chain> <rec> <tx> <signers> <attrs> <pool>   -> ok | err:<class>      (`Admission.admitWire`)
     chain   := height maxVUBInc maxBlockSysFee feePerByte base maxVerGas mtb gorgon p2p reserved notaryActive
                feeHP feeOR feeNVB feeCF feeNA committee oracle|- notary nblocked acc*
     rec     := N | B | T | S index k (acc idx)^k
     tx      := version scriptLen scriptOk sysFee netFee vub size
     signers := n (acc scopeNone wit)^n     wit := W hashOk pairs inv ver | M | Q cost o|i|f | NV cost sigOk deposit|- | OV cost
     attrs   := k attr^k   attr := HP | OR id scriptOk requestOk gasForResponse | NVB h | CF hashid onchain | NA nkeys | OT typ
     pool    := dup conflictsAttrErr balance feeSum oracleErr full
  numbers decimal, flags 0|1, hash id 0 is the transaction itself.
  pack <maxTx> <maxBlockSize> <maxBlockSysFee> <stateRootInHeader> <validator keys hex> <n> (size sysfee)^n
                                             -> <number picked>   (`Pack.applyPolicyM` with `Pack.defaultWitness`)
  expsize <sre> <inv-hex> <ver-hex> <count>  -> `Pack.expectedSizeWithoutTx`
  encblock <version> <prevhash> <merkle> <timestamp> <nonce> <index> <primary> <nextconsensus> <sre> <prevstateroot>
           <inv> <ver> <k> <tx-hex>^k        -> <length> <sha256 of `Pack.encodeBlock`> <`Pack.expectedBlockSize`>
  nprice <base> <Notary|OracleContract>      -> datoshi a witness of that native contract costs   (`Native.nativeVerifyPrice`)
  feesvalid <sysfee word> <netfee word>       -> ok | neg-sys | neg-net | too-big   (`FeeFields.feesValid`, uint64 words)
  needm <size> <feePerByte> <attrFees> <netFee> -> <need> <0|1>              (`FeeFields.needM`, `smallNetFeeM`, int64)
  relevant <vector of admit>                 -> 1 | 0                        (`Pack.stillRelevant`)
  ledger <notary> <nbal> (primary secondary balance)^nbal <k> (scratch tx)^k -> ok | tx <i> err:<class> | conflict <i>   (`Pack.ledgerLoop`)
  daoseq <mtb> <n> (T hash index nacc acc^n nconf hash^c | B hash)^n <q> (hash height nsig acc^nsig)^q
                                             -> none|exists|conflicts per query  (`Pack.storeTx`, `Admission.hasTransaction`)
  relevantp <nblk> (scratch tx)^nblk <vector of admit> -> 1 | 0              (`Pack.stillRelevantAfter`)
  scratch <notary> <nbal> (primary secondary balance)^nbal <k> (hash sysFee netFee n acc^n c hash^c oracle|-)^k
                                             -> verdicts and final content   (`Pack.scratchAdd` from the empty pool)
-/
import NeoModel.Base.Proto
import NeoModel.Model.Fees
import NeoModel.Model.Admission
import NeoModel.Model.Fees.Block
import NeoModel.Model.Fees.Native
import NeoModel.Model.Fees.FeeFields
import NeoModel.Base.Sha256
open NeoModel NeoModel.Fees NeoModel.Admission NeoModel.Pack NeoModel.Native
open NeoModel.Generated.FeeConsts

def chunks (n : Nat) : Nat → Bytes → List Bytes
  | 0, _ => []
  | fuel+1, bs => if bs.isEmpty then [] else bs.take n :: chunks n fuel (bs.drop n)

def keyOk (k : Bytes) : Bool := k.length == 33 && (k.headD 0 == 2 || k.headD 0 == 3)

def bit (s : String) : Option Bool := if s == "1" then some true else if s == "0" then some false else none

abbrev P (α : Type) := List String → Option (α × List String)

def pNat : P Nat
  | [] => none
  | t :: r => t.toNat?.map (·, r)

def pBit : P Bool
  | [] => none
  | t :: r => (bit t).map (·, r)

def pHexB : P Bytes
  | [] => none
  | t :: r => (Hex.decode t).map (·, r)

def pTok : P String
  | [] => none
  | t :: r => some (t, r)

def pMany {α : Type} (p : P α) : Nat → P (List α)
  | 0, ts => some ([], ts)
  | n+1, ts => do
    let (x, r) ← p ts
    let (xs, r') ← pMany p n r
    pure (x :: xs, r')

def pCounted {α : Type} (p : P α) : P (List α) := fun ts => do
  let (n, r) ← pNat ts
  pMany p n r

def pPair : P (Nat × Nat) := fun ts => do
  let (a, r) ← pNat ts
  let (b, r) ← pNat r
  pure ((a, b), r)

def pRec : P Rec := fun ts => do
  let (t, r) ← pTok ts
  if t == "N" then pure (.none, r)
  else if t == "B" then pure (.block, r)
  else if t == "T" then pure (.tx, r)
  else if t == "S" then do
    let (idx, r) ← pNat r
    let (l, r) ← pCounted pPair r
    pure (.stub idx l, r)
  else none

/-- a witness token; the native ones need the whole transaction to be evaluated. -/
inductive WTok where
  | plain (w : Wit)
  | nv (cost : Nat) (sigOk : Bool) (deposit : Option Nat)
  | ov (cost : Nat)

def pWit : P WTok := fun ts => do
  let (t, r) ← pTok ts
  if t == "NV" then do
    let (cost, r) ← pNat r
    let (ok, r) ← pBit r
    let (d, r) ← pTok r
    pure (.nv cost ok d.toNat?, r)
  else if t == "OV" then do
    let (cost, r) ← pNat r
    pure (.ov cost, r)
  else if t == "W" then do
    let (hok, r) ← pBit r
    let (_pairs, r) ← pHexB r
    let (i, r) ← pHexB r
    let (v, r) ← pHexB r
    pure (.plain (.std hok i v), r)
  else if t == "M" then pure (.plain .missing, r)
  else if t == "Q" then do
    let (cost, r) ← pNat r
    let (k, r) ← pTok r
    let res : WRes := if k == "o" then .ok cost else if k == "i" then .invalidSig cost else .fail
    pure (.plain (.contract (fun lim => if cost ≤ lim then res else .fail)), r)
  else none

/-- the `pairs` fields of all `W` witnesses of a line, concatenated (the valid key‖signature pairs). -/
def collectPairs : List String → Bytes
  | "W" :: _ :: p :: r => ((Hex.decode p).getD []) ++ collectPairs r
  | _ :: r => collectPairs r
  | [] => []

def pSigner : P (Nat × Bool × WTok) := fun ts => do
  let (acc, r) ← pNat ts
  let (sn, r) ← pBit r
  let (w, r) ← pWit r
  pure ((acc, sn, w), r)

def pAttr : P (Attr × Option (Nat × Bool)) := fun ts => do
  let (t, r) ← pTok ts
  if t == "HP" then pure ((.highPriority, none), r)
  else if t == "OR" then do
    let (id, r) ← pNat r
    let (a, r) ← pBit r
    let (b, r) ← pBit r
    let (g, r) ← pNat r
    pure ((.oracleResponse ⟨id, a, b, g⟩, none), r)
  else if t == "NVB" then do
    let (h, r) ← pNat r
    pure ((.notValidBefore h, none), r)
  else if t == "CF" then do
    let (h, r) ← pNat r
    let (oc, r) ← pBit r
    pure ((.conflicts h, some (h, oc)), r)
  else if t == "NA" then do
    let (n, r) ← pNat r
    pure ((.notaryAssisted n, none), r)
  else if t == "OT" then do
    let (n, r) ← pNat r
    pure ((.other n, none), r)
  else none

def errName : Err → String
  | .malformed => "malformed" | .policySysFee => "policy-sysfee" | .invalidScript => "invalid-script" | .expired => "expired"
  | .notYetValid => "not-yet-valid" | .policyBlocked => "policy-blocked" | .tooBig => "too-big"
  | .smallNetFee => "small-netfee" | .alreadyExists => "already-exists" | .hasConflicts => "has-conflicts"
  | .witness => "witness" | .invalidAttr => "invalid-attr" | .poolDup => "pool-dup"
  | .poolConflictsAttr => "pool-conflicts-attr" | .insufficientFunds => "insufficient-funds"
  | .poolConflict => "pool-conflict" | .poolOracle => "pool-oracle" | .oom => "oom"

def parseAdmit (ts : List String) : Option (Chain × Tx × Pool) := do
  let pairs := collectPairs ts
  let ps := chunks 97 pairs.length pairs
  let (height, r) ← pNat ts
  let (maxVUBInc, r) ← pNat r
  let (mbsf, r) ← pNat r
  let (fpb, r) ← pNat r
  let (base, r) ← pNat r
  let (mvg, r) ← pNat r
  let (mtb, r) ← pNat r
  let (gorgon, r) ← pBit r
  let (p2p, r) ← pBit r
  let (reserved, r) ← pBit r
  let (notaryActive, r) ← pBit r
  let (fHP, r) ← pNat r
  let (fOR, r) ← pNat r
  let (fNVB, r) ← pNat r
  let (fCF, r) ← pNat r
  let (fNA, r) ← pNat r
  let (committee, r) ← pNat r
  let (orc, r) ← pTok r
  let oracle := if orc == "-" then none else orc.toNat?
  let (notary, r) ← pNat r
  let (blocked, r) ← pCounted pNat r
  let (rec, r) ← pRec r
  let (version, r) ← pNat r
  let (scriptLen, r) ← pNat r
  let (scriptOk, r) ← pBit r
  let (sysFee, r) ← pNat r
  let (netFee, r) ← pNat r
  let (vub, r) ← pNat r
  let (size, r) ← pNat r
  let (signers, r) ← pCounted pSigner r
  let (attrs, r) ← pCounted pAttr r
  let (dup, r) ← pBit r
  let (cae, r) ← pBit r
  let (balance, r) ← pNat r
  let (feeSum, r) ← pNat r
  let (oerr, r) ← pBit r
  let (full, r) ← pBit r
  if !r.isEmpty then none
  let onchain := attrs.filterMap (·.2)
  let attrFee := fun (t : Nat) =>
    if t = attrHighPriority then fHP else if t = attrOracleResponse then fOR else if t = attrNotValidBefore then fNVB
    else if t = attrConflicts then fCF else if t = attrNotaryAssisted then fNA else 0
  let lookup := fun (h : Nat) => if h = 0 then rec else if onchain.any (fun (x, oc) => x == h && oc) then Rec.tx else Rec.none
  let c : Chain := { height := height, maxVUBInc := maxVUBInc, maxBlockSysFee := mbsf, feePerByte := fpb, base := base,
                     maxVerGas := mvg, mtb := mtb, gorgon := gorgon, p2pSigExt := p2p, reservedAttrs := reserved,
                     notaryActive := notaryActive, attrFee := attrFee, blocked := fun a => blocked.contains a,
                     lookup := lookup, committee := committee, oracleHash := oracle, notary := notary,
                     validKey := keyOk, verify := fun k sg => ps.contains (k ++ sg) }
  let t0 : Tx := { hash := 0, version := version, scriptLen := scriptLen, scriptOk := scriptOk, sysFee := sysFee, netFee := netFee, validUntil := vub, size := size,
                   signers := signers.map (fun q => ⟨q.1, q.2.1, .missing⟩), attrs := attrs.map (·.1) }
  -- the native `verify` witnesses read the transaction (attributes, signers, fees), not its witnesses
  let t : Tx := { t0 with signers := signers.map fun q =>
    ⟨q.1, q.2.1, match q.2.2 with
      | .plain w => w
      | .nv cost ok dep => nativeWit cost (notaryVerify c t0 dep ok)
      | .ov cost => nativeWit cost (oracleVerify t0)⟩ }
  let p : Pool := { has := fun _ => dup, conflictsAttrErr := cae, balance := balance, feeSum := feeSum, oracleErr := oerr, full := full }
  pure (c, t, p)

def verdict : Option Err → String
  | none => "ok"
  | some e => s!"err:{errName e}"

def runAdmit (ts : List String) : Option String := do
  let (c, t, p) ← parseAdmit ts
  pure (verdict (admitWire c p t))

/-- `relevant <same vector as admit>` -> 1 | 0   (`Pack.stillRelevant`; the pool fields are ignored) -/
def runRelevant (ts : List String) : Option String := do
  let (c, t, _) ← parseAdmit ts
  pure (if stillRelevant c t then "1" else "0")

def pInt : P Int
  | [] => none
  | t :: r => t.toInt?.map (·, r)

def pPairI : P (Nat × Int) := fun ts => do
  let (a, r) ← pNat ts
  let (b, r) ← pInt r
  pure ((a, b), r)

def pBal : P ((Nat × Nat) × Nat) := fun ts => do
  let (a, r) ← pNat ts
  let (b, r) ← pNat r
  let (v, r) ← pNat r
  pure (((a, b), v), r)

/-- a transaction as the scratch pool sees it: hash sysFee netFee n acc^n c hash^c oracle|- -/
def pScratchTx : P Tx := fun ts => do
  let (h, r) ← pNat ts
  let (sf, r) ← pNat r
  let (nf, r) ← pNat r
  let (accs, r) ← pCounted pNat r
  let (cfs, r) ← pCounted pNat r
  let (o, r) ← pTok r
  let oattr : List Attr := match o.toNat? with
    | some id => [.oracleResponse ⟨id, true, true, 0⟩]
    | none => []
  pure ({ hash := h, version := 0, scriptLen := 1, scriptOk := true, sysFee := sf, netFee := nf, validUntil := 0, size := 0,
          signers := accs.map fun a => ⟨a, false, .missing⟩, attrs := cfs.map Attr.conflicts ++ oattr }, r)

/-- `scratch <notary> <nbal> (primary secondary balance)^nbal <k> tx^k`
    -> the verdicts of adding the transactions one after the other to an empty pool of capacity k, then the
       hashes the pool holds in the end (`Pack.scratchAdd`) -/
def runScratch (ts : List String) : Option String := do
  let (notary, r) ← pNat ts
  let (bals, r) ← pCounted pBal r
  let (txs, r) ← pCounted pScratchTx r
  if !r.isEmpty then none
  let bal := fun (q : Nat × Nat) => ((bals.find? (·.1 == q)).map (·.2)).getD 0
  let (vs, sp) := txs.foldl (fun (acc : List String × List Tx) t =>
    let res := scratchAdd notary bal acc.2 t
    (acc.1 ++ [verdict res.1], res.2)) ([], [])
  pure (String.intercalate "," vs ++ " " ++ String.intercalate "," (((sp.map (·.hash)).mergeSort (· ≤ ·)).map toString))

/-- `relevantp <nblk> (scratch-format tx)^nblk <vector of admit>` -> 1 | 0
    (`Pack.stillRelevantAfter`: the filter with the scratch pool of the block just accepted; hash id 0 = the transaction) -/
def runRelevantP (ts : List String) : Option String := do
  let (blk, r) ← pCounted pScratchTx ts
  let (c, t, _) ← parseAdmit r
  pure (if stillRelevantAfter c blk t then "1" else "0")

/-- one step of a `daoseq` line: `T hash index nacc acc^n nconf hash^c` (StoreAsTransaction) | `B hash` (StoreAsBlock). -/
def pDaoOp : P ((Nat → Rec) → (Nat → Rec)) := fun ts => do
  let (k, r) ← pTok ts
  if k == "B" then do
    let (h, r) ← pNat r
    pure ((fun lk x => if x = h then Rec.block else lk x), r)
  else if k == "T" then do
    let (h, r) ← pNat r
    let (idx, r) ← pNat r
    let (accs, r) ← pCounted pNat r
    let (cfs, r) ← pCounted pNat r
    let y : Tx := { hash := h, version := 0, scriptLen := 1, scriptOk := true, sysFee := 0, netFee := 0, validUntil := 0, size := 0,
                    signers := accs.map fun a => ⟨a, false, .missing⟩, attrs := cfs.map Attr.conflicts }
    pure ((fun lk => storeTx lk y idx), r)
  else none

def pDaoQuery : P (Nat × Nat × List Nat) := fun ts => do
  let (h, r) ← pNat ts
  let (height, r) ← pNat r
  let (sg, r) ← pCounted pNat r
  pure ((h, height, sg), r)

/-- `daoseq <mtb> <n> op^n <q> (hash height nsig acc^nsig)^q` -> the verdicts of `HasTransaction` after the stores
    (`Pack.storeTx`, `Admission.hasTransaction`): none | exists | conflicts -/
def runDaoSeq (ts : List String) : Option String := do
  let (mtb, r) ← pNat ts
  let (ops, r) ← pCounted pDaoOp r
  let (qs, r) ← pCounted pDaoQuery r
  if !r.isEmpty then none
  let lk := ops.foldl (fun lk f => f lk) (fun _ => Rec.none)
  let show1 := fun (q : Nat × Nat × List Nat) =>
    match hasTransaction (lk q.1) q.2.2 q.2.1 mtb with
    | none => "none"
    | some .alreadyExists => "exists"
    | some _ => "conflicts"
  pure (String.intercalate "," (qs.map show1))

/-- `ledger <notary> <nbal> (primary secondary balance)^nbal <k> (scratch tx)^k` -> ok | tx <i> err:<class> | conflict <i>
    (`Pack.ledgerLoop` on a block none of whose transactions the node holds in its pool; the harness only sends
    transactions whose chain part is fine, so the chain here lets everything through and the verdict is that of the
    scratch pool plus the count check of AddBlock) -/
def runLedger (ts : List String) : Option String := do
  let (notary, r) ← pNat ts
  let (bals, r) ← pCounted pBal r
  let (txs, r) ← pCounted pScratchTx r
  if !r.isEmpty then none
  let bal := fun (q : Nat × Nat) => ((bals.find? (·.1 == q)).map (·.2)).getD 0
  let c : Chain := { height := 0, maxVUBInc := 10, maxBlockSysFee := 0, feePerByte := 0, base := 1, maxVerGas := 1, mtb := 1,
                     gorgon := false, p2pSigExt := false, reservedAttrs := true, notaryActive := true, attrFee := fun _ => 0,
                     blocked := fun _ => false, lookup := fun _ => Rec.none, committee := 0, oracleHash := none, notary := notary,
                     validKey := fun _ => false, verify := fun _ _ => false }
  let txs := txs.map fun t => { t with validUntil := 1, signers := t.signers.map fun sg => { sg with wit := Wit.contract fun _ => WRes.ok 0 } }
  match ledgerLoop c bal (fun _ => false) 0 [] txs with
  | none => pure "ok"
  | some (.tx i e) => pure s!"tx {i} err:{errName e}"
  | some (.conflictInBlock i) => pure s!"conflict {i}"
  | some _ => pure "other"

def step (s : Unit) (ws : List String) : Unit × String :=
  match ws with
  | ["case", k] => (s, s!"case {k}")
  | ["emitint", n] =>
    match n.toNat? with
    | some v => (s, Hex.encode (emitInt v))
    | none => (s, "bad-op")
  | ["emitbytes", h] =>
    match Hex.decode h with
    | some b => (s, Hex.encode (emitBytes b))
    | none => (s, "bad-op")
  | ["sigscript", h] =>
    match Hex.decode h with
    | some b => (s, Hex.encode (sigScript b))
    | none => (s, "bad-op")
  | ["multisig", m, h] =>
    match m.toNat?, Hex.decode h with
    | some m, some b =>
      match multisigScript m (chunks 33 b.length b) with
      | some sc => (s, Hex.encode sc)
      | none => (s, "err")
    | _, _ => (s, "bad-op")
  | ["parse", h] =>
    match Hex.decode h with
    | some b =>
      if isSignatureContract b then (s, "sig")
      else match parseMultiSig b with
        | some (m, pubs) => (s, s!"multisig {m} {pubs.length}")
        | none => (s, "none")
    | none => (s, "bad-op")
  | ["calc", base, h] =>
    match base.toNat?, Hex.decode h with
    | some base, some b => let r := calculate base b; (s, s!"{r.1} {r.2}")
    | _, _ => (s, "bad-op")
  | ["wsize", i, v] =>
    match Hex.decode i, Hex.decode v with
    | some i, some v => (s, s!"{(encodeWitness i v).length}")
    | _, _ => (s, "bad-op")
  | ["wcost", base, g, pairs, i, v] =>
    match base.toNat?, bit g, Hex.decode pairs, Hex.decode i, Hex.decode v with
    | some base, some g, some pairs, some i, some v =>
      let ps := chunks 97 pairs.length pairs
      match runWitness ⟨base, none, g, keyOk, fun k sg => ps.contains (k ++ sg)⟩ i v with
      | some st => (s, s!"halt {picoToDatoshi st.gas} {st.stack.length}")
      | none => (s, "fault")
    | _, _, _, _, _ => (s, "bad-op")
  | ["vw", base, mvg, g, hok, gas, pairs, i, v] =>
    match base.toNat?, mvg.toNat?, bit g, bit hok, gas.toNat?, Hex.decode pairs, Hex.decode i, Hex.decode v with
    | some base, some mvg, some g, some hok, some gas, some pairs, some i, some v =>
      let ps := chunks 97 pairs.length pairs
      let verify := fun (k sg : Bytes) => ps.contains (k ++ sg)
      match verifyWitness base mvg g keyOk verify hok gas i v with
      | .ok c => (s, s!"ok {c}")
      | .invalidSig c => (s, s!"invsig {c}")
      | .fail => (s, "fail")
    | _, _, _, _, _, _, _, _ => (s, "bad-op")
  | "admit" :: ts => (s, (runAdmit ts).getD "bad-op")
  | "relevant" :: ts => (s, (runRelevant ts).getD "bad-op")
  | "relevantp" :: ts => (s, (runRelevantP ts).getD "bad-op")
  | "daoseq" :: ts => (s, (runDaoSeq ts).getD "bad-op")
  | "ledger" :: ts => (s, (runLedger ts).getD "bad-op")
  | "scratch" :: ts => (s, (runScratch ts).getD "bad-op")
  | "pack" :: ts =>
    let r : Option String := do
      let (maxTx, r) ← pNat ts
      let (mbs, r) ← pNat r
      let (mbf, r) ← pInt r
      let (sre, r) ← pBit r
      let (vals, r) ← pHexB r
      let (txs, r) ← pCounted pPairI r
      if !r.isEmpty then none
      let w := defaultWitness (chunks 33 vals.length vals)
      pure s!"{(applyPolicyM ⟨maxTx, mbs, mbf, sre, w.1, w.2⟩ txs).length}"
    (s, r.getD "bad-op")
  | ["nprice", base, contract] =>
    match base.toNat? with
    | some base => (s, s!"{nativeVerifyPrice base contract (contract == "Notary")}")
    | none => (s, "bad-op")
  | ["feesvalid", a, b] =>
    match a.toNat?, b.toNat? with
    | some a, some b =>
      (s, match FeeFields.feesValid a b with
          | none => "ok"
          | some .negSys => "neg-sys"
          | some .negNet => "neg-net"
          | some .tooBig => "too-big")
    | _, _ => (s, "bad-op")
  | ["needm", size, fpb, af, net] =>
    match size.toNat?, fpb.toInt?, af.toInt?, net.toInt? with
    | some size, some fpb, some af, some net =>
      let need := FeeFields.needM size fpb af
      (s, s!"{need} {if FeeFields.smallNetFeeM net need then 1 else 0}")
    | _, _, _, _ => (s, "bad-op")
  | ["expsize", sre, i, v, n] =>
    match bit sre, Hex.decode i, Hex.decode v, n.toNat? with
    | some sre, some i, some v, some n => (s, s!"{expectedSizeWithoutTx sre i v n}")
    | _, _, _, _ => (s, "bad-op")
  | "encblock" :: ts =>
    let r : Option String := do
      let (version, r) ← pNat ts
      let (prev, r) ← pHexB r
      let (merkle, r) ← pHexB r
      let (tstamp, r) ← pNat r
      let (nonce, r) ← pNat r
      let (index, r) ← pNat r
      let (primary, r) ← pNat r
      let (nextc, r) ← pHexB r
      let (sre, r) ← pBit r
      let (psr, r) ← pHexB r
      let (i, r) ← pHexB r
      let (v, r) ← pHexB r
      let (txs, r) ← pCounted pHexB r
      if !r.isEmpty then none
      let h : Header := ⟨version, prev, merkle, tstamp, nonce, index, primary, nextc, sre, psr, i, v⟩
      let enc := encodeBlock h txs
      pure s!"{enc.length} {Hex.encode (Sha256.hash enc)} {expectedBlockSize sre i v (txs.map List.length)}"
    (s, r.getD "bad-op")
  | _ => (s, "bad-op")

def main : IO Unit := Proto.run () step
