/-
Driver for stream `queue` (C20 a): one atomic step of the block-queue model per line.
  new <cap> <h0> | put <idx> <tag> <ok01> <hr> | run | adv | notify | disc | quiesce
  -> pc=<pc> lq=<lastQ> left=<cap-len> h=<height> [add=<idx>/<tag>:<ok>,…]
-/
import NeoModel.Base.Proto
import NeoModel.Model.Queue
open NeoModel NeoModel.Queue

def showPc : Pc → String
  | .init => "init"
  | .wait => "wait"
  | .top => "top"
  | .haveH h => s!"haveH:{h}"
  | .holding b _ => s!"holding:{b.idx}/{b.tag}"
  | .added b _ => s!"added:{b.idx}/{b.tag}"
  | .done => "done"

def showEv : Ev → String
  | .add b ok => s!"add={b.idx}/{b.tag}:{ok}"
  | .ext i => s!"ext={i}"

/-- The real goroutine leaves `<-checkBlocks` by itself as soon as a signal is there (or the channel is closed). -/
def settle (s : State) : State :=
  match s.pc with
  | .wait => if s.signal || s.discarded then runStep s else s
  | _ => s

def obs (old : State) (s : State) : String :=
  let (lq, left) := lastQueued s
  let base := s!"pc={showPc s.pc} lq={lq} left={left} h={s.height}"
  let newEvs := (s.log.drop old.log.length).filter (fun e => match e with | .add _ _ => true | _ => false)
  if newEvs.isEmpty then base else base ++ " " ++ ",".intercalate (newEvs.map showEv)

def step (s : State) (ws : List String) : State × String :=
  match ws with
  | ["case", k] => (init 1 0, s!"case {k}")
  | ["new", c, h] =>
    match c.toNat?, h.toNat? with
    | some c, some h => let s' := init c h; (s', obs s' s')
    | _, _ => (s, "bad-op")
  | ["put", i, t, ok, hr] =>
    match i.toNat?, t.toNat?, ok.toNat?, hr.toNat? with
    | some i, some t, some ok, some hr =>
      let s' := settle (apply s (.put { idx := i, tag := t, ok := ok != 0 } hr)); (s', obs s { s' with log := s'.log })
    | _, _, _, _ => (s, "bad-op")
  | ["run"] => let s' := settle (apply s .run); (s', obs s s')
  | ["adv"] => let s' := settle (apply s .adv); (s', obs s s')
  | ["disc"] => let s' := settle (apply s .disc); (s', obs s s')
  | ["notify"] => let s' := settle (apply s .notify); (s', obs s s')
  | ["quiesce"] => let s' := quiesce 1000000 s; (s', obs s s')
  | _ => (s, "bad-op")

def main : IO Unit := Proto.run (init 1 0) step
