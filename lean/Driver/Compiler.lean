/-
Driver for stream `compiler` (C14): one op per line, one observation per line.
  case <k>                         -> case <k>                      (state reset)
  prog <prefix-coded program>      -> <hex of compile p>            (byte equality with the real compiler)
  layout                           -> ok | bad   (Compile.layoutOK: every item decodes at its final offset; hypothesis of
                                                  the byte/assembly simulation theorem, evaluated per program)
  offset <func>                    -> <decimal byte offset of the method> | none
  params <func>                    -> <number of arguments the INITSLOT at the method's offset takes> (vs the debug info's
                                      parameter count of the real compiler)
  run <func> <ret> <args…>         -> halt <v> | halt - | fault | stack:<n> | asm-byte-differ …
                                       (MiniVm byte machine on the MODEL's script; cross-checked with the
                                        assembly machine on the unassembled code)
  eval <func> <args…>              -> halt <v> | halt - | fault | overflow | stuck | timeout   (big-step Go semantics)
  ovf <func> <args…>               -> overflow | in-range            (does the big-step semantics leave int64?)
Values: i<dec> / bt / bf.   <ret> ∈ int bool void.
-/
import NeoModel.Base.Proto
import NeoModel.Base.Hex
import NeoModel.Model.Compile
open NeoModel NeoModel.MiniGo NeoModel.MiniVm NeoModel.Compile

abbrev P (α : Type) := List String → Option (α × List String)

def binop? : String → Option BinOp
  | "add" => some .add | "sub" => some .sub | "mul" => some .mul | "div" => some .div | "mod" => some .mod
  | "lt" => some .lt | "le" => some .le | "gt" => some .gt | "ge" => some .ge | "eq" => some .eq | "ne" => some .ne
  | "eqb" => some .eqb | "neb" => some .neb | "land" => some .land | "lor" => some .lor
  | _ => none

partial def pExpr : P Expr
  | "L" :: n :: r => n.toNat?.map (fun k => (.lit k, r))
  | "T" :: r => some (.tt, r)
  | "F" :: r => some (.ff, r)
  | "V" :: x :: r => some (.var x, r)
  | "P" :: r => (pExpr r).map (fun (e, r) => (.paren e, r))
  | "N" :: r => (pExpr r).map (fun (e, r) => (.neg e, r))
  | "!" :: r => (pExpr r).map (fun (e, r) => (.not e, r))
  | "B" :: o :: r => do
    let op ← binop? o
    let (a, r) ← pExpr r
    let (b, r) ← pExpr r
    pure (.bin op a b, r)
  | "C0" :: f :: r => some (.call0 f, r)
  | "C1" :: f :: r => do let (a, r) ← pExpr r; pure (.call1 f a, r)
  | "C2" :: f :: r => do let (a, r) ← pExpr r; let (b, r) ← pExpr r; pure (.call2 f a b, r)
  | "C3" :: f :: r => do let (a, r) ← pExpr r; let (b, r) ← pExpr r; let (c, r) ← pExpr r; pure (.call3 f a b c, r)
  | _ => none

def pOptExpr : P (Option Expr)
  | "none" :: r => some (none, r)
  | "some" :: r => (pExpr r).map (fun (e, r) => (some e, r))
  | _ => none

partial def pStmt : P Stmt
  | "skip" :: r => some (.skip, r)
  | ";" :: r => do let (a, r) ← pStmt r; let (b, r) ← pStmt r; pure (.seq a b, r)
  | ":=" :: x :: r => do let (e, r) ← pExpr r; pure (.define x e, r)
  | ":=2" :: x :: y :: r => do let (e, r) ← pExpr r; pure (.define2 x y e, r)
  | "=" :: x :: r => do let (e, r) ← pExpr r; pure (.assign x e, r)
  | "op=" :: x :: o :: r => do let op ← binop? o; let (e, r) ← pExpr r; pure (.opAssign x op e, r)
  | "++" :: x :: r => some (.inc x, r)
  | "--" :: x :: r => some (.dec x, r)
  | "var" :: x :: ty :: r => do let (e, r) ← pOptExpr r; pure (.varDecl x (ty == "bool") e, r)
  | "call" :: r => do let (e, r) ← pExpr r; pure (.exprStmt e, r)
  | "discard" :: r => do let (e, r) ← pExpr r; pure (.discard e, r)
  | "panic" :: r => do let (e, r) ← pExpr r; pure (.panicS e, r)
  | "if" :: r => do
    let (c, r) ← pExpr r
    let (t, r) ← pStmt r
    match r with
    | "none" :: r => pure (.ite c t .none .skip, r)
    | "else" :: r => do let (e, r) ← pStmt r; pure (.ite c t .block e, r)
    | "elif" :: r => do let (e, r) ← pStmt r; pure (.ite c t .elif e, r)
    | _ => none
  | "for" :: r => do
    let (i, r) ← pStmt r
    let (c, r) ← pOptExpr r
    let (p, r) ← pStmt r
    let (b, r) ← pStmt r
    pure (.loop i c p b, r)
  | "ret" :: r => do let (e, r) ← pOptExpr r; pure (.ret e, r)
  | "ret2" :: r => do let (e1, r) ← pExpr r; let (e2, r) ← pExpr r; pure (.ret2 e1 e2, r)
  | "brk" :: r => some (.brk, r)
  | "cont" :: r => some (.cont, r)
  | "blk" :: r => do let (b, r) ← pStmt r; pure (.block b, r)
  | "lbl" :: l :: r => do let (b, r) ← pStmt r; pure (.labeled l b, r)
  | "brkL" :: l :: r => some (.brkL l, r)
  | "contL" :: l :: r => some (.contL l, r)
  | "switch" :: r => do
    let (t, r) ← pOptExpr r
    match r with
    | ty :: r => do let (c, r) ← pStmt r; pure (.switchS t (ty == "int") c, r)
    | [] => none
  | "case" :: r => do
    let (e1, r) ← pExpr r
    let (e2, r) ← pOptExpr r
    let (b, r) ← pStmt r
    match r with
    | f :: r => do let (rest, r) ← pStmt r; pure (.caseS e1 e2 b (f == "ft") rest, r)
    | [] => none
  | "default" :: r => do let (b, r) ← pStmt r; pure (.defaultS b, r)
  | _ => none

def takeN {α : Type} : Nat → List α → Option (List α × List α)
  | 0, l => some ([], l)
  | n + 1, x :: r => (takeN n r).map (fun (a, b) => (x :: a, b))
  | _, [] => none

def pFunc : P FuncDecl
  | "func" :: name :: np :: r => do
    let n ← np.toNat?
    let (ps, r) ← takeN n r
    match r with
    | res :: r => do
      let (b, r) ← pStmt r
      pure ({ name := name, params := ps, nres := (if res == "res" then 1 else if res == "res2" then 2 else 0), body := b }, r)
    | [] => none
  | _ => none

partial def pFuncs : Nat → P (List FuncDecl)
  | 0, r => some ([], r)
  | n + 1, r => do let (f, r) ← pFunc r; let (fs, r) ← pFuncs n r; pure (f :: fs, r)

def pProg : List String → Option Prog
  | n :: r => do
    let k ← n.toNat?
    let (fs, r) ← pFuncs k r
    if r.isEmpty then pure fs else none
  | [] => none

def pVal (s : String) : Option Val :=
  if s == "bt" then some (.bool true) else if s == "bf" then some (.bool false)
  else if s.startsWith "i" then (s.drop 1).toInt?.map .int else none

def pVals (ws : List String) : Option (List Val) := ws.mapM pVal

def showVal : Val → String
  | .int n => toString n
  | .bool b => if b then "true" else "false"
  | .null => "null"

/-- canonical rendering of a VM result by the declared result type (what the harness does with real items). -/
def showResult (ret : String) (stk : List Val) : String :=
  match ret, stk with
  | "void", [] => "halt -"
  | "void", l => s!"stack:{l.length}"
  | "bool", [v] => match v with
    | .bool b => s!"halt {b}"
    | .int n => if n == 0 then "halt false" else if n == 1 then "halt true" else s!"halt badbool:{n}"
    | .null => "halt false"
  | "int", [v] => match v.toInt? with
    | some n => s!"halt {n}"
    | none => "halt badtype:Any"
  | _, l => s!"stack:{l.length}"

structure DState where
  prog : Prog := []
  code : Asm.Code := []
  script : Bytes := []

def vmFuel : Nat := 30000000
def evalFuel : Nat := 200000

def funcIndex (p : Prog) (f : String) : Option Nat :=
  let rec go : List FuncDecl → Nat → Option Nat
    | [], _ => none
    | d :: r, i => if d.name == f then some i else go r (i + 1)
  go p 0

def outcomeStr (ret : String) : Outcome → String
  | .halt stk => showResult ret stk
  | .fault => "fault"
  | .running _ => "timeout"

def step (s : DState) (ws : List String) : DState × String :=
  match ws with
  | ["case", k] => ({}, s!"case {k}")
  | "prog" :: r =>
    match pProg r with
    | some p =>
      let code := compProg p
      let script := assemble code
      ({ prog := p, code := code, script := script }, Hex.encode script)
    | none => (s, "bad-prog")
  | ["layout"] => (s, if layoutOK s.code then "ok" else "bad")
  | ["accepted"] => (s, if accepted s.prog then "yes" else "no")
  | ["offset", f] =>
    match funcIndex s.prog f with
    | some i => match debugOffset s.code s.prog.length i with
      | some o => (s, toString o)
      | none => (s, "none")
    | none => (s, "none")
  | ["params", f] =>
    -- the number of arguments the bytecode of the method takes: the operand of the INITSLOT at its offset (0 if none)
    match funcIndex s.prog f with
    | some i => match labelOffset s.code i with
      | some off => match Byte.decode (s.script.drop off) with
        | some (.initSlot _ a, _) => (s, toString a)
        | _ => (s, "0")
      | none => (s, "none")
    | none => (s, "none")
  | "run" :: f :: ret :: args =>
    match funcIndex s.prog f, pVals args with
    | some i, some vs =>
      match labelOffset s.code i, Asm.findLabel s.code i with
      | some off, some apc =>
        let st0 : State := { pc := off, stack := vs, locals := [], args := [], frames := [] }
        let rb := outcomeStr ret (Byte.run s.script vmFuel st0)
        let ra := outcomeStr ret (Asm.run s.code vmFuel { st0 with pc := apc })
        (s, if rb == ra then rb else s!"asm-byte-differ byte={rb} asm={ra}")
      | _, _ => (s, "no-offset")
    | _, _ => (s, "bad-op")
  | "eval" :: f :: args =>
    match pVals args with
    | some vs =>
      let r := match runFunc evalFuel s.prog f vs with
        | .ok [] => "halt -"
        | .ok vs => "halt " ++ " ".intercalate (vs.map showVal)
        | .panic => "fault"
        | .overflow => "overflow"
        | .stuck => "stuck"
        | .timeout => "timeout"
      (s, r)
    | none => (s, "bad-op")
  | "ovf" :: f :: args =>
    match pVals args with
    | some vs =>
      let r := match runFunc evalFuel s.prog f vs with
        | .overflow => "overflow"
        | .timeout => "timeout"
        | _ => "in-range"
      (s, r)
    | none => (s, "bad-op")
  | _ => (s, "bad-op")

def main : IO Unit := Proto.run ({} : DState) step
