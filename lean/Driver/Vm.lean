/-
Driver for stream `vm` (C12): the accounting model executes the instruction stream of the real VM.
  case <k>                                   -> case <k>          (state reset)
  load                                       -> NONE 0 0 1 0      (entry script loaded)
  gas <limit picoGAS|-1> <base>              -> echo             (gas limit and price base of the case)
  (TRY / TRY_L carry <hasCatch> <hasFinally>; `|T k c` is what the real VM did: the model computes its own
   unwinding outcome from its try stacks and answers `unwind-mismatch(…)` if they differ)
  i <NAME> <args…> [|T <k> <c>] [!]          -> <NONE|HALT> <refs> <reach> <depth> <datoshi> | FAULT
  e <obs…>                                   -> <obs…>            (echo: the case left the modelled set)
  chk <hex>                                  -> ok | bad          (Model/ScriptCheck.isScriptCorrect = scparser.IsScriptCorrect)
`refs` is the model of the implementation's counter (as vm.go updates it), `reach` the number of
items found by walking the model state, `depth` the invocation stack depth. The arguments of an
instruction are what the harness read off the real state before the step (counts, positions);
`!` marks a FAULT the model cannot see (types, ranges); a FAULT because the counter exceeds 2048, the
invocation depth 1024, the gas limit is reached or a map key is a compound is predicted by the model itself
(`gasStep`: the opcode price from the regenerated table is charged and compared before the instruction).
-/
import NeoModel.Base.Proto
import NeoModel.Base.Hex
import NeoModel.Model.VmAcct
import NeoModel.Model.VmAcct.GasMachine
import NeoModel.Model.VmAcct.TryMachine
import NeoModel.Model.ScriptCheck
open NeoModel NeoModel.VmAcct

structure DState where
  t : TSt := {}
  dead : Bool := false

def natArg (ts : List String) (i : Nat) : Nat := ((ts[i]?).bind String.toNat?).getD 0
def intArg (ts : List String) (i : Nat) : Int := ((ts[i]?).bind String.toInt?).getD 0

def generic (k j : Nat) : Option Op := some (.s (.generic k j))

def opOf (name : String) (a : List String) : Option Op :=
  if name.startsWith "PUSH" then generic 0 1 else
  match name with
  | "NOP" | "JMP" | "JMP_L" | "TRY" | "TRY_L" | "ENDTRY" | "ENDTRY_L" | "ABORT" | "ABORTMSG" | "BAD" => some .nop
  | "JMPIF" | "JMPIF_L" | "JMPIFNOT" | "JMPIFNOT_L" | "ASSERT" | "DROP" => generic 1 0
  | "JMPEQ" | "JMPEQ_L" | "JMPNE" | "JMPNE_L" | "JMPGT" | "JMPGT_L" | "JMPGE" | "JMPGE_L"
  | "JMPLT" | "JMPLT_L" | "JMPLE" | "JMPLE_L" | "ASSERTMSG" => generic 2 0
  | "CALL" | "CALL_L" => some (.call 0)
  | "CALLA" => some (.call 1)
  | "THROW" => some .throw_
  | "ENDFINALLY" => some .endfinally
  | "RET" => some .ret
  | "DEPTH" => generic 0 1
  | "NIP" => some (.s .nip)
  | "XDROP" => some (.s (.xdrop (natArg a 0)))
  | "CLEAR" => some (.s .clear)
  | "DUP" => some (.s .dup)
  | "OVER" => some (.s .over)
  | "PICK" => some (.s (.pick (natArg a 0)))
  | "TUCK" => some (.s .tuck)
  | "SWAP" => some (.s .swap)
  | "ROT" => some (.s .rot)
  | "ROLL" => some (.s (.roll (natArg a 0)))
  | "REVERSE3" => some (.s (.reverse 3 false))
  | "REVERSE4" => some (.s (.reverse 4 false))
  | "REVERSEN" => some (.s (.reverse (natArg a 0) true))
  | "INITSSLOT" => some (.initsslot (natArg a 0))
  | "INITSLOT" => some (.initslot (natArg a 0) (natArg a 1))
  | "LDSFLD" => some (.ld .sfld (natArg a 0))
  | "STSFLD" => some (.st .sfld (natArg a 0))
  | "LDLOC" => some (.ld .loc (natArg a 0))
  | "STLOC" => some (.st .loc (natArg a 0))
  | "LDARG" => some (.ld .arg (natArg a 0))
  | "STARG" => some (.st .arg (natArg a 0))
  | "MEMCPY" => generic 5 0
  | "NEWBUFFER" | "INVERT" | "SIGN" | "ABS" | "NEGATE" | "INC" | "DEC" | "SQRT" | "NOT" | "NZ"
  | "SIZE" | "ISNULL" | "ISTYPE" => generic 1 1
  | "CAT" | "LEFT" | "RIGHT" | "AND" | "OR" | "XOR" | "EQUAL" | "NOTEQUAL" | "ADD" | "SUB" | "MUL" | "DIV"
  | "MOD" | "POW" | "SHL" | "SHR" | "BOOLAND" | "BOOLOR" | "NUMEQUAL" | "NUMNOTEQUAL" | "LT" | "LE" | "GT"
  | "GE" | "MIN" | "MAX" | "HASKEY" => generic 2 1
  | "SUBSTR" | "MODMUL" | "MODPOW" | "WITHIN" => generic 3 1
  | "PACKMAP" => some (.s (.packmap (natArg a 0) ((a.drop 1).map (fun t => (t.toInt?).getD (-1)))))
  | "PACKSTRUCT" => some (.s (.pack .str (natArg a 0)))
  | "PACK" => some (.s (.pack .arr (natArg a 0)))
  | "UNPACK" => some (.s .unpack)
  | "NEWARRAY0" => some (.s (.newEmpty .arr))
  | "NEWSTRUCT0" => some (.s (.newEmpty .str))
  | "NEWMAP" => some (.s (.newEmpty .map))
  | "NEWARRAY" | "NEWARRAY_T" => some (.s (.newSized .arr (natArg a 0)))
  | "NEWSTRUCT" => some (.s (.newSized .str (natArg a 0)))
  | "KEYS" => some (.s .keys)
  | "VALUES" => some (.s .values)
  | "PICKITEM" => some (.s (.pickitem (intArg a 0)))
  | "APPEND" => some (.s .append)
  | "SETITEM" => some (.s (.setitem (intArg a 0)))
  | "REVERSEITEMS" => some (.s .reverseitems)
  | "REMOVE" => some (.s (.remove (intArg a 0)))
  | "CLEARITEMS" => some (.s .clearitems)
  | "POPITEM" => some (.s .popitem)
  | "CONVERT" => some (.s (.convert (natArg a 0)))
  | "SYSCALL" =>
    match a[0]? with
    | some "load" => some (.load (natArg a 1) (natArg a 2))
    | some "push" => generic 0 1
    | some "pop" => generic 1 0
    | some "mkarray" => some (.s .mkarray)
    | _ => some .nop                                     -- burn (AddDatoshi), unknown
  | _ => none

/-- The model's `reach` (Model/VmAcct/Heap.lean: `walk` keeps the visited compounds in a list, which
is what the theorems are about) is quadratic in the number of distinct compounds. For big states
the driver uses this linear version with a mark array; on every state of moderate size BOTH are
computed and compared (`reach-impl-mismatch` would be printed instead of the observation). -/
partial def fastWalk (h : Array Cell) (work : List Item) (marks : Array Bool) (extra : List Nat) (acc : Nat) : Nat :=
  match work with
  | [] => acc
  | x :: w =>
    match x.cid with
    | none => fastWalk h w marks extra acc
    | some id =>
      if hlt : id < marks.size then
        if marks[id] then fastWalk h w marks extra acc
        else
          let ch := match h[id]? with | some c => c.ch | none => []
          fastWalk h (ch ++ w) (marks.set id true) extra (acc + ch.length)
      else if extra.contains id then fastWalk h w marks extra acc
      else fastWalk h w marks (id :: extra) acc

def fastReachFrom (heap : Heap) (roots : List Item) : Nat :=
  let h := heap.toArray
  roots.length + fastWalk h roots (Array.replicate h.size false) [] 0

/-- `reachFrom heap roots` as the theorems have it (small states), cross-checked, or the linear one -/
def reachObsFrom (heap : Heap) (roots : List Item) : String :=
  let n := heap.length + roots.length
  if n ≤ 40 then toString (reachFrom heap roots)
  else if n ≤ 400 then
    let a := reachFrom heap roots
    let b := fastReachFrom heap roots
    if a == b then toString a else s!"reach-impl-mismatch({a},{b})"
  else toString (fastReachFrom heap roots)

def reachObs (s : St) : String := reachObsFrom s.c.heap s.roots

/-- `<state> <refs> <reach> <depth> <datoshi>` -/
def obs (g : GSt) : String :=
  let s := g.s
  s!"{if s.halted then "HALT" else "NONE"} {s.c.refs} {reachObs s} {s.depth} {g.datoshi}"

/-- TRY / TRY_L come with "which handler offsets are present", ENDTRY* is recognised by name -/
def topOf (name : String) (a : List String) : TOp :=
  match name with
  | "TRY" | "TRY_L" => .try_ (a[0]? == some "1") (a[1]? == some "1")
  | "ENDTRY" | "ENDTRY_L" => .endtry
  | _ => .other

/-- what the SYSCALL handler of the harness charges (`SYSCALL burn <picoGAS>`) -/
def burnOf (name : String) (a : List String) : Nat :=
  if name == "SYSCALL" && a[0]? == some "burn" then natArg a 1 else 0

/-- splits `args… [|T k c] [!]` -/
def splitTail (ts : List String) : List String × Option (Nat × Bool) × Bool :=
  let ext := ts.getLast? == some "!"
  let ts := if ext then ts.dropLast else ts
  match ts.reverse with
  | c :: k :: "|T" :: r => (r.reverse, some ((k.toNat?).getD 0, c == "1"), ext)
  | _ => (ts, none, ext)

def stepD (d : DState) (ts : List String) : DState × String :=
  match ts with
  | "case" :: _ => ({}, " ".intercalate ts)
  | ["load"] => (d, obs d.t.g)
  | ["gas", l, b] =>
    -- `gas <limit in picoGAS | -1> <price base>`: the configuration of the case (echoed)
    let lim : Option Nat := match l.toInt? with | some n => if n < 0 then none else some n.toNat | none => none
    ({ d with t := { d.t with g := { d.t.g with limit := lim, base := (b.toNat?).getD 0 } } }, " ".intercalate ts)
  | "e" :: rest => (d, " ".intercalate rest)
  | ["chk", h] =>
    match Hex.decode h with
    | some b => (d, if ScriptCheck.isScriptCorrect b then "ok" else "bad")
    | none => (d, "bad-hex")
  | "i" :: name :: rest =>
    if d.dead then (d, "FAULT") else
    let (args, unw, ext) := splitTail rest
    match opOf name args with
    | none => ({ d with dead := true }, "unmodelled")
    | some op =>
      match tstep d.t (byteOfName name) op (topOf name args) (burnOf name args) ext with
      | none => ({ d with dead := true }, "FAULT")
      | some (t', unwM) =>
        -- the unwinding outcome computed by the model (findHandler) against the one read off the real VM
        if unwM != unw then
          ({ d with dead := true }, s!"unwind-mismatch(model {repr unwM}, real {repr unw})")
        else
          ({ d with t := t' }, obs t'.g)
  | _ => (d, "bad-op")

def main : IO Unit := Proto.run ({} : DState) stepD
