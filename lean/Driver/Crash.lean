/-
Driver for stream `crash` (C02). One op per line, one observation per line.
  case <k>                         -> case <k>                       (state reset)
  cfg srh=.. mtb=<n> rub=<b> gcp=<n> -> ok
  hdr <a> <b>                      -> ok        AddHeaders a..b
  blk <h> <ntx> <pairs|->          -> ok        AddBlock of block h (pairs = conflictId.signerId,…)
  flush                            -> abstraction of the batch the model's flush emits | none
  blkwait <h> <ntx> <pairs|->      -> AddBlock of block h with a flush during its back-pressure wait (Model/PersistGC.blockWait):
                                      abstraction of the batch that flush writes | none
  flushfail                        -> err | none   a flush the backend refuses (MemCachedStore.persist's error branch,
                                      Model/PersistFlush: begin + fail): nothing reaches the backend, the cache keeps all
  gc                               -> one tryRunGC of the model after the last flush: the SeekGC prefixes it calls | -
                                      (state changing: block deletions go to the write cache, pages are dropped)
  gcpages                          -> the header-hash pages that run removed from the backend | -
  reset <t> <cur> <hdr>            -> ok | err | heights …  Blockchain.Reset(t) on the stopped node; cur/hdr = the heights
                                      the reopened real node reports, they must be the model node's
  rbatch sem …                     -> ok | mismatch …   the real batch (semantic abstraction) against the
                                      model's stage batches (adjacent batches may coalesce; the direct
                                      SeekGC may overtake the last cached batch)
  rdone                            -> ok | missing <n>
-/
import Std.Data.HashMap
import NeoModel.Base.Proto
import NeoModel.Model.Persist
import NeoModel.Model.PersistGC
import NeoModel.Model.PersistFlush
import NeoModel.Generated.Stages
open NeoModel NeoModel.Persist

deriving instance Hashable for NeoModel.Persist.Key

/-! The model's `Db` is a function; applying change sets builds closure chains. For speed the driver keeps the
same content in a hash map and hands the model a hash-map backed function (extensionally the same database). -/
abbrev HM := Std.HashMap Key Val

def dbOf (hm : HM) : Db := fun k => hm.get? k

def compactW (hm : HM) (w : Writes) : HM :=
  w.foldl (fun m p => match p.2 with | some x => m.insert p.1 x | none => m.erase p.1) hm

structure BlkInfo where
  ntx : Nat
  pairs : List (Nat × Nat)

structure St where
  tbl : List (Nat × BlkInfo) := []
  node : Option Node := none
  mtb : Nat := 0
  gcp : Nat := 0
  rub : Bool := false
  persisted : Nat := 0       -- persisted height after the last flush
  prevPersisted : Nat := 0   -- … before it
  acceptedAtFlush : Nat := 0
  flushedSomething : Bool := false
  expected : List (Bool × Batch) := []   -- (is the direct SeekGC, batch)
  rdb : Db := Db.empty
  hm : HM := {}              -- the backend's content
  top : Nat := 0             -- highest header/block height seen in the case
  gcLast : Nat := 0          -- GNode.gcLast / GNode.lru of the model node
  lru : List Nat := []
  gcPages : List Nat := []   -- pages the last GC run removed
  times : List Nat := []     -- GNode.times (gcBlockTimes LRU)

def B : Nat := Generated.Stages.headerBatchCount
def Sblocks : Nat := Generated.Stages.resetBlocksBatch

def mkHist (tbl : List (Nat × BlkInfo)) (mtb : Nat := 0) (rub : Bool := false) : Hist :=
  { ntx := fun h => match tbl.lookup h with | some i => i.ntx | none => 0
    confl := fun h => match tbl.lookup h with | some i => i.pairs | none => []
    eff := fun h => [(h % 8, some h)]
    touched := fun _ => [0]
    hashOf := fun it => it.length
    mtb := mtb
    rub := rub }

def insertSorted (x : Nat) : List Nat → List Nat
  | [] => [x]
  | y :: r => if x < y then x :: y :: r else if x = y then y :: r else y :: insertSorted x r

def sortU (l : List Nat) : List Nat := l.foldl (fun acc x => insertSorted x acc) []

/-- "3-7,9" / "-" -/
def ranges (l : List Nat) : String :=
  let s := sortU l
  let rec go (cur : Option (Nat × Nat)) (acc : List String) : List Nat → List String
    | [] => match cur with
      | some (a, b) => acc ++ [if a = b then toString a else s!"{a}-{b}"]
      | none => acc
    | x :: r => match cur with
      | some (a, b) => if x = b + 1 then go (some (a, x)) acc r
                       else go (some (x, x)) (acc ++ [if a = b then toString a else s!"{a}-{b}"]) r
      | none => go (some (x, x)) acc r
  let parts := go none [] s
  if parts.isEmpty then "-" else String.intercalate "," parts

def pm (b : Bool) : String := if b then "+" else "-"

/-- last write per key wins (the change set is a map). -/
def dedupe (w : Writes) : Writes :=
  (w.foldl (fun (m : Std.HashMap Key (Option Val)) p => m.insert p.1 p.2) {}).toList

/-- syntactic abstraction of a flush batch, same vocabulary as the harness' abstractBatch. -/
def absWrites (w : Writes) : String :=
  let d := dedupe w
  let ver := d.any (fun p => p.1 = Key.version ∧ p.2.isSome)
  let hp := match d.lookup Key.curHeader with | some (some (Val.ptr h)) => toString h | _ => "-"
  let bp := match d.lookup Key.curBlock with | some (some (Val.ptr h)) => toString h | _ => "-"
  let blk := d.filterMap (fun p => match p with | (Key.exec _, some (Val.blk h)) => some h | _ => none)
  let hdr := d.filterMap (fun p => match p with | (Key.exec _, some (Val.hdr h)) => some h | _ => none)
  let tx := (d.filter (fun p => match p with | (Key.tx _ _, some _) => true | _ => false)).length
  let stub := (d.filter (fun p => match p with | (Key.stub _, some _) => true | _ => false)).length
  let sig := (d.filter (fun p => match p with | (Key.stubSig _ _, some _) => true | _ => false)).length
  let root := d.filterMap (fun p => match p with | (Key.root h, some _) => some h | _ => none)
  let aux := if d.any (fun p => p.1 = Key.mptLocal ∧ p.2.isSome) then "l" else "-"
  let stor := d.any (fun p => match p.1 with | Key.stor _ _ => true | _ => false)
  let mpt := d.any (fun p => match p.1 with | Key.trie _ => true | _ => false)
  let x17 := d.any (fun p => match p.1 with | Key.xlog _ => true | _ => false)
  let xi := d.any (fun p => match p.1 with | Key.xinfo _ => true | _ => false)
  let page := d.filterMap (fun p => match p with | (Key.page q, some _) => some q | _ => none)
  -- deleted 33-byte DataExecutable keys: block/header records, transactions, conflict stubs
  let dexec := (d.filter (fun p => match p with | (Key.exec _, none) => true | (Key.tx _ _, none) => true | (Key.stub _, none) => true | _ => false)).length
  s!"put ver={pm ver} hp={hp} bp={bp} blk={ranges blk} hdr={ranges hdr} tx={tx} stub={stub} sig={sig} root={ranges root} aux={aux} stor={pm stor} mpt={pm mpt} x17={pm x17} x11=- xi={pm xi} page={ranges page} stage=- sp=- dexec={dexec} dsig=0 droot=- dpage=- other=0"

/-- the finite key universe a case can touch (heights ≤ top). -/
def keyUniverse (H : Hist) (top : Nat) : List Key :=
  let hs := List.range (top + 2)
  [Key.version, Key.curBlock, Key.curHeader, Key.stage, Key.syncPoint, Key.mptLocal, Key.mptValidated]
  ++ hs.map Key.exec
  ++ hs.flatMap (fun h => (List.range (H.ntx h)).map (Key.tx h))
  ++ (List.range 4).map Key.stub
  ++ (List.range 4).flatMap (fun c => (List.range 4).map (Key.stubSig c))
  ++ hs.map Key.root ++ hs.map Key.trie
  ++ (List.range 8).map (Key.stor false) ++ (List.range 8).map (Key.stor true)
  ++ [Key.xlog 0, Key.xinfo 0]
  ++ (List.range (top / B + 2)).map (fun m => Key.page (m * B))

/-- semantic abstraction: what `after` differs from `before` in, same vocabulary as the harness' semAbstract. -/
def semDiff (keys : List Key) (before after : Db) : String :=
  let ch := keys.filter (fun k => before k ≠ after k)
  let put := ch.filterMap (fun k => (after k).map (fun v => (k, v)))
  let del := ch.filterMap (fun k => match after k with | none => (before k).map (fun v => (k, v)) | some _ => none)
  let ver := ch.any (· = Key.version)
  let ptr (k : Key) : String := if ch.any (· = k) then (match after k with | some (Val.ptr h) => toString h | none => "del" | _ => "bad") else "-"
  let stage := if ch.any (· = Key.stage) then
      (match after Key.stage with | some (Val.stagev r s) => toString ((if r then Generated.Stages.stateResetBit else 0) + s) | none => "del" | _ => "bad") else "-"
  let blk := put.filterMap (fun p => match p with | (Key.exec _, Val.blk h) => some h | _ => none)
  let hdr := put.filterMap (fun p => match p with | (Key.exec _, Val.hdr h) => some h | _ => none)
  let cnt (l : List (Key × Val)) (f : Key → Bool) : Nat := (l.filter (fun p => f p.1)).length
  let isTx : Key → Bool := fun k => match k with | Key.tx _ _ => true | _ => false
  let isStub : Key → Bool := fun k => match k with | Key.stub _ => true | _ => false
  let isSig : Key → Bool := fun k => match k with | Key.stubSig _ _ => true | _ => false
  let dblk := del.filterMap (fun p => match p with | (Key.exec _, Val.blk h) => some h | _ => none)
  let dhdr := del.filterMap (fun p => match p with | (Key.exec _, Val.hdr h) => some h | _ => none)
  let root := put.filterMap (fun p => match p.1 with | Key.root h => some h | _ => none)
  let droot := del.filterMap (fun p => match p.1 with | Key.root h => some h | _ => none)
  let aux0 := (if ch.any (· = Key.mptLocal) then "l" else "") ++ (if ch.any (· = Key.mptValidated) then "v" else "")
  let aux := if aux0 = "" then "-" else aux0
  let anyK (f : Key → Bool) : Bool := ch.any f
  let page := put.filterMap (fun p => match p.1 with | Key.page q => some q | _ => none)
  let dpage := del.filterMap (fun p => match p.1 with | Key.page q => some q | _ => none)
  s!"sem ver={pm ver} hp={ptr Key.curHeader} bp={ptr Key.curBlock} stage={stage} sp={ptr Key.syncPoint} blk={ranges blk} hdr={ranges hdr} tx={cnt put isTx} stub={cnt put isStub} sig={cnt put isSig} dblk={ranges dblk} dhdr={ranges dhdr} dtx={cnt del isTx} dstub={cnt del isStub} dsig={cnt del isSig} root={ranges root} droot={ranges droot} aux={aux} stor={pm (anyK (fun k => match k with | Key.stor _ _ => true | _ => false))} mpt={pm (anyK (fun k => match k with | Key.trie _ => true | _ => false))} x17={pm (anyK (fun k => match k with | Key.xlog _ => true | _ => false))} x11=- xi={pm (anyK (fun k => match k with | Key.xinfo _ => true | _ => false))} page={ranges page} dpage={ranges dpage} other=0"

def parsePairs (s : String) : List (Nat × Nat) :=
  if s = "-" then [] else
  (s.splitOn ",").filterMap (fun p => match p.splitOn "." with
    | [a, b] => match a.toNat?, b.toNat? with | some x, some y => some (x, y) | _, _ => none
    | _ => none)

def kv (w : String) : Option (String × String) :=
  match w.splitOn "=" with
  | [a, b] => some (a, b)
  | _ => none

/-- one tryRunGC (Model/PersistGC.gcRun) after the last flush. The transfer GC is skipped by the code when the
timestamp of the target block is not in gcBlockTimes (removeOldTransfers, blockchain.go:1566-1581): an LRU of the
last 8 block indexes divisible by GCP that storeBlock has seen. -/
def gcStep (s : St) (n : Node) : St × String :=
  if ¬ s.rub ∨ s.gcp = 0 ∨ ¬ s.flushedSomething then (s, "-") else
  let H := mkHist s.tbl
  let g : GNode := { n := n, gcLast := s.gcLast, lru := s.lru, times := s.times }
  let r := gcRun H B { mtb := s.mtb, gcp := s.gcp } g s.prevPersisted (fun _ v => v)
  if r.2.isEmpty then (s, "-") else
  -- the transfer GC ran iff the target's timestamp was still in the model's gcBlockTimes LRU
  let known := match gcTarget { mtb := s.mtb, gcp := s.gcp } s.persisted s.prevPersisted with
    | some tgt => decide (tgt ∈ s.times)
    | none => false
  let ts := if known then "7273" else ""
  -- the backend as a hash map again: what the model's database function still holds
  let hm' := s.hm.filter (fun k _ => (r.1.n.db k).isSome)
  let gone := (s.hm.toList.filterMap (fun p => match p.1 with | Key.page q => if (r.1.n.db (Key.page q)).isNone then some q else none | _ => none))
  ({ s with node := some { r.1.n with db := dbOf hm' }, hm := hm', gcLast := r.1.gcLast, lru := r.1.lru, times := r.1.times, gcPages := gone },
   ts ++ "03" ++ (if r.2.length = 2 then "80" else ""))

partial def step (s : St) (ws : List String) : St × String :=
  match ws with
  | ["case", k] => ({}, s!"case {k}")
  | "cfg" :: rest =>
    let m := rest.filterMap kv
    let num (k : String) : Nat := match m.lookup k with | some v => v.toNat?.getD 0 | none => 0
    let rub := m.lookup "rub" == some "true"
    ({ s with mtb := num "mtb", gcp := num "gcp", rub := rub, node := some (fresh (mkHist [])),
              times := if rub ∧ num "gcp" > 0 then [0] else [] }, "ok")
  | ["hdr", _, b] =>
    match s.node, b.toNat? with
    | some n, some hb =>
      let H := mkHist s.tbl
      ({ s with node := some (Persist.step H B n (.headers hb)).1, top := max s.top hb }, "ok")
    | _, _ => (s, "bad-op")
  | ["blk", h, ntx, pairs] =>
    match s.node, h.toNat?, ntx.toNat? with
    | some n, some hh, some nt =>
      if hh ≠ n.height + 1 then (s, "bad-height") else
      let tbl := (hh, { ntx := nt, pairs := parsePairs pairs : BlkInfo }) :: s.tbl
      let H := mkHist tbl
      let times := if s.rub ∧ s.gcp > 0 then noteBlockTime { mtb := s.mtb, gcp := s.gcp } s.times hh else s.times
      ({ s with tbl := tbl, node := some (Persist.step H B n .block).1, top := max s.top hh, times := times }, "ok")
    | _, _, _ => (s, "bad-op")
  | ["blkwait", h, ntx, pairs] =>
    match s.node, h.toNat?, ntx.toNat? with
    | some n, some hh, some nt =>
      if hh ≠ n.height + 1 then (s, "bad-height") else
      let tbl := (hh, { ntx := nt, pairs := parsePairs pairs : BlkInfo }) :: s.tbl
      let H := mkHist tbl
      let r := blockWait H B n
      let times := if s.rub ∧ s.gcp > 0 then noteBlockTime { mtb := s.mtb, gcp := s.gcp } s.times hh else s.times
      let flushed := n.cache ++ waitHeaderWrites B n      -- what `flush_during_wait_atomic` says the batch is
      match r.2 with
      | some _ =>
        let hm' := compactW s.hm flushed
        ({ s with tbl := tbl, node := some { r.1 with db := dbOf hm' }, hm := hm', top := max s.top hh, times := times,
                  prevPersisted := s.persisted, persisted := n.height, acceptedAtFlush := n.height, flushedSomething := true },
         absWrites flushed)
      | none => ({ s with tbl := tbl, node := some r.1, top := max s.top hh, times := times, flushedSomething := false }, "none")
    | _, _, _ => (s, "bad-op")
  | ["flush"] =>
    match s.node with
    | some n =>
      let H := mkHist s.tbl
      let r := Persist.step H B n .flush
      match r.2 with
      | some _ =>
        let hm' := compactW s.hm n.cache
        ({ s with node := some { r.1 with db := dbOf hm' }, hm := hm', prevPersisted := s.persisted, persisted := n.height, acceptedAtFlush := n.height, flushedSomething := true },
         absWrites n.cache)
      | none => ({ s with flushedSomething := false }, "none")
    | none => (s, "bad-op")
  | ["flushfail"] =>
    match s.node with
    | some n =>
      let r := mrunFrom { ps := n.db, mem := n.cache } [.begin, .fail]
      if n.cache.isEmpty then (s, "none")
      else if r.2.isEmpty then ({ s with node := some (r.1.toNode n) }, "err") else (s, "model-wrote")
    | none => (s, "bad-op")
  | ["gc"] =>
    match s.node with
    | some n => gcStep { s with gcPages := [] } n
    | none => (s, "bad-op")
  | ["gcpages"] => (s, ranges s.gcPages)
  | ["reset", t, cur, hdr] =>
    match s.node, t.toNat? with
    | some n, some tt =>
      -- the heights the reopened real node reports are the model's own, not parameters
      if cur.toNat? ≠ some n.height ∨ hdr.toNat? ≠ some n.hdrHeight then (s, s!"heights model={n.height}/{n.hdrHeight}") else
      let H := mkHist s.tbl 0 s.rub   -- a reset below the height of a RemoveUntraceableBlocks node is refused
      match Persist.reset H B Sblocks n tt with
      | .ok (bs, n') =>
        -- the direct SeekGC is the last but one batch
        let k := bs.length
        let tagged := (List.range k).zip bs |>.map (fun p => (decide (p.1 + 2 = k), p.2))
        ({ s with node := some n', expected := tagged, rdb := n.db }, "ok")
      | .error _ => (s, "err")
    | _, _ => (s, "bad-op")
  | ["synced", p, hn, mtb] =>
    -- the light node after the state-sync module has completed headers, MPT and blocks for sync point p
    match p.toNat?, hn.toNat?, mtb.toNat? with
    | some pp, some hh, some mt =>
      let H := mkHist s.tbl mt
      let n := syncedNode H B pp hh
      let keys := keyUniverse H (max s.top hh)
      let hm' : HM := keys.foldl (fun m k => match n.db k with | some v => m.insert k v | none => m) {}
      let n1 := { n with db := dbOf hm' }
      match Persist.jump H n1 pp with
      | .ok (bs, n') =>
        ({ s with node := some n', expected := bs.map (fun b => (false, b)), rdb := n1.db, hm := hm', top := max s.top hh, mtb := mt }, "ok")
      | .error _ => (s, "err")
    | _, _, _ => (s, "bad-op")
  | "jbatch" :: rest => step s ("rbatch" :: rest)
  | ["jdone"] => step s ["rdone"]
  | "rbatch" :: rest =>
    let real := String.intercalate " " rest
    let H := mkHist s.tbl s.mtb
    let keys := keyUniverse H s.top
    -- candidates: the next n expected batches coalesced; with the SeekGC swapped one place earlier
    let tryFrom (e : List (Bool × Batch)) : Option (St) :=
      let rec go (n : Nat) (fuel : Nat) : Option St :=
        match fuel with
        | 0 => none
        | fuel + 1 =>
          if n > e.length then none else
          let cand := (e.take n).flatMap (·.2)
          let gcInside := (e.take n).any (·.1) ∧ n > 1
          let after := applyBatch cand s.rdb
          if ¬ gcInside ∧ semDiff keys s.rdb after = real then
            let hm' := keys.foldl (fun m k => match after k with | some v => m.insert k v | none => m.erase k) s.hm
            some { s with expected := e.drop n, rdb := dbOf hm', hm := hm' }
          else go (n + 1) fuel
      go 1 (e.length + 1)
    let swapped : List (Bool × Batch) := match s.expected with
      | a :: b :: r => if b.1 then b :: a :: r else s.expected
      | e => e
    match tryFrom s.expected with
    | some s' => (s', "ok")
    | none =>
      match tryFrom swapped with
      | some s' => (s', "ok")
      | none =>
        let exp := match s.expected with
          | e :: _ => semDiff keys s.rdb (applyBatch e.2 s.rdb)
          | [] => "nothing"
        (s, s!"mismatch expected {exp}")
  | ["rdone"] => if s.expected.isEmpty then (s, "ok") else (s, s!"missing {s.expected.length}")
  | _ => (s, "bad-op")

def main : IO Unit := Proto.run ({} : St) step
