/-
Driver for stream `store` (C09). One op per line, one observation per line.
Stores are numbered; a MemCachedStore points to its `ps` by number (several caches may share one
lower store, as private DAO layers do). Reads build the `Store` value of the path and run the
model's `get` / `seekObs`; writes touch the node itself, flushes the node and its `ps`.

  case <k>                                  -> case <k>
  new <id> mem|level|bolt                   -> ok
  layer <id> <ps> <priv>                    -> ok
  put <id> <key> <val>                      -> ok | panic
  del <id> <key>                            -> ok | panic
  cs <id> (<key> <val|nil>)*                -> ok | panic        PutChangeSet, keys placed by chooseMap
  get <id> <key>                            -> v <hex> | nf
  seek|seeka <id> <pfx> <start> <bw> <depth> <cut> <lim>  -> <n> k:v ...
  dseek|dseeka <id> <sp> <cid> <pfx> <start> <bw> <depth> <lim>  -> <n> k:v ...   dao.Seek / dao.SeekAsync of contract <cid>
                                                     (an int32, may be negative) under storage prefix byte <sp>
  find <id> <sp> <cid> <pfx> <opts> <lim>   -> err | <n> k:v ...   System.Storage.Find; `_` = part not delivered
  seekb <id> <hold> <pfx> <start> <bw> <cut> <lim> -> ok          a Seek/SeekAsync of store <id> takes its snapshots down
                                                     to store <hold> and stops before scanning <hold>'s lower store
  seeke                                     -> <n> k:v ...      … which is scanned now (everything in between happened
                                                     inside the scan's window)
  gc <id> <pfx> <start> <bw> <lim> <mod>    -> <n> k:v ...      keep k iff (Σ bytes + len) % mod ≠ 0 (mod 0: keep all)
  persist|persistsync <id>                  -> <n>
  pbegin <id> <tmp>                         -> <n>               step 1 of persist, `tmp` = number of tempstore
  pwrite <id>                               -> ok                step 2
  pend <id>                                 -> ok alias=0        step 3 (success); alias: are the store's maps the map
  pfail <id>                                -> ok alias=1        objects the tempstore held (Model/Store/Locks.lean)
                                                     step 3 (PutChangeSet failed; nothing written)
  seekaw <id> <pfx> <start> <bw> <depth> <cut> <lim> (<key> <val|nil>)*  -> <n> k:v ...   SeekAsync, then the caller
                                                     writes to the same store, then reads: the answer as of the call
  overlap <id> <sync> <window>              -> blocked           a second PersistSync / Persist started while the
                                                     stepwise one is in flight has to wait for plock
  ppriv <id> <p>*                           -> <n>
-/
import NeoModel.Base.Proto
import NeoModel.Model.Store
import NeoModel.Model.Store.Dao
import NeoModel.Model.Store.Window
import NeoModel.Model.Store.GC
import NeoModel.Model.Store.Locks
import NeoModel.Model.Store.Flush
import NeoModel.Model.Store.Async
open NeoModel NeoModel.Store

inductive HNode where
  | base (s : Store)
  | cached (L : Layer) (ps : Nat)

abbrev Heap := List (Nat × HNode)

def Heap.find (h : Heap) (id : Nat) : Option HNode := List.lookup id h
def Heap.set (h : Heap) (id : Nat) (n : HNode) : Heap := (id, n) :: h.filter (fun e => e.1 != id)

/-- the `Store` value seen from node `id`. -/
def Heap.view (h : Heap) : Nat → Nat → Store
  | 0, _ => .memB [] []
  | fuel + 1, id =>
    match h.find id with
    | some (.base s) => s
    | some (.cached L ps) => .cached L (h.view fuel ps)
    | none => .memB [] []

def Heap.viewOf (h : Heap) (id : Nat) : Store := h.view (h.length + 1) id

def HNode.putChangeSet (n : HNode) (puts stores : GoMap) : HNode :=
  match n with
  | .base s => .base (s.putChangeSet puts stores)
  | .cached L ps => .cached (L.putCS puts stores) ps

def showKVs (l : List KV) : String :=
  l.foldl (fun acc e => acc ++ " " ++ Hex.encode e.1 ++ ":" ++ Hex.encode e.2) (toString l.length)

def parseBool (s : String) : Bool := s == "1"

def parseCS : List String → Option (List KVE)
  | [] => some []
  | [_] => none
  | k :: v :: rest => do
    let kb ← Hex.decode k
    let vb ← if v == "nil" then pure none else (Hex.decode v).map some
    let r ← parseCS rest
    pure ((kb, vb) :: r)

def keepFn (md : Nat) (k : Key) : Bool :=
  md == 0 || ((k.foldl (fun a b => a + b.toNat) 0) + k.length) % md != 0

def doSeek (h : Heap) (id pfx start bw depth cut lim : String) : Option String := do
  let p ← Hex.decode pfx
  let s ← Hex.decode start
  let d ← depth.toNat?
  let l ← lim.toNat?
  let i ← id.toNat?
  let rng : SeekRange := { pfx := p, start := s, bw := parseBool bw, depth := d }
  pure (showKVs ((h.viewOf i).seekObs rng (parseBool cut) l))

def doDaoSeek (h : Heap) (async : Bool) (id sp cid pfx start bw depth lim : String) : Option String := do
  let p ← Hex.decode pfx
  let spb ← Hex.decode sp
  let spByte ← spb.head?
  let c ← cid.toInt?
  let s ← Hex.decode start
  let d ← depth.toNat?
  let l ← lim.toNat?
  let i ← id.toNat?
  let rng : SeekRange := { pfx := p, start := s, bw := parseBool bw, depth := d }
  pure (showKVs (if async then daoSeekAsync (h.viewOf i) spByte c rng l else daoSeek (h.viewOf i) spByte c rng l))

def showPart : Option Bytes → String
  | some b => Hex.encode b
  | none => "_"

def showItems (l : List FindItem) : String :=
  l.foldl (fun acc e => acc ++ " " ++ showPart e.key ++ ":" ++ showPart e.val) (toString l.length)

def doFind (h : Heap) (id sp cid pfx opts lim : String) : Option String := do
  let p ← Hex.decode pfx
  let spb ← Hex.decode sp
  let spByte ← spb.head?
  let c ← cid.toInt?
  let o ← opts.toNat?
  let l ← lim.toNat?
  let i ← id.toNat?
  match find (h.viewOf i) spByte c p o l with
  | some items => pure (showItems items)
  | none => pure "err"

def writeNode (h : Heap) (i : Nat) (f : Layer → Layer) : Heap × String :=
  match h.find i with
  | some (.cached L ps) =>
    if L.nilMaps then (h, "panic") else (h.set i (.cached (f L) ps), "ok")
  | _ => (h, "bad-op")

def step (h : Heap) (ws : List String) : Heap × String :=
  match ws with
  | ["case", k] => ([], s!"case {k}")
  | ["new", id, kind] =>
    match id.toNat? with
    | some i =>
      let s := if kind == "level" then Store.level [] else if kind == "bolt" then Store.bolt [] else Store.memB [] []
      (h.set i (.base s), "ok")
    | none => (h, "bad-op")
  | ["layer", id, ps, priv] =>
    match id.toNat?, ps.toNat? with
    | some i, some p => (h.set i (.cached (Layer.fresh (parseBool priv)) p), "ok")
    | _, _ => (h, "bad-op")
  | ["put", id, k, v] =>
    match id.toNat?, Hex.decode k, Hex.decode v with
    | some i, some kb, some vb => writeNode h i (fun L => L.set kb (some vb))
    | _, _, _ => (h, "bad-op")
  | ["del", id, k] =>
    match id.toNat?, Hex.decode k with
    | some i, some kb => writeNode h i (fun L => L.set kb none)
    | _, _ => (h, "bad-op")
  | "cs" :: id :: rest =>
    match id.toNat?, parseCS rest with
    | some i, some es =>
      let puts := es.filter (fun e => !isStor e.1)
      let stores := es.filter (fun e => isStor e.1)
      match h.find i with
      | some (.cached L ps) =>
        if L.nilMaps && !es.isEmpty then (h, "panic") else (h.set i (.cached (L.putCS puts stores) ps), "ok")
      | some n => (h.set i (n.putChangeSet puts stores), "ok")
      | none => (h, "bad-op")
    | _, _ => (h, "bad-op")
  | ["get", id, k] =>
    match id.toNat?, Hex.decode k with
    | some i, some kb =>
      match (h.viewOf i).get kb with
      | some v => (h, "v " ++ Hex.encode v)
      | none => (h, "nf")
    | _, _ => (h, "bad-op")
  | [op, id, pfx, start, bw, depth, cut, lim] =>
    if op == "seek" || op == "seeka" then
      match doSeek h id pfx start bw depth cut lim with
      | some r => (h, r)
      | none => (h, "bad-op")
    else (h, "bad-op")
  | [op, id, sp, cid, pfx, start, bw, depth, lim] =>
    if op == "dseek" || op == "dseeka" then
      match doDaoSeek h (op == "dseeka") id sp cid pfx start bw depth lim with
      | some r => (h, r)
      | none => (h, "bad-op")
    else (h, "bad-op")
  | ["find", id, sp, cid, pfx, opts, lim] =>
    match doFind h id sp cid pfx opts lim with
    | some r => (h, r)
    | none => (h, "bad-op")
  | ["gc", id, pfx, start, bw, lim, md] =>
    match id.toNat?, Hex.decode pfx, Hex.decode start, lim.toNat?, md.toNat? with
    | some i, some p, some s, some l, some m =>
      let rng : SeekRange := { pfx := p, start := s, bw := parseBool bw, depth := 0 }
      match h.find i with
      | some (.base (.bolt db)) =>
        -- BoltDB: the cursor-level loop (delete under the cursor, move on in the shrunken bucket)
        let (vis, db') := boltSeekGC db rng (keepFn m) l
        (h.set i (.base (.bolt db')), showKVs vis)
      | some (.base st) =>
        let (vis, st') := st.seekGC rng (keepFn m) l
        (h.set i (.base st'), showKVs vis)
      | some (.cached L ps) =>
        -- only the node's own maps are touched; the lower store is irrelevant here
        match (Store.cached L (.memB [] [])).seekGC rng (keepFn m) l with
        | (vis, .cached L' _) => (h.set i (.cached L' ps), showKVs vis)
        | (vis, _) => (h, showKVs vis)
      | none => (h, "bad-op")
    | _, _, _, _, _ => (h, "bad-op")
  | [op, id] =>
    match id.toNat? with
    | none => (h, "bad-op")
    | some i =>
      if op == "persist" || op == "persistsync" then
        match h.find i with
        | some (.cached L ps) =>
          if L.count == 0 then (h, "0")
          else
            match h.find ps with
            | some low =>
              let h1 := h.set ps (low.putChangeSet L.mem L.stor)
              let L' : Layer := if L.priv then { L with mem := [], stor := [], nilMaps := true }
                                else { L with mem := [], stor := [] }
              (h1.set i (.cached L' ps), toString L.count)
            | none => (h, "bad-op")
        | _ => (h, "bad-op")
      else if op == "pwrite" then
        -- node i = fresh maps over tempstore t over low
        match h.find i with
        | some (.cached _ t) =>
          match h.find t with
          | some (.cached T low) =>
            match h.find low with
            | some ln => (h.set low (ln.putChangeSet T.mem T.stor), "ok")
            | none => (h, "bad-op")
          | _ => (h, "bad-op")
        | _ => (h, "bad-op")
      else if op == "pend" then
        match h.find i with
        | some (.cached L t) =>
          match h.find t with
          | some (.cached _ low) => (h.set i (.cached L low), "ok")
          | _ => (h, "bad-op")
        | _ => (h, "bad-op")
      else if op == "pfail" then
        match h.find i with
        | some (.cached L t) =>
          match h.find t with
          | some (.cached T low) =>
            (h.set i (.cached (fillLayer L T) low), "ok")
          | _ => (h, "bad-op")
        | _ => (h, "bad-op")
      else (h, "bad-op")
  | ["pbegin", id, tmp] =>
    match id.toNat?, tmp.toNat? with
    | some i, some t =>
      match h.find i with
      | some (.cached L ps) =>
        if L.count == 0 then (h, "0")
        else
          let h1 := h.set t (.cached { L with priv := false } ps)
          (h1.set i (.cached { L with mem := [], stor := [] } t), toString L.count)
      | _ => (h, "bad-op")
    | _, _ => (h, "bad-op")
  | "ppriv" :: id :: ps =>
    match id.toNat? with
    | some i =>
      match h.find i with
      | some (.cached L low) =>
        let ids := ps.filterMap String.toNat?
        let privs := ids.filterMap (fun p => match h.find p with | some (.cached P _) => some P | _ => none)
        let (L', n) := L.persistPrivate privs
        if n == 0 then (h, "0")
        else
          let h1 := h.set i (.cached L' low)
          let h2 := ids.foldl (fun hh p =>
            match hh.find p with
            | some (.cached P q) => hh.set p (.cached { P with mem := [], stor := [], nilMaps := true } q)
            | _ => hh) h1
          (h2, toString n)
      | _ => (h, "bad-op")
    | none => (h, "bad-op")
  | _ => (h, "bad-op")

/-! ### a scan in two critical sections -/

/-- the scan that has taken its snapshots and waits before the lower scan. -/
structure Pending where
  id : Nat
  hold : Nat
  layers : List Layer   -- the snapshotted cache layers, top first (store `id` … store `hold`)
  psId : Nat            -- the `ps` pointer read together with the last snapshot
  s0 : Store            -- the whole view of store `id` at that moment
  rng : SeekRange
  cut : Bool
  lim : Nat

structure St where
  h : Heap := []
  temps : List Nat := []          -- tempstores created by `pbegin`
  pend : Option Pending := none

/-- the layers from store `id` down to store `hold`, and `hold`'s `ps` pointer. -/
def Heap.pathTo (h : Heap) (hold : Nat) : Nat → Nat → Option (List Layer × Nat)
  | 0, _ => none
  | fuel + 1, id =>
    match h.find id with
    | some (.cached L ps) =>
      if id == hold then some ([L], ps)
      else (h.pathTo hold fuel ps).map (fun r => (L :: r.1, r.2))
    | _ => none

/-- the chain below `id` consists of tempstores and then a backend (the production shape): the
`Store.seekSplit` of the model applies. -/
def Heap.tempsThenBase (h : Heap) (temps : List Nat) : Nat → Nat → Bool
  | 0, _ => false
  | fuel + 1, id =>
    match h.find id with
    | some (.base _) => true
    | some (.cached _ ps) => temps.contains id && h.tempsThenBase temps fuel ps
    | none => false

/-- the store a scan of `id` stops at: the first shared (non-private) cache layer at or below it — the
reader's own private layers above it have no lock and no lower-store wrapper. -/
def Heap.firstShared (h : Heap) : Nat → Nat → Option Nat
  | 0, _ => none
  | fuel + 1, id =>
    match h.find id with
    | some (.cached L ps) => if L.priv then h.firstShared fuel ps else some id
    | _ => none

def stepSt (st : St) (ws : List String) : St × String :=
  match ws with
  | ["case", k] => ({}, s!"case {k}")
  | ["seekb", id, hold, pfx, start, bw, cut, lim] =>
    match id.toNat?, hold.toNat?, Hex.decode pfx, Hex.decode start, lim.toNat? with
    | some i, some hd, some p, some s, some l =>
      match (if st.h.firstShared (st.h.length + 1) i == some hd then st.h.pathTo hd (st.h.length + 1) i else none) with
      | some (layers, psId) =>
        let rng : SeekRange := { pfx := p, start := s, bw := parseBool bw, depth := 0 }
        ({ st with pend := some { id := i, hold := hd, layers := layers, psId := psId, s0 := st.h.viewOf i,
                                  rng := rng, cut := parseBool cut, lim := l } }, "ok")
      | none => (st, "bad-op")
    | _, _, _, _, _ => (st, "bad-op")
  | ["seeke"] =>
    match st.pend with
    | none => (st, "bad-op")
    | some pd =>
      -- pointer-faithful: the snapshots over the captured lower store as it is NOW
      let view := Store.under pd.layers (st.h.viewOf pd.psId)
      let res := showKVs (view.seekObs pd.rng pd.cut pd.lim)
      -- the model's two-section scan (`Store.seekSplit`, the subject of the window theorems) is
      -- this computation whenever the captured chain is tempstores over the backend
      let alt := showKVs (pd.s0.seekSplit (st.h.viewOf pd.id) pd.rng pd.cut pd.lim)
      let applies := pd.id == pd.hold && st.h.tempsThenBase st.temps (st.h.length + 1) pd.psId
      ({ st with pend := none }, if applies && alt != res then res ++ " SPLIT-MODEL-DIFFERS " ++ alt else res)
  | "seekaw" :: id :: pfx :: start :: bw :: depth :: cut :: lim :: rest =>
    -- SeekAsync on store <id>, then the caller's writes to the same store, then the reads (Model/Store/Async.lean)
    match id.toNat?, Hex.decode pfx, Hex.decode start, depth.toNat?, lim.toNat?, parseCS rest with
    | some i, some p, some s, some d, some l, some ws =>
      match st.h.find i with
      | some (.cached L ps) =>
        let rng : SeekRange := { pfx := p, start := s, bw := parseBool bw, depth := d }
        let (got, L') := seekAsyncThenWrites L (st.h.viewOf ps) rng (parseBool cut) l ws
        ({ st with h := st.h.set i (.cached L' ps) }, showKVs got)
      | _ => (st, "bad-op")
    | _, _, _, _, _, _ => (st, "bad-op")
  | ["overlap", _, sync, win] =>
    -- a second flush started while a Persist of this store is in flight: can it get in? (Model/Store/Flush.lean)
    match win.toNat? with
    | some w => (st, if Flush.overlapBlocked (parseBool sync) w then "blocked" else "done")
    | none => (st, "bad-op")
  | ["pend", _] =>
    let (h', out) := step st.h ws
    ({ st with h := h' }, if out == "ok" then out ++ (if Locks.aliasedAfter .finishOk then " alias=1" else " alias=0") else out)
  | ["pfail", _] =>
    let (h', out) := step st.h ws
    ({ st with h := h' }, if out == "ok" then out ++ (if Locks.aliasedAfter .finishFail then " alias=1" else " alias=0") else out)
  | ["pbegin", _, tmp] =>
    let (h', out) := step st.h ws
    let temps := match tmp.toNat? with | some t => if out == "0" then st.temps else t :: st.temps | none => st.temps
    ({ st with h := h', temps := temps }, out)
  | _ =>
    let (h', out) := step st.h ws
    ({ st with h := h' }, out)

def main : IO Unit := Proto.run ({} : St) stepSt
