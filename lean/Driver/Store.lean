/-
Driver for stream `store` (C09). One op per line, one observation per line.
Stores are numbered; a MemCachedStore points to its `ps` by number (several caches may share one
lower store, as private DAO layers do). Reads build the `Store` value of the path and run the
model's `get` / `seekObs`; writes touch the node itself, flushes the node and its `ps`.

  case <k>                                  -> case <k>
  new <id> mem|level|bolt                   -> ok
  layer <id> <ps> <priv>                    -> ok
  put <id> <key> <val>                      -> ok | panic
  del <id> <key>                            -> ok | panic
  cs <id> (<key> <val|nil>)*                -> ok | panic        PutChangeSet, keys placed by chooseMap
  get <id> <key>                            -> v <hex> | nf
  seek|seeka <id> <pfx> <start> <bw> <depth> <cut> <lim>  -> <n> k:v ...
  dseek|dseeka|find <id> <sp> <cid> <pfx> <start> <bw> <depth> <lim>  -> <n> k:v ...   (dao: prefix = sp‖le32(cid)‖pfx, cut)
  gc <id> <pfx> <start> <bw> <lim> <mod>    -> <n> k:v ...      keep k iff (Σ bytes + len) % mod ≠ 0 (mod 0: keep all)
  persist|persistsync <id>                  -> <n>
  pbegin <id> <tmp>                         -> <n>               step 1 of persist, `tmp` = number of tempstore
  pwrite <id>                               -> ok                step 2
  pend <id>                                 -> ok                step 3 (success)
  pfail <id>                                -> ok                step 3 (PutChangeSet failed; nothing written)
  ppriv <id> <p>*                           -> <n>
-/
import NeoModel.Base.Proto
import NeoModel.Model.Store
open NeoModel NeoModel.Store

inductive HNode where
  | base (s : Store)
  | cached (L : Layer) (ps : Nat)

abbrev Heap := List (Nat × HNode)

def Heap.find (h : Heap) (id : Nat) : Option HNode := List.lookup id h
def Heap.set (h : Heap) (id : Nat) (n : HNode) : Heap := (id, n) :: h.filter (fun e => e.1 != id)

/-- the `Store` value seen from node `id`. -/
def Heap.view (h : Heap) : Nat → Nat → Store
  | 0, _ => .memB [] []
  | fuel + 1, id =>
    match h.find id with
    | some (.base s) => s
    | some (.cached L ps) => .cached L (h.view fuel ps)
    | none => .memB [] []

def Heap.viewOf (h : Heap) (id : Nat) : Store := h.view (h.length + 1) id

def HNode.putChangeSet (n : HNode) (puts stores : GoMap) : HNode :=
  match n with
  | .base s => .base (s.putChangeSet puts stores)
  | .cached L ps => .cached (L.putCS puts stores) ps

def showKVs (l : List KV) : String :=
  l.foldl (fun acc e => acc ++ " " ++ Hex.encode e.1 ++ ":" ++ Hex.encode e.2) (toString l.length)

def parseBool (s : String) : Bool := s == "1"

def parseCS : List String → Option (List KVE)
  | [] => some []
  | [_] => none
  | k :: v :: rest => do
    let kb ← Hex.decode k
    let vb ← if v == "nil" then pure none else (Hex.decode v).map some
    let r ← parseCS rest
    pure ((kb, vb) :: r)

def le32 (n : Nat) : Bytes :=
  [UInt8.ofNat (n % 256), UInt8.ofNat (n / 256 % 256), UInt8.ofNat (n / 65536 % 256), UInt8.ofNat (n / 16777216 % 256)]

def keepFn (md : Nat) (k : Key) : Bool :=
  md == 0 || ((k.foldl (fun a b => a + b.toNat) 0) + k.length) % md != 0

def doSeek (h : Heap) (id pfx start bw depth cut lim : String) : Option String := do
  let p ← Hex.decode pfx
  let s ← Hex.decode start
  let d ← depth.toNat?
  let l ← lim.toNat?
  let i ← id.toNat?
  let rng : SeekRange := { pfx := p, start := s, bw := parseBool bw, depth := d }
  pure (showKVs ((h.viewOf i).seekObs rng (parseBool cut) l))

def doDaoSeek (h : Heap) (id sp cid pfx start bw depth lim : String) : Option String := do
  let p ← Hex.decode pfx
  let spb ← Hex.decode sp
  let c ← cid.toNat?
  let s ← Hex.decode start
  let d ← depth.toNat?
  let l ← lim.toNat?
  let i ← id.toNat?
  let rng : SeekRange := { pfx := spb ++ le32 c ++ p, start := s, bw := parseBool bw, depth := d }
  pure (showKVs ((h.viewOf i).seekObs rng true l))

def writeNode (h : Heap) (i : Nat) (f : Layer → Layer) : Heap × String :=
  match h.find i with
  | some (.cached L ps) =>
    if L.nilMaps then (h, "panic") else (h.set i (.cached (f L) ps), "ok")
  | _ => (h, "bad-op")

def step (h : Heap) (ws : List String) : Heap × String :=
  match ws with
  | ["case", k] => ([], s!"case {k}")
  | ["new", id, kind] =>
    match id.toNat? with
    | some i =>
      let s := if kind == "level" then Store.level [] else if kind == "bolt" then Store.bolt [] else Store.memB [] []
      (h.set i (.base s), "ok")
    | none => (h, "bad-op")
  | ["layer", id, ps, priv] =>
    match id.toNat?, ps.toNat? with
    | some i, some p => (h.set i (.cached (Layer.fresh (parseBool priv)) p), "ok")
    | _, _ => (h, "bad-op")
  | ["put", id, k, v] =>
    match id.toNat?, Hex.decode k, Hex.decode v with
    | some i, some kb, some vb => writeNode h i (fun L => L.set kb (some vb))
    | _, _, _ => (h, "bad-op")
  | ["del", id, k] =>
    match id.toNat?, Hex.decode k with
    | some i, some kb => writeNode h i (fun L => L.set kb none)
    | _, _ => (h, "bad-op")
  | "cs" :: id :: rest =>
    match id.toNat?, parseCS rest with
    | some i, some es =>
      let puts := es.filter (fun e => !isStor e.1)
      let stores := es.filter (fun e => isStor e.1)
      match h.find i with
      | some (.cached L ps) =>
        if L.nilMaps && !es.isEmpty then (h, "panic") else (h.set i (.cached (L.putCS puts stores) ps), "ok")
      | some n => (h.set i (n.putChangeSet puts stores), "ok")
      | none => (h, "bad-op")
    | _, _ => (h, "bad-op")
  | ["get", id, k] =>
    match id.toNat?, Hex.decode k with
    | some i, some kb =>
      match (h.viewOf i).get kb with
      | some v => (h, "v " ++ Hex.encode v)
      | none => (h, "nf")
    | _, _ => (h, "bad-op")
  | [op, id, pfx, start, bw, depth, cut, lim] =>
    if op == "seek" || op == "seeka" then
      match doSeek h id pfx start bw depth cut lim with
      | some r => (h, r)
      | none => (h, "bad-op")
    else (h, "bad-op")
  | [op, id, sp, cid, pfx, start, bw, depth, lim] =>
    if op == "dseek" || op == "dseeka" || op == "find" then
      match doDaoSeek h id sp cid pfx start bw depth lim with
      | some r => (h, r)
      | none => (h, "bad-op")
    else (h, "bad-op")
  | ["gc", id, pfx, start, bw, lim, md] =>
    match id.toNat?, Hex.decode pfx, Hex.decode start, lim.toNat?, md.toNat? with
    | some i, some p, some s, some l, some m =>
      let rng : SeekRange := { pfx := p, start := s, bw := parseBool bw, depth := 0 }
      match h.find i with
      | some (.base st) =>
        let (vis, st') := st.seekGC rng (keepFn m) l
        (h.set i (.base st'), showKVs vis)
      | some (.cached L ps) =>
        -- only the node's own maps are touched; the lower store is irrelevant here
        match (Store.cached L (.memB [] [])).seekGC rng (keepFn m) l with
        | (vis, .cached L' _) => (h.set i (.cached L' ps), showKVs vis)
        | (vis, _) => (h, showKVs vis)
      | none => (h, "bad-op")
    | _, _, _, _, _ => (h, "bad-op")
  | [op, id] =>
    match id.toNat? with
    | none => (h, "bad-op")
    | some i =>
      if op == "persist" || op == "persistsync" then
        match h.find i with
        | some (.cached L ps) =>
          if L.count == 0 then (h, "0")
          else
            match h.find ps with
            | some low =>
              let h1 := h.set ps (low.putChangeSet L.mem L.stor)
              let L' : Layer := if L.priv then { L with mem := [], stor := [], nilMaps := true }
                                else { L with mem := [], stor := [] }
              (h1.set i (.cached L' ps), toString L.count)
            | none => (h, "bad-op")
        | _ => (h, "bad-op")
      else if op == "pwrite" then
        -- node i = fresh maps over tempstore t over low
        match h.find i with
        | some (.cached _ t) =>
          match h.find t with
          | some (.cached T low) =>
            match h.find low with
            | some ln => (h.set low (ln.putChangeSet T.mem T.stor), "ok")
            | none => (h, "bad-op")
          | _ => (h, "bad-op")
        | _ => (h, "bad-op")
      else if op == "pend" then
        match h.find i with
        | some (.cached L t) =>
          match h.find t with
          | some (.cached _ low) => (h.set i (.cached L low), "ok")
          | _ => (h, "bad-op")
        | _ => (h, "bad-op")
      else if op == "pfail" then
        match h.find i with
        | some (.cached L t) =>
          match h.find t with
          | some (.cached T low) =>
            (h.set i (.cached { L with mem := mapCopy T.mem L.mem, stor := mapCopy T.stor L.stor } low), "ok")
          | _ => (h, "bad-op")
        | _ => (h, "bad-op")
      else (h, "bad-op")
  | ["pbegin", id, tmp] =>
    match id.toNat?, tmp.toNat? with
    | some i, some t =>
      match h.find i with
      | some (.cached L ps) =>
        if L.count == 0 then (h, "0")
        else
          let h1 := h.set t (.cached { L with priv := false } ps)
          (h1.set i (.cached { L with mem := [], stor := [] } t), toString L.count)
      | _ => (h, "bad-op")
    | _, _ => (h, "bad-op")
  | "ppriv" :: id :: ps =>
    match id.toNat? with
    | some i =>
      match h.find i with
      | some (.cached L low) =>
        let ids := ps.filterMap String.toNat?
        let privs := ids.filterMap (fun p => match h.find p with | some (.cached P _) => some P | _ => none)
        let (L', n) := L.persistPrivate privs
        if n == 0 then (h, "0")
        else
          let h1 := h.set i (.cached L' low)
          let h2 := ids.foldl (fun hh p =>
            match hh.find p with
            | some (.cached P q) => hh.set p (.cached { P with mem := [], stor := [], nilMaps := true } q)
            | _ => hh) h1
          (h2, toString n)
      | _ => (h, "bad-op")
    | none => (h, "bad-op")
  | _ => (h, "bad-op")

def main : IO Unit := Proto.run ([] : Heap) step
