/-
Driver for stream `codec` (C18): one op per line, one observation per line.
Strings of the Go side travel as hex of their bytes (`-` = empty).
  case <k>                          -> case <k>
  bi_to <dec>                       -> <hex>                     bigint.ToBytes
  bi_from <hex>                     -> <dec>                     bigint.FromBytes
  merkle <hex of n*32 bytes>        -> <tree root|err> <calc root>
  msig <m> <n> <okbits> <badbits>   -> comma-separated set of outcomes over all schedules
  b58enc <hex> / b58dec <hexstr>    -> <hexstr> / <hex>|err
  chkenc <hex> / chkdec <hexstr>    -> <hexstr> / <hex>|err
  addr_enc <hex> / addr_dec <hexstr>
  wif_enc <hexkey> <ver> <0|1>      -> <hexstr>|err ; wif_dec <hexstr> <ver> -> <hexkey> <0|1>|err
  f8str <dec> / f8parse <hexstr> / dec_to <dec> <p> / dec_from <hexstr> <p>
  u_decbe|u_decle <size> <hex> ; u_strbe|u_strle <hex> ; u_decstrbe|u_decstrle <size> <hexstr>
  emit_int <dec> / emit_big <dec>   -> <hex>|err ; pushed <hex> -> <dec>|err ; int64of <hex> -> <dec>|err (GetInt64FromInstr)
  emitbytes <hex>                   -> <hex>                     emit.Bytes
  msbuild <m> <hex of n*33 bytes>   -> <hex>|err ; msparse <hex> -> <m> <key,key,..>|no ; sigparse <hex> -> <hex>|no
  msbuildk <m> <k,k,..>             -> <hex>|err   keys in INPUT order, each `inf` or hex of X|Y (64 bytes); the model sorts
  pkcmp <k> <k>                     -> -1|0|1      (*PublicKey).Cmp
  pubdec <r1|k1> <hex>              -> <X|Y hex>|err   (*PublicKey).DecodeBytes on secp256r1 / secp256k1
  pubenc <k> <c|u>                  -> <hex>           Bytes() / UncompressedBytes()
  sigjoin <r dec> <s dec>           -> <hex>           getSignatureSlice ; sigsplit <hex> -> <r> <s>|err  (Verify's split)
  msdefault <k,k,..> / msmajority <k,k,..>  -> <hex>|err   CreateDefault/MajorityMultiSigRedeemScript
  sigverify <k> <sig hex> <0|1>     -> 0|1     (*PublicKey).Verify with ecdsa.Verify's answer on the first 64 bytes supplied
  pow10 <n>                         -> <dec>   fixedn.pow10 as written (table below 17, fresh product above)
  privdec <hex>                     -> <D hex 32>|err   NewPrivateKeyFromBytes(..).Bytes()
  nep2enc <priv> <pass> <addr> <dk> <enc>   -> <hexstr>      NEP2Encrypt with the primitives' results supplied
  nep2dec <str> <pass> <dk> <dec> <addr>    -> <priv>|err    NEP2Decrypt with the primitives' results supplied
-/
import NeoModel.Base.Proto
import NeoModel.Base.Sha256
import NeoModel.Model.Codec.BigInt
import NeoModel.Model.Codec.Merkle
import NeoModel.Model.Codec.Multisig
import NeoModel.Model.Codec.Base58
import NeoModel.Model.Codec.Fixed
import NeoModel.Model.Codec.Uint
import NeoModel.Model.Codec.Script
import NeoModel.Model.Codec.MsSort
import NeoModel.Model.Codec.PubKey
import NeoModel.Model.Codec.Nep2
import NeoModel.Model.Codec.KeysMisc
import NeoModel.Model.Codec.Pow10
import NeoModel.Generated.CodecConsts
open NeoModel NeoModel.Codec

def H2 : Bytes → Bytes := Sha256.hash2

def chunks (n : Nat) (b : Bytes) : List Bytes :=
  if n = 0 then [] else go n (b.length / n + 1) b
where
  go (n : Nat) : Nat → Bytes → List Bytes
    | 0, _ => []
    | fuel + 1, b => if b.isEmpty then [] else b.take n :: go n fuel (b.drop n)

def optHex : Option Bytes → String
  | some b => Hex.encode b
  | none => "err"

def optInt : Option Int → String
  | some v => toString v
  | none => "err"

def resName : MRes → String
  | .accept => "accept" | .reject => "reject" | .panic => "panic" | .undef => "undef"

def bitsOf (s : String) : List Bool := s.toList.map (· == '1')

/-- splitmix-like schedule generator for big key lists. -/
def sched (seed : Nat) (i : Nat) : Bool := ((seed + 1) * 2654435761 + i * 40503 + (seed >>> i)) % 7 < 3

def msigOutcomes (m n : Nat) (okbits badbits : List Bool) : String :=
  let ok (s k : Nat) : Bool := okbits.getD (s * n + k) false
  let bad (k : Nat) : Bool := badbits.getD k false
  let sigs := List.range m
  let keys := List.range n
  let all : List MRes :=
    if n ≤ 12 then checkMultisigParAll ok bad sigs keys
    else ((List.range 48).map fun sd =>
      let σ : Nat → Bool := if sd == 0 then fun _ => true else if sd == 1 then fun _ => false
                            else if sd == 2 then fun i => i % 2 == 0 else sched sd
      checkMultisigPar ok bad σ sigs keys).eraseDups
  let names := all.map resName
  let sorted := ["accept", "panic", "reject", "undef"].filter names.contains
  ",".intercalate sorted

def withHex (h : String) (f : Bytes → String) : String :=
  match Hex.decode h with
  | some b => f b
  | none => "bad-op"

def parseKey (w : String) : Option PubKey :=
  if w == "inf" then some none
  else match Hex.decode w with
    | some b => if b.length == 64 then some (some (leVal (b.take 32).reverse, leVal (b.drop 32).reverse)) else none
    | none => none

def parseKeys (w : String) : Option (List PubKey) :=
  if w == "-" then some [] else (w.splitOn ",").mapM parseKey

open NeoModel.Generated in
def curveByName (n : String) : Option CurveP :=
  if n == "r1" then some (mkCurve CodecConsts.r1P CodecConsts.r1A CodecConsts.r1B)
  else if n == "k1" then some (mkCurve CodecConsts.k1P CodecConsts.k1A CodecConsts.k1B)
  else none

def optBytes (w : String) : Option Bytes := Hex.decode w

def step (s : Unit) (ws : List String) : Unit × String :=
  (s, match ws with
  | ["case", k] => s!"case {k}"
  | ["bi_to", d] => match d.toInt? with
    | some n => Hex.encode (toBytes n)
    | none => "bad-op"
  | ["bi_from", h] => withHex h fun b => toString (fromBytes b)
  | ["merkle", h] => withHex h fun b =>
      let hs := chunks 32 b
      s!"{optHex (treeRoot H2 hs)} {Hex.encode (calcMerkleRoot H2 hs)}"
  | ["msig", m, n, okb, badb] =>
    match m.toNat?, n.toNat? with
    | some m, some n => msigOutcomes m n (bitsOf okb) (bitsOf badb)
    | _, _ => "bad-op"
  | ["b58enc", h] => withHex h fun b => Hex.encode (b58Encode b)
  | ["b58dec", h] => withHex h fun b => optHex (b58Decode b)
  | ["chkenc", h] => withHex h fun b => Hex.encode (checkEncode H2 b)
  | ["chkdec", h] => withHex h fun b => optHex (checkDecode H2 b)
  | ["addr_enc", h] => withHex h fun b => Hex.encode (uint160ToString H2 b)
  | ["addr_dec", h] => withHex h fun b => optHex (stringToUint160 H2 b)
  | ["wif_enc", h, v, c] => withHex h fun b =>
      match v.toNat? with
      | some v => optHex (wifEncode H2 b (UInt8.ofNat v) (c == "1"))
      | none => "bad-op"
  | ["wif_dec", h, v] => withHex h fun b =>
      match v.toNat? with
      | some v => match wifDecode H2 b (UInt8.ofNat v) with
        | some (k, c) => s!"{Hex.encode k} {if c then 1 else 0}"
        | none => "err"
      | none => "bad-op"
  | ["f8str", d] => match d.toInt? with
    | some n => Hex.encode (fixed8String n)
    | none => "bad-op"
  | ["f8parse", h] => withHex h fun b => optInt (fixed8FromString b)
  | ["dec_to", d, p] => match d.toInt?, p.toNat? with
    | some n, some p => Hex.encode (decToString n p)
    | _, _ => "bad-op"
  | ["dec_from", h, p] => withHex h fun b => match p.toNat? with
    | some p => optInt (decFromString b p)
    | none => "bad-op"
  | ["u_decbe", sz, h] => withHex h fun b => match sz.toNat? with
    | some sz => optHex (uDecodeBytesBE sz b)
    | none => "bad-op"
  | ["u_decle", sz, h] => withHex h fun b => match sz.toNat? with
    | some sz => optHex (uDecodeBytesLE sz b)
    | none => "bad-op"
  | ["u_strbe", h] => withHex h fun b => Hex.encode (uStringBE b)
  | ["u_strle", h] => withHex h fun b => Hex.encode (uStringLE b)
  | ["u_decstrbe", sz, h] => withHex h fun b => match sz.toNat? with
    | some sz => optHex (uDecodeStringBE sz b)
    | none => "bad-op"
  | ["u_decstrle", sz, h] => withHex h fun b => match sz.toNat? with
    | some sz => optHex (uDecodeStringLE sz b)
    | none => "bad-op"
  | ["emit_int", d] => match d.toInt? with
    | some n => optHex (emitInt n)
    | none => "bad-op"
  | ["emit_big", d] => match d.toInt? with
    | some n => optHex (emitBigInt n)
    | none => "bad-op"
  | ["pushed", h] => withHex h fun b => optInt (pushedInt b)
  | ["emitbytes", h] => withHex h fun b => Hex.encode (emitBytes b)
  | ["int64of", h] => withHex h fun b => (match nextInstr b 0 with
    | .ins op param _ next => if next == b.length && 0 < b.length then optInt (getInt64FromInstr op param) else "err"
    | _ => "err")
  | ["msbuild", m, h] => withHex h fun b => match m.toInt? with
    | some m => optHex (createMultiSig m (chunks 33 b))
    | none => "bad-op"
  | ["msbuildk", m, ks] => (match m.toInt?, parseKeys ks with
    | some m, some ks => optHex (createMultiSigK m ks)
    | _, _ => "bad-op")
  | ["pkcmp", a, b] => (match parseKey a, parseKey b with
    | some a, some b => (match pkCmp a b with | .lt => "-1" | .eq => "0" | .gt => "1")
    | _, _ => "bad-op")
  | ["msdefault", ks] => (match parseKeys ks with
    | some ks => optHex (createDefaultMultiSigK ks)
    | none => "bad-op")
  | ["msmajority", ks] => (match parseKeys ks with
    | some ks => optHex (createMajorityMultiSigK ks)
    | none => "bad-op")
  | ["sigverify", k, h, e] => (match parseKey k, Hex.decode h with
    | some k, some sg => if verifyLayout k sg (fun _ _ => e == "1") then "1" else "0"
    | _, _ => "bad-op")
  | ["pow10", n] => (match n.toNat? with
    | some n => toString (pow10M n)
    | none => "bad-op")
  | ["privdec", h] => withHex h fun b => (match privFromBytes b with
    | some d => Hex.encode (privBytes d)
    | none => "err")
  | ["pubdec", cn, h] => (match curveByName cn, Hex.decode h with
    | some C, some b => (match decodePub C b with
      | some (x, y) => Hex.encode (beBytes 32 x ++ beBytes 32 y)
      | none => "err")
    | _, _ => "bad-op")
  | ["pubenc", k, f] => (match parseKey k with
    | some k => Hex.encode (if f == "c" then pkBytes k else pkBytesU k)
    | none => "bad-op")
  | ["sigjoin", r, sg] => (match r.toNat?, sg.toNat? with
    | some r, some sg => Hex.encode (sigJoin r sg)
    | _, _ => "bad-op")
  | ["sigsplit", h] => withHex h fun b => (match sigSplit b with
    | some (r, sg) => s!"{r} {sg}"
    | none => "err")
  | ["nep2enc", pr, pw, ad, dk, en] => (match optBytes pr, optBytes pw, optBytes ad, optBytes dk, optBytes en with
    | some pr, some pw, some ad, some dk, some en =>
      Hex.encode (nep2Encrypt ⟨fun _ _ => dk, fun _ _ => en, fun _ _ => [], fun _ => ad⟩ H2 pr pw)
    | _, _, _, _, _ => "bad-op")
  | ["nep2dec", st, pw, dk, de, ad] => (match optBytes st, optBytes pw, optBytes dk, optBytes de, optBytes ad with
    | some st, some pw, some dk, some de, some ad =>
      optHex (nep2Decrypt ⟨fun _ _ => dk, fun _ _ => [], fun _ _ => de, fun _ => ad⟩ H2 st pw)
    | _, _, _, _, _ => "bad-op")
  | ["msparse", h] => withHex h fun b => match parseMultiSig b with
    | some (m, ks) => s!"{m} {",".intercalate (ks.map Hex.encode)}"
    | none => "no"
  | ["sigparse", h] => withHex h fun b => match parseSigContract b with
    | some k => Hex.encode k
    | none => "no"
  | _ => "bad-op")

def main : IO Unit := Proto.run () step
