/-
Driver for stream `wire`: one op per line, one observation per line.
  case <k>                    -> case <k>
  putvaruint <dec>            -> <hex>
  readvaruint <hex>           -> ok <dec> <rest-hex> | err
  readvarbytes <max> <hex>    -> ok <hex> <rest-hex> | err
-/
import NeoModel.Base.Proto
import NeoModel.Model.Wire.VarUint
open NeoModel NeoModel.Wire

def step (s : Unit) (ws : List String) : Unit × String :=
  match ws with
  | ["case", k] => (s, s!"case {k}")
  | ["putvaruint", n] =>
    match n.toNat? with
    | some v => (s, Hex.encode (putVarUint v))
    | none => (s, "bad-op")
  | ["readvaruint", h] =>
    match Hex.decode h with
    | some bs =>
      match readVarUint bs with
      | some (v, r) => (s, s!"ok {v} {Hex.encode r}")
      | none => (s, "err")
    | none => (s, "bad-op")
  | ["readvarbytes", m, h] =>
    match m.toNat?, Hex.decode h with
    | some max, some bs =>
      match readVarBytes max bs with
      | some (v, r) => (s, s!"ok {Hex.encode v} {Hex.encode r}")
      | none => (s, "err")
    | _, _ => (s, "bad-op")
  | _ => (s, "bad-op")

def main : IO Unit := Proto.run () step
