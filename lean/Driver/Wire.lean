/-
Driver for stream `wire`: one op per line, one observation per line.
  case <k>                    -> case <k>
  putvaruint <dec>            -> <hex>
  readvaruint <hex>           -> ok <dec> <rest-hex> | err
  readvarbytes <max> <hex>    -> ok <hex> <rest-hex> | err
  dec <codec> <hex>           -> ok rest=<n> enc=<hex> hash=<hex|-> v=<tokens> | err
  enc <codec> <tokens…>       -> <hex> size=<n> | bad-value
  txpaths <hex>               -> paths frombytes=<hash>/<size>|err stream=<hash>/<size>|err
  encdag <0|1> <graph tokens…>  -> <hex> size=<n> | err     (stack item with shared compounds; 1 = protected form)
  txo new|dec <hex>|frombytes <hex>|size|hash|copy|bytes|script <hex>|nonce <n>|inv <i> <hex>
                              -> ok | err | <n> | <hex>   (one Transaction OBJECT with its cached size/hash; state of the case)
  scopes dec <hex of text> | enc <byte>  -> ok <n> | err | <hex of text>   (ScopesFromString / scopesToString)
  nefbytes <hex>              -> ok enc=<hex> v=<tokens> | err            (nef.FileFromBytes)
  jsont enc <item tokens>     -> <hex of the JSON text> | err             (ToJSONWithTypes)
  jsont dec <hex of text>     -> ok <item tokens> | err | panic | unsupported   (FromJSONWithTypes; plain ASCII JSON)
  jsonu enc <item tokens>     -> <hex of the JSON text> | err             (ToJSON)
  jsonu dec <maxCount> <hex>  -> ok <item tokens> | err | unsupported     (FromJSON; plain texts, small integers)
  getvarsize ser|other|int1 <size>…  -> <n>              (io.GetVarSize of a slice, element sizes given)
  exto new|dec <hex>|hash|bytes -> …                      (one Extensible object with its cached hash)
  dec mfitem|contract <hex> <normhex>   (stored form of a manifest / deployed contract; <normhex> = what the real
                                         extraToStackItem makes of the decoded Extra: encoding/json is not modelled)
-/
import NeoModel.Base.Proto
import NeoModel.Base.Sha256
import NeoModel.Model.Wire.VarUint
import NeoModel.Model.Wire.Text
import NeoModel.Model.Wire.TextManifest
import NeoModel.Model.Wire.Identity
import NeoModel.Model.Wire.Obj
import NeoModel.Model.Wire.ItemJson
import NeoModel.Model.Wire.ItemJsonU
import NeoModel.Model.Wire.Scopes
import NeoModel.Model.Wire.MsgObj
open NeoModel NeoModel.Wire NeoModel.Wire.Text

def joinToks (t : List String) : String := " ".intercalate t

/-- generic `dec` observation of one codec. -/
def decObs {α : Type} (c : Codec α) (hash : α → Option Bytes) (shw : α → List String) (b : Bytes) : String :=
  match c.dec b with
  | none => "err"
  | some (v, r) =>
    let h := match hash v with
      | some x => Hex.encode x
      | none => "-"
    s!"ok rest={r.length} enc={Hex.encode (c.enc v)} hash={h} v={joinToks (shw v)}"

def encObs {α : Type} (c : Codec α) (p : Text.P α) (ts : List String) : String :=
  match p ts with
  | some (v, []) => s!"{Hex.encode (c.enc v)} size={c.size v}"
  | _ => "bad-value"

/-! identities: the model's definitions (Model/Wire/Identity.lean) with SHA-256 -/
def txHashD (t : Tx) : Bytes := txHash Sha256.hash p256 t
def stateRootHashD (s : StateRoot) : Bytes := stateRootHash Sha256.hash s
def extensibleHashD (e : Extensible) : Bytes := extensibleHash Sha256.hash e

/-- stack items: the re-encoding can fail (the decoder has no total-size limit, the serialiser has). -/
def itemObs (prot : Bool) (b : Bytes) : String :=
  match Item.decode prot b with
  | none => "err"
  | some (v, r) =>
    let shown := joinToks (showItem v)
    if prot then
      s!"ok rest={r.length} enc={Hex.encode (Item.serializeProtected v)} hash=- v={shown}"
    else
      match Item.serialize false v with
      | some e => s!"ok rest={r.length} enc={Hex.encode e} hash=- v={shown}"
      | none => s!"ok rest={r.length} enc=? v={shown}"

def itemEncObs (prot : Bool) (ts : List String) : String :=
  match pItem ts with
  | some (v, []) =>
    if prot then
      let e := Item.serializeProtected v
      s!"{Hex.encode e} size={e.length}"
    else
      match Item.serialize false v with
      | some e => s!"{Hex.encode e} size={e.length}"
      | none => "err"
  | _ => "bad-value"

def nodeObs (b : Bytes) : String :=
  match Node.decode b with
  | none => "err"
  | some (v, r) =>
    let h := match Node.hashOf Sha256.hash2 v with
      | some x => Hex.encode x
      | none => "-"
    s!"ok rest={r.length} enc={Hex.encode (Node.enc Sha256.hash2 v)} hash={h} v={joinToks (showNode v)}"

def nodeEncObs (ts : List String) : String :=
  match pNode ts with
  | some (v, []) =>
    let e := Node.enc Sha256.hash2 v
    s!"{Hex.encode e} size={e.length}"
  | _ => "bad-value"

/-- dBFT message as the Data of an Extensible payload: observation = re-encoding from the decoded fields, hash of
the payload rebuilt around it (category "dBFT", valid 0..blockIndex, zero sender), token dump. -/
def consObs (sr : Bool) (b : Bytes) : String :=
  match (consMsgC sr).dec b with
  | none => "err"
  | some (m, _) =>
    let e := (consMsgC sr).enc m
    let h := extensibleHashD ⟨[0x64, 0x42, 0x46, 0x54], 0, m.header.blockIndex, List.replicate 20 0, e, ⟨[], []⟩⟩
    s!"ok rest=0 enc={Hex.encode e} hash={Hex.encode h} v={joinToks (showConsMsg sr m)}"

/-- P2P message (uncompressed frames only: LZ4 is not modelled): canonical uncompressed re-encoding, dump. -/
def messageObs (sr : Bool) (b : Bytes) : String :=
  match messageDec (fun _ => none) Sha256.hash p256 sr b with
  | none => "err"
  | some (cmd, p, r) =>
    let e := frameC.enc ⟨0, cmd, payloadEnc Sha256.hash p256 sr p⟩
    s!"ok rest={r.length} enc={Hex.encode e} hash=- v={joinToks (toString cmd.toNat :: showPayload sr p)}"

def notaryHashD (r : NotaryRequest) : Bytes := notaryHash Sha256.hash p256 r

/-- stored form of a manifest: Deserialize + FromStackItem; re-encoding = Serialize (ToStackItem m). -/
def manifestObs (norm : Bytes → Bytes) (b : Bytes) : String :=
  match Item.decode false b with
  | none => "err"
  | some (it, r) =>
    match Manifest.fromItem p256 it with
    | none => "err"
    | some m =>
      let shown := joinToks (showManifest norm m)
      match Manifest.store norm m with
      | some e => s!"ok rest={r.length} enc={Hex.encode e} hash=- v={shown}"
      | none => s!"ok rest={r.length} enc=? v={shown}"

def contractObs (norm : Bytes → Bytes) (b : Bytes) : String :=
  match Item.decode false b with
  | none => "err"
  | some (it, r) =>
    match Contract.fromItem Sha256.hash2 p256 it with
    | none => "err"
    | some c =>
      let shown := joinToks (showContract norm c)
      match c.store Sha256.hash2 norm with
      | some e => s!"ok rest={r.length} enc={Hex.encode e} hash=- v={shown}"
      | none => s!"ok rest={r.length} enc=? v={shown}"

def manifestEncObs (ts : List String) : String :=
  match pManifest ts with
  | some ((m, nx), []) =>
    match Manifest.store (fun _ => nx) m with
    | some e => s!"{Hex.encode e} size={e.length}"
    | none => "err"
  | _ => "bad-value"

def contractEncObs (ts : List String) : String :=
  match pContract ts with
  | some ((c, nx), []) =>
    match c.store Sha256.hash2 (fun _ => nx) with
    | some e => s!"{Hex.encode e} size={e.length}"
    | none => "err"
  | _ => "bad-value"

/-- the serialiser with its `seen` cache on an item graph (Model/Wire/ItemDag.lean). -/
def dagEncObs (prot : Bool) (ts : List String) : String :=
  match pGraph ts with
  | some ((g, root), []) =>
    if prot then
      let e := serializeProtectedG g root
      s!"{Hex.encode e} size={e.length}"
    else
      match serializeG false g root with
      | some e => s!"{Hex.encode e} size={e.length}"
      | none => "err"
  | _ => "bad-value"

def decOp (name : String) (b : Bytes) : String :=
  match name with
  | "message0" => messageObs false b
  | "message1" => messageObs true b
  | "notaryreq" => decObs (notaryRequestC Sha256.hash p256) (fun r => some (notaryHashD r)) showNotary b
  | "p2p.version" => decObs versionC (fun _ => none) showVersion b
  | "p2p.addr" => decObs addressListC (fun _ => none) showAddrs b
  | "p2p.inv" => decObs inventoryC (fun _ => none) showInventory b
  | "p2p.getblocks" => decObs getBlocksC (fun _ => none) showGetBlocks b
  | "p2p.getblockbyindex" => decObs getBlockByIndexC (fun _ => none) showGetBlockByIndex b
  | "p2p.headers0" => decObs (headersC false) (fun _ => none) (showHeaders false) b
  | "p2p.headers1" => decObs (headersC true) (fun _ => none) (showHeaders true) b
  | "p2p.merkleblock" => decObs merkleBlockC (fun _ => none) showMerkleBlock b
  | "p2p.mptdata" => decObs mptDataC (fun _ => none) showHashList b
  | "p2p.mptinv" => decObs mptInventoryC (fun _ => none) showHashList b
  | "p2p.ping" => decObs pingC (fun _ => none) showPing b
  | "consensus0" => consObs false b
  | "consensus1" => consObs true b
  | "mptnode" => nodeObs b
  | "notification" => decObs notificationC (fun _ => none) showNotification b
  | "aer" => decObs aerC (fun _ => none) showAer b
  | "nef" => decObs (nefC Sha256.hash2) (fun _ => none) showNef b
  | "item" => itemObs false b
  | "itemprot" => itemObs true b
  | "witness" => decObs witnessC (fun _ => none) showWitness b
  | "cond" => decObs (condC p256 Generated.WireLimits.maxConditionNesting) (fun _ => none) showCond b
  | "rule" => decObs (ruleC p256) (fun _ => none) showRule b
  | "signer" => decObs (signerC p256) (fun _ => none) showSigner b
  | "attr" => decObs attrC (fun _ => none) showAttr b
  | "tx" => decObs (txC p256) (fun t => some (txHashD t)) showTx b
  | "header0" => decObs (headerC false) (fun h => some (headerHash Sha256.hash false h)) (showHeader false) b
  | "header1" => decObs (headerC true) (fun h => some (headerHash Sha256.hash true h)) (showHeader true) b
  | "block0" => decObs (blockC p256 false) (fun x => some (blockHash Sha256.hash false x)) (showBlock false) b
  | "block1" => decObs (blockC p256 true) (fun x => some (blockHash Sha256.hash true x)) (showBlock true) b
  | "stateroot" => decObs stateRootC (fun s => some (stateRootHashD s)) showStateRoot b
  | "extensible" => decObs extensibleC (fun e => some (extensibleHashD e)) showExtensible b
  | _ => "bad-op"

def encOp (name : String) (ts : List String) : String :=
  match name with
  | "mptnode" => nodeEncObs ts
  | "mfitem" => manifestEncObs ts
  | "contract" => contractEncObs ts
  | "notification" => encObs notificationC pNotification ts
  | "aer" => encObs aerC pAer ts
  | "nef" => encObs (nefC Sha256.hash2) pNef ts
  | "item" => itemEncObs false ts
  | "itemprot" => itemEncObs true ts
  | "witness" => encObs witnessC pWitness ts
  | "cond" => encObs (condC p256 Generated.WireLimits.maxConditionNesting) pCond ts
  | "rule" => encObs (ruleC p256) pRule ts
  | "signer" => encObs (signerC p256) pSigner ts
  | "attr" => encObs attrC pAttr ts
  | "tx" => encObs (txC p256) pTx ts
  | "header0" => encObs (headerC false) (pHeader false) ts
  | "header1" => encObs (headerC true) (pHeader true) ts
  | "block0" => encObs (blockC p256 false) (pBlock false) ts
  | "block1" => encObs (blockC p256 true) (pBlock true) ts
  | "stateroot" => encObs stateRootC pStateRoot ts
  | "extensible" => encObs extensibleC pExtensible ts
  | _ => "bad-op"

def txPathsObs (b : Bytes) : String :=
  let fb := match txFromBytes Sha256.hash p256 b with
    | some (_, h, sz) => s!"{Hex.encode h}/{sz}"
    | none => "err"
  let st := match txFromStream Sha256.hash p256 b with
    | some (_, h, sz, []) => s!"{Hex.encode h}/{sz}"
    | _ => "err"
  s!"paths frombytes={fb} stream={st}"

structure DrvSt where
  tx : Option TxObj := none
  ext : Option ExtObj := none
  msg : Option (MsgObj × Bool) := none   -- a Message object and its StateRootInHeader

def setNth {α : Type} : List α → Nat → (α → α) → List α
  | [], _, _ => []
  | x :: xs, 0, f => f x :: xs
  | x :: xs, n+1, f => x :: setNth xs n f

/-- operations on the Transaction object of the case. -/
def txoStep (s : DrvSt) (ws : List String) : DrvSt × String :=
  match ws, s.tx with
  | ["new"], _ => ({ s with tx := some TxObj.new }, "ok")
  | ["frombytes", h], _ =>
    match (Hex.decode h).bind (TxObj.fromBytes Sha256.hash p256) with
    | some o => ({ s with tx := some o }, "ok")
    | none => ({ s with tx := none }, "err")
  | ["dec", h], some o =>
    match (Hex.decode h).bind (o.decode Sha256.hash p256) with
    | some o' => ({ s with tx := some o' }, "ok")
    | none => ({ s with tx := none }, "err")
  | ["size"], some o => let (o', n) := o.sizeOf p256; ({ s with tx := some o' }, toString n)
  | ["hash"], some o => let (o', h) := o.hashOf Sha256.hash p256; ({ s with tx := some o' }, Hex.encode h)
  | ["copy"], some o => ({ s with tx := some o.copy }, "ok")
  | ["bytes"], some o => (s, Hex.encode ((txC p256).enc o.v))
  | ["script", h], some o =>
    match Hex.decode h with
    | some b => ({ s with tx := some (o.edit fun t => { t with body := { t.body with script := b } }) }, "ok")
    | none => (s, "bad-op")
  | ["nonce", n], some o =>
    match n.toNat? with
    | some v => ({ s with tx := some (o.edit fun t => { t with body := { t.body with nonce := v } }) }, "ok")
    | none => (s, "bad-op")
  | ["inv", i, h], some o =>
    match i.toNat?, Hex.decode h with
    | some j, some b =>
      ({ s with tx := some (o.edit fun t => { t with witnesses := setNth t.witnesses j fun w => { w with inv := b } }) }, "ok")
    | _, _ => (s, "bad-op")
  | _, _ => (s, "bad-op")

def extoStep (s : DrvSt) (ws : List String) : DrvSt × String :=
  match ws, s.ext with
  | ["new"], _ => ({ s with ext := some ExtObj.new }, "ok")
  | ["dec", h], some o =>
    match (Hex.decode h).bind o.decode with
    | some o' => ({ s with ext := some o' }, "ok")
    | none => ({ s with ext := none }, "err")
  | ["hash"], some o => let (o', h) := o.hashOf Sha256.hash; ({ s with ext := some o' }, Hex.encode h)
  | ["bytes"], some o => (s, Hex.encode (extensibleC.enc o.v))
  | _, _ => (s, "bad-op")

/-- one network.Message object through Decode / several EncodeCompressed (Model/Wire/MsgObj.lean). LZ4 is not
modelled: a compressed serialisation is observed as its flags byte and the payload bytes that were compressed, a plain
one as the whole frame. `set` puts the object into the state Decode leaves (flags, command, payload bytes). -/
def msgoStep (s : DrvSt) (ws : List String) : DrvSt × String :=
  match ws with
  | ["set", sr, fl, cmd, h] =>
    match fl.toNat?, cmd.toNat?, Hex.decode h with
    | some f, some c, some body =>
      let srb := sr == "1"
      match payloadDec Sha256.hash p256 srb (UInt8.ofNat c) body with
      | some p => ({ s with msg := some (⟨UInt8.ofNat f, UInt8.ofNat c, p⟩, srb) }, "ok")
      | none => ({ s with msg := none }, "err")
    | _, _, _ => (s, "bad-op")
  | ["dec", sr, h] =>
    let srb := sr == "1"
    match (Hex.decode h).bind (MsgObj.decode (fun _ => none) Sha256.hash p256 srb) with
    | some (o, []) => ({ s with msg := some (o, srb) }, s!"ok flags={o.flags.toNat}")
    | _ => ({ s with msg := none }, "err")
  | ["enc", a] =>
    match s.msg with
    | some (o, srb) =>
      let allow := a == "1"
      let f := o.frame id Sha256.hash p256 srb allow
      let s' := { s with msg := some ((o.encode id Sha256.hash p256 srb allow).1, srb) }
      if o.compresses Sha256.hash p256 srb allow then
        (s', s!"flags={f.flags.toNat} form=lz4 body={Hex.encode (payloadEnc Sha256.hash p256 srb o.payload)}")
      else (s', s!"flags={f.flags.toNat} form=plain frame={Hex.encode (frameC.enc f)}")
    | none => (s, "bad-op")
  | _ => (s, "bad-op")

def step (s : DrvSt) (ws : List String) : DrvSt × String :=
  match ws with
  | ["case", k] => ({}, s!"case {k}")
  | "msgo" :: rest => msgoStep s rest
  | "getvarsize" :: kind :: sizes =>
    let k : Option ElemKind := match kind with
      | "ser" => some .serializable
      | "other" => some .other
      | "ptr1" => some (.pointerOnly true)
      | "ptr0" => some (.pointerOnly false)
      | "int1" => some .int1
      | _ => none
    match k, sizes.mapM String.toNat? with
    | some k, some l => (s, toString (getVarSizeSlice k l))
    | _, _ => (s, "bad-op")
  | "jsont" :: "enc" :: ts =>
    match pItem ts with
    | some (v, []) =>
      match toJSONTyped v with
      | some t => (s, Hex.encode t)
      | none => (s, "err")
    | _ => (s, "bad-value")
  | ["jsont", "dec", h] =>
    match Hex.decode h with
    | some b =>
      match fromJSONTyped b with
      | some (.ok v) => (s, "ok " ++ joinToks (showItem v))
      | some .err => (s, "err")
      | some .panic => (s, "panic")
      | none => (s, "unsupported")
    | none => (s, "bad-op")
  | "jsonu" :: "enc" :: ts =>
    match pItem ts with
    | some (v, []) =>
      match toJSONU v with
      | some t => (s, Hex.encode t)
      | none => (s, "err")
    | _ => (s, "bad-value")
  | ["jsonu", "dec", mc, h] =>
    match mc.toNat?, Hex.decode h with
    | some maxCount, some b =>
      match fromJSONU maxCount b with
      | some (some v) => (s, "ok " ++ joinToks (showItem v))
      | some none => (s, "err")
      | none => (s, "unsupported")
    | _, _ => (s, "bad-op")
  | ["nefbytes", h] =>
    match Hex.decode h with
    | some b =>
      match nefFromBytes Sha256.hash2 b with
      | some n => (s, s!"ok enc={Hex.encode ((nefC Sha256.hash2).enc n)} v={joinToks (showNef n)}")
      | none => (s, "err")
    | none => (s, "bad-op")
  | ["scopes", "dec", h] =>
    match Hex.decode h with
    | some b =>
      match Scopes.fromString b with
      | some v => (s, s!"ok {v.toNat}")
      | none => (s, "err")
    | none => (s, "bad-op")
  | ["scopes", "enc", n] =>
    match n.toNat? with
    | some v => (s, Hex.encode (Scopes.toString (UInt8.ofNat v)))
    | none => (s, "bad-op")
  | "txo" :: rest => txoStep s rest
  | "exto" :: rest => extoStep s rest
  | ["putvaruint", n] =>
    match n.toNat? with
    | some v => (s, Hex.encode (putVarUint v))
    | none => (s, "bad-op")
  | ["readvaruint", h] =>
    match Hex.decode h with
    | some bs =>
      match readVarUint bs with
      | some (v, r) => (s, s!"ok {v} {Hex.encode r}")
      | none => (s, "err")
    | none => (s, "bad-op")
  | ["readvarbytes", m, h] =>
    match m.toNat?, Hex.decode h with
    | some max, some bs =>
      match readVarBytes max bs with
      | some (v, r) => (s, s!"ok {Hex.encode v} {Hex.encode r}")
      | none => (s, "err")
    | _, _ => (s, "bad-op")
  | ["dec", name, h] =>
    match Hex.decode h with
    | some bs => (s, decOp name bs)
    | none => (s, "bad-op")
  | ["dec", name, h, x] =>
    match Hex.decode h, Hex.decode x with
    | some bs, some nx =>
      match name with
      | "mfitem" => (s, manifestObs (fun _ => nx) bs)
      | "contract" => (s, contractObs (fun _ => nx) bs)
      | _ => (s, "bad-op")
    | _, _ => (s, "bad-op")
  | "encdag" :: "0" :: ts => (s, dagEncObs false ts)
  | "encdag" :: "1" :: ts => (s, dagEncObs true ts)
  | "enc" :: name :: ts => (s, encOp name ts)
  | ["txpaths", h] =>
    match Hex.decode h with
    | some bs => (s, txPathsObs bs)
    | none => (s, "bad-op")
  | _ => (s, "bad-op")

def main : IO Unit := Proto.run ({} : DrvSt) step
