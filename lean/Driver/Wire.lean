/-
Driver for stream `wire`: one op per line, one observation per line.
  case <k>                    -> case <k>
  putvaruint <dec>            -> <hex>
  readvaruint <hex>           -> ok <dec> <rest-hex> | err
  readvarbytes <max> <hex>    -> ok <hex> <rest-hex> | err
  dec <codec> <hex>           -> ok rest=<n> enc=<hex> hash=<hex|-> v=<tokens> | err
  enc <codec> <tokens…>       -> <hex> size=<n> | bad-value
  txpaths <hex>               -> paths frombytes=<hash>/<size>|err stream=<hash>/<size>|err
-/
import NeoModel.Base.Proto
import NeoModel.Base.Sha256
import NeoModel.Model.Wire.VarUint
import NeoModel.Model.Wire.Text
open NeoModel NeoModel.Wire NeoModel.Wire.Text

def joinToks (t : List String) : String := " ".intercalate t

/-- generic `dec` observation of one codec. -/
def decObs {α : Type} (c : Codec α) (hash : α → Option Bytes) (shw : α → List String) (b : Bytes) : String :=
  match c.dec b with
  | none => "err"
  | some (v, r) =>
    let h := match hash v with
      | some x => Hex.encode x
      | none => "-"
    s!"ok rest={r.length} enc={Hex.encode (c.enc v)} hash={h} v={joinToks (shw v)}"

def encObs {α : Type} (c : Codec α) (p : Text.P α) (ts : List String) : String :=
  match p ts with
  | some (v, []) => s!"{Hex.encode (c.enc v)} size={c.size v}"
  | _ => "bad-value"

def txHash (t : Tx) : Bytes := Sha256.hash ((txBodyC p256).enc t.body)

def stateRootHash (s : StateRoot) : Bytes :=
  Sha256.hash ((Codec.seq Codec.byte (Codec.seq (Codec.uintLE 4) (Codec.fixed 32))).enc (s.version, s.index, s.root))

def extensibleHash (e : Extensible) : Bytes :=
  Sha256.hash ((Codec.seq (Codec.varBytes Generated.WireLimits.maxExtensibleCategorySize) (Codec.seq (Codec.uintLE 4)
    (Codec.seq (Codec.uintLE 4) (Codec.seq (Codec.fixed 20) (Codec.varBytes Generated.WireLimits.payloadMaxSize))))).enc
    (e.category, e.validStart, e.validEnd, e.sender, e.data))

/-- stack items: the re-encoding can fail (the decoder has no total-size limit, the serialiser has). -/
def itemObs (prot : Bool) (b : Bytes) : String :=
  match Item.decode prot b with
  | none => "err"
  | some (v, r) =>
    let shown := joinToks (showItem v)
    if prot then
      s!"ok rest={r.length} enc={Hex.encode (Item.serializeProtected v)} hash=- v={shown}"
    else
      match Item.serialize false v with
      | some e => s!"ok rest={r.length} enc={Hex.encode e} hash=- v={shown}"
      | none => s!"ok rest={r.length} enc=? v={shown}"

def itemEncObs (prot : Bool) (ts : List String) : String :=
  match pItem ts with
  | some (v, []) =>
    if prot then
      let e := Item.serializeProtected v
      s!"{Hex.encode e} size={e.length}"
    else
      match Item.serialize false v with
      | some e => s!"{Hex.encode e} size={e.length}"
      | none => "err"
  | _ => "bad-value"

def nodeObs (b : Bytes) : String :=
  match Node.decode b with
  | none => "err"
  | some (v, r) =>
    let h := match Node.hashOf Sha256.hash2 v with
      | some x => Hex.encode x
      | none => "-"
    s!"ok rest={r.length} enc={Hex.encode (Node.enc Sha256.hash2 v)} hash={h} v={joinToks (showNode v)}"

def nodeEncObs (ts : List String) : String :=
  match pNode ts with
  | some (v, []) =>
    let e := Node.enc Sha256.hash2 v
    s!"{Hex.encode e} size={e.length}"
  | _ => "bad-value"

/-- dBFT message as the Data of an Extensible payload: observation = re-encoding from the decoded fields, hash of
the payload rebuilt around it (category "dBFT", valid 0..blockIndex, zero sender), token dump. -/
def consObs (sr : Bool) (b : Bytes) : String :=
  match (consMsgC sr).dec b with
  | none => "err"
  | some (m, _) =>
    let e := (consMsgC sr).enc m
    let h := extensibleHash ⟨[0x64, 0x42, 0x46, 0x54], 0, m.header.blockIndex, List.replicate 20 0, e, ⟨[], []⟩⟩
    s!"ok rest=0 enc={Hex.encode e} hash={Hex.encode h} v={joinToks (showConsMsg sr m)}"

/-- P2P message (uncompressed frames only: LZ4 is not modelled): canonical uncompressed re-encoding, dump. -/
def messageObs (sr : Bool) (b : Bytes) : String :=
  match messageDec (fun _ => none) Sha256.hash p256 sr b with
  | none => "err"
  | some (cmd, p, r) =>
    let e := frameC.enc ⟨0, cmd, payloadEnc Sha256.hash p256 sr p⟩
    s!"ok rest={r.length} enc={Hex.encode e} hash=- v={joinToks (toString cmd.toNat :: showPayload sr p)}"

def notaryHash (r : NotaryRequest) : Bytes :=
  Sha256.hash ((txC p256).enc r.main ++ (txC p256).enc r.fallback)

def decOp (name : String) (b : Bytes) : String :=
  match name with
  | "message0" => messageObs false b
  | "message1" => messageObs true b
  | "notaryreq" => decObs (notaryRequestC Sha256.hash p256) (fun r => some (notaryHash r)) showNotary b
  | "p2p.version" => decObs versionC (fun _ => none) showVersion b
  | "p2p.addr" => decObs addressListC (fun _ => none) showAddrs b
  | "p2p.inv" => decObs inventoryC (fun _ => none) showInventory b
  | "p2p.getblocks" => decObs getBlocksC (fun _ => none) showGetBlocks b
  | "p2p.getblockbyindex" => decObs getBlockByIndexC (fun _ => none) showGetBlockByIndex b
  | "p2p.headers0" => decObs (headersC false) (fun _ => none) (showHeaders false) b
  | "p2p.headers1" => decObs (headersC true) (fun _ => none) (showHeaders true) b
  | "p2p.merkleblock" => decObs merkleBlockC (fun _ => none) showMerkleBlock b
  | "p2p.mptdata" => decObs mptDataC (fun _ => none) showHashList b
  | "p2p.mptinv" => decObs mptInventoryC (fun _ => none) showHashList b
  | "p2p.ping" => decObs pingC (fun _ => none) showPing b
  | "consensus0" => consObs false b
  | "consensus1" => consObs true b
  | "mptnode" => nodeObs b
  | "notification" => decObs notificationC (fun _ => none) showNotification b
  | "aer" => decObs aerC (fun _ => none) showAer b
  | "nef" => decObs (nefC Sha256.hash2) (fun _ => none) showNef b
  | "item" => itemObs false b
  | "itemprot" => itemObs true b
  | "witness" => decObs witnessC (fun _ => none) showWitness b
  | "cond" => decObs (condC p256 Generated.WireLimits.maxConditionNesting) (fun _ => none) showCond b
  | "rule" => decObs (ruleC p256) (fun _ => none) showRule b
  | "signer" => decObs (signerC p256) (fun _ => none) showSigner b
  | "attr" => decObs attrC (fun _ => none) showAttr b
  | "tx" => decObs (txC p256) (fun t => some (txHash t)) showTx b
  | "header0" => decObs (headerC false) (fun h => some (headerHash Sha256.hash false h)) (showHeader false) b
  | "header1" => decObs (headerC true) (fun h => some (headerHash Sha256.hash true h)) (showHeader true) b
  | "block0" => decObs (blockC p256 false) (fun x => some (headerHash Sha256.hash false x.header)) (showBlock false) b
  | "block1" => decObs (blockC p256 true) (fun x => some (headerHash Sha256.hash true x.header)) (showBlock true) b
  | "stateroot" => decObs stateRootC (fun s => some (stateRootHash s)) showStateRoot b
  | "extensible" => decObs extensibleC (fun e => some (extensibleHash e)) showExtensible b
  | _ => "bad-op"

def encOp (name : String) (ts : List String) : String :=
  match name with
  | "mptnode" => nodeEncObs ts
  | "notification" => encObs notificationC pNotification ts
  | "aer" => encObs aerC pAer ts
  | "nef" => encObs (nefC Sha256.hash2) pNef ts
  | "item" => itemEncObs false ts
  | "itemprot" => itemEncObs true ts
  | "witness" => encObs witnessC pWitness ts
  | "cond" => encObs (condC p256 Generated.WireLimits.maxConditionNesting) pCond ts
  | "rule" => encObs (ruleC p256) pRule ts
  | "signer" => encObs (signerC p256) pSigner ts
  | "attr" => encObs attrC pAttr ts
  | "tx" => encObs (txC p256) pTx ts
  | "header0" => encObs (headerC false) (pHeader false) ts
  | "header1" => encObs (headerC true) (pHeader true) ts
  | "block0" => encObs (blockC p256 false) (pBlock false) ts
  | "block1" => encObs (blockC p256 true) (pBlock true) ts
  | "stateroot" => encObs stateRootC pStateRoot ts
  | "extensible" => encObs extensibleC pExtensible ts
  | _ => "bad-op"

def txPathsObs (b : Bytes) : String :=
  let fb := match txFromBytes Sha256.hash p256 b with
    | some (_, h, sz) => s!"{Hex.encode h}/{sz}"
    | none => "err"
  let st := match txFromStream Sha256.hash p256 b with
    | some (_, h, sz, []) => s!"{Hex.encode h}/{sz}"
    | _ => "err"
  s!"paths frombytes={fb} stream={st}"

def step (s : Unit) (ws : List String) : Unit × String :=
  match ws with
  | ["case", k] => (s, s!"case {k}")
  | ["putvaruint", n] =>
    match n.toNat? with
    | some v => (s, Hex.encode (putVarUint v))
    | none => (s, "bad-op")
  | ["readvaruint", h] =>
    match Hex.decode h with
    | some bs =>
      match readVarUint bs with
      | some (v, r) => (s, s!"ok {v} {Hex.encode r}")
      | none => (s, "err")
    | none => (s, "bad-op")
  | ["readvarbytes", m, h] =>
    match m.toNat?, Hex.decode h with
    | some max, some bs =>
      match readVarBytes max bs with
      | some (v, r) => (s, s!"ok {Hex.encode v} {Hex.encode r}")
      | none => (s, "err")
    | _, _ => (s, "bad-op")
  | ["dec", name, h] =>
    match Hex.decode h with
    | some bs => (s, decOp name bs)
    | none => (s, "bad-op")
  | "enc" :: name :: ts => (s, encOp name ts)
  | ["txpaths", h] =>
    match Hex.decode h with
    | some bs => (s, txPathsObs bs)
    | none => (s, "bad-op")
  | _ => (s, "bad-op")

def main : IO Unit := Proto.run () step
