import NeoModel.Base.Proto
import NeoModel.Model.Flags.Manifest
import NeoModel.Generated.ManifestConsts
open NeoModel NeoModel.Flags.MF

namespace ManIO

def pList {α : Type} (f : String → Option α) (sep : String) (s : String) : Option (List α) :=
  if s == "_" then some [] else (s.splitOn sep).mapM f

def pParam (s : String) : Option Param :=
  match s.splitOn "." with
  | [n, t] => do pure ⟨← Hex.decode n, ← t.toNat?⟩
  | _ => none

def pInt (s : String) : Option Int :=
  match s.toList with
  | '-' :: r => (String.ofList r).toNat?.map (fun n => -(n : Int))
  | _ => s.toNat?.map (fun n => (n : Int))

def pMethod (s : String) : Option Method :=
  match s.splitOn "/" with
  | [n, off, ret, safe, ps] => do
    pure ⟨← Hex.decode n, ← pInt off, ← pList pParam "+" ps, ← ret.toNat?, safe == "1"⟩
  | _ => none

def pEvent (s : String) : Option Event :=
  match s.splitOn "/" with
  | [n, ps] => do pure ⟨← Hex.decode n, ← pList pParam "+" ps⟩
  | _ => none

/-- a group with the verdict of PublicKey.Verify for it. -/
def pGroup (s : String) : Option (Group × Bool) :=
  match s.splitOn "/" with
  | [k, sg, v] => do pure (⟨← Hex.decode k, ← Hex.decode sg⟩, v == "1")
  | _ => none

def pDesc (s : String) : Option Desc :=
  match s.toList with
  | ['w'] => some .wildcard
  | 'h' :: r => (Hex.decode (String.ofList r)).map .hash
  | 'g' :: r => (Hex.decode (String.ofList r)).map .group
  | _ => none

def pPerm (s : String) : Option Perm :=
  match s.splitOn "/" with
  | [d, ms] => do
    let desc ← pDesc d
    if ms == "*" then pure ⟨desc, none⟩ else pure ⟨desc, some (← pList Hex.decode "+" ms)⟩
  | _ => none

def pTrusts (s : String) : Option Trusts :=
  if s == "*" then some ⟨none, true⟩
  else if s == "nil" then some ⟨none, false⟩
  else match s.toList with
    | '*' :: ':' :: r => (pList pDesc "," (String.ofList r)).map (fun v => ⟨some v, true⟩)
    | _ => (pList pDesc "," s).map (fun v => ⟨some v, false⟩)

def pGroups (s : String) : Option (Option (List (Group × Bool))) :=
  if s == "nil" then some none else (pList pGroup "," s).map some

/-- the nine manifest fields of a line; also returns the Verify verdicts. -/
def pMan (ws : List String) : Option (Man × List (Group × Bool)) :=
  match ws with
  | [name, groups, feat, std, methods, events, perms, trusts, extra] => do
    let gs ← pGroups groups
    let m : Man := ⟨← Hex.decode name, gs.map (·.map (·.1)), ← Hex.decode feat, ← pList Hex.decode "," std,
      ← pList pMethod "," methods, ← pList pEvent "," events, ← pList pPerm "," perms, ← pTrusts trusts, ← Hex.decode extra⟩
    pure (m, gs.getD [])
  | _ => none

def sList {α : Type} (f : α → String) (sep : String) (l : List α) : String :=
  if l.isEmpty then "_" else sep.intercalate (l.map f)

def sParam (p : Param) : String := s!"{Hex.encode p.name}.{p.typ}"
def sMethod (m : Method) : String :=
  s!"{Hex.encode m.name}/{m.offset}/{m.ret}/{if m.safe then "1" else "0"}/{sList sParam "+" m.params}"
def sEvent (e : Event) : String := s!"{Hex.encode e.name}/{sList sParam "+" e.params}"
def sGroup (g : Group) : String := s!"{Hex.encode g.key}/{Hex.encode g.sig}"
def sDesc : Desc → String
  | .wildcard => "w"
  | .hash h => "h" ++ Hex.encode h
  | .group k => "g" ++ Hex.encode k
def sPerm (p : Perm) : String :=
  sDesc p.contract ++ "/" ++ (match p.methods with | none => "*" | some ms => sList Hex.encode "+" ms)
def sTrusts (t : Trusts) : String :=
  match t.wildcard, t.value with
  | true, none => "*"
  | true, some v => "*:" ++ sList sDesc "," v
  | false, none => "nil"
  | false, some v => sList sDesc "," v
def sMan (m : Man) : String :=
  " ".intercalate [Hex.encode m.name, (match m.groups with | none => "nil" | some gs => sList sGroup "," gs),
    Hex.encode m.features, sList Hex.encode "," m.standards, sList sMethod "," m.methods, sList sEvent "," m.events,
    sList sPerm "," m.perms, sTrusts m.trusts, Hex.encode m.extra]

def sErr : Err → String
  | .noName => "noName" | .emptyStandard => "emptyStandard" | .dupStandards => "dupStandards"
  | .noMethods => "noMethods" | .methodEmptyName => "methodEmptyName" | .methodNegOffset => "methodNegOffset"
  | .methodBadReturn => "methodBadReturn" | .paramEmptyName => "paramEmptyName" | .paramVoid => "paramVoid"
  | .paramBadType => "paramBadType" | .dupParams => "dupParams" | .dupMethods => "dupMethods"
  | .eventEmptyName => "eventEmptyName" | .dupEvents => "dupEvents" | .badFeatures => "badFeatures"
  | .nullGroups => "nullGroups" | .badGroupSignature => "badGroupSignature" | .dupGroups => "dupGroups"
  | .nullTrusts => "nullTrusts" | .dupTrusts => "dupTrusts" | .permEmptyMethod => "permEmptyMethod"
  | .permDupMethods => "permDupMethods" | .dupPermissions => "dupPermissions"
  | .notSerializable => "notSerializable"

/-- utf8.Valid. -/
def utf8Valid : Bytes → Bool
  | [] => true
  | b :: rest =>
    let cont (x : UInt8) (lo hi : UInt8) : Bool := lo ≤ x && x ≤ hi
    if b < 0x80 then utf8Valid rest
    else if 0xc2 ≤ b && b ≤ 0xdf then
      match rest with
      | c1 :: r => cont c1 0x80 0xbf && utf8Valid r
      | _ => false
    else if 0xe0 ≤ b && b ≤ 0xef then
      match rest with
      | c1 :: c2 :: r =>
        let lo : UInt8 := if b == 0xe0 then 0xa0 else 0x80
        let hi : UInt8 := if b == 0xed then 0x9f else 0xbf
        cont c1 lo hi && cont c2 0x80 0xbf && utf8Valid r
      | _ => false
    else if 0xf0 ≤ b && b ≤ 0xf4 then
      match rest with
      | c1 :: c2 :: c3 :: r =>
        let lo : UInt8 := if b == 0xf0 then 0x90 else 0x80
        let hi : UInt8 := if b == 0xf4 then 0x8f else 0xbf
        cont c1 lo hi && cont c2 0x80 0xbf && cont c3 0x80 0xbf && utf8Valid r
      | _ => false
    else false
termination_by l => l.length

/-- JSON whitespace outside string literals removed (the driver's instance of the re-marshalling of `extra`;
the generator keeps to values for which that is all ojson.Marshal ∘ Decode does). -/
def compactJSON (bs : Bytes) : Bytes :=
  let rec go (l : Bytes) (inStr esc : Bool) (acc : Bytes) : Bytes :=
    match l with
    | [] => acc.reverse
    | c :: r =>
      if inStr then
        if esc then go r true false (c :: acc)
        else if c == 0x5c then go r true true (c :: acc)
        else if c == 0x22 then go r false false (c :: acc)
        else go r true false (c :: acc)
      else if c == 0x22 then go r true false (c :: acc)
      else if c == 0x20 || c == 0x0a || c == 0x09 || c == 0x0d then go r false false acc
      else go r false false (c :: acc)
  go bs false false []

/-- the driver's key decoder: a compressed point encoding (the generator only uses real keys). -/
def decodeKey (k : Bytes) : Option Bytes :=
  match k with
  | p :: _ => if k.length == 33 && (p == 2 || p == 3) then some k else none
  | [] => none

mutual
/-- replace the k-th leaf (preorder; a leaf is any item that is not an Array / Struct) of an item. -/
def replLeaf (r : Item) (k : Option Nat) : Item → Item × Option Nat
  | .array xs => let (ys, k') := replLeafs r k xs; (.array ys, k')
  | .struct xs => let (ys, k') := replLeafs r k xs; (.struct ys, k')
  | leaf => match k with
    | none => (leaf, none)
    | some 0 => (r, none)
    | some (n + 1) => (leaf, some n)
def replLeafs (r : Item) (k : Option Nat) : List Item → List Item × Option Nat
  | [] => ([], k)
  | x :: xs =>
    let (y, k1) := replLeaf r k x
    let (ys, k2) := replLeafs r k1 xs
    (y :: ys, k2)
end

/-- a replacement item of an `mitemx` line. -/
def pRepl (s : String) : Option Item :=
  match s.toList with
  | ['n'] => some .null
  | ['t'] => some (.bool true)
  | ['f'] => some (.bool false)
  | ['a'] => some (.array [])
  | ['s'] => some (.struct [])
  | ['m'] => some (.map 0)
  | 'i' :: r => (pInt (String.ofList r)).map .int
  | 'x' :: r => (Hex.decode (String.ofList r)).map .bytes
  | 'u' :: r => (Hex.decode (String.ofList r)).map .buffer
  | _ => none

/-- the decoding parameters of the driver. -/
def dec : Dec := ⟨utf8Valid, decodeKey, Generated.ManifestConsts.validParamTypes⟩

/-- the `mvalid` / `mitem` / `mcancall` lines. -/
def step (ws : List String) : Option String :=
  match ws with
  | "mvalid" :: ch :: rest =>
    (pMan rest).map fun (m, gv) =>
      let verify (k s : Bytes) : Bool := ((gv.find? (fun x => x.1.key == k && x.1.sig == s)).map (·.2)).getD false
      match m.isValid Generated.ManifestConsts.validParamTypes verify (ch == "1") with
      | none => "ok"
      | some e => "err:" ++ sErr e
  | "mvalidsz" :: ch :: rest =>
    (pMan rest).map fun (m, gv) =>
      let verify (k s : Bytes) : Bool := ((gv.find? (fun x => x.1.key == k && x.1.sig == s)).map (·.2)).getD false
      match m.isValidFull Generated.ManifestConsts.validParamTypes verify (ch == "1") true compactJSON with
      | none => "ok"
      | some e => "err:" ++ sErr e
  | "mitem" :: rest =>
    (pMan rest).map fun (m, _) =>
      match dec.man (m.toItem compactJSON) with
      | some m' => sMan m'
      | none => "err"
  | "mitemx" :: k :: r :: rest => do
    let (m, _) ← pMan rest
    let k ← k.toNat?
    let r ← pRepl r
    let it := (replLeaf r (some k) (m.toItem compactJSON)).1
    pure (match dec.man it with
      | some m' => sMan m'
      | none => "err")
  | ["mcancall", perms, hash, groups, method] => do
    let ps ← pList pPerm "," perms
    let h ← Hex.decode hash
    let gs ← pList Hex.decode "," groups
    let meth ← Hex.decode method
    let caller : Man := ⟨[], some [], [], [], [], [], ps, ⟨none, true⟩, []⟩
    let callee : Man := ⟨[], some (gs.map (fun k => ⟨k, []⟩)), [], [], [], [], [], ⟨none, true⟩, []⟩
    pure (toString (caller.canCall h callee meth))
  | _ => none

end ManIO
