/-
Driver for stream `ledger` (C01). Two model nodes (replica A: flushed after every block, never restarted;
replica B: the schedule the harness chose) run the abstract node of Model/Ledger.lean instantiated with the
modelled natives (Model/Ledger/NativeSys.lean).

  case <k>                                   -> case <k>
  net <csize> <vcount> <n> <pub0> … <pubn-1> -> ok
  proto <mtb> <vubi> <mspb>                  -> ok      (protocol configuration: genesis values of the settings)
  genesis | endblock | final                 -> <obs A> | <obs B>
      mgmt=<tok>=<id>:<upd>:<cached manifest object>/<id>:<upd>:<stored manifest item> …: the restarted replica's cache
      is Manifest.FromStackItem of the stored item (Model/Ledger/Mgmt.lean `init`)
  block <h> <primary> <timestamp ms>         -> ok
  tx s=<tok,…> c=<m:i.j.k|-> <kind> <args…> [oog]  -> halt true | halt false | halt | fault | skip  (replica A)
      the committee setters (policy.setAttributeFee … neo.setGasPerBlock, role.designate) are PREDICTED by the guarded
      components (Model/Ledger/Guarded.lean) run against the committee replica A's NEO cache holds at this block
  restartB | flushB                          -> ok
  aborted                                    -> aborted
-/
import NeoModel.Base.Proto
import NeoModel.Base.Hex
import NeoModel.Model.Ledger.NativeSys
import NeoModel.Model.Ledger.Whitelist
import NeoModel.Model.Ledger.Components
import NeoModel.Model.Ledger.Guarded
import NeoModel.Model.Ledger.Mgmt
import NeoModel.Model.Ledger.Reward
import NeoModel.Model.Ledger.Recover
open NeoModel NeoModel.Ledger NeoModel.Ledger.Natives NeoModel.Ledger.Components NeoModel.Ledger.Guarded

structure DState where
  cfg : Cfg := { committeeSize := 1, validators := 1, standby := [] }
  nkeys : Nat := 0
  rank : List Nat := []           -- key index -> rank
  toks : List (String × Acct) := []
  nextOther : Nat := 1
  a : NNode := genesisNode { committeeSize := 1, validators := 1, standby := [] } (Acct.other 0)
  b : NNode := genesisNode { committeeSize := 1, validators := 1, standby := [] } (Acct.other 0)
  wlA : Whitelist.State := Whitelist.empty   -- whitelisted fees as replica A / B cache them
  wlB : Whitelist.State := Whitelist.empty
  wlPending : List (Option Whitelist.Op) := []  -- whitelist effect of each pending transaction (applied if it HALTs)
  methods : List String := []     -- method names seen (index = method id)
  -- cached components (Model/Ledger/Components.lean), replica A and B
  setA : Comp.CNode (List (Nat × Int)) (List (Nat × Int)) := { store := [], cache := [], height := 0 }
  setB : Comp.CNode (List (Nat × Int)) (List (Nat × Int)) := { store := [], cache := [], height := 0 }
  roleA : Comp.CNode RoleStore RoleCache := { store := [], cache := gdesignate.init [], height := 0 }
  roleB : Comp.CNode RoleStore RoleCache := { store := [], cache := gdesignate.init [], height := 0 }
  mgA : Comp.CNode Mgmt.MStore Mgmt.MCache := { store := Mgmt.emptyStore, cache := fun _ => none, height := 0 }
  mgB : Comp.CNode Mgmt.MStore Mgmt.MCache := { store := Mgmt.emptyStore, cache := fun _ => none, height := 0 }
  setTxs : List (CTx (GCall GSetOp)) := []
  roleTxs : List (CTx (GCall DesOp)) := []
  gpbTxs : List (CTx (GCall Int)) := []
  mdTxs : List (CTx (GCall Int)) := []
  -- NEO reward-per-vote records (prefix 23) / gasPerVoteCache and the reward fields of the account records (the standby
  -- validators' account holds all NEO at genesis)
  rsA : Reward.RState := { gpv := { store := [], cache := [] }, acc := [(Acct.other 0, (0, 0))] }
  rsB : Reward.RState := { gpv := { store := [], cache := [] }, acc := [(Acct.other 0, (0, 0))] }
  mdA : Comp.CNode Int Unit := { store := 1000000000, cache := (), height := 0 }   -- defaultMinimumDeploymentFee (management.go:816)
  mdB : Comp.CNode Int Unit := { store := 1000000000, cache := (), height := 0 }
  mgTxs : List (CTx Mgmt.MOp) := []
  mgToks : List String := []      -- tokens of contracts whose deployment was part of a block
  gpbA : Comp.CNode (List (Nat × Int)) (List (Nat × Int)) := { store := [(0, 500000000)], cache := [(0, 500000000)], height := 0 }   -- genesis record (native_neo.go:345-349)
  gpbB : Comp.CNode (List (Nat × Int)) (List (Nat × Int)) := { store := [(0, 500000000)], cache := [(0, 500000000)], height := 0 }
  now : Nat := 0                  -- timestamp of the block being read (ic.GetTime)
  btA : Recover.BlockTimes := []  -- replica A: blocked account ↦ block time of its blocking (Policy record, prefix 15)
  pending : List Tx := []         -- transactions of the block being read
  height : Nat := 0

def dropS (t : String) (n : Nat) : String := String.ofList (t.toList.drop n)

def acctId : Acct → Nat
  | .other n => n
  | .key k => 1000000 + k

def parseInt (t : String) : Int :=
  if t.startsWith "-" then -((dropS t 1).toNat?.getD 0 : Nat) else ((t.toNat?.getD 0 : Nat) : Int)

def rankOf (s : DState) (i : Nat) : Nat := s.rank.getD i 0

def indexOfRank (s : DState) (r : Nat) : Nat :=
  match s.rank.findIdx? (· == r) with
  | some i => i
  | none => 999

/-- token -> account (allocating a fresh `other` id for an unseen token). -/
def acctOf (s : DState) (t : String) : DState × Acct :=
  if t == "val" then (s, Acct.other 0)
  else if t.startsWith "k" then
    match (dropS t 1).toNat? with
    | some i => (s, Acct.key (rankOf s i))
    | none => (s, Acct.other 0)
  else
    match s.toks.find? (·.1 == t) with
    | some (_, a) => (s, a)
    | none =>
      let a := Acct.other s.nextOther
      ({ s with toks := (t, a) :: s.toks, nextOther := s.nextOther + 1 }, a)

def tokOf (s : DState) (a : Acct) : String :=
  match a with
  | .key r => s!"k{indexOfRank s r}"
  | .other 0 => "val"
  | .other n =>
    match s.toks.find? (fun p => p.2 == Acct.other n) with
    | some (t, _) => t
    | none => s!"o{n}"

def insertStr (x : String) : List String → List String
  | [] => [x]
  | y :: r => if x ≤ y then x :: y :: r else y :: insertStr x r

def sortStr (l : List String) : List String := l.foldr insertStr []

def joinOr (sep : String) (l : List String) : String :=
  if l.isEmpty then "-" else sep.intercalate l

def idxList (s : DState) (ks : List Key) : String :=
  joinOr "." (ks.map fun r => toString (indexOfRank s r))

def wlStr (s : DState) (l : List (Whitelist.WKey × Int)) : String :=
  joinOr "," (sortStr (l.map fun ((c, m), fee) => s!"{tokOf s (Acct.other c)}.{s.methods.getD m "?"}:{fee}"))

def settingNames : List (String × Nat) :=
  [("af1", 1), ("af17", 17), ("af32", 32), ("af33", 33), ("af34", 34), ("vubi", 100), ("mtb", 101), ("mspb", 102),
   ("nvbd", 103), ("oprice", 104), ("regprice", 105)]

def settingsStr (n : Comp.CNode (List (Nat × Int)) (List (Nat × Int))) : String :=
  ",".intercalate (settingNames.map fun (nm, k) =>
    let c := match aget n.cache k with | some v => toString v | none => "0"
    let st := match aget n.store k with | some v => toString v | none => "nil"
    s!"{nm}:{c}/{st}")

def nodesStr (s : DState) (l : List Nat) : String := joinOr "." ((sortNat (l.map (indexOfRank s))).map toString)

def rolesStr (s : DState) (n : Comp.CNode RoleStore RoleCache) : String :=
  ",".intercalate (roleList.map fun r =>
    let c := match (n.cache.find? (·.1 == r)).map (·.2) with
      | some (some (h, ns)) => s!"{h}:{nodesStr s ns}"
      | _ => "0:-"
    let st := match maxEntry n.store r with
      | some (h, ns) => s!"{h}:{nodesStr s ns}"
      | none => "0:-"
    let cnt := (n.store.filter fun e => e.1.1 == r).length
    s!"{r}={c}/{st}:{cnt}")

-- ContractManagement with manifests (Model/Ledger/Mgmt.lean) -----------------------------------------------------------
open NeoModel.Flags.MF in
/-- contract number ↦ the 20 bytes permissions mention -/
def hash20 (n : Nat) : Bytes :=
  List.replicate 16 0 ++ [UInt8.ofNat (n / 16777216), UInt8.ofNat (n / 65536), UInt8.ofNat (n / 256), UInt8.ofNat n]

def numOfHash (b : Bytes) : Nat :=
  match b.drop 16 with
  | [a, b, c, d] => a.toNat * 16777216 + b.toNat * 65536 + c.toNat * 256 + d.toNat
  | _ => 0

/-- key index ↦ 33 bytes standing for the compressed key -/
def key33 (i : Nat) : Bytes := [2] ++ List.replicate 31 0 ++ [UInt8.ofNat i]

def mgmtParams : Mgmt.Params := Mgmt.driverParams hash20

def kvxMethods : List String :=
  ["put", "del", "get", "putAbort", "putThrow", "fill", "ver", "update", "destroy", "_deploy", "onNEP17Payment", "forward"]

def strBytes (t : String) : Bytes := t.toUTF8.toList
def bytesStr (b : Bytes) : String := String.ofList (b.map fun c => Char.ofNat c.toNat)

open NeoModel.Flags.MF in
def parseDesc (s : DState) (t : String) : DState × Desc :=
  if t == "*" then (s, .wildcard)
  else if t.startsWith "h" then
    let (s, a) := acctOf s (dropS t 1)
    (s, .hash (hash20 (acctId a)))
  else (s, .group (key33 ((dropS t 1).toNat?.getD 0)))

open NeoModel.Flags.MF in
/-- `p=… t=… g=… s=…` of a kv.deploy / kv.update line ↦ the manifest object (name = the contract token) -/
def parseMan (s : DState) (tok : String) (ws : List String) : DState × Man :=
  let field (pre : String) : String := match ws.find? (·.startsWith pre) with | some f => dropS f pre.length | none => "-"
  let (s, perms) := (if field "p=" == "-" then [] else (field "p=").splitOn ";").foldl (fun (acc : DState × List Perm) e =>
    match e.splitOn ":" with
    | [d, ms] =>
      let (s', desc) := parseDesc acc.1 d
      let methods : Option (List Bytes) := if ms == "*" then none else if ms == "-" then some [] else some ((ms.splitOn "+").map strBytes)
      (s', acc.2 ++ [⟨desc, methods⟩])
    | _ => acc) (s, [])
  let tf := field "t="
  let (s, trusts) : DState × Trusts :=
    if tf == "*" then (s, ⟨none, true⟩)
    else if tf == "-" then (s, ⟨some [], false⟩)
    else
      let (s', ds) := (tf.splitOn ",").foldl (fun (acc : DState × List Desc) e =>
        let (s'', d) := parseDesc acc.1 e
        (s'', acc.2 ++ [d])) (s, [])
      (s', ⟨some ds, false⟩)
  let gf := field "g="
  let groups : List Group := if gf == "-" then [] else (gf.splitOn ",").map fun g => ⟨key33 (g.toNat?.getD 0), List.replicate 64 0⟩
  let sf := field "s="
  let safe : List String := if sf == "-" then [] else sf.splitOn "+"
  let methods : List Method := kvxMethods.map fun n => ⟨strBytes n, 0, [], 0xff, safe.contains n⟩
  (s, { name := strBytes tok, groups := some groups, features := [0x7b, 0x7d], standards := [], methods := methods,
        events := [], perms := perms, trusts := trusts, extra := [] })

open NeoModel.Flags.MF in
/-- the manifest ContractManagement itself is registered with (natives live in the same cache): everything callable -/
def nativeMgmtMan : Man :=
  { name := strBytes "ContractManagement", groups := some [], features := [0x7b, 0x7d], standards := [],
    methods := ["deploy", "update", "destroy"].map fun n => ⟨strBytes n, 0, [], 0xff, false⟩,
    events := [], perms := [⟨.wildcard, none⟩], trusts := ⟨some [], false⟩, extra := [] }

open NeoModel.Flags.MF in
def descStr (s : DState) : Desc → String
  | .wildcard => "*"
  | .hash h => "h" ++ tokOf s (Acct.other (numOfHash h))
  | .group k => s!"g{(k.getLast?.getD 0).toNat}"

def methodsStr (ms : Option (List Bytes)) : String :=
  match ms with
  | none => "*"
  | some [] => "-"
  | some l => "+".intercalate (l.map bytesStr)

open NeoModel.Flags.MF in
/-- what the consensus-relevant readers see of a cached manifest OBJECT: permissions|trusts|groups|safe methods -/
def manObjStr (s : DState) (m : Man) : String :=
  let ps := m.perms.map fun p => s!"{descStr s p.contract}:{methodsStr p.methods}"
  let t := if m.trusts.wildcard then "*" else match m.trusts.value.getD [] with
    | [] => "-"
    | l => ",".intercalate (l.map (descStr s))
  let gs := (m.groups.getD []).map fun g => toString (g.key.getLast?.getD 0).toNat
  let ss := (m.methods.filter (·.safe)).map fun x => bytesStr x.name
  s!"{joinOr ";" ps}|{t}|{joinOr "," gs}|{joinOr "+" ss}"

open NeoModel.Flags.MF in
def descItemStr (s : DState) : Item → String
  | .null => "*"
  | .bytes b => if b.length == 20 then "h" ++ tokOf s (Acct.other (numOfHash b)) else s!"g{(b.getLast?.getD 0).toNat}"
  | _ => "?"

open NeoModel.Flags.MF in
/-- the same from the STORED stack item, read structurally (not through the decoder) -/
def manItemStr (s : DState) : Item → String
  | .struct [_, .array gs, _, _, .struct [.array ms, _], .array ps, t, _] =>
    let pstr := ps.map fun p => match p with
      | .struct [d, .null] => s!"{descItemStr s d}:*"
      | .struct [d, .array xs] =>
        let names := xs.filterMap fun x => match x with | .bytes b => some b | _ => none
        s!"{descItemStr s d}:{methodsStr (some names)}"
      | _ => "?"
    let tstr := match t with
      | .null => "*"
      | .array [] => "-"
      | .array l => ",".intercalate (l.map (descItemStr s))
      | _ => "?"
    let gstr := gs.filterMap fun g => match g with
      | .struct [.bytes k, _] => some (toString (k.getLast?.getD 0).toNat)
      | _ => none
    let sstr := ms.filterMap fun m => match m with
      | .struct [.bytes n, _, _, _, .bool true] => some (bytesStr n)
      | _ => none
    s!"{joinOr ";" pstr}|{tstr}|{joinOr "," gstr}|{joinOr "+" sstr}"
  | _ => "?"

def mgmtStr (s : DState) (n : Comp.CNode Mgmt.MStore Mgmt.MCache) : String :=
  let ents := (sortStr s.mgToks).map fun t =>
    let id := match s.toks.find? (·.1 == t) with
      | some (_, a) => acctId a
      | none => 0
    let c := match n.cache id with
      | some r => s!"{r.id}:{r.upd}:{manObjStr s r.man}"
      | none => "-"
    let st := match n.store.contracts id with
      | some r => s!"{r.id}:{r.upd}:{manItemStr s r.man}"
      | none => "-"
    s!"{t}={c}/{st}"
  s!"{joinOr "," ents} next={n.store.nextId}"

def parseCommittee (s : DState) (t : String) : Option (Nat × List Key) :=
  -- "c=-" or "c=m:i.j.k"
  let v := dropS t 2
  if v == "-" then none else
  match v.splitOn ":" with
  | [m, ks] => some (m.toNat?.getD 0, (ks.splitOn ".").map fun i => rankOf s (i.toNat?.getD 0))
  | _ => none

/-- the calls of a transaction line that go to the components -/
structure CompOps where
  set : Option (GCall GSetOp) := none
  role : Option (GCall DesOp) := none
  gpb : Option (GCall Int) := none
  md : Option (GCall Int) := none
  mgmt : List Mgmt.MOp := []

def compOpsOf (s : DState) (ws : List String) : DState × CompOps :=
  match ws with
  | _ :: cm :: kind :: args =>
    let w := parseCommittee s cm
    let gs (o : GSetOp) : DState × CompOps := (s, { set := some ⟨o, w⟩ })
    match kind, args with
    | "policy.setAttributeFee", t :: v :: _ => gs (.attrFee (parseInt t) (parseInt v))
    | "policy.setMaxValidUntilBlockIncrement", v :: _ => gs (.maxVUB (parseInt v))
    | "policy.setMaxTraceableBlocks", v :: _ => gs (.maxTraceable (parseInt v))
    | "policy.setMillisecondsPerBlock", v :: _ => gs (.msPerBlock (parseInt v))
    | "notary.setMaxNotValidBeforeDelta", v :: _ => gs (.nvbDelta (parseInt v))
    | "oracle.setPrice", v :: _ => gs (.oraclePrice (parseInt v))
    | "neo.setRegisterPrice", v :: _ => gs (.registerPrice (parseInt v))
    | "neo.setGasPerBlock", v :: _ => (s, { gpb := some ⟨parseInt v, w⟩ })
    | "management.setMinimumDeploymentFee", v :: _ => (s, { md := some ⟨parseInt v, w⟩ })
    | "role.designate", r :: ns :: _ =>
      let nodes := if ns == "-" then [] else (ns.splitOn ".").map fun x => rankOf s (x.toNat?.getD 0)
      (s, { role := some ⟨⟨parseInt r, nodes⟩, w⟩ })
    | "kv.deploy", c :: rest =>
      let (s, a) := acctOf s c
      let (s, m) := parseMan s c rest
      ({ s with mgToks := if s.mgToks.contains c then s.mgToks else c :: s.mgToks }, { mgmt := [.deploy (acctId a) m] })
    | "kv.update", c :: rest =>
      -- the contract's own `update` method calls ContractManagement.update: needs the permission, then the update
      let (s, a) := acctOf s c
      let (s, mg) := acctOf s "mgmt"
      let (s, mo) := if rest.head? == some "keep" then (s, none) else (let (s', m) := parseMan s c rest; (s', some m))
      (s, { mgmt := [.call (acctId a) (acctId mg) (strBytes "update"), .update (acctId a) mo] })
    | "kv.destroy", c :: _ =>
      let (s, a) := acctOf s c
      let (s, mg) := acctOf s "mgmt"
      (s, { mgmt := [.call (acctId a) (acctId mg) (strBytes "destroy"), .destroy (acctId a)] })
    | "kv.forward", a :: b :: m :: _ =>
      let (s, x) := acctOf s a
      let (s, y) := acctOf s b
      (s, { mgmt := [.call (acctId x) (acctId y) (strBytes m)] })
    | _, _ => (s, {})
  | _ => (s, {})

/-- the environment replica `n`'s natives part gives to the transactions of its next block -/
def envOfNode (s : DState) (n : NNode) : Env :=
  match n.read () with
  | some st => envOf s.cfg st n.cache (n.height + 1)
  | none => { committee := [], validators := s.cfg.validators }

def obsNode (s : DState) (n : NNode) (wl : Whitelist.State) (comps : String) : String :=
  match n.read () with
  | none => "?"
  | some st =>
    let g := getters n.cache
    let blocked := sortStr (st.blocked.map (tokOf s))
    let cand := (List.range s.nkeys).filterMap fun i =>
      (alGet st.cands (rankOf s i)).map fun c => s!"{i}:{if c.registered then 1 else 0}:{c.votes}"
    let cmt := st.committee.map fun (k, v) => s!"{indexOfRank s k}:{v}"
    let neo := sortStr (st.accounts.map fun (a, b) =>
      let v := match b.voteTo with
        | none => "-"
        | some k => toString (indexOfRank s k)
      s!"{tokOf s a}:{b.balance}:{v}")
    s!"h={n.height} wlc={wlStr s wl.cache} wls={wlStr s wl.store} {comps} fpb={g.feePerByte} eff={g.execFeeFactor} sp={g.storagePrice * 10000} blocked={joinOr "," blocked} cand={joinOr "," cand} vc={st.votersCount} cmt={joinOr "," cmt} ccmt={idxList s g.committee} nv={idxList s g.nextValidators} nenv={idxList s g.newEpochValidators} neo={joinOr "," neo}"

def gpbStr (g : Comp.CNode (List (Nat × Int)) (List (Nat × Int))) (next : Nat) : String :=
  let c := match gpbLookup g.cache next with | some v => toString v | none => "?"
  let recs := (g.store.foldr insertRec []).map fun (i, v) => s!"{i}:{v}"
  s!"{c}/{joinOr ";" recs}"

def compsStr (s : DState) (sn : Comp.CNode (List (Nat × Int)) (List (Nat × Int))) (rn : Comp.CNode RoleStore RoleCache)
    (mn : Comp.CNode Mgmt.MStore Mgmt.MCache) (g : Comp.CNode (List (Nat × Int)) (List (Nat × Int)))
    (md : Comp.CNode Int Unit) (rs : Reward.RState) (height : Nat) : String :=
  let gpv := (List.range s.nkeys).filterMap fun i => (aget rs.gpv.store (rankOf s i)).map fun v => s!"{i}:{v}"
  let rw := sortStr (rs.acc.map fun (a, (bh, last)) => s!"{tokOf s a}:{bh}:{last}")
  s!"set={settingsStr sn} roles={rolesStr s rn} mgmt={mgmtStr s mn} mdf={minDeployFee md.store}/{md.store} gpb={gpbStr g (height + 1)} gpv={joinOr "," gpv} rw={joinOr "," rw}"

def obsBoth (s : DState) : String :=
  s!"{obsNode s s.a s.wlA (compsStr s s.setA s.roleA s.mgA s.gpbA s.mdA s.rsA s.a.height)} | {obsNode s s.b s.wlB (compsStr s s.setB s.roleB s.mgB s.gpbB s.mdB s.rsB s.b.height)}"

def resStr : Res → String
  | .haltTrue => "halt true"
  | .haltFalse => "halt false"
  | .halt => "halt"
  | .fault => "fault"
  | .skip => "skip"

/-- hex strings of the public keys -> rank of each key in X order (compressed form: drop the 02/03 byte). -/
def ranks (pubs : List String) : List Nat :=
  let xs := pubs.map fun p => dropS p 2
  xs.map fun x => (xs.filter fun y => y < x).length

def parseTx (s : DState) (ws : List String) : DState × Option Tx :=
  match ws with
  | sg :: cm :: kind :: args =>
    let (oog, args) := if args.getLast? == some "oog" then (true, args.dropLast) else (false, args)
    let (s, signers) := ((dropS sg 2).splitOn ",").foldl (fun (acc : DState × List Acct) t =>
      let (s', a) := acctOf acc.1 t
      (s', acc.2 ++ [a])) (s, [])
    let committee := parseCommittee s cm
    let mk (s : DState) (op : Op) : DState × Option Tx := (s, some { signers := signers, committee := committee, op := op, oog := oog })
    match kind, args with
    | "neo.transfer", [f, t, amt] =>
      let (s, fa) := acctOf s f
      let (s, ta) := acctOf s t
      mk s (.neoTransfer fa ta (parseInt amt))
    | "neo.vote", [acc, to] =>
      let (s, a) := acctOf s acc
      mk s (.vote a (if to == "none" then none else some (rankOf s (to.toNat?.getD 0))))
    | "neo.register", [k] => mk s (.register (rankOf s (k.toNat?.getD 0)))
    | "neo.unregister", [k] => mk s (.unregister (rankOf s (k.toNat?.getD 0)))
    | "policy.setFeePerByte", [v] => mk s (.setFeePerByte (parseInt v))
    | "policy.setExecFeeFactor", [v] => mk s (.setExecFeeFactor (parseInt v))
    | "policy.setStoragePrice", [v] => mk s (.setStoragePrice (parseInt v))
    | "policy.block", [a] =>
      let (s, x) := acctOf s a
      mk s (.block x)
    | "policy.unblock", [a] =>
      let (s, x) := acctOf s a
      mk s (.unblock x)
    | "kv.deploy", c :: _ =>
      let (s, x) := acctOf s c
      mk s (.deploy x)
    | "kv.destroy", [c] =>
      let (s, x) := acctOf s c
      mk s (.destroy x)
    | "policy.recoverFund.neo", [a, t, rx] =>
      let (s, x) := acctOf s a
      let (s, y) := acctOf s t
      -- the preconditions (almost-full committee witness of the cached committee, one year of block time since the
      -- blocking) are computed by the model: Model/Ledger/Recover.lean
      let pre := match s.a.read () with
        | some st =>
          let w0 := onPersist s.cfg { st := st, c := s.a.cache } (s.a.height + 1)
          let r := Recover.txsTimes s.now w0 s.btA s.pending
          let pre := Recover.recoverPre w0.c.neo.committee committee r.2 x s.now
          -- NOT modelled: when the receiver (Treasury) already holds NEO, increaseBalance distributes its accrued GAS
          -- holder reward, a GAS mint (from = Null) whose onNEP17Payment callback Treasury rejects (toUint160 of Null,
          -- treasury.go:99-107) unless the amount is zero; the reward amount is outside the model, so in this ONE shape
          -- the outcome is the real one noted on the line (rx=ok|no)
          if pre && (alGet r.1.st.accounts y).isSome then rx == "rx=ok" else pre
        | none => false
      mk s (.recoverNeo x y pre)
    | "policy.setWhitelistFeeContract", c :: _ =>
      let (s, x) := acctOf s c
      mk s (.about x true)
    | "policy.removeWhitelistFeeContract", c :: _ =>
      let (s, x) := acctOf s c
      mk s (.about x true)
    | "kv.update", c :: _ =>
      let (s, x) := acctOf s c
      mk s (.about x false)
    | "fault", [] => mk s .fault
    | _, _ => mk s .other
  | _ => (s, none)

def methodId (s : DState) (m : String) : DState × Nat :=
  match s.methods.findIdx? (· == m) with
  | some i => (s, i)
  | none => ({ s with methods := s.methods ++ [m] }, s.methods.length)

/-- the whitelist effect of a transaction line (if the transaction HALTs). -/
def wlOpOf (s : DState) (ws : List String) : DState × Option Whitelist.Op :=
  match ws with
  | _ :: _ :: "policy.setWhitelistFeeContract" :: c :: m :: fee :: _ =>
    let (s, a) := acctOf s c
    let (s, mi) := methodId s m
    (s, some (.set (acctId a, mi) (parseInt fee)))
  | _ :: _ :: "policy.removeWhitelistFeeContract" :: c :: m :: _ =>
    let (s, a) := acctOf s c
    let (s, mi) := methodId s m
    (s, some (.remove (acctId a, mi)))
  | _ :: _ :: "kv.destroy" :: c :: _ =>
    let (s, a) := acctOf s c
    (s, some (.clean (acctId a)))
  | _ :: _ :: "kv.update" :: c :: _ =>   -- Management.Update cleans the contract's whitelist (management.go)
    let (s, a) := acctOf s c
    (s, some (.clean (acctId a)))
  | _ => (s, none)

def wlApply (w : Whitelist.State) (ops : List Whitelist.Op) : Whitelist.State := Whitelist.run w ops

def stepBoth (s : DState) (st : Step Unit (List Tx) Unit) : DState :=
  { s with a := step (nativeSys s.cfg) s.a st, b := step (nativeSys s.cfg) s.b st }

def dstep (s : DState) (ws : List String) : DState × String :=
  match ws with
  | ["case", k] => ({}, s!"case {k}")
  | "net" :: cs :: vc :: n :: pubs =>
    let rk := ranks pubs
    let csz := cs.toNat?.getD 1
    let cfg : Cfg := { committeeSize := csz, validators := vc.toNat?.getD 1, standby := rk.take csz }
    let g := genesisNode cfg (Acct.other 0)
    let s := { s with cfg := cfg, nkeys := n.toNat?.getD 0, rank := rk, a := g, b := g }
    -- ContractManagement itself is a record of the contract cache / storage (id -1)
    let (s, mg) := acctOf s "mgmt"
    let st : Mgmt.MStore := { contracts := Mgmt.upd Mgmt.emptyStore.contracts (acctId mg) (some ⟨-1, 0, nativeMgmtMan.toItem mgmtParams.compact⟩), nextId := 1 }
    let n0 : Comp.CNode Mgmt.MStore Mgmt.MCache := { store := st, cache := Mgmt.upd (fun _ => none) (acctId mg) (some ⟨-1, 0, nativeMgmtMan⟩), height := 0 }
    ({ s with mgA := n0, mgB := n0 }, "ok")
  | ["proto", mtb, vubi, mspb] =>
    let st := genesisSettings (parseInt mtb) (parseInt vubi) (parseInt mspb)
    let n : Comp.CNode (List (Nat × Int)) (List (Nat × Int)) := { store := st, cache := gsettings.init st, height := 0 }
    ({ s with setA := n, setB := n }, "ok")
  | ["genesis"] => (s, obsBoth s)
  | "block" :: h :: _ :: ts => ({ s with now := (ts.head?.bind String.toNat?).getD 0, pending := [], wlPending := [], setTxs := [], roleTxs := [], mgTxs := [], gpbTxs := [], mdTxs := [], height := h.toNat?.getD 0 }, "ok")
  | "tx" :: rest =>
    match parseTx s rest with
    | (s, none) => (s, "bad-op")
    | (s, some tx) =>
      -- ContractManagement component first: deploy validity, the permission the contract's own update / destroy method
      -- needs to call ContractManagement, the permission check of a forwarded call — decided on replica A's CACHED
      -- manifest objects; a refused call FAULTs the transaction for the main model too
      let (s, co) := compOpsOf s rest
      let oog := rest.getLast? == some "oog"
      let mgOk : Bool := co.mgmt.isEmpty ||
        ((Mgmt.management mgmtParams).runBlockR s.mgA.store s.mgA.cache (s.mgA.height + 1)
          (s.mgTxs ++ [({ ops := co.mgmt, halts := true } : CTx Mgmt.MOp)])).getLast? == some true
      let tx : Tx := if mgOk then tx else { tx with op := .fault }
      -- result as replica A computes it: run the block so far on A's view
      let txs := s.pending ++ [tx]
      let r := match s.a.read () with
        | none => "?"
        | some st =>
          let (_, _, rs) := applyBlock s.cfg st s.a.cache (s.a.height + 1) txs
          match rs.getLast? with
          | some r => resStr r
          | none => "?"
      -- whitelist component: applies only if the transaction HALTs; a `remove` of an uncached entry panics
      let (s, wo) := wlOpOf s rest
      let halted := r.startsWith "halt"
      let wlNow := wlApply s.wlA (s.wlPending.filterMap id)
      let (r, wo) := match wo with
        | some o => if halted then (match Whitelist.step wlNow o with
            | some _ => (r, some o)
            | none => ("fault", none)) else (r, none)
        | none => (r, none)
      -- a faulted transaction is discarded as a whole by the main model only if the model itself said so; a
      -- whitelist panic turns a committee-gated no-op into a fault, which has no modelled effect either
      -- cached components: one transaction per line; the outcome of calls the main model does not predict
      -- ("skip") is taken from the real result noted on the line
      -- guarded components: the outcome is PREDICTED by running the block so far plus this transaction on replica A's
      -- component state, in the environment replica A's natives part supplies (cached committee after OnPersist)
      let e := envOfNode s s.a
      let hC := s.setA.height + 1
      let predict (ok : Option Bool) : String := if ok == some true then "halt" else "fault"
      let (s, r) := match co.set with
        | some o =>
          let tx : CTx (GCall GSetOp) := { ops := [o], halts := !oog }
          let txs' := s.setTxs ++ [tx]
          ({ s with setTxs := txs' }, predict ((gsettings.fix e).runBlockR s.setA.store s.setA.cache hC txs').getLast?)
        | none => (s, r)
      let (s, r) := match co.role with
        | some o =>
          let tx : CTx (GCall DesOp) := { ops := [o], halts := !oog }
          let txs' := s.roleTxs ++ [tx]
          ({ s with roleTxs := txs' }, predict ((gdesignate.fix e).runBlockR s.roleA.store s.roleA.cache hC txs').getLast?)
        | none => (s, r)
      let (s, r) := match co.gpb with
        | some o =>
          let tx : CTx (GCall Int) := { ops := [o], halts := !oog }
          let txs' := s.gpbTxs ++ [tx]
          ({ s with gpbTxs := txs' }, predict ((gpb.fix e).runBlockR s.gpbA.store s.gpbA.cache hC txs').getLast?)
        | none => (s, r)
      let (s, r) := match co.md with
        | some o =>
          let tx : CTx (GCall Int) := { ops := [o], halts := !oog }
          let txs' := s.mdTxs ++ [tx]
          ({ s with mdTxs := txs' }, predict ((gmindeploy.fix e).runBlockR s.mdA.store s.mdA.cache hC txs').getLast?)
        | none => (s, r)
      -- ContractManagement: the transaction halts if the component AND the main model (existence, oog) say so
      let r := if co.mgmt.isEmpty then r else if !mgOk then "fault" else if r == "skip" then (if oog then "fault" else "halt") else r
      let s := if co.mgmt.isEmpty then s else { s with mgTxs := s.mgTxs ++ [({ ops := co.mgmt, halts := r.startsWith "halt" } : CTx Mgmt.MOp)] }
      ({ s with pending := txs, wlPending := s.wlPending ++ [wo] }, r)
  | ["endblock"] =>
    -- the environments are those of the caches BEFORE the block (OnPersist of this block is part of envOf)
    let eA := envOfNode s s.a
    let eB := envOfNode s s.b
    -- reward-per-vote records: drops of the block's transactions and the accumulation of an epoch's first block, each
    -- replica from its own natives state and its own gasPerBlock cache AFTER the block's transactions
    -- (PostPersist: GetGASPerBlock(ic.BlockHeight()+1) = index h+1, the block being already processed by Ledger)
    let gpbA' := gpb.estep s.gpbA (.block eA s.gpbTxs)
    let gpbB' := gpb.estep s.gpbB (.block eB s.gpbTxs)
    let rewards (n : NNode) (g : Comp.CNode (List (Nat × Int)) (List (Nat × Int))) (rs : Reward.RState) : Reward.RState :=
      match n.read () with
      | some st => Reward.rewardsOfBlock s.cfg st n.cache (n.height + 1) s.pending ((gpbLookup g.cache (n.height + 2)).getD 0) rs
      | none => rs
    let s := { s with rsA := rewards s.a gpbA' s.rsA, rsB := rewards s.b gpbB' s.rsB }
    let s := match s.a.read () with
      | some st => { s with btA := (Recover.txsTimes s.now (onPersist s.cfg { st := st, c := s.a.cache } (s.a.height + 1)) s.btA s.pending).2 }
      | none => s
    let s := stepBoth s (.addBlock s.pending)
    let wops := s.wlPending.filterMap id
    let s := { s with a := step (nativeSys s.cfg) s.a .flush, pending := [], wlPending := [],
                      wlA := wlApply s.wlA wops, wlB := wlApply s.wlB wops,
                      setA := gsettings.estep s.setA (.block eA s.setTxs), setB := gsettings.estep s.setB (.block eB s.setTxs),
                      roleA := gdesignate.estep s.roleA (.block eA s.roleTxs), roleB := gdesignate.estep s.roleB (.block eB s.roleTxs),
                      gpbA := gpbA', gpbB := gpbB',
                      mdA := gmindeploy.estep s.mdA (.block eA s.mdTxs), mdB := gmindeploy.estep s.mdB (.block eB s.mdTxs),
                      mgA := (Mgmt.management mgmtParams).cstep s.mgA (.block s.mgTxs), mgB := (Mgmt.management mgmtParams).cstep s.mgB (.block s.mgTxs),
                      setTxs := [], roleTxs := [], mgTxs := [], gpbTxs := [], mdTxs := [] }
    (s, obsBoth s)
  | ["restartB"] => ({ s with b := step (nativeSys s.cfg) s.b .restart, wlB := wlApply s.wlB [.restart],
                               setB := gsettings.estep s.setB .restart, roleB := gdesignate.estep s.roleB .restart,
                               mgB := (Mgmt.management mgmtParams).cstep s.mgB .restart, gpbB := gpb.estep s.gpbB .restart,
                               mdB := gmindeploy.estep s.mdB .restart, rsB := { s.rsB with gpv := gpvStep s.rsB.gpv .restart } }, "ok")
  | ["flushB"] => ({ s with b := step (nativeSys s.cfg) s.b .flush }, "ok")
  | ["final"] => (s, obsBoth s)
  | ["aborted"] => (s, "aborted")
  | _ => (s, "bad-op")

def main : IO Unit := Proto.run ({} : DState) dstep
