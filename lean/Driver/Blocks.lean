/-
Driver for stream `blocks` (C06): one op per line, one observation per line.
  case <k>                                   -> case <k>            (state reset)
  cfg sr=<b> vt=<b> skip=<b>                 -> ok
  hdr <idx> <hash> <prev> <ts> <nc> <psr> <wit>   -> ok             (a header the node already stores)
  node bh=<n> root=<r>                       -> ok
  bal <name>=<n> ...                         -> ok
  pool <tx>,<tx>...|-                        -> ok                  (mempool: the pooled transactions, described like block transactions)
  sig <wit> <hash> <addr> <b>                -> ok                  (fact: does the witness sign the hash for addr)
  undecodable                                -> ok                  (bytes that do not decode never reach AddBlock)
  note <text>                                -> ok                  (a step of the case that is judged by the oracle only)
  addheaders <h>;<h>;...|-      h = idx:hash:prev:ts:nc:psr:wit
     -> ok bh=<n> hh=<n> top=<hash of the last recorded header> | err:<class> bh=<n> hh=<n> db=same
  chain base= gorgon= nvals= h= inc= mbsf= fpb= mvg= mtb= p2p= rsv= nta= committee= oracle= notary= attrfee=<typ>:<fee>,.. blocked=<name>,..|-
                                             -> ok                  (what the stand-alone tx verification reads)
  rec <hash> tx | rec <hash> hist <idx>:<name>+<name>,<idx>:...   -> ok   (what is stored on chain under a hash:
                                             a transaction, or the conflicting transactions - block index and
                                             signers, in storing order - from which the model builds the record)
  verifytx <tx>                              -> ok | err:<class>    (VerifyTx: off-chain entry, empty pool)
  relevant conf=<b> <tx>                     -> kept | dropped      (did the pooled tx survive the tip block: RemoveStale / IsTxStillRelevant)
  addblock idx= sre= hash= prev= ts= nc= psr= wit= prim= mroot= newroot= txs=<tx>,..|- txh=<32-byte tx hash, hex>,..|-
        (mroot = digest of the header's MerkleRoot; the model computes the root of txh with double SHA-256)
        tx = id:wit:sys:net:vub:size:scriptok:<signer>+..:<attr>+..|-
        signer = name/<scope None>/<witness>
        witness = b<hashOk>.<inv hex|->.<ver hex>.<verifying (key‖sig) pairs hex|->   the model RUNS the scripts
                  (Model/Fees.lean price interpreter: result and GAS)  | s<hashOk><native><scriptsOk><result>.<cost> (facts)
                  | m (empty verification script) | x (outside the interpreter's opcodes: fails)
        attr = hp | or.<scriptok><requestok>.<gas> | nvb.<h> | cf.<hash> | na.<nkeys> | rs.<type>
     -> ok bh=<n> hh=<n> stored=<hash>/<wit> stale=<number of block txs still in the mempool> pool=<ids left in the mempool>
      | err:<class> bh=<n> hh=<n> ledger=same pool=same db=<same|hdr>      class tx = tx/<reason>@<position>
-/
import NeoModel.Base.Proto
import NeoModel.Base.Hex
import NeoModel.Base.Sha256
import NeoModel.Model.AddBlock
import NeoModel.Model.AddBlock.TxVerify
import NeoModel.Model.AddBlock.WitnessRun
open NeoModel NeoModel.AddBlock

/-- the scalar part of the `chain` line -/
structure ChainCfg where
  base : Nat := 0               -- exec fee factor in picoGAS per price unit
  gorgon : Bool := true
  height : Nat := 0
  maxVUBInc : Nat := 0
  maxBlockSysFee : Nat := 0
  feePerByte : Nat := 0
  maxVerGas : Nat := 0
  mtb : Nat := 0
  p2p : Bool := false
  rsv : Bool := false
  nta : Bool := false
  committee : Nat := 0
  oracle : Option Nat := none
  notary : Nat := 0
  nvals : Nat := 0
  attrFees : List (Nat × Nat) := []
  blocked : List Nat := []

structure DState where
  node : Node Nat
  bals : List (Nat × Nat)
  sigs : List (Nat × Nat × Nat)
  ccfg : ChainCfg := {}
  recs : List (Nat × Rec) := []
  poolObjs : List VTx := []      -- the pooled transactions as described on the `pool` line

def emptyNode : Node Nat :=
  { cfg := { sr := false, verifyTx := true, skip := false }, blockHeight := 0, headers := [], ledger := 0, pool := [] }

def initState : DState := { node := emptyNode, bals := [], sigs := [] }

def hexNat (s : String) : Option Nat :=
  s.toList.foldl (fun acc c => match acc, Hex.val c with
    | some a, some d => some (a * 16 + d)
    | _, _ => none) (some 0)

/-- a witness id `w<hex>` or `-`. -/
def witNat (s : String) : Option Nat :=
  if s == "-" then some 0 else
  match s.toList with
  | 'w' :: rest => (hexNat (String.ofList rest)).map (· + 1)
  | _ => none

def nameNat (s : String) : Nat := s.toList.foldl (fun a c => a * 256 + c.toNat) 0

def hexPad (n width : Nat) : String :=
  let rec go (fuel n : Nat) (acc : List Char) : List Char :=
    match fuel with
    | 0 => acc
    | fuel + 1 => go fuel (n / 16) (Hex.digit (n % 16) :: acc)
  String.ofList (go width n [])

def witStr (w : Nat) : String := if w == 0 then "-" else "w" ++ hexPad (w - 1) 10

def kv (ws : List String) (key : String) : Option String :=
  ws.findSome? (fun w => match w.splitOn "=" with
    | [k, v] => if k == key then some v else none
    | _ => none)

def bit (s : String) : Option Bool := if s == "1" then some true else if s == "0" then some false else none

def bitC (c : Char) : Option Bool := if c == '1' then some true else if c == '0' then some false else none

def parseWitness (base : Nat) (gorgon : Bool) (s : String) : Option Witness :=
  if s == "m" || s == "x" then some (.contract (fun _ => none))
  else match s.splitOn "." with
    | [f, i, v, ps] =>
      match f.toList with
      | ['b', h] => do
        let dec (x : String) : Option Bytes := if x == "-" then some [] else Hex.decode x
        pure (witnessFromBytes base gorgon (← bitC h) (← dec i) (← dec v) (← dec ps))
      | _ => none
    | [f, cost] =>
      match f.toList with
      | ['s', a, b, c, d] => do
        pure (.script (← bitC a) (← bitC b) (← bitC c) (← bitC d) (← cost.toNat?))
      | _ => none
    | _ => none

def parseSigner (base : Nat) (gorgon : Bool) (s : String) : Option (Signer × Witness) :=
  match s.splitOn "/" with
  | [n, sc, w] => do pure ({ account := nameNat n, scopeNone := (← bit sc) }, (← parseWitness base gorgon w))
  | _ => none

def parseAttr (s : String) : Option Attr :=
  match s.splitOn "." with
  | ["hp"] => some .highPriority
  | ["or", f, g] =>
    match f.toList with
    | [a, b] => do pure (.oracleResponse (← bitC a) (← bitC b) (← g.toNat?))
    | _ => none
  | ["nvb", h] => h.toNat?.map .notValidBefore
  | ["cf", h] => (hexNat h).map .conflicts
  | ["na", n] => n.toNat?.map .notaryAssisted
  | ["rs", t] => t.toNat?.map .other
  | _ => none

def parseTxB (base : Nat) (gorgon : Bool) (s : String) : Option VTx :=
  match s.splitOn ":" with
  | [id, w, sys, net, vub, size, sok, sg, atr] => do
    let sgs ← (sg.splitOn "+").mapM (parseSigner base gorgon)
    let ats ← if atr == "-" then some [] else (atr.splitOn "+").mapM parseAttr
    pure { id := (← hexNat id), wit := (← witNat w), scriptOk := (← bit sok), sysFee := (← sys.toNat?), netFee := (← net.toNat?),
           vub := (← vub.toNat?), size := (← size.toNat?), signers := sgs.map (·.1), wits := sgs.map (·.2), attrs := ats }
  | _ => none

def chainOf (st : DState) : Chain :=
  let c := st.ccfg
  { height := c.height, maxVUBInc := c.maxVUBInc, maxBlockSysFee := c.maxBlockSysFee, feePerByte := c.feePerByte,
    maxVerGas := c.maxVerGas, mtb := c.mtb, p2pSigExt := c.p2p, reservedAttrs := c.rsv, notaryActive := c.nta,
    attrFee := fun t => ((c.attrFees.find? (fun p => p.1 == t)).map (·.2)).getD 0,
    blocked := fun a => c.blocked.contains a,
    lookup := fun h => ((st.recs.find? (fun p => p.1 == h)).map (·.2)).getD .none,
    committee := c.committee, oracleHash := c.oracle, notary := c.notary }

def txErrName : TxErr → String
  | .sysFeeLimit => "sysfee-limit" | .invalidScript => "invalid-script" | .expired => "expired"
  | .notYetValid => "not-yet-valid" | .policy => "policy" | .tooBig => "too-big" | .smallNetFee => "small-net-fee"
  | .alreadyExists => "already-exists" | .hasConflicts => "has-conflicts" | .witness => "witness"
  | .invalidAttr => "invalid-attr" | .poolDup => "pool-dup" | .poolConflictsAttr => "pool-conflicts-attr"
  | .insufficientFunds => "insufficient-funds" | .poolConflict => "pool-conflict" | .inBlockConflict => "inblock-conflict"

/-- the 6-byte token the harness prints for a 32-byte value (`short`): zero stays zero, otherwise the
first 6 bytes of its SHA-256 -/
def digest6 (b : Bytes) : Nat :=
  if b.all (· == 0) then 0
  else ((Sha256.hash b).take 6).foldl (fun a x => a * 256 + x.toNat) 0

/-- Block.ComputeMerkleRoot over the received transaction hashes, with the real node hash -/
def realMerkle (hs : List Bytes) : Bytes :=
  merkleRoot (fun a b => Sha256.hash2 (a ++ b)) (List.replicate 32 0) hs

def balOf (st : DState) (a : Nat) : Nat := ((st.bals.find? (fun p => p.1 == a)).map (·.2)).getD 0

def errName : Err → String
  | .indexFuture => "index-future" | .indexOld => "index-old" | .srFlag => "srflag"
  | .prevUnknown => "prev-unknown" | .stateRoot => "stateroot" | .prevHash => "prevhash"
  | .hdrIndex => "hdr-index" | .timestamp => "timestamp" | .witness => "witness"
  | .hashMismatch => "hash-mismatch" | .merkle => "merkle" | .dup => "dup" | .tx => "tx" | .store => "store"

def doAddBlock (st : DState) (ws : List String) : Option (DState × String) := do
  let idx ← (← kv ws "idx").toNat?
  let sre ← bit (← kv ws "sre")
  let hash ← hexNat (← kv ws "hash")
  let prev ← hexNat (← kv ws "prev")
  let ts ← (← kv ws "ts").toNat?
  let nc ← hexNat (← kv ws "nc")
  let psr ← hexNat (← kv ws "psr")
  let wit ← witNat (← kv ws "wit")
  let prim ← (← kv ws "prim").toNat?
  let mroot ← hexNat (← kv ws "mroot")
  let txhS ← kv ws "txh"
  let txh ← if txhS == "-" then some [] else (txhS.splitOn ",").mapM Hex.decode
  let newroot ← hexNat (← kv ws "newroot")
  let txsS ← kv ws "txs"
  let txv ← if txsS == "-" then some [] else (txsS.splitOn ",").mapM (parseTxB st.ccfg.base st.ccfg.gorgon)
  let hdr : Header := { index := idx, hash := hash, prevHash := prev, merkleRoot := mroot, ts := ts,
                        nextConsensus := nc, sre := sre, prevStateRoot := psr, wit := wit, primary := prim }
  let b : Block := { hdr := hdr, txs := txv.map VTx.toTx }
  let chain := chainOf st
  -- the full hash behind a transaction id of this block
  let table := (txv.map (·.id)).zip txh
  let full : Nat → Bytes := fun i => ((table.find? (fun p => p.1 == i)).map (·.2)).getD []
  -- the received object with this hash and these witnesses
  let why : Tx → Option TxErr := fun t =>
    match txv.find? (fun v => v.id == t.id && v.wit == t.wit) with
    | some v => verifyTx chain v
    | none => some .witness
  let env : Env Nat := {
    signedBy := fun w h a => st.sigs.contains (w, h, a),
    merkle := fun ids => digest6 (realMerkle (ids.map full)),
    txValid := fun _ _ t => (why t).isNone,
    balance := fun _ a => balOf st a,
    apply := fun _ blk => if burnOK (balOf st) blk.txs then some newroot else none,
    rootOf := fun l => l,
    -- IsTxStillRelevant at the state after this block (height + 1, the records the block leaves), with the
    -- scratch pool's conflict test; the pool's own balance bookkeeping is not modelled
    keep := fun _ q =>
      match st.poolObjs.find? (fun v => v.id == q.id && v.wit == q.wit) with
      | some v =>
        let after : Chain := { chain with height := chain.height + 1, lookup := lookupAfter chain.lookup txv (fun _ => .none) }
        stillRelevant after v (blockConflict txv v) (v.wits.map Witness.stdCost)
      | none => true,
    spoil := fun l _ => l,
    nvals := st.ccfg.nvals }
  let (n', e) := addBlock env st.node b
  let hh := n'.headerHeight
  match e with
  | none =>
    let stored := match n'.headers[idx]? with
      | some h => s!"{hexPad h.hash 12}/{witStr h.wit}"
      | none => "?"
    let stale := (n'.pool.filter (fun q => b.txs.any (fun t => t.id == q.id))).length
    let ids := (n'.pool.map (fun q => hexPad q.id 12)).toArray.qsort (· < ·) |>.toList
    let pl := if ids.isEmpty then "-" else String.intercalate "," ids
    let st' := { st with node := n', poolObjs := st.poolObjs.filter (fun v => n'.pool.any (fun q => q.id == v.id && q.wit == v.wit)),
                         ccfg := { st.ccfg with height := st.ccfg.height + 1 } }
    pure (st', s!"ok bh={n'.blockHeight} hh={hh} stored={stored} stale={stale} pool={pl}")
  | some er =>
    let db := if n'.headers.length == st.node.headers.length then "same" else "hdr"
    let cls := match er with
      | .tx => match txLoopE env n' why 0 [] b.txs with
        | some (j, e) => s!"tx/{txErrName e}@{j}"
        | none => "tx/?"
      | _ => errName er
    pure ({ st with node := n' }, s!"err:{cls} bh={n'.blockHeight} hh={hh} ledger=same pool=same db={db}")

def parseHdr (sr : Bool) (s : String) : Option Header :=
  match s.splitOn ":" with
  | [idx, hash, prev, ts, nc, psr, wit] => do
    let idx ← idx.toNat?
    let hash ← hexNat hash
    let prev ← hexNat prev
    let ts ← ts.toNat?
    let nc ← hexNat nc
    let psr ← hexNat psr
    let wit ← witNat wit
    pure { index := idx, hash := hash, prevHash := prev, merkleRoot := 0, ts := ts, nextConsensus := nc,
           sre := sr, prevStateRoot := psr, wit := wit }
  | _ => none

def doAddHeaders (st : DState) (arg : String) : Option (DState × String) := do
  let hs ← if arg == "-" then some [] else (arg.splitOn ";").mapM (parseHdr st.node.cfg.sr)
  let env : Env Nat := {
    signedBy := fun w h a => st.sigs.contains (w, h, a),
    merkle := fun _ => 0, txValid := fun _ _ _ => false, balance := fun _ _ => 0,
    apply := fun _ _ => none, rootOf := fun l => l, keep := fun _ _ => true, spoil := fun l _ => l }
  let (n', e) := addHeaders env st.node (!st.node.cfg.skip) hs
  match e with
  | none =>
    let top := match n'.headers.getLast? with
      | some h => hexPad h.hash 12
      | none => "?"
    pure ({ st with node := n' }, s!"ok bh={n'.blockHeight} hh={n'.headerHeight} top={top}")
  | some er =>
    let db := if n'.headers.length == st.node.headers.length then "same" else "changed"
    pure ({ st with node := n' }, s!"err:{errName er} bh={n'.blockHeight} hh={n'.headerHeight} db={db}")

def doChain (st : DState) (ws : List String) : Option DState := do
  let n (k : String) : Option Nat := (kv ws k).bind String.toNat?
  let bk (k : String) : Option Bool := (kv ws k).bind bit
  let orc ← kv ws "oracle"
  let af ← kv ws "attrfee"
  let afs ← (af.splitOn ",").mapM (fun t => match t.splitOn ":" with
    | [a, b] => do pure ((← a.toNat?), (← b.toNat?))
    | _ => none)
  let bl ← kv ws "blocked"
  pure { st with ccfg := {
    base := (← n "base"), gorgon := (← bk "gorgon"), nvals := (← n "nvals"), height := (← n "h"), maxVUBInc := (← n "inc"), maxBlockSysFee := (← n "mbsf"), feePerByte := (← n "fpb"),
    maxVerGas := (← n "mvg"), mtb := (← n "mtb"), p2p := (← bk "p2p"), rsv := (← bk "rsv"), nta := (← bk "nta"),
    committee := nameNat (← kv ws "committee"), oracle := if orc == "-" then none else some (nameNat orc),
    notary := nameNat (← kv ws "notary"), attrFees := afs,
    blocked := if bl == "-" then [] else (bl.splitOn ",").map nameNat } }

def doRec (st : DState) (ws : List String) : Option DState :=
  match ws with
  | [h, "tx"] => do pure { st with recs := ((← hexNat h), Rec.tx) :: st.recs }
  | [h, "hist", es] => do
    -- the conflicting transactions stored for this hash, in order: the model builds the record itself
    let hist ← (es.splitOn ",").mapM (fun t => match t.splitOn ":" with
      | [i, sg] => do pure ((← i.toNat?), (sg.splitOn "+").map nameNat)
      | _ => none)
    pure { st with recs := ((← hexNat h), recordOf hist) :: st.recs }
  | [h, "stub", idx, sg] => do
    let sgs ← (sg.splitOn "+").mapM (fun t => match t.splitOn "@" with
      | [a, i] => do pure (nameNat a, (← i.toNat?))
      | _ => none)
    pure { st with recs := ((← hexNat h), Rec.stub (← idx.toNat?) sgs) :: st.recs }
  | _ => none

def step (st : DState) (ws : List String) : DState × String :=
  match ws with
  | ["case", k] => (initState, s!"case {k}")
  | "chain" :: rest =>
    match doChain st rest with
    | some st' => (st', "ok")
    | none => (st, "bad-op")
  | "rec" :: rest =>
    match doRec st rest with
    | some st' => (st', "ok")
    | none => (st, "bad-op")
  | ["relevant", cf, tok] =>
    match parseTxB st.ccfg.base st.ccfg.gorgon tok, (kv [cf] "conf").bind bit with
    | some v, some conf =>
      (st, if keptInPool (chainOf st) (balOf st (v.toTx).sender) v conf then "kept" else "dropped")
    | _, _ => (st, "bad-op")
  | ["verifytx", tok] =>
    match parseTxB st.ccfg.base st.ccfg.gorgon tok with
    | some v =>
      match verifyOffChain (chainOf st) (balOf st (v.toTx).sender) v with
      | none => (st, "ok")
      | some e => (st, s!"err:{txErrName e}")
    | none => (st, "bad-op")
  | ["undecodable"] => (st, "ok")
  | "note" :: _ => (st, "ok")
  | "cfg" :: rest =>
    match (kv rest "sr").bind bit, (kv rest "vt").bind bit, (kv rest "skip").bind bit with
    | some sr, some vt, some sk => ({ st with node := { st.node with cfg := { sr := sr, verifyTx := vt, skip := sk } } }, "ok")
    | _, _, _ => (st, "bad-op")
  | ["hdr", idx, hash, prev, ts, nc, psr, wit] =>
    match idx.toNat?, hexNat hash, hexNat prev, ts.toNat?, hexNat nc, hexNat psr, witNat wit with
    | some idx, some hash, some prev, some ts, some nc, some psr, some wit =>
      let h : Header := { index := idx, hash := hash, prevHash := prev, merkleRoot := 0, ts := ts, nextConsensus := nc,
                          sre := st.node.cfg.sr, prevStateRoot := psr, wit := wit }
      ({ st with node := { st.node with headers := st.node.headers ++ [h] } }, "ok")
    | _, _, _, _, _, _, _ => (st, "bad-op")
  | "node" :: rest =>
    match (kv rest "bh").bind String.toNat?, (kv rest "root").bind hexNat with
    | some bh, some r => ({ st with node := { st.node with blockHeight := bh, ledger := r } }, "ok")
    | _, _ => (st, "bad-op")
  | "bal" :: rest =>
    let ps := rest.filterMap (fun w => match w.splitOn "=" with
      | [k, v] => v.toNat?.map (fun n => (nameNat k, n))
      | _ => none)
    ({ st with bals := ps }, "ok")
  | ["pool", toks] =>
    match (if toks == "-" then some [] else (toks.splitOn ",").mapM (parseTxB st.ccfg.base st.ccfg.gorgon)) with
    | some l => ({ st with node := { st.node with pool := l.map VTx.toTx }, poolObjs := l }, "ok")
    | none => (st, "bad-op")
  | ["sig", w, h, a, b] =>
    match witNat w, hexNat h, hexNat a, bit b with
    | some w, some h, some a, some b => (if b then { st with sigs := (w, h, a) :: st.sigs } else st, "ok")
    | _, _, _, _ => (st, "bad-op")
  | ["addheaders", arg] =>
    match doAddHeaders st arg with
    | some r => r
    | none => (st, "bad-op")
  | "addblock" :: rest =>
    match doAddBlock st rest with
    | some r => r
    | none => (st, "bad-op")
  | _ => (st, "bad-op")

def main : IO Unit := Proto.run initState step
