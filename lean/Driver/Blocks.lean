/-
Driver for stream `blocks` (C06): one op per line, one observation per line.
  case <k>                                   -> case <k>            (state reset)
  cfg sr=<b> vt=<b> skip=<b>                 -> ok
  hdr <idx> <hash> <prev> <ts> <nc> <psr> <wit>   -> ok             (a header the node already stores)
  node bh=<n> root=<r>                       -> ok
  bal <name>=<n> ...                         -> ok
  pool <id>/<wit>,<id>/<wit>...|-            -> ok                  (mempool: tx hash and witness id)
  sig <wit> <hash> <addr> <b>                -> ok                  (fact: does the witness sign the hash for addr)
  undecodable                                -> ok                  (bytes that do not decode never reach AddBlock)
  note <text>                                -> ok                  (a step of the case that is judged by the oracle only)
  addheaders <h>;<h>;...|-      h = idx:hash:prev:ts:nc:psr:wit
     -> ok bh=<n> hh=<n> top=<hash of the last recorded header> | err:<class> bh=<n> hh=<n> db=same
  addblock idx= sre= hash= prev= ts= nc= psr= wit= mroot= cmroot= newroot= store= txs=<tx>,..|-
        tx = id:wit:sender:fee:netfee:valid:confl+confl|-
     -> ok bh=<n> hh=<n> stored=<hash>/<wit> stale=<number of block txs still in the mempool>
      | err:<class> bh=<n> hh=<n> ledger=same pool=same db=<same|hdr>
-/
import NeoModel.Base.Proto
import NeoModel.Base.Hex
import NeoModel.Model.AddBlock
open NeoModel NeoModel.AddBlock

structure DState where
  node : Node Nat
  bals : List (Nat × Nat)
  sigs : List (Nat × Nat × Nat)

def emptyNode : Node Nat :=
  { cfg := { sr := false, verifyTx := true, skip := false }, blockHeight := 0, headers := [], ledger := 0, pool := [] }

def initState : DState := { node := emptyNode, bals := [], sigs := [] }

def hexNat (s : String) : Option Nat :=
  s.toList.foldl (fun acc c => match acc, Hex.val c with
    | some a, some d => some (a * 16 + d)
    | _, _ => none) (some 0)

/-- a witness id `w<hex>` or `-`. -/
def witNat (s : String) : Option Nat :=
  if s == "-" then some 0 else
  match s.toList with
  | 'w' :: rest => (hexNat (String.ofList rest)).map (· + 1)
  | _ => none

def nameNat (s : String) : Nat := s.toList.foldl (fun a c => a * 256 + c.toNat) 0

def hexPad (n width : Nat) : String :=
  let rec go (fuel n : Nat) (acc : List Char) : List Char :=
    match fuel with
    | 0 => acc
    | fuel + 1 => go fuel (n / 16) (Hex.digit (n % 16) :: acc)
  String.ofList (go width n [])

def witStr (w : Nat) : String := if w == 0 then "-" else "w" ++ hexPad (w - 1) 10

def kv (ws : List String) (key : String) : Option String :=
  ws.findSome? (fun w => match w.splitOn "=" with
    | [k, v] => if k == key then some v else none
    | _ => none)

def bit (s : String) : Option Bool := if s == "1" then some true else if s == "0" then some false else none

def parseTx (s : String) : Option (Tx × Bool) :=
  match s.splitOn ":" with
  | [id, w, snd, fee, net, v, c] => do
    let id ← hexNat id
    let w ← witNat w
    let fee ← fee.toNat?
    let net ← net.toNat?
    let v ← bit v
    let cs ← if c == "-" then some [] else (c.splitOn "+").mapM hexNat
    pure ({ id := id, wit := w, sender := nameNat snd, fee := fee, netFee := net, conflicts := cs }, v)
  | _ => none

def errName : Err → String
  | .indexFuture => "index-future" | .indexOld => "index-old" | .srFlag => "srflag"
  | .prevUnknown => "prev-unknown" | .stateRoot => "stateroot" | .prevHash => "prevhash"
  | .hdrIndex => "hdr-index" | .timestamp => "timestamp" | .witness => "witness"
  | .hashMismatch => "hash-mismatch" | .merkle => "merkle" | .dup => "dup" | .tx => "tx" | .store => "store"

def doAddBlock (st : DState) (ws : List String) : Option (DState × String) := do
  let idx ← (← kv ws "idx").toNat?
  let sre ← bit (← kv ws "sre")
  let hash ← hexNat (← kv ws "hash")
  let prev ← hexNat (← kv ws "prev")
  let ts ← (← kv ws "ts").toNat?
  let nc ← hexNat (← kv ws "nc")
  let psr ← hexNat (← kv ws "psr")
  let wit ← witNat (← kv ws "wit")
  let mroot ← hexNat (← kv ws "mroot")
  let cmroot ← hexNat (← kv ws "cmroot")
  let newroot ← hexNat (← kv ws "newroot")
  let store ← bit (← kv ws "store")
  let txsS ← kv ws "txs"
  let txv ← if txsS == "-" then some [] else (txsS.splitOn ",").mapM parseTx
  let hdr : Header := { index := idx, hash := hash, prevHash := prev, merkleRoot := mroot, ts := ts,
                        nextConsensus := nc, sre := sre, prevStateRoot := psr, wit := wit }
  let b : Block := { hdr := hdr, txs := txv.map (·.1) }
  let valid := (txv.filter (·.2)).map (fun p => (p.1.id, p.1.wit))
  let env : Env Nat := {
    signedBy := fun w h a => st.sigs.contains (w, h, a),
    merkle := fun _ => cmroot,
    txValid := fun _ _ t => valid.contains (t.id, t.wit),
    balance := fun _ a => ((st.bals.find? (fun p => p.1 == a)).map (·.2)).getD 0,
    apply := fun _ _ => if store then some newroot else none,
    rootOf := fun l => l,
    keep := fun _ _ => true,
    spoil := fun l _ => l }   -- follow-ups of a failed execution are not tied (see `note`)
  let (n', e) := addBlock env st.node b
  let hh := n'.headerHeight
  match e with
  | none =>
    let stored := match n'.headers[idx]? with
      | some h => s!"{hexPad h.hash 12}/{witStr h.wit}"
      | none => "?"
    let stale := (n'.pool.filter (fun q => b.txs.any (fun t => t.id == q.id))).length
    pure ({ st with node := n' }, s!"ok bh={n'.blockHeight} hh={hh} stored={stored} stale={stale}")
  | some er =>
    let db := if n'.headers.length == st.node.headers.length then "same" else "hdr"
    pure ({ st with node := n' }, s!"err:{errName er} bh={n'.blockHeight} hh={hh} ledger=same pool=same db={db}")

def parseHdr (sr : Bool) (s : String) : Option Header :=
  match s.splitOn ":" with
  | [idx, hash, prev, ts, nc, psr, wit] => do
    let idx ← idx.toNat?
    let hash ← hexNat hash
    let prev ← hexNat prev
    let ts ← ts.toNat?
    let nc ← hexNat nc
    let psr ← hexNat psr
    let wit ← witNat wit
    pure { index := idx, hash := hash, prevHash := prev, merkleRoot := 0, ts := ts, nextConsensus := nc,
           sre := sr, prevStateRoot := psr, wit := wit }
  | _ => none

def doAddHeaders (st : DState) (arg : String) : Option (DState × String) := do
  let hs ← if arg == "-" then some [] else (arg.splitOn ";").mapM (parseHdr st.node.cfg.sr)
  let env : Env Nat := {
    signedBy := fun w h a => st.sigs.contains (w, h, a),
    merkle := fun _ => 0, txValid := fun _ _ _ => false, balance := fun _ _ => 0,
    apply := fun _ _ => none, rootOf := fun l => l, keep := fun _ _ => true, spoil := fun l _ => l }
  let (n', e) := addHeaders env st.node (!st.node.cfg.skip) hs
  match e with
  | none =>
    let top := match n'.headers.getLast? with
      | some h => hexPad h.hash 12
      | none => "?"
    pure ({ st with node := n' }, s!"ok bh={n'.blockHeight} hh={n'.headerHeight} top={top}")
  | some er =>
    let db := if n'.headers.length == st.node.headers.length then "same" else "changed"
    pure ({ st with node := n' }, s!"err:{errName er} bh={n'.blockHeight} hh={n'.headerHeight} db={db}")

def step (st : DState) (ws : List String) : DState × String :=
  match ws with
  | ["case", k] => (initState, s!"case {k}")
  | ["undecodable"] => (st, "ok")
  | "note" :: _ => (st, "ok")
  | "cfg" :: rest =>
    match (kv rest "sr").bind bit, (kv rest "vt").bind bit, (kv rest "skip").bind bit with
    | some sr, some vt, some sk => ({ st with node := { st.node with cfg := { sr := sr, verifyTx := vt, skip := sk } } }, "ok")
    | _, _, _ => (st, "bad-op")
  | ["hdr", idx, hash, prev, ts, nc, psr, wit] =>
    match idx.toNat?, hexNat hash, hexNat prev, ts.toNat?, hexNat nc, hexNat psr, witNat wit with
    | some idx, some hash, some prev, some ts, some nc, some psr, some wit =>
      let h : Header := { index := idx, hash := hash, prevHash := prev, merkleRoot := 0, ts := ts, nextConsensus := nc,
                          sre := st.node.cfg.sr, prevStateRoot := psr, wit := wit }
      ({ st with node := { st.node with headers := st.node.headers ++ [h] } }, "ok")
    | _, _, _, _, _, _, _ => (st, "bad-op")
  | "node" :: rest =>
    match (kv rest "bh").bind String.toNat?, (kv rest "root").bind hexNat with
    | some bh, some r => ({ st with node := { st.node with blockHeight := bh, ledger := r } }, "ok")
    | _, _ => (st, "bad-op")
  | "bal" :: rest =>
    let ps := rest.filterMap (fun w => match w.splitOn "=" with
      | [k, v] => v.toNat?.map (fun n => (nameNat k, n))
      | _ => none)
    ({ st with bals := ps }, "ok")
  | ["pool", ids] =>
    let one (tok : String) : Option Tx :=
      match tok.splitOn "/" with
      | [i, w] => do
        let i ← hexNat i
        let w ← witNat w
        pure { id := i, wit := w, sender := 0, fee := 0, netFee := 0, conflicts := [] }
      | _ => none
    match (if ids == "-" then some [] else (ids.splitOn ",").mapM one) with
    | some l => ({ st with node := { st.node with pool := l } }, "ok")
    | none => (st, "bad-op")
  | ["sig", w, h, a, b] =>
    match witNat w, hexNat h, hexNat a, bit b with
    | some w, some h, some a, some b => (if b then { st with sigs := (w, h, a) :: st.sigs } else st, "ok")
    | _, _, _, _ => (st, "bad-op")
  | ["addheaders", arg] =>
    match doAddHeaders st arg with
    | some r => r
    | none => (st, "bad-op")
  | "addblock" :: rest =>
    match doAddBlock st rest with
    | some r => r
    | none => (st, "bad-op")
  | _ => (st, "bad-op")

def main : IO Unit := Proto.run initState step
