/-
Driver for stream `flags` (C16): one op per line, one observation per line.

  case <k>                                   -> case <k>
  hf <n>                                     -> ok        (hardfork index of the following lines of the case; default 7)
  cancall <perms> <hash> <groups> <method>   -> <canCall> <isAllowed of each permission as 0/1, or - if none>
        perms  = `-` | perm(;perm)*     perm = (w | h<id> | g<id>) `:` (`*` | `-` | name(,name)*)
        groups = `-` | id(,id)*
  sysflags <name>                            -> <flags> <price> <activeFrom> | absent        (Generated.Interops)
  natflags <contract> <method> <nparams> <hf>-> <flags> <safe 0/1> <deferrable 0/1> | absent  (Generated.NativeMethods, active at hf)
  sys <name> <F> <observed effects>          -> (denied | passed) (within | beyond) | unclassified
  nat <contract> <method> <nparams> <hf> <F> <observed effects>   -> same
        F = flags (0..15) of the context executing the primitive; observed effects ⊆ "wnc" or `-`;
        `within`: the observed effects (of the whole execution below the primitive) are among the REGENERATED
        may-effects of the primitive (Generated.Effects, call-graph walk of the handler); a primitive that MAY start a
        call covers whatever the called context did
  sysseq <F> <observed effects> <name>+      -> (denied | passed) (within | beyond) | unclassified
        the named system calls executed in this order by one context with flags F; `denied` if one of them is
        refused; the observed effects must be among those of the calls before the refused one
  callt <F>                                  -> denied | passed
  contract <id> <groups> <perms>             -> ok         (declares a deployed contract: hash = id, its manifest)
  chain <F0> <hop>*                          -> halt <flags of each entered context, comma separated>
                                              | fault:flags <n> | fault:perm <n>    (n contexts entered before the fault)
        hop = <requested flags>:<contract id>:<method>:<safe 0/1>      (System.Contract.Call from the current context;
        the entry context has flags F0 and is not deployed)
  callflags <via> <F> <rq> <safe 0/1>        -> denied | <callee flags>
  calleff <via> <F> <rq> <safe 0/1> <observed effects> <name>+
                                             -> (denied | inner-denied | passed) [beyond]
        via = sc (System.Contract.Call, rq = requested flags) | ct (CALLT, rq = flags of the NEF method token);
        a context with flags F calls a method (safe-marked or not) whose body runs the named system calls:
        `denied` = the call itself is refused, `inner-denied` = one of the callee's system calls is refused;
        `beyond` is appended if the observed effects are not among those of the system calls that ran
  loadscript <F> <requested>                 -> denied | <child flags>
  nativecall <F>                             -> <flags of a context started by contract.CallFromNative from a native context with flags F>
  tokcall <caller id> <callee id> <method> <safe 0/1>
        entry(All) calls caller.ta/ts (requested All), which executes CALLT of a NEF method token (flags All) for
        callee.method                      -> halt <callee flags> | fault:perm | fault:flags
  updcall <caller id> <new permissions | gone> <callee id> <method> <safe 0/1>
        entry(All) calls caller.upd/des, which has ContractManagement (contract id 1000) update its manifest to the
        new permissions / destroy it, and then calls callee.method: before Domovoi the permission check reads the
        stored manifest (none once destroyed), from Domovoi on the executing context's   -> halt | fault:perm
  mvalid / mitem / mcancall                  -> whole manifests (Model/Flags/Manifest.lean), see Driver/FlagsManIO.lean and
                                                harness/cmd/flags/manifest.go for the line format
  dynchain <F0> <relay id> <callee id> <method> <safe 0/1>
        entry(F0) calls relay.dyn (requested All), which loads a dynamic script (requested All), which calls
        callee.method (requested All)       -> halt <callee flags> | fault:flags <n> | fault:perm <n>
-/
import NeoModel.Base.Proto
import NeoModel.Model.Flags
import Driver.FlagsManIO
open NeoModel NeoModel.Flags NeoModel.Generated

structure St where
  contracts : List (Nat × Manifest) := []
  hf : Nat := 7

def parseList (s : String) : List String := if s == "-" then [] else s.splitOn ","

def parseNats (s : String) : Option (List Nat) := (parseList s).mapM (·.toNat?)

def parsePerm (s : String) : Option Permission :=
  match s.splitOn ":" with
  | [d, ms] =>
    let methods : Option (List String) := if ms == "*" then none else some (parseList ms)
    if d == "w" then some ⟨.wildcard, methods⟩
    else match d.toList with
      | 'h' :: r => (String.ofList r).toNat?.map fun h => ⟨.hash h, methods⟩
      | 'g' :: r => (String.ofList r).toNat?.map fun g => ⟨.group g, methods⟩
      | _ => none
  | _ => none

def parsePerms (s : String) : Option (List Permission) :=
  if s == "-" then some [] else (s.splitOn ";").mapM parsePerm

def parseEffects (s : String) : Effects :=
  ⟨s.toList.contains 'w', s.toList.contains 'n', s.toList.contains 'c'⟩

/-- observed (whole execution below the primitive) vs. may-effects of the primitive: a primitive that may start a
call is followed by the called context's own effects, which are that context's business. -/
def effWithin (obs exp : Effects) : Bool :=
  exp.call || ((!obs.write || exp.write) && (!obs.notify || exp.notify) && !obs.call)

def b01 (b : Bool) : String := if b then "1" else "0"

def primVerdict (p : Option Prim) (f : Nat) (obs : String) : String :=
  match p with
  | none => "unclassified"
  | some p =>
    if !(CallFlags.ofNat f).has p.req then (if effWithin (parseEffects obs) ro then "denied within" else "denied beyond")
    else if effWithin (parseEffects obs) p.eff then "passed within" else "passed beyond"

/-- a sequence of system calls run by one context: (refused?, union of the effects of the executed ones). -/
def seqVerdict (f : CallFlags) : List Prim → Bool × Effects
  | [] => (false, ro)
  | p :: ps =>
    if !f.has p.req then (true, ro)
    else
      let (d, e) := seqVerdict f ps
      (d, ⟨p.eff.write || e.write, p.eff.notify || e.notify, p.eff.call || e.call⟩)

def findNative (contract method : String) (np hf : Nat) : Option NativeMethods.Entry :=
  NativeMethods.table.find? fun m => m.contract == contract && m.name == method && m.nparams == np && activeAt hf m

structure Hop where
  rq : Nat
  id : Nat
  method : String
  safe : Bool

def parseHop (s : String) : Option Hop :=
  match s.splitOn ":" with
  | [rq, id, m, sf] => do
    let rq ← rq.toNat?
    let id ← id.toNat?
    pure ⟨rq, id, m, sf == "1"⟩
  | _ => none

/-- runs the hops on the machine; on a fault tells whether the flag check or the permission check failed
(SyscallHandler's flag check precedes callInternal's permission check). -/
def runChain (st : St) (f0 : Nat) (hops : List Hop) : String :=
  match syscallPrim st.hf "System.Contract.Call" with
  | none => "unclassified"
  | some sc =>
    let rec go (s : State) (hs : List Hop) (entered : List Nat) : String :=
      match hs with
      | [] => "halt " ++ (if entered.isEmpty then "-" else ",".intercalate (entered.reverse.map toString))
      | h :: rest =>
        let m : Manifest := ((st.contracts.find? (·.1 == h.id)).map (·.2)).getD ⟨[], []⟩
        let t : Target := ⟨h.id, m, h.method, h.safe⟩
        -- ContractManagement's storage holds the caller's deployed manifest (nothing was updated in this execution)
        let s' := step (Params.realAt st.hf) s (.call sc false (CallFlags.ofNat h.rq) t)
        if s'.halted then
          match s.stack with
          | cur :: _ => (if cur.flags.has sc.req then "fault:perm " else "fault:flags ") ++ toString entered.length
          | [] => "fault:flags " ++ toString entered.length
        else
          match s'.stack with
          | child :: _ => go s' rest (child.flags.toNat :: entered)
          | [] => "bad"
    -- ContractManagement's storage holds every declared contract's deployed manifest
    go (State.init (Frame.entry (CallFlags.ofNat f0) none) st.contracts) hops []

def step' (st : St) (ws : List String) : St × String :=
  match ws with
  | ["case", k] => ({}, s!"case {k}")
  | ["hf", n] =>
    match n.toNat? with
    | some n => ({ st with hf := n }, "ok")
    | none => (st, "bad-op")
  | ["cancall", perms, hash, groups, method] =>
    match parsePerms perms, hash.toNat?, parseNats groups with
    | some ps, some h, some gs =>
      let callee : Manifest := ⟨gs, []⟩
      let m : Manifest := ⟨[], ps⟩
      let bits := if ps.isEmpty then "-" else String.join (ps.map fun p => b01 (p.isAllowed h callee method))
      (st, s!"{m.canCall h callee method} {bits}")
    | _, _, _ => (st, "bad-op")
  | ["sysflags", name] =>
    match Interops.table.find? (·.name == name) with
    | some e => (st, s!"{e.flags} {e.price} {e.activeFrom}")
    | none => (st, "absent")
  | ["natflags", contract, method, np, hf] =>
    match np.toNat?, hf.toNat? with
    | some np, some hf =>
      match findNative contract method np hf with
      | some m => (st, s!"{m.flags} {b01 m.safe} {b01 m.deferrable}")
      | none => (st, "absent")
    | _, _ => (st, "bad-op")
  | ["sys", name, f, obs] =>
    match f.toNat? with
    | some f => (st, primVerdict (syscallPrim st.hf name) f obs)
    | none => (st, "bad-op")
  | ["nat", contract, method, np, hf, f, obs] =>
    match np.toNat?, hf.toNat?, f.toNat? with
    | some np, some hf, some f =>
      match findNative contract method np hf with
      | some m => (st, primVerdict (nativePrim hf m) f obs)
      | none => (st, "absent")
    | _, _, _ => (st, "bad-op")
  | "sysseq" :: f :: obs :: names =>
    match f.toNat?, names.mapM (syscallPrim st.hf) with
    | some f, some ps =>
      let (d, e) := seqVerdict (CallFlags.ofNat f) ps
      (st, (if d then "denied " else "passed ") ++ (if effWithin (parseEffects obs) e then "within" else "beyond"))
    | some _, none => (st, "unclassified")
    | none, _ => (st, "bad-op")
  | ["callt", f] =>
    match f.toNat? with
    | some f => (st, if (CallFlags.ofNat f).has (callTPrim st.hf).req then "passed" else "denied")
    | none => (st, "bad-op")
  | ["contract", id, groups, perms] =>
    match id.toNat?, parseNats groups, parsePerms perms with
    | some id, some gs, some ps => ({ st with contracts := (id, ⟨gs, ps⟩) :: st.contracts }, "ok")
    | _, _, _ => (st, "bad-op")
  | "chain" :: f0 :: hops =>
    match f0.toNat?, hops.mapM parseHop with
    | some f0, some hs => (st, runChain st f0 hs)
    | _, _ => (st, "bad-op")
  | ["nativecall", f] =>
    match f.toNat? with
    | some f =>
      let p : Prim := ⟨CallFlags.empty, c⟩
      let s := step (Params.realAt st.hf) (State.init (Frame.entry (CallFlags.ofNat f) none)) (.nativeCall p ⟨0, ⟨[], []⟩, "onNEP17Payment", false⟩)
      match s.stack with
      | child :: _ => (st, toString child.flags.toNat)
      | [] => (st, "bad")
    | none => (st, "bad-op")
  | ["dynchain", f0, rid, cid, method, sf] =>
    match f0.toNat?, rid.toNat?, cid.toNat?, syscallPrim st.hf "System.Contract.Call", syscallPrim st.hf "System.Runtime.LoadScript" with
    | some f0, some rid, some cid, some sc, some ls =>
      let man (id : Nat) : Manifest := ((st.contracts.find? (·.1 == id)).map (·.2)).getD ⟨[], []⟩
      let prog : List Instr := [.call sc false CallFlags.all ⟨rid, man rid, "dyn", false⟩, .loadScript ls CallFlags.all,
                                .call sc false CallFlags.all ⟨cid, man cid, method, sf == "1"⟩]
      -- run instruction by instruction to know where it stopped and why
      let rec go (s : State) (is : List Instr) (n : Nat) : String :=
        match is with
        | [] => match s.stack with
          | top :: _ => s!"halt {top.flags.toNat}"
          | [] => "bad"
        | i :: rest =>
          let s' := step (Params.realAt st.hf) s i
          if s'.halted then
            match s.stack, i.prim? with
            | cur :: _, some p => (if cur.flags.has p.req then "fault:perm " else "fault:flags ") ++ toString n
            | _, _ => "bad"
          else go s' rest (n + 1)
      (st, go (State.init (Frame.entry (CallFlags.ofNat f0) none)) prog 0)
    | _, _, _, _, _ => (st, "bad-op")
  | "callflags" :: via :: f :: rq :: sf :: [] =>
    match f.toNat?, rq.toNat?, (if via == "ct" then some (callTPrim st.hf) else syscallPrim st.hf "System.Contract.Call") with
    | some f, some rq, some p =>
      let s := step (Params.realAt st.hf) (State.init (Frame.entry (CallFlags.ofNat f) none)) (.call p (via == "ct") (CallFlags.ofNat rq) ⟨1, ⟨[], []⟩, "m", sf == "1"⟩)
      if s.halted then (st, "denied")
      else match s.stack with
        | child :: _ => (st, toString child.flags.toNat)
        | [] => (st, "bad")
    | _, _, _ => (st, "bad-op")
  | "calleff" :: via :: f :: rq :: sf :: obs :: names =>
    match f.toNat?, rq.toNat?, (if via == "ct" then some (callTPrim st.hf) else syscallPrim st.hf "System.Contract.Call"), names.mapM (syscallPrim st.hf) with
    | some f, some rq, some p, some ps =>
      let s := step (Params.realAt st.hf) (State.init (Frame.entry (CallFlags.ofNat f) none)) (.call p (via == "ct") (CallFlags.ofNat rq) ⟨1, ⟨[], []⟩, "m", sf == "1"⟩)
      if s.halted then (st, if effWithin (parseEffects obs) ro then "denied" else "denied beyond")
      else match s.stack with
        | child :: _ =>
          let (dn, e) := seqVerdict child.flags ps
          (st, (if dn then "inner-denied" else "passed") ++ (if effWithin (parseEffects obs) e then "" else " beyond"))
        | [] => (st, "bad")
    | _, _, _, _ => (st, "bad-op")
  | ["loadscript", f, rq] =>
    match f.toNat?, rq.toNat?, syscallPrim st.hf "System.Runtime.LoadScript" with
    | some f, some rq, some p =>
      let s := step (Params.realAt st.hf) (State.init (Frame.entry (CallFlags.ofNat f) none)) (.loadScript p (CallFlags.ofNat rq))
      if s.halted then (st, "denied")
      else match s.stack with
        | child :: _ => (st, toString child.flags.toNat)
        | [] => (st, "bad")
    | _, _, _ => (st, "bad-op")
  | ["tokcall", caller, callee, method, sf] =>
    match caller.toNat?, callee.toNat?, syscallPrim st.hf "System.Contract.Call" with
    | some rid, some cid, some sc =>
      let man (id : Nat) : Manifest := ((st.contracts.find? (·.1 == id)).map (·.2)).getD ⟨[], []⟩
      let P := Params.realAt st.hf
      let s1 := step P (State.init (Frame.entry CallFlags.all none) st.contracts) (.call sc false CallFlags.all ⟨rid, man rid, "ta", false⟩)
      let s2 := step P s1 (.call (callTPrim st.hf) true CallFlags.all ⟨cid, man cid, method, sf == "1"⟩)
      if s2.halted then
        match s1.stack with
        | cur :: _ => (st, if cur.flags.has (callTPrim st.hf).req then "fault:perm" else "fault:flags")
        | [] => (st, "bad")
      else match s2.stack with
        | top :: _ => (st, s!"halt {top.flags.toNat}")
        | [] => (st, "bad")
    | _, _, _ => (st, "bad-op")
  | ["updcall", caller, newPerms, callee, method, sf] =>
    match caller.toNat?, callee.toNat?, syscallPrim st.hf "System.Contract.Call",
          (if newPerms == "gone" then some none else (parsePerms newPerms).map some) with
    | some rid, some cid, some sc, some np =>
      let man (id : Nat) : Manifest := ((st.contracts.find? (·.1 == id)).map (·.2)).getD ⟨[], []⟩
      let P := Params.realAt st.hf
      -- entry → caller.upd/des → ContractManagement (id 1000) → its update/destroy native changes the storage for its
      -- caller → back → callee.method: the machine itself knows what is stored for the caller by then
      let prog : List Instr := [
        .call sc false CallFlags.all ⟨rid, man rid, "upd", false⟩,
        .call sc false CallFlags.all ⟨1000, ⟨[], []⟩, "update", false⟩,
        (match np with | some ps => .update ⟨(man rid).groups, ps⟩ | none => .destroy),
        .ret,
        .call sc false CallFlags.all ⟨cid, man cid, method, sf == "1"⟩]
      let s := run P (State.init (Frame.entry CallFlags.all none) st.contracts) prog
      (st, if s.halted then "fault:perm" else "halt")
    | _, _, _, _ => (st, "bad-op")
  | "mvalid" :: _ | "mvalidsz" :: _ | "mitem" :: _ | "mitemx" :: _ | "mcancall" :: _ => (st, (ManIO.step ws).getD "bad-op")
  | _ => (st, "bad-op")

def main : IO Unit := Proto.run ({} : St) step'
