/-
Driver for stream `exec` (C04): runs the implementation model and the specification on the
same (pre-state, call tree).
  case <k>                                  -> case <k>
  block <m> fee*m <n> (<owner> <key> <val>)*n -> ok      (pre-state of a block; all fees burnt from account 50)
  tx | <tree>                               -> HALT|FAULT ev <n> (<c> <e>)*    implRun on the current store (raw events)
  spec                                      -> HALT|FAULT ev <n> (<c> <e>)*    specRun of the same tree on the spec's store
  end                                       -> st <n> (<owner> <key> <val>)*   the store under the implementation model
  specend                                   -> st ...                          the store under the specification
  cinit n (id v)* | cpush | cwrite id v | cpersist | cdrop | cread  -> the values every native id shows at every
                                               depth of the cache stack `CStack` (native-cache layering of pkg/core/dao)
Tree tokens: [ nodes ] ; P k v ; D k ; N e ; Q k [..] ; C c fl [..] ; I [..] ;
  T [body] hasC [cat] hasF [fin] ; X ; A ; G tok to amt fl hasCb [cb] ; F v fl ; B a fl tag ; U a fl ; Y d fl ;
  M fl ; Z fl ; R role v fl ; W c fee fl ; V c fl ; E to amt fl tag hasCb [cb] ; O on fl tag   (txg | tree: out-of-gas transaction)
-/
import NeoModel.Base.Proto
import NeoModel.Model.Exec
open NeoModel NeoModel.Exec

abbrev Toks := List String

def seqOf : List Tree → Tree
  | [] => .skip
  | [t] => t
  | t :: r => .seq t (seqOf r)

mutual
  partial def pList : Toks → Option (Tree × Toks)
    | "[" :: r => pItems r []
    | _ => none
  partial def pItems (ts : Toks) (acc : List Tree) : Option (Tree × Toks) :=
    match ts with
    | "]" :: r => some (seqOf acc.reverse, r)
    | _ =>
      match pNode ts with
      | some (t, r) => pItems r (t :: acc)
      | none => none
  partial def pNode : Toks → Option (Tree × Toks)
    | "P" :: k :: v :: r => do some (.put (← k.toNat?) (← v.toNat?), r)
    | "D" :: k :: r => do some (.del (← k.toNat?), r)
    | "N" :: e :: r => do some (.notify (← e.toNat?), r)
    | "X" :: r => some (.throw, r)
    | "A" :: r => some (.abort, r)
    | "Q" :: k :: r => do
      let (b, r) ← pList r
      some (.ifp (← k.toNat?) b, r)
    | "C" :: c :: fl :: r => do
      let (b, r) ← pList r
      some (.call (← c.toNat?) (Flags.ofNat (← fl.toNat?)) b, r)
    | "I" :: r => do
      let (b, r) ← pList r
      some (.loc b, r)
    | "T" :: r => do
      let (b, r) ← pList r
      match r with
      | hc :: r =>
        let (c, r) ← pList r
        match r with
        | hf :: r =>
          let (f, r) ← pList r
          some (.try_ b (hc == "1") c (hf == "1") f, r)
        | _ => none
      | _ => none
    | "G" :: tok :: to :: amt :: fl :: hasCb :: r => do
      let (cb, r) ← pList r
      let to ← to.toNat?
      some (.native false (.transfer (← tok.toNat?) to (← amt.toNat?) (to < 4)) (Flags.ofNat (← fl.toNat?))
        (if hasCb == "1" then cb else .skip) .skip, r)
    | "F" :: v :: fl :: r => do
      some (.native false (.setFee (← v.toNat?)) (Flags.ofNat (← fl.toNat?)) .skip .skip, r)
    | "B" :: a :: fl :: tag :: r => do
      -- Policy.blockAccount = revoke the account's votes, then in the same frame the deferred GAS minting and the block itself
      let a ← a.toNat?
      let tag ← tag.toNat?
      let f := Flags.ofNat (← fl.toNat?)
      some (.native false (.revoke a tag) f .skip
        (.seq (.native true (.mint a tag) f .skip .skip) (.native true (.block a) f .skip .skip)), r)
    | "U" :: a :: fl :: r => do
      some (.native false (.unblock (← a.toNat?)) (Flags.ofNat (← fl.toNat?)) .skip .skip, r)
    | "Y" :: d :: fl :: r => do
      some (.native false (.deploy (← d.toNat?)) (Flags.ofNat (← fl.toNat?)) .skip .skip, r)
    | "M" :: fl :: r => do
      some (.native false .update (Flags.ofNat (← fl.toNat?)) .skip .skip, r)
    | "Z" :: fl :: r => do
      some (.native false .destroy (Flags.ofNat (← fl.toNat?)) .skip .skip, r)
    | "R" :: role :: v :: fl :: r => do
      some (.native false (.designate (← role.toNat?) (← v.toNat?)) (Flags.ofNat (← fl.toNat?)) .skip .skip, r)
    | "W" :: c :: fee :: fl :: r => do
      some (.native false (.setWl (← c.toNat?) (← fee.toNat?)) (Flags.ofNat (← fl.toNat?)) .skip .skip, r)
    | "V" :: c :: fl :: r => do
      some (.native false (.delWl (← c.toNat?)) (Flags.ofNat (← fl.toNat?)) .skip .skip, r)
    | "E" :: to :: amt :: fl :: tag :: hasCb :: r => do
      -- NEO.transfer = the method proper, then in the same frame the deferred GAS minting for sender and receiver
      let (cb, r) ← pList r
      let to ← to.toNat?
      let tag ← tag.toNat?
      let f := Flags.ofNat (← fl.toNat?)
      some (.native false (.neoXfer to (← amt.toNat?) (to < 4) tag) f (if hasCb == "1" then cb else .skip)
        (.seq (.native true (.mint 99 tag) f .skip .skip) (.native true (.mint to tag) f .skip .skip)), r)
    | "O" :: on :: fl :: tag :: r => do
      let f := Flags.ofNat (← fl.toNat?)
      let tag ← tag.toNat?
      some (.native false (.vote (on != "0") tag) f .skip (.native true (.mint 99 tag) f .skip .skip), r)
    | _ => none
end

def pTriples : Nat → Toks → Log → Option (Log × Toks)
  | 0, ts, acc => some (acc, ts)
  | n + 1, o :: k :: v :: r, acc => do
    pTriples n r (.set (← o.toNat?, ← k.toNat?) (← v.toNat?) :: acc)
  | _, _, _ => none

def keysOf : Log → List Key
  | [] => []
  | .set k _ :: r => k :: keysOf r
  | .del k :: r => k :: keysOf r

def keyLe (a b : Key) : Bool := a.1 < b.1 || (a.1 == b.1 && a.2 <= b.2)

def dedup : List Key → List Key
  | a :: b :: r => if a == b then dedup (b :: r) else a :: dedup (b :: r)
  | l => l

def showStore (l : Log) : String :=
  let ks := dedup ((keysOf l).mergeSort keyLe)
  let ents := ks.filterMap fun k =>
    match l.get k with
    | some v => if (k.1 == 100 || k.1 == 101 || k.1 == 114 || k.1 == 115) && v == 0 then none else some s!" {k.1} {k.2} {v}"
    | none => none
  s!"st {ents.length}{String.join ents}"

def showEvents (ev : List Event) : String :=
  s!"ev {ev.length}{String.join (ev.map fun e => s!" {e.1} {e.2}")}"

structure DState where
  cur : Log := []       -- block cache under the implementation model
  curS : Log := []      -- the same under the specification
  tree : Tree := .skip
  oog : Bool := false
  cs : CStack := ⟨fun _ => 0, 0, [[]]⟩

/-- what every native id shows at every depth of the cache stack, top first. -/
def showCaches (st : CStack) : String :=
  let rec go : List CLayer → List String
    | [] => []
    | l :: rest =>
      (" ".intercalate ((List.range 4).map fun id =>
        match (roRef (l :: rest) id).map st.heap with
        | some v => toString v
        | none => "-")) :: go rest
  " | ".intercalate (go st.layers)

def cinit : Nat → Toks → CStack → Option CStack
  | 0, [], st => some st
  | n + 1, id :: v :: r, st => do
    let id ← id.toNat?
    let v ← v.toNat?
    -- SetCache on the lowest DAO: a fresh cell
    cinit n r ⟨fun x => if x = st.next then v else st.heap x, st.next + 1,
      match st.layers with
      | [l] => [(id, st.next) :: l]
      | ls => ls⟩
  | _, _, _ => none

def pNats : Nat → Toks → List Nat → Option (List Nat × Toks)
  | 0, ts, acc => some (acc.reverse, ts)
  | n + 1, x :: r, acc => do pNats n r ((← x.toNat?) :: acc)
  | _, _, _ => none

def step (s : DState) (ws : List String) : DState × String :=
  match ws with
  | ["case", k] => ({}, s!"case {k}")
  | "block" :: m :: r =>
    match (do
      let (fees, r) ← pNats (← m.toNat?) r []
      match r with
      | n :: r =>
        let (pre, r) ← pTriples (← n.toNat?) r []
        if r.isEmpty then some (fees, pre) else none
      | _ => none) with
    | some (fees, pre) =>
      let σ := burnAll pre (fees.map fun f => ⟨f, .skip⟩)
      ({ cur := σ, curS := σ }, "ok")
    | none => (s, "bad-block")
  | "tx" :: "|" :: ts =>
    match pList ts with
    | some (t, []) =>
      let o := implRun s.cur t
      ({ s with cur := o.store, tree := t }, (if o.halt then "HALT " else "FAULT ") ++ showEvents o.raw)
    | _ => (s, "bad-tree")
  | "cinit" :: n :: r =>
    match n.toNat? with
    | some n =>
      match cinit n r ⟨fun _ => 0, 0, [[]]⟩ with
      | some st => ({ s with cs := st }, showCaches st)
      | none => (s, "bad-op")
    | none => (s, "bad-op")
  | ["cpush"] => let st := s.cs.push; ({ s with cs := st }, showCaches st)
  | ["cwrite", id, v] =>
    match id.toNat?, v.toNat? with
    | some id, some v => let st := s.cs.write id v; ({ s with cs := st }, showCaches st)
    | _, _ => (s, "bad-op")
  | ["cpersist"] => let st := s.cs.persist; ({ s with cs := st }, showCaches st)
  | ["cdrop"] => let st := s.cs.drop; ({ s with cs := st }, showCaches st)
  | ["cread"] => (s, showCaches s.cs)
  | "txg" :: "|" :: ts =>
    -- a transaction that runs out of gas at a point the model does not know: FAULT, no change
    match pList ts with
    | some (t, []) => ({ s with tree := t, oog := true }, "FAULT")
    | _ => (s, "bad-tree")
  | ["spec"] =>
    if s.oog then ({ s with oog := false }, "FAULT ev 0") else
    let o := specRun s.curS s.tree
    ({ s with curS := o.store }, (if o.halt then "HALT " else "FAULT ") ++ showEvents o.events)
  | ["end"] => (s, showStore s.cur)
  | ["specend"] => (s, showStore s.curS)
  | _ => (s, "bad-op")

def main : IO Unit := Proto.run ({} : DState) step
