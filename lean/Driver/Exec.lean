/-
Driver for stream `exec` (C04): runs the implementation model and the specification on the
same (pre-state, call tree).
  case <k>                                  -> case <k>
  block <m> fee*m <n> (<owner> <key> <val>)*n -> ok      (pre-state of a block; all fees burnt from account 50)
  tx | <tree>                               -> HALT|FAULT ev <n> (<c> <e>)*    implRun on the current store (raw events)
  spec                                      -> HALT|FAULT ev <n> (<c> <e>)*    specRun of the same tree on the spec's store
  dev                                       -> dev 0|1                         specKRun's flag for the last tx (the deviating commit rule was applied)
  end                                       -> st <n> (<owner> <key> <val>)*   the store under the implementation model
  specend                                   -> st ...                          the store under the specification
  cinit n (id v)* | cpush | cwrite id v | cpersist | cdrop | cread  -> the values every native id shows at every
                                               depth of the cache stack `CStack` (native-cache layering of pkg/core/dao)
  blset n x* | blblock x | blunblock x | blstale x y     -> bl <n> <account>*               Policy's blocked-accounts cache, in its order
Tree tokens: [ nodes ] ; P k v ; D k ; N e ; NN e n ; Q k [..] ; ED k variant ; C c fl [..] ; I [..] ;
  T [body] hasC [cat] hasF [fin] ; X ; A ; G tok to amt fl hasCb [cb] ; F v fl ; B a fl tag ; U a fl ; Y d fl ;
  M nefV fl ; Z fl tag ; KR fl ; KU w fl ; OR u fl ; OF fl ; NL till fl ; NW to fl ; GP v fl ; R role v fl ; W c fee fl ; V c fl ; E to amt fl tag hasCb [cb] ; O on fl tag   (txg | tree: out-of-gas transaction)
-/
import NeoModel.Base.Proto
import NeoModel.Model.Exec
import NeoModel.Model.ExecBlocked
open NeoModel NeoModel.Exec

abbrev Toks := List String

def seqOf : List Tree → Tree
  | [] => .skip
  | [t] => t
  | t :: r => .seq t (seqOf r)

/-- what the interpreter contract `a` does when it receives a GAS reward (onNEP17Payment(null, amount, null)):
    contract 1 is built with a hook — if its storage key 4 is present it calls contract 0, which destroys
    itself (`tag` 90 names the reward of that destruction); the other contracts do nothing. -/
def rewardProg (a : Nat) : Tree :=
  if a = 1 then
    .ifp 4 (.call 0 Flags.all (.native false (.revoke 99 90) Flags.all .skip
      (.seq (.native true (.mint 99 90) Flags.all .skip .skip) (.native true .destroy Flags.all .skip .skip))))
  else .skip

/-- the deferred GAS reward minting for `who` (99 = the executing contract `self`) with the receiver's hook. -/
def mintNode (self who tag : Nat) (f : Flags) : Tree :=
  .native true (.mint who tag) f (rewardProg (if who = 99 then self else who)) .skip

mutual
  partial def pList (self : Nat) : Toks → Option (Tree × Toks)
    | "[" :: r => pItems self r []
    | _ => none
  partial def pItems (self : Nat) (ts : Toks) (acc : List Tree) : Option (Tree × Toks) :=
    match ts with
    | "]" :: r => some (seqOf acc.reverse, r)
    | _ =>
      match pNode self ts with
      | some (t, r) => pItems self r (t :: acc)
      | none => none
  /-- `self`: the contract that executes the node (9 = the entry script). -/
  partial def pNode (self : Nat) : Toks → Option (Tree × Toks)
    | "P" :: k :: v :: r => do some (.put (← k.toNat?) (← v.toNat?), r)
    | "D" :: k :: r => do some (.del (← k.toNat?), r)
    | "N" :: e :: r => do some (.notify (← e.toNat?), r)
    | "NN" :: e :: n :: r => do
      -- the same notification n times (around the limit of 512 per execution)
      let e ← e.toNat?
      some (seqOf (List.replicate (← n.toNat?) (.notify e)), r)
    | "X" :: r => some (.throw, r)
    | "A" :: r => some (.abort, r)
    | "Q" :: k :: r => do
      let (b, r) ← pList self r
      some (.ifp (← k.toNat?) b, r)
    | "ED" :: k :: _variant :: r => do
      -- a stored value is read, bytes derived from it are edited in place and dropped: for the model a read
      -- (stored values are immutable: Props/C04 `only_put_del_native_change_store`)
      some (.ifp (← k.toNat?) .skip, r)
    | "C" :: c :: fl :: r => do
      let c ← c.toNat?
      let (b, r) ← pList c r
      some (.call c (Flags.ofNat (← fl.toNat?)) b, r)
    | "I" :: r => do
      let (b, r) ← pList self r
      some (.loc b, r)
    | "T" :: r => do
      let (b, r) ← pList self r
      match r with
      | hc :: r =>
        let (c, r) ← pList self r
        match r with
        | hf :: r =>
          let (f, r) ← pList self r
          some (.try_ b (hc == "1") c (hf == "1") f, r)
        | _ => none
      | _ => none
    | "G" :: tok :: to :: amt :: fl :: hasCb :: r => do
      let to ← to.toNat?
      let (cb, r) ← pList to r
      some (.native false (.transfer (← tok.toNat?) to (← amt.toNat?) (to < 4)) (Flags.ofNat (← fl.toNat?))
        (if hasCb == "1" then cb else .skip) .skip, r)
    | "F" :: v :: fl :: r => do
      some (.native false (.setFee (← v.toNat?)) (Flags.ofNat (← fl.toNat?)) .skip .skip, r)
    | "B" :: a :: fl :: tag :: r => do
      -- Policy.blockAccount = revoke the account's votes, then in the same frame the deferred GAS minting and the block itself
      let a ← a.toNat?
      let tag ← tag.toNat?
      let f := Flags.ofNat (← fl.toNat?)
      some (.native false (.revoke a tag) f .skip
        (.seq (mintNode self a tag f) (.native true (.block a) f .skip .skip)), r)
    | "U" :: a :: fl :: r => do
      some (.native false (.unblock (← a.toNat?)) (Flags.ofNat (← fl.toNat?)) .skip .skip, r)
    | "Y" :: d :: fl :: r => do
      some (.native false (.deploy (← d.toNat?)) (Flags.ofNat (← fl.toNat?)) .skip .skip, r)
    | "M" :: v :: fl :: r => do
      some (.native false (.update (← v.toNat?)) (Flags.ofNat (← fl.toNat?)) .skip .skip, r)
    | "Z" :: fl :: tag :: r => do
      -- ContractManagement.destroy = Policy.BlockAccountInternalDeferrable(self): revoke the contract's votes, then in
      -- the same frame the deferred GAS minting (payment callback of the still existing contract), then the erasure
      let tag ← tag.toNat?
      let f := Flags.ofNat (← fl.toNat?)
      some (.native false (.revoke 99 tag) f .skip
        (.seq (mintNode self 99 tag f) (.native true .destroy f .skip .skip)), r)
    | "KR" :: fl :: r => do
      some (.native false .regCand (Flags.ofNat (← fl.toNat?)) .skip .skip, r)
    | "KU" :: w :: fl :: r => do
      some (.native false (.unregCand (w == "1")) (Flags.ofNat (← fl.toNat?)) .skip .skip, r)
    | "OR" :: u :: fl :: r => do
      some (.native false (.oracleReq (← u.toNat?)) (Flags.ofNat (← fl.toNat?)) .skip .skip, r)
    | "OF" :: fl :: r => do
      some (.native false .oracleFinish (Flags.ofNat (← fl.toNat?)) .skip .skip, r)
    | "GP" :: v :: fl :: r => do
      some (.native false (.setGas (← v.toNat?)) (Flags.ofNat (← fl.toNat?)) .skip .skip, r)
    | "NL" :: till :: fl :: r => do
      some (.native false (.lock (← till.toNat?)) (Flags.ofNat (← fl.toNat?)) .skip .skip, r)
    | "NW" :: to :: fl :: r => do
      some (.native false (.withdraw (← to.toNat?)) (Flags.ofNat (← fl.toNat?)) .skip .skip, r)
    | "R" :: role :: v :: fl :: r => do
      some (.native false (.designate (← role.toNat?) (← v.toNat?)) (Flags.ofNat (← fl.toNat?)) .skip .skip, r)
    | "W" :: c :: fee :: fl :: r => do
      some (.native false (.setWl (← c.toNat?) (← fee.toNat?)) (Flags.ofNat (← fl.toNat?)) .skip .skip, r)
    | "V" :: c :: fl :: r => do
      some (.native false (.delWl (← c.toNat?)) (Flags.ofNat (← fl.toNat?)) .skip .skip, r)
    | "E" :: to :: amt :: fl :: tag :: hasCb :: r => do
      -- NEO.transfer = the method proper, then in the same frame the deferred GAS minting for sender and receiver
      let to ← to.toNat?
      let (cb, r) ← pList to r
      let tag ← tag.toNat?
      let f := Flags.ofNat (← fl.toNat?)
      some (.native false (.neoXfer to (← amt.toNat?) (to < 4) tag) f (if hasCb == "1" then cb else .skip)
        (.seq (mintNode self 99 tag f) (mintNode self to tag f)), r)
    | "O" :: on :: fl :: tag :: r => do
      let f := Flags.ofNat (← fl.toNat?)
      let tag ← tag.toNat?
      some (.native false (.vote (on != "0") tag) f .skip (mintNode self 99 tag f), r)
    | _ => none
end

def pTriples : Nat → Toks → Log → Option (Log × Toks)
  | 0, ts, acc => some (acc, ts)
  | n + 1, o :: k :: v :: r, acc => do
    pTriples n r (.set (← o.toNat?, ← k.toNat?) (← v.toNat?) :: acc)
  | _, _, _ => none

def keysOf : Log → List Key
  | [] => []
  | .set k _ :: r => k :: keysOf r
  | .del k :: r => k :: keysOf r

def keyLe (a b : Key) : Bool := a.1 < b.1 || (a.1 == b.1 && a.2 <= b.2)

def dedup : List Key → List Key
  | a :: b :: r => if a == b then dedup (b :: r) else a :: dedup (b :: r)
  | l => l

def showStore (l : Log) : String :=
  let ks := dedup ((keysOf l).mergeSort keyLe)
  let ents := ks.filterMap fun k =>
    match l.get k with
    | some v => if (k.1 == 100 || k.1 == 101 || k.1 == 114 || k.1 == 115) && v == 0 then none else some s!" {k.1} {k.2} {v}"
    | none => none
  s!"st {ents.length}{String.join ents}"

def showEvents (ev : List Event) : String :=
  s!"ev {ev.length}{String.join (ev.map fun e => s!" {e.1} {e.2}")}"

structure DState where
  cur : Log := []       -- block cache under the implementation model
  curS : Log := []      -- the same under the specification
  tree : Tree := .skip
  prev : Log := []      -- block cache under the implementation model before the last `tx`
  oog : Bool := false
  cs : CStack := ⟨fun _ => 0, 0, [[]]⟩
  bl : List Nat := []   -- Policy's blocked-accounts cache (accounts numbered in the order of their hashes)

/-- what every native id shows at every depth of the cache stack, top first. -/
def showCaches (st : CStack) : String :=
  let rec go : List CLayer → List String
    | [] => []
    | l :: rest =>
      (" ".intercalate ((List.range 4).map fun id =>
        match (roRef (l :: rest) id).map st.heap with
        | some v => toString v
        | none => "-")) :: go rest
  " | ".intercalate (go st.layers)

def cinit : Nat → Toks → CStack → Option CStack
  | 0, [], st => some st
  | n + 1, id :: v :: r, st => do
    let id ← id.toNat?
    let v ← v.toNat?
    -- SetCache on the lowest DAO: a fresh cell
    cinit n r ⟨fun x => if x = st.next then v else st.heap x, st.next + 1,
      match st.layers with
      | [l] => [(id, st.next) :: l]
      | ls => ls⟩
  | _, _, _ => none

def showList (l : List Nat) : String := s!"bl {l.length}{String.join (l.map fun x => s!" {x}")}"

def pNats : Nat → Toks → List Nat → Option (List Nat × Toks)
  | 0, ts, acc => some (acc.reverse, ts)
  | n + 1, x :: r, acc => do pNats n r ((← x.toNat?) :: acc)
  | _, _, _ => none

def step (s : DState) (ws : List String) : DState × String :=
  match ws with
  | ["case", k] => ({}, s!"case {k}")
  | "block" :: m :: r =>
    match (do
      let (fees, r) ← pNats (← m.toNat?) r []
      match r with
      | n :: r =>
        let (pre, r) ← pTriples (← n.toNat?) r []
        if r.isEmpty then some (fees, pre) else none
      | _ => none) with
    | some (fees, pre) =>
      let σ := burnAll pre (fees.map fun f => ⟨f, .skip⟩)
      ({ cur := σ, curS := σ }, "ok")
    | none => (s, "bad-block")
  | "tx" :: "|" :: ts =>
    match pList entryId ts with
    | some (t, []) =>
      let o := implRun s.cur t
      ({ s with cur := o.store, prev := s.cur, tree := t }, (if o.halt then "HALT " else "FAULT ") ++ showEvents o.raw)
    | _ => (s, "bad-tree")
  | "cinit" :: n :: r =>
    match n.toNat? with
    | some n =>
      match cinit n r ⟨fun _ => 0, 0, [[]]⟩ with
      | some st => ({ s with cs := st }, showCaches st)
      | none => (s, "bad-op")
    | none => (s, "bad-op")
  | ["cpush"] => let st := s.cs.push; ({ s with cs := st }, showCaches st)
  | ["cwrite", id, v] =>
    match id.toNat?, v.toNat? with
    | some id, some v => let st := s.cs.write id v; ({ s with cs := st }, showCaches st)
    | _, _ => (s, "bad-op")
  | ["cpersist"] => let st := s.cs.persist; ({ s with cs := st }, showCaches st)
  | ["cdrop"] => let st := s.cs.drop; ({ s with cs := st }, showCaches st)
  | ["cread"] => (s, showCaches s.cs)
  -- Policy's sorted blocked-accounts cache (Model/ExecBlocked.lean): blockAccount / unblockAccount of an account,
  -- and blockAccount of x whose reward callback blocks y before x is inserted (the stale position)
  | "blset" :: n :: r =>
    match n.toNat? with
    | some n =>
      match pNats n r [] with
      | some (l, []) => ({ s with bl := l }, showList l)
      | _ => (s, "bad-op")
    | none => (s, "bad-op")
  | ["blblock", x] =>
    match x.toNat? with
    | some x => let l := Blocked.blockCoded id s.bl x; ({ s with bl := l }, showList l)
    | none => (s, "bad-op")
  | ["blunblock", x] =>
    match x.toNat? with
    | some x => let l := Blocked.unblockCoded s.bl x; ({ s with bl := l }, showList l)
    | none => (s, "bad-op")
  | ["blstale", x, y] =>
    match x.toNat?, y.toNat? with
    | some x, some y => let l := Blocked.blockCoded (fun l => Blocked.blockCoded id l y) s.bl x; ({ s with bl := l }, showList l)
    | _, _ => (s, "bad-op")
  | "txg" :: "|" :: ts =>
    -- a transaction that runs out of gas at a point the model does not know: FAULT, no change
    match pList entryId ts with
    | some (t, []) => ({ s with tree := t, oog := true }, "FAULT")
    | _ => (s, "bad-tree")
  | ["spec"] =>
    if s.oog then ({ s with oog := false }, "FAULT ev 0") else
    let o := specRun s.curS s.tree
    ({ s with curS := o.store }, (if o.halt then "HALT " else "FAULT ") ++ showEvents o.events)
  | ["dev"] =>
    -- did the run of the last `tx` apply the deviating commit rule (the `dev` flag of specKRun)?
    -- after a deviation the specification continues from the implementation model's state (the following
    -- transactions of the block are judged on their own)
    if (specKRun s.prev s.tree).2 then ({ s with curS := s.cur }, "dev 1") else (s, "dev 0")
  | ["end"] => (s, showStore s.cur)
  | ["specend"] => (s, showStore s.curS)
  | _ => (s, "bad-op")

def main : IO Unit := Proto.run ({} : DState) step
