/-
Driver for stream `witness` (C15). One op per line, one observation per line.

  case <k>                         -> case <k>            (forgets the context table)
  ctx <env>                        -> ok                  (appends a context to the table)
  mt <cond>                        -> one char per context of the table: 1 | 0 | e   (`matchC`)
  cw <hash> <env> <signers>        -> true | false | err:nosigners | err:noreadstates   (`checkWitness`)
  dec <depth> <hex>                -> ok <cond> <rest-hex> | err      (`decodeCond` with maxDepth = depth)
  vs <byte>                        -> ok | err                         (`validScopes`: ScopesFromByte)
  enc <cond>                       -> <hex>                            (`encodeCond`, keys as 33 bytes)
  decs <hex>                       -> ok <signer> <rest-hex> | err    (`decodeSigner`; signer printed with full-width hashes)
  adm <depth> <cond>               -> ok | err                         (`admits`: the JSON / stack-item decoders)
  rsi <item>                       -> ok <action> <cond> | err       (`ruleFromItem`: WitnessRule.FromStackItem)
      item := N | T | F | I int | S hex | U hex | A n item^n | R n item^n | M | X
              (null, true, false, Integer, ByteString, Buffer, Array, Struct, Map, Interop)
  ssi <item>                       -> ok <signer> | err               (`signerFromItem`: Signer.FromStackItem)
  sfs <hex of the string>          -> ok <byte> | err                 (`scopesFromString`: ScopesFromString, the "scopes" of a signer in JSON)
  cjs <json>                       -> ok <cond> | err                 (`condFromJ`: UnmarshalConditionJSON)
  rjs <json>                       -> ok <action> <cond> | err       (`ruleFromJ`: WitnessRule.UnmarshalJSON)
      json := n | t | f | i int | s hex | a n json^n | o n (hex json)^n     (strings and keys as hex of their bytes)
  x <contracts> <us> <tx> <xop>*   -> one item per OB / CW / CH, blank separated; a fault ends the line with fault:<class>
                                      (the frame machine `VM.step`, `checkWitnessVM`, `checkWitnessArgVM`)
      contracts := n (hash ngroups key^ngroups)^n
      us := - | U signers          (ic.UseSigners)         tx := - | T signers   (ic.Tx; `-`: the container is no transaction)
      xop := LW h160 f | LS h160 f | LD h160 f | LH h160 hash f | LN h160 caller hash f init | CL | RT | UW n
           | CC target fs safe init | CT target fs safe init | RL h160 fs | NC caller target init
           | VS hash | VC hash init | IS h160
           | TR catch finally | ET | EF | TH     (TRY, ENDTRY, ENDFINALLY, THROW: the machine with try stacks, `VMT.step`)
           | OB            -> o:<depth>,<current>,<calling>,<entry>,<flags>,<calledByEntry>
           | OI            -> i:<current>,<calling>,<entry>,<flags>      (what the four syscalls return inside a contract)
           | CW hex        -> true | false | err:nosigners | err:noreadstates | fault:badarg   (System.Runtime.CheckWitness)
           | FE n          -> true | false : GetCallFlags() == n
           | CQ hex        -> nothing when the check returns a boolean (its result is dropped), the fault otherwise
           | CH hash       -> the same for runtime.CheckHashedWitness

Token grammar (prefix form, blank separated; hashes and keys are hex numbers):
  cond    := B0 | B1 | N cond | A n cond^n | O n cond^n | H hash | G key | E | C hash | K key
  env     := nframes (hash caller rs)^nframes   ncontracts (hash ngroups key^ngroups)^ncontracts
             frames innermost (executing) first, entry script last; rs = 0|1
  signers := n (account scopes nc hash^nc ng key^ng nr (action cond)^nr)^n      scopes, action decimal
-/
import NeoModel.Base.Proto
import NeoModel.Model.Witness
import NeoModel.Model.Witness.Arg
import NeoModel.Model.Witness.Ripemd160
import NeoModel.Model.Witness.Items
import NeoModel.Model.Witness.Json
import NeoModel.Model.Witness.Try
import NeoModel.Model.Witness.ScopeJson
open NeoModel NeoModel.Witness

abbrev P (α : Type) := List String → Option (α × List String)

def hexNat (s : String) : Option Nat :=
  s.toList.foldlM (fun a c => (Hex.val c).map (fun v => a * 16 + v)) 0

def pHex : P Nat
  | [] => none
  | t :: r => (hexNat t).map (·, r)

def pDec : P Nat
  | [] => none
  | t :: r => t.toNat?.map (·, r)

/-- `n` repetitions of `p`. -/
def pMany {α : Type} (p : P α) : Nat → P (List α)
  | 0, ts => some ([], ts)
  | n+1, ts => do
    let (x, r) ← p ts
    let (xs, r') ← pMany p n r
    pure (x :: xs, r')

/-- a decimal count followed by that many `p`. -/
def pCounted {α : Type} (p : P α) : P (List α) := fun ts => do
  let (n, r) ← pDec ts
  pMany p n r

/-- fuel = number of tokens left (every node consumes one). -/
def pCondF : Nat → P Cond
  | 0, _ => none
  | f+1, ts => match ts with
    | [] => none
    | t :: r =>
      if t == "B0" then some (.boolean false, r)
      else if t == "B1" then some (.boolean true, r)
      else if t == "E" then some (.calledByEntry, r)
      else if t == "N" then (pCondF f r).map fun (c, r') => (.not c, r')
      else if t == "A" then (pCounted (pCondF f) r).map fun (cs, r') => (.and cs, r')
      else if t == "O" then (pCounted (pCondF f) r).map fun (cs, r') => (.or cs, r')
      else if t == "H" then (pHex r).map fun (h, r') => (.scriptHash h, r')
      else if t == "G" then (pHex r).map fun (h, r') => (.group h, r')
      else if t == "C" then (pHex r).map fun (h, r') => (.calledByContract h, r')
      else if t == "K" then (pHex r).map fun (h, r') => (.calledByGroup h, r')
      else none

def pCond : P Cond := fun ts => pCondF (ts.length + 1) ts

def pFrame : P Frame := fun ts => do
  let (h, r) ← pHex ts
  let (c, r) ← pHex r
  let (f, r) ← pDec r
  pure ({ hash := h, caller := c, readStates := f != 0 }, r)

def pContract : P (Hash × List Key) := fun ts => do
  let (h, r) ← pHex ts
  let (ks, r) ← pCounted pHex r
  pure ((h, ks), r)

def lookupContract (tbl : List (Hash × List Key)) (h : Hash) : Option (List Key) :=
  (tbl.find? (fun p => p.1 == h)).map (·.2)

def pEnv : P Env := fun ts => do
  let (fs, r) ← pCounted pFrame ts
  let (cs, r) ← pCounted pContract r
  -- frames come innermost first; the model builds the environment from the entry script by successive loads
  match fs.reverse with
  | [] => none
  | f0 :: calls => pure (Env.ofCalls (lookupContract cs) f0 calls, r)

def pRule : P Rule := fun ts => do
  let (a, r) ← pDec ts
  let (c, r) ← pCond r
  pure ({ action := a, cond := c }, r)

def pSigner : P Signer := fun ts => do
  let (acc, r) ← pHex ts
  let (sc, r) ← pDec r
  let (cs, r) ← pCounted pHex r
  let (gs, r) ← pCounted pHex r
  let (rs, r) ← pCounted pRule r
  pure ({ account := acc, scopes := sc, allowedContracts := cs, allowedGroups := gs, rules := rs }, r)

def showRes : Res → String
  | .ok true => "true"
  | .ok false => "false"
  | .err .noSigners => "err:nosigners"
  | .err .noReadStates => "err:noreadstates"

def resChar : Res → Char
  | .ok true => '1'
  | .ok false => '0'
  | .err _ => 'e'

/-- fixed-width lower-case hex of a number (`w` digits). -/
def hexW (w n : Nat) : String :=
  String.ofList ((List.range w).reverse.map fun i => Hex.digit ((n / 16 ^ i) % 16))

mutual
def showCond : Cond → String
  | .boolean b => if b then "B1" else "B0"
  | .not c => "N " ++ showCond c
  | .and cs => s!"A {cs.length}" ++ showConds cs
  | .or cs => s!"O {cs.length}" ++ showConds cs
  | .scriptHash h => "H " ++ hexW 40 h
  | .group k => "G " ++ hexW 66 k
  | .calledByEntry => "E"
  | .calledByContract h => "C " ++ hexW 40 h
  | .calledByGroup k => "K " ++ hexW 66 k
def showConds : List Cond → String
  | [] => ""
  | c :: cs => " " ++ showCond c ++ showConds cs
end

/-- the driver's stand-in for `keys.PublicKey.DecodeBinary`: a compressed point, 0x02/0x03 and 32 bytes
(the harness only feeds keys that are on the curve). -/
def decKeyCompressed (bs : Bytes) : Option (Key × Bytes) :=
  match bs with
  | [] => none
  | p :: _ =>
    if p = 0x02 ∨ p = 0x03 then (Wire.takeN 33 bs).map fun (x, r) => (beVal x, r)
    else none

def showRules : List Rule → String
  | [] => ""
  | r :: rs => s!" {r.action} " ++ showCond r.cond ++ showRules rs

def showSigner (s : Signer) : String :=
  hexW 40 s.account ++ s!" {s.scopes} {s.allowedContracts.length}"
    ++ String.join (s.allowedContracts.map fun h => " " ++ hexW 40 h)
    ++ s!" {s.allowedGroups.length}" ++ String.join (s.allowedGroups.map fun k => " " ++ hexW 66 k)
    ++ s!" {s.rules.length}" ++ showRules s.rules


/-! ### executions of the frame machine -/

inductive XOp where
  | m (op : Op)
  | tm (op : TOp)
  | ob
  | oi
  | fe (n : Nat)
  | cw (arg : Bytes)
  | cq (arg : Bytes)
  | ch (h : Hash)

def pBool : P Bool
  | [] => none
  | t :: r => if t == "1" then some (true, r) else if t == "0" then some (false, r) else none

def pXOp : P XOp
  | [] => none
  | t :: r =>
    if t == "LW" then do let (h, r) ← pHex r; let (f, r) ← pDec r; pure (.m (.loadWithFlags h f), r)
    else if t == "LS" then do let (h, r) ← pHex r; let (f, r) ← pDec r; pure (.m (.loadScriptWithFlags h f), r)
    else if t == "LD" then do let (h, r) ← pHex r; let (f, r) ← pDec r; pure (.m (.loadDynamicScript h f), r)
    else if t == "LH" then do
      let (h, r) ← pHex r; let (hash, r) ← pHex r; let (f, r) ← pDec r
      pure (.m (.loadScriptWithHash h hash f), r)
    else if t == "LN" then do
      let (h, r) ← pHex r; let (c, r) ← pHex r; let (hash, r) ← pHex r; let (f, r) ← pDec r; let (i, r) ← pBool r
      pure (.m (.loadNEFMethod h c hash f i), r)
    else if t == "CL" then some (.m .call, r)
    else if t == "RT" then some (.m .ret, r)
    else if t == "UW" then do let (n, r) ← pDec r; pure (.m (.unwind n), r)
    else if t == "CC" then do
      let (tg, r) ← pHex r; let (f, r) ← pDec r; let (s, r) ← pBool r; let (i, r) ← pBool r
      pure (.m (.contractCall tg f s i), r)
    else if t == "CT" then do
      let (tg, r) ← pHex r; let (f, r) ← pDec r; let (s, r) ← pBool r; let (i, r) ← pBool r
      pure (.m (.callT tg f s i), r)
    else if t == "RL" then do let (h, r) ← pHex r; let (f, r) ← pDec r; pure (.m (.runtimeLoadScript h f), r)
    else if t == "NC" then do
      let (c, r) ← pHex r; let (tg, r) ← pHex r; let (i, r) ← pBool r
      pure (.m (.nativeCall c tg i), r)
    else if t == "VS" then do let (h, r) ← pHex r; pure (.m (.verifyScript h), r)
    else if t == "VC" then do let (h, r) ← pHex r; let (i, r) ← pBool r; pure (.m (.verifyContract h i), r)
    else if t == "IS" then do let (h, r) ← pHex r; pure (.m (.invocationScript h), r)
    else if t == "TR" then do let (c, r) ← pBool r; let (f, r) ← pBool r; pure (.tm (.try_ c f), r)
    else if t == "ET" then some (.tm .endTry, r)
    else if t == "EF" then some (.tm .endFinally, r)
    else if t == "TH" then some (.tm .throw, r)
    else if t == "OB" then some (.ob, r)
    else if t == "OI" then some (.oi, r)
    else if t == "FE" then do let (n, r) ← pDec r; pure (.fe n, r)
    else if t == "CW" then match r with
      | [] => none
      | x :: r' => (Hex.decode x).map fun bs => (.cw bs, r')
    else if t == "CQ" then match r with
      | [] => none
      | x :: r' => (Hex.decode x).map fun bs => (.cq bs, r')
    else if t == "CH" then do let (h, r) ← pHex r; pure (.ch h, r)
    else none

/-- fuel-bounded repetition until the tokens are exhausted. -/
def pXOps : Nat → List String → Option (List XOp)
  | _, [] => some []
  | 0, _ => none
  | f+1, ts => do
    let (x, r) ← pXOp ts
    let xs ← pXOps f r
    pure (x :: xs)

def pOptSigners (tag : String) : P (Option (List Signer))
  | [] => none
  | t :: r =>
    if t == "-" then some (none, r)
    else if t == tag then (pCounted pSigner r).map fun (ss, r') => (some ss, r')
    else none

/-- hex of a number without leading zeros (`0` for zero), as the harness prints hashes. -/
def hexN (n : Nat) : String :=
  if n == 0 then "0" else String.ofList (Nat.toDigits 16 n)

def showFault : MFault → String
  | .stackTooBig => "fault:stack"
  | .noContext => "fault:nocontext"
  | .missingCallFlags => "fault:missingflags"
  | .flagsOutOfRange => "fault:flagsrange"
  | .invalidCallFlags => "fault:invalidflags"

def showTFault : TFault → String
  | .machine f => showFault f
  | .tryDepth => "fault:trydepth"
  | .badTry => "fault:badtry"
  | .badState => "fault:badstate"
  | .unhandled => "fault:unhandled"

def showObs (v : VM) : String :=
  let top := v.istack.head?
  let optN (o : Option Nat) : String := match o with | some n => toString n | none => "-"
  let optH (o : Option Nat) : String := match o with | some n => hexN n | none => "-"
  s!"o:{v.istack.length},{hexN v.currentHash},{optH v.callingHash},{hexN v.entryHash},{optN v.flags}," ++
    (match top with | some s => (if s.isCalledByEntry then "1" else "0") | none => "-")

/-- what the syscalls GetExecutingScriptHash / GetCallingScriptHash / GetEntryScriptHash / GetCallFlags return. -/
def showInfo (v : VM) : String :=
  let optN (o : Option Nat) : String := match o with | some n => toString n | none => "-"
  let optH (o : Option Nat) : String := match o with | some n => hexN n | none => "-"
  s!"i:{hexN v.currentHash},{optH v.callingHash},{hexN v.entryHash},{optN v.flags}"

/-- the driver's stand-in for `keys.NewPublicKeyFromBytes` + `Bytes()`: 33 bytes 02/03 (as is) or 65 bytes 04
(compressed by the parity of Y); the harness only feeds points that are on the curve, or malformed lengths /
prefixes. -/
def decKeyAny (bs : Bytes) : Option Bytes :=
  match bs with
  | [] => none
  | p :: rest =>
    if (p = 0x02 ∨ p = 0x03) ∧ bs.length = 33 then some bs
    else if p = 0x04 ∧ bs.length = 65 then
      some ((if (rest.getLast?.getD 0) % 2 = 1 then 0x03 else 0x02) :: rest.take 32)
    else none

def h160Nat (bs : Bytes) : Nat := beVal (Ripemd160.hash160 bs)

def showOptRes : Option Res → String
  | some r => showRes r
  | none => "fault:badarg"


/-! ### stack items and JSON values -/

def pInt : P Int
  | [] => none
  | t :: r => t.toInt?.map (·, r)

def pBytesTok : P Bytes
  | [] => none
  | t :: r => (Hex.decode t).map (·, r)

def pItemF : Nat → P Item
  | 0, _ => none
  | f+1, ts => match ts with
    | [] => none
    | t :: r =>
      if t == "N" then some (.null, r)
      else if t == "T" then some (.bool true, r)
      else if t == "F" then some (.bool false, r)
      else if t == "M" then some (.map, r)
      else if t == "X" then some (.other, r)
      else if t == "I" then (pInt r).map fun (n, r') => (.int n, r')
      else if t == "S" then (pBytesTok r).map fun (b, r') => (.bytes b, r')
      else if t == "U" then (pBytesTok r).map fun (b, r') => (.buffer b, r')
      else if t == "A" then (pCounted (pItemF f) r).map fun (xs, r') => (.array xs, r')
      else if t == "R" then (pCounted (pItemF f) r).map fun (xs, r') => (.struct xs, r')
      else none

def pItem : P Item := fun ts => pItemF (ts.length + 1) ts

def bytesToChars (bs : Bytes) : List Char := bs.map fun b => Char.ofNat b.toNat

def pCharsTok : P (List Char)
  | [] => none
  | t :: r => (Hex.decode t).map fun bs => (bytesToChars bs, r)

def pJsonF : Nat → P J
  | 0, _ => none
  | f+1, ts => match ts with
    | [] => none
    | t :: r =>
      if t == "n" then some (.null, r)
      else if t == "t" then some (.bool true, r)
      else if t == "f" then some (.bool false, r)
      else if t == "i" then (pInt r).map fun (n, r') => (.num n, r')
      else if t == "s" then (pCharsTok r).map fun (s, r') => (.str s, r')
      else if t == "a" then (pCounted (pJsonF f) r).map fun (xs, r') => (.arr xs, r')
      else if t == "o" then
        (pCounted (fun ts' => do
          let (k, r1) ← pCharsTok ts'
          let (v, r2) ← pJsonF f r1
          pure ((k, v), r2)) r).map fun (fs, r') => (.obj fs, r')
      else none

def pJson : P J := fun ts => pJsonF (ts.length + 1) ts

/-- the driver's stand-in for `keys.NewPublicKeyFromBytes` on a whole byte string, as the number of the
compressed form. -/
def decKeyNum (bs : Bytes) : Option Key := (decKeyAny bs).map beVal

def showRuleRes : Option Rule → String
  | some r => s!"ok {r.action} " ++ showCond r.cond
  | none => "err"

def runX (k : Hash → Option (List Key)) (ic : IC) : VMT → List XOp → List String → List String
  | _, [], acc => acc.reverse
  | t, x :: xs, acc =>
    let v := t.base
    match x with
    | .m op => match t.step (.base op) with
      | .ok t' => runX k ic t' xs acc
      | .error f => (showTFault f :: acc).reverse
    | .tm op => match t.step op with
      | .ok t' => runX k ic t' xs acc
      | .error f => (showTFault f :: acc).reverse
    | .ob => runX k ic t xs (showObs v :: acc)
    | .oi => runX k ic t xs (showInfo v :: acc)
    | .fe n => runX k ic t xs ((if v.flags == some n then "true" else "false") :: acc)
    | .ch h => match checkWitnessVM k ic v h with
      | none => ("fault:nocontext" :: acc).reverse
      | some r => match r with
        | .ok _ => runX k ic t xs (showRes r :: acc)
        | .err _ => (showRes r :: acc).reverse
    | .cq arg => match checkWitnessArgVM h160Nat decKeyAny k ic v arg with
      | none => ("fault:nocontext" :: acc).reverse
      | some r => match r with
        | some (.ok _) => runX k ic t xs acc
        | _ => (showOptRes r :: acc).reverse
    | .cw arg => match checkWitnessArgVM h160Nat decKeyAny k ic v arg with
      | none => ("fault:nocontext" :: acc).reverse
      | some r => match r with
        | some (.ok _) => runX k ic t xs (showOptRes r :: acc)
        | _ => (showOptRes r :: acc).reverse

def stepX (rest : List String) : Option String := do
  let (cs, r) ← pCounted pContract rest
  let (us, r) ← pOptSigners "U" r
  let (tx, r) ← pOptSigners "T" r
  let xs ← pXOps (r.length + 1) r
  pure (String.intercalate " " (runX (lookupContract cs) ⟨us, tx⟩ VMT.empty xs []))

def step (tbl : Array Env) (ws : List String) : Array Env × String :=
  match ws with
  | ["case", k] => (#[], s!"case {k}")
  | "ctx" :: rest =>
    match pEnv rest with
    | some (e, []) => (tbl.push e, "ok")
    | _ => (tbl, "bad-op")
  | "mt" :: rest =>
    match pCond rest with
    | some (c, []) => (tbl, String.ofList (tbl.toList.map fun e => resChar (matchC e c)))
    | _ => (tbl, "bad-op")
  | "cw" :: rest =>
    match (do
      let (h, r) ← pHex rest
      let (e, r) ← pEnv r
      let (ss, r) ← pCounted pSigner r
      if r.isEmpty then pure (showRes (checkWitness e ss h)) else none) with
    | some s => (tbl, s)
    | none => (tbl, "bad-op")
  | "adm" :: d :: rest =>
    match d.toNat?, pCond rest with
    | some d, some (c, []) => (tbl, if admits c d then "ok" else "err")
    | _, _ => (tbl, "bad-op")
  | ["vs", n] =>
    match n.toNat? with
    | some v => (tbl, if validScopes v then "ok" else "err")
    | none => (tbl, "bad-op")
  | "enc" :: rest =>
    match pCond rest with
    | some (c, []) => (tbl, Hex.encode (encodeCond (beBytes 33) c))
    | _ => (tbl, "bad-op")
  | ["decs", h] =>
    match Hex.decode h with
    | some bs =>
      match decodeSigner decKeyCompressed bs with
      | some (sg, r) => (tbl, s!"ok {showSigner sg} {Hex.encode r}")
      | none => (tbl, "err")
    | none => (tbl, "bad-op")
  | ["dec", d, h] =>
    match d.toNat?, Hex.decode h with
    | some d, some bs =>
      match decodeCond decKeyCompressed d bs with
      | some (c, r) => (tbl, s!"ok {showCond c} {Hex.encode r}")
      | none => (tbl, "err")
    | _, _ => (tbl, "bad-op")
  | "rsi" :: rest =>
    match pItem rest with
    | some (it, []) => (tbl, showRuleRes (ruleFromItem decKeyNum it))
    | _ => (tbl, "bad-op")
  | "ssi" :: rest =>
    match pItem rest with
    | some (it, []) => (tbl, match signerFromItem decKeyNum it with
        | some sg => "ok " ++ showSigner sg
        | none => "err")
    | _ => (tbl, "bad-op")
  | ["sfs", h] =>
    match Hex.decode h with
    | some bs => (tbl, match scopesFromString (bytesToChars bs) with
        | some b => s!"ok {b}"
        | none => "err")
    | none => (tbl, "bad-op")
  | "rjs" :: rest =>
    match pJson rest with
    | some (v, []) => (tbl, showRuleRes (ruleFromJ decKeyNum v))
    | _ => (tbl, "bad-op")
  | "cjs" :: rest =>
    match pJson rest with
    | some (v, []) => (tbl, match condFromJ decKeyNum maxConditionNesting v with
        | some c => "ok " ++ showCond c
        | none => "err")
    | _ => (tbl, "bad-op")
  | "x" :: rest =>
    match stepX rest with
    | some out => (tbl, if out.isEmpty then "-" else out)
    | none => (tbl, "bad-op")
  | _ => (tbl, "bad-op")

def main : IO Unit := Proto.run (#[] : Array Env) step
