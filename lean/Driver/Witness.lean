/-
Driver for stream `witness` (C15). One op per line, one observation per line.

  case <k>                         -> case <k>            (forgets the context table)
  ctx <env>                        -> ok                  (appends a context to the table)
  mt <cond>                        -> one char per context of the table: 1 | 0 | e   (`matchC`)
  cw <hash> <env> <signers>        -> true | false | err:nosigners | err:noreadstates   (`checkWitness`)
  dec <depth> <hex>                -> ok <cond> <rest-hex> | err      (`decodeCond` with maxDepth = depth)
  vs <byte>                        -> ok | err                         (`validScopes`: ScopesFromByte)
  enc <cond>                       -> <hex>                            (`encodeCond`, keys as 33 bytes)
  decs <hex>                       -> ok <signer> <rest-hex> | err    (`decodeSigner`; signer printed with full-width hashes)
  adm <depth> <cond>               -> ok | err                         (`admits`: the JSON / stack-item decoders)

Token grammar (prefix form, blank separated; hashes and keys are hex numbers):
  cond    := B0 | B1 | N cond | A n cond^n | O n cond^n | H hash | G key | E | C hash | K key
  env     := nframes (hash caller rs)^nframes   ncontracts (hash ngroups key^ngroups)^ncontracts
             frames innermost (executing) first, entry script last; rs = 0|1
  signers := n (account scopes nc hash^nc ng key^ng nr (action cond)^nr)^n      scopes, action decimal
-/
import NeoModel.Base.Proto
import NeoModel.Model.Witness
open NeoModel NeoModel.Witness

abbrev P (α : Type) := List String → Option (α × List String)

def hexNat (s : String) : Option Nat :=
  s.toList.foldlM (fun a c => (Hex.val c).map (fun v => a * 16 + v)) 0

def pHex : P Nat
  | [] => none
  | t :: r => (hexNat t).map (·, r)

def pDec : P Nat
  | [] => none
  | t :: r => t.toNat?.map (·, r)

/-- `n` repetitions of `p`. -/
def pMany {α : Type} (p : P α) : Nat → P (List α)
  | 0, ts => some ([], ts)
  | n+1, ts => do
    let (x, r) ← p ts
    let (xs, r') ← pMany p n r
    pure (x :: xs, r')

/-- a decimal count followed by that many `p`. -/
def pCounted {α : Type} (p : P α) : P (List α) := fun ts => do
  let (n, r) ← pDec ts
  pMany p n r

/-- fuel = number of tokens left (every node consumes one). -/
def pCondF : Nat → P Cond
  | 0, _ => none
  | f+1, ts => match ts with
    | [] => none
    | t :: r =>
      if t == "B0" then some (.boolean false, r)
      else if t == "B1" then some (.boolean true, r)
      else if t == "E" then some (.calledByEntry, r)
      else if t == "N" then (pCondF f r).map fun (c, r') => (.not c, r')
      else if t == "A" then (pCounted (pCondF f) r).map fun (cs, r') => (.and cs, r')
      else if t == "O" then (pCounted (pCondF f) r).map fun (cs, r') => (.or cs, r')
      else if t == "H" then (pHex r).map fun (h, r') => (.scriptHash h, r')
      else if t == "G" then (pHex r).map fun (h, r') => (.group h, r')
      else if t == "C" then (pHex r).map fun (h, r') => (.calledByContract h, r')
      else if t == "K" then (pHex r).map fun (h, r') => (.calledByGroup h, r')
      else none

def pCond : P Cond := fun ts => pCondF (ts.length + 1) ts

def pFrame : P Frame := fun ts => do
  let (h, r) ← pHex ts
  let (c, r) ← pHex r
  let (f, r) ← pDec r
  pure ({ hash := h, caller := c, readStates := f != 0 }, r)

def pContract : P (Hash × List Key) := fun ts => do
  let (h, r) ← pHex ts
  let (ks, r) ← pCounted pHex r
  pure ((h, ks), r)

def lookupContract (tbl : List (Hash × List Key)) (h : Hash) : Option (List Key) :=
  (tbl.find? (fun p => p.1 == h)).map (·.2)

def pEnv : P Env := fun ts => do
  let (fs, r) ← pCounted pFrame ts
  let (cs, r) ← pCounted pContract r
  -- frames come innermost first; the model builds the environment from the entry script by successive loads
  match fs.reverse with
  | [] => none
  | f0 :: calls => pure (Env.ofCalls (lookupContract cs) f0 calls, r)

def pRule : P Rule := fun ts => do
  let (a, r) ← pDec ts
  let (c, r) ← pCond r
  pure ({ action := a, cond := c }, r)

def pSigner : P Signer := fun ts => do
  let (acc, r) ← pHex ts
  let (sc, r) ← pDec r
  let (cs, r) ← pCounted pHex r
  let (gs, r) ← pCounted pHex r
  let (rs, r) ← pCounted pRule r
  pure ({ account := acc, scopes := sc, allowedContracts := cs, allowedGroups := gs, rules := rs }, r)

def showRes : Res → String
  | .ok true => "true"
  | .ok false => "false"
  | .err .noSigners => "err:nosigners"
  | .err .noReadStates => "err:noreadstates"

def resChar : Res → Char
  | .ok true => '1'
  | .ok false => '0'
  | .err _ => 'e'

/-- fixed-width lower-case hex of a number (`w` digits). -/
def hexW (w n : Nat) : String :=
  String.ofList ((List.range w).reverse.map fun i => Hex.digit ((n / 16 ^ i) % 16))

mutual
def showCond : Cond → String
  | .boolean b => if b then "B1" else "B0"
  | .not c => "N " ++ showCond c
  | .and cs => s!"A {cs.length}" ++ showConds cs
  | .or cs => s!"O {cs.length}" ++ showConds cs
  | .scriptHash h => "H " ++ hexW 40 h
  | .group k => "G " ++ hexW 66 k
  | .calledByEntry => "E"
  | .calledByContract h => "C " ++ hexW 40 h
  | .calledByGroup k => "K " ++ hexW 66 k
def showConds : List Cond → String
  | [] => ""
  | c :: cs => " " ++ showCond c ++ showConds cs
end

/-- the driver's stand-in for `keys.PublicKey.DecodeBinary`: a compressed point, 0x02/0x03 and 32 bytes
(the harness only feeds keys that are on the curve). -/
def decKeyCompressed (bs : Bytes) : Option (Key × Bytes) :=
  match bs with
  | [] => none
  | p :: _ =>
    if p = 0x02 ∨ p = 0x03 then (Wire.takeN 33 bs).map fun (x, r) => (beVal x, r)
    else none

def showRules : List Rule → String
  | [] => ""
  | r :: rs => s!" {r.action} " ++ showCond r.cond ++ showRules rs

def showSigner (s : Signer) : String :=
  hexW 40 s.account ++ s!" {s.scopes} {s.allowedContracts.length}"
    ++ String.join (s.allowedContracts.map fun h => " " ++ hexW 40 h)
    ++ s!" {s.allowedGroups.length}" ++ String.join (s.allowedGroups.map fun k => " " ++ hexW 66 k)
    ++ s!" {s.rules.length}" ++ showRules s.rules

def step (tbl : Array Env) (ws : List String) : Array Env × String :=
  match ws with
  | ["case", k] => (#[], s!"case {k}")
  | "ctx" :: rest =>
    match pEnv rest with
    | some (e, []) => (tbl.push e, "ok")
    | _ => (tbl, "bad-op")
  | "mt" :: rest =>
    match pCond rest with
    | some (c, []) => (tbl, String.ofList (tbl.toList.map fun e => resChar (matchC e c)))
    | _ => (tbl, "bad-op")
  | "cw" :: rest =>
    match (do
      let (h, r) ← pHex rest
      let (e, r) ← pEnv r
      let (ss, r) ← pCounted pSigner r
      if r.isEmpty then pure (showRes (checkWitness e ss h)) else none) with
    | some s => (tbl, s)
    | none => (tbl, "bad-op")
  | "adm" :: d :: rest =>
    match d.toNat?, pCond rest with
    | some d, some (c, []) => (tbl, if admits c d then "ok" else "err")
    | _, _ => (tbl, "bad-op")
  | ["vs", n] =>
    match n.toNat? with
    | some v => (tbl, if validScopes v then "ok" else "err")
    | none => (tbl, "bad-op")
  | "enc" :: rest =>
    match pCond rest with
    | some (c, []) => (tbl, Hex.encode (encodeCond (beBytes 33) c))
    | _ => (tbl, "bad-op")
  | ["decs", h] =>
    match Hex.decode h with
    | some bs =>
      match decodeSigner decKeyCompressed bs with
      | some (sg, r) => (tbl, s!"ok {showSigner sg} {Hex.encode r}")
      | none => (tbl, "err")
    | none => (tbl, "bad-op")
  | ["dec", d, h] =>
    match d.toNat?, Hex.decode h with
    | some d, some bs =>
      match decodeCond decKeyCompressed d bs with
      | some (c, r) => (tbl, s!"ok {showCond c} {Hex.encode r}")
      | none => (tbl, "err")
    | _, _ => (tbl, "bad-op")
  | _ => (tbl, "bad-op")

def main : IO Unit := Proto.run (#[] : Array Env) step
