/-
Driver for stream `sync` (C20 b): the stage machine of statesync.Module and the unknown-node pool of the
MPT-based mode, run over the node table of the source trie.
  cfg <P> <B0> <rootId> <n> <mtb> <top> <interval> -> ok   (B0 = windowBase P mtb, P = syncPointOf top interval)
  node <id> <L|N> <child>:<nibbles-hex> …  -> ok            (children in traversal order)
  init | remod | restart             -> ok|panic stage=… pool=…
  headers <a> <b> [t<k>]             -> ok|err stage=… pool=…   (t<k>: the header of index k is tampered)
  fakeblock <i>                      -> ok|err[ bh=<n>] stage=… pool=…   (block i under a header that is not the chain's)
  deliver <id|f|x|hn<id>|e|i<id>.<rel>> …  -> ok|err|panic stage=… pool=…
  deliver+ …                         -> ok|err|panic rc=<counters> ts=<n>/<sum> stage=… pool=…
  bnew | bput <nibbles|-> <id|f|hn<id>|e> | btrav <0|1> | bdump    (direct tie of the billet model to mpt.Billet)
  block <i>                          -> ok|err[ bh=<n>] stage=… pool=…
  badblock <i> <n> <id|f<k>> …      -> ok|err[ bh=<n>] stage=… pool=…   (genuine header of a block with n txs, another tx list)
  final                              -> synced
pool = <count>/<checksum of the sorted ids> while the module asks for MPT data, `-` otherwise.
-/
import NeoModel.Base.Proto
import NeoModel.Base.Hex
import NeoModel.Model.StateSync
import NeoModel.Model.Billet
import NeoModel.Model.SyncStage
open NeoModel NeoModel.StateSync

inductive DStage | none | headers | mpt | blocks | inactive | broken
deriving DecidableEq

structure DS where
  table : Array (Option SNode) := #[]
  p : Nat := 0
  b0 : Nat := 0
  root : Nat := 0
  stage : DStage := .none
  -- MPT-based mode: the stage machine of Model/SyncStage.lean
  ss : SS := SS.init { p := 0, b0 := 0, root := 0, db := fun _ => none, fuel := 0, ntx := fun _ => 0 }
  hh : Nat := 0
  bh : Nat := 0
  storedBh : Nat := 0
  bs : BS := BS.init 0
  -- the billet of the direct tie (its own store)
  bil : BS := BS.init 0
  -- the hypotheses of the theorems (Shaped, WF, Ranked) checked on this case's node table: none = not yet
  tableOk : Option Bool := none
  -- storage-items mode (ContractStorageBased): ids of the items whose current stored value is right / wrong
  smode : Bool := false
  nkv : Nat := 0
  good : List Nat := []
  bad : List Nat := []
  lsk : Option Nat := none

def DS.ms (d : DS) : MS := d.bs.ms
def DS.db (d : DS) : Hash → Option SNode := fun h => (d.table.getD h none)
def DS.fuel (d : DS) : Nat := d.table.size + 2

def DS.cfg (d : DS) (n : Nat) : SCfg :=
  { p := d.p, b0 := d.b0, root := d.root, db := fun h => (d.table.getD h none), fuel := d.table.size + 2, ntx := fun _ => n }

def showStage : DStage → String
  | .headers => "headers"
  | .mpt => "mpt"
  | .blocks => "blocks"
  | .inactive => "inactive"
  | _ => "other"

def insertSorted (x : Nat) : List Nat → List Nat
  | [] => [x]
  | y :: r => if x ≤ y then x :: y :: r else y :: insertSorted x r

def showPool (d : DS) : String :=
  if d.stage != .mpt || d.smode then "-"
  else
    let ids := (poolHashes d.ms.pool).foldl (fun acc x => insertSorted x acc) []
    let sum := ids.foldl (fun s i => (s * 31 + i + 1) % 1000000007) 0
    s!"{ids.length}/{sum}"

def showSStage : Stage → String
  | .headers => "headers"
  | .mpt => "mpt"
  | .blocks => "blocks"
  | .inactive => "inactive"

def showPoolOf (p : Pool) : String :=
  let ids := (poolHashes p).foldl (fun acc x => insertSorted x acc) []
  let sum := ids.foldl (fun s i => (s * 31 + i + 1) % 1000000007) 0
  s!"{ids.length}/{sum}"

/-- observation for the MPT-based mode -/
def obsS (res : String) (s : SS) : String :=
  let pool := if s.stage == .mpt then showPoolOf s.bs.ms.pool else "-"
  s!"{res} stage={showSStage s.stage} pool={pool}"

def showSRes : SRes → String
  | .ok => "ok"
  | .err => "err"
  | .panic => "panic"

def obs (res : String) (d : DS) : String :=
  let base := s!"stage={showStage d.stage} pool={showPool d}"
  if res.isEmpty then base else res ++ " " ++ base

/-- defineSyncStage (module.go:309-411) for the MPT-based mode. `none` = panic. -/
def samePool (a b : Pool) : Bool := a.all (fun x => b.contains x) && b.all (fun x => a.contains x)

def kvComplete (d : DS) : Bool :=
  d.bad.isEmpty && (List.range d.nkv).all (fun i => d.good.contains i)

def afterState (d : DS) : DS :=
  let bh := max d.b0 d.storedBh
  if bh ≥ d.p then { d with stage := .inactive, bh := bh } else { d with stage := .blocks, bh := bh }

def defineStageD (d : DS) : Option DS :=
  if d.smode then
    if d.hh > d.p then
      -- checkpoint: IntermediateRoot == Root iff the stored items are exactly the state
      if d.lsk.isSome && kvComplete d then some (afterState d) else some { d with stage := .mpt }
    else some { d with stage := .headers }
  else if d.hh > d.p then
    match rebuildB d.db d.fuel d.root d.bs with
    | some (bs, .ok ()) =>
      -- the billet-level traversal must leave the pool of the pool-level model (Proofs/BilletRebuild)
      if !samePool bs.ms.pool (rebuild d.db d.fuel d.root d.bs.ms).pool then none
      else if bs.ms.pool.isEmpty then
        let bh := max d.b0 d.storedBh
        if bh ≥ d.p then some { d with bs := bs, stage := .inactive, bh := bh }
        else some { d with bs := bs, stage := .blocks, bh := bh }
      else some { d with bs := bs, stage := .mpt }
    | _ => none
  else some { d with stage := .headers }

/-- What the module object looks like after the panic inside defineSyncStage: headers are in sync, the
module's own pool is still empty. -/
def broken (d : DS) : DS := { d with stage := .mpt, bs := { d.bs with ms := { d.bs.ms with pool := [] } } }

def parseKid (w : String) : Option (Path × Hash) :=
  match w.splitOn ":" with
  | [c, p] =>
    match c.toNat?, Hex.decode p with
    | some c, some bs => some (bs.map (·.toNat), c)
    | _, _ => none
  | _ => none

def foreignLeaf : SNode := { val := some 0, kids := [] }

def parseRel (w : String) : Option Path := (Hex.decode w).map (fun bs => bs.map (·.toNat))

def parseItem (d : DS) (w : String) : BItem :=
  if w == "x" then .garbage
  else if w == "e" then .empty
  else if w == "f" then .node 1000000000 foreignLeaf
  else if w.startsWith "hn" then
    match (w.drop 2).toNat? with
    | some i => .hashNode i
    | none => .garbage
  else if w.startsWith "i" then .nonCanonical   -- a node with one child serialised in place (refused, 09bd334)
  else
    match w.toNat? with
    | some i =>
      match d.db i with
      | some n => .node i n
      | none => .garbage
    | none => .garbage

/-- the pool-level reading of an item (Model/StateSync.lean) -/
def toItem : BItem → Item
  | .node h n => .node h n
  | _ => .garbage

def showRes : BRes Unit → String
  | .ok _ => "ok"
  | .err _ => "err"
  | .panic => "panic"

def showCls : BRes Unit → String
  | .ok _ => "ok"
  | .err .intoHashNode => "err:intoHashNode"
  | .err .intoEmptyNode => "err:intoEmptyNode"
  | .err .modifyEmpty => "err:modifyEmpty"
  | .err .badHash => "err:badHash"
  | .err .modifyExt => "err:modifyExt"
  | .err .collapsed => "err:collapsed"
  | .err .notFound => "err:notFound"
  | .panic => "panic"

def rcSum (d : DS) (refs : Hash → Nat) : Nat :=
  (List.range d.table.size).foldl (fun s i => (s * 31 + (i + 1) * refs i) % 1000000007) 0

/-- fromNibbles (helpers.go:63-69): pairs of nibbles, an odd last one is dropped -/
def fromNibbles : Path → List Nat
  | a :: b :: r => (a * 16 + b) :: fromNibbles r
  | _ => []

def keySum (p : Path) : Nat := (fromNibbles p).foldl (fun x b => (x * 131 + b + 1) % 1000000007) 0

/-- the temporary storage is a map: the last value stored under a key stays -/
def tsSum (temp : List (Path × Nat)) : String :=
  let rec dedup : List (Path × Nat) → List (Path × Nat)
    | [] => []
    | e :: r => if r.any (fun x => fromNibbles x.1 == fromNibbles e.1) then dedup r else e :: dedup r
  let items := dedup temp
  -- the value of a leaf is its id; a foreign leaf is not a node of the trie (id -1 on the Go side)
  let sum := items.foldl (fun s e => (s + keySum e.1 * 31 + e.2 + 1) % 1000000007) 0
  s!"{items.length}/{sum}"

def parseNibbles (w : String) : Option Path :=
  if w == "-" then some []
  else w.toList.mapM (fun c =>
    if c.isDigit then some (c.toNat - '0'.toNat)
    else if 'a' ≤ c ∧ c ≤ 'f' then some (c.toNat - 'a'.toNat + 10)
    else none)

def travProc (st : Nat × Nat) (path : Path) (h : Hash) (_ : SNode) : Nat × Nat :=
  let s1 := (st.2 * 31 + h + 1) % 1000000007
  (st.1 + 1, (fromNibbles path).foldl (fun s x => (s * 31 + x + 1) % 1000000007) s1)

/-- The hypothesis `Shaped` of the billet theorems (Proofs/BilletBasic.lean), checked on the node table of the
case's source trie: leaves have no children, other nodes have some, the children of a branch sit under pairwise
different relative paths of length ≤ 1 and its value child is a leaf. -/
def shapedB (d : DS) : Bool :=
  (List.range d.table.size).all fun h =>
    match d.db h with
    | none => true
    | some n =>
      (if n.val.isSome then n.kids.isEmpty else !n.kids.isEmpty) &&
      (kindOf n != .branch ||
        ((n.kids.map (·.1)).eraseDups.length == n.kids.length &&
         n.kids.all (fun k => k.1.length ≤ 1 &&
           (!k.1.isEmpty || match d.db k.2 with | some m => m.kids.isEmpty | none => true))))

/-- The positions `(hash, path)` reachable from `h` at `p`, in traversal order. -/
def positionsOf (d : DS) : Nat → Hash → Path → List (Hash × Path)
  | 0, _, _ => []
  | f + 1, h, p =>
    match d.db h with
    | none => [(h, p)]
    | some n => (h, p) :: n.kids.flatMap (fun k => positionsOf d f k.2 (p ++ k.1))

/-- height of the sub-DAG below `h` (the rank function of the hypothesis `Ranked`) -/
def hgt (d : DS) : Nat → Hash → Nat
  | 0, _ => 0
  | f + 1, h =>
    match d.db h with
    | none => 0
    | some n => 1 + (n.kids.map (fun k => hgt d f k.2)).foldl max 0

/-- The hypotheses `WF` (closed under children; a position is reached in one way only, the root is nobody's
child: no `(hash, path)` occurs twice in the enumeration of the positions) and `Ranked` (acyclic: the height
strictly decreases along every edge) of the state-sync theorems, checked on the node table of the case. -/
def wfB (d : DS) : Bool :=
  let fuel := d.table.size + 1
  let closedRanked := (List.range d.table.size).all fun h =>
    match d.db h with
    | none => true
    | some n => n.kids.all (fun k => (d.db k.2).isSome && hgt d fuel k.2 < hgt d fuel h)
  let ps := positionsOf d fuel d.root []
  closedRanked && (d.db d.root).isSome && ps.eraseDups.length == ps.length

def DS.checkTable (d : DS) : DS :=
  match d.tableOk with
  | some _ => d
  | none => { d with tableOk := some (shapedB d && wfB d) }

/-- MPT-based mode: every module call is one step of the stage machine of Model/SyncStage.lean. -/
def stepS (d : DS) (ws : List String) : Option (DS × String) :=
  let withBh (r : SRes) (s : SS) : String :=
    if s.stage == .blocks then s!"{showSRes r} bh={s.bh}" else showSRes r
  let blockMsg (i : Nat) (n : Nat) (genuine : Bool) (body : List Nat) : DS × String :=
    let (s', r) := d.ss.step (d.cfg n) (.block i genuine body)
    ({ d with ss := s' }, obsS (withBh r s') s')
  match ws with
  | ["init"] | ["remod"] | ["restart"] =>
    let d := d.checkTable
    if d.tableOk != some true then some (d, "bad-shape") else
    let (s', r) := d.ss.step (d.cfg 0) .init
    -- the billet-level traversal must leave the pool of the pool-level model (Proofs/BilletRebuild)
    if s'.stage == .mpt && !samePool s'.bs.ms.pool (rebuild d.db d.fuel d.root d.ss.bs.ms).pool then
      some ({ d with ss := s' }, "refinement-broken")
    else some ({ d with ss := s' }, obsS (showSRes r) s')
  | "headers" :: a :: b :: rest =>
    match a.toNat?, b.toNat? with
    | some a, some b =>
      let bad : Option Nat := match rest with
        | [t] => (t.drop 1).toNat?
        | _ => none
      let hs : List Hdr := (List.range (b + 1 - a)).map (fun j => { idx := a + j, genuine := some (a + j) != bad })
      let (s', r) := d.ss.step (d.cfg 0) (.headers hs)
      some ({ d with ss := s' }, obsS (showSRes r) s')
    | _, _ => some (d, "bad-op")
  | "deliver" :: items | "deliver+" :: items =>
    let observe := ws.head? == some "deliver+"
    let its := items.map (parseItem d)
    let (s', r) := d.ss.step (d.cfg 0) (.nodes its)
    -- refinement (Proofs/BilletRefine): without an error the billet-level module does what the pool-level one does
    let (ms, _) := deliver d.db d.fuel d.ss.bs.ms (its.map toItem)
    let plain := its.all (fun it => match it with | .node _ _ => true | .garbage => true | _ => false)
    let agree := d.ss.stage != .mpt || r != .ok || !plain ||
      (samePool s'.bs.ms.pool ms.pool && s'.bs.ms.done == ms.done && rcSum d s'.bs.ms.refs == rcSum d ms.refs)
    let extra := if observe && d.ss.stage == .mpt then s!" rc={rcSum d s'.bs.ms.refs} ts={tsSum s'.bs.ms.temp}" else ""
    if !agree then some ({ d with ss := s' }, "refinement-broken")
    else some ({ d with ss := s' }, obsS (showSRes r ++ extra) s')
  | ["block", i] =>
    match i.toNat? with
    | some i => some (blockMsg i 0 true [])
    | none => some (d, "bad-op")
  | ["fakeblock", i] =>
    match i.toNat? with
    | some i => some (blockMsg i 0 false [])
    | none => some (d, "bad-op")
  | "badblock" :: i :: n :: body =>
    match i.toNat?, n.toNat? with
    | some i, some n =>
      let ids := body.map (fun w => match w.toNat? with
        | some k => k
        | none => 1000 + ((w.drop 1).toNat?.getD 0))
      some (blockMsg i n true ids)
    | _, _ => some (d, "bad-op")
  | _ => none

def step (d : DS) (ws : List String) : DS × String :=
  match (if d.smode then none else stepS d ws) with
  | some r => r
  | none =>
  match ws with
  | ["case", k] => ({}, s!"case {k}")
  | ["cfg", p, b0, root, n, mtb, top, interval] =>
    match p.toNat?, b0.toNat?, root.toNat?, n.toNat?, mtb.toNat?, top.toNat?, interval.toNat? with
    | some p, some b0, some root, some n, some mtb, some top, some interval =>
      -- the height below the window is the model's windowBase (tied to getLatestSavedBlock by translation), the
      -- sync point the model's syncPointOf (tied to Init by translation)
      if b0 != windowBase p mtb || syncPointOf top interval != some p then (d, "bad-cfg") else
      let d1 := { d with p := p, b0 := b0, root := root, table := Array.replicate n none, bs := BS.init root, bil := BS.init root }
      ({ d1 with ss := SS.init (d1.cfg 0) }, "ok")
    | _, _, _, _, _, _, _ => (d, "bad-op")
  | "node" :: id :: kind :: kids =>
    match id.toNat? with
    | some id =>
      let ks := kids.filterMap parseKid
      if ks.length != kids.length then (d, "bad-op")
      else
        let n : SNode := { val := if kind == "L" then some id else none, kids := ks }
        -- the kind the model derives from the shape must be the kind of the real node
        let derived := if kind == "L" then "L" else if kindOf n == .ext then "E" else "B"
        if derived != kind || (kind == "L" && !ks.isEmpty) then (d, "bad-kind")
        else ({ d with table := d.table.setIfInBounds id (some n) }, "ok")
    | none => (d, "bad-op")
  | ["init"] =>
    match defineStageD d with
    | some d' => (d', obs "ok" d')
    | none => (broken d, obs "panic" (broken d))
  | ["remod"] | ["restart"] =>
    match defineStageD d with
    | some d' => (d', obs "ok" d')
    | none => (broken d, obs "panic" (broken d))
  | "headers" :: a :: b :: rest =>
    match a.toNat?, b.toNat? with
    | some a, some b =>
      let bad : Option Nat := match rest with
        | [t] => (t.drop 1).toNat?
        | _ => none
      let hs : List Hdr := (List.range (b + 1 - a)).map (fun j => { idx := a + j, genuine := some (a + j) != bad })
      if d.stage != .headers then (d, obs "err" d)
      else match addHeaders d.hh hs with
        | none => (d, obs "err" d)
        | some hh' =>
          if hh' == d.hh then (d, obs "ok" d)
          else
            let d1 := { d with hh := hh' }
            match defineStageD d1 with
            | some d' => (d', obs "ok" d')
            | none => (broken d1, obs "panic" (broken d1))
    | _, _ => (d, "bad-op")
  | ["fakeblock", i] =>
    match i.toNat? with
    | some _ =>
      if d.stage != .blocks then (d, obs "ok" d)
      else if d.bh == d.p then (d, obs "ok" d)
      else (d, obs s!"err bh={d.bh}" d)
    | none => (d, "bad-op")
  | ["bnew"] =>
    let d := d.checkTable
    if d.tableOk != some true then (d, "bad-shape")
    else ({ d with bil := { d.bil with billet := .hash d.root false } }, "ok")
  | ["bput", pw, tok] =>
    match parseNibbles pw with
    | some path =>
      let it := parseItem d tok
      let rcOf (s : BS) : Nat := match it with
        | .node h _ => if tok == "f" then 0 else s.ms.refs h
        | .hashNode h => s.ms.refs h
        | _ => 0
      match restoreHashNodeItem d.bil path it with
      | .ok s' => ({ d with bil := s' }, s!"ok rc={rcOf s'}")
      | .err e => (d, s!"{showCls (.err e)} rc={rcOf d.bil}")
      | .panic => (d, s!"panic rc={rcOf d.bil}")
    | none => (d, "bad-op")
  | ["btrav", ign] =>
    match traverseB d.db d.bil.ms.refs (ign == "1") travProc (d.fuel + 2) ((0, 0) : Nat × Nat) d.bil.billet [] with
    | some (st, b, .ok ()) => ({ d with bil := { d.bil with billet := b } }, s!"ok n={st.1} sum={st.2}")
    | some (_, b, res) => ({ d with bil := { d.bil with billet := b } }, showCls res)
    | none => (d, "out-of-fuel")
  | ["bdump"] => (d, s!"rc={rcSum d d.bil.ms.refs} ts={tsSum d.bil.ms.temp}")
  | ["block", i] =>
    match i.toNat? with
    | some i =>
      if d.stage != .blocks then (d, obs "ok" d)
      else if d.bh == d.p then (d, obs "ok" d)
      else if i != d.bh + 1 then (d, obs s!"err bh={d.bh}" d)
      else
        let d1 := { d with bh := i, storedBh := i }
        if i == d.p then ({ d1 with stage := .inactive }, obs "ok" { d1 with stage := .inactive })
        else (d1, obs s!"ok bh={i}" d1)
    | none => (d, "bad-op")
  | ["smode", n] =>
    match n.toNat? with
    | some n => ({ d with smode := true, nkv := n }, "ok")
    | none => (d, "bad-op")
  | ["sroot"] => (d, obs "ok" d)
  | "kvs" :: toks =>
    if d.stage != .mpt then (d, obs "err" d)
    else
      let upd (d : DS) (t : String) : DS :=
        let wrong := t.startsWith "w"
        match (if wrong then (t.drop 1).toNat? else t.toNat?) with
        | some i =>
          if wrong then { d with good := d.good.filter (· != i), bad := if d.bad.contains i then d.bad else i :: d.bad, lsk := some i }
          else { d with bad := d.bad.filter (· != i), good := if d.good.contains i then d.good else i :: d.good, lsk := some i }
        | none => d
      let d1 := toks.foldl upd d
      let l := match d1.lsk with | some i => s!"lsk={i}" | none => "lsk=-"
      if kvComplete d1 then
        let d2 := { d1 with stage := .blocks, bh := max d1.b0 d1.storedBh }
        (d2, obs s!"ok {l}" d2)
      else (d1, obs s!"ok {l}" d1)
  | "badblock" :: i :: n :: body =>
    -- the genuine header with another transaction list: ids are positions in the real list, f<k> = foreign
    match i.toNat?, n.toNat? with
    | some i, some n =>
      if d.stage != .blocks then (d, obs "ok" d)
      else if d.bh == d.p then (d, obs "ok" d)
      else if i != d.bh + 1 then (d, obs s!"err bh={d.bh}" d)
      else
        let ids := body.map (fun w => match w.toNat? with
          | some k => k
          | none => 1000 + ((w.drop 1).toNat?.getD 0))
        if acceptsBody (List.range n) ids then
          let d1 := { d with bh := i, storedBh := i }
          if i == d.p then ({ d1 with stage := .inactive }, obs "ok" { d1 with stage := .inactive })
          else (d1, obs s!"ok bh={i}" d1)
        else (d, obs s!"err bh={d.bh}" d)
    | _, _ => (d, "bad-op")
  | ["final"] => (d, "synced")
  | _ => (d, "bad-op")

def main : IO Unit := Proto.run ({} : DS) step
