/-
Driver for stream `sync` (C20 b): the stage machine of statesync.Module and the unknown-node pool of the
MPT-based mode, run over the node table of the source trie.
  cfg <P> <B0> <rootId> <n>          -> ok
  node <id> <L|N> <child>:<nibbles-hex> …  -> ok            (children in traversal order)
  init | remod | restart             -> ok|panic stage=… pool=…
  headers <a> <b>                    -> ok|err stage=… pool=…
  deliver <id|f|x> …                 -> ok|err stage=… pool=…
  block <i>                          -> ok|err[ bh=<n>] stage=… pool=…
  badblock <i> <n> <id|f<k>> …      -> ok|err[ bh=<n>] stage=… pool=…   (genuine header of a block with n txs, another tx list)
  final                              -> synced
pool = <count>/<checksum of the sorted ids> while the module asks for MPT data, `-` otherwise.
-/
import NeoModel.Base.Proto
import NeoModel.Base.Hex
import NeoModel.Model.StateSync
open NeoModel NeoModel.StateSync

inductive Stage | none | headers | mpt | blocks | inactive | broken
deriving DecidableEq

structure DS where
  table : Array (Option SNode) := #[]
  p : Nat := 0
  b0 : Nat := 0
  root : Nat := 0
  stage : Stage := .none
  hh : Nat := 0
  bh : Nat := 0
  storedBh : Nat := 0
  ms : MS := MS.init 0
  -- storage-items mode (ContractStorageBased): ids of the items whose current stored value is right / wrong
  smode : Bool := false
  nkv : Nat := 0
  good : List Nat := []
  bad : List Nat := []
  lsk : Option Nat := none

def DS.db (d : DS) : Hash → Option SNode := fun h => (d.table.getD h none)
def DS.fuel (d : DS) : Nat := d.table.size + 2

def showStage : Stage → String
  | .headers => "headers"
  | .mpt => "mpt"
  | .blocks => "blocks"
  | .inactive => "inactive"
  | _ => "other"

def insertSorted (x : Nat) : List Nat → List Nat
  | [] => [x]
  | y :: r => if x ≤ y then x :: y :: r else y :: insertSorted x r

def showPool (d : DS) : String :=
  if d.stage != .mpt || d.smode then "-"
  else
    let ids := (poolHashes d.ms.pool).foldl (fun acc x => insertSorted x acc) []
    let sum := ids.foldl (fun s i => (s * 31 + i + 1) % 1000000007) 0
    s!"{ids.length}/{sum}"

def obs (res : String) (d : DS) : String :=
  let base := s!"stage={showStage d.stage} pool={showPool d}"
  if res.isEmpty then base else res ++ " " ++ base

/-- defineSyncStage (module.go:309-411) for the MPT-based mode. `none` = panic. -/
def kvComplete (d : DS) : Bool :=
  d.bad.isEmpty && (List.range d.nkv).all (fun i => d.good.contains i)

def afterState (d : DS) : DS :=
  let bh := max d.b0 d.storedBh
  if bh ≥ d.p then { d with stage := .inactive, bh := bh } else { d with stage := .blocks, bh := bh }

def defineStage (d : DS) : Option DS :=
  if d.smode then
    if d.hh > d.p then
      -- checkpoint: IntermediateRoot == Root iff the stored items are exactly the state
      if d.lsk.isSome && kvComplete d then some (afterState d) else some { d with stage := .mpt }
    else some { d with stage := .headers }
  else if d.hh > d.p then
    match some (rebuild d.db d.fuel d.root d.ms) with
    | none => none
    | some ms =>
      if ms.pool.isEmpty then
        let bh := max d.b0 d.storedBh
        if bh ≥ d.p then some { d with ms := ms, stage := .inactive, bh := bh }
        else some { d with ms := ms, stage := .blocks, bh := bh }
      else some { d with ms := ms, stage := .mpt }
  else some { d with stage := .headers }

/-- What the module object looks like after the panic inside defineSyncStage: headers are in sync, the
module's own pool is still empty. -/
def broken (d : DS) : DS := { d with stage := .mpt, ms := { d.ms with pool := [] } }

def parseKid (w : String) : Option (Path × Hash) :=
  match w.splitOn ":" with
  | [c, p] =>
    match c.toNat?, Hex.decode p with
    | some c, some bs => some (bs.map (·.toNat), c)
    | _, _ => none
  | _ => none

def parseItems (d : DS) : List String → List Item
  | [] => []
  | "x" :: r => .garbage :: parseItems d r
  | "f" :: r => .node 1000000000 { val := some 0, kids := [] } :: parseItems d r
  | w :: r =>
    match w.toNat? with
    | some i =>
      match d.db i with
      | some n => .node i n :: parseItems d r
      | none => .garbage :: parseItems d r
    | none => .garbage :: parseItems d r

def step (d : DS) (ws : List String) : DS × String :=
  match ws with
  | ["case", k] => ({}, s!"case {k}")
  | ["cfg", p, b0, root, n] =>
    match p.toNat?, b0.toNat?, root.toNat?, n.toNat? with
    | some p, some b0, some root, some n =>
      ({ d with p := p, b0 := b0, root := root, table := Array.replicate n none, ms := MS.init root }, "ok")
    | _, _, _, _ => (d, "bad-op")
  | "node" :: id :: kind :: kids =>
    match id.toNat? with
    | some id =>
      let ks := kids.filterMap parseKid
      if ks.length != kids.length then (d, "bad-op")
      else
        let n : SNode := { val := if kind == "L" then some id else none, kids := ks }
        ({ d with table := d.table.setIfInBounds id (some n) }, "ok")
    | none => (d, "bad-op")
  | ["init"] =>
    match defineStage d with
    | some d' => (d', obs "ok" d')
    | none => (broken d, obs "panic" (broken d))
  | ["remod"] | ["restart"] =>
    match defineStage d with
    | some d' => (d', obs "ok" d')
    | none => (broken d, obs "panic" (broken d))
  | ["headers", a, b] =>
    match a.toNat?, b.toNat? with
    | some a, some b =>
      if d.stage != .headers then (d, obs "err" d)
      else
        let a' := max a (d.hh + 1)
        if a' > b then (d, obs "ok" d)
        else if a ≤ d.hh + 1 then
          let d1 := { d with hh := b }
          match defineStage d1 with
          | some d' => (d', obs "ok" d')
          | none => (broken d1, obs "panic" (broken d1))
        else (d, obs "err" d)
    | _, _ => (d, "bad-op")
  | "deliver" :: items =>
    if d.stage != .mpt then (d, obs "err" d)
    else
      let (ms, ok) := deliver d.db d.fuel d.ms (parseItems d items)
      if !ok then ({ d with ms := ms }, obs "err" { d with ms := ms })
      else if ms.pool.isEmpty then
        let d' := { d with ms := ms, stage := .blocks, bh := max d.b0 d.storedBh }
        (d', obs "ok" d')
      else ({ d with ms := ms }, obs "ok" { d with ms := ms })
  | ["block", i] =>
    match i.toNat? with
    | some i =>
      if d.stage != .blocks then (d, obs "ok" d)
      else if d.bh == d.p then (d, obs "ok" d)
      else if i != d.bh + 1 then (d, obs s!"err bh={d.bh}" d)
      else
        let d1 := { d with bh := i, storedBh := i }
        if i == d.p then ({ d1 with stage := .inactive }, obs "ok" { d1 with stage := .inactive })
        else (d1, obs s!"ok bh={i}" d1)
    | none => (d, "bad-op")
  | ["smode", n] =>
    match n.toNat? with
    | some n => ({ d with smode := true, nkv := n }, "ok")
    | none => (d, "bad-op")
  | ["sroot"] => (d, obs "ok" d)
  | "kvs" :: toks =>
    if d.stage != .mpt then (d, obs "err" d)
    else
      let upd (d : DS) (t : String) : DS :=
        let wrong := t.startsWith "w"
        match (if wrong then (t.drop 1).toNat? else t.toNat?) with
        | some i =>
          if wrong then { d with good := d.good.filter (· != i), bad := if d.bad.contains i then d.bad else i :: d.bad, lsk := some i }
          else { d with bad := d.bad.filter (· != i), good := if d.good.contains i then d.good else i :: d.good, lsk := some i }
        | none => d
      let d1 := toks.foldl upd d
      let l := match d1.lsk with | some i => s!"lsk={i}" | none => "lsk=-"
      if kvComplete d1 then
        let d2 := { d1 with stage := .blocks, bh := max d1.b0 d1.storedBh }
        (d2, obs s!"ok {l}" d2)
      else (d1, obs s!"ok {l}" d1)
  | "badblock" :: i :: n :: body =>
    -- the genuine header with another transaction list: ids are positions in the real list, f<k> = foreign
    match i.toNat?, n.toNat? with
    | some i, some n =>
      if d.stage != .blocks then (d, obs "ok" d)
      else if d.bh == d.p then (d, obs "ok" d)
      else if i != d.bh + 1 then (d, obs s!"err bh={d.bh}" d)
      else
        let ids := body.map (fun w => match w.toNat? with
          | some k => k
          | none => 1000 + ((w.drop 1).toNat?.getD 0))
        if acceptsBody (List.range n) ids then
          let d1 := { d with bh := i, storedBh := i }
          if i == d.p then ({ d1 with stage := .inactive }, obs "ok" { d1 with stage := .inactive })
          else (d1, obs s!"ok bh={i}" d1)
        else (d, obs s!"err bh={d.bh}" d)
    | _, _ => (d, "bad-op")
  | ["final"] => (d, "synced")
  | _ => (d, "bad-op")

def main : IO Unit := Proto.run ({} : DS) step
